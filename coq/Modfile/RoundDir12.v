(* Round trip, part 12n: the whole statement loop with File.add, followed by fixRetract, and
   the loop with addX: one succeeds exactly when the other does, with the same File and the
   same rebuilt statements ([loop_rel]). *)
From Verif.Base Require Import Bytes Utf8 Strconv QuoteProofs.
From Verif.Semver Require Import Spec Model.
From Verif.Module Require Import Path.
From Verif.Modfile Require Import Syntax Lex Parse Print Directives ProofsLex ProofsDirectives LaxRetract RoundRows
  RoundTree RoundDir1 RoundDir2 RoundDir3 RoundDir4 RoundDir5 RoundDir8 RoundDir9 RoundDir10 RoundDir11 RoundWork.

Lemma refs_from_app : forall a b i, refs_from i (a ++ b) = refs_from i a ++ refs_from (i + length a) b.
Proof.
  induction a as [|y a IH]; intros b i; cbn [app refs_from length].
  - rewrite Nat.add_0_r. reflexivity.
  - rewrite IH, <- app_assoc, <- plus_n_Sm. reflexivity.
Qed.

Lemma refs_len : forall ys i, length (refs_from i ys) = length (flat_map rlines_stmt ys).
Proof.
  induction ys as [|y ys IH]; intros i; cbn [refs_from flat_map]; [reflexivity|].
  rewrite !app_length, IH. f_equal.
  destruct y as [l|b|c]; cbn [refs_stmt rlines_stmt]; [destruct (is_rline l); reflexivity| |reflexivity].
  destruct (is_rblock b); [|reflexivity]. rewrite map_length, seq_length. reflexivity.
Qed.

Lemma fix_ents_app g p : forall l1 e1 e2 l2, length e1 = length l1 ->
  fix_ents g p (e1 ++ e2) (l1 ++ l2) = fix_ents g p e1 l1 ++ fix_ents g p e2 l2.
Proof.
  induction l1 as [|l l1 IH]; intros [|r e1] e2 l2 H; cbn in H; try lia; [reflexivity|].
  cbn [app fix_ents]. rewrite IH by lia. reflexivity.
Qed.

(* errors and faults stay *)
Lemma frl_errs_mono fx path : forall rs syn acc errs panic, errs <> [] ->
  snd (fst (fix_retract_loop fx path rs syn acc errs panic)) <> [].
Proof.
  induction rs as [|r rs IH]; intros syn acc errs panic H; cbn [fix_retract_loop]; [exact H|].
  destruct (get_line syn (rt_syntax r)) as [l|]; [|exact H].
  destruct (l_token l) as [|t0 targs]; [exact H|].
  destruct (parse_version_interval fx path _) as [args' [[[lo hi] r2]|]]; apply IH; [exact H|discriminate].
Qed.

Lemma frl_panic_mono fx path : forall rs syn acc errs,
  snd (fix_retract_loop fx path rs syn acc errs true) = true.
Proof.
  induction rs as [|r rs IH]; intros syn acc errs; cbn [fix_retract_loop]; [reflexivity|].
  destruct (get_line syn (rt_syntax r)) as [l|]; [|reflexivity].
  destruct (l_token l) as [|t0 targs]; [reflexivity|].
  destruct (parse_version_interval fx path _) as [args' [[[lo hi] r2]|]]; apply IH.
Qed.

Section Loop.
Variable g : str -> str -> option str.
Variable p : str.
Notation fx := (Some g).

(* what the run with File.add knows of its retract lines *)
Definition RealInv (st : loop_state file) : Prop :=
  map rt_syntax (fd_retract (lp_file st)) = refs_from 0 (rev (lp_stmts_r st)) /\
  Forall nonempty_toks (flat_map rlines_stmt (rev (lp_stmts_r st))).

Definition fix_errs (st : loop_state file) : list position :=
  flat_map (fix_err g p) (flat_map rlines_stmt (rev (lp_stmts_r st))).

Definition Rel (st sx : loop_state file) : Prop :=
  OK st /\ OK sx /\ nr (lp_file sx) = nr (lp_file st) /\ RealInv st /\ fix_errs st = [] /\
  fd_retract (lp_file sx) = fix_ents g p (fd_retract (lp_file st)) (flat_map rlines_stmt (rev (lp_stmts_r st))) /\
  lp_stmts_r sx = map (fix_stmt g p) (lp_stmts_r st).

Lemma rstep_OK i x st : OK (rstep g i x st) -> OK st.
Proof.
  unfold rstep. intros (He & Hp). split.
  - destruct (lp_errs_r st) eqn:E; [reflexivity|]. exfalso. revert He. apply (stmt_step_errs_mono true fx). rewrite E. discriminate.
  - destruct (lp_panic st) eqn:E; [|reflexivity]. rewrite (stmt_step_panic fx i x st E) in Hp. discriminate.
Qed.

Lemma rloop_OK : forall xs i st, OK (stmts_loop (rstep g) i xs st) -> OK st.
Proof.
  induction xs as [|x xs IH]; intros i st H; cbn [stmts_loop] in H; [exact H|].
  apply (rstep_OK i x). apply (IH (S i)). exact H.
Qed.

Lemma xloop_OK : forall xs i sx, OK (stmts_loop (xstep g p) i xs sx) -> OK sx.
Proof.
  intros xs i sx (He & Hp). split.
  - destruct (lp_errs_r sx) eqn:E; [reflexivity|]. exfalso. revert He.
    apply (g_loop_errs file (addX g p) known_mod_block). rewrite E. discriminate.
  - destruct (lp_panic sx) eqn:E; [|reflexivity].
    pose proof (g_loop_panic file (addX g p) known_mod_block xs i sx E) as Hx.
    change (gstep file (addX g p) known_mod_block) with (xstep g p) in Hx. rewrite Hx in Hp. discriminate.
Qed.

(* the retract lines of a run with File.add *)
Lemma step_real x st : RealInv st -> OK (rstep g (length (lp_stmts_r st)) x st) ->
  RealInv (rstep g (length (lp_stmts_r st)) x st).
Proof.
  intros (R1 & R2) Hok. pose proof (rstep_OK _ _ _ Hok) as Hok0.
  destruct (step_rel g p (length (lp_stmts_r st)) x st st Hok0 Hok0 eq_refl) as (y & Ey & _ & HB).
  destruct (HB Hok) as (N & es & Ees & Erefs & _).
  unfold RealInv. rewrite Ey, Ees. cbn [rev]. rewrite map_app, refs_from_app, flat_map_app. cbn [flat_map refs_from].
  rewrite !app_nil_r. cbn [plus]. rewrite rev_length.
  split; [rewrite R1, Erefs; reflexivity|]. apply Forall_app. split; assumption.
Qed.

Lemma rstep_length i x st : length (lp_stmts_r (rstep g i x st)) = S (length (lp_stmts_r st)).
Proof. apply stmt_step_length. Qed.

Lemma loop_real : forall xs st, RealInv st -> OK (stmts_loop (rstep g) (length (lp_stmts_r st)) xs st) ->
  RealInv (stmts_loop (rstep g) (length (lp_stmts_r st)) xs st).
Proof.
  induction xs as [|x xs IH]; intros st Hr Hok; cbn [stmts_loop] in *; [exact Hr|].
  rewrite <- (rstep_length (length (lp_stmts_r st)) x st) in *.
  apply IH; [|exact Hok]. apply step_real; [exact Hr|]. apply rloop_OK in Hok. exact Hok.
Qed.

(* the rebuilt statements only grow *)
Lemma rloop_stmts : forall xs i st, exists ys,
  lp_stmts_r (stmts_loop (rstep g) i xs st) = rev ys ++ lp_stmts_r st.
Proof. intros xs i st. destruct (stmts_loop_stmts fx xs i st) as (ys & E & _). exists ys. exact E. Qed.

Lemma fix_errs_prefix xs i st : fix_errs (stmts_loop (rstep g) i xs st) = [] -> fix_errs st = [].
Proof.
  unfold fix_errs. destruct (rloop_stmts xs i st) as (ys & ->).
  rewrite rev_app_distr, rev_involutive, !flat_map_app. intros H. apply app_eq_nil in H. apply H.
Qed.

Lemma step_rel_all x st sx : Rel st sx ->
  let st' := rstep g (length (lp_stmts_r st)) x st in
  let sx' := xstep g p (length (lp_stmts_r st)) x sx in
  OK sx' \/ (OK st' /\ fix_errs st' = []) -> Rel st' sx'.
Proof.
  intros (Hok & HokX & Hnr & (R1 & R2) & Hfe & HrX & HsX). cbv zeta. intros H.
  destruct (step_rel g p (length (lp_stmts_r st)) x st sx Hok HokX Hnr) as (y & Ey & HA & HB).
  assert (Hboth : OK (rstep g (length (lp_stmts_r st)) x st) /\ flat_map (fix_err g p) (rlines_stmt y) = []).
  { destruct H as [H|(H1 & H2)]; [apply HA; exact H|]. split; [exact H1|].
    unfold fix_errs in H2. rewrite Ey in H2. cbn [rev] in H2. rewrite !flat_map_app in H2. cbn [flat_map] in H2.
    rewrite app_nil_r in H2. apply app_eq_nil in H2. apply H2. }
  destruct Hboth as (Hok' & Hfy).
  destruct (HB Hok') as (N & es & Ees & Erefs & HX). destruct (HX Hfy) as (X1 & X2 & X3 & X4).
  assert (Hlen : length (fd_retract (lp_file st)) = length (flat_map rlines_stmt (rev (lp_stmts_r st)))).
  { rewrite <- (map_length rt_syntax), R1. apply refs_len. }
  unfold Rel. split; [exact Hok'|]. split; [exact X1|]. split; [exact X2|].
  split.
  { unfold RealInv. rewrite Ey, Ees. cbn [rev]. rewrite map_app, refs_from_app, flat_map_app. cbn [flat_map refs_from].
    rewrite !app_nil_r. cbn [plus]. rewrite rev_length.
    split; [rewrite R1, Erefs; reflexivity|]. apply Forall_app. split; assumption. }
  split.
  { unfold fix_errs in *. rewrite Ey. cbn [rev]. rewrite !flat_map_app. cbn [flat_map]. rewrite app_nil_r, Hfe, Hfy. reflexivity. }
  split.
  { rewrite X3, Ees, Ey. cbn [rev]. rewrite flat_map_app. cbn [flat_map]. rewrite app_nil_r.
    rewrite fix_ents_app by exact Hlen. rewrite HrX. reflexivity. }
  rewrite X4, Ey, HsX. reflexivity.
Qed.

Theorem loop_rel : forall xs st sx, Rel st sx ->
  let stf := stmts_loop (rstep g) (length (lp_stmts_r st)) xs st in
  let sxf := stmts_loop (xstep g p) (length (lp_stmts_r st)) xs sx in
  OK sxf \/ (OK stf /\ fix_errs stf = []) -> Rel stf sxf.
Proof.
  induction xs as [|x xs IH]; intros st sx Hrel; cbv zeta; cbn [stmts_loop]; intros H; [exact Hrel|].
  assert (H' : OK (xstep g p (length (lp_stmts_r st)) x sx) \/
               (OK (rstep g (length (lp_stmts_r st)) x st) /\ fix_errs (rstep g (length (lp_stmts_r st)) x st) = [])).
  { destruct H as [H|(H1 & H2)]; [left; eapply xloop_OK; exact H|right].
    split; [eapply rloop_OK; exact H1|eapply fix_errs_prefix; exact H2]. }
  pose proof (step_rel_all x st sx Hrel H') as Hrel'. cbv zeta in Hrel'.
  rewrite <- (rstep_length (length (lp_stmts_r st)) x st) in *.
  apply (IH _ _ Hrel'). exact H.
Qed.
End Loop.
