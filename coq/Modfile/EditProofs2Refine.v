(* C08: SetRequire, SetRequireSeparateIndirect and SetUse refine their documented step [kstep]:
   abs (result) = kdedup (the keyed list with [set_keyed] applied). *)
From Coq Require Import Permutation.
From Verif.Base Require Import Bytes.
From Verif.Modfile Require Import EditModel EditOps EditSpec EditProofsTyped EditProofsHeap EditProofsCoherent
  EditProofsCleanup EditProofsAddLine EditProofsAdd EditProofsUpsert EditProofsSort EditProofsSeq EditProofsExact
  EditProofsBlocks EditProofsSetRequire EditProofsComments
  EditProofs2Blocks EditProofs2Settable EditProofs2Sri EditProofs2Inv EditProofs2Keyed EditProofs2NeedOrder.

(* ---------------------------------------------------------------- maps *)
Lemma amap_set_map {V E} (mk : str -> V -> E) k x (m : list (str * V)) :
  amap_set k (mk k x) (map (fun kv => (fst kv, mk (fst kv) (snd kv))) m)
  = map (fun kv => (fst kv, mk (fst kv) (snd kv))) (amap_set k x m).
Proof.
  induction m as [|[k' x'] r IH]; [reflexivity|]. cbn [map amap_set fst snd].
  destruct (str_cmp k k'); cbn [map fst snd]; [reflexivity | reflexivity | rewrite IH; reflexivity].
Qed.

Definition mkR (k : str) (x : str * bool) : req := (k, fst x, snd x).
Definition mkU (k : str) (m : str) : str * str := (k, m).

Lemma want_reqs_need l : want_reqs l = want mkR (sri_need l).
Proof.
  unfold want_reqs, sri_need, want.
  assert (G : forall acc, fold_left (fun m (q : req) => amap_set (req_path q) q m) l
                            (map (fun kv => (fst kv, mkkv mkR kv)) acc)
                          = map (fun kv => (fst kv, mkkv mkR kv))
                              (fold_left (fun m (q : req) => let '(p, v, ind) := q in amap_set p (v, ind) m) l acc)).
  { induction l as [|[[p v] ind] r IH]; intros acc; [reflexivity|]. cbn [fold_left].
    rewrite <- IH. f_equal. exact (amap_set_map mkR p (v, ind) acc). }
  exact (G []).
Qed.

Definition use_need (l : list (str * str)) : list (str * str) :=
  fold_left (fun m (q : str * str) => amap_set (fst q) (snd q) m) l [].

Lemma want_uses_need l : want_uses l = want mkU (use_need l).
Proof.
  unfold want_uses, use_need, want.
  assert (G : forall acc, fold_left (fun m (q : str * str) => amap_set (fst q) q m) l
                            (map (fun kv => (fst kv, mkkv mkU kv)) acc)
                          = map (fun kv => (fst kv, mkkv mkU kv))
                              (fold_left (fun m (q : str * str) => amap_set (fst q) (snd q) m) l acc)).
  { induction l as [|[p m0] r IH]; intros acc; [reflexivity|]. cbn [fold_left fst snd].
    rewrite <- IH. f_equal. exact (amap_set_map mkU p m0 acc). }
  exact (G []).
Qed.

Lemma set_require_need_fold l : forall acc,
  NoDup (map req_path l ++ keys acc) ->
  set_require_need l acc = Some (fold_left (fun m (q : req) => let '(p, v, ind) := q in amap_set p (v, ind) m) l acc).
Proof.
  induction l as [|[[p v] ind] r IH]; intros acc Hnd; [reflexivity|]. cbn [set_require_need fold_left].
  cbn in Hnd. inversion Hnd as [|? ? Hni Hr]; subst.
  assert (Hfresh : ~ In p (keys acc)) by (intros H; apply Hni; apply in_app_iff; tauto).
  rewrite (not_in_keys_get p acc Hfresh). apply IH.
  eapply Permutation_NoDup; [|exact Hnd]. cbn.
  etransitivity; [apply Permutation_middle|]. apply Permutation_app_head.
  symmetry. apply (keys_perm _ _ (amap_set_fresh_perm p (v, ind) acc Hfresh)).
Qed.

Section NeedFacts.
  Context {V : Type} (need : list (str * V)).
  Hypothesis need_nodup : NoDup (keys need).

  Lemma filter_nin_nil : filter (nin []) need = need.
  Proof. clear need_nodup. induction need as [|x r IH]; cbn; [reflexivity | rewrite IH; reflexivity]. Qed.

  Lemma amap_get_filter_nin have k :
    amap_get k (filter (nin have) need) = if existsb (str_eqb k) have then None else amap_get k need.
  Proof.
    induction need as [|[k' x] r IH]; cbn [filter amap_get]; [destruct (existsb _ _); reflexivity|].
    cbn [keys map fst] in need_nodup. inversion need_nodup as [|? ? Hni Hr]; subst. specialize (IH Hr).
    unfold nin at 1. cbn [fst].
    destruct (str_eqb k k') eqn:Ek.
    - apply str_eqb_eq in Ek. subst k'. destruct (existsb (str_eqb k) have) eqn:Eh; cbn [negb amap_get fst].
      + exact IH.
      + rewrite str_eqb_refl. reflexivity.
    - destruct (existsb (str_eqb k') have); cbn [negb amap_get fst]; [exact IH|]. rewrite Ek. exact IH.
  Qed.

  Lemma amap_del_filter_nin have k : amap_del k (filter (nin have) need) = filter (nin (k :: have)) need.
  Proof.
    clear need_nodup. unfold amap_del. rewrite filter_filter. apply filter_ext. intros kv. unfold nin. cbn [existsb].
    rewrite Bool.negb_orb. apply Bool.andb_comm.
  Qed.
End NeedFacts.

(* ---------------------------------------------------------------- the loops compute [kl] *)
Lemma projR_live_cons r rest :
  map projR (filter liveR (r :: rest))
  = if nonempty (rq_path r) then projR r :: map projR (filter liveR rest) else map projR (filter liveR rest).
Proof. cbn [filter]. unfold liveR at 1. destruct (nonempty (rq_path r)); reflexivity. Qed.

Lemma projR_zero_cons rest : map projR (filter liveR (zero_require :: rest)) = map projR (filter liveR rest).
Proof. reflexivity. Qed.

Lemma keys_filter_nonil {V} (need : list (str * V)) have :
  (forall k, In k (keys need) -> k <> []) -> ~ In [] (keys (filter (nin have) need)).
Proof.
  intros Hne Hin. unfold keys in Hin. apply in_map_iff in Hin. destruct Hin as [kv [Ek Hin]]. apply filter_In in Hin.
  apply (Hne []); [|reflexivity]. rewrite <- Ek. apply in_map. tauto.
Qed.

Lemma set_require_loop_kl need : NoDup (keys need) -> (forall k, In k (keys need) -> k <> []) ->
  forall l s have s' l' N',
  set_require_loop s (filter (nin have) need) l = Some (s', l', N') ->
  map projR (filter liveR l') = fst (kl req_path mkR need have (map projR (filter liveR l))) /\
  N' = filter (nin (snd (kl req_path mkR need have (map projR (filter liveR l))))) need.
Proof.
  intros Hnd Hne. induction l as [|r rest IH]; intros s have s' l' N' H; cbn [set_require_loop] in H.
  - injection H as _ <- <-. auto.
  - destruct (rq_syn r) as [i|]; [|discriminate].
    rewrite (amap_get_filter_nin need Hnd) in H.
    assert (Hnil : amap_get [] need = None) by (apply not_in_keys_get; intros Hin; exact (Hne [] Hin eq_refl)).
    assert (Hdel : amap_del [] (filter (nin have) need) = filter (nin have) need)
      by (apply amap_del_notin; apply keys_filter_nonil; exact Hne).
    rewrite projR_live_cons.
    assert (Hskip : forall s0, set_require_loop s0 (amap_del [] (filter (nin have) need)) rest <> None ->
              (do (s', l', need') <- set_require_loop s0 (amap_del [] (filter (nin have) need)) rest;
               Some (s', zero_require :: l', need')) = Some (s', l', N') ->
              map projR (filter liveR l') = fst (kl req_path mkR need have (map projR (filter liveR rest))) /\
              N' = filter (nin (snd (kl req_path mkR need have (map projR (filter liveR rest))))) need).
    { intros s0 _ H0. rewrite Hdel in H0.
      destruct (set_require_loop s0 _ rest) as [[[s1 l1] N1]|] eqn:Hr; [|discriminate]. injection H0 as _ <- <-.
      rewrite projR_zero_cons. exact (IH _ _ _ _ _ Hr). }
    destruct (nonempty (rq_path r)) eqn:Hl.
    + cbn [kl]. change (req_path (projR r)) with (rq_path r).
      destruct (existsb (str_eqb (rq_path r)) have) eqn:Eh.
      * destruct (amap_get (rq_path r) need); apply (Hskip (mark_removed s i)); try exact H;
          (intros E; rewrite E in H; discriminate).
      * destruct (amap_get (rq_path r) need) as [[v ind]|] eqn:Eg.
        -- destruct (set_require_loop _ _ rest) as [[[s1 l1] N1]|] eqn:Hr; [|discriminate]. injection H as _ <- <-.
           rewrite (amap_del_filter_nin need) in Hr. destruct (IH _ _ _ _ _ Hr) as [A Bq].
           destruct (kl req_path mkR need (rq_path r :: have) (map projR (filter liveR rest))) as [o h]. cbn [fst snd] in *.
           rewrite projR_live_cons. cbn [rq_path]. rewrite Hl, A. split; [reflexivity | exact Bq].
        -- apply (Hskip (mark_removed s i)); [intros E; rewrite E in H; discriminate | exact H].
    + assert (Ep : rq_path r = []) by (destruct (rq_path r); [reflexivity | discriminate]).
      rewrite Ep, Hnil in H.
      destruct (existsb (str_eqb []) have); apply (Hskip (mark_removed s i)); try exact H;
        (intros E; rewrite E in H; discriminate).
Qed.

Lemma sri_loop_kl need one_flat l2b dbid ibid : (forall k, In k (keys need) -> k <> []) ->
  forall l s have s' l' have',
  sri_loop s need have one_flat l2b dbid ibid l = Some (s', l', have') ->
  map projR (filter liveR l') = fst (kl req_path mkR need have (map projR (filter liveR l))) /\
  have' = snd (kl req_path mkR need have (map projR (filter liveR l))).
Proof.
  intros Hne. induction l as [|r rest IH]; intros s have s' l' have' H; cbn [sri_loop] in H.
  - injection H as _ <- <-. auto.
  - destruct (rq_syn r) as [i|]; [|discriminate].
    assert (Hnil : amap_get [] need = None) by (apply not_in_keys_get; intros Hin; exact (Hne [] Hin eq_refl)).
    rewrite projR_live_cons.
    assert (Hskip : (do (s', l', have') <- sri_loop (mark_removed s i) need have one_flat l2b dbid ibid rest;
                     Some (s', zero_require :: l', have')) = Some (s', l', have') ->
              map projR (filter liveR l') = fst (kl req_path mkR need have (map projR (filter liveR rest))) /\
              have' = snd (kl req_path mkR need have (map projR (filter liveR rest)))).
    { intros H0. destruct (sri_loop _ _ _ _ _ _ _ rest) as [[[s1 l1] h1]|] eqn:Hr; [|discriminate]. injection H0 as _ <- <-.
      rewrite projR_zero_cons. exact (IH _ _ _ _ _ Hr). }
    destruct (nonempty (rq_path r)) eqn:Hl.
    + cbn [kl]. change (req_path (projR r)) with (rq_path r).
      destruct (amap_get (rq_path r) need) as [[v ind]|] eqn:Eg; [|apply Hskip; exact H].
      destruct (existsb (str_eqb (rq_path r)) have) eqn:Eh; [apply Hskip; exact H|].
      set (s1 := sset s i _) in H.
      destruct (if ind then if one_flat || opt_nat_eqb (l2b_get i l2b) dbid then Some ibid else None
                else if one_flat || opt_nat_eqb (l2b_get i l2b) ibid then Some dbid else None) as [bid|].
      * destruct (move_req s1 i bid) as [s2 n].
        destruct (sri_loop s2 _ _ _ _ _ _ rest) as [[[s3 l3] h3]|] eqn:Hr; [|discriminate]. injection H as _ <- <-.
        destruct (IH _ _ _ _ _ Hr) as [A Bq].
        destruct (kl req_path mkR need (rq_path r :: have) (map projR (filter liveR rest))) as [o h]. cbn [fst snd] in *.
        rewrite projR_live_cons. cbn [rq_path]. rewrite Hl, A. split; [reflexivity | exact Bq].
      * destruct (sri_loop s1 _ _ _ _ _ _ rest) as [[[s3 l3] h3]|] eqn:Hr; [|discriminate]. injection H as _ <- <-.
        destruct (IH _ _ _ _ _ Hr) as [A Bq].
        destruct (kl req_path mkR need (rq_path r :: have) (map projR (filter liveR rest))) as [o h]. cbn [fst snd] in *.
        rewrite projR_live_cons. cbn [rq_path]. rewrite Hl, A. split; [reflexivity | exact Bq].
    + assert (Ep : rq_path r = []) by (destruct (rq_path r); [reflexivity | discriminate]).
      rewrite Ep, Hnil in H. apply Hskip. exact H.
Qed.

Lemma projU_live_cons u rest :
  map projU (filter liveU (u :: rest))
  = if nonempty (us_path u) then projU u :: map projU (filter liveU rest) else map projU (filter liveU rest).
Proof. cbn [filter]. unfold liveU at 1. destruct (nonempty (us_path u)); reflexivity. Qed.

Lemma set_use_loop_kl (need : list (str * str)) : NoDup (keys need) -> (forall k, In k (keys need) -> k <> []) ->
  forall l s have s' l' N',
  set_use_loop s (filter (nin have) need) l = Some (s', l', N') ->
  map projU (filter liveU l') = fst (kl fst mkU need have (map projU (filter liveU l))) /\
  N' = filter (nin (snd (kl fst mkU need have (map projU (filter liveU l))))) need.
Proof.
  intros Hnd Hne. induction l as [|u rest IH]; intros s have s' l' N' H; cbn [set_use_loop] in H.
  - injection H as _ <- <-. auto.
  - rewrite (amap_get_filter_nin need Hnd) in H.
    assert (Hnil : amap_get [] need = None) by (apply not_in_keys_get; intros Hin; exact (Hne [] Hin eq_refl)).
    rewrite projU_live_cons.
    assert (Hskip : (do i <- us_syn u; do (s', l', need') <- set_use_loop (mark_removed s i) (filter (nin have) need) rest;
                     Some (s', zero_use :: l', need')) = Some (s', l', N') ->
              map projU (filter liveU l') = fst (kl fst mkU need have (map projU (filter liveU rest))) /\
              N' = filter (nin (snd (kl fst mkU need have (map projU (filter liveU rest))))) need).
    { clear H. intros H0. destruct (us_syn u) as [i|]; [|discriminate].
      destruct (set_use_loop (mark_removed s i) (filter (nin have) need) rest) as [[[s1 l1] N1]|] eqn:Hr; [|discriminate]. injection H0 as _ <- <-.
      change (map projU (filter liveU (zero_use :: l1))) with (map projU (filter liveU l1)). exact (IH _ _ _ _ _ Hr). }
    destruct (nonempty (us_path u)) eqn:Hl.
    + cbn [kl]. change (fst (projU u)) with (us_path u).
      destruct (existsb (str_eqb (us_path u)) have) eqn:Eh.
      * destruct (amap_get (us_path u) need); apply Hskip; exact H.
      * destruct (amap_get (us_path u) need) as [mp|] eqn:Eg; [|apply Hskip; exact H].
        destruct (set_use_loop _ _ rest) as [[[s1 l1] N1]|] eqn:Hr; [|discriminate]. injection H as _ <- <-.
        rewrite (amap_del_filter_nin need) in Hr. destruct (IH _ _ _ _ _ Hr) as [A Bq].
        destruct (kl fst mkU need (us_path u :: have) (map projU (filter liveU rest))) as [o h]. cbn [fst snd] in *.
        rewrite projU_live_cons. cbn [us_path]. rewrite Hl, A. split; [reflexivity | exact Bq].
    + assert (Ep : us_path u = []) by (destruct (us_path u); [reflexivity | discriminate]).
      rewrite Ep, Hnil in H. destruct (existsb (str_eqb []) have); apply Hskip; exact H.
Qed.

(* ---------------------------------------------------------------- the three setters *)
Lemma mkkv_toReq kv : mkkv mkR kv = toReq kv.
Proof. destruct kv as [k [v i]]. reflexivity. Qed.

Lemma kset_require_twice k a b : kset_require (kset_require k a) b = kset_require k b.
Proof. reflexivity. Qed.
Lemma kset_use_twice k a b : kset_use (kset_use k a) b = kset_use k b.
Proof. reflexivity. Qed.

Lemma abs_add_reqs N : forall f, (forall k, In k (keys N) -> k <> []) ->
  abs (add_reqs N f) = kset_require (abs f) (k_require (abs f) ++ map toReq N).
Proof.
  induction N as [|[p [v ind]] r IH]; intros f Hne; cbn [add_reqs fold_left map].
  - rewrite app_nil_r. unfold kset_require, abs. reflexivity.
  - fold (add_reqs r (add_new_require f p v ind)).
    rewrite IH by (intros k Hk; apply Hne; right; exact Hk).
    rewrite add_new_require_abs by (apply Hne; left; reflexivity). cbn [kstep fst k_require kset_require].
    rewrite <- app_assoc. reflexivity.
Qed.

Lemma abs_add_uses N : forall f, (forall k, In k (keys N) -> k <> []) ->
  abs (add_uses N f) = kset_use (abs f) (k_use (abs f) ++ N).
Proof.
  induction N as [|[p m] r IH]; intros f Hne; cbn [add_uses fold_left].
  - rewrite app_nil_r. unfold kset_use, abs. reflexivity.
  - fold (add_uses r (add_new_use f p m)).
    rewrite IH by (intros k Hk; apply Hne; right; exact Hk).
    rewrite add_new_use_abs by (apply Hne; left; reflexivity). cbn [kstep fst k_use kset_use].
    rewrite <- app_assoc. reflexivity.
Qed.

Lemma need_filter_keys {V} (need : list (str * V)) have :
  (forall k, In k (keys need) -> k <> []) -> forall k, In k (keys (filter (nin have) need)) -> k <> [].
Proof.
  intros Hne k Hk. apply Hne. unfold keys in *. apply in_map_iff in Hk. destruct Hk as [kv [<- Hin]].
  apply filter_In in Hin. apply in_map. tauto.
Qed.

Theorem set_require_refines f l f' :
  distinct_paths (map req_path l) = true -> Coherent f -> RequireSettable f ->
  set_require f l = Some f' -> abs f' = fst (kstep (SetRequire l) (abs f)).
Proof.
  intros Hd Hc Hset H. apply distinct_paths_spec in Hd. destruct Hd as [Hnd Hne].
  destruct (need_of_requests l Hnd Hne) as [_ [Hnd' Hne']]. fold (sri_need l) in Hnd', Hne'.
  unfold set_require in H. rewrite set_require_need_fold in H by (cbn; rewrite app_nil_r; exact Hnd).
  fold (sri_need l) in H. set (need := sri_need l) in *.
  destruct (set_require_loop (fsyn f) need (f_require f)) as [[[s rs] N']|] eqn:Hl; [|discriminate]. injection H as <-.
  rewrite <- (filter_nin_nil need) in Hl.
  destruct (set_require_loop_kl need Hnd' Hne' _ _ _ _ _ _ Hl) as [A Bq].
  set (f1 := with_require (with_syn f s) rs).
  assert (Hc1 : Coherent f1).
  { apply coherent_S. unfold f1. rewrite entries_require. cbn [fsyn with_require with_syn f_require].
    apply coherent_S in Hc. rewrite entries_require in Hc. rewrite filter_nin_nil in Hl.
    eapply set_require_loop_S; [exact Hc | exact Hset | exact Hl]. }
  assert (HneN : forall k, In k (keys N') -> k <> []) by (rewrite Bq; apply need_filter_keys; exact Hne').
  assert (Hcg : Coherent (add_reqs N' f1)).
  { apply fold_add_new_require_coherent; [exact HneN | exact Hc1]. }
  change (fold_left (fun g kv => add_new_require g (fst kv) (fst (snd kv)) (snd (snd kv))) N' f1) with (add_reqs N' f1).
  rewrite (sort_blocks_abs _ (coherent_dedupwf _ Hcg)), (abs_add_reqs N' f1 HneN).
  cbn [kstep fst]. f_equal.
  change (abs f1) with (kset_require (abs f) (map projR (filter liveR rs))).
  rewrite kset_require_twice. cbn [k_require kset_require]. f_equal.
  rewrite want_reqs_need. fold need.
  rewrite <- (kl_set_keyed req_path mkR need Hnd').
  rewrite A, Bq. change (k_require (abs f)) with (map projR (filter liveR (f_require f))).
  reflexivity.
Qed.

Theorem set_require_separate_refines f l f' :
  distinct_paths (map req_path l) = true -> Coherent f -> BlockIdsOk (fsyn f) -> RequireSettable f ->
  set_require_separate_indirect f l = Some f' -> abs f' = fst (kstep (SetRequireSeparateIndirect l) (abs f)).
Proof.
  intros Hd Hc Hb Hset H.
  destruct (sri_steps_exist f l f' H) as [s1 [dbid [di [ii [s2 [ibid [s3 [rs [have [s4 [rs' St]]]]]]]]]]].
  destruct (sri_pre_sort_explicit _ _ _ _ _ _ _ _ _ _ _ _ _ _ Hd Hc Hb Hset St) as [Hcg _].
  destruct St as [_ [_ [E3 [E4 ->]]]].
  apply distinct_paths_spec in Hd. destruct Hd as [Hnd Hne].
  destruct (need_of_requests l Hnd Hne) as [_ [Hnd' Hne']]. fold (sri_need l) in Hnd', Hne'.
  set (need := sri_need l) in *.
  destruct (sri_loop_kl need _ _ _ _ Hne' _ _ _ _ _ _ E3) as [A Bq].
  pose proof (sri_add_new_abs dbid ibid have need s3 rs Hne') as A4. rewrite E4 in A4. cbn [snd] in A4.
  rewrite (sort_blocks_abs _ (coherent_dedupwf _ Hcg)).
  cbn [kstep fst]. f_equal.
  change (abs (with_require (with_syn f s4) rs')) with (kset_require (abs f) (map projR (filter liveR rs'))).
  cbn [k_require kset_require]. f_equal.
  rewrite want_reqs_need. fold need.
  rewrite <- (kl_set_keyed req_path mkR need Hnd').
  rewrite A4, A, Bq.
  change (notin (snd (kl req_path mkR need [] (map projR (filter liveR (f_require f))))))
    with (nin (V := str * bool) (snd (kl req_path mkR need [] (map projR (filter liveR (f_require f)))))).
  change (k_require (abs f)) with (map projR (filter liveR (f_require f))).
  reflexivity.
Qed.

Theorem set_use_refines f (l : list (str * str)) f' :
  distinct_paths (map fst l) = true -> Coherent f ->
  set_use f l = Some f' -> abs f' = fst (kstep (WSetUse l) (abs f)).
Proof.
  intros Hd Hc H. apply distinct_paths_spec in Hd. destruct Hd as [Hnd Hne].
  unfold set_use in H. fold (use_need l) in H. set (need := use_need l) in *.
  assert (HP : Permutation need l).
  { unfold need, use_need. rewrite fold_amap_set_perm; [rewrite app_nil_r; reflexivity | cbn; rewrite app_nil_r; exact Hnd]. }
  assert (Hnd' : NoDup (keys need)) by (eapply Permutation_NoDup; [symmetry; apply (keys_perm _ _ HP) | exact Hnd]).
  assert (Hne' : forall k, In k (keys need) -> k <> []).
  { intros k Hk. rewrite Forall_forall in Hne. apply Hne. eapply Permutation_in; [apply (keys_perm _ _ HP) | exact Hk]. }
  destruct (set_use_loop (fsyn f) need (f_use f)) as [[[s us] N']|] eqn:Hl; [|discriminate]. injection H as <-.
  rewrite <- (filter_nin_nil need) in Hl.
  destruct (set_use_loop_kl need Hnd' Hne' _ _ _ _ _ _ Hl) as [A Bq].
  set (f1 := with_use (with_syn f s) us).
  assert (Hc1 : Coherent f1).
  { apply coherent_S. unfold f1. rewrite entries_use. cbn [fsyn with_use with_syn f_use].
    apply coherent_S in Hc. rewrite entries_use in Hc. rewrite filter_nin_nil in Hl. eapply set_use_loop_S; eauto. }
  assert (HneN : forall k, In k (keys N') -> k <> []) by (rewrite Bq; apply need_filter_keys; exact Hne').
  assert (Hcg : Coherent (add_uses N' f1)) by (apply fold_add_new_use_coherent; [exact HneN | exact Hc1]).
  change (fold_left (fun g kv => add_new_use g (fst kv) (snd kv)) N' f1) with (add_uses N' f1).
  rewrite (w_sort_blocks_abs _ (coherent_dedupwf _ Hcg)), (abs_add_uses N' f1 HneN).
  cbn [kstep fst]. f_equal.
  change (abs f1) with (kset_use (abs f) (map projU (filter liveU us))).
  rewrite kset_use_twice. cbn [k_use kset_use]. f_equal.
  rewrite want_uses_need. fold need.
  rewrite <- (kl_set_keyed fst mkU need Hnd').
  rewrite A, Bq. change (k_use (abs f)) with (map projU (filter liveU (f_use f))).
  f_equal. rewrite <- (map_id (filter _ need)) at 1. apply map_ext. intros [k m]. reflexivity.
Qed.

(* ---------------------------------------------------------------- every operation, every sequence *)
Theorem apply_refines_inv o f :
  valid_args o = true -> EditInv f -> res_refines o f (apply o f).
Proof.
  intros Hv [Hc Hb Hs].
  destruct (ref_op o) eqn:Er; [apply apply_refines_coherent; assumption|].
  destruct o; try discriminate Er; cbn [apply]; cbn in Hv; apply lift_refines; try reflexivity; intros f' H.
  - apply set_require_refines; try assumption. apply heap_settable_require. exact Hs.
  - apply set_require_separate_refines; try assumption. apply heap_settable_require. exact Hs.
  - apply set_use_refines; assumption.
Qed.

Theorem run_refines_all ops : forall f k er errs f',
  EditInv f -> Forall (fun o => valid_args o = true) ops ->
  run_from k er ops f = RunOk errs f' ->
  EditInv f' /\ krun ops (abs f) er = (abs f', errs).
Proof.
  induction ops as [|o r IH]; intros f k er errs f' Hi Hall H; cbn in H.
  - injection H as <- <-. split; [exact Hi | reflexivity].
  - inversion Hall as [|? ? Hv Hr]; subst.
    pose proof (apply_refines_inv o f Hv Hi) as Href. unfold res_refines in Href.
    cbn [krun].
    destruct (apply o f) as [f1|f1|] eqn:Ha; [| |discriminate].
    + rewrite Href. apply (IH f1 (S k)); [|exact Hr | exact H].
      eapply edit_inv_step; eauto.
    + destruct Href as [-> Hk]. destruct (kstep o (abs f)) as [k1 e1] eqn:Ek. cbn in Hk. subst e1.
      assert (k1 = abs f).
      { destruct o; cbn in Ek;
          repeat match type of Ek with
                 | (if ?c then _ else _) = _ => destruct c
                 | (let (_, _) := ?c in _) = _ => destruct c
                 end; try (injection Ek as <-; reflexivity); try discriminate. }
      subst k1. apply (IH f (S k)); [exact Hi | exact Hr | exact H].
Qed.

Theorem run_ops_refines_all ops f errs f' :
  Coherent f -> BlockIdsOk (fsyn f) -> HeapSettable (fsyn f) ->
  Forall (fun o => valid_args o = true) ops ->
  run_ops ops f = RunOk errs f' ->
  (Coherent f' /\ BlockIdsOk (fsyn f') /\ HeapSettable (fsyn f')) /\ krun ops (abs f) [] = (abs f', errs).
Proof.
  intros Hc Hb Hs Hall H.
  destruct (run_refines_all ops f O [] errs f' (Build_EditInv f Hc Hb Hs) Hall H) as [[A Bq C] R]. auto.
Qed.
