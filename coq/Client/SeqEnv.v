(* Client/SeqEnv.v — interference-closed refinement of mergeLatestMem / mergeLatest of
   Client/Seq.v (/repo/sumdb/client.go:304-424).  MODEL FILE: no proofs here (see SeqEnvProofs.v).

   The sequential model Seq.v never takes
     * the RETRY branch of mergeLatestMem (c.latest changed between the snapshot taken under
       latestMu and the install), nor
     * a re-read of c.latestMsg that differs from the head mergeLatestMem just compared
       (mergeLatest reads c.latestMsg again before WriteConfig),
   because no other lookup of the same client runs in between.  Here an ENVIRONMENT — the other
   lookups of the same Client — may replace (c.latest, c.latestMsg) at every point where the code
   re-reads them:
       env  := list envf                      one entry per such point, consumed left to right
       envf := tree -> str -> option (tree * str)
                                              given the current (latest, latestMsg): Some (t, m) =
                                              "another lookup installed (t, m)", None = nothing happened
   (what the environment may install is constrained in the theorems, not here: env_ok of
   SeqEnvProofs.v — a head signed under the configured key that extends the current one, which is
   exactly what another mergeLatestMem can install).
   The other writer of the CONFIGURATION is already part of Seq.v's world (w_interf: what another
   process stores in <name>/latest just before a WriteConfig, any bytes); the compare-and-swap loop
   below runs over that world unchanged.

   Exported
     tree_eqb                      c.latest == latest (struct comparison of tlog.Tree)
     env_point e : M env           the environment takes its next turn (no-op when e = [])
     mem_loop_env fuel tr msg latest latest_msg e : M ((when + cerr) * env)
                                   the for loop of mergeLatestMem from the snapshot (latest, latest_msg);
                                   fuel = pending environment turns + 1 (each retry consumes a turn that
                                   changed c.latest), exhaustion = inr EFuelC, excluded by
                                   SeqEnvProofs.mem_loop_env_spec
     merge_latest_mem_env msg e    mergeLatestMem
     merge_loop_env fuel e         the for loop of mergeLatest (fuel = pending interferences + 1)
     merge_latest_env msg e        mergeLatest
   With e = [] these are Seq.merge_latest_mem / merge_loop / merge_latest (SeqEnvProofs.v,
   merge_latest_mem_env_nil, merge_loop_env_nil, merge_latest_env_nil). *)
From Verif.Base Require Import Bytes.
From Verif.Tlog Require Import Index Tree Codec Tile TileReader.
From Verif.Note Require Import Note.
From Verif.Client Require Import Seq.

Definition envf := tree -> str -> option (tree * str).
Definition env := list envf.

(* c.latest == latest *)
Definition tree_eqb (a b : tree) : bool :=
  (Codec.tN a =? Codec.tN b) && str_eqb (Codec.tH a) (Codec.tH b).

(* the environment takes its next turn: another lookup may install a head *)
Definition env_point (e : env) : M env :=
  match e with
  | [] => ret []
  | f :: rest =>
      c <- get_client ;;
      match f (c_latest c) (c_latest_msg c) with
      | Some (t, m) => install t m ;;; ret rest
      | None => ret rest
      end
  end.

Section ClientEnv.
Variable node_hash : hash -> hash -> hash.
Variable V : str -> str -> str -> bool.

(* for { … } of mergeLatestMem; (latest, latest_msg) is the snapshot taken under latestMu *)
Fixpoint mem_loop_env (fuel : nat) (tr : tree) (msg : str) (latest : tree) (latest_msg : str) (e : env)
  : M ((when + cerr) * env) :=
  match fuel with
  | O => ret (inr EFuelC, e)
  | S f =>
      if Codec.tN tr <=? Codec.tN latest then
        r <- check_trees node_hash tr msg latest latest_msg ;;
        match r with
        | Some err => ret (inr err, e)
        | None => ret (inl (if Codec.tN tr <? Codec.tN latest then MsgPast else MsgNow), e)
        end
      else
        r <- check_trees node_hash latest latest_msg tr msg ;;
        match r with
        | Some err => ret (inr err, e)
        | None =>
            (* c.latestMu.Lock(): by now another lookup may have moved c.latest *)
            e' <- env_point e ;;
            c <- get_client ;;
            if tree_eqb (c_latest c) latest then
              install tr msg ;;; ret (inl MsgFuture, e')
            else
              (* latest = c.latest; latestMsg = c.latestMsg; go around again *)
              mem_loop_env f tr msg (c_latest c) (c_latest_msg c) e'
        end
  end.

(* c.mergeLatestMem(msg) *)
Definition merge_latest_mem_env (msg : str) (e : env) : M ((when + cerr) * env) :=
  c <- get_client ;;
  match msg with
  | [] => ret (inl (if Codec.tN (c_latest c) =? 0 then MsgNow else MsgPast), e)
  | _ =>
      match Note.open str V msg (c_verifiers c) with
      | Note.Err _ => ret (inr ENote, e)
      | Note.Ok n =>
          match parse_tree (n_text n) with
          | Index.Err _ => ret (inr ETree, e)
          | Index.Panic => ret (inr EPanicC, e)
          | Index.Ok tr => mem_loop_env (S (length e)) tr msg (c_latest c) (c_latest_msg c) e
          end
      end
  end.

(* the for loop of mergeLatest *)
Fixpoint merge_loop_env (fuel : nat) (e : env) : M (option cerr * env) :=
  match fuel with
  | O => ret (Some EFuelC, e)
  | S f =>
      e0 <- env_point e ;;                       (* before mergeLatestMem takes its snapshot *)
      c <- get_client ;;
      d <- read_config (latest_file (c_name c)) ;;
      match d with
      | None => ret (Some EConfigRead, e0)
      | Some msg =>
          r <- merge_latest_mem_env msg e0 ;;
          match r with
          | (inr err, e1) => ret (Some err, e1)
          | (inl MsgPast, e1) =>
              e2 <- env_point e1 ;;              (* before latestMsg := c.latestMsg is read for the write *)
              c' <- get_client ;;
              ok <- write_config (latest_file (c_name c')) msg (c_latest_msg c') ;;
              if ok then ret (None, e2) else merge_loop_env f e2
          | (inl _, e1) => ret (None, e1)
          end
      end
  end.

(* c.mergeLatest(msg) *)
Definition merge_latest_env (msg : str) (e : env) : M (option cerr * env) :=
  r <- merge_latest_mem_env msg e ;;
  match r with
  | (inr err, e1) => ret (Some err, e1)
  | (inl MsgFuture, e1) =>
      w <- get_world ;;
      merge_loop_env (S (length (w_interf w))) e1
  | (inl _, e1) => ret (None, e1)
  end.

End ClientEnv.
