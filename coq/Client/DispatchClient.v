(* Wire dispatcher for the sequential client model (properties C01 and C13).

   Execution instances of the Section variables of Client/Seq.v:
     sha = Sha256.sha256; leaf_hash = Sha.record_hash; node_hash = Sha.node_hash_sha;
     V key text sig = membership of (key, text, sig) in the table that comes with the case (the
       harness lists every signature it produced; Ed25519 itself is not modelled);
     esc_path / esc_vers = module.EscapePath / EscapeVersion from Module/Escape.v + Module/Path.v;
     skip = never (empty GONOSUMDB).

   Function "Scenario" (Go side: harness/props/c01.go sumCase)
     argument  L[ I height;
                  L[L[S file; S data]..]           configuration files
                  L[L[S file; S data]..]           cache files
                  L[L[S path; S data; I err]..]    remote responses in the order served (the k-th entry
                                                    for a path answers the k-th read of that path)
                  L[L[S key; S text; S sig]..]     the valid signatures
                  L[L[I at; S data]..]             interference before the at-th WriteConfig call
                  L[L[I client; S path; S vers]..] the lookups, in order ]
     result    L[ L[result..]      per lookup: ok L[S line..] | err security | err error | panic
                  L[L[L[S..]; L[S..]]..]   per lookup: sorted ReadRemote paths, sorted ReadCache files
                  L[event..]       in order: L[S wc; S file; S data] | L[S wcfg; S file; S old; S new; I ok]
                                   | L[S rcfg; S file] | L[S sec]
                  I                number of SecurityError callbacks
                  L[L[S file; S data]..]   final configuration, sorted by file name ] *)
From Verif.Base Require Import Bytes Wire Sha256 SortStr.
From Verif.Tlog Require Import Index Tree Codec Sha Tile TileReader.
From Verif.Note Require Import Note.
From Verif.Module Require Import Path Escape.
From Verif.Client Require Import Seq.

(* ---- instances ------------------------------------------------------------------------- *)

Definition esc_path_i (p : str) : option str :=
  match escape_checked (fun s => ok_b (check_module_path s)) p with
  | EOk s => Some s
  | EErr _ => None
  end.

Definition esc_vers_i (v : str) : option str :=
  match escape_checked (fun s => ok_b (check_elem KFile s) && negb (contains_byte 33 s)) v with
  | EOk s => Some s
  | EErr _ => None
  end.

Definition V_table (t : list (str * str * str)) (key text sig : str) : bool :=
  existsb (fun e => match e with (k, x, s) => str_eqb k key && str_eqb x text && str_eqb s sig end) t.

Definition lookup_i (pairs : list (str * str * str)) :=
  lookup sha256 record_hash node_hash_sha (V_table pairs) esc_path_i esc_vers_i (fun _ => false).

(* ---- decoding ---------------------------------------------------------------------------- *)

Fixpoint dec_pairs (l : list val) : option (list (str * str)) :=
  match l with
  | [] => Some []
  | VL [VS f; VS d] :: r => option_map (cons (f, d)) (dec_pairs r)
  | _ => None
  end.

Fixpoint dec_remote (l : list val) : option (list (str * option str)) :=
  match l with
  | [] => Some []
  | VL [VS p; VS d; VI e] :: r =>
      option_map (cons (p, if e =? 0 then Some d else None)) (dec_remote r)
  | _ => None
  end.

Fixpoint dec_sigs (l : list val) : option (list (str * str * str)) :=
  match l with
  | [] => Some []
  | VL [VS k; VS t; VS s] :: r => option_map (cons (k, t, s)) (dec_sigs r)
  | _ => None
  end.

Fixpoint dec_interf (l : list val) : option (list (Z * str)) :=
  match l with
  | [] => Some []
  | VL [VI at_; VS d] :: r => option_map (cons (at_, d)) (dec_interf r)
  | _ => None
  end.

Fixpoint dec_steps (l : list val) : option (list (Z * str * str)) :=
  match l with
  | [] => Some []
  | VL [VI c; VS p; VS v] :: r => option_map (cons (c, p, v)) (dec_steps r)
  | _ => None
  end.

(* the k-th answer recorded for path p *)
Fixpoint remote_fn (entries : list (str * option str)) (k : nat) (p : str) : option str :=
  match entries with
  | [] => None
  | (q, a) :: r =>
      if str_eqb p q then
        match k with
        | O => a
        | S k' => remote_fn r k' p
        end
      else remote_fn r k p
  end.

Definition interf_at (l : list (Z * str)) (k : nat) : option str :=
  match find (fun e => fst e =? Z.of_nat k) (rev l) with   (* the last entry for k wins, as in the harness *)
  | Some e => Some (snd e)
  | None => None
  end.

Definition interf_list (l : list (Z * str)) : list (option str) :=
  let n := fold_left (fun m e => Z.max m (fst e + 1)) l 0 in
  map (interf_at l) (seq 0 (Z.to_nat n)).

(* ---- running ------------------------------------------------------------------------------- *)

Fixpoint client_get (i : Z) (l : list (Z * client)) : option client :=
  match l with
  | [] => None
  | (j, c) :: r => if i =? j then Some c else client_get i r
  end.

Fixpoint client_set (i : Z) (c : client) (l : list (Z * client)) : list (Z * client) :=
  match l with
  | [] => [(i, c)]
  | (j, c') :: r => if i =? j then (i, c) :: r else (j, c') :: client_set i c r
  end.

Definition enc_res (r : lres) : val :=
  match r with
  | LOk lines => VOk (VL (map VS lines))
  | LSkip => VErr "gonosumdb"
  | LErr ESecurity => VErr "security"
  | LErr EPanicC => VPanic
  | LErr EFuelC => VErr "fuel"
  | LErr _ => VErr "error"
  end.

Definition remote_reads (evs : list event) : list str :=
  flat_map (fun e => match e with EvReadRemote p => [p] | _ => [] end) evs.
Definition cache_reads (evs : list event) : list str :=
  flat_map (fun e => match e with EvReadCache f => [f] | _ => [] end) evs.

Definition enc_event (e : event) : list val :=
  match e with
  | EvWriteCache f d => [VL [VS (B "wc"); VS f; VS d]]
  | EvWriteConfig f old new ok => [VL [VS (B "wcfg"); VS f; VS old; VS new; VB ok]]
  | EvReadConfig f => [VL [VS (B "rcfg"); VS f]]
  | EvSecurity _ => [VL [VS (B "sec")]]
  | _ => []
  end.

Definition is_security (e : event) : bool :=
  match e with EvSecurity _ => true | _ => false end.

Fixpoint insert_pair (x : str * str) (l : list (str * str)) : list (str * str) :=
  match l with
  | [] => [x]
  | y :: r => if str_leb (fst x) (fst y) then x :: l else y :: insert_pair x r
  end.
Definition sort_pairs (l : list (str * str)) : list (str * str) := fold_right insert_pair [] l.

Record acc := mkAcc {
  a_w : world; a_cs : list (Z * client);
  a_res : list val; a_reads : list val; a_evs : list event
}.

Definition run_step (pairs : list (str * str * str)) (h : Z) (a : acc) (st : Z * str * str) : acc :=
  match st with
  | (ci, path, vers) =>
      let c := match client_get ci (a_cs a) with Some c => c | None => new_client h end in
      match lookup_i pairs (a_w a) c path vers with
      | (r, evs, w', c') =>
          mkAcc w' (client_set ci c' (a_cs a))
                (a_res a ++ [enc_res r])
                (a_reads a ++ [VL [VL (map VS (sort_strs (remote_reads evs)));
                                   VL (map VS (sort_strs (cache_reads evs)))]])
                (a_evs a ++ evs)
      end
  end.

Definition run_scenario (h : Z) (cfg cache : list (str * str)) (remote : list (str * option str))
           (pairs : list (str * str * str)) (interf : list (Z * str)) (steps : list (Z * str * str)) : val :=
  let w := mkWorld (remote_fn remote) [] cache cfg (interf_list interf) in
  let a := fold_left (run_step pairs h) steps (mkAcc w [] [] [] []) in
  VL [VL (a_res a); VL (a_reads a); VL (flat_map enc_event (a_evs a));
      VI (Z.of_nat (length (filter is_security (a_evs a))));
      VL (map (fun p => VL [VS (fst p); VS (snd p)]) (sort_pairs (w_config (a_w a))))].

Definition dispatch (f : str) (a : val) : val :=
  if str_eqb f (B "Scenario") then
    match a with
    | VL [VI h; VL cfg; VL cache; VL remote; VL sigs; VL interf; VL steps] =>
        match dec_pairs cfg, dec_pairs cache, dec_remote remote, dec_sigs sigs, dec_interf interf, dec_steps steps with
        | Some cfg', Some cache', Some remote', Some sigs', Some interf', Some steps' =>
            run_scenario h cfg' cache' remote' sigs' interf' steps'
        | _, _, _, _, _, _ => VBadCase
        end
    | _ => VBadCase
    end
  else VBadCase.
