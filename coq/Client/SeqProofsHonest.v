(* Client/SeqProofsHonest.v — completeness of the sequential client model in an HONEST world
   (C01 lookup_honest_complete, C13 "honest growth never triggers Security").

   The honest world is described by a hash function on ranges  T lo hi  (the RFC 6962 hash of the
   records [lo, hi): ProofsStore.range_hash instantiates it for a concrete log) that satisfies
   the RFC recursion up to the largest size N the server ever signs (T_splits), and by:
     - every tile the tile hash reader can plan for a tree of some size m <= N is served with its
       honest content (TileProofsHonest.honest_tile), on every read;
     - cache files that carry the name of such a tile (or of its full version) hold the honest
       content; cached lookup files hold honest responses;
     - tree heads are honest: a message is an honest head of size n when it opens under the
       configured verifiers to the tree (n, T 0 n)  [signing itself is C07's round trip];
     - nobody else writes the configuration (no interference).
   Composition: C10 read_hashes_complete (tiles), C09 tree_hash over the true hashes
   (ProofsTree), the model's own control flow. *)
From Verif.Base Require Import Bytes.
From Verif.Tlog Require Import Index Tree Codec Tile TileReader Spec6962 ProofsIndex ProofsTree.
From Verif.Tlog Require Import TileSpec TileProofs TileProofsHonest TileProofsHonestRun TileProofsValid TilePathProofsBij.
From Verif.Note Require Import Note.
From Verif.Client Require Import Seq SeqProofsTile SeqProofsSafe SeqProofsTop.

Section Honest.
Variable sha : str -> str.
Variable leaf_hash : str -> hash.
Variable node_hash : hash -> hash -> hash.
Variable V : str -> str -> str -> bool.
Variable esc_path esc_vers : str -> option str.
Variable skip : str -> bool.

Variable T : Z -> Z -> hash.
Variable N : Z.
Variable h : Z.
Hypothesis HT : T_splits node_hash T N.
Hypothesis HT32 : forall lo hi, length (T lo hi) = 32%nat.
Hypothesis HN : 0 < N <= 2 ^ 62.
Hypothesis Hh : 1 <= h <= 30.

Variable vs : verifiers str.
Variable name : str.

Notation honest_tile := (honest_tile T).

(* ---- the tiles an honest server must be able to serve ------------------------------------------ *)

(* t is planned by the tile hash reader for some tree of size m <= N *)
Definition served (t : tile) : Prop :=
  exists m ix p, 0 < m <= N /\ make_plan m h ix = TOk p /\ In t (p_tiles p).

Definition full_of (t : tile) : tile := mkTile (tH t) (tL t) (tN t) (pow2sh (tH t)).

(* ... or the full version of one *)
Definition known (t : tile) : Prop := served t \/ exists t0, served t0 /\ t = full_of t0.

(* planned tiles are well-shaped (C10 make_plan_tiles_valid) and their names are injective
   (tile_path_bijection) *)
Lemma pow2sh_h : pow2sh h = 2 ^ h.
Proof.
  unfold pow2sh. destruct (Z.ltb_spec h 0); [lia|]. destruct (Z.leb_spec 64 h); [lia|]. cbn [orb].
  destruct (Z.eqb_spec h 63); [lia | reflexivity].
Qed.

Lemma served_valid t : served t -> planned_shape h t /\ valid_tile t /\ valid_tile (full_of t).
Proof.
  intros (m & ix & p & Hm & Hp & Hin).
  destruct (make_plan_tiles_valid m h ix p t Hh ltac:(lia) Hp Hin) as (Hs & Hv & Hvf).
  split; [exact Hs|]. split; [exact Hv|]. unfold full_of. destruct Hs as (EH & _). rewrite EH, pow2sh_h.
  rewrite EH in Hvf. exact Hvf.
Qed.

Lemma served_shape t : served t -> tH t = h /\ 1 <= tW t <= 2 ^ h.
Proof. intros Hs. destruct (served_valid t Hs) as ((EH & _ & _ & HW) & _). auto. Qed.

Lemma known_valid t : known t -> valid_tile t.
Proof.
  intros [Hs|(t0 & Hs & ->)]; [apply (served_valid _ Hs) | apply (served_valid _ Hs)].
Qed.

Lemma names_ok t t' : known t -> known t' -> tile_path t = tile_path t' -> honest_tile t = honest_tile t'.
Proof.
  intros Hk Hk' E. rewrite (tile_path_inj t t' (known_valid _ Hk) (known_valid _ Hk') E). reflexivity.
Qed.

Definition honest_record (d : str) : Prop :=
  exists id text tmsg n,
    parse_record d = Index.Ok (id, text, tmsg) /\ 0 <= id < n /\ n <= N /\
    leaf_hash text = T id (id + 1) /\ signed_tree V vs tmsg (Tree n (T 0 n)).

Definition good_file (f d : str) : Prop :=
  (forall t, known t -> f = tile_cache_key name t -> d = honest_tile t) /\
  (is_lookup_file name f -> honest_record d).

(* an honest head: the empty timeline, or (n, T 0 n) signed *)
Definition honest_head (msg : str) (t : tree) : Prop :=
  (msg = [] /\ t = Tree 0 empty_hash) \/
  (exists n, 0 < n <= N /\ t = Tree n (T 0 n) /\ signed_tree V vs msg t).

(* an honest message: the empty file, or an honest signed head *)
Definition honest_msg (msg : str) : Prop :=
  msg = [] \/ exists n, 0 < n <= N /\ signed_tree V vs msg (Tree n (T 0 n)).

Record HonestState (s : state) : Prop := mkHS {
  hs_name : c_name (s_c s) = name;
  hs_vs : c_verifiers (s_c s) = vs;
  hs_height : c_height (s_c s) = h;
  hs_head : honest_head (c_latest_msg (s_c s)) (c_latest (s_c s));
  hs_memo : forall t r, tile_find t (c_tiles (s_c s)) = Some r -> served t /\ r = Some (honest_tile t);
  hs_remote : forall t k, served t -> w_remote (s_w s) k (tile_remote_path t) = Some (honest_tile t);
  hs_cache : forall f d, assoc f (w_cache (s_w s)) = Some d -> good_file f d;
  hs_interf : w_interf (s_w s) = [];
  hs_config : exists cm, assoc (latest_file name) (w_config (s_w s)) = Some cm /\ honest_msg cm;
  hs_lookup : forall k p d, w_remote (s_w s) k (B "/lookup/" ++ p) = Some d -> honest_record d
}.

(* what the tile layer leaves alone, plus: only reads and honest tile writes happen *)
Definition quiet_ev (e : event) : Prop :=
  match e with
  | EvSecurity _ | EvWriteConfig _ _ _ _ => False
  | _ => True
  end.

Lemma is_read_quiet e : is_read e -> quiet_ev e.
Proof. destruct e; cbn; tauto. Qed.

(* ---- honest tiles: prefix of the full tile ------------------------------------------------------ *)

Lemma honest_full_prefix t :
  tH t = h -> 1 <= tW t <= 2 ^ h ->
  tile_prefix (honest_tile (full_of t)) (tW (full_of t)) (tW t) = honest_tile t.
Proof.
  intros EH HW. unfold tile_prefix, full_of. cbn [tW tH tL tN]. rewrite EH, pow2sh_h.
  assert (Hp : 0 < 2 ^ h) by (apply Z.pow_pos_nonneg; lia).
  rewrite (honest_len T HT32) by (cbn [tW]; lia). cbn [tW].
  replace (2 ^ h * 32 / 2 ^ h) with 32 by (rewrite Z.mul_comm, Z.div_mul; lia).
  unfold TileProofsHonest.honest_tile. cbn [tW tH tL tN]. rewrite EH.
  replace (Z.to_nat (32 * tW t)) with (32 * Z.to_nat (tW t))%nat by lia.
  rewrite firstn_concat_chunks by (intros; apply HT32).
  rewrite firstn_seq by lia. reflexivity.
Qed.

(* ---- readTile in an honest state ---------------------------------------------------------------- *)

(* the honest invariant survives everything the tile reads change *)
Lemma honest_after_reads s s' :
  HonestState s -> tframe s s' ->
  w_cache (s_w s') = w_cache (s_w s) ->
  (forall t r, tile_find t (c_tiles (s_c s')) = Some r -> served t /\ r = Some (honest_tile t)) ->
  HonestState s'.
Proof.
  intros [H1 H2 H3 H4 H5 H6 H7 H8 H9 H10] F Hc Hm. constructor.
  - rewrite (tf_name _ _ F); auto.
  - rewrite (tf_vs _ _ F); auto.
  - rewrite (tf_height _ _ F); auto.
  - rewrite (tf_msg _ _ F), (tf_latest _ _ F); auto.
  - exact Hm.
  - rewrite (tf_remote _ _ F); auto.
  - rewrite Hc; auto.
  - rewrite (tf_interf _ _ F); auto.
  - rewrite (tf_config _ _ F); auto.
  - rewrite (tf_remote _ _ F); auto.
Qed.

(* a step that only reads: nothing but the trace, the read counters and tileSaved changes *)
Definition rframe (s s' : state) : Prop :=
  tframe s s' /\ c_tiles (s_c s') = c_tiles (s_c s) /\ w_cache (s_w s') = w_cache (s_w s).

Lemma rframe_refl s : rframe s s.
Proof. split; [apply tframe_refl | split; reflexivity]. Qed.

Lemma rframe_trans s1 s2 s3 : rframe s1 s2 -> rframe s2 s3 -> rframe s1 s3.
Proof. intros (F1 & M1 & C1) (F2 & M2 & C2). split; [eapply tframe_trans; eauto | split; congruence]. Qed.

Lemma honest_rframe s s' : HonestState s -> rframe s s' -> HonestState s'.
Proof.
  intros HS (F & M & C). eapply honest_after_reads; eauto. rewrite M. apply (hs_memo _ HS).
Qed.

Lemma read_remote_frame p s r s' :
  read_remote p s = (r, s') ->
  r = w_remote (s_w s) (count_str p (w_reads (s_w s))) p /\ rframe s s'.
Proof.
  intros H. assert (F := proj1 (read_remote_spec _ _ _ _ H)). revert H.
  unfold read_remote, bindM, get_world, set_world, emit, ret; cbn. intros [= <- <-]. cbn.
  split; [reflexivity|]. split; [exact F | split; reflexivity].
Qed.

Lemma read_cache_frame f s r s' :
  read_cache f s = (r, s') -> r = assoc f (w_cache (s_w s)) /\ rframe s s'.
Proof.
  intros H. assert (F := proj1 (read_cache_spec _ _ _ _ H)). revert H.
  unfold read_cache, bindM, get_world, emit, ret; cbn. intros [= <- <-]. cbn.
  split; [reflexivity|]. split; [exact F | split; reflexivity].
Qed.

Lemma mark_tile_saved_frame t s u s' : mark_tile_saved t s = (u, s') -> rframe s s'.
Proof.
  intros H. assert (F := proj1 (mark_tile_saved_spec _ _ _ _ H)). revert H.
  unfold mark_tile_saved, bindM, get_client, set_client, ret; cbn. intros [= <- <-]. cbn.
  split; [exact F | split; reflexivity].
Qed.

Lemma read_tile_work_honest t s r s' :
  HonestState s -> served t ->
  read_tile_work t s = (r, s') ->
  r = Some (honest_tile t) /\ rframe s s'.
Proof.
  intros HS Hsv H.
  destruct (served_shape _ Hsv) as [EH HW].
  unfold read_tile_work in H.
  minva H c0 s0 E0. unfold get_client in E0. inversion E0; subst c0 s0; clear E0.
  fold (full_of t) in H. rewrite (hs_name _ HS) in H.
  assert (Hremote : forall sa ra sb,
    HonestState sa ->
    (d <- read_remote (tile_remote_path t);;
     match d with
     | Some data => ret (Some data)
     | None =>
         if tile_eqb t (full_of t) then ret None
         else d2 <- read_remote (tile_remote_path (full_of t));;
              match d2 with
              | Some data => ret (Some (tile_prefix data (tW (full_of t)) (tW t)))
              | None => ret None
              end
     end) sa = (ra, sb) ->
    ra = Some (honest_tile t) /\ rframe sa sb).
  { intros sa ra sb HSa Ha. minva Ha d sc Ec. apply read_remote_frame in Ec as (Hd & R).
    rewrite (hs_remote _ HSa _ _ Hsv) in Hd. subst d. apply ret_inv in Ha as [-> ->]. auto. }
  minva H d s1 E1. apply read_cache_frame in E1 as (Hd & R1).
  assert (HS1 := honest_rframe _ _ HS R1).
  destruct d as [data|].
  - minva H u s2 E2. apply mark_tile_saved_frame in E2. apply ret_inv in H as [-> ->].
    destruct (hs_cache _ HS _ _ (eq_sym Hd)) as [Hg _].
    rewrite (Hg t (or_introl Hsv) eq_refl).
    split; [reflexivity | eapply rframe_trans; eauto].
  - destruct (tile_eqb t (full_of t)) eqn:Efull.
    + destruct (Hremote _ _ _ HS1 H) as (-> & R2).
      split; [reflexivity | eapply rframe_trans; eauto].
    + minva H d2 s2 E2. apply read_cache_frame in E2 as (Hd2 & R2).
      assert (HS2 := honest_rframe _ _ HS1 R2).
      destruct d2 as [data|].
      * minva H u s3 E3. apply mark_tile_saved_frame in E3. apply ret_inv in H as [-> ->].
        destruct (hs_cache _ HS1 _ _ (eq_sym Hd2)) as [Hg _].
        rewrite (Hg (full_of t) (or_intror (ex_intro _ t (conj Hsv eq_refl))) eq_refl).
        rewrite honest_full_prefix by assumption.
        split; [reflexivity|]. eapply rframe_trans; [exact R1|]. eapply rframe_trans; eauto.
      * destruct (Hremote _ _ _ HS2 H) as (-> & R3).
        split; [reflexivity|]. eapply rframe_trans; [exact R1|]. eapply rframe_trans; eauto.
Qed.

(* a step of the honest tile layer: the tile-layer frame, the invariant, no alarm and no config write *)
Definition hstep (s s' : state) : Prop :=
  HonestState s' /\ tframe s s' /\ textend quiet_ev s s'.

Lemma hstep_refl s : HonestState s -> hstep s s.
Proof. intros H. split; [exact H | split; [apply tframe_refl | apply textend_refl]]. Qed.

Lemma hstep_trans s1 s2 s3 : hstep s1 s2 -> hstep s2 s3 -> hstep s1 s3.
Proof.
  intros (_ & F1 & T1) (H3 & F2 & T2).
  split; [exact H3 | split; [eapply tframe_trans | eapply textend_trans]; eauto].
Qed.

Lemma tile_find_cons t t0 r l :
  tile_find t ((t0, r) :: l) = if tile_eqb t t0 then Some r else tile_find t l.
Proof. reflexivity. Qed.

Lemma read_tile_honest t s r s' :
  HonestState s -> served t -> read_tile t s = (r, s') ->
  r = Some (honest_tile t) /\ hstep s s' /\ w_cache (s_w s') = w_cache (s_w s).
Proof.
  intros HS Hsv H. assert (Htl := read_tile_spec _ _ _ _ H). unfold read_tile in H.
  minva H c0 s0 E0. unfold get_client in E0. inversion E0; subst c0 s0; clear E0.
  destruct (tile_find t (c_tiles (s_c s))) as [r0|] eqn:Hf.
  - apply ret_inv in H as [-> ->]. destruct (hs_memo _ HS _ _ Hf) as [_ ->].
    split; [reflexivity|]. split; [apply hstep_refl; exact HS | reflexivity].
  - minva H r1 s1 E1. apply read_tile_work_honest in E1 as (-> & R1); auto.
    assert (HS1 := honest_rframe _ _ HS R1). destruct R1 as (F1 & M1 & C1).
    minva H c2 s2 E2. unfold get_client in E2. inversion E2; subst c2 s2; clear E2.
    minva H u s3 E3. unfold set_client in E3. inversion E3; subst s3; clear E3.
    apply ret_inv in H as [-> ->]. split; [reflexivity|]. cbn [s_w s_c s_tr].
    split; [|exact C1]. split; [|split].
    + destruct HS1. constructor; cbn [s_c s_w c_name c_verifiers c_height c_latest c_latest_msg c_tiles]; auto.
      intros t0 r0. rewrite tile_find_cons. destruct (tile_eqb t0 t) eqn:Et.
      * apply tile_eqb_eq in Et. subst t0. intros [= <-]. auto.
      * apply hs_memo0.
    + destruct Htl as [F _]. exact F.
    + destruct Htl as [_ Tr]. eapply textend_impl; [|exact Tr]. apply is_read_quiet.
Qed.

Lemma read_tiles_all_honest ts : forall s r s',
  HonestState s -> Forall served ts -> read_tiles_all ts s = (r, s') ->
  r = map (fun t => Some (honest_tile t)) ts /\ hstep s s' /\ w_cache (s_w s') = w_cache (s_w s).
Proof.
  induction ts as [|t ts IH]; intros s r s' HS Hall H; cbn in H.
  - apply ret_inv in H as [-> ->]. split; [reflexivity|]. split; [apply hstep_refl; exact HS | reflexivity].
  - inversion Hall; subst. minva H d s1 E1. apply read_tile_honest in E1 as (-> & S1 & C1); auto.
    minva H ds s2 E2. apply IH in E2 as (-> & S2 & C2); auto; [|apply S1].
    apply ret_inv in H as [-> ->]. split; [reflexivity|].
    split; [eapply hstep_trans; eauto | congruence].
Qed.

Lemma all_some_map (l : list str) : all_some (map Some l) = Some l.
Proof. induction l as [|a l IH]; cbn; [reflexivity|]. rewrite IH. reflexivity. Qed.

Lemma read_tiles_honest ts s r s' :
  HonestState s -> Forall served ts -> read_tiles ts s = (r, s') ->
  r = Some (map honest_tile ts) /\ hstep s s' /\ w_cache (s_w s') = w_cache (s_w s).
Proof.
  intros HS Hall H. unfold read_tiles in H. minva H ds s1 E1.
  apply read_tiles_all_honest in E1 as (-> & S1 & C1); auto. apply ret_inv in H as [-> ->].
  split; [|auto]. rewrite <- (map_map honest_tile Some). apply all_some_map.
Qed.

(* ---- SaveTiles of honest tiles ------------------------------------------------------------------ *)

Lemma assoc_set_inv k v l f d :
  assoc f (assoc_set k v l) = Some d -> (f = k /\ d = v) \/ assoc f l = Some d.
Proof.
  induction l as [|[a b] l IH]; cbn.
  - destruct (str_eqb f k) eqn:E; [|discriminate]. apply str_eqb_eq in E. intros [= <-]. auto.
  - destruct (str_eqb k a) eqn:Eka; cbn.
    + apply str_eqb_eq in Eka. subst a. destruct (str_eqb f k) eqn:E.
      * apply str_eqb_eq in E. intros [= <-]. auto.
      * auto.
    + destruct (str_eqb f a); auto.
Qed.

Lemma tile_key_not_lookup t : ~ is_lookup_file name (tile_cache_key name t).
Proof.
  intros (ep & ev & H). unfold tile_cache_key, tile_path in H. apply app_inv_head in H.
  cbn in H. discriminate.
Qed.

Lemma write_honest_tile t s u s' :
  HonestState s -> served t ->
  write_cache (tile_cache_key name t) (honest_tile t) s = (u, s') -> hstep s s'.
Proof.
  intros HS Hsv H. destruct (write_cache_spec _ _ _ _ _ H) as [F Tr]. revert H.
  unfold write_cache, bindM, get_world, set_world, emit, ret; cbn. intros [= _ <-].
  split; [|split; [exact F | eapply textend_one; [exact Tr | exact I]]].
  destruct HS. constructor; cbn; auto.
  intros f d Ha. apply assoc_set_inv in Ha as [[-> ->]|Ha]; [|auto].
  split.
  - intros t' Hk E. unfold tile_cache_key in E. apply app_inv_head in E.
    apply (f_equal (@List.tl Z)) in E. cbn [List.tl] in E.
    apply names_ok; auto. left. exact Hsv.
  - intros Hl. exfalso. eapply tile_key_not_lookup; eauto.
Qed.

Lemma save_tiles_honest ts : forall s u s',
  HonestState s -> Forall served ts ->
  save_tiles ts (map honest_tile ts) s = (u, s') -> hstep s s'.
Proof.
  induction ts as [|t ts IH]; intros s u s' HS Hall H; cbn [map save_tiles] in H.
  - apply ret_inv in H as [_ ->]. apply hstep_refl; exact HS.
  - inversion Hall; subst. minva H c0 s0 E0. unfold get_client in E0. inversion E0; subst c0 s0; clear E0.
    minva H u1 s1 E1.
    assert (S1 : hstep s s1).
    { destruct (tile_mem t (c_tile_saved (s_c s))).
      - apply ret_inv in E1 as [_ ->]. apply hstep_refl; exact HS.
      - minva E1 u2 s2 E2. destruct (mark_tile_saved_spec _ _ _ _ E2) as [_ Tr2].
        apply mark_tile_saved_frame in E2.
        assert (HS2 := honest_rframe _ _ HS E2). rewrite (hs_name _ HS) in E1.
        apply write_honest_tile in E1; auto.
        destruct E2 as (F2 & _ & _). destruct E1 as (H1 & F1 & T1).
        split; [exact H1|]. split; [eapply tframe_trans; eauto|].
        eapply textend_trans; [|exact T1]. apply textend_same. exact Tr2. }
    eapply hstep_trans; [exact S1|]. eapply IH; eauto. apply S1.
Qed.

(* ---- the stateful tile hash reader in an honest state ------------------------------------------- *)

Lemma check_and_extract_saved tree p ix data r sv :
  check_and_extract node_hash tree p ix data = (r, Some sv) -> sv = (p_tiles p, data).
Proof.
  unfold check_and_extract.
  destruct (negb _); [discriminate|]. destruct (negb _); [discriminate|].
  destruct (auth_stx _ _ _ _); try discriminate.
  destruct (auth_rest _ _ _ _ _ _); try discriminate.
  intros [= _ <-]. reflexivity.
Qed.

Lemma T_splits_le m : m <= N -> T_splits node_hash T m.
Proof. intros Hm lo hi H1 H2 H3. apply HT; lia. Qed.

Lemma tile_read_hashes_st_honest m ix s r s' :
  HonestState s -> 0 < m <= N ->
  Forall (fun x => 0 <= x < stored_hash_index 0 m) ix ->
  tile_read_hashes_st node_hash (Tree m (T 0 m)) ix s = (r, s') ->
  r = TOk (map (true_hash T) ix) /\ hstep s s'.
Proof.
  intros HS Hm Hix H.
  destruct (read_hashes_complete node_hash T m (T_splits_le m ltac:(lia)) HT32 ltac:(lia) h Hh ix Hix)
    as (sv & Hc).
  unfold tile_read_hashes in Hc. cbn [fst snd] in Hc.
  unfold tile_read_hashes_st in H.
  minva H c0 s0 E0. unfold get_client in E0. inversion E0; subst c0 s0; clear E0.
  rewrite (hs_height _ HS) in H. cbn [Codec.tN Codec.tH] in H.
  destruct ((h <? 1) || (62 <? h)); [discriminate|].
  destruct (make_plan m h ix) as [p|e|] eqn:Ep; try discriminate.
  assert (Hsv : Forall served (p_tiles p)).
  { apply Forall_forall. intros t Ht. exists m, ix, p. auto. }
  minva H d s1 E1. apply read_tiles_honest in E1 as (-> & S1 & C1); auto.
  unfold honest_rt in Hc.
  match type of H with context [check_and_extract ?a ?b ?c ?d ?e] =>
    assert (Hc' : check_and_extract a b c d e = (TOk (map (true_hash T) ix), Some sv)) by exact Hc
  end.
  rewrite Hc' in H. cbn [fst snd] in H.
  destruct sv as [ts ds]. assert (Esv := check_and_extract_saved _ _ _ _ _ _ Hc). injection Esv as -> ->.
  minva H u s2 E2. apply ret_inv in H as [-> ->].
  apply save_tiles_honest in E2; auto; [|apply S1].
  split; [reflexivity | eapply hstep_trans; eauto].
Qed.

(* ---- TreeHash over the honest reader ---------------------------------------------------------------- *)

Lemma true_hash_block l a :
  0 <= l -> 0 <= a -> (2 ^ l | a) -> a + 2 ^ l <= 2 ^ 62 ->
  true_hash T (stored_hash_index l (Z.shiftr a l)) = T a (a + 2 ^ l).
Proof.
  intros Hl Ha [c Hc] Hb. pose proof (pow2_pos l Hl) as Hp.
  assert (Hc0 : 0 <= c) by nia.
  assert (Hs : Z.shiftr a l = c) by (rewrite Z.shiftr_div_pow2 by lia; subst a; apply Z.div_mul; lia).
  rewrite Hs. unfold true_hash.
  assert (Hlt : stored_hash_index l c < 2 ^ 63).
  { pose proof (index_lt_count l c (2 ^ 62) Hl Hc0 ltac:(nia)).
    pose proof (first_index_le_double (2 ^ 62) ltac:(lia)). lia. }
  rewrite (split_index l c Hl Hc0 Hlt). f_equal; lia.
Qed.

Lemma blocks_true lo hi bs :
  Blocks lo hi bs -> 0 <= lo -> hi <= 2 ^ 62 ->
  map (true_hash T) (sub_tree_indexes bs) = map (block_hash T) bs.
Proof.
  intros HB. induction HB as [lo|lo hi level rest Hl H1 H2 Hd HB IH]; intros Hlo Hhi; [reflexivity|].
  pose proof (pow2_pos level Hl). pose proof (Blocks_lo_le _ _ _ HB).
  unfold sub_tree_indexes in *. cbn [map fst snd]. rewrite IH by lia.
  rewrite true_hash_block by (try assumption; lia). reflexivity.
Qed.

Lemma blocks_in_tree lo hi bs m :
  Blocks lo hi bs -> 0 <= lo -> hi <= m -> m <= 2 ^ 62 ->
  Forall (fun x => 0 <= x < stored_hash_index 0 m) (sub_tree_indexes bs).
Proof.
  intros HB. induction HB as [lo|lo hi level rest Hl H1 H2 Hd HB IH]; intros Hlo Hhi Hm; [constructor|].
  pose proof (pow2_pos level Hl) as Hp. pose proof (Blocks_lo_le _ _ _ HB).
  unfold sub_tree_indexes in *. cbn [map fst snd]. constructor; [|apply IH; lia].
  destruct Hd as [c Hc]. assert (Hc0 : 0 <= c) by nia.
  assert (Hs : Z.shiftr lo level = c) by (rewrite Z.shiftr_div_pow2 by lia; subst lo; apply Z.div_mul; lia).
  rewrite Hs. split; [apply stored_hash_index_nonneg; lia|].
  apply index_lt_count; try lia; nia.
Qed.

Lemma tree_hash_st_honest m n s r s' :
  HonestState s -> 0 < m <= N -> 0 < n <= m ->
  tree_hash_st node_hash (Tree m (T 0 m)) n s = (r, s') ->
  r = TOk (T 0 n) /\ hstep s s'.
Proof.
  intros HS Hm Hn H. unfold tree_hash_st in H.
  destruct (Z.eqb_spec n 0); [lia|].
  destruct (sub_tree_ok 0 n ltac:(lia) ltac:(lia) (aligned_0 n ltac:(lia))) as (bs & Es & HB).
  unfold sub_tree_index in H. rewrite Z.sub_0_r in H. rewrite Z.sub_0_r in Es. rewrite Es in H. cbn [bind app] in H.
  minva H rr s1 E1.
  apply tile_read_hashes_st_honest in E1 as (-> & S1); auto;
    [|eapply blocks_in_tree; eauto; lia].
  apply ret_inv in H as [-> ->]. split; [|exact S1].
  rewrite (blocks_true 0 n bs HB) by lia.
  (* tree_hash over the block hashes *)
  unfold tree_hash. destruct (Z.eqb_spec n 0); [lia|].
  unfold sub_tree_index. rewrite Z.sub_0_r, Es. cbn [bind app].
  unfold read_hashes. unfold sub_tree_indexes. rewrite !map_length, Nat.eqb_refl. cbn [bind].
  unfold sub_tree_hash. rewrite Z.sub_0_r, Es. cbn [bind].
  rewrite map_length. destruct (Nat.ltb_spec (length bs) (length bs)); [lia|].
  rewrite <- (map_length (block_hash T) bs) at 1. rewrite firstn_all.
  rewrite (blocks_fold node_hash T N HT 0 n bs HB) by lia.
  rewrite <- (map_length (block_hash T) bs) at 1. rewrite skipn_all. reflexivity.
Qed.

(* ---- checkTrees between honest heads ------------------------------------------------------------------ *)

Definition htree (t : tree) : Prop :=
  t = Tree 0 empty_hash \/ exists n, 0 < n <= N /\ t = Tree n (T 0 n).

Lemma honest_head_htree msg t : honest_head msg t -> htree t.
Proof. intros [[_ ->]|(n & Hn & -> & _)]; [left; reflexivity | right; eauto]. Qed.

Lemma check_trees_honest older on newer nn s r s' :
  HonestState s -> htree older -> htree newer -> Codec.tN older <= Codec.tN newer ->
  check_trees node_hash older on newer nn s = (r, s') ->
  r = None /\ hstep s s'.
Proof.
  intros HS Ho Hn Hle H. unfold check_trees in H. minva H rr s1 E1.
  assert (Hth : rr = TOk (Codec.tH older) /\ hstep s s1).
  { destruct Ho as [->|(n & Hn0 & ->)].
    - unfold tree_hash_st in E1. cbn in E1. apply ret_inv in E1 as [-> ->].
      split; [reflexivity | apply hstep_refl; exact HS].
    - destruct Hn as [->|(m & Hm0 & ->)]; cbn [Codec.tN Codec.tH] in *; [lia|].
      assert (Hnm : 0 < n <= m) by lia.
      exact (tree_hash_st_honest m n _ _ _ HS Hm0 Hnm E1). }
  destruct Hth as [-> S1]. rewrite str_eqb_refl in H. apply ret_inv in H as [-> ->]. auto.
Qed.

(* ---- mergeLatestMem with an honest message ----------------------------------------------------------- *)

Definition nosec (e : event) : Prop := match e with EvSecurity _ => False | _ => True end.

Lemma quiet_nosec e : quiet_ev e -> nosec e.
Proof. destruct e; cbn; tauto. Qed.

(* an honest step of the upper layers: the invariant, no alarm, memo tables of lookups untouched *)
Record ustep (s s' : state) : Prop := mkUstep {
  us_honest : HonestState s';
  us_trace : textend nosec s s';
  us_init : c_init (s_c s') = c_init (s_c s);
  us_records : c_records (s_c s') = c_records (s_c s);
  us_grow : Codec.tN (c_latest (s_c s)) <= Codec.tN (c_latest (s_c s'));
  us_key : assoc (B "key") (w_config (s_w s')) = assoc (B "key") (w_config (s_w s));
  us_remote : w_remote (s_w s') = w_remote (s_w s)
}.

Lemma ustep_refl s : HonestState s -> ustep s s.
Proof. intros H. constructor; auto; [apply textend_refl | lia]. Qed.

Lemma ustep_trans s1 s2 s3 : ustep s1 s2 -> ustep s2 s3 -> ustep s1 s3.
Proof.
  intros [] []. constructor; auto; try congruence; [eapply textend_trans; eauto | lia].
Qed.

Lemma hstep_ustep s s' : hstep s s' -> ustep s s'.
Proof.
  intros (H & F & Tr). constructor; auto.
  - eapply textend_impl; [|exact Tr]. apply quiet_nosec.
  - apply (tf_init _ _ F).
  - apply (tf_records _ _ F).
  - rewrite (tf_latest _ _ F). lia.
  - rewrite (tf_config _ _ F). reflexivity.
  - apply (tf_remote _ _ F).
Qed.

Lemma merge_latest_mem_honest msg s r s' :
  HonestState s -> honest_msg msg ->
  merge_latest_mem node_hash V msg s = (r, s') ->
  ustep s s' /\ w_config (s_w s') = w_config (s_w s) /\
  exists w, r = inl w /\
    match w with
    | MsgFuture => c_latest_msg (s_c s') = msg /\ msg <> []
    | _ => c_latest (s_c s') = c_latest (s_c s) /\ c_latest_msg (s_c s') = c_latest_msg (s_c s)
    end /\
    (forall n, signed_tree V vs msg (Tree n (T 0 n)) -> n <= Codec.tN (c_latest (s_c s'))) /\
    (w = MsgPast -> msg = [] \/ exists n, signed_tree V vs msg (Tree n (T 0 n)) /\ n < Codec.tN (c_latest (s_c s'))).
Proof.
  intros HS Hmsg H. unfold merge_latest_mem in H.
  minva H c0 s0 E0. unfold get_client in E0. inversion E0; subst c0 s0; clear E0.
  destruct Hmsg as [->|(n & Hn & Hsig)].
  { apply ret_inv in H as [-> ->]. split; [apply ustep_refl; exact HS|]. split; [reflexivity|].
    eexists. split; [reflexivity|].
    assert (Hno : forall n, ~ signed_tree V vs [] (Tree n (T 0 n))).
    { intros n0 (nt & Ho & _). cbn in Ho. discriminate. }
    destruct (Codec.tN (c_latest (s_c s)) =? 0); (split; [auto|]); (split; [intros n0 Hs; destruct (Hno _ Hs) | auto]). }
  assert (Hnn : msg <> []).
  { intros ->. destruct Hsig as (nt & Ho & _). cbn in Ho. discriminate. }
  destruct msg as [|b msg']; [contradiction|]. set (msg := b :: msg') in *.
  destruct Hsig as (nt & Hopen & Hparse). rewrite (hs_vs _ HS), Hopen, Hparse in H.
  cbn [Codec.tN] in H.
  assert (Hfun : forall n0, signed_tree V vs msg (Tree n0 (T 0 n0)) -> n0 = n).
  { intros n0 (nt' & Ho' & Hp'). rewrite Hopen in Ho'. injection Ho' as <-. rewrite Hparse in Hp'.
    injection Hp' as ->. reflexivity. }
  assert (Hlat := honest_head_htree _ _ (hs_head _ HS)).
  assert (Hnew : htree (Tree n (T 0 n))) by (right; eauto).
  assert (Hsig : signed_tree V vs msg (Tree n (T 0 n))) by (exists nt; auto).
  destruct (n <=? Codec.tN (c_latest (s_c s))) eqn:Hle.
  - apply Z.leb_le in Hle. minva H e s1 E1.
    apply check_trees_honest in E1 as (-> & S1); auto.
    apply ret_inv in H as [-> ->]. destruct S1 as (H1 & F1 & T1).
    split; [apply hstep_ustep; split; [exact H1 | split; [exact F1 | exact T1]]|]. split; [apply (tf_config _ _ F1)|].
    eexists. split; [reflexivity|].
    assert (Hsame : c_latest (s_c s1) = c_latest (s_c s) /\ c_latest_msg (s_c s1) = c_latest_msg (s_c s))
      by (split; [apply (tf_latest _ _ F1) | apply (tf_msg _ _ F1)]).
    destruct Hsame as [Hl Hm].
    destruct (n <? Codec.tN (c_latest (s_c s))) eqn:Hlt.
    + split; [auto|]. split; [intros n0 Hs; rewrite (Hfun _ Hs), Hl; exact Hle|].
      intros _. right. exists n. apply Z.ltb_lt in Hlt. rewrite Hl. auto.
    + split; [auto|]. split; [intros n0 Hs; rewrite (Hfun _ Hs), Hl; exact Hle | discriminate].
  - apply Z.leb_gt in Hle. minva H e s1 E1.
    apply check_trees_honest in E1 as (-> & S1); auto; [|cbn; lia].
    minva H u s2 E2. apply install_inv in E2. subst s2. apply ret_inv in H as [-> ->].
    destruct S1 as (H1 & F1 & T1). cbn [s_c s_w s_tr c_latest c_latest_msg].
    split.
    { constructor; cbn [s_c s_w s_tr c_latest c_latest_msg c_init c_records].
      - destruct H1. constructor; cbn [s_c s_w c_name c_verifiers c_height c_latest c_latest_msg c_tiles]; auto.
        right. exists n. auto.
      - destruct T1 as (evs & E & Fa). exists evs. split; [exact E|]. eapply Forall_impl; [|exact Fa]. apply quiet_nosec.
      - apply (tf_init _ _ F1).
      - apply (tf_records _ _ F1).
      - cbn. lia.
      - rewrite (tf_config _ _ F1). reflexivity.
      - apply (tf_remote _ _ F1). }
    split; [apply (tf_config _ _ F1)|].
    eexists. split; [reflexivity|]. split; [auto|].
    split; [intros n0 Hs; rewrite (Hfun _ Hs); cbn; lia | discriminate].
Qed.

(* ---- the configuration file ----------------------------------------------------------------------------- *)

Lemma honest_head_msg msg t : honest_head msg t -> honest_msg msg.
Proof. intros [[-> _]|(n & Hn & -> & Hs)]; [left; reflexivity | right; eauto]. Qed.

Lemma assoc_set_same k v l : assoc k (assoc_set k v l) = Some v.
Proof.
  induction l as [|[a b] l IH]; cbn.
  - rewrite str_eqb_refl. reflexivity.
  - destruct (str_eqb k a) eqn:E; cbn; [rewrite str_eqb_refl; reflexivity | rewrite E; exact IH].
Qed.

Lemma read_config_honest s r s' :
  HonestState s -> read_config (latest_file name) s = (r, s') ->
  (exists cm, r = Some cm /\ honest_msg cm /\ assoc (latest_file name) (w_config (s_w s)) = Some cm) /\
  hstep s s'.
Proof.
  intros HS H. revert H.
  unfold read_config, bindM, get_world, emit, ret; cbn. intros [= <- <-].
  destruct (hs_config _ HS) as (cm & Ha & Hm). split; [exists cm; auto|].
  assert (F : tframe s (mkState (s_w s) (s_c s) (s_tr s ++ [EvReadConfig (latest_file name)])))
    by (constructor; reflexivity).
  split; [|split; [exact F | eapply textend_one; [reflexivity | exact I]]].
  eapply honest_after_reads; eauto. cbn. apply (hs_memo _ HS).
Qed.

Lemma merge_latest_honest msg s r s' :
  HonestState s -> honest_msg msg ->
  merge_latest node_hash V msg s = (r, s') ->
  r = None /\ ustep s s' /\
  (forall n, signed_tree V vs msg (Tree n (T 0 n)) -> n <= Codec.tN (c_latest (s_c s'))).
Proof.
  intros HS Hmsg H. unfold merge_latest in H. minva H r1 s1 E1.
  apply merge_latest_mem_honest in E1 as (U1 & C1 & w & -> & Hw & Hge & _); auto.
  assert (HS1 := us_honest _ _ U1).
  destruct w.
  1,2: apply ret_inv in H as [-> ->]; split; [reflexivity|]; split; [exact U1 | exact Hge].
  minva H w0 s2 E2. unfold get_world in E2. inversion E2; subst w0 s2; clear E2.
  rewrite (hs_interf _ HS1) in H. cbn [length merge_loop] in H.
  minva H c0 s2 E2. unfold get_client in E2. inversion E2; subst c0 s2; clear E2.
  rewrite (hs_name _ HS1) in H.
  minva H d s2 E2. apply read_config_honest in E2 as ((cm & -> & Hcm & Hcfg) & S2); auto.
  assert (HS2 : HonestState s2) by apply S2.
  minva H r3 s3 E3.
  apply merge_latest_mem_honest in E3 as (U3 & C3 & w3 & -> & Hw3 & Hge3 & Hpast3); auto.
  assert (HS3 := us_honest _ _ U3).
  assert (U13 : ustep s s3).
  { eapply ustep_trans; [exact U1|]. eapply ustep_trans; [apply hstep_ustep; exact S2 | exact U3]. }
  assert (Hge' : forall n, signed_tree V vs msg (Tree n (T 0 n)) -> n <= Codec.tN (c_latest (s_c s3))).
  { intros n Hs. specialize (Hge n Hs). pose proof (us_grow _ _ U3). destruct S2 as (_ & F2 & _).
    rewrite (tf_latest _ _ F2) in *. lia. }
  destruct w3.
  2,3: apply ret_inv in H as [-> ->]; split; [reflexivity|]; split; [exact U13 | exact Hge'].
  (* the stored head is older: write ours over it *)
  minva H c4 s4 E4. unfold get_client in E4. inversion E4; subst c4 s4; clear E4.
  rewrite (hs_name _ HS3) in H.
  minva H ok s4 E4.
  assert (Hw4 : ok = true /\ ustep s3 s4).
  { revert E4. unfold write_config, bindM, get_world, set_world, emit, ret; cbn.
    rewrite (hs_interf _ HS3). rewrite C3. destruct S2 as (_ & F2 & _). rewrite (tf_config _ _ F2), Hcfg.
    rewrite str_eqb_refl. intros [= <- <-]. split; [reflexivity|].
    pose proof (tf_config _ _ F2) as C2.
    constructor; cbn [s_c s_w s_tr w_config]; auto;
      [|eapply textend_one; [reflexivity | exact I] | lia
       |rewrite assoc_set_other by (intros E; symmetry in E; revert E; apply latest_file_not_key);
        f_equal; congruence].
    destruct HS3. constructor; cbn [s_c s_w w_remote w_cache w_config w_interf]; auto.
    exists (c_latest_msg (s_c s3)). split; [apply assoc_set_same|]. eapply honest_head_msg; eauto. }
  destruct Hw4 as [-> U4]. apply ret_inv in H as [-> ->].
  split; [reflexivity|]. split; [eapply ustep_trans; eauto|].
  intros n Hs. specialize (Hge' n Hs). pose proof (us_grow _ _ U4). lia.
Qed.

(* ---- checkRecord, the body of Lookup ------------------------------------------------------------------------ *)

Lemma check_record_st_honest id text s r s' :
  HonestState s -> 0 <= id < Codec.tN (c_latest (s_c s)) -> leaf_hash text = T id (id + 1) ->
  check_record_st leaf_hash node_hash id text s = (r, s') ->
  r = None /\ hstep s s'.
Proof.
  intros HS Hid Hleaf H. unfold check_record_st in H.
  minva H c0 s0 E0. unfold get_client in E0. inversion E0; subst c0 s0; clear E0.
  destruct (Z.ltb_spec id 0); [lia|]. destruct (Z.leb_spec (Codec.tN (c_latest (s_c s))) id); [lia|].
  cbn [orb] in H.
  destruct (hs_head _ HS) as [[_ E]|(n & Hn & E & _)]; rewrite E in *; cbn [Codec.tN] in *; [lia|].
  minva H rr s1 E1.
  apply tile_read_hashes_st_honest in E1 as (-> & S1); auto.
  2: { constructor; [|constructor]. split; [apply stored_hash_index_nonneg; lia|].
       apply (index_lt_count 0 id n); lia. }
  cbn [map] in H.
  replace (true_hash T (stored_hash_index 0 id)) with (T id (id + 1)) in H.
  - rewrite Hleaf, str_eqb_refl in H. apply ret_inv in H as [-> ->]. auto.
  - pose proof (true_hash_block 0 id ltac:(lia) ltac:(lia) (Z.divide_1_l id) ltac:(cbn; lia)) as Eth.
    rewrite Z.shiftr_0_r in Eth. change (2 ^ 0) with 1 in Eth. symmetry. exact Eth.
Qed.

Lemma write_lookup_honest f d s u s' :
  HonestState s -> is_lookup_file name f -> honest_record d ->
  write_cache f d s = (u, s') -> hstep s s'.
Proof.
  intros HS Hf Hd H. destruct (write_cache_spec _ _ _ _ _ H) as [F Tr]. revert H.
  unfold write_cache, bindM, get_world, set_world, emit, ret; cbn. intros [= _ <-].
  split; [|split; [exact F | eapply textend_one; [exact Tr | exact I]]].
  destruct HS. constructor; cbn; auto.
  intros f0 d0 Ha. apply assoc_set_inv in Ha as [[-> ->]|Ha]; [|auto].
  split; [|auto]. intros t _ ->. exfalso. eapply tile_key_not_lookup; eauto.
Qed.

Lemma read_cache_h f s r s' :
  HonestState s -> read_cache f s = (r, s') -> r = assoc f (w_cache (s_w s)) /\ hstep s s'.
Proof.
  intros HS H. destruct (read_cache_spec _ _ _ _ H) as [F Tr].
  apply read_cache_frame in H as (-> & R). split; [reflexivity|].
  split; [eapply honest_rframe; eauto|]. split; [exact F|].
  eapply textend_impl; [|exact Tr]. apply is_read_quiet.
Qed.

Lemma read_remote_h p s r s' :
  HonestState s -> read_remote p s = (r, s') -> (exists k, r = w_remote (s_w s) k p) /\ hstep s s'.
Proof.
  intros HS H. destruct (read_remote_spec _ _ _ _ H) as [F Tr].
  apply read_remote_frame in H as (-> & R). split; [eauto|].
  split; [eapply honest_rframe; eauto|]. split; [exact F|].
  eapply textend_impl; [|exact Tr]. apply is_read_quiet.
Qed.

Lemma hstep_cache_remote s s' : hstep s s' -> w_remote (s_w s') = w_remote (s_w s).
Proof. intros (_ & F & _). apply (tf_remote _ _ F). Qed.

Lemma record_work_honest file rp s r s' :
  HonestState s -> is_lookup_file name file -> (exists p, rp = B "/lookup/" ++ p) ->
  record_work leaf_hash node_hash V file rp s = (r, s') ->
  ustep s s' /\
  ((exists d, r = ROk d /\ honest_record d /\
      (assoc file (w_cache (s_w s)) = Some d \/
       assoc file (w_cache (s_w s)) = None /\ exists k, w_remote (s_w s) k rp = Some d)) \/
   (r = RErr ERemote /\ assoc file (w_cache (s_w s)) = None /\ exists k, w_remote (s_w s) k rp = None)).
Proof.
  intros HS Hfile (p & ->) H. unfold record_work in H.
  minva H d s1 E1. apply read_cache_h in E1 as (Hd & S1); auto.
  assert (HS1 : HonestState s1) by apply S1.
  minva H dw s2 E2.
  (* where the data comes from *)
  assert (Hsrc : hstep s s2 /\
     match dw with
     | Some (data, wr) => honest_record data /\
         (wr = false /\ assoc file (w_cache (s_w s)) = Some data \/
          wr = true /\ assoc file (w_cache (s_w s)) = None /\
            exists k, w_remote (s_w s) k (B "/lookup/" ++ p) = Some data)
     | None => assoc file (w_cache (s_w s)) = None /\ exists k, w_remote (s_w s) k (B "/lookup/" ++ p) = None
     end).
  { destruct d as [data|].
    - apply ret_inv in E2 as [-> ->]. split; [exact S1|].
      split; [|left; auto]. apply (hs_cache _ HS _ _ (eq_sym Hd)). exact Hfile.
    - minva E2 rr s3 E3. apply read_remote_h in E3 as ((k & Hk) & S3); auto.
      rewrite (hstep_cache_remote _ _ S1) in Hk.
      destruct rr as [data|]; apply ret_inv in E2 as [-> ->].
      + split; [eapply hstep_trans; eauto|]. split; [|right; eauto].
        eapply (hs_lookup _ HS). symmetry. exact Hk.
      + split; [eapply hstep_trans; eauto|]. split; [auto | eauto]. }
  destruct Hsrc as (S2 & Hdw). assert (HS2 : HonestState s2) by apply S2.
  destruct dw as [[data wr]|].
  2: { apply ret_inv in H as [-> ->]. split; [apply hstep_ustep; exact S2|]. right. tauto. }
  destruct Hdw as (Hrec & Hwhere).
  destruct Hrec as (id & text & tmsg & n & Hparse & Hid & HnN & Hleaf & Hsig).
  rewrite Hparse in H.
  minva H e1 s3 E3.
  apply merge_latest_honest in E3 as (-> & U3 & Hge); auto; [|right; exists n; split; [lia | exact Hsig]].
  assert (HS3 := us_honest _ _ U3).
  minva H e2 s4 E4.
  apply check_record_st_honest in E4 as (-> & S4); auto; [|specialize (Hge n Hsig); lia].
  assert (HS4 : HonestState s4) by apply S4.
  minva H u s5 E5. apply ret_inv in H as [-> ->].
  assert (Hrec : honest_record data) by (exists id, text, tmsg, n; auto).
  assert (S5 : hstep s4 s5).
  { destruct wr.
    - eapply write_lookup_honest; eauto.
    - apply ret_inv in E5 as [_ ->]. apply hstep_refl; exact HS4. }
  split.
  - eapply ustep_trans; [apply hstep_ustep; exact S2|]. eapply ustep_trans; [exact U3|].
    eapply ustep_trans; apply hstep_ustep; eauto.
  - left. exists data. split; [reflexivity|]. split; [exact Hrec|].
    destruct Hwhere as [(_ & Hc)|(_ & Hc & Hr)]; auto.
Qed.

(* ---- Lookup by an initialised honest client ----------------------------------------------------------------- *)

Definition records_ok (c : client) : Prop :=
  forall f r, In (f, r) (c_records c) -> (exists d, r = ROk d /\ honest_record d) \/ r = RErr ERemote.

(* where the answer of a lookup comes from in an honest world: the cached file, else the server *)
Definition lookup_source (w : world) (file rp : str) (d : option str) : Prop :=
  match d with
  | Some data => honest_record data /\
      (assoc file (w_cache w) = Some data \/
       assoc file (w_cache w) = None /\ exists k, w_remote w k rp = Some data)
  | None => assoc file (w_cache w) = None /\ exists k, w_remote w k rp = None
  end.

Lemma lookup_m_honest path vers s r s' :
  HonestState s -> c_init (s_c s) = Some None -> records_ok (s_c s) ->
  lookup_m sha leaf_hash node_hash V esc_path esc_vers skip path vers s = (r, s') ->
  HonestState s' /\ c_init (s_c s') = Some None /\ records_ok (s_c s') /\
  (textend nosec s s' /\ assoc (B "key") (w_config (s_w s')) = assoc (B "key") (w_config (s_w s)) /\
   w_remote (s_w s') = w_remote (s_w s)) /\
  r <> LErr ESecurity /\
  (forall ep ev, skip path = false -> esc_path path = Some ep ->
     esc_vers (trim_suffix vers go_mod_suffix) = Some ev ->
     rec_find (name ++ B "/lookup/" ++ ep ++ [64] ++ ev) (c_records (s_c s)) = None ->
     exists d, lookup_source (s_w s) (name ++ B "/lookup/" ++ ep ++ [64] ++ ev) (B "/lookup/" ++ ep ++ [64] ++ ev) d /\
               r = match d with Some data => LOk (result_lines path vers data) | None => LErr ERemote end).
Proof.
  intros HS Hi Hrec H. unfold lookup_m in H.
  destruct (skip path) eqn:Hskip.
  { apply ret_inv in H as [-> ->]. split; [exact HS|]. split; [exact Hi|]. split; [exact Hrec|].
    split; [split; [apply textend_refl | split; reflexivity]|]. split; [discriminate|]. intros ep ev Hs. discriminate. }
  minva H e0 s1 E1. unfold client_init, bindM, get_client, ret in E1. cbn [s_c] in E1. rewrite Hi in E1.
  inversion E1; subst e0 s1; clear E1.
  destruct (esc_path path) as [ep|] eqn:Hep.
  2: { apply ret_inv in H as [-> ->]. split; [exact HS|]. split; [exact Hi|]. split; [exact Hrec|].
       split; [split; [apply textend_refl | split; reflexivity]|]. split; [discriminate|]. intros ep ev _ [=]. }
  destruct (esc_vers (trim_suffix vers go_mod_suffix)) as [ev|] eqn:Hev.
  2: { apply ret_inv in H as [-> ->]. split; [exact HS|]. split; [exact Hi|]. split; [exact Hrec|].
       split; [split; [apply textend_refl | split; reflexivity]|]. split; [discriminate|]. intros ep' ev' _ _ [=]. }
  minva H c1 s1 E1. unfold get_client in E1. inversion E1; subst c1 s1; clear E1.
  rewrite (hs_name _ HS) in H.
  set (rp := B "/lookup/" ++ ep ++ [64] ++ ev) in *.
  set (file := name ++ rp) in *.
  minva H rr s2 E2. unfold record_do in E2.
  minva E2 c2 s3 E3. unfold get_client in E3. inversion E3; subst c2 s3; clear E3.
  destruct (rec_find file (c_records (s_c s))) as [r0|] eqn:Hfind.
  - (* memoised *)
    apply ret_inv in E2 as [-> ->]. assert (Hfind0 := Hfind). apply rec_find_in in Hfind.
    assert (Hres : r <> LErr ESecurity /\ s' = s).
    { destruct (Hrec _ _ Hfind) as [(d & -> & _)| ->]; apply ret_inv in H as [-> ->]; split; try reflexivity; discriminate. }
    destruct Hres as [Hne ->]. split; [exact HS|]. split; [exact Hi|]. split; [exact Hrec|].
    split; [split; [apply textend_refl | split; reflexivity]|]. split; [exact Hne|].
    intros ep' ev' _ [= <-] [= <-] Hnone. fold rp in Hnone. fold file in Hnone. congruence.
  - minva E2 r1 s3 E3.
    apply record_work_honest in E3 as (U3 & Hr1); auto.
    2: { exists ep, ev. reflexivity. }
    2: { exists (ep ++ [64] ++ ev). reflexivity. }
    minva E2 c4 s4 E4. unfold get_client in E4. inversion E4; subst c4 s4; clear E4.
    minva E2 u s5 E5. unfold set_client in E5. inversion E5; subst s5; clear E5.
    apply ret_inv in E2 as [-> ->].
    assert (HS3 := us_honest _ _ U3).
    set (s5 := mkState _ _ _) in *.
    assert (HS5 : HonestState s5).
    { destruct HS3. constructor; unfold s5; cbn [s_c s_w c_name c_verifiers c_height c_latest c_latest_msg c_tiles]; auto. }
    assert (Hrec5 : records_ok (s_c s5)).
    { unfold records_ok, s5. cbn [s_c c_records]. intros f0 r0 [[= <- <-]|Hin].
      - destruct Hr1 as [(d & -> & Hd & _)|(-> & _)]; [left; eauto | right; reflexivity].
      - rewrite (us_records _ _ U3) in Hin. eauto. }
    assert (T5 : textend nosec s s5 /\ assoc (B "key") (w_config (s_w s5)) = assoc (B "key") (w_config (s_w s)) /\
                 w_remote (s_w s5) = w_remote (s_w s)).
    { split; [|unfold s5; cbn; split; [apply (us_key _ _ U3) | apply (us_remote _ _ U3)]].
      destruct (us_trace _ _ U3) as (evs & E & Fa). exists evs. unfold s5; cbn. auto. }
    assert (Hi5 : c_init (s_c s5) = Some None) by (unfold s5; cbn; rewrite (us_init _ _ U3); exact Hi).
    destruct Hr1 as [(d & -> & Hd & Hsrc)|(-> & Hc & Hk)]; apply ret_inv in H as [-> ->].
    + split; [exact HS5|]. split; [exact Hi5|]. split; [exact Hrec5|]. split; [exact T5|].
      split; [discriminate|]. intros ep' ev' _ [= <-] [= <-] _. exists (Some d). split; [split; auto | reflexivity].
    + split; [exact HS5|]. split; [exact Hi5|]. split; [exact Hrec5|]. split; [exact T5|].
      split; [discriminate|]. intros ep' ev' _ [= <-] [= <-] _. exists None. split; [split; auto | reflexivity].
Qed.

(* ---- world and client separately; initialisation ------------------------------------------------------------ *)

Record HonestWorld (w : world) : Prop := mkHW {
  hw_remote : forall t k, served t -> w_remote w k (tile_remote_path t) = Some (honest_tile t);
  hw_cache : forall f d, assoc f (w_cache w) = Some d -> good_file f d;
  hw_interf : w_interf w = [];
  hw_config : exists cm, assoc (latest_file name) (w_config w) = Some cm /\ honest_msg cm;
  hw_lookup : forall k p d, w_remote w k (B "/lookup/" ++ p) = Some d -> honest_record d;
  hw_key : exists k hash key, assoc (B "key") (w_config w) = Some k /\
             parse_verifier_key sha (trim_space k) = KOk (name, hash, key) /\
             verifier_list str [ {| v_name := name; v_hash := hash; v_id := key |} ] = vs
}.

(* an initialised honest client *)
Record HonestClient (c : client) : Prop := mkHC {
  hc_init : c_init c = Some None;
  hc_name : c_name c = name;
  hc_vs : c_verifiers c = vs;
  hc_height : c_height c = h;
  hc_head : honest_head (c_latest_msg c) (c_latest c);
  hc_memo : forall t r, tile_find t (c_tiles c) = Some r -> served t /\ r = Some (honest_tile t);
  hc_records : records_ok c
}.

(* a client that has not looked anything up yet *)
Definition FreshClient (c : client) : Prop :=
  c_init c = None /\ c_latest_msg c = [] /\ Codec.tN (c_latest c) = 0 /\ c_records c = [] /\
  c_tiles c = [] /\ c_height c = h.

Definition GoodClient (c : client) : Prop := HonestClient c \/ FreshClient c.

Lemma honest_state_intro w c tr : HonestWorld w -> HonestClient c -> HonestState (mkState w c tr).
Proof. intros [] []. constructor; cbn; auto. Qed.

Lemma honest_world_of s : HonestState s ->
  (exists k hash key, assoc (B "key") (w_config (s_w s)) = Some k /\
             parse_verifier_key sha (trim_space k) = KOk (name, hash, key) /\
             verifier_list str [ {| v_name := name; v_hash := hash; v_id := key |} ] = vs) ->
  HonestWorld (s_w s).
Proof. intros [] Hk. constructor; auto. Qed.

Lemma read_config_eq f s :
  read_config f s = (assoc f (w_config (s_w s)), mkState (s_w s) (s_c s) (s_tr s ++ [EvReadConfig f])).
Proof. reflexivity. Qed.

Lemma init_work_honest w c tr r s' :
  HonestWorld w -> FreshClient c ->
  init_work sha node_hash V (mkState w c tr) = (r, s') ->
  r = None /\ HonestState s' /\ c_init (s_c s') = None /\ c_records (s_c s') = [] /\
  textend nosec (mkState w c tr) s' /\
  assoc (B "key") (w_config (s_w s')) = assoc (B "key") (w_config w) /\
  w_remote (s_w s') = w_remote w.
Proof.
  intros HW (Hi & Hm & Hn & Hr & Ht & Hh0) H. unfold init_work in H.
  destruct (hw_key _ HW) as (k & hash & key & Hk & Hparse & Hvs).
  minva H d s1 E1. rewrite read_config_eq in E1. cbn [s_w s_c s_tr] in E1. rewrite Hk in E1.
  inversion E1; subst d s1; clear E1.
  rewrite Hparse in H.
  minva H c1 s2 E2. unfold get_client in E2. inversion E2; subst c1 s2; clear E2.
  minva H u s3 E3. unfold set_client in E3. inversion E3; subst s3; clear E3. cbn [s_c s_w s_tr] in H.
  rewrite Hn in H. cbn [Z.eqb] in H. rewrite Hvs in H.
  set (s3 := mkState _ _ _) in H.
  assert (HS3 : HonestState s3).
  { destruct HW. constructor; unfold s3; cbn [s_c s_w c_name c_verifiers c_height c_latest c_latest_msg c_tiles]; auto.
    - left. rewrite Hm. auto.
    - rewrite Ht. intros t r0 [=]. }
  minva H d2 s4 E4. apply read_config_honest in E4 as ((cm & -> & Hcm & Hcfg) & S4); auto.
  apply merge_latest_honest in H as (-> & U5 & _); auto; [|apply S4].
  assert (U35 : ustep s3 s').
  { eapply ustep_trans; [apply hstep_ustep; exact S4 | exact U5]. }
  split; [reflexivity|]. split; [apply (us_honest _ _ U35)|].
  split; [rewrite (us_init _ _ U35); unfold s3; cbn; exact Hi|].
  split; [rewrite (us_records _ _ U35); unfold s3; cbn; exact Hr|].
  split; [|split; [rewrite (us_key _ _ U35); unfold s3; cbn; reflexivity
                  | rewrite (us_remote _ _ U35); unfold s3; cbn; reflexivity]].
  destruct (us_trace _ _ U35) as (evs & E & Fa). unfold s3 in E; cbn in E.
  exists (EvReadConfig (B "key") :: evs). split; [rewrite E, <- app_assoc; reflexivity|].
  constructor; [exact I | exact Fa].
Qed.

(* ---- Lookup in an honest world: the theorem ------------------------------------------------------------------- *)

Notation lookup := (Seq.lookup sha leaf_hash node_hash V esc_path esc_vers skip).

Lemma lookup_m_after_init path vers s0 e s2 :
  skip path = false ->
  client_init sha node_hash V s0 = (e, s2) -> c_init (s_c s2) = Some e ->
  lookup_m sha leaf_hash node_hash V esc_path esc_vers skip path vers s0 =
  lookup_m sha leaf_hash node_hash V esc_path esc_vers skip path vers s2.
Proof.
  intros Hs E Hi. unfold lookup_m. rewrite Hs. unfold bindM at 1. rewrite E.
  unfold bindM at 2. unfold client_init at 1. unfold bindM, get_client, ret. cbn [s_c]. rewrite Hi. reflexivity.
Qed.

Definition answer (w : world) (rp : str) (path vers : str) (r : lres) : Prop :=
  (exists data, r = LOk (result_lines path vers data) /\ honest_record data) \/
  (r = LErr ERemote /\ exists k, w_remote w k rp = None).

Theorem lookup_honest w c path vers r evs w' c' :
  HonestWorld w -> GoodClient c ->
  lookup w c path vers = (r, evs, w', c') ->
  HonestWorld w' /\ GoodClient c' /\ Forall nosec evs /\ r <> LErr ESecurity /\
  (forall ep ev, skip path = false -> esc_path path = Some ep ->
     esc_vers (trim_suffix vers go_mod_suffix) = Some ev ->
     (c_init c = None \/ rec_find (name ++ B "/lookup/" ++ ep ++ [64] ++ ev) (c_records c) = None) ->
     answer w (B "/lookup/" ++ ep ++ [64] ++ ev) path vers r).
Proof.
  intros HW HG H. unfold Seq.lookup in H.
  destruct (lookup_m sha leaf_hash node_hash V esc_path esc_vers skip path vers (mkState w c [])) as [r0 s'] eqn:E.
  inversion H; subst r0 evs w' c'; clear H.
  (* the initialised case, for any starting trace *)
  assert (Hinit : forall s, HonestState s -> HonestWorld (s_w s) -> HonestClient (s_c s) ->
            lookup_m sha leaf_hash node_hash V esc_path esc_vers skip path vers s = (r, s') ->
            HonestWorld (s_w s') /\ GoodClient (s_c s') /\ textend nosec s s' /\ r <> LErr ESecurity /\
            w_remote (s_w s') = w_remote (s_w s) /\
            (forall ep ev, skip path = false -> esc_path path = Some ep ->
               esc_vers (trim_suffix vers go_mod_suffix) = Some ev ->
               rec_find (name ++ B "/lookup/" ++ ep ++ [64] ++ ev) (c_records (s_c s)) = None ->
               answer (s_w s) (B "/lookup/" ++ ep ++ [64] ++ ev) path vers r)).
  { intros s HS HWs HC El.
    apply lookup_m_honest in El as (HS' & Hi' & Hrec' & (Tr & Hkey & Hrem) & Hne & Hsrc); auto;
      [|apply (hc_init _ HC)|apply (hc_records _ HC)].
    split.
    { apply honest_world_of; [exact HS'|]. rewrite Hkey. apply (hw_key _ HWs). }
    split.
    { left. destruct HS'. constructor; auto. }
    split; [exact Tr|]. split; [exact Hne|]. split; [exact Hrem|].
    intros ep ev H1 H2 H3 H4. destruct (Hsrc ep ev H1 H2 H3 H4) as (d & Hd & ->).
    destruct d as [data|]; [left | right].
    - exists data. split; [reflexivity | apply Hd].
    - split; [reflexivity | apply Hd]. }
  destruct HG as [HC|HF].
  - (* an initialised client *)
    destruct (Hinit _ (honest_state_intro w c [] HW HC) HW HC E) as (H1 & H2 & (evs & Etr & Fa) & H4 & _ & H6).
    cbn in Etr. split; [exact H1|]. split; [exact H2|]. split; [rewrite Etr; exact Fa|]. split; [exact H4|].
    intros ep ev A B0 C0 [D|D]; [rewrite (hc_init _ HC) in D; discriminate|]. apply (H6 ep ev A B0 C0 D).
  - (* a fresh client: initialisation first *)
    destruct (skip path) eqn:Hskip.
    { unfold lookup_m in E. rewrite Hskip in E. apply ret_inv in E as [-> ->]. cbn.
      split; [exact HW|]. split; [right; exact HF|]. split; [constructor|]. split; [discriminate|].
      intros ep ev [=]. }
    assert (Hfi := HF). destruct Hfi as (Hi & _).
    destruct (client_init sha node_hash V (mkState w c [])) as [e s2] eqn:Eci.
    assert (Hci : e = None /\ HonestState s2 /\ c_init (s_c s2) = Some None /\ c_records (s_c s2) = [] /\
                  textend nosec (mkState w c []) s2 /\
                  assoc (B "key") (w_config (s_w s2)) = assoc (B "key") (w_config w) /\
                  w_remote (s_w s2) = w_remote w).
    { unfold client_init in Eci. minva Eci c0 s0 E0. unfold get_client in E0. inversion E0; subst c0 s0; clear E0.
      cbn [s_c] in Eci. rewrite Hi in Eci.
      minva Eci r1 s1 E1. apply init_work_honest in E1 as (-> & HS1 & Hi1 & Hr1 & Tr1 & Hk1 & Hrm1); auto.
      minva Eci c2 s3 E3. unfold get_client in E3. inversion E3; subst c2 s3; clear E3.
      minva Eci u s3 E3. unfold set_client in E3. inversion E3; subst s3; clear E3.
      apply ret_inv in Eci as [-> ->]. cbn [s_c s_w s_tr c_init c_records].
      split; [reflexivity|]. split.
      { destruct HS1. constructor; cbn [s_c s_w c_name c_verifiers c_height c_latest c_latest_msg c_tiles]; auto. }
      split; [reflexivity|]. split; [exact Hr1|]. split; [|auto].
      destruct Tr1 as (evs & Et & Fa). exists evs. cbn in *. auto. }
    destruct Hci as (-> & HS2 & Hi2 & Hr2 & Tr2 & Hk2 & Hrm2).
    rewrite (lookup_m_after_init path vers _ _ _ Hskip Eci Hi2) in E.
    assert (HW2 : HonestWorld (s_w s2)).
    { apply honest_world_of; [exact HS2|]. rewrite Hk2. apply (hw_key _ HW). }
    assert (HC2 : HonestClient (s_c s2)).
    { destruct HS2. constructor; auto. unfold records_ok. rewrite Hr2. intros f r0 []. }
    destruct (Hinit _ HS2 HW2 HC2 E) as (H1 & H2 & Tr & H4 & _ & H6).
    split; [exact H1|]. split; [exact H2|].
    assert (Tall := textend_trans _ _ _ _ Tr2 Tr). destruct Tall as (evs & Etr & Fa). cbn in Etr.
    split; [rewrite Etr; exact Fa|]. split; [exact H4|].
    intros ep ev A B0 C0 _.
    assert (Hnone : rec_find (name ++ B "/lookup/" ++ ep ++ [64] ++ ev) (c_records (s_c s2)) = None)
      by (rewrite Hr2; reflexivity).
    destruct (H6 ep ev A B0 C0 Hnone) as [Hok|(-> & k & Hk)]; [left; exact Hok|].
    right. split; [reflexivity|]. exists k. rewrite <- Hrm2. exact Hk.
Qed.

(* ---- histories: honest growth never triggers Security ----------------------------------------------------------- *)

Notation run := (SeqProofsTop.run sha leaf_hash node_hash V esc_path esc_vers skip).

Theorem honest_run_no_security steps : forall w cs rs evs w' cs',
  HonestWorld w -> (forall i, GoodClient (cs i)) ->
  run steps w cs = (rs, evs, w', cs') ->
  HonestWorld w' /\ (forall i, GoodClient (cs' i)) /\ Forall nosec evs /\ ~ In (LErr ESecurity) rs.
Proof.
  induction steps as [|[[i path] vers] rest IH]; intros w cs rs evs w' cs' HW HG H; cbn in H.
  - inversion H; subst. split; [exact HW|]. split; [exact HG|]. split; [constructor|]. intros [].
  - destruct (lookup w (cs i) path vers) as [[[r evs1] w1] c1] eqn:E1.
    destruct (run rest w1 (SeqProofsTop.upd cs i c1)) as [[[rs2 evs2] w2] cs2] eqn:E2.
    inversion H; subst; clear H.
    eapply lookup_honest in E1 as (HW1 & HG1 & Hev1 & Hne1 & _); eauto.
    eapply IH in E2 as (HW2 & HG2 & Hev2 & Hno2); eauto.
    + split; [exact HW2|]. split; [exact HG2|]. split; [apply Forall_app; auto|].
      intros [Hin|Hin]; [apply Hne1; exact Hin | exact (Hno2 Hin)].
    + intros j. unfold SeqProofsTop.upd. destruct (Nat.eqb j i); auto.
Qed.

End Honest.
