(* Client/SeqProofsOrderWitness.v — finding K10 as a theorem about the model: the side condition
   run_clean of installed_heads_totally_ordered (SeqProofsOrderHist.v) cannot be dropped.

   The witness is the corpus scenario of harness/props/c13k10.go (sumK10Scenario; the line below is
   the correspondence case the harness emits for it — logs A (6 records) and B (5 records) sharing
   their first 4 records, tile height 2, real SHA-256, the harness's Ed25519 signatures as the
   table V), evaluated in the kernel by vm_compute on the model Client/Seq.v:
     step 0  client 0 looks up record 0, the server signs A1        -> ok, head A1, stored head A1
     step 1  client 1 (sharing the configuration) looks up B's record 4, server signs B5
                                                                       -> ok, stored head B5
     step 2  client 0 is shown A6 (extends A1, forks from B5)         -> ErrSecurity, stored head B5,
                                                                          but client 0's head is A6
     step 3  client 0 looks up A's record 4                           -> ok (forked data)
   At the end A6 (latest of the live client 0) and B5 (stored) are both accepted, and they are
   comparable only if the node hash (SHA-256 here) has a collision. *)
From Verif.Base Require Import Bytes Wire Sha256.
From Verif.Tlog Require Import Index Tree Codec Sha Tile TileReader TileSpec.
From Verif.Note Require Import Note NoteProofs.
From Verif.Client Require Import Seq SeqProofs SeqProofsTile SeqProofsSafe SeqProofsTop SeqProofsInst.
From Verif.Client Require Import SeqProofsOrder SeqProofsOrderHist DispatchClient.

Local Open Scope string_scope.
Definition k10_line : String.string :=
  "L2 S5363656e6172696f L7 I2 L2 L2 S6b6579 S6c6f63616c686f73742e6c6f63616c6465762f73756d64622b35346461636234642b416241754769746d6867764a442b4f566e503261766b6d41395a3631597830764b3468353846746d6f4b42350a L2 S6c6f63616c686f73742e6c6f63616c6465762f73756d64622f6c6174657374 S L0 L9 L3 S2f6c6f6f6b75702f6578302e746573742f6d304076312e302e30 S300a6578302e746573742f6d302076312e302e302068313a2f61312b657a4647427574496a5032686c504569356e49356f65682f4f706d444d2b4863736432336958553d0a6578302e746573742f6d302076312e302e302f676f2e6d6f642068313a67484553633546497743656a49667253553376576c6a37764162344242446c74705459624765525676506f3d0a0a676f2e73756d20646174616261736520747265650a310a57566e54696e6d54496f73417876665433584539563572634c622b3463434f38316c5351533579616845413d0a0ae28094206c6f63616c686f73742e6c6f63616c6465762f73756d646220564e724c5455636a5945364a79787266664b7a594a705175313841535a53346a3951787157346374496756477943756e7058584c494a5676616e374e4c4748424b48714e61536d594b647534516b6b6b35774b2f5965416b4867673d0a I0 L3 S2f74696c652f322f302f3030302e702f31 S5959d38a7993228b00c6f7d3dd713d579adc2dbfb87023bcd654904b9c9a8440 I0 L3 S2f6c6f6f6b75702f6578312e746573742f6662344076312e302e34 S340a6578312e746573742f6662342076312e302e342068313a45684c3957716535643158714e4a7a5255777a4d66425570514572434e655678644f33487a4253666534733d0a6578312e746573742f6662342076312e302e342f676f2e6d6f642068313a7770496974476c5130714b755a432f534e615068513934484531436349766945493653396e5768596b4d413d0a6578312e746573742f6662342076312e302e342068323a6b62634d50316f2b0a0a676f2e73756d20646174616261736520747265650a350a5269317979306c796859472b6b6e772b336549536933656547474741716d334862725156625338547367453d0a0ae28094206c6f63616c686f73742e6c6f63616c6465762f73756d646220564e724c5456456c6933574437526239702b70763436564350647669514276435a474634496c5148763536515146752f4f30466978566856626d443770366150526d6b4d4e5850714f3269626f78347162647548392b68537567303d0a I0 L3 S2f74696c652f322f302f303030 S5959d38a7993228b00c6f7d3dd713d579adc2dbfb87023bcd654904b9c9a84407d70e408a51b2254b6394fc181feaeba9ee3877468567b5ba238aa212cf107cc60ba19396e6f45628ef6d360a07d1422eb98bf0ee73ab53367d9b62142600c4cb6fd061db5e9db7f24df78f1f8626e366b097ca5faa05f17c4fd6562c4d7989e I0 L3 S2f74696c652f322f312f3030302e702f31 S732f4941b51ef6d85cce4b4b2e117f262da43a9dd9e59b66fa18113047b1502a I0 L3 S2f74696c652f322f302f3030312e702f31 S94ac02b282fa30c9c697e206ab11fd1035c147750dedaf21dcee266d3aec348f I0 L3 S2f6c6f6f6b75702f6578322e746573742f6d354076312e302e35 S350a6578322e746573742f6d352076312e302e352068313a49727a517053654d704f4b4679626a3072416359734a47565a35736a45416a6c7972744a452f6e75496c633d0a6578322e746573742f6d352076312e302e352f676f2e6d6f642068313a48542b6a38335a347768374c4a7656526d59737a2b39337a673168786b724866565464434a54544c39646b3d0a0a676f2e73756d20646174616261736520747265650a360a6c6a4643653245534e532f787547636b64723432396d356a354e59576971596c4a753564695366395835383d0a0ae28094206c6f63616c686f73742e6c6f63616c6465762f73756d646220564e724c5465726a5a7951336832307554496d304e56653663422b4335314455584c7a552b334a673745786f2f7142444a454f4c68393565592b7662434c2b38726d6f444a556a666e556d634d43354372486a527543455a4277553d0a I0 L3 S2f74696c652f322f302f3030312e702f32 S6fc604644ebf245d6d5902d35fe63c529049331c70ebf44d456a285fb4b74ebf9fc030f2205c9ce885e5d915ab808dd8ebace65767a3a4ad5f396239629fc9ab I0 L3 S2f6c6f6f6b75702f6578312e746573742f6d344076312e302e34 S340a6578312e746573742f6d342076312e302e342068313a3870614149386e435550586a78386d646e477639594f787a3255747a6f71514576687575657364554766453d0a6578312e746573742f6d342076312e302e342f676f2e6d6f642068313a4b612f6b5351302b68566d7346303162384b564b484d564c2b41456a2b526e4448476133626d65526262773d0a6578312e746573742f6d342076312e302e342068323a384f7439476e41730a0a676f2e73756d20646174616261736520747265650a360a6c6a4643653245534e532f787547636b64723432396d356a354e59576971596c4a753564695366395835383d0a0ae28094206c6f63616c686f73742e6c6f63616c6465762f73756d646220564e724c5465726a5a7951336832307554496d304e56653663422b4335314455584c7a552b334a673745786f2f7142444a454f4c68393565592b7662434c2b38726d6f444a556a666e556d634d43354372486a527543455a4277553d0a I0 L3 L3 S01b02e1a2b66860bc90fe3959cfd9abe4980f59eb5631d2f2b8879f05b66a0a079 S676f2e73756d20646174616261736520747265650a310a57566e54696e6d54496f73417876665433584539563572634c622b3463434f38316c5351533579616845413d0a S4723604e89cb1adf7cacd826942ed7c012652e23f50c6a5b872d220546c82ba7a575cb20956f6a7ecd2c61c1287a8d69299829dbb8424924e702bf61e0241e08 L3 S01b02e1a2b66860bc90fe3959cfd9abe4980f59eb5631d2f2b8879f05b66a0a079 S676f2e73756d20646174616261736520747265650a350a5269317979306c796859472b6b6e772b336549536933656547474741716d334862725156625338547367453d0a S51258b7583ed16fda7ea6fe3a5423ddbe2401bc2646178225407bf9e90405bbf3b4162c558556e60fba7a68f46690c3573ea3b689ba31e2a6ddb87f7e852ba0d L3 S01b02e1a2b66860bc90fe3959cfd9abe4980f59eb5631d2f2b8879f05b66a0a079 S676f2e73756d20646174616261736520747265650a360a6c6a4643653245534e532f787547636b64723432396d356a354e59576971596c4a753564695366395835383d0a Seae3672437876d2e4c89b43557ba701f82e750d45cbcd4fb7260ec4c68fea04324438b87de5e63ebdb08bfbcae6a032548df9d499c302e42ac78d1b821190705 L0 L4 L3 I0 S6578302e746573742f6d30 S76312e302e30 L3 I1 S6578312e746573742f666234 S76312e302e34 L3 I0 S6578322e746573742f6d35 S76312e302e35 L3 I0 S6578312e746573742f6d34 S76312e302e34".
Local Close Scope string_scope.

(* ---- the decoded scenario ------------------------------------------------------------------ *)

Definition k10_parts :=
  match parse_line (B k10_line) with
  | Some (VL [VS _; VL [VI h; VL cfg; VL cache; VL remote; VL sigs; VL interf; VL steps]]) =>
      match dec_pairs cfg, dec_pairs cache, dec_remote remote, dec_sigs sigs, dec_interf interf, dec_steps steps with
      | Some cfg', Some cache', Some remote', Some sigs', Some interf', Some steps' =>
          Some (h, cfg', cache', remote', sigs', interf', steps')
      | _, _, _, _, _, _ => None
      end
  | _ => None
  end.

Definition k10_parts_nf := Eval vm_compute in k10_parts.

Definition k10_h : Z := Eval vm_compute in match k10_parts_nf with Some (h, _, _, _, _, _, _) => h | None => 0 end.
Definition k10_cfg : list (str * str) := Eval vm_compute in match k10_parts_nf with Some (_, c, _, _, _, _, _) => c | None => [] end.
Definition k10_cache : list (str * str) := Eval vm_compute in match k10_parts_nf with Some (_, _, c, _, _, _, _) => c | None => [] end.
Definition k10_remote : list (str * option str) := Eval vm_compute in match k10_parts_nf with Some (_, _, _, r, _, _, _) => r | None => [] end.
Definition k10_sigs : list (str * str * str) := Eval vm_compute in match k10_parts_nf with Some (_, _, _, _, s, _, _) => s | None => [] end.
Definition k10_interf : list (Z * str) := Eval vm_compute in match k10_parts_nf with Some (_, _, _, _, _, i, _) => i | None => [] end.
Definition k10_steps : list (nat * str * str) :=
  Eval vm_compute in match k10_parts_nf with
                     | Some (_, _, _, _, _, _, st) => map (fun x => match x with (c, p, v) => (Z.to_nat c, p, v) end) st
                     | None => []
                     end.

Definition k10_V := V_table k10_sigs.
Definition k10_w : world := mkWorld (remote_fn k10_remote) [] k10_cache k10_cfg (interf_list k10_interf).
Definition k10_cs : clients := fun _ => new_client k10_h.

(* the configured key *)
Definition k10_key :=
  Eval vm_compute in
    match assoc (B "key") k10_cfg with
    | Some k => match parse_verifier_key sha256 (trim_space k) with KOk x => Some x | KErr _ => None end
    | None => None
    end.
Definition k10_name : str := Eval vm_compute in match k10_key with Some (nm, _, _) => nm | None => [] end.
Definition k10_vs : verifiers str :=
  Eval vm_compute in
    match k10_key with
    | Some (nm, h, key) => verifier_list str [ {| v_name := nm; v_hash := h; v_id := key |} ]
    | None => verifier_list str []
    end.

(* ---- run with a log of (result, head size before, head size after) per step ------------------- *)

Section RunFull.
Variable sha : str -> str.
Variable leaf_hash : str -> hash.
Variable node_hash : hash -> hash -> hash.
Variable V : str -> str -> str -> bool.
Variable esc_path esc_vers : str -> option str.
Variable skip : str -> bool.
Notation lookup := (Seq.lookup sha leaf_hash node_hash V esc_path esc_vers skip).
Notation run := (run sha leaf_hash node_hash V esc_path esc_vers skip).
Notation run_clean := (run_clean sha leaf_hash node_hash V esc_path esc_vers skip).
Notation run_states := (run_states sha leaf_hash node_hash V esc_path esc_vers skip).

Fixpoint run_full (steps : list (nat * str * str)) (w : world) (cs : clients)
  : (list lres * list event * world * clients) * list (lres * Z * Z) :=
  match steps with
  | [] => (([], [], w, cs), [])
  | (i, path, vers) :: rest =>
      match lookup w (cs i) path vers with
      | (r, evs, w1, c1) =>
          match run_full rest w1 (upd cs i c1) with
          | ((rs, evs2, w2, cs2), lg) =>
              ((r :: rs, evs ++ evs2, w2, cs2),
               (r, Codec.tN (c_latest (cs i)), Codec.tN (c_latest c1)) :: lg)
          end
      end
  end.

Definition clean_log (x : lres * Z * Z) : Prop :=
  match x with (r, a, b) => (forall e, r <> LErr e) \/ b = a end.

Lemma run_full_fst steps : forall w cs, fst (run_full steps w cs) = run steps w cs.
Proof.
  induction steps as [|[[i path] vers] rest IH]; intros w cs; cbn; [reflexivity|].
  destruct (lookup w (cs i) path vers) as [[[r evs1] w1] c1].
  rewrite <- IH. destruct (run_full rest w1 (upd cs i c1)) as [[[[rs evs2] w2] cs2] lg]. reflexivity.
Qed.

Lemma run_full_clean steps : forall w cs, run_clean steps w cs -> Forall clean_log (snd (run_full steps w cs)).
Proof.
  induction steps as [|[[i path] vers] rest IH]; intros w cs H; cbn in *; [constructor|].
  destruct (lookup w (cs i) path vers) as [[[r evs1] w1] c1]. destruct H as [H1 H2].
  specialize (IH _ _ H2). destruct (run_full rest w1 (upd cs i c1)) as [[[[rs evs2] w2] cs2] lg].
  cbn in *. constructor; [exact H1 | exact IH].
Qed.

Lemma run_states_last steps : forall w cs rs evs w' cs',
  run steps w cs = (rs, evs, w', cs') -> In (w', cs') (run_states steps w cs).
Proof.
  induction steps as [|[[i path] vers] rest IH]; intros w cs rs evs w' cs' H; cbn in *.
  - inversion H; subst. left. reflexivity.
  - destruct (lookup w (cs i) path vers) as [[[r evs1] w1] c1].
    destruct (SeqProofsTop.run sha leaf_hash node_hash V esc_path esc_vers skip rest w1 (upd cs i c1)) as [[[rs2 evs2] w2] cs2] eqn:E2.
    inversion H; subst. right. eapply IH; eauto.
Qed.

End RunFull.

(* signatures from a finite table: the signed trees are those of the table *)
Lemma vtable_signed_small sigs vs :
  forallb (fun e => match parse_tree (snd (fst e)) with Index.Ok t => Codec.tN t <? 2 ^ 62 | _ => true end) sigs = true ->
  forall msg t, signed_tree (V_table sigs) vs msg t -> Codec.tN t < 2 ^ 62.
Proof.
  intros Hall msg t (n & Ho & Hp).
  destruct (open_sound str (V_table sigs) msg vs n Ho) as (Hne & sb & _ & _ & _ & Hs & _).
  destruct (n_sigs n) as [|s0 rest] eqn:Es; [congruence|].
  destruct (Hs s0 (or_introl eq_refl)) as (v & _ & _ & _ & _ & _ & HV & _).
  unfold V_table in HV. apply existsb_exists in HV as ([[k x] sg] & Hin & Hm).
  apply andb_true_iff in Hm as [Hm _]. apply andb_true_iff in Hm as [_ Hx]. apply str_eqb_eq in Hx. subst x.
  rewrite forallb_forall in Hall. specialize (Hall _ Hin). cbn in Hall. rewrite Hp in Hall.
  apply Z.ltb_lt. exact Hall.
Qed.

(* ---- the run, evaluated once -------------------------------------------------------------------- *)

Notation k10_run := (run sha256 record_hash node_hash_sha k10_V esc_path_i esc_vers_i (fun _ => false) k10_steps k10_w k10_cs).
Notation k10_rf := (run_full sha256 record_hash node_hash_sha k10_V esc_path_i esc_vers_i (fun _ => false) k10_steps k10_w k10_cs).

Definition k10_obs (rf : (list lres * list event * world * clients) * list (lres * Z * Z)) :=
  let r := fst rf in
  let c0 := snd r 0%nat in
  (fst (fst (fst r)),                                  (* the results *)
   snd rf,                                              (* the log *)
   c_init c0, c_latest c0, c_latest_msg c0,             (* client 0 at the end *)
   cfg_msg k10_name (snd (fst r)),                      (* the stored head at the end *)
   w_interf (snd (fst r)),
   (* TreeHash(5) recomputed from the authenticated tiles of client 0's head *)
   fst (tree_hash_st node_hash_sha (c_latest c0) 5 (mkState (snd (fst r)) c0 []))).

Definition k10_nf := Eval vm_compute in k10_obs k10_rf.
Lemma k10_obs_eq : k10_obs k10_rf = k10_nf.
Proof. vm_cast_no_check (eq_refl k10_nf). Qed.

Definition k10_rs : list lres := Eval vm_compute in match k10_nf with (rs, _, _, _, _, _, _, _) => rs end.
Definition k10_log : list (lres * Z * Z) := Eval vm_compute in match k10_nf with (_, lg, _, _, _, _, _, _) => lg end.
Definition k10_A : tree := Eval vm_compute in match k10_nf with (_, _, _, a, _, _, _, _) => a end.
Definition k10_Amsg : str := Eval vm_compute in match k10_nf with (_, _, _, _, m, _, _, _) => m end.
Definition k10_Bmsg : str := Eval vm_compute in match k10_nf with (_, _, _, _, _, Some m, _, _) => m | _ => [] end.
Definition k10_h5 : hash := Eval vm_compute in match k10_nf with (_, _, _, _, _, _, _, TOk h) => h | _ => [] end.
Definition k10_B : tree :=
  Eval vm_compute in
    match Note.open str k10_V k10_Bmsg k10_vs with
    | Note.Ok n => match parse_tree (n_text n) with Index.Ok t => t | _ => Tree 0 [] end
    | Note.Err _ => Tree 0 []
    end.

Lemma k10_facts :
  fst (fst (fst (fst k10_rf))) = k10_rs /\ snd k10_rf = k10_log /\
  c_init (snd (fst k10_rf) 0%nat) = Some None /\
  c_latest (snd (fst k10_rf) 0%nat) = k10_A /\ c_latest_msg (snd (fst k10_rf) 0%nat) = k10_Amsg /\
  cfg_msg k10_name (snd (fst (fst k10_rf))) = Some k10_Bmsg /\
  w_interf (snd (fst (fst k10_rf))) = [] /\
  fst (tree_hash_st node_hash_sha (c_latest (snd (fst k10_rf) 0%nat)) 5
         (mkState (snd (fst (fst k10_rf))) (snd (fst k10_rf) 0%nat) [])) = TOk k10_h5.
Proof.
  pose proof k10_obs_eq as H. unfold k10_obs, k10_nf in H.
  pose proof (f_equal (fun t => match t with (a, _, _, _, _, _, _, _) => a end) H) as H1.
  pose proof (f_equal (fun t => match t with (_, a, _, _, _, _, _, _) => a end) H) as H2.
  pose proof (f_equal (fun t => match t with (_, _, a, _, _, _, _, _) => a end) H) as H3.
  pose proof (f_equal (fun t => match t with (_, _, _, a, _, _, _, _) => a end) H) as H4.
  pose proof (f_equal (fun t => match t with (_, _, _, _, a, _, _, _) => a end) H) as H5.
  pose proof (f_equal (fun t => match t with (_, _, _, _, _, a, _, _) => a end) H) as H6.
  pose proof (f_equal (fun t => match t with (_, _, _, _, _, _, a, _) => a end) H) as H7.
  pose proof (f_equal (fun t => match t with (_, _, _, _, _, _, _, a) => a end) H) as H8.
  clear H. lazy beta iota in H1, H2, H3, H4, H5, H6, H7, H8.
  split; [exact H1|]. split; [exact H2|]. split; [exact H3|]. split; [exact H4|]. split; [exact H5|].
  split; [exact H6|]. split; [exact H7 | exact H8].
Qed.

Lemma k10_A_signed : signed_tree k10_V k10_vs k10_Amsg k10_A.
Proof. unfold signed_tree. eexists. split; vm_compute; reflexivity. Qed.

Lemma k10_B_signed : signed_tree k10_V k10_vs k10_Bmsg k10_B.
Proof. unfold signed_tree. eexists. split; vm_compute; reflexivity. Qed.

Lemma k10_signed_small : forall msg t, signed_tree k10_V k10_vs msg t -> Codec.tN t < 2 ^ 62.
Proof. apply vtable_signed_small. vm_compute. reflexivity. Qed.

Lemma k10_key_ok : key_ok sha256 k10_vs k10_name k10_w.
Proof.
  unfold key_ok. intros k nm h key Hk Hp.
  vm_compute in Hk. injection Hk as <-. vm_compute in Hp. injection Hp as <- <- <-.
  split; vm_compute; reflexivity.
Qed.

Lemma k10_fresh : forall i, c_init (k10_cs i) = None.
Proof. reflexivity. Qed.

Lemma k10_client_inv : forall i, ClientInv record_hash k10_V (NodeAt node_hash_sha) k10_vs k10_name (k10_cs i).
Proof. intros i. unfold ClientInv, Fresh, k10_cs, new_client. cbn. repeat split; vm_compute; congruence. Qed.

(* ---- the refutation ---------------------------------------------------------------------------- *)

Notation k10_accepted :=
  (accepted sha256 record_hash node_hash_sha k10_V esc_path_i esc_vers_i (fun _ => false) k10_vs k10_name k10_steps k10_w k10_cs).
Notation k10_run_clean :=
  (run_clean sha256 record_hash node_hash_sha k10_V esc_path_i esc_vers_i (fun _ => false) k10_steps k10_w k10_cs).

Lemma k10_rf_fst : fst k10_rf = k10_run.
Proof. apply run_full_fst. Qed.

(* the third lookup fails with ErrSecurity and moves client 0's head from size 1 to size 6 *)
Lemma k10_not_clean : ~ k10_run_clean.
Proof.
  intros H. apply run_full_clean in H.
  destruct k10_facts as (_ & F2 & _). rewrite F2 in H. unfold k10_log in H.
  inversion H as [|x1 l1 _ H1]; subst. inversion H1 as [|x2 l2 _ H2]; subst.
  inversion H2 as [|x3 l3 H3 _]; subst. cbn in H3. destruct H3 as [H3|H3]; [|discriminate].
  eapply H3. reflexivity.
Qed.

Theorem k10_refutation :
  (forall msg t, signed_tree k10_V k10_vs msg t -> Codec.tN t < 2 ^ 62) /\
  (forall i, ClientInv record_hash k10_V (NodeAt node_hash_sha) k10_vs k10_name (k10_cs i)) /\
  (forall i, c_init (k10_cs i) = None) /\
  key_ok sha256 k10_vs k10_name k10_w /\ w_interf k10_w = [] /\
  AllBefore node_hash_sha k10_V k10_vs k10_name k10_w k10_cs /\
  fst (fst (fst k10_run)) = k10_rs /\
  k10_accepted k10_A /\ k10_accepted k10_B /\
  (Comparable node_hash_sha k10_A k10_B -> coll node_hash_sha) /\
  ~ k10_run_clean.
Proof.
  split; [exact k10_signed_small|]. split; [exact k10_client_inv|]. split; [exact k10_fresh|].
  split; [exact k10_key_ok|]. split; [reflexivity|].
  split; [apply fresh_all_before; exact k10_fresh|].
  destruct k10_facts as (F1 & _ & F3 & F4 & F5 & F6 & F7 & F8).
  rewrite k10_rf_fst in F1, F3, F4, F5, F6, F7, F8.
  destruct k10_run as [[[rs evs] w'] cs'] eqn:Er. cbn [fst snd] in *.
  split; [exact F1|].
  pose proof (run_states_last _ _ _ _ _ _ _ _ _ _ _ _ _ _ Er) as Hlast.
  assert (HA : k10_accepted k10_A).
  { exists (w', cs'). split; [exact Hlast|]. split; [vm_compute; reflexivity|].
    left. exists 0%nat. split; [exact F3 | exact F4]. }
  assert (HB : k10_accepted k10_B).
  { exists (w', cs'). split; [exact Hlast|]. split; [vm_compute; reflexivity|].
    right. exists k10_Bmsg. split; [exact F6 | exact k10_B_signed]. }
  split; [exact HA|]. split; [exact HB|]. split; [|exact k10_not_clean].
  (* comparable only through a collision *)
  intros [[E|[Hlt _]]|[E|[_ Hc]]].
  - apply (f_equal Codec.tN) in E. vm_compute in E. discriminate.
  - vm_compute in Hlt. discriminate.
  - apply (f_equal Codec.tN) in E. vm_compute in E. discriminate.
  - (* Consistent B A: but the authenticated tiles of A fold to another hash for size 5 *)
    destruct (run_safe_c10 sha256 record_hash node_hash_sha k10_V esc_path_i esc_vers_i (fun _ => false)
                k10_vs k10_name k10_signed_small _ _ _ _ _ _ _ k10_client_inv k10_key_ok Er) as (Hinv' & _ & _).
    assert (HI0 : CInv record_hash k10_V (NodeAt node_hash_sha) k10_vs k10_name (cs' 0%nat)).
    { specialize (Hinv' 0%nat). unfold ClientInv in Hinv'. rewrite F3 in Hinv'. exact Hinv'. }
    destruct (tree_hash_st node_hash_sha (c_latest (cs' 0%nat)) 5 (mkState w' (cs' 0%nat) [])) as [r s''] eqn:Et.
    cbn [fst] in F8. subst r.
    assert (Hpre : hash_of_prefix node_hash_sha (NodeAt node_hash_sha) k10_A 5 k10_h5).
    { rewrite F4 in Et.
      eapply (tree_hash_st_safe sha256 record_hash node_hash_sha k10_V esc_path_i esc_vers_i (fun _ => false)
                (NodeAt node_hash_sha) (tile_ok node_hash_sha) (c10_tiles_sound node_hash_sha)
                (c10_saved_authenticated node_hash_sha) k10_vs k10_name k10_A k10_Amsg 5 (mkState w' (cs' 0%nat) []) _ _ HI0) in Et.
      - destruct Et as (_ & _ & Hh). apply Hh. reflexivity.
      - vm_compute. split; discriminate.
      - vm_compute. reflexivity.
      - right. exact k10_A_signed. }
    unfold Consistent in Hc. replace (Codec.tN k10_B) with 5 in Hc by (vm_compute; reflexivity).
    destruct (prefix_hash_unique node_hash_sha k10_A 5 _ _ Hc Hpre ltac:(vm_compute; split; [reflexivity | discriminate])) as [E|C];
      [|exact C].
    exfalso. vm_compute in E. discriminate.
Qed.

(* the same, packaged: every hypothesis of installed_heads_totally_ordered except run_clean holds, two
   accepted heads are comparable only through a collision of SHA-256, and run_clean fails *)
Theorem installed_heads_totally_ordered_refuted :
  exists (V : str -> str -> str -> bool) vs name steps w cs rs evs w' cs' A B,
    (forall msg t, signed_tree V vs msg t -> Codec.tN t < 2 ^ 62) /\
    (forall i, ClientInv record_hash V (NodeAt node_hash_sha) vs name (cs i)) /\
    (forall i, c_init (cs i) = None) /\
    key_ok sha256 vs name w /\ w_interf w = [] /\
    AllBefore node_hash_sha V vs name w cs /\
    run sha256 record_hash node_hash_sha V esc_path_i esc_vers_i (fun _ => false) steps w cs = (rs, evs, w', cs') /\
    (exists l0 l1 l3, rs = [LOk l0; LOk l1; LErr ESecurity; LOk l3] /\ l3 <> []) /\
    accepted sha256 record_hash node_hash_sha V esc_path_i esc_vers_i (fun _ => false) vs name steps w cs A /\
    accepted sha256 record_hash node_hash_sha V esc_path_i esc_vers_i (fun _ => false) vs name steps w cs B /\
    (Comparable node_hash_sha A B -> coll node_hash_sha) /\
    ~ run_clean sha256 record_hash node_hash_sha V esc_path_i esc_vers_i (fun _ => false) steps w cs.
Proof.
  destruct k10_refutation as (H1 & H2 & H3 & H4 & H5 & H6 & H7 & H8 & H9 & H10 & H11).
  destruct k10_run as [[[rs evs] w'] cs'] eqn:Er. cbn [fst] in H7.
  exists k10_V, k10_vs, k10_name, k10_steps, k10_w, k10_cs, rs, evs, w', cs', k10_A, k10_B.
  repeat (split; [assumption|]).
  split; [|auto].
  rewrite H7. unfold k10_rs. do 3 eexists. split; [reflexivity | discriminate].
Qed.
