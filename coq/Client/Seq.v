(* Client/Seq.v — SEQUENTIAL executable model of sumdb.Client (/repo/sumdb/client.go, cache.go)
   as a step machine over an adversarial world (properties C01 and C13; the interleaving
   model for C14 is Client/Conc.v).  MODEL FILE: no proofs here (see Client/SeqProofs*.v).

   External functions are Section variables (never axioms):
     sha       : str -> str                       SHA-256 (only for the key hash of note.NewVerifier)
     leaf_hash : str -> hash                      tlog.RecordHash
     node_hash : hash -> hash -> hash             tlog.NodeHash
     V         : str -> str -> str -> bool        V key text sig = Verifier.Verify of the verifier that
                                                  note.NewVerifier builds from the decoded key bytes
     esc_path, esc_vers : str -> option str       module.EscapePath / module.EscapeVersion (None = error)
     skip      : str -> bool                      c.skip(path) = module.MatchPrefixPatterns(c.nosumdb, path)

   EXPORTED NAMES AND TYPES
     event  := EvReadRemote p | EvReadCache f | EvWriteCache f d | EvReadConfig f
             | EvWriteConfig f old new ok | EvSecurity msg             one ClientOps call
     world  := { w_remote : nat -> str -> option str    answer to the k-th ReadRemote of a path (None = error)
                 w_reads  : list str                    remote paths read so far (k = occurrences so far)
                 w_cache  : list (str * str)            the cache directory (first match wins)
                 w_config : list (str * str)            the configuration files
                 w_interf : list (option str) }         what "another process" writes into <name>/latest just
                                                        before each following WriteConfig call (None = nothing)
     cerr   := ESecurity | EInitKeyRead | EInitKey | EConfigRead | ENote | ETree | ETiles | ERemote
             | EBadRecord | ERecordRange | ERecordAuth | EEscape | EFuelC | EPanicC
               (projected error classes: ESecurity = ErrSecurity; EFuelC/EPanicC never happen, see
                SeqProofs; all others are "plain errors")
     client := { c_init : option (option cerr)          initOnce/initErr: None = not run yet
                 c_name : str; c_verifiers : verifiers str
                 c_latest : tree; c_latest_msg : str     latest, latestMsg
                 c_records : list (str * rres)           parCache record: file -> memoised result
                 c_tiles : list (tile * option str)      parCache tileCache: tile -> memoised data / error
                 c_tile_saved : list tile                tileSaved
                 c_height : Z }
     new_client : Z -> client                            NewClient + SetTileHeight(h)
     lres   := LOk lines | LErr e | LSkip                result of Lookup (LSkip = ErrGONOSUMDB)
     state  := { s_w : world; s_c : client; s_tr : list event }   (trace in execution order)
     M A    := state -> A * state
     read_remote, read_cache, write_cache, read_config, write_config   the ClientOps calls
     read_tile, read_tiles, save_tiles                   tileReader.readTile / ReadTiles / SaveTiles
     tile_read_hashes_st                                 TileHashReader(tree, &c.tileReader).ReadHashes
     tree_hash_st, prove_tree_st                         tlog.TreeHash / tlog.ProveTree over that reader
     security_msg, check_trees, merge_latest_mem, merge_latest, check_record, init_work, client_init
     lookup_m : str -> str -> M lres                     Client.Lookup
     lookup : world -> client -> str -> str -> lres * list event * world * client

   Modelling decisions
   * Sequential: one Lookup runs to completion.  parCache.Do is memoisation (c_records, c_tiles);
     the retry loop of mergeLatestMem never retries (c.latest cannot change underfoot) and is
     modelled by its first iteration; the compare-and-swap loop of mergeLatest can retry only when
     another process rewrote the configuration (w_interf); its fuel is the number of pending
     interferences + 1 and cannot run out (EFuelC).
   * ReadTiles starts one goroutine per tile; the model reads the tiles in list order (all of
     them, even after a failure — every goroutine runs) and returns the first error in list order
     exactly as the Go loop over errs does.  The order of the read events inside one batch is
     therefore not an observable (the harness sorts them).
   * strings.TrimSpace of the key file is modelled for ASCII white space only.
   * GONOSUMDB: [skip] is a parameter (the dispatcher instance is the empty list: never skip).
   * WriteConfig errors other than ErrWriteConflict and failing WriteCache are not modelled. *)
From Verif.Base Require Import Bytes.
From Verif.Tlog Require Import Index Tree Codec Tile TileReader.
From Verif.Note Require Import Note.

Inductive event :=
| EvReadRemote (p : str)
| EvReadCache (f : str)
| EvWriteCache (f d : str)
| EvReadConfig (f : str)
| EvWriteConfig (f old new : str) (ok : bool)
| EvSecurity (msg : str).

Record world := mkWorld {
  w_remote : nat -> str -> option str;
  w_reads : list str;
  w_cache : list (str * str);
  w_config : list (str * str);
  w_interf : list (option str)
}.

Inductive cerr :=
| ESecurity
| EInitKeyRead | EInitKey | EConfigRead | ENote | ETree | ETiles | ERemote
| EBadRecord | ERecordRange | ERecordAuth | EEscape
| EFuelC | EPanicC.

Inductive rres := ROk (data : str) | RErr (e : cerr).

Record client := mkClient {
  c_init : option (option cerr);
  c_name : str;
  c_verifiers : verifiers str;
  c_latest : tree;
  c_latest_msg : str;
  c_records : list (str * rres);
  c_tiles : list (tile * option str);
  c_tile_saved : list tile;
  c_height : Z
}.

(* &Client{ops: ops} then SetTileHeight(h): latest is the zero Tree (N = 0, 32 zero bytes) *)
Definition new_client (h : Z) : client :=
  mkClient None [] [] (Tree 0 (repeat 0 32)) [] [] [] [] h.

Inductive lres := LOk (lines : list str) | LErr (e : cerr) | LSkip.

Record state := mkState { s_w : world; s_c : client; s_tr : list event }.

Definition M (A : Type) := state -> A * state.
Definition ret {A} (a : A) : M A := fun s => (a, s).
Definition bindM {A B} (m : M A) (k : A -> M B) : M B :=
  fun s => let (a, s') := m s in k a s'.

Declare Scope m_scope.
Delimit Scope m_scope with m.
Notation "x <- m ;; k" := (bindM m (fun x => k))
  (at level 61, m at next level, right associativity) : m_scope.
Notation "m ;;; k" := (bindM m (fun _ => k))
  (at level 61, right associativity) : m_scope.
Open Scope m_scope.

(* ---- association lists ------------------------------------------------------------------ *)

Fixpoint assoc (k : str) (l : list (str * str)) : option str :=
  match l with
  | [] => None
  | (k', v) :: r => if str_eqb k k' then Some v else assoc k r
  end.

Fixpoint assoc_set (k v : str) (l : list (str * str)) : list (str * str) :=
  match l with
  | [] => [(k, v)]
  | (k', v') :: r => if str_eqb k k' then (k, v) :: r else (k', v') :: assoc_set k v r
  end.

Fixpoint count_str (p : str) (l : list str) : nat :=
  match l with
  | [] => O
  | q :: r => if str_eqb p q then S (count_str p r) else count_str p r
  end.

Fixpoint rec_find (k : str) (l : list (str * rres)) : option rres :=
  match l with
  | [] => None
  | (k', v) :: r => if str_eqb k k' then Some v else rec_find k r
  end.

Fixpoint tile_find (t : tile) (l : list (tile * option str)) : option (option str) :=
  match l with
  | [] => None
  | (t', v) :: r => if tile_eqb t t' then Some v else tile_find t r
  end.

Definition tile_mem (t : tile) (l : list tile) : bool := existsb (tile_eqb t) l.

(* ---- the ClientOps calls ---------------------------------------------------------------- *)

Definition emit (e : event) : M unit :=
  fun s => (tt, mkState (s_w s) (s_c s) (s_tr s ++ [e])).

Definition get_client : M client := fun s => (s_c s, s).
Definition set_client (c : client) : M unit := fun s => (tt, mkState (s_w s) c (s_tr s)).
Definition get_world : M world := fun s => (s_w s, s).
Definition set_world (w : world) : M unit := fun s => (tt, mkState w (s_c s) (s_tr s)).

(* ops.ReadRemote(path) *)
Definition read_remote (p : str) : M (option str) :=
  w <- get_world ;;
  let k := count_str p (w_reads w) in
  set_world (mkWorld (w_remote w) (w_reads w ++ [p]) (w_cache w) (w_config w) (w_interf w)) ;;;
  emit (EvReadRemote p) ;;;
  ret (w_remote w k p).

(* ops.ReadCache(file) *)
Definition read_cache (f : str) : M (option str) :=
  w <- get_world ;;
  emit (EvReadCache f) ;;;
  ret (assoc f (w_cache w)).

(* ops.WriteCache(file, data) *)
Definition write_cache (f d : str) : M unit :=
  w <- get_world ;;
  set_world (mkWorld (w_remote w) (w_reads w) (assoc_set f d (w_cache w)) (w_config w) (w_interf w)) ;;;
  emit (EvWriteCache f d).

(* ops.ReadConfig(file) *)
Definition read_config (f : str) : M (option str) :=
  w <- get_world ;;
  emit (EvReadConfig f) ;;;
  ret (assoc f (w_config w)).

(* ops.WriteConfig(file, old, new): compare-and-swap; true = nil, false = ErrWriteConflict.
   Before the comparison another process may have replaced the file (w_interf). *)
Definition write_config (f old new : str) : M bool :=
  w <- get_world ;;
  let cfg1 := match w_interf w with
              | Some x :: _ => assoc_set f x (w_config w)
              | _ => w_config w
              end in
  let cur := match assoc f cfg1 with Some d => d | None => [] end in
  let ok := str_eqb old cur in
  let cfg2 := if ok then assoc_set f new cfg1 else cfg1 in
  set_world (mkWorld (w_remote w) (w_reads w) (w_cache w) cfg2 (tl (w_interf w))) ;;;
  emit (EvWriteConfig f old new ok) ;;;
  ret ok.

(* ---- small string helpers --------------------------------------------------------------- *)

Definition is_ascii_space (c : Z) : bool :=
  (c =? 32) || ((9 <=? c) && (c <=? 13)).

Fixpoint drop_space (s : str) : str :=
  match s with
  | c :: r => if is_ascii_space c then drop_space r else s
  | [] => []
  end.

(* strings.TrimSpace (ASCII white space) *)
Definition trim_space (s : str) : str := rev (drop_space (rev (drop_space s))).

(* strings.TrimSuffix *)
Definition trim_suffix (s suf : str) : str :=
  if has_suffix s suf then firstn (length s - length suf) s else s.

(* bytes.Replace(b, "\n", "\n\t", -1) *)
Definition indent (b : str) : str := flat_map (fun c => if c =? 10 then [10; 9] else [c]) b.

Section Client.
Variable sha : str -> str.
Variable leaf_hash : str -> hash.
Variable node_hash : hash -> hash -> hash.
Variable V : str -> str -> str -> bool.
Variable esc_path : str -> option str.
Variable esc_vers : str -> option str.
Variable skip : str -> bool.

(* ---- tileReader ---------------------------------------------------------------------------- *)

(* c.tileCacheKey(tile) / c.tileRemotePath(tile) *)
Definition tile_cache_key (name : str) (t : tile) : str := name ++ 47 :: tile_path t.
Definition tile_remote_path (t : tile) : str := 47 :: tile_path t.

(* data[:len(data)/full.W*tile.W] *)
Definition tile_prefix (data : str) (fullw w : Z) : str :=
  firstn (Z.to_nat (len data / fullw * w)) data.

(* c.markTileSaved(tile) *)
Definition mark_tile_saved (t : tile) : M unit :=
  c <- get_client ;;
  set_client (mkClient (c_init c) (c_name c) (c_verifiers c) (c_latest c) (c_latest_msg c)
                       (c_records c) (c_tiles c) (t :: c_tile_saved c) (c_height c)).

(* the function run once per tile by c.tileCache.Do *)
Definition read_tile_work (t : tile) : M (option str) :=
  c <- get_client ;;
  let name := c_name c in
  let full := mkTile (tH t) (tL t) (tN t) (pow2sh (tH t)) in
  let is_full := tile_eqb t full in
  let from_remote : M (option str) :=
    d <- read_remote (tile_remote_path t) ;;
    match d with
    | Some data => ret (Some data)
    | None =>
        if is_full then ret None
        else
          d2 <- read_remote (tile_remote_path full) ;;
          match d2 with
          | Some data => ret (Some (tile_prefix data (tW full) (tW t)))
          | None => ret None
          end
    end in
  d <- read_cache (tile_cache_key name t) ;;
  match d with
  | Some data => mark_tile_saved t ;;; ret (Some data)
  | None =>
      if is_full then from_remote
      else
        d2 <- read_cache (tile_cache_key name full) ;;
        match d2 with
        | Some data => mark_tile_saved t ;;; ret (Some (tile_prefix data (tW full) (tW t)))
        | None => from_remote
        end
  end.

(* c.readTile(tile): memoised by tileCache *)
Definition read_tile (t : tile) : M (option str) :=
  c <- get_client ;;
  match tile_find t (c_tiles c) with
  | Some r => ret r
  | None =>
      r <- read_tile_work t ;;
      c' <- get_client ;;
      set_client (mkClient (c_init c') (c_name c') (c_verifiers c') (c_latest c') (c_latest_msg c')
                           (c_records c') ((t, r) :: c_tiles c') (c_tile_saved c') (c_height c')) ;;;
      ret r
  end.

(* all tiles are read; the results in order *)
Fixpoint read_tiles_all (ts : list tile) : M (list (option str)) :=
  match ts with
  | [] => ret []
  | t :: r =>
      d <- read_tile t ;;
      ds <- read_tiles_all r ;;
      ret (d :: ds)
  end.

Fixpoint all_some (l : list (option str)) : option (list str) :=
  match l with
  | [] => Some []
  | Some d :: r => option_map (cons d) (all_some r)
  | None :: _ => None
  end.

(* tileReader.ReadTiles *)
Definition read_tiles (ts : list tile) : M (option (list str)) :=
  ds <- read_tiles_all ts ;;
  ret (all_some ds).

(* tileReader.SaveTiles *)
Fixpoint save_tiles (ts : list tile) (ds : list str) : M unit :=
  match ts, ds with
  | t :: tr, d :: dr =>
      c <- get_client ;;
      (if tile_mem t (c_tile_saved c) then ret tt
       else mark_tile_saved t ;;; write_cache (tile_cache_key (c_name c) t) d) ;;;
      save_tiles tr dr
  | _, _ => ret tt
  end.

(* tlog.TileHashReader(tree, &c.tileReader).ReadHashes(indexes) *)
Definition tile_read_hashes_st (tr : tree) (indexes : list Z) : M (tres (list hash)) :=
  c <- get_client ;;
  let h := c_height c in
  if (h <? 1) || (62 <? h) then ret (TErr TEDomain)
  else
    match make_plan (Codec.tN tr) h indexes with
    | TPanic => ret TPanic
    | TErr e => ret (TErr e)
    | TOk p =>
        d <- read_tiles (p_tiles p) ;;
        match d with
        | None => ret (TErr TEReader)
        | Some data =>
            let rs := check_and_extract node_hash (Codec.tN tr, Codec.tH tr) p indexes data in
            match snd rs with
            | Some (ts, ds) => save_tiles ts ds ;;; ret (fst rs)
            | None => ret (fst rs)
            end
        end
    end.

(* tlog.TreeHash(n, thr) with thr the tile hash reader of [newer] *)
Definition tree_hash_st (newer : tree) (n : Z) : M (tres hash) :=
  if n =? 0 then ret (TOk empty_hash)
  else
    match sub_tree_index 0 n [] with
    | Index.Ok indexes =>
        r <- tile_read_hashes_st newer indexes ;;
        match r with
        | TOk hs => ret (lift_res (tree_hash node_hash n (fun _ => Some hs)))
        | TErr e => ret (TErr e)
        | TPanic => ret TPanic
        end
    | Index.Err k => ret (TErr (TEIndex k))
    | Index.Panic => ret TPanic
    end.

(* tlog.ProveTree(t, n, thr) *)
Definition prove_tree_st (newer : tree) (t n : Z) : M (tres (list hash)) :=
  if (t <? 1) || (n <? 1) || (t <? n) then ret (TErr (TEIndex EInvalidInputs))
  else
    match tree_proof_index (range_fuel t) 0 t n [] with
    | Index.Ok [] => ret (TOk [])
    | Index.Ok indexes =>
        r <- tile_read_hashes_st newer indexes ;;
        match r with
        | TOk hs => ret (lift_res (prove_tree node_hash t n (fun _ => Some hs)))
        | TErr e => ret (TErr e)
        | TPanic => ret TPanic
        end
    | Index.Err k => ret (TErr (TEIndex k))
    | Index.Panic => ret TPanic
    end.

(* ---- checkTrees -------------------------------------------------------------------------- *)

Definition security_msg (older_note newer_note : str) (h : hash) (proof : option (list hash)) : str :=
  B "SECURITY ERROR" ++ [10] ++ B "go.sum database server misbehavior detected!" ++ [10; 10]
  ++ B "old database:" ++ [10; 9] ++ indent older_note ++ [10]
  ++ B "new database:" ++ [10; 9] ++ indent newer_note ++ [10]
  ++ B "proof of misbehavior:" ++ [10; 9] ++ hash_string h
  ++ match proof with
     | Some p => flat_map (fun x => [10; 9] ++ hash_string x) p
     | None => 9 :: B "internal error" ++ [10]
     end.

(* c.checkTrees(older, olderNote, newer, newerNote): None = nil *)
Definition check_trees (older : tree) (older_note : str) (newer : tree) (newer_note : str)
  : M (option cerr) :=
  r <- tree_hash_st newer (Codec.tN older) ;;
  match r with
  | TPanic => ret (Some EPanicC)
  | TErr _ => ret (Some ETiles)
  | TOk h =>
      if str_eqb h (Codec.tH older) then ret None
      else
        pr <- prove_tree_st newer (Codec.tN newer) (Codec.tN older) ;;
        let proof :=
          match pr with
          | TOk p =>
              match check_tree node_hash p (Codec.tN newer) (Codec.tH newer) (Codec.tN older) h with
              | Index.Ok _ => Some p
              | _ => None
              end
          | _ => None
          end in
        emit (EvSecurity (security_msg older_note newer_note h proof)) ;;;
        ret (Some ESecurity)
  end.

(* ---- mergeLatestMem / mergeLatest ---------------------------------------------------------- *)

Inductive when := MsgPast | MsgNow | MsgFuture.

Definition install (tr : tree) (msg : str) : M unit :=
  c <- get_client ;;
  set_client (mkClient (c_init c) (c_name c) (c_verifiers c) tr msg
                       (c_records c) (c_tiles c) (c_tile_saved c) (c_height c)).

(* c.mergeLatestMem(msg): inl when | inr error *)
Definition merge_latest_mem (msg : str) : M (when + cerr) :=
  c <- get_client ;;
  let latest := c_latest c in
  let latest_msg := c_latest_msg c in
  match msg with
  | [] => ret (inl (if Codec.tN latest =? 0 then MsgNow else MsgPast))
  | _ =>
      match Note.open str V msg (c_verifiers c) with
      | Note.Err _ => ret (inr ENote)
      | Note.Ok n =>
          match parse_tree (n_text n) with
          | Index.Err _ => ret (inr ETree)
          | Index.Panic => ret (inr EPanicC)
          | Index.Ok tr =>
              if Codec.tN tr <=? Codec.tN latest then
                e <- check_trees tr msg latest latest_msg ;;
                match e with
                | Some err => ret (inr err)
                | None => ret (inl (if Codec.tN tr <? Codec.tN latest then MsgPast else MsgNow))
                end
              else
                e <- check_trees latest latest_msg tr msg ;;
                match e with
                | Some err => ret (inr err)
                | None => install tr msg ;;; ret (inl MsgFuture)
                end
          end
      end
  end.

Definition latest_file (name : str) : str := name ++ B "/latest".

(* the for loop of mergeLatest *)
Fixpoint merge_loop (fuel : nat) : M (option cerr) :=
  match fuel with
  | O => ret (Some EFuelC)
  | S f =>
      c <- get_client ;;
      d <- read_config (latest_file (c_name c)) ;;
      match d with
      | None => ret (Some EConfigRead)
      | Some msg =>
          r <- merge_latest_mem msg ;;
          match r with
          | inr e => ret (Some e)
          | inl MsgPast =>
              c' <- get_client ;;
              ok <- write_config (latest_file (c_name c')) msg (c_latest_msg c') ;;
              if ok then ret None else merge_loop f
          | inl _ => ret None
          end
      end
  end.

(* c.mergeLatest(msg): None = nil *)
Definition merge_latest (msg : str) : M (option cerr) :=
  r <- merge_latest_mem msg ;;
  match r with
  | inr e => ret (Some e)
  | inl MsgFuture =>
      w <- get_world ;;
      merge_loop (S (length (w_interf w)))
  | inl _ => ret None
  end.

(* ---- checkRecord --------------------------------------------------------------------------- *)

Definition check_record_st (id : Z) (data : str) : M (option cerr) :=
  c <- get_client ;;
  let latest := c_latest c in
  if (id <? 0) || (Codec.tN latest <=? id) then ret (Some ERecordRange)
  else
    r <- tile_read_hashes_st latest [stored_hash_index 0 id] ;;
    match r with
    | TPanic => ret (Some EPanicC)
    | TErr _ => ret (Some ETiles)
    | TOk [] => ret (Some EPanicC)                         (* hashes[0] *)
    | TOk (h :: _) =>
        if str_eqb h (leaf_hash data) then ret None else ret (Some ERecordAuth)
    end.

(* ---- init ---------------------------------------------------------------------------------- *)

Definition init_work : M (option cerr) :=
  k <- read_config (B "key") ;;
  match k with
  | None => ret (Some EInitKeyRead)
  | Some vkey =>
      match parse_verifier_key sha (trim_space vkey) with
      | KErr _ => ret (Some EInitKey)
      | KOk (name, hash, key) =>
          c <- get_client ;;
          let vs := verifier_list str [ {| v_name := name; v_hash := hash; v_id := key |} ] in
          let latest := if Codec.tN (c_latest c) =? 0 then Tree (Codec.tN (c_latest c)) empty_hash else c_latest c in
          set_client (mkClient (c_init c) name vs latest (c_latest_msg c)
                               (c_records c) (c_tiles c) (c_tile_saved c) (c_height c)) ;;;
          d <- read_config (latest_file name) ;;
          match d with
          | None => ret (Some EConfigRead)
          | Some data => merge_latest data
          end
      end
  end.

(* c.init(): initOnce.Do(c.initWork); return c.initErr *)
Definition client_init : M (option cerr) :=
  c <- get_client ;;
  match c_init c with
  | Some r => ret r
  | None =>
      r <- init_work ;;
      c' <- get_client ;;
      set_client (mkClient (Some r) (c_name c') (c_verifiers c') (c_latest c') (c_latest_msg c')
                           (c_records c') (c_tiles c') (c_tile_saved c') (c_height c')) ;;;
      ret r
  end.

(* ---- Lookup -------------------------------------------------------------------------------- *)

(* the function run once per file by c.record.Do *)
Definition record_work (file remote_path : str) : M rres :=
  d <- read_cache file ;;
  dw <- match d with
        | Some data => ret (Some (data, false))
        | None =>
            r <- read_remote remote_path ;;
            match r with
            | Some data => ret (Some (data, true))
            | None => ret None
            end
        end ;;
  match dw with
  | None => ret (RErr ERemote)
  | Some (data, write) =>
      match parse_record data with
      | Index.Err _ => ret (RErr EBadRecord)
      | Index.Panic => ret (RErr EPanicC)
      | Index.Ok (id, text, tree_msg) =>
          e <- merge_latest tree_msg ;;
          match e with
          | Some err => ret (RErr err)
          | None =>
              e2 <- check_record_st id text ;;
              match e2 with
              | Some err => ret (RErr err)
              | None =>
                  (if write then write_cache file data else ret tt) ;;;
                  ret (ROk data)
              end
          end
      end
  end.

Definition record_do (file remote_path : str) : M rres :=
  c <- get_client ;;
  match rec_find file (c_records c) with
  | Some r => ret r
  | None =>
      r <- record_work file remote_path ;;
      c' <- get_client ;;
      set_client (mkClient (c_init c') (c_name c') (c_verifiers c') (c_latest c') (c_latest_msg c')
                           ((file, r) :: c_records c') (c_tiles c') (c_tile_saved c') (c_height c')) ;;;
      ret r
  end.

Definition go_mod_suffix : str := B "/go.mod".

(* the go.sum lines of a response for (path, vers) *)
Definition result_lines (path vers data : str) : list str :=
  let prefix := path ++ [32] ++ vers ++ [32] in
  filter (fun line => has_prefix line prefix) (split_on 10 data).

(* func (c *Client) Lookup(path, vers string) (lines []string, err error) *)
Definition lookup_m (path vers : str) : M lres :=
  if skip path then ret LSkip
  else
    e <- client_init ;;
    match e with
    | Some err => ret (LErr err)
    | None =>
        match esc_path path with
        | None => ret (LErr EEscape)
        | Some epath =>
            match esc_vers (trim_suffix vers go_mod_suffix) with
            | None => ret (LErr EEscape)
            | Some evers =>
                c <- get_client ;;
                let remote_path := B "/lookup/" ++ epath ++ [64] ++ evers in
                let file := c_name c ++ remote_path in
                r <- record_do file remote_path ;;
                match r with
                | RErr err => ret (LErr err)
                | ROk data => ret (LOk (result_lines path vers data))
                end
            end
        end
    end.

Definition lookup (w : world) (c : client) (path vers : str)
  : lres * list event * world * client :=
  let (r, s) := lookup_m path vers (mkState w c []) in
  (r, s_tr s, s_w s, s_c s).

End Client.
