(* C14 — proofs about the interleaving LTS of Client/Conc.v, part 1: the safety invariant
   over all schedules (by induction over the schedule), latest_never_regresses,
   results_sequential, gonosumdb_no_ops. *)
From Verif.Base Require Import Bytes.
From Verif.Module Require Import Match.
From Verif.Client Require Import Conc.

(* ---- lists ------------------------------------------------------------------------------ *)
Lemma nth_upd_eq {A} n (x : A) l : (n < length l)%nat -> nth_error (upd_nth n x l) n = Some x.
Proof.
  revert n; induction l as [|y l IH]; intros [|n] H; simpl in *; try lia; auto.
  apply IH; lia.
Qed.

Lemma nth_upd_ne {A} n m (x : A) l : n <> m -> nth_error (upd_nth n x l) m = nth_error l m.
Proof.
  revert n m; induction l as [|y l IH]; intros [|n] [|m] H; simpl; auto; try congruence.
Qed.

Lemma length_upd {A} n (x : A) l : length (upd_nth n x l) = length l.
Proof. revert n; induction l as [|y l IH]; intros [|n]; simpl; auto. Qed.

Lemma upd_same {A} n (x : A) l : nth_error l n = Some x -> upd_nth n x l = l.
Proof.
  revert n; induction l as [|y l IH]; intros [|n] H; simpl in *; try discriminate; auto.
  - congruence.
  - f_equal; auto.
Qed.

Lemma nth_some_lt {A} n (x : A) l : nth_error l n = Some x -> (n < length l)%nat.
Proof. intros H; apply nth_error_Some; congruence. Qed.

Lemma nth_upd {A} n m (x y : A) l :
  nth_error (upd_nth n x l) m = Some y ->
  (m = n /\ y = x /\ (n < length l)%nat) \/ (m <> n /\ nth_error l m = Some y).
Proof.
  intros H. destruct (Nat.eq_dec n m) as [->|Hne].
  - left. assert (Hl : (m < length l)%nat).
    { apply nth_some_lt in H. now rewrite length_upd in H. }
    rewrite nth_upd_eq in H by auto. intuition congruence.
  - right. rewrite nth_upd_ne in H by auto. auto.
Qed.

(* ---- heads ------------------------------------------------------------------------------- *)
Lemma head_eqb_eq a b : head_eqb a b = true -> a = b.
Proof.
  destruct a as [n h], b as [m g]; unfold head_eqb; simpl.
  intros H; apply andb_true_iff in H as [H1 H2].
  apply Z.eqb_eq in H1. apply str_eqb_eq in H2. congruence.
Qed.

Lemma head_eqb_refl a : head_eqb a a = true.
Proof. destruct a; unfold head_eqb; simpl. now rewrite Z.eqb_refl, str_eqb_refl. Qed.

Lemma ohead_eqb_eq a b : ohead_eqb a b = true -> a = b.
Proof.
  destruct a, b; simpl; try discriminate; auto. intros H; f_equal; now apply head_eqb_eq.
Qed.

Lemma ohead_eqb_refl a : ohead_eqb a a = true.
Proof. destruct a; simpl; auto using head_eqb_refl. Qed.

Definition hin (ch : list head) (h : option head) : Prop :=
  match h with None => True | Some x => In x ch end.

(* ---- sections of a lookup ------------------------------------------------------------------ *)
Inductive sect := SPre | SInit | SMid | SRec | SEnd.

Definition sect_of (th : thread) : sect :=
  match t_pc th with
  | PStart | PInitGate => SPre
  | PInitKey | PInitLatest | PInitEnd => SInit
  | PMemRead | PCheckOld | PInstall | PReadConfig | PReadMsg | PWriteConfig =>
      if t_init th then SInit else SRec
  | PCellGate => SMid
  | PReadCache | PReadRemote | PCheckRecord | PRecHashes | PWriteCache | PCellEnd => SRec
  | PDone => SEnd
  end.

(* inside mergeLatestMem / in the configuration loop of mergeLatest *)
Definition mm_pc (p : pc) : bool :=
  match p with PMemRead | PCheckOld | PInstall => true | _ => false end.
Definition lp_pc (p : pc) : bool :=
  match p with PReadConfig | PReadMsg | PWriteConfig => true | _ => false end.
(* the record has been fetched *)
Definition fetched_pc (p : pc) : bool :=
  match p with
  | PMemRead | PCheckOld | PInstall | PReadConfig | PReadMsg | PWriteConfig
  | PCheckRecord | PRecHashes | PWriteCache => true
  | _ => false
  end.

(* ---- the invariant ---------------------------------------------------------------------------- *)
Record tinv (ch : list head) (cfg : option head) (c : client) (t : nat) (th : thread) : Prop := {
  ti_msg : hin ch (t_msg th);
  ti_lat : hin ch (t_lat th);
  ti_data : hin ch (t_data th);
  ti_new : hin ch (t_new th);
  ti_lat_le : size (t_lat th) <= size (c_mem c);
  ti_install : t_pc th = PInstall -> size (t_lat th) < size (t_msg th) /\ t_msg th <> None;
  ti_old : t_pc th = PCheckOld -> size (t_msg th) <= size (t_lat th);
  ti_readmsg : t_pc th = PReadMsg -> size (t_msg th) < size (c_mem c);
  ti_write : t_pc th = PWriteConfig ->
             size (t_msg th) < size (t_new th) /\ size (t_new th) <= size (c_mem c);
  ti_init : sect_of th = SInit -> c_init c = IRunning t;
  ti_rec : sect_of th = SRec -> lookup (t_key th) (c_cells c) = Some (CRunning t);
  ti_skip : skips c th = true -> t_pc th = PStart \/ t_pc th = PDone;
  ti_done : t_pc th = PDone -> t_res th = if skips c th then RSkip else ROk (t_key th);
  ti_first : t_init th = false -> t_first th = true -> mm_pc (t_pc th) = true ->
             t_msg th = t_data th;
  ti_loop : t_init th = false ->
            (lp_pc (t_pc th) = true \/ (t_first th = false /\ mm_pc (t_pc th) = true)) ->
            size (t_data th) <= size (c_mem c);
  ti_check : t_pc th = PCheckRecord -> size (t_data th) <= size (c_mem c);
  ti_fetched : sect_of th = SRec -> fetched_pc (t_pc th) = true -> t_data th <> None;
  ti_res : t_pc th = PWriteCache \/ t_pc th = PCellEnd -> t_res th = ROk (t_key th);
  ti_cfg : t_first th = false -> mm_pc (t_pc th) = true -> size (t_msg th) <= size cfg
}.

Record cinv (ch : list head) (ths : list thread) (ci : nat) (c : client) : Prop := {
  ci_mem : hin ch (c_mem c);
  ci_nonneg : 0 <= size (c_mem c);
  ci_init : forall t0, c_init c = IRunning t0 ->
            exists th0, nth_error ths t0 = Some th0 /\ t_cl th0 = ci /\ sect_of th0 = SInit;
  ci_run : forall k t0, lookup k (c_cells c) = Some (CRunning t0) ->
           exists th0, nth_error ths t0 = Some th0 /\ t_cl th0 = ci /\ t_key th0 = k /\
                       sect_of th0 = SRec;
  ci_done : forall k r, lookup k (c_cells c) = Some (CDone r) -> r = ROk k
}.

Record Inv (s : state) : Prop := {
  inv_threads : forall t th, nth_error (s_threads s) t = Some th ->
                exists c, nth_error (s_clients s) (t_cl th) = Some c /\
                          tinv (s_chain s) (s_cfg s) c t th;
  inv_clients : forall ci c, nth_error (s_clients s) ci = Some c ->
                cinv (s_chain s) (s_threads s) ci c;
  inv_cfg : hin (s_chain s) (s_cfg s);
  inv_cache : forall k h, lookup k (s_cache s) = Some h -> In h (s_chain s);
  inv_cur : (s_cur s < length (s_chain s))%nat;
  inv_nonneg : forall h, In h (s_chain s) -> 0 <= fst h
}.

Lemma hin_nonneg ch h : (forall x, In x ch -> 0 <= fst x) -> hin ch h -> 0 <= size h.
Proof. destruct h; cbn; auto. lia. Qed.

(* what another thread's step may do to the client of thread t *)
Record cext (t : nat) (c c' : client) : Prop := {
  ce_mem : size (c_mem c) <= size (c_mem c');
  ce_nosumdb : c_nosumdb c' = c_nosumdb c;
  ce_init : c_init c = IRunning t -> c_init c' = IRunning t;
  ce_cell : forall k, lookup k (c_cells c) = Some (CRunning t) ->
            lookup k (c_cells c') = Some (CRunning t)
}.

Lemma cext_refl t c : cext t c c.
Proof. constructor; auto; lia. Qed.

Lemma tinv_frame ch cfg cfg' c c' t th :
  tinv ch cfg c t th -> cext t c c' -> size cfg <= size cfg' -> tinv ch cfg' c' t th.
Proof.
  intros [] [] Hcfg.
  assert (Hsk : skips c' th = skips c th) by (unfold skips; now rewrite ce_nosumdb0).
  constructor; auto; try rewrite Hsk; auto; try lia.
  - intros H; specialize (ti_readmsg0 H); lia.
  - intros H; specialize (ti_write0 H); lia.
  - intros H1 H2; specialize (ti_loop0 H1 H2); lia.
  - intros H; specialize (ti_check0 H); lia.
  - intros H1 H2; specialize (ti_cfg0 H1 H2); lia.
Qed.

(* ---- one step of a thread ------------------------------------------------------------------- *)
Opaque match_prefix_patterns.
Ltac crack H :=
  unfold step_at in H;
  repeat match type of H with
  | context [match ?x with _ => _ end] => destruct x eqn:?
  end; try discriminate H; inversion H; subst; clear H.

Ltac zb := repeat match goal with
  | H : (_ <=? _) = true |- _ => apply Z.leb_le in H
  | H : (_ <=? _) = false |- _ => apply Z.leb_gt in H
  | H : (_ <? _) = true |- _ => apply Z.ltb_lt in H
  | H : (_ <? _) = false |- _ => apply Z.ltb_ge in H
  | H : (_ =? _) = true |- _ => apply Z.eqb_eq in H
  | H : (_ =? _) = false |- _ => apply Z.eqb_neq in H
  | H : ohead_eqb _ _ = true |- _ => apply ohead_eqb_eq in H
  end.

Ltac spec := repeat match goal with
  | H : ?x = ?x -> _ |- _ => specialize (H eq_refl)
  | H : ?x = ?x \/ _ -> _ |- _ => specialize (H (or_introl eq_refl))
  | H : _ \/ ?x = ?x -> _ |- _ => specialize (H (or_intror eq_refl))
  | H : _ \/ (?x = ?x /\ ?y = ?y) -> _ |- _ => specialize (H (or_intror (conj eq_refl eq_refl)))
  | H : ?a = ?b -> _ |- _ => first [ (assert (a <> b) by discriminate); clear H ]
  | H : ?a = ?b \/ ?c = ?d -> _ |- _ => (assert (a <> b) by discriminate); (assert (c <> d) by discriminate); clear H
  | H : ?a = ?b \/ (_ /\ ?c = ?d) -> _ |- _ => (assert (a <> b) by discriminate); (assert (c <> d) by discriminate); clear H
  end.

Ltac ifs := repeat match goal with
  | |- context [if ?x then _ else _] => destruct x eqn:?
  | |- context [match ?x with _ => _ end] => destruct x eqn:?
  end.

Ltac fin :=
  cbn in *; intros; zb; subst; cbn in *; spec; subst; cbn in *;
  try discriminate; try congruence; auto; try lia;
  try (intuition (try discriminate; try congruence; try lia; eauto); fail).

Lemma step_at_tinv ch cfg cache srv c t th th' c' cfg' cache' l :
  tinv ch cfg c t th -> hin ch (c_mem c) -> 0 <= size (c_mem c) -> hin ch cfg ->
  (forall k r, lookup k (c_cells c) = Some (CDone r) -> r = ROk k) ->
  (forall k h, lookup k cache = Some h -> In h ch) -> hin ch srv ->
  step_at t th c cfg cache srv = Some (th', c', cfg', cache', l) ->
  tinv ch cfg' c' t th'.
Proof.
  intros Hi Hmem Hnn Hcfg Hdone Hcache Hsrv H.
  destruct th as [cl path key p msg lat first init data wc new res].
  crack H; cbn in *; subst p; destruct Hi; cbn in *; unfold sect_of, skips in *; cbn in *; spec.
  all: unfold decide, ret, mdone; cbn; ifs; cbn in *.
  all: constructor; unfold sect_of, skips; fin.
  all: try rewrite Nat.eqb_refl; auto.
  all: try match goal with H : ?x = true |- context [if ?x then _ else _] => rewrite H; auto end.
  all: try match goal with
    | Hs : ?x = true -> _ \/ _ |- context [if ?x then _ else _] =>
        destruct x; [exfalso; destruct (Hs eq_refl); discriminate|]
    end; fin.
Qed.

Lemma step_at_static t th c cfg cache srv th' c' cfg' cache' l :
  step_at t th c cfg cache srv = Some (th', c', cfg', cache', l) ->
  t_cl th' = t_cl th /\ t_key th' = t_key th /\ t_path th' = t_path th /\
  c_nosumdb c' = c_nosumdb c.
Proof.
  intros H. destruct th as [cl path key p msg lat first init data wc new res].
  crack H; cbn in *; unfold decide, ret, mdone; cbn; ifs; cbn; auto.
Qed.

Lemma step_at_cext t2 ch cfg cache srv c t th th' c' cfg' cache' l :
  t2 <> t -> tinv ch cfg c t th ->
  step_at t th c cfg cache srv = Some (th', c', cfg', cache', l) ->
  cext t2 c c' /\ size cfg <= size cfg'.
Proof.
  intros Hne Hi H. destruct th as [cl path key p msg lat first init data wc new res].
  crack H; cbn in *; subst p; destruct Hi; cbn in *; unfold sect_of in *; cbn in *; spec.
  all: split; [constructor|]; fin.
  all: destruct (Nat.eqb_spec k key); subst; auto; congruence.
Qed.
Lemma wit_upd ths t th th' t0 (P : thread -> Prop) :
  nth_error ths t = Some th ->
  (exists th0, nth_error ths t0 = Some th0 /\ P th0) ->
  (P th -> P th') ->
  exists th0, nth_error (upd_nth t th' ths) t0 = Some th0 /\ P th0.
Proof.
  intros Ht (th0 & H0 & HP) Himp. destruct (Nat.eq_dec t t0) as [->|Hne].
  - exists th'. rewrite nth_upd_eq by (eapply nth_some_lt; eauto). split; auto.
    apply Himp. congruence.
  - exists th0. rewrite nth_upd_ne by auto. auto.
Qed.

Lemma step_at_cinv ch ths cfg cache srv c t th th' c' cfg' cache' l :
  nth_error ths t = Some th ->
  tinv ch cfg c t th -> cinv ch ths (t_cl th) c ->
  step_at t th c cfg cache srv = Some (th', c', cfg', cache', l) ->
  cinv ch (upd_nth t th' ths) (t_cl th) c'.
Proof.
  intros Ht Hi Hc H.
  assert (Hlt : (t < length ths)%nat) by (eapply nth_some_lt; eauto).
  destruct th as [cl path key p msg lat first init data wc new res].
  crack H; cbn in *; subst p; destruct Hi, Hc; cbn in *; unfold sect_of in *; cbn in *; spec.
  all: constructor; cbn; auto.
  all: try (intros t0 Hr; eapply wit_upd; [eassumption|eauto|];
            unfold sect_of, decide, ret, mdone; cbn; ifs; cbn; intuition (try discriminate; auto); fail).
  all: try (intros k t0 Hr; eapply wit_upd; [eassumption|eauto|];
            unfold sect_of, decide, ret, mdone; cbn; ifs; cbn; intuition (try discriminate; auto); fail).
  - intros t0 [= <-]. eexists. rewrite nth_upd_eq by auto. cbn. auto.
  - fin.
  - intros k t0; destruct (Nat.eqb_spec k key) as [->|Hk]; intros Hr.
    + injection Hr as <-. eexists. rewrite nth_upd_eq by auto. cbn. auto.
    + eapply wit_upd; [eassumption|eauto|]. unfold sect_of; cbn.
      intuition (try discriminate; try congruence; auto).
  - intros k r; destruct (Nat.eqb_spec k key) as [->|Hk]; intros Hr; [discriminate|eauto].
  - intros k t0; destruct (Nat.eqb_spec k key) as [->|Hk]; intros Hr; [discriminate|].
    eapply wit_upd; [eassumption|eauto|]. unfold sect_of; cbn.
    intuition (try discriminate; try congruence; auto).
  - intros k r; destruct (Nat.eqb_spec k key) as [->|Hk]; intros Hr; [|eauto].
    injection Hr as <-. auto.
Qed.

Lemma cinv_other ch ths ci c t th th' :
  nth_error ths t = Some th -> t_cl th <> ci ->
  cinv ch ths ci c -> cinv ch (upd_nth t th' ths) ci c.
Proof.
  intros Ht Hne [Hm Hn Hin Hrun Hd]. constructor; auto.
  - intros t0 Hr. destruct (Hin t0 Hr) as (th0 & H0 & Hcl & Hs).
    exists th0. rewrite nth_upd_ne; auto. intros ->. congruence.
  - intros k t0 Hr. destruct (Hrun k t0 Hr) as (th0 & H0 & Hcl & Hs).
    exists th0. rewrite nth_upd_ne; auto. intros ->. congruence.
Qed.


Lemma step_at_globals ch cfg cache srv c t th th' c' cfg' cache' l :
  tinv ch cfg c t th -> hin ch cfg -> (forall k h, lookup k cache = Some h -> In h ch) ->
  step_at t th c cfg cache srv = Some (th', c', cfg', cache', l) ->
  hin ch cfg' /\ (forall k h, lookup k cache' = Some h -> In h ch).
Proof.
  intros Hi Hcfg Hcache H. destruct th as [cl path key p msg lat first init data wc new res].
  crack H; cbn in *; subst p; destruct Hi; cbn in *; split; auto.
  subst data; cbn in *. intros k h'. destruct (Nat.eqb_spec k key); [intros [= <-]; auto|eauto].
Qed.

Lemma step_inv s t s' l : Inv s -> step s t = Some (s', l) -> Inv s'.
Proof.
  intros HI H. unfold step in H.
  destruct (nth_error (s_threads s) t) as [th|] eqn:Ht; [|discriminate].
  destruct (nth_error (s_clients s) (t_cl th)) as [c|] eqn:Hc; [|discriminate].
  destruct (step_at t th c (s_cfg s) (s_cache s) (nth_error (s_chain s) (s_cur s)))
    as [[[[[th' c'] cfg'] cache'] l']|] eqn:Hs; [|discriminate].
  injection H as <- <-.
  destruct (inv_threads s HI t th Ht) as (c0 & Hc0 & Hti). rewrite Hc in Hc0. injection Hc0 as <-.
  pose proof (inv_clients s HI _ _ Hc) as Hci.
  destruct (step_at_static _ _ _ _ _ _ _ _ _ _ _ Hs) as (Hcl & Hkey & Hpath & Hns).
  assert (Hsrv : hin (s_chain s) (nth_error (s_chain s) (s_cur s))).
  { destruct (nth_error (s_chain s) (s_cur s)) eqn:E; cbn; auto. eapply nth_error_In; eauto. }
  destruct (step_at_globals _ _ _ _ _ _ _ _ _ _ _ _ Hti (inv_cfg s HI) (inv_cache s HI) Hs) as (Hcfg' & Hcache').
  pose proof (inv_nonneg s HI) as Hnn.
  constructor; cbn; auto.
  - intros t2 th2 H2. apply nth_upd in H2 as [(-> & -> & _)|(Hne & H2)].
    + exists c'. rewrite Hcl. split.
      * apply nth_upd_eq. eapply nth_some_lt; eauto.
      * refine (step_at_tinv _ _ _ _ _ _ _ _ _ _ _ _ Hti _ _ _ _ _ Hsrv Hs).
        -- apply (ci_mem _ _ _ _ Hci).
        -- apply (ci_nonneg _ _ _ _ Hci).
        -- apply (inv_cfg _ HI).
        -- apply (ci_done _ _ _ _ Hci).
        -- apply (inv_cache _ HI).
    + destruct (inv_threads s HI t2 th2 H2) as (c2 & Hc2 & Hti2).
      destruct (step_at_cext t2 _ _ _ _ _ _ _ _ _ _ _ _ Hne Hti Hs) as (Hext & Hmono).
      destruct (Nat.eq_dec (t_cl th2) (t_cl th)) as [E|E].
      * exists c'. rewrite E. split; [apply nth_upd_eq; eapply nth_some_lt; eauto|].
        rewrite E, Hc in Hc2. injection Hc2 as <-. eapply tinv_frame; eauto.
      * exists c2. rewrite nth_upd_ne by auto. split; auto.
        eapply tinv_frame; eauto using cext_refl.
  - intros ci2 c2 H2. apply nth_upd in H2 as [(-> & -> & _)|(Hne & H2)].
    + eapply step_at_cinv; eauto.
    + eapply cinv_other; eauto. eapply inv_clients; eauto.
  - apply inv_cur; auto.
Qed.

Lemma grow_inv s s' : Inv s -> grow s = Some s' -> Inv s'.
Proof.
  intros HI H. unfold grow in H.
  destruct (Nat.ltb_spec (S (s_cur s)) (length (s_chain s))); [|discriminate].
  injection H as <-. destruct HI. constructor; cbn; auto.
Qed.

(* ---- runs --------------------------------------------------------------------------------------- *)
Lemma do_act_inv s a : Inv s -> Inv (fst (do_act s a)).
Proof.
  intros HI. destruct a as [t|]; cbn.
  - destruct (step s t) as [[s' l]|] eqn:E; cbn; auto.
    assert (Inv s') by (eapply step_inv; eauto). destruct l; auto.
  - destruct (grow s) eqn:E; cbn; auto. eapply grow_inv; eauto.
Qed.

Lemma run_tr_cons a r s :
  run_tr (a :: r) s = (fst (run_tr r (fst (do_act s a))),
                       snd (do_act s a) ++ snd (run_tr r (fst (do_act s a)))).
Proof. cbn. destruct (do_act s a) as [s1 e1]; cbn. destruct (run_tr r s1) as [s2 e2]; reflexivity. Qed.

Lemma run_cons a r s : run (a :: r) s = run r (fst (do_act s a)).
Proof. unfold run. now rewrite run_tr_cons. Qed.

Lemma trace_cons a r s : trace (a :: r) s = snd (do_act s a) ++ trace r (fst (do_act s a)).
Proof. unfold trace. now rewrite run_tr_cons. Qed.

Lemma run_app a b s : run (a ++ b) s = run b (run a s).
Proof. revert s; induction a as [|x a IH]; intros s; auto. cbn [app]. rewrite !run_cons. apply IH. Qed.

Lemma trace_app a b s : trace (a ++ b) s = trace a s ++ trace b (run a s).
Proof.
  revert s; induction a as [|x a IH]; intros s; auto. cbn [app].
  rewrite !trace_cons, run_cons, IH, app_assoc. reflexivity.
Qed.

Lemma run_inv sched s : Inv s -> Inv (run sched s).
Proof.
  revert s; induction sched as [|a r IH]; intros s HI; auto.
  rewrite run_cons. apply IH. now apply do_act_inv.
Qed.

(* ---- initial states ------------------------------------------------------------------------------- *)
Record wf_init (chain : list head) (cur : nat) (cfg : option head) (cache : list (nat * head))
    (nos : list str) (lks : list (nat * str * nat)) : Prop := {
  wf_cur : (cur < length chain)%nat;
  wf_cfg : hin chain cfg;
  wf_cache : forall k h, lookup k cache = Some h -> In h chain;
  wf_clients : forall x, In x lks -> (fst (fst x) < length nos)%nat;
  wf_nonneg : forall h, In h chain -> 0 <= fst h
}.

Lemma map_nth_error_inv {A B} (f : A -> B) l n y :
  nth_error (map f l) n = Some y -> exists x, nth_error l n = Some x /\ f x = y.
Proof.
  rewrite nth_error_map. destruct (nth_error l n); cbn; [intros [= <-]; eauto|discriminate].
Qed.

Lemma init_inv chain cur cfg cache nos lks :
  wf_init chain cur cfg cache nos lks -> Inv (init_state chain cur cfg cache nos lks).
Proof.
  intros []. constructor; cbn; auto.
  - intros t th H. apply map_nth_error_inv in H as (x & Hx & <-).
    assert (Hin : In x lks) by (eapply nth_error_In; eauto).
    destruct (nth_error nos (fst (fst x))) as [n|] eqn:E.
    + exists (new_client n). split; [now apply map_nth_error|].
      constructor; cbn; auto; try discriminate; try lia; intuition discriminate.
    + apply nth_error_None in E. specialize (wf_clients0 _ Hin). lia.
  - intros ci c H. apply map_nth_error_inv in H as (n & Hn & <-).
    constructor; cbn; auto; try discriminate; try lia.
Qed.

(* ---- the heads never regress ------------------------------------------------------------------------ *)
Definition mem_of (s : state) (ci : nat) : option head :=
  match nth_error (s_clients s) ci with Some c => c_mem c | None => None end.

Definition heads_le (s s' : state) : Prop :=
  size (s_cfg s) <= size (s_cfg s') /\ forall ci, size (mem_of s ci) <= size (mem_of s' ci).

Lemma heads_le_refl s : heads_le s s.
Proof. split; intros; lia. Qed.

Lemma heads_le_trans a b c : heads_le a b -> heads_le b c -> heads_le a c.
Proof. intros [H1 H2] [H3 H4]. split; [lia|]. intros ci. specialize (H2 ci). specialize (H4 ci). lia. Qed.

Lemma step_heads_le s t s' l : Inv s -> step s t = Some (s', l) -> heads_le s s'.
Proof.
  intros HI H. unfold step in H.
  destruct (nth_error (s_threads s) t) as [th|] eqn:Ht; [|discriminate].
  destruct (nth_error (s_clients s) (t_cl th)) as [c|] eqn:Hc; [|discriminate].
  destruct (step_at t th c (s_cfg s) (s_cache s) (nth_error (s_chain s) (s_cur s)))
    as [[[[[th' c'] cfg'] cache'] l']|] eqn:Hs; [|discriminate].
  injection H as <- <-.
  destruct (inv_threads s HI t th Ht) as (c0 & Hc0 & Hti). rewrite Hc in Hc0. injection Hc0 as <-.
  destruct (step_at_cext (S t) _ _ _ _ _ _ _ _ _ _ _ _ (Nat.neq_succ_diag_l t) Hti Hs) as ([Hm _ _ _] & Hcfg).
  split; cbn; auto. intros ci. unfold mem_of; cbn.
  destruct (Nat.eq_dec ci (t_cl th)) as [->|Hne].
  - rewrite nth_upd_eq by (eapply nth_some_lt; eauto). now rewrite Hc.
  - rewrite nth_upd_ne by auto. lia.
Qed.

Lemma do_act_heads_le s a : Inv s -> heads_le s (fst (do_act s a)).
Proof.
  intros HI. destruct a as [t|]; cbn.
  - destruct (step s t) as [[s' l]|] eqn:E; cbn; [|apply heads_le_refl].
    assert (heads_le s s') by (eapply step_heads_le; eauto). destruct l; auto.
  - unfold grow. destruct (Nat.ltb _ _); cbn; split; unfold mem_of; cbn; intros; lia.
Qed.

Lemma run_heads_le sched s : Inv s -> heads_le s (run sched s).
Proof.
  revert s; induction sched as [|a r IH]; intros s HI; [apply heads_le_refl|].
  rewrite run_cons. eapply heads_le_trans; [apply do_act_heads_le; auto|].
  apply IH. now apply do_act_inv.
Qed.

(* along any run, a later state has heads at least as large as an earlier one *)
Lemma latest_never_regresses_run s sched1 sched2 :
  Inv s -> heads_le (run sched1 s) (run (sched1 ++ sched2) s).
Proof. intros HI. rewrite run_app. apply run_heads_le. now apply run_inv. Qed.

(* ---- results ------------------------------------------------------------------------------------------ *)
Lemma results_inv s t th :
  Inv s -> nth_error (s_threads s) t = Some th -> t_pc th = PDone ->
  exists c, nth_error (s_clients s) (t_cl th) = Some c /\
            t_res th = if skips c th then RSkip else ROk (t_key th).
Proof.
  intros HI Ht Hpc. destruct (inv_threads s HI t th Ht) as (c & Hc & Hti).
  exists c. split; auto. now apply (ti_done _ _ _ _ _ Hti).
Qed.

(* ---- GONOSUMDB ------------------------------------------------------------------------------------------ *)
Definition skipping (s : state) (t : nat) : Prop :=
  exists th c, nth_error (s_threads s) t = Some th /\ nth_error (s_clients s) (t_cl th) = Some c /\
               skips c th = true.

Lemma skips_static c c' th th' :
  c_nosumdb c' = c_nosumdb c -> t_path th' = t_path th -> skips c' th' = skips c th.
Proof. unfold skips. now intros -> ->. Qed.

Lemma step_skipping s t0 s' l t : step s t0 = Some (s', l) -> skipping s t -> skipping s' t.
Proof.
  intros H (th2 & c2 & Ht2 & Hc2 & Hsk). unfold step in H.
  destruct (nth_error (s_threads s) t0) as [th|] eqn:Ht; [|discriminate].
  destruct (nth_error (s_clients s) (t_cl th)) as [c|] eqn:Hc; [|discriminate].
  destruct (step_at t0 th c (s_cfg s) (s_cache s) (nth_error (s_chain s) (s_cur s)))
    as [[[[[th' c'] cfg'] cache'] l']|] eqn:Hs; [|discriminate].
  injection H as <- <-.
  destruct (step_at_static _ _ _ _ _ _ _ _ _ _ _ Hs) as (Hcl & Hkey & Hpath & Hns).
  assert (Hlt : (t0 < length (s_threads s))%nat) by (eapply nth_some_lt; eauto).
  assert (Hlc : (t_cl th < length (s_clients s))%nat) by (eapply nth_some_lt; eauto).
  unfold skipping; cbn.
  destruct (Nat.eq_dec t0 t) as [->|Hne].
  - rewrite Ht in Ht2. injection Ht2 as <-. rewrite Hc in Hc2. injection Hc2 as <-.
    exists th', c'. rewrite nth_upd_eq by auto. rewrite Hcl, nth_upd_eq by auto.
    repeat split; auto. now rewrite (skips_static c c' th th').
  - rewrite nth_upd_ne by auto. destruct (Nat.eq_dec (t_cl th) (t_cl th2)) as [E|E].
    + exists th2, c'. rewrite <- E, nth_upd_eq by auto. repeat split; auto.
      rewrite <- E, Hc in Hc2. injection Hc2 as <-.
      now rewrite (skips_static c c' th2 th2).
    + exists th2, c2. rewrite nth_upd_ne by auto. auto.
Qed.

Lemma step_skipping_silent s t s' l : Inv s -> skipping s t -> step s t = Some (s', l) -> l = LTau.
Proof.
  intros HI (th2 & c2 & Ht2 & Hc2 & Hsk) H. unfold step in H. rewrite Ht2, Hc2 in H.
  destruct (inv_threads s HI t th2 Ht2) as (c0 & Hc0 & Hti). rewrite Hc2 in Hc0. injection Hc0 as <-.
  destruct (ti_skip _ _ _ _ _ Hti Hsk) as [Hp|Hp]; unfold step_at in H; rewrite Hp in H.
  - rewrite Hsk in H. now injection H as <- <-.
  - discriminate.
Qed.

Lemma gonosumdb_run sched s t :
  Inv s -> skipping s t -> forall e, In e (trace sched s) -> fst e <> t.
Proof.
  revert s; induction sched as [|a r IH]; intros s HI Hsk e Hin; [destruct Hin|].
  rewrite trace_cons in Hin. apply in_app_or in Hin as [Hin|Hin].
  - destruct a as [t0|]; cbn in Hin.
    + destruct (step s t0) as [[s' l]|] eqn:E; [|destruct Hin].
      destruct (Nat.eq_dec t0 t) as [->|Hne].
      * rewrite (step_skipping_silent _ _ _ _ HI Hsk E) in Hin. destruct Hin.
      * destruct l; cbn in Hin; try contradiction; (destruct Hin as [<-|Hf]; [cbn; auto|contradiction]).
    + destruct (grow s); destruct Hin.
  - eapply (IH (fst (do_act s a))); eauto using do_act_inv.
    destruct a as [t0|]; cbn.
    + destruct (step s t0) as [[s' l]|] eqn:E; cbn; auto.
      assert (skipping s' t) by (eapply step_skipping; eauto). destruct l; auto.
    + unfold grow. destruct (Nat.ltb _ _); cbn; auto.
Qed.
