(* Client/ServerProofsSha.v — the SHA-256 instance of the server theorems, and the connection to
   C10: the modelled server IS a tile publisher for which the tile hash reader succeeds
   (TileProofsInst.read_hashes_complete_sha256 through NewTilesProofsData.tile_read_hashes_ext).
     server_tile_reader st    TileReader.ReadTiles implemented by GET /<tile.Path()> against the server
     server_readers_succeed   TileHashReader(tree of the current log, that reader).ReadHashes returns the
                              true hashes for every index of the tree, and saves authenticated tiles
     sha_is_hash              record_hash / node_hash_sha satisfy the hash hypotheses of the theorems *)
From Verif.Base Require Import Bytes Sha256 Sha256Proofs.
From Verif.Gen Require Import GenConsts.
From Verif.Tlog Require Import Index Tree Codec Tile TileReader Spec6962 ProofsIndex ProofsSpec ProofsTree ProofsStore ProofsCodec Sha.
From Verif.Tlog Require Import TileSpec TileProofsHonest TileProofsHonestRun TileProofsInst NewTilesProofs NewTilesProofsData.
From Verif.Note Require Import Note.
From Verif.Client Require Import Seq Server ServerProofs ServerProofsLookup ServerProofsWorld.

Lemma record_hash_is_hash r : is_hash (record_hash r).
Proof.
  unfold record_hash. split; [apply sha256_bytes|]. unfold len. rewrite sha256_length. reflexivity.
Qed.

Lemma node_hash_sha_is_hash a b : is_hash (node_hash_sha a b).
Proof.
  unfold node_hash_sha. split; [apply sha256_bytes|]. unfold len. rewrite sha256_length. reflexivity.
Qed.

Section Sha.
Variable gosum : str -> str -> gres.
Variable sid : Type.
Variable Sg : sid -> str -> option str.
Variable sgn : signer sid.

Notation serve_sha := (serve_test record_hash node_hash_sha gosum sid Sg sgn).

(* ReadTiles by one GET per tile; an error if any request is not answered with 200 *)
Definition server_tile_reader (st : tstate) : tile_reader :=
  fun ts => all_some (map (fun t => body_of (fst (serve_sha st (47 :: tile_path t)))) ts).

Lemma all_some_map_some {A} (f : A -> str) l : all_some (map (fun x => Some (f x)) l) = Some (map f l).
Proof. induction l as [|x l IH]; [reflexivity|]. cbn [map all_some]. rewrite IH. reflexivity. Qed.

Theorem server_readers_succeed st h ix :
  HInv record_hash node_hash_sha st -> 0 < zlen (ts_records st) < 2 ^ 62 -> 1 <= h <= 30 ->
  Forall (fun x => 0 <= x < stored_hash_index 0 (zlen (ts_records st))) ix ->
  exists sv,
    tile_read_hashes node_hash_sha (zlen (ts_records st), mth node_hash_sha (map record_hash (ts_records st))) h ix
                     (server_tile_reader st)
    = (TOk (map (true_hash (sha_range (ts_records st))) ix), Some sv).
Proof.
  intros HI Hlen Hh Hix. set (recs := ts_records st) in *.
  rewrite (tile_read_hashes_ext node_hash_sha _ h ix (server_tile_reader st) (honest_rt (sha_range recs))).
  - apply read_hashes_complete_sha256; try assumption; lia.
  - cbn [fst]. intros p Ep. unfold server_tile_reader, honest_rt.
    pose proof (make_plan_tiles_in_tree (zlen recs) h ix p ltac:(lia) ltac:(lia) Ep) as Hall.
    rewrite <- all_some_map_some. f_equal. apply map_ext_in. intros t Ht.
    rewrite Forall_forall in Hall.
    destruct (serve_tile_honest record_hash node_hash_sha gosum sid Sg sgn st h t HI ltac:(fold recs; lia) Hh (Hall t Ht)) as [E _].
    rewrite E. reflexivity.
Qed.

End Sha.
