(* Client/SeqProofsOrderCheckTree.v — consistent_iff_check_tree: against the true head
   (zlen L, mth L) of a log with leaf hashes L, the relation Consistent that checkTrees establishes
   (the NodeAt-authenticated hashes of the decomposition SubTreeIndex(0, n) fold to hn) holds iff
   SOME consistency proof is accepted by tlog.CheckTree — each direction up to an explicit
   collision of the node hash.  (For a root that is not the hash of any log there is nothing to
   relate: CheckTree accepts the empty proof for n = N whatever the root, while Consistent needs
   the root to decompose.)  Uses tlog-core's check_tree_complete / check_tree_sound and C10's
   nodeat_true_or_collision. *)
From Verif.Base Require Import Bytes.
From Verif.Tlog Require Import Index Tree Spec6962 ProofsIndex ProofsSpec ProofsTree Codec Tile TileReader TileSpec.
From Verif.Tlog Require Import TileProofsMerkle.
From Verif.Tlog Require ProofsRecord ProofsPath ProofsConsistency TileProofsPath6962.
From Verif.Note Require Import Note.
From Verif.Client Require Import Seq SeqProofsTile SeqProofsSafe SeqProofsOrder.

Section CheckTree.
Variable node_hash : hash -> hash -> hash.
Notation node_in := (TileSpec.node_in node_hash).
Notation NodeAt := (TileSpec.NodeAt node_hash).
Notation coll := (coll node_hash).
Notation Consistent := (Consistent node_hash NodeAt).
Notation hash_of_prefix := (hash_of_prefix node_hash NodeAt).

(* in a tree whose range hashes obey the RFC 6962 recursion every aligned block is a node *)
Lemma true_node_in (T : Z -> Z -> hash) M : T_splits node_hash T M ->
  forall (fuel : nat) lo hi l o,
  hi - lo <= Z.of_nat fuel -> 0 <= lo -> hi <= M -> aligned lo hi -> 0 <= l ->
  lo <= o * 2 ^ l -> (o + 1) * 2 ^ l <= hi ->
  node_in (T lo hi) lo hi l o (T (o * 2 ^ l) ((o + 1) * 2 ^ l)).
Proof.
  intros HT. induction fuel as [|f IH]; intros lo hi l o Hf Hlo Hhi Hal Hl B1 B2;
    pose proof (pow2_pos l Hl) as Hp; [lia|].
  destruct (Z.eq_dec lo (o * 2 ^ l)) as [E1|N1]; [destruct (Z.eq_dec hi ((o + 1) * 2 ^ l)) as [E2|N2]|].
  - rewrite <- E1, <- E2. apply ni_here; assumption.
  - assert (H2 : lo + 2 <= hi) by lia.
    pose proof (split_point_bounds (hi - lo) ltac:(lia)) as Hsp.
    destruct (block_one_side lo hi l o Hal H2 Hl B1 B2 ltac:(lia)) as [Hs|Hs].
    + eapply ni_left; [exact H2 | apply HT; lia | exact Hs|].
      apply IH; try lia;
      try (unfold split_point; apply (ProofsRecord.aligned_left lo hi); [exact Hal | apply Z.log2_nonneg | fold (split_point (hi - lo)); lia]).
    + eapply ni_right; [exact H2 | apply HT; lia | exact Hs|].
      apply IH; try lia;
      try (unfold split_point; apply (ProofsRecord.aligned_right lo hi); [exact Hal | apply Z.log2_nonneg | fold (split_point (hi - lo)); lia]).
  - assert (H2 : lo + 2 <= hi) by lia.
    pose proof (split_point_bounds (hi - lo) ltac:(lia)) as Hsp.
    destruct (block_one_side lo hi l o Hal H2 Hl B1 B2 ltac:(lia)) as [Hs|Hs].
    + eapply ni_left; [exact H2 | apply HT; lia | exact Hs|].
      apply IH; try lia;
      try (unfold split_point; apply (ProofsRecord.aligned_left lo hi); [exact Hal | apply Z.log2_nonneg | fold (split_point (hi - lo)); lia]).
    + eapply ni_right; [exact H2 | apply HT; lia | exact Hs|].
      apply IH; try lia;
      try (unfold split_point; apply (ProofsRecord.aligned_right lo hi); [exact Hal | apply Z.log2_nonneg | fold (split_point (hi - lo)); lia]).
Qed.

Section Log.
Variable L : list hash.
Hypothesis HL : zlen L <= 2 ^ 62.
Notation T := (ProofsPath.lrange node_hash L).
Notation N := (zlen L).
Notation R := (mth node_hash L).

Lemma T_prefix n : T 0 n = mth node_hash (firstn (Z.to_nat n) L).
Proof. unfold ProofsPath.lrange. rewrite Z.sub_0_r. reflexivity. Qed.

Lemma Forall2_map_self {A B} (P : A -> B -> Prop) (f : A -> B) l :
  (forall a, In a l -> P a (f a)) -> Forall2 P l (map f l).
Proof.
  induction l as [|a l IH]; intros H; cbn; constructor.
  - apply H. left. reflexivity.
  - apply IH. intros b Hb. apply H. right. exact Hb.
Qed.

Lemma T_root : T 0 N = R.
Proof. apply ProofsPath.lrange_all. Qed.

(* the blocks of [0, n) with their true hashes *)
Lemma true_blocks n bs :
  1 <= n <= N -> Blocks 0 n bs ->
  length (map (block_hash T) bs) = length bs /\
  fold_hashes node_hash (map (block_hash T) bs) = Some (T 0 n) /\
  blocks_auth node_hash R N bs (map (block_hash T) bs).
Proof.
  intros Hn HB. split; [apply map_length|]. split.
  - apply (blocks_fold node_hash T N (ProofsPath.lrange_splits node_hash L) 0 n bs HB); lia.
  - unfold blocks_auth. apply Forall2_map_self. intros [l a] Hin. cbn [fst snd].
    destruct (block_coord _ _ _ _ _ HB Hin ltac:(lia)) as (Hl & Ho & Ha & Hge & Hle).
    pose proof (pow2_pos l Hl) as Hp.
    split; [exact Hl|]. split; [exact Ho|].
    unfold block_hash. cbn [fst snd]. rewrite <- T_root.
    replace a with (a / 2 ^ l * 2 ^ l) at 2 3 by lia.
    replace (a / 2 ^ l * 2 ^ l + 2 ^ l) with ((a / 2 ^ l + 1) * 2 ^ l) by lia.
    apply (true_node_in T N (ProofsPath.lrange_splits node_hash L) (Z.to_nat N)); try lia.
    apply aligned_0. lia.
Qed.

(* <= : an accepted proof gives Consistent *)
Theorem check_tree_consistent p n hn :
  check_tree node_hash p N R n hn = Index.Ok tt ->
  Consistent (Tree n hn) (Tree N R) \/ coll.
Proof.
  intros H. destruct (ProofsConsistency.check_tree_sound node_hash L p n hn HL H) as [Hn [E|C]]; [|right; exact C].
  left. unfold SeqProofsSafe.Consistent. cbn [Codec.tN Codec.tH].
  destruct (sub_tree_ok 0 n ltac:(lia) ltac:(lia) (aligned_0 n ltac:(lia))) as (bs & Es & HB).
  apply (prefix_iff_blocks node_hash (Tree N R) n hn bs ltac:(lia) Es HB). cbn [Codec.tN Codec.tH].
  destruct (true_blocks n bs Hn HB) as (Hlen & Hf & Hauth).
  exists (map (block_hash T) bs). split; [exact Hlen|]. split; [|exact Hauth].
  rewrite Hf, T_prefix, E. reflexivity.
Qed.

(* => : Consistent gives an accepted proof, the RFC 6962 one *)
Theorem consistent_check_tree n hn :
  1 <= n <= 2 ^ 62 -> Consistent (Tree n hn) (Tree N R) ->
  check_tree node_hash (proof node_hash n L) N R n hn = Index.Ok tt \/ coll.
Proof.
  intros Hn1 H. unfold SeqProofsSafe.Consistent in H. cbn [Codec.tN Codec.tH] in H.
  pose proof (prefix_le node_hash _ _ _ H ltac:(lia)) as HnN. cbn [Codec.tN] in HnN.
  destruct (sub_tree_ok 0 n ltac:(lia) ltac:(lia) (aligned_0 n ltac:(lia))) as (bs & Es & HB).
  apply (prefix_iff_blocks node_hash (Tree N R) n hn bs ltac:(lia) Es HB) in H. cbn [Codec.tN Codec.tH] in H.
  destruct H as (hs & Hlen & Hf & Hauth).
  destruct (true_blocks n bs ltac:(lia) HB) as (_ & Hf' & _).
  (* every authenticated block hash is the true one, or a collision *)
  assert (Hs : hs = map (block_hash T) bs \/ coll).
  { clear Hf Hf' Hlen. unfold blocks_auth in Hauth.
    assert (Hsub : forall b, In b bs -> In b bs) by auto. revert Hsub Hauth. generalize bs at 1 3 4.
    intros bs0 Hsub Hauth. revert Hsub. induction Hauth as [|[l a] x bs0 hs0 Hx Hauth IH]; intros Hsub; [left; reflexivity|].
    cbn [fst snd] in Hx. pose proof (Hsub _ (or_introl eq_refl)) as Hin.
    destruct (block_coord _ _ _ _ _ HB Hin ltac:(lia)) as (Hl & Ho & Ha & Hge & Hle).
    destruct (TileProofsPath6962.nodeat_true_or_collision node_hash L R N l (a / 2 ^ l) x eq_refl eq_refl Hx) as [E|C];
      [|right; exact C].
    destruct (IH (fun b Hb => Hsub b (or_intror Hb))) as [->|C]; [|right; exact C].
    left. cbn [map]. f_equal. rewrite E. unfold block_hash, ProofsPath.lrange. cbn [fst snd].
    rewrite <- Ha. f_equal. f_equal. lia. }
  destruct Hs as [->|C]; [|right; exact C].
  left. rewrite Hf' in Hf. injection Hf as <-. rewrite T_prefix.
  apply ProofsConsistency.check_tree_complete; [exact HL | lia].
Qed.

(* consistent_iff_check_tree *)
Theorem consistent_iff_check_tree n hn :
  1 <= n <= 2 ^ 62 ->
  (Consistent (Tree n hn) (Tree N R) -> (exists p, check_tree node_hash p N R n hn = Index.Ok tt) \/ coll) /\
  ((exists p, check_tree node_hash p N R n hn = Index.Ok tt) -> Consistent (Tree n hn) (Tree N R) \/ coll).
Proof.
  intros Hn. split.
  - intros H. destruct (consistent_check_tree n hn Hn H) as [E|C]; [left; eauto | right; exact C].
  - intros [p Hp]. eapply check_tree_consistent; eauto.
Qed.

End Log.
End CheckTree.
