(* Client/SeqProofsOrder.v — the order structure of [Consistent] (C13): what checkTrees
   establishes between two tree heads is, up to an explicit collision of the node hash,
   transitive, "prefix-comparable" (two prefixes of one head are prefixes of each other) and
   antisymmetric on equal sizes.  No ground-truth log is assumed: all facts are about Merkle
   paths (TileSpec.node_in / NodeAt) under arbitrary root hashes.

     coll node_hash                      an explicit collision of node_hash
     node_in_fun                         two paths to the same node from the same root agree, or coll
     node_in_compose / node_in_decompose paths compose and split at any aligned block in between
     reauth                              nodes authenticated under a prefix head are authenticated
                                         under every head the prefix is Consistent with, or coll
     consistent_trans                    Consistent A B -> Consistent B C -> Consistent A C \/ coll
     consistent_prefixes                 Consistent A C -> Consistent B C -> tN A <= tN B ->
                                         Consistent A B \/ coll
     consistent_same_size                Consistent A B -> tN A = tN B -> tH A = tH B \/ coll *)
From Verif.Base Require Import Bytes.
From Verif.Tlog Require Import Index Tree Spec6962 ProofsIndex ProofsSpec ProofsTree Codec Tile TileReader TileSpec.
From Verif.Tlog Require Import TileProofsMerkle.
From Verif.Tlog Require ProofsRecord.
From Verif.Note Require Import Note.
From Verif.Client Require Import Seq SeqProofsTile SeqProofsSafe.

Section Order.
Variable node_hash : hash -> hash -> hash.
Notation node_in := (TileSpec.node_in node_hash).
Notation NodeAt := (TileSpec.NodeAt node_hash).

Definition coll : Prop :=
  exists a b c d : hash, (a, b) <> (c, d) /\ node_hash a b = node_hash c d.

Lemma hash_dec (a b : hash) : {a = b} + {a <> b}.
Proof. apply (list_eq_dec Z.eq_dec). Qed.

Lemma node_hash_inj a b c d : node_hash a b = node_hash c d -> (a = c /\ b = d) \/ coll.
Proof.
  intros H. destruct (hash_dec a c) as [->|Na]; [destruct (hash_dec b d) as [->|Nb]|].
  - left. auto.
  - right. exists c, b, c, d. split; [congruence | exact H].
  - right. exists a, b, c, d. split; [congruence | exact H].
Qed.

(* ---- paths ---------------------------------------------------------------------------------- *)

(* a path to the whole range is the empty path *)
Lemma node_in_whole R lo hi l o x :
  node_in R lo hi l o x -> 0 <= l -> lo = o * 2 ^ l -> hi = (o + 1) * 2 ^ l -> x = R.
Proof.
  intros H Hl Hlo Hhi. destruct H as [R lo hi l o _ _ | R lo hi l o x a b H2 HR Hle Hn | R lo hi l o x a b H2 HR Hle Hn].
  - reflexivity.
  - pose proof (split_point_bounds (hi - lo) ltac:(lia)). lia.
  - pose proof (split_point_bounds (hi - lo) ltac:(lia)). lia.
Qed.

(* two paths from one root to one node give the same hash, or a collision *)
Lemma node_in_fun R lo hi l o x :
  node_in R lo hi l o x -> forall x', node_in R lo hi l o x' -> 0 <= l -> x = x' \/ coll.
Proof.
  induction 1 as [R lo hi l o Hlo Hhi | R lo hi l o x a b H2 HR Hle Hn IH | R lo hi l o x a b H2 HR Hle Hn IH];
    intros x' H' Hl; pose proof (pow2_pos l Hl) as Hp.
  - left. symmetry. eapply node_in_whole; eauto.
  - pose proof (split_point_bounds (hi - lo) ltac:(lia)) as Hsp.
    inversion H' as [R0 lo0 hi0 l0 o0 Hlo' Hhi' | R0 lo0 hi0 l0 o0 x0 a' b' H2' HR' Hle' Hn' | R0 lo0 hi0 l0 o0 x0 a' b' H2' HR' Hle' Hn']; subst.
    + lia.
    + destruct (node_hash_inj _ _ _ _ HR') as [[-> ->]|C]; [|right; exact C]. apply IH; assumption.
    + lia.
  - pose proof (split_point_bounds (hi - lo) ltac:(lia)) as Hsp.
    inversion H' as [R0 lo0 hi0 l0 o0 Hlo' Hhi' | R0 lo0 hi0 l0 o0 x0 a' b' H2' HR' Hle' Hn' | R0 lo0 hi0 l0 o0 x0 a' b' H2' HR' Hle' Hn']; subst.
    + lia.
    + lia.
    + destruct (node_hash_inj _ _ _ _ HR') as [[-> ->]|C]; [|right; exact C]. apply IH; assumption.
Qed.

(* a path to a block followed by a path inside the block *)
Lemma node_in_compose R lo hi l' o' y :
  node_in R lo hi l' o' y -> forall l o x, 0 <= l -> 0 <= l' ->
  node_in y (o' * 2 ^ l') ((o' + 1) * 2 ^ l') l o x -> node_in R lo hi l o x.
Proof.
  induction 1 as [R lo hi l' o' Hlo Hhi | R lo hi l' o' y a b H2 HR Hle Hn IH | R lo hi l' o' y a b H2 HR Hle Hn IH];
    intros l o x Hl Hl' Hin.
  - subst. exact Hin.
  - destruct (node_in_bounds node_hash _ _ _ _ _ _ Hin Hl) as [B1 B2].
    eapply ni_left; [exact H2 | exact HR | lia | apply IH; assumption].
  - destruct (node_in_bounds node_hash _ _ _ _ _ _ Hin Hl) as [B1 B2].
    eapply ni_right; [exact H2 | exact HR | lia | apply IH; assumption].
Qed.

(* an aligned block strictly inside an aligned range lies on one side of the split *)
Lemma block_one_side lo hi l' o' :
  aligned lo hi -> lo + 2 <= hi -> 0 <= l' ->
  lo <= o' * 2 ^ l' -> (o' + 1) * 2 ^ l' <= hi ->
  ~ (lo = o' * 2 ^ l' /\ hi = (o' + 1) * 2 ^ l') ->
  (o' + 1) * 2 ^ l' <= lo + split_point (hi - lo) \/ lo + split_point (hi - lo) <= o' * 2 ^ l'.
Proof.
  intros [j [Hj [[c Hc] Hsz]]] H2 Hl' B1 B2 Hne.
  pose proof (pow2_pos l' Hl') as Hp'. pose proof (pow2_pos j Hj) as Hpj.
  set (k := Z.log2 (hi - lo - 1)).
  assert (Hk0 : 0 <= k) by apply Z.log2_nonneg.
  assert (Hsp : split_point (hi - lo) = 2 ^ k) by reflexivity.
  pose proof (split_point_bounds (hi - lo) ltac:(lia)) as Hb. rewrite Hsp in *.
  assert (Hkj : k < j) by (apply pow2_lt_inv; lia).
  destruct (Z_le_gt_dec l' k) as [Hle|Hgt].
  - (* lo + 2^k is a multiple of 2^l' *)
    assert (E1 : 2 ^ k = 2 ^ (k - l') * 2 ^ l') by (rewrite <- Z.pow_add_r by lia; f_equal; lia).
    assert (E2 : 2 ^ j = 2 ^ (j - l') * 2 ^ l') by (rewrite <- Z.pow_add_r by lia; f_equal; lia).
    set (q := c * 2 ^ (j - l') + 2 ^ (k - l')).
    assert (Hq : lo + 2 ^ k = q * 2 ^ l') by (unfold q; nia).
    rewrite Hq. destruct (Z_lt_le_dec o' q); [left | right]; nia.
  - (* the block is at least as large as the range *)
    exfalso. apply Hne.
    assert (2 * 2 ^ k <= 2 ^ l').
    { replace (2 * 2 ^ k) with (2 ^ (k + 1)) by (rewrite pow2_succ; lia). apply pow2_le. lia. }
    lia.
Qed.

(* a path to a node passes through every aligned block that contains the node *)
Lemma node_in_decompose R lo hi l o x :
  node_in R lo hi l o x -> forall l' o', 0 <= l -> l <= l' -> aligned lo hi ->
  lo <= o' * 2 ^ l' -> (o' + 1) * 2 ^ l' <= hi ->
  o' * 2 ^ l' <= o * 2 ^ l -> (o + 1) * 2 ^ l <= (o' + 1) * 2 ^ l' ->
  exists y, node_in R lo hi l' o' y /\ node_in y (o' * 2 ^ l') ((o' + 1) * 2 ^ l') l o x.
Proof.
  induction 1 as [R lo hi l o Hlo Hhi | R lo hi l o x a b H2 HR Hle Hn IH | R lo hi l o x a b H2 HR Hle Hn IH];
    intros l' o' Hl Hll Hal B1 B2 C1 C2; pose proof (pow2_pos l Hl) as Hp.
  - exists R. assert (lo = o' * 2 ^ l') by lia. assert (hi = (o' + 1) * 2 ^ l') by lia.
    split; [apply ni_here; assumption|]. rewrite <- H, <- H0. apply ni_here; assumption.
  - destruct (Z.eq_dec lo (o' * 2 ^ l')) as [E1|N1]; [destruct (Z.eq_dec hi ((o' + 1) * 2 ^ l')) as [E2|N2]|].
    + exists R. split; [apply ni_here; assumption|]. rewrite <- E1, <- E2.
      eapply ni_left; eauto.
    + pose proof (split_point_bounds (hi - lo) ltac:(lia)) as Hsp.
      destruct (block_one_side lo hi l' o' Hal H2 ltac:(lia) B1 B2 ltac:(lia)) as [Hs|Hs]; [|lia].
      assert (Hal' : aligned lo (lo + split_point (hi - lo))).
      { unfold split_point. apply (ProofsRecord.aligned_left lo hi); [exact Hal | apply Z.log2_nonneg | fold (split_point (hi - lo)); lia]. }
      destruct (IH l' o' Hl Hll Hal' B1 Hs C1 C2) as (y & Y1 & Y2).
      exists y. split; [|exact Y2]. eapply ni_left; [exact H2 | exact HR | exact Hs | exact Y1].
    + pose proof (split_point_bounds (hi - lo) ltac:(lia)) as Hsp.
      destruct (block_one_side lo hi l' o' Hal H2 ltac:(lia) B1 B2 ltac:(lia)) as [Hs|Hs]; [|lia].
      assert (Hal' : aligned lo (lo + split_point (hi - lo))).
      { unfold split_point. apply (ProofsRecord.aligned_left lo hi); [exact Hal | apply Z.log2_nonneg | fold (split_point (hi - lo)); lia]. }
      destruct (IH l' o' Hl Hll Hal' B1 Hs C1 C2) as (y & Y1 & Y2).
      exists y. split; [|exact Y2]. eapply ni_left; [exact H2 | exact HR | exact Hs | exact Y1].
  - destruct (Z.eq_dec lo (o' * 2 ^ l')) as [E1|N1]; [destruct (Z.eq_dec hi ((o' + 1) * 2 ^ l')) as [E2|N2]|].
    + exists R. split; [apply ni_here; assumption|]. rewrite <- E1, <- E2.
      eapply ni_right; eauto.
    + pose proof (split_point_bounds (hi - lo) ltac:(lia)) as Hsp.
      destruct (block_one_side lo hi l' o' Hal H2 ltac:(lia) B1 B2 ltac:(lia)) as [Hs|Hs]; [lia|].
      assert (Hal' : aligned (lo + split_point (hi - lo)) hi).
      { unfold split_point. apply (ProofsRecord.aligned_right lo hi); [exact Hal | apply Z.log2_nonneg | fold (split_point (hi - lo)); lia]. }
      destruct (IH l' o' Hl Hll Hal' Hs B2 C1 C2) as (y & Y1 & Y2).
      exists y. split; [|exact Y2]. eapply ni_right; [exact H2 | exact HR | exact Hs | exact Y1].
    + pose proof (split_point_bounds (hi - lo) ltac:(lia)) as Hsp.
      destruct (block_one_side lo hi l' o' Hal H2 ltac:(lia) B1 B2 ltac:(lia)) as [Hs|Hs]; [lia|].
      assert (Hal' : aligned (lo + split_point (hi - lo)) hi).
      { unfold split_point. apply (ProofsRecord.aligned_right lo hi); [exact Hal | apply Z.log2_nonneg | fold (split_point (hi - lo)); lia]. }
      destruct (IH l' o' Hl Hll Hal' Hs B2 C1 C2) as (y & Y1 & Y2).
      exists y. split; [|exact Y2]. eapply ni_right; [exact H2 | exact HR | exact Hs | exact Y1].
Qed.

(* ---- moving authenticated nodes between two heads that share a block -------------------------- *)

(* if block (lv, c) has hash h under both roots, every node inside the block authenticated under
   the first root is authenticated under the second, or a collision is at hand *)
Lemma transfer R1 N1 R2 N2 lv c h l o x :
  0 <= l -> l <= lv -> 0 <= N1 ->
  node_in R1 0 N1 lv c h -> node_in R2 0 N2 lv c h ->
  c * 2 ^ lv <= o * 2 ^ l -> (o + 1) * 2 ^ l <= (c + 1) * 2 ^ lv ->
  node_in R1 0 N1 l o x -> node_in R2 0 N2 l o x \/ coll.
Proof.
  intros Hl Hll HN H1 H2 C1 C2 Hx.
  destruct (node_in_bounds node_hash _ _ _ _ _ _ H1 ltac:(lia)) as [B1 B2].
  destruct (node_in_decompose _ _ _ _ _ _ Hx lv c Hl Hll (aligned_0 N1 HN) B1 B2 C1 C2) as (y & Y1 & Y2).
  destruct (node_in_fun _ _ _ _ _ _ Y1 _ H1 ltac:(lia)) as [->|C]; [|right; exact C].
  left. eapply node_in_compose; eauto. lia.
Qed.

Lemma Forall2_zip_in {A B} (P Q : A -> B -> Prop) l l' a :
  Forall2 P l l' -> Forall2 Q l l' -> In a l -> exists b, P a b /\ Q a b.
Proof.
  intros HP. revert a. induction HP as [|x y l l' Hxy HP IH]; intros a HQ Hin; [destruct Hin|].
  inversion HQ; subst. destruct Hin as [<-|Hin]; [eauto | apply IH; assumption].
Qed.

Lemma Forall2_or_out {A B} (P : A -> B -> Prop) (C : Prop) l l' :
  Forall2 (fun a b => P a b \/ C) l l' -> Forall2 P l l' \/ C.
Proof.
  induction 1 as [|x y l l' Hxy _ IH]; [left; constructor|].
  destruct Hxy as [Hxy|Hc]; [|right; exact Hc].
  destruct IH as [IH|Hc]; [left; constructor; assumption | right; exact Hc].
Qed.

(* the blocks of a prefix with their hashes, authenticated under a root *)
Definition blocks_auth (R : hash) (N : Z) (bs : list (Z * Z)) (hs : list hash) : Prop :=
  Forall2 (fun b x => NodeAt R N (fst b) (snd b / 2 ^ fst b) x) bs hs.

Lemma block_coord lo hi bs l a :
  Blocks lo hi bs -> In (l, a) bs -> 0 <= lo ->
  0 <= l /\ 0 <= a / 2 ^ l /\ a = (a / 2 ^ l) * 2 ^ l /\ lo <= a /\ a + 2 ^ l <= hi.
Proof.
  intros HB Hin Hlo. destruct (Blocks_member _ _ _ _ _ HB Hin) as (Hl & Ha & Hb & [c Hc]).
  pose proof (pow2_pos l Hl). subst a. rewrite Z.div_mul by lia. repeat split; try lia; try nia.
Qed.

(* nodes of the tree folded from authenticated blocks are authenticated under the larger head *)
Lemma reauth_up RB nB bs hs RC NC :
  Blocks 0 nB bs -> 0 < nB -> length hs = length bs -> fold_hashes node_hash hs = Some RB ->
  blocks_auth RC NC bs hs ->
  forall l o x, NodeAt RB nB l o x -> NodeAt RC NC l o x \/ coll.
Proof.
  intros HB Hn Hlen Hf Hauth l o x (Hl & Ho & Hx).
  pose proof (pow2_pos l Hl) as Hp.
  destruct (node_in_bounds node_hash _ _ _ _ _ _ Hx Hl) as [B1 B2].
  destruct (Blocks_cover _ _ _ l o HB Hl B1 B2) as (lv & b & Hin & Hlv & C1 & C2).
  destruct (block_coord _ _ _ _ _ HB Hin ltac:(lia)) as (Hlv0 & Hc0 & Hb & _ & _).
  pose proof (Blocks_fold_node_in node_hash 0 nB bs HB hs RB Hn Hlen Hf) as Hfold.
  destruct (Forall2_zip_in _ _ _ _ _ Hfold Hauth Hin) as (h & H1 & (_ & _ & H2)). cbn [fst snd] in *.
  set (c := b / 2 ^ lv) in *.
  destruct (transfer RB nB RC NC lv c h l o x Hl Hlv ltac:(lia) H1 H2 ltac:(lia) ltac:(nia) Hx) as [H|C];
    [left; split; [exact Hl | split; [exact Ho | exact H]] | right; exact C].
Qed.

(* nodes below a block of the prefix, authenticated under the larger head, are nodes of the prefix tree *)
Lemma reauth_down RB nB bs hs RC NC :
  Blocks 0 nB bs -> 0 < nB -> 0 <= NC -> length hs = length bs -> fold_hashes node_hash hs = Some RB ->
  blocks_auth RC NC bs hs ->
  forall l o x, (o + 1) * 2 ^ l <= nB -> NodeAt RC NC l o x -> NodeAt RB nB l o x \/ coll.
Proof.
  intros HB Hn HNC Hlen Hf Hauth l o x B2 (Hl & Ho & Hx).
  pose proof (pow2_pos l Hl) as Hp.
  destruct (Blocks_cover _ _ _ l o HB Hl ltac:(nia) B2) as (lv & b & Hin & Hlv & C1 & C2).
  destruct (block_coord _ _ _ _ _ HB Hin ltac:(lia)) as (Hlv0 & Hc0 & Hb & _ & _).
  pose proof (Blocks_fold_node_in node_hash 0 nB bs HB hs RB Hn Hlen Hf) as Hfold.
  destruct (Forall2_zip_in _ _ _ _ _ Hfold Hauth Hin) as (h & H1 & (_ & _ & H2)). cbn [fst snd] in *.
  set (c := b / 2 ^ lv) in *.
  destruct (transfer RC NC RB nB lv c h l o x Hl Hlv HNC H2 H1 ltac:(lia) ltac:(nia) Hx) as [H|C];
    [left; split; [exact Hl | split; [exact Ho | exact H]] | right; exact C].
Qed.

(* the root is determined by the hashes of the blocks *)
Lemma root_unique lo hi bs :
  Blocks lo hi bs -> forall hs R R', lo < hi -> 0 <= lo ->
  Forall2 (fun b h => node_in R lo hi (fst b) (snd b / 2 ^ fst b) h) bs hs ->
  fold_hashes node_hash hs = Some R' -> R = R' \/ coll.
Proof.
  induction 1 as [lo|lo hi level rest Hl H1 H2 Hd HB IH]; intros hs R R' Hlt Hlo HF Hf; [lia|].
  pose proof (pow2_pos level Hl) as Hp.
  inversion HF as [|b0 h1 rest0 hs' Hh1 HF']; subst. cbn [fst snd] in Hh1.
  destruct Hd as [c Hc]. assert (Hdiv : lo / 2 ^ level = c) by (subst lo; apply Z.div_mul; lia).
  rewrite Hdiv in Hh1.
  destruct rest as [|b rest].
  - apply Blocks_nil_inv in HB. inversion HF'; subst. cbn in Hf. injection Hf as <-.
    left. symmetry. eapply node_in_whole; eauto; lia.
  - assert (Hlt' : lo + 2 ^ level < hi).
    { inversion HB; subst. pose proof (pow2_pos level0 ltac:(assumption)). lia. }
    destruct hs' as [|h2 hs'']; [inversion HF'|].
    rewrite fold_hashes_cons2 in Hf.
    destruct (fold_hashes node_hash (h2 :: hs'')) as [R''|] eqn:Ef; [|discriminate].
    cbn [option_map] in Hf. injection Hf as <-.
    assert (Hsp : split_point (hi - lo) = 2 ^ level) by (apply split_point_unique; lia).
    (* the first block is the left child of the root *)
    assert (HR : exists b0, R = node_hash h1 b0).
    { inversion Hh1 as [R0 lo0 hi0 l0 o0 Hlo' Hhi' | R0 lo0 hi0 l0 o0 x0 a' b' H2' HR' Hle' Hn' | R0 lo0 hi0 l0 o0 x0 a' b' H2' HR' Hle' Hn']; subst.
      - lia.
      - rewrite Hsp in Hn'. exists b'. f_equal. symmetry. eapply (node_in_whole _ _ _ _ _ _ Hn'); lia.
      - lia. }
    destruct HR as (b0 & ->).
    (* the other blocks hang below the right child *)
    assert (Hrest : Forall2 (fun b h => node_in b0 (lo + 2 ^ level) hi (fst b) (snd b / 2 ^ fst b) h) (b :: rest) (h2 :: hs'') \/ coll).
    { apply Forall2_or_out. revert HF'. apply Forall2_impl_in. intros [l a] h Hin Hn. cbn [fst snd] in *.
      destruct (block_coord _ _ _ _ _ HB Hin ltac:(lia)) as (Hl0 & Ho0 & Ha & Hge & Hle).
      pose proof (pow2_pos l Hl0).
      inversion Hn as [R0 lo0 hi0 l0 o0 Hlo' Hhi' | R0 lo0 hi0 l0 o0 x0 a' b' H2' HR' Hle' Hn' | R0 lo0 hi0 l0 o0 x0 a' b' H2' HR' Hle' Hn']; subst.
      - lia.
      - rewrite Hsp in Hle'. lia.
      - destruct (node_hash_inj _ _ _ _ HR') as [[_ <-]|C]; [|right; exact C].
        left. rewrite Hsp in Hn'. exact Hn'. }
    destruct Hrest as [Hrest|C]; [|right; exact C].
    destruct (IH _ _ _ Hlt' ltac:(lia) Hrest Ef) as [->|C]; [left; reflexivity | right; exact C].
Qed.

(* ---- Consistent in terms of blocks -------------------------------------------------------------- *)

Notation hash_of_prefix := (hash_of_prefix node_hash NodeAt).
Notation Consistent := (Consistent node_hash NodeAt).

Lemma block_index l a n :
  0 <= l -> 0 <= a -> (2 ^ l | a) -> a + 2 ^ l <= n -> n <= 2 ^ 62 ->
  split_stored_hash_index (stored_hash_index l (Z.shiftr a l)) = Index.Ok (l, a / 2 ^ l).
Proof.
  intros Hl Ha [c Hc] Hb Hn. pose proof (pow2_pos l Hl) as Hp.
  assert (Hc0 : 0 <= c) by nia.
  rewrite Z.shiftr_div_pow2 by lia. subst a. rewrite Z.div_mul by lia.
  apply split_index; try lia.
  pose proof (index_lt_count l c (2 ^ 62) Hl Hc0 ltac:(nia)).
  pose proof (first_index_le_double (2 ^ 62) ltac:(lia)). lia.
Qed.

Lemma Forall2_map_l {A B C} (f : A -> B) (P : B -> C -> Prop) l l' :
  Forall2 P (map f l) l' <-> Forall2 (fun a c => P (f a) c) l l'.
Proof.
  split.
  - revert l'. induction l as [|a l IH]; intros l' H; inversion H; subst; constructor; auto.
  - induction 1; cbn; constructor; auto.
Qed.

Lemma Forall2_len {A B} (P : A -> B -> Prop) l l' : Forall2 P l l' -> length l' = length l.
Proof. induction 1; cbn; congruence. Qed.

Lemma tree_hash_blocks n bs hs :
  n <> 0 -> sub_tree_split (range_fuel (n - 0)) 0 n = Index.Ok bs -> length hs = length bs ->
  tree_hash node_hash n (fun _ => Some hs) =
  match fold_hashes node_hash hs with Some h => Index.Ok h | None => Index.Panic end.
Proof.
  intros Hn Es Hlen. unfold tree_hash. destruct (Z.eqb_spec n 0); [contradiction|].
  unfold sub_tree_index. rewrite Es. cbn [bind app].
  unfold read_hashes. unfold sub_tree_indexes. rewrite map_length, Hlen, Nat.eqb_refl. cbn [bind].
  unfold sub_tree_hash. rewrite Es. cbn [bind]. rewrite Hlen.
  destruct (Nat.ltb_spec (length bs) (length bs)); [lia|].
  rewrite <- Hlen, firstn_all, skipn_all.
  destruct (fold_hashes node_hash hs); reflexivity.
Qed.

Lemma prefix_iff_blocks newer n h bs :
  0 < n <= 2 ^ 62 -> sub_tree_split (range_fuel (n - 0)) 0 n = Index.Ok bs -> Blocks 0 n bs ->
  (hash_of_prefix newer n h <->
   exists hs, length hs = length bs /\ fold_hashes node_hash hs = Some h /\
              blocks_auth (Codec.tH newer) (Codec.tN newer) bs hs).
Proof.
  intros Hn Es HB.
  assert (Hconv : forall hs,
    Forall2 (node_auth NodeAt (Codec.tH newer) (Codec.tN newer)) (sub_tree_indexes bs) hs <->
    blocks_auth (Codec.tH newer) (Codec.tN newer) bs hs).
  { intros hs. unfold sub_tree_indexes, blocks_auth. rewrite Forall2_map_l. split.
    - apply Forall2_impl_in. intros [l a] x Hin (l' & o' & Hs & Hnode). cbn [fst snd] in *.
      destruct (Blocks_member _ _ _ _ _ HB Hin) as (Hl & Ha & Hb & Hd).
      rewrite (block_index l a n) in Hs by (try assumption; lia). injection Hs as <- <-. exact Hnode.
    - apply Forall2_impl_in. intros [l a] x Hin Hnode. cbn [fst snd] in *.
      destruct (Blocks_member _ _ _ _ _ HB Hin) as (Hl & Ha & Hb & Hd).
      exists l, (a / 2 ^ l). split; [|exact Hnode]. apply (block_index l a n); try assumption; lia. }
  split.
  - intros [[? _]|(ix & hs & Hix & Hauth & Hth)]; [lia|].
    unfold sub_tree_index in Hix. rewrite Es in Hix. cbn [bind app] in Hix. injection Hix as <-.
    assert (Hlen : length hs = length bs).
    { rewrite (Forall2_len _ _ _ Hauth). unfold sub_tree_indexes. apply map_length. }
    rewrite (tree_hash_blocks n bs hs) in Hth by (try assumption; lia).
    exists hs. split; [exact Hlen|]. split; [|apply Hconv; exact Hauth].
    destruct (fold_hashes node_hash hs); [injection Hth as ->; reflexivity | discriminate].
  - intros (hs & Hlen & Hf & Hauth). right. exists (sub_tree_indexes bs), hs.
    split; [unfold sub_tree_index; rewrite Es; reflexivity|].
    split; [apply Hconv; exact Hauth|].
    rewrite (tree_hash_blocks n bs hs) by (try assumption; lia). rewrite Hf. reflexivity.
Qed.

(* a prefix of a non-positive size is the empty prefix *)
Lemma prefix_nonpos newer n h : hash_of_prefix newer n h -> n <= 0 -> n = 0 /\ h = empty_hash.
Proof.
  intros [[-> ->]|(ix & hs & Hix & Hauth & Hth)] Hn; [auto|].
  unfold tree_hash in Hth. destruct (Z.eqb_spec n 0) as [->|Hne]; [injection Hth as <-; auto|].
  exfalso. unfold sub_tree_index in Hix, Hth.
  assert (Es : sub_tree_split (range_fuel (n - 0)) 0 n = Index.Ok []).
  { destruct (range_fuel (n - 0)); cbn [sub_tree_split]; destruct (Z.ltb_spec 0 n); try lia; reflexivity. }
  rewrite Es in Hix, Hth. cbn [bind app sub_tree_indexes map] in Hix, Hth. injection Hix as <-.
  inversion Hauth; subst. cbn in Hth. unfold sub_tree_hash in Hth. rewrite Es in Hth. cbn in Hth. discriminate.
Qed.

(* a non-empty prefix is not larger than the head *)
Lemma prefix_le newer n h : hash_of_prefix newer n h -> 0 < n <= 2 ^ 62 -> n <= Codec.tN newer.
Proof.
  intros H Hn.
  destruct (sub_tree_ok 0 n ltac:(lia) ltac:(lia) (aligned_0 n ltac:(lia))) as (bs & Es & HB).
  apply (prefix_iff_blocks newer n h bs Hn Es HB) in H. destruct H as (hs & Hlen & Hf & Hauth).
  (* the last block ends at n *)
  clear Es Hf Hlen.
  assert (G : forall lo, Blocks lo n bs -> 0 <= lo < n -> forall hs,
    Forall2 (fun b x => NodeAt (Codec.tH newer) (Codec.tN newer) (fst b) (snd b / 2 ^ fst b) x) bs hs ->
    n <= Codec.tN newer).
  { clear HB Hauth hs. intros lo HB. induction HB as [lo|lo hi level rest Hl H1 H2 Hd HB IH]; intros Hlo hs HF; [lia|].
    inversion HF as [|b0 x rest0 hs' Hx HF']; subst. cbn [fst snd] in Hx.
    pose proof (pow2_pos level Hl) as Hp.
    destruct rest as [|b rest].
    - apply Blocks_nil_inv in HB. destruct Hx as (_ & _ & Hx).
      destruct (node_in_bounds node_hash _ _ _ _ _ _ Hx Hl) as [_ B2].
      destruct Hd as [c Hc]. subst lo. rewrite Z.div_mul in B2 by lia. lia.
    - apply (IH Hn ltac:(inversion HB; subst; pose proof (pow2_pos level0 ltac:(assumption)); lia) hs' HF'). }
  eapply (G 0); eauto. lia.
Qed.

(* ---- the order theorems ---------------------------------------------------------------------------- *)

Lemma consistent_blocks A B :
  Consistent A B -> 0 < Codec.tN A <= 2 ^ 62 ->
  exists bs hs, Blocks 0 (Codec.tN A) bs /\
    sub_tree_split (range_fuel (Codec.tN A - 0)) 0 (Codec.tN A) = Index.Ok bs /\
    length hs = length bs /\ fold_hashes node_hash hs = Some (Codec.tH A) /\
    blocks_auth (Codec.tH B) (Codec.tN B) bs hs.
Proof.
  intros H Hn.
  destruct (sub_tree_ok 0 (Codec.tN A) ltac:(lia) ltac:(lia) (aligned_0 (Codec.tN A) ltac:(lia))) as (bs & Es & HB).
  apply (prefix_iff_blocks B _ _ bs Hn Es HB) in H. destruct H as (hs & Hlen & Hf & Hauth).
  exists bs, hs. auto.
Qed.

(* transitivity *)
Theorem consistent_trans A B C :
  Consistent A B -> Consistent B C -> Codec.tN A <= 2 ^ 62 -> Codec.tN B <= 2 ^ 62 ->
  Consistent A C \/ coll.
Proof.
  intros HAB HBC HA HB.
  destruct (Z_le_gt_dec (Codec.tN A) 0) as [Hle|Hgt].
  { left. left. eapply prefix_nonpos; eauto. }
  assert (HnA : 0 < Codec.tN A <= 2 ^ 62) by lia.
  pose proof (prefix_le _ _ _ HAB HnA) as HleAB.
  assert (HnB : 0 < Codec.tN B <= 2 ^ 62) by lia.
  destruct (consistent_blocks A B HAB HnA) as (bsA & hsA & BA & EA & LA & FA & AA).
  destruct (consistent_blocks B C HBC HnB) as (bsB & hsB & BB & EB & LB & FB & AB).
  assert (Hup : blocks_auth (Codec.tH C) (Codec.tN C) bsA hsA \/ coll).
  { apply Forall2_or_out. revert AA. apply Forall2_impl_in. intros b x _ Hx.
    eapply reauth_up; eauto. lia. }
  destruct Hup as [Hup|Cc]; [left | right; exact Cc].
  apply (prefix_iff_blocks C _ _ bsA HnA EA BA). exists hsA. auto.
Qed.

(* two prefixes of one head: the smaller is a prefix of the larger *)
Theorem consistent_prefixes A B C :
  Consistent A C -> Consistent B C -> Codec.tN A <= Codec.tN B -> Codec.tN B <= 2 ^ 62 ->
  Consistent A B \/ coll.
Proof.
  intros HAC HBC Hle HB.
  destruct (Z_le_gt_dec (Codec.tN A) 0) as [Hle0|Hgt].
  { left. left. eapply prefix_nonpos; eauto. }
  assert (HnA : 0 < Codec.tN A <= 2 ^ 62) by lia.
  assert (HnB : 0 < Codec.tN B <= 2 ^ 62) by lia.
  pose proof (prefix_le _ _ _ HBC HnB) as HleBC.
  destruct (consistent_blocks A C HAC HnA) as (bsA & hsA & BA & EA & LA & FA & AA).
  destruct (consistent_blocks B C HBC HnB) as (bsB & hsB & BB & EB & LB & FB & AB).
  assert (Hdown : blocks_auth (Codec.tH B) (Codec.tN B) bsA hsA \/ coll).
  { apply Forall2_or_out. revert AA. apply Forall2_impl_in. intros [l a] x Hin Hx. cbn [fst snd] in *.
    destruct (block_coord _ _ _ _ _ BA Hin ltac:(lia)) as (Hl & Ho & Ha & _ & Hhi).
    eapply (reauth_down (Codec.tH B) (Codec.tN B) bsB hsB (Codec.tH C) (Codec.tN C)); eauto; try lia;
      try (pose proof (pow2_pos l Hl); nia). }
  destruct Hdown as [Hdown|Cc]; [left | right; exact Cc].
  apply (prefix_iff_blocks B _ _ bsA HnA EA BA). exists hsA. auto.
Qed.

(* equal sizes: equal hashes *)
Theorem consistent_same_size A B :
  Consistent A B -> Codec.tN A = Codec.tN B -> 0 < Codec.tN A <= 2 ^ 62 ->
  Codec.tH A = Codec.tH B \/ coll.
Proof.
  intros HAB Heq HnA.
  destruct (consistent_blocks A B HAB HnA) as (bsA & hsA & BA & EA & LA & FA & AA).
  assert (HF : Forall2 (fun b h => node_in (Codec.tH B) 0 (Codec.tN A) (fst b) (snd b / 2 ^ fst b) h) bsA hsA).
  { revert AA. apply Forall2_impl_in. intros b x _ (_ & _ & Hx). rewrite Heq. exact Hx. }
  destruct (root_unique 0 (Codec.tN A) bsA BA hsA _ _ ltac:(lia) ltac:(lia) HF FA) as [E|Cc];
    [left; symmetry; exact E | right; exact Cc].
Qed.

(* ---- the order on heads ------------------------------------------------------------------------------ *)

(* A is B or a strictly smaller prefix of B *)
Definition Before (A B : tree) : Prop :=
  A = B \/ (Codec.tN A < Codec.tN B /\ Consistent A B).

Definition Comparable (A B : tree) : Prop := Before A B \/ Before B A.

Lemma before_refl A : Before A A.
Proof. left. reflexivity. Qed.

Lemma before_le A B : Before A B -> Codec.tN A <= Codec.tN B.
Proof. intros [->|[H _]]; lia. Qed.

Theorem before_trans A B C :
  Before A B -> Before B C -> Codec.tN C <= 2 ^ 62 -> Before A C \/ coll.
Proof.
  intros [->|[H1 C1]] [->|[H2 C2]] HC.
  - left. left. reflexivity.
  - left. right. auto.
  - left. right. auto.
  - destruct (consistent_trans A B C C1 C2 ltac:(lia) ltac:(lia)) as [H|Cc]; [left | right; exact Cc].
    right. split; [lia | exact H].
Qed.

Lemma tree_ext (A B : tree) : Codec.tN A = Codec.tN B -> Codec.tH A = Codec.tH B -> A = B.
Proof. destruct A, B; cbn; intros -> ->; reflexivity. Qed.

(* two heads before a common head are comparable *)
Theorem before_comparable A B C :
  Before A C -> Before B C -> Codec.tN C <= 2 ^ 62 -> Comparable A B \/ coll.
Proof.
  intros [->|[H1 C1]] HB HC; [left; right; exact HB|].
  destruct HB as [->|[H2 C2]]; [left; left; right; auto|].
  assert (G : forall X Y, Codec.tN X < Codec.tN C -> Consistent X C -> Codec.tN Y < Codec.tN C -> Consistent Y C ->
                          Codec.tN X <= Codec.tN Y -> Before X Y \/ coll).
  { intros X Y HX CX HY CY Hle.
    destruct (consistent_prefixes X Y C CX CY Hle ltac:(lia)) as [CXY|Cc]; [|right; exact Cc].
    destruct (Z.eq_dec (Codec.tN X) (Codec.tN Y)) as [E|NE]; [|left; right; split; [lia | exact CXY]].
    destruct (Z_le_gt_dec (Codec.tN X) 0) as [Hle0|Hgt].
    - destruct (prefix_nonpos _ _ _ CX Hle0) as [X0 XH].
      destruct (prefix_nonpos _ _ _ CY ltac:(lia)) as [Y0 YH].
      left. left. apply tree_ext; congruence.
    - destruct (consistent_same_size X Y CXY E ltac:(lia)) as [EH|Cc]; [|right; exact Cc].
      left. left. apply tree_ext; assumption. }
  destruct (Z_le_gt_dec (Codec.tN A) (Codec.tN B)) as [Hle|Hgt].
  - destruct (G A B H1 C1 H2 C2 Hle) as [H|Cc]; [left; left; exact H | right; exact Cc].
  - destruct (G B A H2 C2 H1 C1 ltac:(lia)) as [H|Cc]; [left; right; exact H | right; exact Cc].
Qed.

(* the hash of a prefix under a head is determined, up to a collision *)
Lemma Forall2_fun_or {A B} (P : A -> B -> Prop) (C : Prop) l l1 l2 :
  (forall a x y, In a l -> P a x -> P a y -> x = y \/ C) ->
  Forall2 P l l1 -> Forall2 P l l2 -> l1 = l2 \/ C.
Proof.
  intros Hf H1. revert l2. induction H1 as [|a x l l1 Hax H1 IH]; intros l2 H2.
  - inversion H2; subst. left. reflexivity.
  - inversion H2 as [|a' y l' l2' Hay H2']; subst.
    destruct (Hf a x y (or_introl eq_refl) Hax Hay) as [->|Cc]; [|right; exact Cc].
    destruct (IH (fun a0 x0 y0 Hin => Hf a0 x0 y0 (or_intror Hin)) _ H2') as [->|Cc]; [left; reflexivity | right; exact Cc].
Qed.

Theorem prefix_hash_unique newer n h h' :
  hash_of_prefix newer n h -> hash_of_prefix newer n h' -> 0 < n <= 2 ^ 62 -> h = h' \/ coll.
Proof.
  intros H1 H2 Hn.
  destruct (sub_tree_ok 0 n ltac:(lia) ltac:(lia) (aligned_0 n ltac:(lia))) as (bs & Es & HB).
  apply (prefix_iff_blocks newer n h bs Hn Es HB) in H1. destruct H1 as (hs1 & L1 & F1 & A1).
  apply (prefix_iff_blocks newer n h' bs Hn Es HB) in H2. destruct H2 as (hs2 & L2 & F2 & A2).
  assert (E : hs1 = hs2 \/ coll).
  { eapply Forall2_fun_or; [|exact A1 | exact A2].
    intros [l a] x y Hin (Hl & _ & Hx) (_ & _ & Hy). cbn [fst snd] in *.
    eapply node_in_fun; eauto. }
  destruct E as [->|Cc]; [left; congruence | right; exact Cc].
Qed.

End Order.
