(* Client/SeqProofsInst.v — the safety theorems of the sequential client model with the C10
   predicates instantiated: NodeAt and tile_ok are Tlog/TileSpec.v's (existence of a Merkle path
   from the node to the signed root), their soundness is Tlog/TileProofsSound.v's
   read_hashes_sound and read_hashes_saved_only_authenticated.  What remains a hypothesis of the
   theorems below is stated in their premises:
     * the domain guard: trees that open under the configured verifiers have fewer than 2^62 records.
   The explicit Merkle path uses Tlog/TileProofsPath6962.v's nodeat_record_path. *)
From Verif.Base Require Import Bytes.
From Verif.Tlog Require Import Index Tree Codec Tile TileReader TileSpec TileProofsSound TileProofsPath6962.
From Verif.Note Require Import Note.
From Verif.Client Require Import Seq SeqProofsTile SeqProofsSafe SeqProofsTop.

Section Inst.
Variable sha : str -> str.
Variable leaf_hash : str -> hash.
Variable node_hash : hash -> hash -> hash.
Variable V : str -> str -> str -> bool.
Variable esc_path esc_vers : str -> option str.
Variable skip : str -> bool.

Lemma c10_tiles_sound : forall N R h ix rt hs ts ds,
  1 <= h <= 30 -> 0 <= N < 2 ^ 62 ->
  tile_read_hashes node_hash (N, R) h ix rt = (TOk hs, Some (ts, ds)) ->
  Forall2 (node_auth (NodeAt node_hash) R N) ix hs /\ Forall2 (tile_ok node_hash R N) ts ds.
Proof.
  intros N R h ix rt hs ts ds _ HN H. eapply read_hashes_sound in H; [exact H | lia].
Qed.

Lemma c10_saved_authenticated : forall N R h ix rt r ts ds,
  1 <= h <= 30 -> 0 <= N < 2 ^ 62 ->
  tile_read_hashes node_hash (N, R) h ix rt = (r, Some (ts, ds)) -> Forall2 (tile_ok node_hash R N) ts ds.
Proof.
  intros N R h ix rt r ts ds _ HN H. eapply read_hashes_saved_only_authenticated in H; [exact H | lia].
Qed.

Definition lookup_spec_c10 :=
  lookup_spec sha leaf_hash node_hash V esc_path esc_vers skip (NodeAt node_hash) (tile_ok node_hash)
              c10_tiles_sound c10_saved_authenticated.
Definition lookup_safe_c10 :=
  lookup_safe sha leaf_hash node_hash V esc_path esc_vers skip (NodeAt node_hash) (tile_ok node_hash)
              c10_tiles_sound c10_saved_authenticated.
Lemma c10_nodeat_record_path : forall R N id x,
  0 <= id < N -> N < 2 ^ 62 -> NodeAt node_hash R N 0 id x ->
  exists p, check_record node_hash p N R id x = Index.Ok tt.
Proof. intros R N id x Hid HN H. eapply nodeat_record_path; eauto. lia. Qed.

Definition lookup_safe_path_c10 vs name Hsmall :=
  lookup_safe_path sha leaf_hash node_hash V esc_path esc_vers skip (NodeAt node_hash) (tile_ok node_hash)
              c10_tiles_sound c10_saved_authenticated vs name Hsmall c10_nodeat_record_path.
Definition run_safe_c10 :=
  run_safe sha leaf_hash node_hash V esc_path esc_vers skip (NodeAt node_hash) (tile_ok node_hash)
              c10_tiles_sound c10_saved_authenticated.
Definition writes_authenticated_c10 :=
  writes_authenticated sha leaf_hash node_hash V esc_path esc_vers skip (NodeAt node_hash) (tile_ok node_hash)
              c10_tiles_sound c10_saved_authenticated.
Definition config_monotone_chain_c10 :=
  config_monotone_chain sha leaf_hash node_hash V esc_path esc_vers skip (NodeAt node_hash) (tile_ok node_hash)
              c10_tiles_sound c10_saved_authenticated.
Definition security_report_shape_c10 :=
  security_report_shape sha leaf_hash node_hash V esc_path esc_vers skip (NodeAt node_hash) (tile_ok node_hash)
              c10_tiles_sound c10_saved_authenticated.
Definition security_error_reported_c10 :=
  security_error_reported sha leaf_hash node_hash V esc_path esc_vers skip (NodeAt node_hash) (tile_ok node_hash)
              c10_tiles_sound c10_saved_authenticated.
Definition fork_never_accepted_c10 :=
  fork_never_accepted_merge sha leaf_hash node_hash V esc_path esc_vers skip (NodeAt node_hash) (tile_ok node_hash)
              c10_tiles_sound c10_saved_authenticated.
End Inst.

