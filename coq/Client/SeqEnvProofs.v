(* Client/SeqEnvProofs.v — the interference-closed model Client/SeqEnv.v:
     1. with an environment that does nothing it IS the sequential model (…_nil lemmas);
     2. under any environment that installs only heads signed under the configured key that extend
        the current head (env_ok — what another mergeLatestMem can install), and any foreign writer
        of the configuration (w_interf, arbitrary bytes):
        (a) the client invariant CInv is kept and every WriteConfig writes a signed head over a
            head that is empty or a signed, strictly smaller prefix of it (or a collision of the
            node hash is explicit)                                merge_latest_env_spec;
        (b) a head is installed only if it is Consistent with the head current AT INSTALL TIME
                                                                  mem_env_installs_consistent,
            fork_never_installed_env;
        (c) a security error comes with a Security event whose text contains the offending note
            and the note of the head held at detection time — which is still the client's head
            when the call returns                                  sec_report, …_spec.
   NodeAt / tile_ok are the C10 predicates of Tlog/TileSpec.v. *)
From Verif.Base Require Import Bytes.
From Verif.Tlog Require Import Index Tree Codec Tile TileReader TileSpec.
From Verif.Note Require Import Note.
From Verif.Client Require Import Seq SeqProofs SeqProofsTile SeqProofsSafe SeqProofsInst SeqProofsOrder SeqEnv.

(* ---- frames that hold whatever the world answers ---------------------------------------------- *)

Section Frames.
Variable node_hash : hash -> hash -> hash.

Lemma tile_read_hashes_st_frame tr ix s r s' :
  tile_read_hashes_st node_hash tr ix s = (r, s') -> tframe s s'.
Proof.
  intros H. unfold tile_read_hashes_st in H.
  minv H. unfold get_client in E. inversion E; subst a s0; clear E.
  destruct (_ || _); [apply ret_inv in H as [_ ->]; apply tframe_refl|].
  destruct (make_plan (Codec.tN tr) (c_height (s_c s)) ix) as [p|e|];
    try (apply ret_inv in H as [_ ->]; apply tframe_refl).
  minv H. apply read_tiles_spec in E. destruct E as [F _].
  destruct a as [data|]; [|apply ret_inv in H as [_ ->]; exact F].
  destruct (snd (check_and_extract node_hash (Codec.tN tr, Codec.tH tr) p ix data)) as [[ts ds]|].
  - minv H. apply save_tiles_spec in E as [F' _]. apply ret_inv in H as [_ ->].
    eapply tframe_trans; eauto.
  - apply ret_inv in H as [_ ->]. exact F.
Qed.

Lemma tree_hash_st_frame newer n s r s' : tree_hash_st node_hash newer n s = (r, s') -> tframe s s'.
Proof.
  intros H. unfold tree_hash_st in H.
  destruct (n =? 0); [apply ret_inv in H as [_ ->]; apply tframe_refl|].
  destruct (sub_tree_index 0 n []) as [ix|k|]; try (apply ret_inv in H as [_ ->]; apply tframe_refl).
  minv H. apply tile_read_hashes_st_frame in E. destruct a; apply ret_inv in H as [_ ->]; exact E.
Qed.

Lemma prove_tree_st_frame newer t n s r s' : prove_tree_st node_hash newer t n s = (r, s') -> tframe s s'.
Proof.
  intros H. unfold prove_tree_st in H.
  destruct (_ || _); [apply ret_inv in H as [_ ->]; apply tframe_refl|].
  destruct (tree_proof_index (range_fuel t) 0 t n []) as [ix|k|];
    try (apply ret_inv in H as [_ ->]; apply tframe_refl).
  destruct ix as [|i ix]; [apply ret_inv in H as [_ ->]; apply tframe_refl|].
  minv H. apply tile_read_hashes_st_frame in E. destruct a; apply ret_inv in H as [_ ->]; exact E.
Qed.

Lemma check_trees_frame older on newer nn s r s' :
  check_trees node_hash older on newer nn s = (r, s') -> tframe s s'.
Proof.
  intros H. unfold check_trees in H. minv H. apply tree_hash_st_frame in E.
  destruct a as [h|e|]; try (apply ret_inv in H as [_ ->]; exact E).
  destruct (str_eqb h (Codec.tH older)); [apply ret_inv in H as [_ ->]; exact E|].
  minv H. apply prove_tree_st_frame in E0. minv H.
  unfold emit in E1. inversion E1; subst; clear E1. apply ret_inv in H as [_ ->].
  eapply tframe_trans; [exact E|]. eapply tframe_trans; [exact E0|]. constructor; reflexivity.
Qed.

End Frames.

Lemma tree_eqb_refl t : tree_eqb t t = true.
Proof. unfold tree_eqb. rewrite Z.eqb_refl, str_eqb_refl. reflexivity. Qed.

Lemma tree_eqb_eq a b : tree_eqb a b = true -> a = b.
Proof.
  unfold tree_eqb. intros H. apply andb_true_iff in H as [H1 H2].
  apply Z.eqb_eq in H1. apply str_eqb_eq in H2. destruct a, b; cbn in *; congruence.
Qed.

(* ---- 1. an environment that does nothing ------------------------------------------------------- *)

Section Nil.
Variable node_hash : hash -> hash -> hash.
Variable V : str -> str -> str -> bool.

Lemma bindM_ret {A B} (a : A) (k : A -> M B) s : bindM (ret a) k s = k a s.
Proof. reflexivity. Qed.

Lemma bind_get_client {B} (k : client -> M B) s : bindM get_client k s = k (s_c s) s.
Proof. reflexivity. Qed.

Lemma bind_get_world {B} (k : world -> M B) s : bindM get_world k s = k (s_w s) s.
Proof. reflexivity. Qed.

Lemma bindM_eq {A B} (m : M A) (k : A -> M B) s : bindM m k s = (let (a, s1) := m s in k a s1).
Proof. reflexivity. Qed.

Theorem merge_latest_mem_env_nil msg s :
  merge_latest_mem_env node_hash V msg [] s =
  (let (r, s') := merge_latest_mem node_hash V msg s in ((r, []), s')).
Proof.
  unfold merge_latest_mem_env, merge_latest_mem. rewrite !bind_get_client.
  destruct msg as [|b m]; [reflexivity|].
  destruct (Note.open str V (b :: m) (c_verifiers (s_c s))) as [n|e]; [|reflexivity].
  destruct (parse_tree (n_text n)) as [tr|k|]; try reflexivity.
  cbn [length mem_loop_env].
  destruct (Codec.tN tr <=? Codec.tN (c_latest (s_c s))).
  - rewrite !bindM_eq.
    destruct (check_trees node_hash tr (b :: m) (c_latest (s_c s)) (c_latest_msg (s_c s)) s) as [[err|] s1];
      reflexivity.
  - rewrite !bindM_eq.
    destruct (check_trees node_hash (c_latest (s_c s)) (c_latest_msg (s_c s)) tr (b :: m) s) as [[err|] s1] eqn:E;
      [reflexivity|].
    apply check_trees_frame in E. cbn [env_point]. rewrite bindM_ret, bind_get_client.
    rewrite (tf_latest _ _ E), tree_eqb_refl. reflexivity.
Qed.

Theorem merge_loop_env_nil fuel : forall s,
  merge_loop_env node_hash V fuel [] s =
  (let (r, s') := merge_loop node_hash V fuel s in ((r, []), s')).
Proof.
  induction fuel as [|f IH]; intros s; [reflexivity|].
  cbn [merge_loop_env merge_loop env_point]. rewrite bindM_ret, !bind_get_client, !bindM_eq.
  destruct (read_config (latest_file (c_name (s_c s))) s) as [[msg|] s1]; [|reflexivity].
  rewrite !bindM_eq, merge_latest_mem_env_nil.
  destruct (merge_latest_mem node_hash V msg s1) as [[w|e] s2]; [|reflexivity].
  destruct w; try reflexivity.
  cbn [env_point]. rewrite bindM_ret, !bind_get_client, !bindM_eq.
  destruct (write_config (latest_file (c_name (s_c s2))) msg (c_latest_msg (s_c s2)) s2) as [[|] s3];
    [reflexivity | apply IH].
Qed.

Theorem merge_latest_env_nil msg s :
  merge_latest_env node_hash V msg [] s =
  (let (r, s') := merge_latest node_hash V msg s in ((r, []), s')).
Proof.
  unfold merge_latest_env, merge_latest. rewrite !bindM_eq, merge_latest_mem_env_nil.
  destruct (merge_latest_mem node_hash V msg s) as [[w|e] s1]; [|reflexivity].
  destruct w; try reflexivity.
  rewrite !bind_get_world. apply merge_loop_env_nil.
Qed.

End Nil.

(* ---- 2. any well-behaved environment ------------------------------------------------------------- *)

Section Env.
Variable sha : str -> str.
Variable leaf_hash : str -> hash.
Variable node_hash : hash -> hash -> hash.
Variable V : str -> str -> str -> bool.
Variable esc_path esc_vers : str -> option str.
Variable skip : str -> bool.
Variable vs : verifiers str.
Variable name : str.
Hypothesis signed_small : forall msg t, signed_tree V vs msg t -> Codec.tN t < 2 ^ 62.

Notation NodeAt := (TileSpec.NodeAt node_hash).
Notation tile_ok := (TileSpec.tile_ok node_hash).
Notation CInv := (CInv leaf_hash V NodeAt vs name).
Notation Consistent := (Consistent node_hash NodeAt).
Notation coll := (coll node_hash).
Notation signed_tree := (signed_tree V vs).
Notation head_ok := (head_ok V vs).
Notation note_ok := (note_ok V vs).
Notation merged := (merged node_hash V NodeAt vs).
Notation on_timeline := (on_timeline node_hash NodeAt).
Notation ev_safe := (ev_safe leaf_hash node_hash V NodeAt tile_ok vs name).
Notation ev_nocfg := (ev_nocfg leaf_hash node_hash V NodeAt tile_ok vs name).
Notation ev_quiet := (ev_quiet leaf_hash node_hash V NodeAt tile_ok vs name).
Notation config_write_ok := (config_write_ok node_hash V NodeAt vs).

Let ct_spec := check_trees_spec sha leaf_hash node_hash V esc_path esc_vers skip NodeAt tile_ok
                  (c10_tiles_sound node_hash) (c10_saved_authenticated node_hash) vs name.
Let rc_spec := read_config_spec leaf_hash node_hash V NodeAt tile_ok vs name.
Let tf_cinv := tframe_cinv leaf_hash V NodeAt vs name.

(* what the environment may install: a head signed under the configured key that strictly extends
   the current one — what another mergeLatestMem of the same client installs *)
Definition envf_ok (f : envf) : Prop :=
  forall L Lm t m, f L Lm = Some (t, m) ->
    signed_tree m t /\ Codec.tN L < Codec.tN t /\ Consistent L t.

Definition env_ok (e : env) : Prop := Forall envf_ok e.

(* the heads c.latest goes through by environment turns *)
Inductive chain (L : tree) : tree -> Prop :=
| chain_refl : chain L L
| chain_step L1 L2 : chain L L1 -> Codec.tN L1 < Codec.tN L2 -> Consistent L1 L2 -> chain L L2.

Lemma chain_trans L1 L2 L3 : chain L1 L2 -> chain L2 L3 -> chain L1 L3.
Proof. intros H12 H23. induction H23; [exact H12 | eapply chain_step; eauto]. Qed.

Lemma chain_le L1 L2 : chain L1 L2 -> Codec.tN L1 <= Codec.tN L2.
Proof. induction 1; lia. Qed.

(* up to a collision a chain is one Consistent step *)
Lemma chain_consistent L1 L2 :
  chain L1 L2 -> Codec.tN L2 <= 2 ^ 62 -> L2 = L1 \/ (Codec.tN L1 < Codec.tN L2 /\ Consistent L1 L2) \/ coll.
Proof.
  induction 1 as [|L1' L2 H IH Hlt Hc]; intros Hb; [left; reflexivity|].
  destruct (IH ltac:(lia)) as [->|[[Hlt1 Hc1]|C]].
  - right. left. auto.
  - destruct (consistent_trans node_hash L1 L1' L2 Hc1 Hc ltac:(lia) ltac:(lia)) as [Hc2|C]; [|right; right; exact C].
    right. left. split; [lia | exact Hc2].
  - right. right. exact C.
Qed.

(* everything but the head and the trace is as before *)
Record eframe (s s' : state) : Prop := mkEframe {
  ef_w : s_w s' = s_w s;
  ef_tr : s_tr s' = s_tr s;
  ef_init : c_init (s_c s') = c_init (s_c s);
  ef_name : c_name (s_c s') = c_name (s_c s);
  ef_vs : c_verifiers (s_c s') = c_verifiers (s_c s);
  ef_records : c_records (s_c s') = c_records (s_c s);
  ef_height : c_height (s_c s') = c_height (s_c s)
}.

Lemma eframe_mframe s s' : eframe s s' -> mframe s s'.
Proof. intros []. constructor; auto; rewrite ef_w0; reflexivity. Qed.

Lemma eframe_same_config s s' : eframe s s' -> same_config s s'.
Proof. intros []. split; rewrite ef_w0; reflexivity. Qed.

Lemma env_point_spec e s e' s' :
  env_ok e -> CInv (s_c s) -> env_point e s = (e', s') ->
  CInv (s_c s') /\ env_ok e' /\ eframe s s' /\ e' = List.tl e /\
  ((c_latest (s_c s') = c_latest (s_c s) /\ c_latest_msg (s_c s') = c_latest_msg (s_c s)) \/
   (e <> [] /\ signed_tree (c_latest_msg (s_c s')) (c_latest (s_c s')) /\
    Codec.tN (c_latest (s_c s)) < Codec.tN (c_latest (s_c s')) /\
    Consistent (c_latest (s_c s)) (c_latest (s_c s')))).
Proof.
  intros He HI H. destruct e as [|f rest]; cbn [env_point] in H.
  - apply ret_inv in H as [-> ->]. split; [exact HI|]. split; [constructor|].
    split; [constructor; reflexivity|]. split; [reflexivity|]. left. auto.
  - inversion He as [|f0 r0 Hf Hrest]; subst.
    rewrite bind_get_client in H.
    destruct (f (c_latest (s_c s)) (c_latest_msg (s_c s))) as [[t m]|] eqn:Ef.
    + destruct (Hf _ _ _ _ Ef) as (Hs & Hlt & Hc).
      minv H. apply install_inv in E. subst s0. apply ret_inv in H as [-> ->]. cbn [s_c s_w s_tr].
      split; [destruct HI; constructor; cbn; auto; right; exact Hs|].
      split; [exact Hrest|]. split; [constructor; reflexivity|]. split; [reflexivity|].
      right. cbn. split; [discriminate|]. auto.
    + apply ret_inv in H as [-> ->]. split; [exact HI|]. split; [exact Hrest|].
      split; [constructor; reflexivity|]. split; [reflexivity|]. left. auto.
Qed.

(* the state s with (tr, m) installed as its head: what install does *)
Definition install_state (tr : tree) (m : str) (s : state) : state :=
  mkState (s_w s)
          (mkClient (c_init (s_c s)) (c_name (s_c s)) (c_verifiers (s_c s)) tr m
                    (c_records (s_c s)) (c_tiles (s_c s)) (c_tile_saved (s_c s)) (c_height (s_c s)))
          (s_tr s).

(* (c) the security report: a Security event was emitted, and every Security event emitted names the
   offending note and the note of the head the client holds when the call returns *)
Definition sec_report (offending : str) (s s' : state) : Prop :=
  exists evs, s_tr s' = s_tr s ++ evs /\ Exists is_sec evs /\
    forall m, In (EvSecurity m) evs ->
      infix (indent offending) m /\ infix (indent (c_latest_msg (s_c s'))) m.

Lemma sec_report_prefix off s s1 s' :
  textend ev_quiet s s1 -> sec_report off s1 s' -> sec_report off s s'.
Proof.
  intros (e1 & H1 & Q1) (e2 & H2 & Hex & Hall). exists (e1 ++ e2).
  split; [rewrite H2, H1, app_assoc; reflexivity|]. split; [apply Exists_app; right; exact Hex|].
  intros m Hin. apply in_app_or in Hin as [Hin|Hin]; [|auto].
  exfalso. rewrite Forall_forall in Q1. destruct (Q1 _ Hin) as [_ Hns]. apply Hns. exact I.
Qed.

Lemma sec_report_same_tr off s s1 s' :
  s_tr s1 = s_tr s -> sec_report off s1 s' -> sec_report off s s'.
Proof. intros Htr (e2 & H2 & Hex & Hall). exists e2. rewrite <- Htr. auto. Qed.

(* check_trees with a security error: the report names the two notes it was given *)
Lemma check_trees_sec older on newer nn s s' :
  CInv (s_c s) ->
  0 <= Codec.tN older <= Codec.tN newer -> Codec.tN newer < 2 ^ 62 ->
  trusted V vs nn newer -> note_ok on -> note_ok nn ->
  check_trees node_hash older on newer nn s = (Some ESecurity, s') ->
  exists evs, s_tr s' = s_tr s ++ evs /\ Exists is_sec evs /\
    forall m, In (EvSecurity m) evs -> infix (indent on) m /\ infix (indent nn) m.
Proof.
  intros HI Hn HN Htr Hon Hnn H.
  destruct (ct_spec _ _ _ _ _ _ _ HI Hn HN Htr Hon Hnn H) as (_ & (evs & Htr' & Hall) & _ & Hsec & _).
  destruct (Hsec eq_refl) as (evs' & Htr'' & Hex).
  rewrite Htr' in Htr''. apply app_inv_head in Htr''. subst evs'.
  exists evs. split; [exact Htr'|]. split; [exact Hex|].
  intros m Hin. rewrite Forall_forall in Hall. destruct (Hall _ Hin) as [_ Hs].
  destruct (Hs I) as (h & p & [= ->]). apply security_msg_contains.
Qed.

(* ---- mergeLatestMem under interference ------------------------------------------------------------ *)

(* what a call of mergeLatestMem (or of its loop) guarantees; s1 is the state immediately before the
   decision (for MsgFuture: immediately before the install) *)
Definition mem_post (msg : str) (s : state) (r : when + cerr) (e' : env) (s' : state) : Prop :=
  CInv (s_c s') /\ mframe s s' /\ same_config s s' /\ env_ok e' /\ textend ev_nocfg s s' /\
  r <> inr EFuelC /\
  match r with
  | inl w =>
      textend ev_quiet s s' /\
      exists s1, chain (c_latest (s_c s)) (c_latest (s_c s1)) /\
        merged w msg (c_latest (s_c s1)) (c_latest (s_c s')) (c_latest_msg (s_c s')) /\
        (w = MsgFuture -> exists tr, s' = install_state tr msg s1) /\
        (w <> MsgFuture -> s1 = s')
  | inr err =>
      chain (c_latest (s_c s)) (c_latest (s_c s')) /\
      (err = ESecurity -> sec_report msg s s') /\ (err <> ESecurity -> textend ev_quiet s s')
  end.

Lemma textend_same_tr P s s' : s_tr s' = s_tr s -> textend P s s'.
Proof. intros H. exists []. rewrite app_nil_r. auto. Qed.

Lemma mem_loop_env_spec fuel : forall tr msg e s r e' s',
  CInv (s_c s) -> env_ok e -> signed_tree msg tr -> (length e < fuel)%nat ->
  mem_loop_env node_hash fuel tr msg (c_latest (s_c s)) (c_latest_msg (s_c s)) e s = ((r, e'), s') ->
  mem_post msg s r e' s'.
Proof.
  induction fuel as [|f IH]; intros tr msg e s r e' s' HI He Hsig Hfuel H; [inversion Hfuel|].
  cbn [mem_loop_env] in H.
  set (L := c_latest (s_c s)) in *. set (Lm := c_latest_msg (s_c s)) in *.
  assert (Hhead : head_ok Lm L) by apply (ci_head _ _ _ _ _ _ HI).
  assert (Hlat := head_ok_range V vs signed_small _ _ Hhead).
  assert (Hnote : note_ok Lm) by (eapply head_ok_note; exact Hhead).
  assert (Htrust : trusted V vs Lm L) by (destruct Hhead as [[_ H0]|Hs]; [left; exact H0 | right; exact Hs]).
  assert (Htr := signed_range V vs signed_small _ _ Hsig).
  assert (Hnm : note_ok msg) by (right; eauto).
  destruct (Codec.tN tr <=? Codec.tN L) eqn:Hle.
  - apply Z.leb_le in Hle. minv H.
    assert (P1 : 0 <= Codec.tN tr <= Codec.tN L) by lia.
    assert (P2 : Codec.tN L < 2 ^ 62) by lia.
    destruct (ct_spec _ _ _ _ _ _ _ HI P1 P2 Htrust Hnm Hnote E) as (F & T & Hnone & Hsec & Hq).
    assert (Tn : textend ev_nocfg s s0) by (eapply textend_impl; [|exact T]; intros ev []; auto).
    assert (HL0 : c_latest (s_c s0) = L) by apply (tf_latest _ _ F).
    assert (HM0 : c_latest_msg (s_c s0) = Lm) by apply (tf_msg _ _ F).
    destruct a as [err|]; apply ret_inv in H as [[= -> ->] ->].
    + split; [eapply tf_cinv; eauto|]. split; [apply tframe_mframe; exact F|].
      split; [apply tframe_same_config; exact F|]. split; [exact He|]. split; [exact Tn|].
      split; [intros [= ->]; apply check_trees_errs in E; intuition discriminate|].
      split; [rewrite HL0; apply chain_refl|]. split.
      * intros ->. destruct (check_trees_sec _ _ _ _ _ _ HI P1 P2 Htrust Hnm Hnote E) as (evs & Ht & Hex & Hall).
        exists evs. split; [exact Ht|]. split; [exact Hex|]. rewrite HM0. exact Hall.
      * intros Hne. apply Hq. congruence.
    + split; [eapply tf_cinv; eauto|]. split; [apply tframe_mframe; exact F|].
      split; [apply tframe_same_config; exact F|]. split; [exact He|]. split; [exact Tn|].
      split; [discriminate|]. split; [apply Hq; discriminate|].
      exists s0. split; [rewrite HL0; apply chain_refl|]. rewrite HL0.
      split; [|split; [destruct (Codec.tN tr <? Codec.tN L); discriminate | reflexivity]].
      destruct (Codec.tN tr <? Codec.tN L) eqn:Hlt; cbn.
      * apply Z.ltb_lt in Hlt. split; [reflexivity|]. split; [lia|]. right. exists tr. auto.
      * apply Z.ltb_ge in Hlt. split; [reflexivity|]. right. exists tr. split; [exact Hsig|]. split; [lia | auto].
  - apply Z.leb_gt in Hle. minv H.
    assert (P1 : 0 <= Codec.tN L <= Codec.tN tr) by lia.
    assert (P2 : Codec.tN tr < 2 ^ 62) by lia.
    assert (P4 : trusted V vs msg tr) by (right; exact Hsig).
    destruct (ct_spec _ _ _ _ _ _ _ HI P1 P2 P4 Hnote Hnm E) as (F & T & Hnone & Hsec & Hq).
    assert (Tn : textend ev_nocfg s s0) by (eapply textend_impl; [|exact T]; intros ev []; auto).
    assert (HL0 : c_latest (s_c s0) = L) by apply (tf_latest _ _ F).
    assert (HM0 : c_latest_msg (s_c s0) = Lm) by apply (tf_msg _ _ F).
    assert (HI0 := tf_cinv _ _ F HI).
    destruct a as [err|].
    + apply ret_inv in H as [[= -> ->] ->].
      split; [exact HI0|]. split; [apply tframe_mframe; exact F|].
      split; [apply tframe_same_config; exact F|]. split; [exact He|]. split; [exact Tn|].
      split; [intros [= ->]; apply check_trees_errs in E; intuition discriminate|].
      split; [rewrite HL0; apply chain_refl|]. split.
      * intros ->. destruct (check_trees_sec _ _ _ _ _ _ HI P1 P2 P4 Hnote Hnm E) as (evs & Ht & Hex & Hall).
        exists evs. split; [exact Ht|]. split; [exact Hex|]. rewrite HM0.
        intros m Hin. destruct (Hall m Hin). auto.
      * intros Hne. apply Hq. congruence.
    + specialize (Hnone eq_refl). specialize (Hq ltac:(discriminate)).
      minva H e1 s2 Ep. destruct (env_point_spec _ _ _ _ He HI0 Ep) as (HI2 & He1 & EF & Etl & Hmove).
      rewrite bind_get_client in H.
      assert (Fm2 : mframe s s2) by (eapply mframe_trans; [apply tframe_mframe; exact F | apply eframe_mframe; exact EF]).
      assert (Cf2 : same_config s s2).
      { destruct (tframe_same_config _ _ F) as [A1 A2]. destruct (eframe_same_config _ _ EF) as [B1 B2].
        split; congruence. }
      assert (Tn2 : textend ev_nocfg s s2).
      { destruct Tn as (evs & ? & ?). exists evs. rewrite (ef_tr _ _ EF). auto. }
      assert (Tq2 : textend ev_quiet s s2).
      { destruct Hq as (evs & ? & ?). exists evs. rewrite (ef_tr _ _ EF). auto. }
      destruct (tree_eqb (c_latest (s_c s2)) L) eqn:Heq.
      * (* nobody moved the head: install *)
        apply tree_eqb_eq in Heq.
        minva H u s3 Ei. apply install_inv in Ei. apply ret_inv in H as [[= -> ->] ->].
        change s3 with s3. subst s3. fold (install_state tr msg s2).
        split; [destruct HI2; constructor; cbn; auto; right; exact Hsig|].
        split; [eapply mframe_trans; [exact Fm2|]; constructor; reflexivity|].
        split; [destruct Cf2; split; assumption|].
        split; [exact He1|]. split; [destruct Tn2 as (evs & ? & ?); exists evs; auto|].
        split; [discriminate|]. split; [destruct Tq2 as (evs & ? & ?); exists evs; auto|].
        exists s2. split; [rewrite Heq; apply chain_refl|]. rewrite Heq.
        split; [|split; [intros _; exists tr; reflexivity | congruence]].
        cbn. split; [eapply signed_tree_nonnil; eauto|]. split; [reflexivity|]. split; [exact Hsig|]. split; [lia | exact Hnone].
      * (* the head moved underfoot: go around again with the new snapshot *)
        destruct Hmove as [[Hs1 _]|(Hne & Hs2 & Hlt2 & Hc2)].
        { rewrite Hs1, HL0, tree_eqb_refl in Heq. discriminate. }
        rewrite HL0 in Hlt2, Hc2.
        assert (Hf : (length e1 < f)%nat).
        { subst e1. destruct e as [|f0 rest]; [congruence|]. cbn in *. lia. }
        specialize (IH _ _ _ _ _ _ _ HI2 He1 Hsig Hf H).
        destruct IH as (HI' & Fm' & Cf' & He' & Tn' & Hnf & Hr).
        split; [exact HI'|]. split; [eapply mframe_trans; eauto|].
        split; [destruct Cf2, Cf'; split; congruence|].
        split; [exact He'|]. split; [eapply textend_trans; eauto|]. split; [exact Hnf|].
        assert (Hch : chain L (c_latest (s_c s2))) by (eapply chain_step; [apply chain_refl | exact Hlt2 | exact Hc2]).
        destruct r as [w|err].
        -- destruct Hr as (Tq' & s1 & Hc1 & Hm & Hfut & Hnfut).
           split; [eapply textend_trans; eauto|]. exists s1.
           split; [eapply chain_trans; eauto | auto].
        -- destruct Hr as (Hc' & Hsec' & Hq').
           split; [eapply chain_trans; eauto|]. split.
           ++ intros Herr. eapply sec_report_prefix; [exact Tq2 | apply Hsec'; exact Herr].
           ++ intros Hne'. eapply textend_trans; [exact Tq2 | apply Hq'; exact Hne'].
Qed.

Theorem merge_latest_mem_env_spec msg e s r e' s' :
  CInv (s_c s) -> env_ok e ->
  merge_latest_mem_env node_hash V msg e s = ((r, e'), s') ->
  mem_post msg s r e' s'.
Proof.
  intros HI He H. unfold merge_latest_mem_env in H. rewrite bind_get_client in H.
  assert (Hrefl : forall r0, r0 <> inr EFuelC ->
            match r0 with
            | inl w => merged w msg (c_latest (s_c s)) (c_latest (s_c s)) (c_latest_msg (s_c s)) /\ w <> MsgFuture
            | inr err => err <> ESecurity
            end -> (r0, e, s) = (r, e', s') -> mem_post msg s r e' s').
  { intros r0 Hnf Hr0 [= <- <- <-].
    split; [exact HI|]. split; [apply mframe_refl|]. split; [split; reflexivity|]. split; [exact He|].
    split; [apply textend_refl|]. split; [exact Hnf|].
    destruct r0 as [w|err].
    - destruct Hr0 as [Hm Hw]. split; [apply textend_refl|]. exists s. split; [apply chain_refl|].
      split; [exact Hm|]. split; [congruence | reflexivity].
    - split; [apply chain_refl|]. split; [congruence | intros _; apply textend_refl]. }
  destruct msg as [|b msg'].
  { apply ret_inv in H as [[= -> ->] ->]. eapply Hrefl; [| |reflexivity]; [discriminate|].
    assert (Hr0 := head_ok_range V vs signed_small _ _ (ci_head _ _ _ _ _ _ HI)).
    destruct (Codec.tN (c_latest (s_c s)) =? 0) eqn:H0; cbn.
    - split; [auto | discriminate].
    - apply Z.eqb_neq in H0. split; [|discriminate]. split; [reflexivity|]. split; [lia | auto]. }
  set (msg := b :: msg') in *.
  rewrite (ci_vs _ _ _ _ _ _ HI) in H.
  destruct (Note.open str V msg vs) as [n|err] eqn:Hopen.
  2: { apply ret_inv in H as [[= -> ->] ->]. eapply Hrefl; [| |reflexivity]; discriminate. }
  destruct (parse_tree (n_text n)) as [tr|k|] eqn:Hparse.
  2,3: apply ret_inv in H as [[= -> ->] ->]; eapply Hrefl; [| |reflexivity]; discriminate.
  assert (Hsig : signed_tree msg tr) by (exists n; auto).
  eapply mem_loop_env_spec; eauto.
Qed.

(* (b) a head is installed only if it is Consistent with the head current AT INSTALL TIME: s1 is the
   state immediately before the install, reached from s by tile traffic and environment turns only *)
Theorem mem_env_installs_consistent msg e s e' s' :
  CInv (s_c s) -> env_ok e ->
  merge_latest_mem_env node_hash V msg e s = ((inl MsgFuture, e'), s') ->
  exists s1 tr, s' = install_state tr msg s1 /\ signed_tree msg tr /\
    chain (c_latest (s_c s)) (c_latest (s_c s1)) /\
    Codec.tN (c_latest (s_c s1)) < Codec.tN tr /\ Consistent (c_latest (s_c s1)) tr.
Proof.
  intros HI He H. apply merge_latest_mem_env_spec in H; auto.
  destruct H as (_ & _ & _ & _ & _ & _ & _ & s1 & Hch & Hm & Hfut & _).
  destruct (Hfut eq_refl) as (tr & ->). cbn in Hm. destruct Hm as (_ & _ & Hs & Hlt & Hc).
  exists s1, tr. auto.
Qed.

(* ... hence a signed head that is not on the timeline of any head the client holds during the call
   is never installed: the call fails and the client's head is still one the environment put there *)
Theorem fork_never_installed_env msg tr e s r e' s' :
  CInv (s_c s) -> env_ok e -> signed_tree msg tr ->
  (forall L, chain (c_latest (s_c s)) L -> ~ on_timeline L tr) ->
  merge_latest_mem_env node_hash V msg e s = ((r, e'), s') ->
  (exists err, r = inr err) /\ chain (c_latest (s_c s)) (c_latest (s_c s')) /\
  same_config s s' /\ textend ev_nocfg s s'.
Proof.
  intros HI He Hsig Hfork H. assert (Hnn := signed_tree_nonnil _ _ _ _ Hsig).
  apply merge_latest_mem_env_spec in H; auto.
  destruct H as (_ & _ & Cf & _ & Tn & _ & Hr).
  destruct r as [w|err].
  - exfalso. destruct Hr as (_ & s1 & Hch & Hm & _). apply (Hfork _ Hch). unfold SeqProofsSafe.on_timeline.
    destruct w; cbn in Hm.
    + destruct Hm as (_ & _ & [->|(t & Ht & Hlt & Hc)]); [contradiction|].
      rewrite (signed_tree_fun _ _ _ _ _ Hsig Ht).
      replace (Codec.tN t <=? Codec.tN (c_latest (s_c s1))) with true by (symmetry; apply Z.leb_le; lia).
      exact Hc.
    + destruct Hm as (_ & [->|(t & Ht & Heq & Hc)]); [contradiction|].
      rewrite (signed_tree_fun _ _ _ _ _ Hsig Ht).
      replace (Codec.tN t <=? Codec.tN (c_latest (s_c s1))) with true by (symmetry; apply Z.leb_le; lia).
      exact Hc.
    + destruct Hm as (_ & _ & Ht & Hlt & Hc).
      rewrite (signed_tree_fun _ _ _ _ _ Hsig Ht).
      replace (Codec.tN (c_latest (s_c s')) <=? Codec.tN (c_latest (s_c s1))) with false by (symmetry; apply Z.leb_gt; lia).
      exact Hc.
  - destruct Hr as (Hch & _). split; [eauto|]. auto.
Qed.

(* ---- mergeLatest under interference --------------------------------------------------------------- *)

(* event safety with the collision disjunct that transitivity of Consistent needs *)
Definition ev_safe_c (ev : event) : Prop :=
  match ev with
  | EvWriteConfig f old new ok => f = latest_file name /\ (config_write_ok old new \/ coll)
  | _ => ev_safe ev
  end.

Lemma ev_nocfg_safe_c ev : ev_nocfg ev -> ev_safe_c ev.
Proof. intros [H1 H2]. destruct ev; cbn in *; auto. contradiction. Qed.

Lemma ev_quiet_safe_c ev : ev_quiet ev -> ev_safe_c ev.
Proof. intros [H _]. apply ev_nocfg_safe_c. exact H. Qed.

Definition merge_post (s : state) (r : option cerr) (e' : env) (s' : state) : Prop :=
  CInv (s_c s') /\ mframe s s' /\ env_ok e' /\ textend ev_safe_c s s' /\
  (r = Some ESecurity -> exists off, note_ok off /\ sec_report off s s').

Lemma merge_loop_env_spec fuel : forall e s r e' s',
  CInv (s_c s) -> env_ok e ->
  merge_loop_env node_hash V fuel e s = ((r, e'), s') ->
  merge_post s r e' s' /\ ((length (w_interf (s_w s)) < fuel)%nat -> r <> Some EFuelC).
Proof.
  induction fuel as [|f IH]; intros e s r e' s' HI He H.
  - cbn in H. apply ret_inv in H as [[= -> ->] ->]. split; [|intros Hl; inversion Hl].
    split; [exact HI|]. split; [apply mframe_refl|]. split; [exact He|]. split; [apply textend_refl | discriminate].
  - cbn [merge_loop_env] in H.
    minva H e0 s0 Ep. destruct (env_point_spec _ _ _ _ He HI Ep) as (HI0 & He0 & EF0 & _ & _).
    rewrite bind_get_client in H.
    minva H d s1 Er. apply rc_spec in Er as (F1 & T1 & Hcfg).
    assert (HI1 := tf_cinv _ _ F1 HI0).
    assert (Fm1 : mframe s s1) by (eapply mframe_trans; [apply eframe_mframe; exact EF0 | apply tframe_mframe; exact F1]).
    assert (Tq1 : textend ev_quiet s s1).
    { destruct T1 as (evs & ? & ?). exists evs. rewrite <- (ef_tr _ _ EF0). auto. }
    assert (Ts1 : textend ev_safe_c s s1) by (eapply textend_impl; [apply ev_quiet_safe_c | exact Tq1]).
    destruct d as [msg|].
    2: { apply ret_inv in H as [[= -> ->] ->]. split; [|discriminate].
         split; [exact HI1|]. split; [exact Fm1|]. split; [exact He0|]. split; [exact Ts1 | discriminate]. }
    minva H a s3 Em. destruct a as [a e1].
    destruct (merge_latest_mem_env_spec _ _ _ _ _ _ HI1 He0 Em) as (HI3 & Fm3 & Cf3 & He3 & Tn3 & Hnf3 & Hr3).
    assert (Fm13 : mframe s s3) by (eapply mframe_trans; eauto).
    assert (Ts3 : textend ev_safe_c s s3).
    { eapply textend_trans; [exact Ts1|]. eapply textend_impl; [apply ev_nocfg_safe_c | exact Tn3]. }
    assert (Hmsg_ok : a <> inr ENote -> True) by auto.
    destruct a as [w|err].
    2: { apply ret_inv in H as [[= -> ->] ->]. destruct Hr3 as (_ & Hsec & _).
         split; [|intros _ [= ->]; apply Hnf3; reflexivity].
         split; [exact HI3|]. split; [exact Fm13|]. split; [exact He3|]. split; [exact Ts3|].
         intros [= ->]. exists msg. split.
         - (* the offending note is what the configuration held *)
           destruct msg as [|b m]; [left; reflexivity|].
           destruct (Hsec eq_refl) as (evs & _ & Hex & _).
           (* a security error needs a signed message: the loop was entered *)
           unfold merge_latest_mem_env in Em. rewrite bind_get_client in Em.
           rewrite (ci_vs _ _ _ _ _ _ HI1) in Em.
           destruct (Note.open str V (b :: m) vs) as [n|er] eqn:Ho; [|apply ret_inv in Em as [[= ? ?] _]; discriminate].
           destruct (parse_tree (n_text n)) as [tr|k|] eqn:Hp; try (apply ret_inv in Em as [[= ? ?] _]; discriminate).
           right. exists tr, n. auto.
         - eapply sec_report_prefix; [exact Tq1 | apply Hsec; reflexivity]. }
    destruct Hr3 as (Tq3 & s1' & Hch3 & Hm3 & _ & Hsame3).
    destruct w.
    2,3: apply ret_inv in H as [[= -> ->] ->]; (split; [|discriminate]);
         (split; [exact HI3|]); (split; [exact Fm13|]); (split; [exact He3|]); (split; [exact Ts3 | discriminate]).
    (* the stored head is in the past: write ours — as re-read after a possible environment turn *)
    specialize (Hsame3 ltac:(discriminate)). subst s1'.
    cbn in Hm3. destruct Hm3 as (_ & Hpos & Hpast).
    set (L3 := c_latest (s_c s3)) in *.
    minva H e2 s4 Ep2. destruct (env_point_spec _ _ _ _ He3 HI3 Ep2) as (HI4 & He4 & EF4 & _ & Hmove).
    rewrite bind_get_client in H.
    minva H ok s5 Ew. apply write_config_spec in Ew as (Hc & Hrem & Htr & Hint & Hkeep & Hfail).
    set (L4 := c_latest (s_c s4)) in *.
    assert (HL34 : L4 = L3 \/ (Codec.tN L3 < Codec.tN L4 /\ Consistent L3 L4)).
    { destruct Hmove as [[E _]|(_ & _ & Hlt & Hcc)]; [left; exact E | right; auto]. }
    assert (Hpos4 : 0 < Codec.tN L4) by (destruct HL34 as [->|[? _]]; lia).
    assert (Hsig4 : signed_tree (c_latest_msg (s_c s4)) L4).
    { destruct (ci_head _ _ _ _ _ _ HI4) as [[_ H0]|Hs]; [fold L4 in H0; lia | exact Hs]. }
    assert (Hr4 := signed_range V vs signed_small _ _ Hsig4).
    assert (Hev : ev_safe_c (EvWriteConfig (latest_file (c_name (s_c s4))) msg (c_latest_msg (s_c s4)) ok)).
    { cbn. split; [rewrite (ci_name _ _ _ _ _ _ HI4); reflexivity|].
      destruct Hpast as [->|(t & Ht & Hlt & Hcc)]; [left; exists L4; split; [exact Hsig4 | left; reflexivity]|].
      destruct HL34 as [E|[Hlt4 Hc4]].
      - left. exists L4. split; [exact Hsig4|]. right. exists t. rewrite E. auto.
      - destruct (consistent_trans node_hash t L3 L4 Hcc Hc4 ltac:(lia) ltac:(lia)) as [Hct|C]; [left | right; exact C].
        exists L4. split; [exact Hsig4|]. right. exists t. split; [exact Ht|]. split; [lia | exact Hct]. }
    assert (HI5 : CInv (s_c s5)) by (rewrite Hc; exact HI4).
    assert (Fm5 : mframe s s5).
    { eapply mframe_trans; [exact Fm13|]. eapply mframe_trans; [apply eframe_mframe; exact EF4|].
      constructor; try (rewrite Hc; reflexivity); [exact Hrem|]. apply Hkeep. apply latest_file_not_key. }
    assert (Ts5 : textend ev_safe_c s s5).
    { eapply textend_trans; [exact Ts3|]. eapply textend_one; [rewrite Htr, (ef_tr _ _ EF4); reflexivity | exact Hev]. }
    assert (Tq5 : forall off s'', sec_report off s5 s'' -> sec_report off s s'').
    { intros off s'' (evs & Ht & Hex & Hall). destruct Tq1 as (ev1 & Ht1 & Q1). destruct Tq3 as (ev3 & Ht3 & Q3).
      exists (ev1 ++ ev3 ++ [EvWriteConfig (latest_file (c_name (s_c s4))) msg (c_latest_msg (s_c s4)) ok] ++ evs).
      split; [rewrite Ht, Htr, (ef_tr _ _ EF4), Ht3, Ht1, <- !app_assoc; reflexivity|].
      split; [apply Exists_app; right; apply Exists_app; right; apply Exists_app; right; exact Hex|].
      intros m Hin. apply in_app_or in Hin as [Hin|Hin].
      { exfalso. rewrite Forall_forall in Q1. destruct (Q1 _ Hin) as [_ Hns]. apply Hns. exact I. }
      apply in_app_or in Hin as [Hin|Hin].
      { exfalso. rewrite Forall_forall in Q3. destruct (Q3 _ Hin) as [_ Hns]. apply Hns. exact I. }
      apply in_app_or in Hin as [[Hin|[]]|Hin]; [discriminate | auto]. }
    destruct ok.
    + apply ret_inv in H as [[= -> ->] ->]. split; [|discriminate].
      split; [exact HI5|]. split; [exact Fm5|]. split; [exact He4|]. split; [exact Ts5 | discriminate].
    + apply IH in H as ((HI6 & Fm6 & He6 & Ts6 & Hsec6) & Hfuel); auto.
      split.
      * split; [exact HI6|]. split; [eapply mframe_trans; eauto|]. split; [exact He6|].
        split; [eapply textend_trans; eauto|].
        intros Hr. destruct (Hsec6 Hr) as (off & Hoff & Hrep). exists off. split; [exact Hoff | apply Tq5; exact Hrep].
      * intros Hlen. apply Hfuel.
        assert (Ew0 : s_w s0 = s_w s) by apply (ef_w _ _ EF0).
        assert (Ei : w_interf (s_w s4) = w_interf (s_w s)).
        { rewrite (ef_w _ _ EF4). destruct Cf3 as [_ ->]. rewrite (tf_interf _ _ F1), Ew0. reflexivity. }
        assert (Ec : w_config (s_w s4) = w_config (s_w s0)).
        { rewrite (ef_w _ _ EF4). destruct Cf3 as [-> _]. apply (tf_config _ _ F1). }
        assert (En : c_name (s_c s4) = c_name (s_c s0)).
        { rewrite (ef_name _ _ EF4), (mf_name _ _ Fm3). apply (tf_name _ _ F1). }
        rewrite Hint, Ei.
        destruct (Hfail eq_refl) as (x & rr & [Hi|[Hne Hold]]).
        -- rewrite Ei in Hi. rewrite Hi in *. cbn in *. lia.
        -- exfalso. rewrite Ec, En in Hne. apply Hne. symmetry. exact Hcfg.
Qed.

(* (a) + (c) for mergeLatest: whatever the environment (env_ok) and the foreign writer of the
   configuration do *)
Theorem merge_latest_env_spec msg e s r e' s' :
  CInv (s_c s) -> env_ok e ->
  merge_latest_env node_hash V msg e s = ((r, e'), s') ->
  merge_post s r e' s' /\ r <> Some EFuelC.
Proof.
  intros HI He H. unfold merge_latest_env in H.
  minva H a s1 Em. destruct a as [a e1].
  destruct (merge_latest_mem_env_spec _ _ _ _ _ _ HI He Em) as (HI1 & Fm1 & Cf1 & He1 & Tn1 & Hnf1 & Hr1).
  assert (Ts1 : textend ev_safe_c s s1) by (eapply textend_impl; [apply ev_nocfg_safe_c | exact Tn1]).
  destruct a as [w|err].
  2: { apply ret_inv in H as [[= -> ->] ->]. destruct Hr1 as (_ & Hsec & _).
       split; [|intros [= ->]; apply Hnf1; reflexivity].
       split; [exact HI1|]. split; [exact Fm1|]. split; [exact He1|]. split; [exact Ts1|].
       intros [= ->]. exists msg. split; [|apply Hsec; reflexivity].
       destruct msg as [|b m]; [left; reflexivity|].
       unfold merge_latest_mem_env in Em. rewrite bind_get_client in Em.
       rewrite (ci_vs _ _ _ _ _ _ HI) in Em.
       destruct (Note.open str V (b :: m) vs) as [n|er] eqn:Ho; [|apply ret_inv in Em as [[= ? ?] _]; discriminate].
       destruct (parse_tree (n_text n)) as [tr|k|] eqn:Hp; try (apply ret_inv in Em as [[= ? ?] _]; discriminate).
       right. exists tr, n. auto. }
  destruct Hr1 as (Tq1 & _).
  destruct w.
  1,2: apply ret_inv in H as [[= -> ->] ->]; (split; [|discriminate]);
       (split; [exact HI1|]); (split; [exact Fm1|]); (split; [exact He1|]); (split; [exact Ts1 | discriminate]).
  rewrite bind_get_world in H.
  apply merge_loop_env_spec in H as ((HI2 & Fm2 & He2 & Ts2 & Hsec2) & Hfuel); auto.
  split; [|apply Hfuel; lia].
  split; [exact HI2|]. split; [eapply mframe_trans; eauto|]. split; [exact He2|].
  split; [eapply textend_trans; eauto|].
  intros Hr. destruct (Hsec2 Hr) as (off & Hoff & Hrep). exists off. split; [exact Hoff|].
  eapply sec_report_prefix; eauto.
Qed.

(* ---- the statements in explicit form (restated in Props/C13.v) ------------------------------------- *)

(* (c) for mergeLatestMem: the report names the offending note and the note of the head the client holds
   when the call returns — the head current at detection time, reached from the initial one by
   environment turns only (not a stale snapshot) *)
Corollary mem_env_security_report msg e s e' s' :
  CInv (s_c s) -> env_ok e ->
  merge_latest_mem_env node_hash V msg e s = ((inr ESecurity, e'), s') ->
  chain (c_latest (s_c s)) (c_latest (s_c s')) /\
  exists evs, s_tr s' = s_tr s ++ evs /\ Exists is_sec evs /\
    forall m, In (EvSecurity m) evs ->
      infix (indent msg) m /\ infix (indent (c_latest_msg (s_c s'))) m.
Proof.
  intros HI He H. apply merge_latest_mem_env_spec in H; auto.
  destruct H as (_ & _ & _ & _ & _ & _ & Hch & Hsec & _). split; [exact Hch|]. apply Hsec. reflexivity.
Qed.

(* (a) + (c) for mergeLatest *)
Corollary merge_latest_env_safe msg e s r e' s' :
  CInv (s_c s) -> env_ok e ->
  merge_latest_env node_hash V msg e s = ((r, e'), s') ->
  CInv (s_c s') /\ env_ok e' /\ r <> Some EFuelC /\
  exists evs, s_tr s' = s_tr s ++ evs /\
    (forall f old new ok, In (EvWriteConfig f old new ok) evs ->
       f = latest_file name /\ (config_write_ok old new \/ coll)) /\
    (r = Some ESecurity ->
       Exists is_sec evs /\
       exists off, note_ok off /\
         forall m, In (EvSecurity m) evs ->
           infix (indent off) m /\ infix (indent (c_latest_msg (s_c s'))) m).
Proof.
  intros HI He H. apply merge_latest_env_spec in H as ((HI' & _ & He' & (evs & Htr & Hall) & Hsec) & Hnf); auto.
  split; [exact HI'|]. split; [exact He'|]. split; [exact Hnf|].
  exists evs. split; [exact Htr|]. split.
  - intros f old new ok Hin. rewrite Forall_forall in Hall. apply (Hall _ Hin).
  - intros Hr. destruct (Hsec Hr) as (off & Hoff & evs' & Htr' & Hex & Hrep).
    rewrite Htr in Htr'. apply app_inv_head in Htr'. subst evs'.
    split; [exact Hex|]. exists off. auto.
Qed.

End Env.
