(* Client/SeqEnvProofs.v — the interference-closed model Client/SeqEnv.v:
     1. with an environment that does nothing it IS the sequential model (…_nil lemmas);
     2. under any environment that installs only heads signed under the configured key that extend
        the current head (env_ok — what another mergeLatestMem can install), and any foreign writer
        of the configuration (w_interf, arbitrary bytes):
        (a) the client invariant CInv is kept and every WriteConfig writes a signed head over a
            head that is empty or a signed, strictly smaller prefix of it (or a collision of the
            node hash is explicit)                                merge_latest_env_spec;
        (b) a head is installed only if it is Consistent with the head current AT INSTALL TIME
                                                                  mem_env_installs_consistent,
            fork_never_installed_env;
        (c) a security error comes with a Security event whose text contains the offending note
            and the note of the head held at detection time — which is still the client's head
            when the call returns                                  sec_report, …_spec.
   NodeAt / tile_ok are the C10 predicates of Tlog/TileSpec.v. *)
From Verif.Base Require Import Bytes.
From Verif.Tlog Require Import Index Tree Codec Tile TileReader TileSpec.
From Verif.Note Require Import Note.
From Verif.Client Require Import Seq SeqProofs SeqProofsTile SeqProofsSafe SeqProofsInst SeqProofsOrder SeqEnv.

(* ---- frames that hold whatever the world answers ---------------------------------------------- *)

Section Frames.
Variable node_hash : hash -> hash -> hash.

Lemma tile_read_hashes_st_frame tr ix s r s' :
  tile_read_hashes_st node_hash tr ix s = (r, s') -> tframe s s'.
Proof.
  intros H. unfold tile_read_hashes_st in H.
  minv H. unfold get_client in E. inversion E; subst a s0; clear E.
  destruct (_ || _); [apply ret_inv in H as [_ ->]; apply tframe_refl|].
  destruct (make_plan (Codec.tN tr) (c_height (s_c s)) ix) as [p|e|];
    try (apply ret_inv in H as [_ ->]; apply tframe_refl).
  minv H. apply read_tiles_spec in E. destruct E as [F _].
  destruct a as [data|]; [|apply ret_inv in H as [_ ->]; exact F].
  destruct (snd (check_and_extract node_hash (Codec.tN tr, Codec.tH tr) p ix data)) as [[ts ds]|].
  - minv H. apply save_tiles_spec in E as [F' _]. apply ret_inv in H as [_ ->].
    eapply tframe_trans; eauto.
  - apply ret_inv in H as [_ ->]. exact F.
Qed.

Lemma tree_hash_st_frame newer n s r s' : tree_hash_st node_hash newer n s = (r, s') -> tframe s s'.
Proof.
  intros H. unfold tree_hash_st in H.
  destruct (n =? 0); [apply ret_inv in H as [_ ->]; apply tframe_refl|].
  destruct (sub_tree_index 0 n []) as [ix|k|]; try (apply ret_inv in H as [_ ->]; apply tframe_refl).
  minv H. apply tile_read_hashes_st_frame in E. destruct a; apply ret_inv in H as [_ ->]; exact E.
Qed.

Lemma prove_tree_st_frame newer t n s r s' : prove_tree_st node_hash newer t n s = (r, s') -> tframe s s'.
Proof.
  intros H. unfold prove_tree_st in H.
  destruct (_ || _); [apply ret_inv in H as [_ ->]; apply tframe_refl|].
  destruct (tree_proof_index (range_fuel t) 0 t n []) as [ix|k|];
    try (apply ret_inv in H as [_ ->]; apply tframe_refl).
  destruct ix as [|i ix]; [apply ret_inv in H as [_ ->]; apply tframe_refl|].
  minv H. apply tile_read_hashes_st_frame in E. destruct a; apply ret_inv in H as [_ ->]; exact E.
Qed.

Lemma check_trees_frame older on newer nn s r s' :
  check_trees node_hash older on newer nn s = (r, s') -> tframe s s'.
Proof.
  intros H. unfold check_trees in H. minv H. apply tree_hash_st_frame in E.
  destruct a as [h|e|]; try (apply ret_inv in H as [_ ->]; exact E).
  destruct (str_eqb h (Codec.tH older)); [apply ret_inv in H as [_ ->]; exact E|].
  minv H. apply prove_tree_st_frame in E0. minv H.
  unfold emit in E1. inversion E1; subst; clear E1. apply ret_inv in H as [_ ->].
  eapply tframe_trans; [exact E|]. eapply tframe_trans; [exact E0|]. constructor; reflexivity.
Qed.

End Frames.

Lemma tree_eqb_refl t : tree_eqb t t = true.
Proof. unfold tree_eqb. rewrite Z.eqb_refl, str_eqb_refl. reflexivity. Qed.

Lemma tree_eqb_eq a b : tree_eqb a b = true -> a = b.
Proof.
  unfold tree_eqb. intros H. apply andb_true_iff in H as [H1 H2].
  apply Z.eqb_eq in H1. apply str_eqb_eq in H2. destruct a, b; cbn in *; congruence.
Qed.

(* ---- 1. an environment that does nothing ------------------------------------------------------- *)

Section Nil.
Variable node_hash : hash -> hash -> hash.
Variable V : str -> str -> str -> bool.

Lemma bindM_ret {A B} (a : A) (k : A -> M B) s : bindM (ret a) k s = k a s.
Proof. reflexivity. Qed.

Lemma bind_get_client {B} (k : client -> M B) s : bindM get_client k s = k (s_c s) s.
Proof. reflexivity. Qed.

Lemma bind_get_world {B} (k : world -> M B) s : bindM get_world k s = k (s_w s) s.
Proof. reflexivity. Qed.

Lemma bindM_eq {A B} (m : M A) (k : A -> M B) s : bindM m k s = (let (a, s1) := m s in k a s1).
Proof. reflexivity. Qed.

Theorem merge_latest_mem_env_nil msg s :
  merge_latest_mem_env node_hash V msg [] s =
  (let (r, s') := merge_latest_mem node_hash V msg s in ((r, []), s')).
Proof.
  unfold merge_latest_mem_env, merge_latest_mem. rewrite !bind_get_client.
  destruct msg as [|b m]; [reflexivity|].
  destruct (Note.open str V (b :: m) (c_verifiers (s_c s))) as [n|e]; [|reflexivity].
  destruct (parse_tree (n_text n)) as [tr|k|]; try reflexivity.
  cbn [length mem_loop_env].
  destruct (Codec.tN tr <=? Codec.tN (c_latest (s_c s))).
  - rewrite !bindM_eq.
    destruct (check_trees node_hash tr (b :: m) (c_latest (s_c s)) (c_latest_msg (s_c s)) s) as [[err|] s1];
      reflexivity.
  - rewrite !bindM_eq.
    destruct (check_trees node_hash (c_latest (s_c s)) (c_latest_msg (s_c s)) tr (b :: m) s) as [[err|] s1] eqn:E;
      [reflexivity|].
    apply check_trees_frame in E. cbn [env_point]. rewrite bindM_ret, bind_get_client.
    rewrite (tf_latest _ _ E), tree_eqb_refl. reflexivity.
Qed.

Theorem merge_loop_env_nil fuel : forall s,
  merge_loop_env node_hash V fuel [] s =
  (let (r, s') := merge_loop node_hash V fuel s in ((r, []), s')).
Proof.
  induction fuel as [|f IH]; intros s; [reflexivity|].
  cbn [merge_loop_env merge_loop env_point]. rewrite bindM_ret, !bind_get_client, !bindM_eq.
  destruct (read_config (latest_file (c_name (s_c s))) s) as [[msg|] s1]; [|reflexivity].
  rewrite !bindM_eq, merge_latest_mem_env_nil.
  destruct (merge_latest_mem node_hash V msg s1) as [[w|e] s2]; [|reflexivity].
  destruct w; try reflexivity.
  cbn [env_point]. rewrite bindM_ret, !bind_get_client, !bindM_eq.
  destruct (write_config (latest_file (c_name (s_c s2))) msg (c_latest_msg (s_c s2)) s2) as [[|] s3];
    [reflexivity | apply IH].
Qed.

Theorem merge_latest_env_nil msg s :
  merge_latest_env node_hash V msg [] s =
  (let (r, s') := merge_latest node_hash V msg s in ((r, []), s')).
Proof.
  unfold merge_latest_env, merge_latest. rewrite !bindM_eq, merge_latest_mem_env_nil.
  destruct (merge_latest_mem node_hash V msg s) as [[w|e] s1]; [|reflexivity].
  destruct w; try reflexivity.
  rewrite !bind_get_world. apply merge_loop_env_nil.
Qed.

End Nil.
