(* C14 — the theorems of DESIGN.md section C14 in their final form (over all initial states
   satisfying wf_init, all numbers of threads and clients, all schedules). *)
From Verif.Base Require Import Bytes.
From Verif.Module Require Import Match.
From Verif.Client Require Import Conc ConcProofs ConcProofsTrace ConcProofsTerm ConcProofsReplay.

Section Main.
  Variables (chain : list head) (cur : nat) (cfg : option head) (cache : list (nat * head))
            (nos : list str) (lks : list (nat * str * nat)).
  Hypothesis Hwf : wf_init chain cur cfg cache nos lks.
  Let init := init_state chain cur cfg cache nos lks.

  Lemma all_schedules_safe : forall sched, Inv (run sched init).
  Proof. intros sched. apply run_inv. now apply init_inv. Qed.

  Lemma run_chain sched : s_chain (run sched init) = chain.
  Proof. destruct (run_same_static sched init) as (H & _). exact H. Qed.

  Lemma all_schedules_heads_honest : forall sched,
    let s := run sched init in
    hin chain (s_cfg s) /\
    (forall ci c, nth_error (s_clients s) ci = Some c -> hin chain (c_mem c)) /\
    (forall t th, nth_error (s_threads s) t = Some th ->
       hin chain (t_msg th) /\ hin chain (t_lat th) /\ hin chain (t_data th) /\ hin chain (t_new th)) /\
    (forall k h, lookup k (s_cache s) = Some h -> In h chain).
  Proof.
    intros sched s. pose proof (all_schedules_safe sched) as HI. fold s in HI.
    pose proof (run_chain sched) as Hch. fold s in Hch. rewrite <- Hch.
    split; [apply (inv_cfg s HI)|split; [|split]].
    - intros ci c Hc. apply (ci_mem _ _ _ _ (inv_clients s HI _ _ Hc)).
    - intros t th Ht. destruct (inv_threads s HI t th Ht) as (c & _ & Hti).
      destruct Hti; auto.
    - apply (inv_cache s HI).
  Qed.

  Lemma latest_never_regresses : forall sched1 sched2,
    size (s_cfg (run sched1 init)) <= size (s_cfg (run (sched1 ++ sched2) init)) /\
    forall ci, size (mem_of (run sched1 init) ci) <= size (mem_of (run (sched1 ++ sched2) init) ci).
  Proof. intros. apply latest_never_regresses_run. now apply init_inv. Qed.

  Lemma fetch_once : forall sched ci k,
    (nrc ci k (trace sched init) <= 1)%nat /\ (nrr ci k (trace sched init) <= 1)%nat.
  Proof. intros. now apply fetch_once_run. Qed.

  Lemma gonosumdb_no_ops : forall t ci path key globs,
    nth_error lks t = Some (ci, path, key) -> nth_error nos ci = Some globs ->
    match_prefix_patterns globs path = true ->
    forall sched e, In e (trace sched init) -> fst e <> t.
  Proof.
    intros t ci path key globs Hl Hn Hm sched e. apply gonosumdb_run; [now apply init_inv|].
    eapply init_skipping; eauto.
  Qed.

  Lemma results_sequential : forall sched t ci path key globs th,
    nth_error lks t = Some (ci, path, key) -> nth_error nos ci = Some globs ->
    nth_error (s_threads (run sched init)) t = Some th -> t_pc th = PDone ->
    t_res th = if match_prefix_patterns globs path then RSkip else ROk key.
  Proof.
    intros sched t ci path key globs th Hl Hn Ht Hpc.
    destruct (results_inv _ _ _ (all_schedules_safe sched) Ht Hpc) as (c & Hc & Hres).
    destruct (run_same_static sched init) as (_ & Hth & Hcl).
    destruct (Hth t (new_thread ci path key)) as (th2 & Ht2 & E1 & E2 & E3).
    { unfold init; cbn. now rewrite (map_nth_error _ _ _ Hl). }
    rewrite Ht in Ht2. injection Ht2 as <-. cbn in E1, E2, E3.
    destruct (Hcl ci (new_client globs)) as (c2 & Hc2 & E4).
    { unfold init; cbn. now rewrite (map_nth_error _ _ _ Hn). }
    rewrite E1, Hc2 in Hc. injection Hc as <-. cbn in E4.
    rewrite Hres. unfold skips. now rewrite E4, E2, E3.
  Qed.

  Lemma ends_at_max : forall sched,
    let s := run sched init in
    quiescent s ->
    (forall ci c, nth_error (s_clients s) ci = Some c -> size (c_mem c) <= size (s_cfg s)) /\
    (forall e ci z, In e (trace sched init) -> read_of (snd e) = Some (ci, z) -> z <= size (mem_of s ci)).
  Proof. intros sched s Hq. now apply ends_at_max_run. Qed.

  Lemma terminates : forall segs,
    (forall seg, In seg segs -> covers (length lks) seg) ->
    (measure init <= length segs)%nat -> ~ unfinished (run (concat segs) init).
  Proof.
    intros segs Hcov Hm. apply terminates_segments; auto; [now apply init_inv|].
    intros seg Hin. unfold init; cbn. rewrite map_length. now apply Hcov.
  Qed.

  Lemma effective_steps_bound : forall sched, (effective_count sched init <= measure init)%nat.
  Proof.
    intros sched. pose proof (effective_steps_bounded sched init (init_inv _ _ _ _ _ _ Hwf)). lia.
  Qed.

  Lemma no_deadlock : forall sched,
    unfinished (run sched init) ->
    exists t, (t < length lks)%nat /\ step (run sched init) t <> None.
  Proof.
    intros sched Hu. destruct (progress _ (all_schedules_safe sched) Hu) as (t & Hlt & Hs).
    exists t. split; auto. rewrite length_threads_run in Hlt. unfold init in Hlt; cbn in Hlt.
    now rewrite map_length in Hlt.
  Qed.

  Lemma replay_accepts_only_runs : forall tr n s',
    replay O tr init = inl s' -> exists sched, finish n s' = run sched init /\ Inv (finish n s').
  Proof. intros tr n s' H. eapply replay_sound; eauto. now apply init_inv. Qed.
End Main.
