(* C14 — proofs, part 3: termination.  A measure that strictly decreases on every effective
   action (thread step or growth of the server within the finite honest chain), progress
   (some thread is enabled unless all lookups have returned), and hence: every schedule made
   of rounds in which every thread gets a turn finishes all lookups. *)
From Verif.Base Require Import Bytes.
From Verif.Module Require Import Match.
From Verif.Client Require Import Conc ConcProofs ConcProofsTrace.

Definition maxN (ch : list head) : Z := fold_right Z.max 0 (map fst ch).

Lemma maxN_ge ch h : In h ch -> fst h <= maxN ch.
Proof.
  unfold maxN. induction ch as [|x ch IH]; cbn; [tauto|]. intros [->|H]; [lia|].
  specialize (IH H). lia.
Qed.

Lemma size_le_maxN ch h : hin ch h -> size h <= maxN ch.
Proof.
  destruct h; cbn; [apply maxN_ge|]. intros _. unfold maxN. induction ch; cbn; lia.
Qed.

Definition gap (ch : list head) (h : option head) : nat := Z.to_nat (maxN ch - size h).

Definition pot (s : state) : nat :=
  (gap (s_chain s) (s_cfg s) + list_sum (map (fun c => gap (s_chain s) (c_mem c)) (s_clients s)))%nat.

(* distance of a thread to the end of its lookup; the two flags are "the configuration file
   is no longer the one this thread read" and "memory is no longer the copy this thread
   took" — they can only be raised by another thread's progress *)
Definition mrank (cfg mem : option head) (th : thread) : nat :=
  let S := if ohead_eqb cfg (t_msg th) then O else 12%nat in
  let sm := if ohead_eqb mem (t_lat th) then O else 1%nat in
  match t_pc th with
  | PReadConfig => 11
  | PMemRead => if t_first th then 25 else 10 + S
  | PCheckOld => if t_first th then 23 else 8 + S
  | PInstall => if t_first th then 23 + sm else 8 + sm + S
  | PReadMsg => 7 + S
  | PWriteConfig => 6 + S
  | _ => 0
  end%nat.

Definition rank (cfg mem : option head) (th : thread) : nat :=
  match t_pc th with
  | PDone => 0 | PCellEnd => 1 | PWriteCache => 2 | PRecHashes => 3 | PCheckRecord => 4
  | PMemRead | PCheckOld | PInstall | PReadConfig | PReadMsg | PWriteConfig =>
      (if t_init th then 35 else 5) + mrank cfg mem th
  | PReadRemote => 31 | PReadCache => 32 | PCellGate => 33 | PInitEnd => 34
  | PInitLatest => 61 | PInitKey => 62 | PInitGate => 63 | PStart => 64
  end%nat.

Lemma rank_le cfg mem th : (rank cfg mem th <= 64)%nat.
Proof.
  unfold rank, mrank.
  destruct (t_pc th), (t_init th), (t_first th), (ohead_eqb cfg (t_msg th)), (ohead_eqb mem (t_lat th)); cbn; lia.
Qed.

Lemma step_at_rank ch cfg cache srv c t th th' c' cfg' cache' l :
  tinv ch cfg c t th ->
  step_at t th c cfg cache srv = Some (th', c', cfg', cache', l) ->
  size cfg < size cfg' \/ size (c_mem c) < size (c_mem c') \/
  (cfg' = cfg /\ c_mem c' = c_mem c /\ (rank cfg (c_mem c) th' < rank cfg (c_mem c) th)%nat).
Proof.
  intros Hi H. destruct th as [cl path key p msg lat first init data wc new res].
  crack H; cbn in *; subst p; destruct Hi; cbn in *; spec.
  all: set (R := rank); unfold decide, ret, mdone; cbn; ifs; subst R; unfold rank, mrank; cbn; zb; cbn in *.
  all: subst; cbn in *; try rewrite !ohead_eqb_refl.
  all: first [ left; lia | right; left; lia
             | right; right; split; [reflexivity|split; [reflexivity|]] ].
  all: repeat match goal with |- context [if ?x then _ else _] => destruct x eqn:? end; try lia.
  all: try (rewrite ?ohead_eqb_refl, ?head_eqb_refl in *; discriminate).
Qed.

(* ---- the measure ------------------------------------------------------------------------------- *)
Definition trank (s : state) (th : thread) : nat := rank (s_cfg s) (mem_of s (t_cl th)) th.
Definition rsum (s : state) : nat := list_sum (map (trank s) (s_threads s)).
Definition mK (s : state) : nat := (65 * length (s_threads s) + length (s_chain s) + 1)%nat.
Definition measure (s : state) : nat :=
  (pot s * mK s + rsum s + (length (s_chain s) - s_cur s))%nat.

Lemma list_sum_upd {A} (f : A -> nat) n x y l :
  nth_error l n = Some x ->
  (list_sum (map f (upd_nth n y l)) + f x = list_sum (map f l) + f y)%nat.
Proof.
  unfold list_sum. revert n; induction l as [|z l IH]; intros [|n] H; cbn in *; try discriminate.
  - injection H as ->. lia.
  - specialize (IH _ H). lia.
Qed.

Lemma list_sum_bound {A} (f : A -> nat) b l :
  (forall x, (f x <= b)%nat) -> (list_sum (map f l) <= b * length l)%nat.
Proof. unfold list_sum. intros Hb. induction l as [|x l IH]; cbn; [lia|]. specialize (Hb x). lia. Qed.

Lemma rsum_le s : (rsum s <= 64 * length (s_threads s))%nat.
Proof. apply list_sum_bound. intros th. apply rank_le. Qed.

Lemma gap_le ch a b : size a <= size b -> (gap ch b <= gap ch a)%nat.
Proof. unfold gap. intros. lia. Qed.

Lemma gap_lt ch a b : size a < size b -> size b <= maxN ch -> (gap ch b < gap ch a)%nat.
Proof. unfold gap. intros. lia. Qed.

Lemma measure_lt_pot s s' :
  mK s' = mK s -> (pot s' < pot s)%nat ->
  (rsum s' + (length (s_chain s') - s_cur s') < mK s')%nat ->
  (measure s' < measure s)%nat.
Proof.
  unfold measure. intros HK Hp Hr. rewrite HK in *.
  assert ((pot s' + 1) * mK s <= pot s * mK s)%nat by (apply Nat.mul_le_mono_r; lia).
  lia.
Qed.

Lemma rest_lt_mK s : (rsum s + (length (s_chain s) - s_cur s) < mK s)%nat.
Proof. pose proof (rsum_le s). unfold mK. lia. Qed.

Lemma step_measure s t s' l : Inv s -> step s t = Some (s', l) -> (measure s' < measure s)%nat.
Proof.
  intros HI H. pose proof (step_inv _ _ _ _ HI H) as HI'.
  destruct (step_shape _ _ _ _ H) as (th & c & th' & c' & cfg' & cache' & Ht & Hc & Hs & ->).
  destruct (step_at_static _ _ _ _ _ _ _ _ _ _ _ Hs) as (Hcl & _ & _ & _).
  destruct (inv_threads s HI t th Ht) as (c0 & Hc0 & Hti). rewrite Hc in Hc0. injection Hc0 as <-.
  assert (Hlt : (t < length (s_threads s))%nat) by (eapply nth_some_lt; eauto).
  assert (Hlc : (t_cl th < length (s_clients s))%nat) by (eapply nth_some_lt; eauto).
  destruct (step_at_cext (S t) _ _ _ _ _ _ _ _ _ _ _ _ (Nat.neq_succ_diag_l t) Hti Hs) as ([Hm _ _ _] & Hcfg).
  set (s' := build s t th' (t_cl th) c' cfg' cache') in *.
  assert (HK : mK s' = mK s) by (unfold mK, s'; cbn; now rewrite length_upd).
  assert (Hcfg' : size cfg' <= maxN (s_chain s)) by (apply size_le_maxN; apply (inv_cfg s' HI')).
  assert (Hc' : nth_error (s_clients s') (t_cl th) = Some c') by (unfold s'; cbn; now apply nth_upd_eq).
  assert (Hmem' : size (c_mem c') <= maxN (s_chain s)).
  { apply size_le_maxN. apply (ci_mem _ _ _ _ (inv_clients s' HI' _ _ Hc')). }
  pose proof (list_sum_upd (fun c => gap (s_chain s) (c_mem c)) _ _ c' _ Hc) as Hsum. cbn beta in Hsum.
  assert (Hpot : pot s' = (gap (s_chain s) cfg' +
             list_sum (map (fun c => gap (s_chain s) (c_mem c)) (upd_nth (t_cl th) c' (s_clients s))))%nat)
    by reflexivity.
  destruct (step_at_rank _ _ _ _ _ _ _ _ _ _ _ _ Hti Hs) as [K|[K|(K1 & K2 & K3)]].
  - apply measure_lt_pot; auto; [|apply rest_lt_mK].
    rewrite Hpot. unfold pot.
    pose proof (gap_lt (s_chain s) _ _ K Hcfg'). pose proof (gap_le (s_chain s) _ _ Hm).
    set (g := fun c0 : client => gap (s_chain s) (c_mem c0)) in *. lia.
  - apply measure_lt_pot; auto; [|apply rest_lt_mK].
    rewrite Hpot. unfold pot.
    pose proof (gap_lt (s_chain s) _ _ K Hmem'). pose proof (gap_le (s_chain s) _ _ Hcfg).
    set (g := fun c0 : client => gap (s_chain s) (c_mem c0)) in *. lia.
  - subst cfg'. unfold measure. rewrite HK.
    assert (Hp : pot s' = pot s).
    { rewrite Hpot. unfold pot. assert (E : gap (s_chain s) (c_mem c') = gap (s_chain s) (c_mem c)) by (unfold gap; now rewrite K2).
      rewrite E in Hsum. set (g := fun c0 : client => gap (s_chain s) (c_mem c0)) in *. lia. }
    assert (Hmo : forall ci, mem_of s' ci = mem_of s ci).
    { intros ci. unfold s'. rewrite (mem_of_build _ _ _ _ _ _ _ _ _ Hc).
      destruct (Nat.eqb_spec ci (t_cl th)) as [->|]; auto. unfold mem_of. now rewrite Hc. }
    assert (Hr : (rsum s' + trank s th = rsum s + trank s th')%nat).
    { unfold rsum. replace (map (trank s') (s_threads s')) with (map (trank s) (s_threads s')).
      - unfold s'; cbn. apply list_sum_upd; auto.
      - apply map_ext. intros th2. unfold trank. now rewrite Hmo. }
    assert (Hlt2 : (trank s th' < trank s th)%nat).
    { unfold trank. rewrite Hcl. unfold mem_of. rewrite Hc. exact K3. }
    rewrite Hp. cbn [s_chain s_cur s' build]. lia.
Qed.

Lemma grow_measure s s' : grow s = Some s' -> (measure s' < measure s)%nat.
Proof.
  unfold grow. destruct (Nat.ltb_spec (S (s_cur s)) (length (s_chain s))); [|discriminate].
  intros [= <-]. unfold measure.
  change (pot (set_cur s (S (s_cur s)))) with (pot s).
  change (mK (set_cur s (S (s_cur s)))) with (mK s).
  change (rsum (set_cur s (S (s_cur s)))) with (rsum s).
  cbn [s_chain s_cur set_cur]. lia.
Qed.

Definition effective (s : state) (a : act) : Prop :=
  match a with AThread t => step s t <> None | AGrow => grow s <> None end.

Lemma do_act_measure s a :
  Inv s -> (measure (fst (do_act s a)) <= measure s)%nat /\
           (effective s a -> (measure (fst (do_act s a)) < measure s)%nat).
Proof.
  intros HI. destruct a as [t|]; cbn.
  - destruct (step s t) as [[s' l]|] eqn:E.
    + pose proof (step_measure _ _ _ _ HI E). destruct l; cbn; split; intros; lia.
    + cbn. split; [lia|]. intros Hf. now destruct Hf.
  - destruct (grow s) eqn:E; cbn.
    + pose proof (grow_measure _ _ E). split; intros; lia.
    + split; [lia|]. intros Hf. now destruct Hf.
Qed.

Lemma not_effective_same s a : ~ effective s a -> fst (do_act s a) = s.
Proof.
  destruct a as [t|]; cbn; intros Hn.
  - destruct (step s t) as [[s' l]|]; [exfalso; apply Hn; discriminate|reflexivity].
  - destruct (grow s); [exfalso; apply Hn; discriminate|reflexivity].
Qed.

Lemma effective_dec s a : effective s a \/ ~ effective s a.
Proof.
  destruct a as [t|]; cbn.
  - destruct (step s t); [left; discriminate|right; tauto].
  - destruct (grow s); [left; discriminate|right; tauto].
Qed.

Lemma run_measure_le sched s : Inv s -> (measure (run sched s) <= measure s)%nat.
Proof.
  revert s; induction sched as [|a r IH]; intros s HI; [cbn; lia|].
  rewrite run_cons. pose proof (do_act_measure s a HI) as [H1 _].
  specialize (IH _ (do_act_inv s a HI)). lia.
Qed.

Lemma run_measure_lt sched s :
  Inv s -> (exists a, In a sched /\ effective s a) -> (measure (run sched s) < measure s)%nat.
Proof.
  revert s; induction sched as [|a r IH]; intros s HI (a0 & Hin & He); [destruct Hin|].
  rewrite run_cons. pose proof (do_act_measure s a HI) as [H1 H2].
  pose proof (run_measure_le r _ (do_act_inv s a HI)) as H3.
  destruct (effective_dec s a) as [Ha|Ha].
  - specialize (H2 Ha). lia.
  - rewrite (not_effective_same _ _ Ha) in *. destruct Hin as [->|Hin]; [contradiction|].
    assert ((measure (run r s) < measure s)%nat) by (apply IH; eauto). lia.
Qed.

(* ---- progress ------------------------------------------------------------------------------------ *)
Lemma sect_enabled s t th :
  Inv s -> nth_error (s_threads s) t = Some th -> sect_of th = SInit \/ sect_of th = SRec ->
  step s t <> None.
Proof.
  intros HI Ht Hsec. destruct (inv_threads s HI t th Ht) as (c & Hc & Hti).
  unfold step. rewrite Ht, Hc.
  assert (Hsrv : nth_error (s_chain s) (s_cur s) <> None) by (apply nth_error_Some; apply (inv_cur s HI)).
  destruct (nth_error (s_chain s) (s_cur s)) as [h|]; [clear Hsrv|congruence].
  pose proof (ti_fetched _ _ _ _ _ Hti) as Hf.
  destruct th as [cl path key p msg lat first init data wc new res]. unfold sect_of in *. cbn in *.
  unfold step_at; cbn.
  destruct p; cbn in *; try (destruct Hsec; discriminate).
  all: repeat match goal with |- context [if ?x then _ else _] => destruct x end; try discriminate.
  all: try (destruct (lookup key (s_cache s)); discriminate).
  destruct data; [discriminate|]. exfalso. apply Hf; auto.
Qed.

Definition unfinished (s : state) : Prop :=
  exists t th, nth_error (s_threads s) t = Some th /\ t_pc th <> PDone.

Lemma progress s : Inv s -> unfinished s -> exists t, (t < length (s_threads s))%nat /\ step s t <> None.
Proof.
  intros HI (t & th & Ht & Hpc).
  destruct (inv_threads s HI t th Ht) as (c & Hc & Hti).
  pose proof (inv_clients s HI _ _ Hc) as Hci.
  destruct (sect_of th) eqn:Hsec.
  - (* SPre *) unfold sect_of in Hsec.
    destruct (t_pc th) eqn:Hp; try discriminate; try (destruct (t_init th); discriminate).
    + exists t. split; [eapply nth_some_lt; eauto|]. unfold step. rewrite Ht, Hc. unfold step_at. rewrite Hp.
      destruct (skips c th); discriminate.
    + destruct (c_init c) as [|t0|] eqn:Hi.
      * exists t. split; [eapply nth_some_lt; eauto|]. unfold step. rewrite Ht, Hc. unfold step_at. rewrite Hp, Hi. discriminate.
      * destruct (ci_init _ _ _ _ Hci t0 Hi) as (th0 & Ht0 & _ & Hs0).
        exists t0. split; [eapply nth_some_lt; eauto|]. eapply sect_enabled; eauto.
      * exists t. split; [eapply nth_some_lt; eauto|]. unfold step. rewrite Ht, Hc. unfold step_at. rewrite Hp, Hi. discriminate.
  - exists t. split; [eapply nth_some_lt; eauto|]. eapply sect_enabled; eauto.
  - (* SMid *) unfold sect_of in Hsec.
    destruct (t_pc th) eqn:Hp; try discriminate; try (destruct (t_init th); discriminate).
    destruct (lookup (t_key th) (c_cells c)) as [[t0|r]|] eqn:Hl.
    + destruct (ci_run _ _ _ _ Hci _ t0 Hl) as (th0 & Ht0 & _ & _ & Hs0).
      exists t0. split; [eapply nth_some_lt; eauto|]. eapply sect_enabled; eauto.
    + exists t. split; [eapply nth_some_lt; eauto|]. unfold step. rewrite Ht, Hc. unfold step_at. rewrite Hp, Hl. discriminate.
    + exists t. split; [eapply nth_some_lt; eauto|]. unfold step. rewrite Ht, Hc. unfold step_at. rewrite Hp, Hl. discriminate.
  - exists t. split; [eapply nth_some_lt; eauto|]. eapply sect_enabled; eauto.
  - unfold sect_of in Hsec.
    destruct (t_pc th) eqn:Hp; try discriminate; try (destruct (t_init th); discriminate). congruence.
Qed.

(* ---- termination ----------------------------------------------------------------------------------- *)
(* a segment of a schedule in which every thread gets at least one turn *)
Definition covers (n : nat) (seg : list act) : Prop :=
  forall t, (t < n)%nat -> In (AThread t) seg.

Lemma unfinished_dec s : unfinished s \/ ~ unfinished s.
Proof.
  unfold unfinished. induction (s_threads s) as [|th l IH].
  - right. intros (t & th & H & _). destruct t; discriminate.
  - destruct (t_pc th) eqn:Hp;
      try (left; exists O, th; split; [reflexivity|congruence]).
    destruct IH as [(t & th2 & H1 & H2)|IH].
    + left. exists (S t), th2. auto.
    + right. intros (t & th2 & H1 & H2). destruct t as [|t]; cbn in H1.
      * injection H1 as <-. congruence.
      * apply IH. eauto.
Qed.

Lemma length_threads_do_act s a : length (s_threads (fst (do_act s a))) = length (s_threads s).
Proof.
  destruct a as [t|]; cbn.
  - destruct (step s t) as [[s' l]|] eqn:E; cbn; auto.
    destruct (step_shape _ _ _ _ E) as (th & c & th' & c' & cfg' & cache' & _ & _ & _ & ->).
    destruct l; cbn; apply length_upd.
  - unfold grow. destruct (Nat.ltb _ _); reflexivity.
Qed.

Lemma length_threads_run sched s : length (s_threads (run sched s)) = length (s_threads s).
Proof.
  revert s; induction sched as [|a r IH]; intros s; auto.
  rewrite run_cons, IH. apply length_threads_do_act.
Qed.

Lemma pc_done_dec p : p = PDone \/ p <> PDone.
Proof. destruct p; (left; reflexivity) || (right; discriminate). Qed.

Lemma finished_do_act s a : ~ unfinished s -> ~ unfinished (fst (do_act s a)).
Proof.
  intros Hf. destruct a as [t|]; cbn.
  - destruct (step s t) as [[s' l]|] eqn:E; cbn; auto. exfalso.
    destruct (step_shape _ _ _ _ E) as (th & c & th' & c' & cfg' & cache' & Ht & _ & Hs & _).
    destruct (pc_done_dec (t_pc th)) as [Hp|Hp].
    + unfold step_at in Hs. rewrite Hp in Hs. discriminate.
    + apply Hf. exists t, th. auto.
  - unfold grow. destruct (Nat.ltb _ _); cbn; auto.
Qed.

Lemma finished_run sched s : ~ unfinished s -> ~ unfinished (run sched s).
Proof.
  revert s; induction sched as [|a r IH]; intros s Hf; auto.
  rewrite run_cons. apply IH. now apply finished_do_act.
Qed.

Lemma segments_measure segs s :
  Inv s -> (forall seg, In seg segs -> covers (length (s_threads s)) seg) ->
  ~ unfinished (run (concat segs) s) \/
  (measure (run (concat segs) s) + length segs <= measure s)%nat.
Proof.
  revert s; induction segs as [|seg segs IH]; intros s HI Hcov.
  - right. cbn. lia.
  - cbn [concat]. rewrite run_app.
    destruct (unfinished_dec s) as [Hu|Hu]; [|left; now apply finished_run, finished_run].
    destruct (progress s HI Hu) as (t & Hlt & Ht).
    assert (Hlt2 : (measure (run seg s) < measure s)%nat).
    { apply run_measure_lt; auto. exists (AThread t). split; [|exact Ht].
      apply (Hcov seg); [now left|auto]. }
    destruct (IH (run seg s)) as [Hd|Hd].
    + now apply run_inv.
    + intros sg Hin. rewrite length_threads_run. apply Hcov. now right.
    + now left.
    + right. cbn [length]. lia.
Qed.

(* Every schedule that consists of at least [measure s] segments, each giving every thread a
   turn (with any growth of the server in between), ends with all lookups returned. *)
Theorem terminates_segments segs s :
  Inv s -> (forall seg, In seg segs -> covers (length (s_threads s)) seg) ->
  (measure s <= length segs)%nat -> ~ unfinished (run (concat segs) s).
Proof.
  intros HI Hcov Hm. destruct (segments_measure segs s HI Hcov) as [Hd|Hd]; auto.
  intros Hu. assert (HI' : Inv (run (concat segs) s)) by now apply run_inv.
  destruct (progress _ HI' Hu) as (t & _ & Ht).
  destruct (step (run (concat segs) s) t) as [[s' l]|] eqn:E; [|congruence].
  pose proof (step_measure _ _ _ _ HI' E). lia.
Qed.

(* the bound on the number of effective actions of ANY schedule *)
Fixpoint effective_count (sched : list act) (s : state) : nat :=
  match sched with
  | [] => O
  | a :: r => ((match a with
                | AThread t => match step s t with Some _ => 1 | None => 0 end
                | AGrow => match grow s with Some _ => 1 | None => 0 end
                end) + effective_count r (fst (do_act s a)))%nat
  end.

Theorem effective_steps_bounded sched s :
  Inv s -> (effective_count sched s + measure (run sched s) <= measure s)%nat.
Proof.
  revert s; induction sched as [|a r IH]; intros s HI; [cbn; lia|].
  rewrite run_cons. cbn [effective_count].
  specialize (IH _ (do_act_inv s a HI)). pose proof (do_act_measure s a HI) as [H1 H2].
  destruct a as [t|]; cbn [effective] in H2.
  - destruct (step s t) eqn:E; [|lia]. assert ((measure (fst (do_act s (AThread t))) < measure s)%nat) by (apply H2; congruence). lia.
  - destruct (grow s) eqn:E; [|lia]. assert ((measure (fst (do_act s AGrow)) < measure s)%nat) by (apply H2; congruence). lia.
Qed.
