(* Wire dispatcher for the checksum-database SERVER model (Client/Server.v; auxiliary check B01).

   Execution instances of the Section variables of the TestServer part:
     leaf_hash = Sha.record_hash; node_hash = Sha.node_hash_sha;
     gosum     = the table that comes with the case (first match; a module that is not listed does
                 not exist); kind 0 = data, 1,2 = an error with os.IsNotExist (os.ErrNotExist itself, a
                 *fs.PathError around ENOENT), 3,4 = another error (3 is fmt.Errorf("%w", os.ErrNotExist):
                 os.IsNotExist does not unwrap it), 5 = the callback panics;
     Sg        = the table (text, signature) that comes with the case: the harness signs with
                 crypto/ed25519 every tree text the real server produced; Ed25519 is not modelled.  A text
                 the model computes that is not in the table makes Signed fail (500), so a wrong tree
                 text or a wrong signature of the implementation shows up as a disagreement;
     sgn       = the (name, key hash) of the server key.

   Function "Session" (Go side: harness/props/b01.go)
     argument  L[ S signer-name; I signer-key-hash;
                  L[L[S text; S sig]..]                     signatures
                  L[L[S path; S vers; I kind; S data]..]    gosum
                  L[step..] ]      step = L[S "get"; S url-path]            one request to sumdb.NewServer(ts)
                                        | L[S "grow"; S path; S vers]       ts.Lookup(ctx, module.Version{..}) directly
     result    L[result..]   get:  L[I 200; I ctype; S body] (ctype 0 text/plain; charset=UTF-8, 1 application/octet-stream)
                                   | L[I status] | panic
                             grow: ok I id | err notexist | err fail | panic
   Function "ModVer": argument S s, result bool (modVerRE.MatchString(s)). *)
From Verif.Base Require Import Bytes Wire.
From Verif.Tlog Require Import Index Tree Codec Sha Tile.
From Verif.Note Require Import Note.
From Verif.Client Require Import Server.

Fixpoint assoc_str (k : str) (l : list (str * str)) : option str :=
  match l with
  | [] => None
  | (k', v) :: r => if str_eqb k k' then Some v else assoc_str k r
  end.

Definition gosum_kind (kind : Z) (data : str) : gres :=
  if kind =? 0 then OOk data
  else if (kind =? 1) || (kind =? 2) then ONotExist
  else if kind =? 5 then OPanic
  else OFail.

Fixpoint gosum_table (t : list (str * str * Z * str)) (path vers : str) : gres :=
  match t with
  | [] => ONotExist
  | (p, v, k, d) :: r =>
      if str_eqb p path && str_eqb v vers then gosum_kind k d else gosum_table r path vers
  end.

Fixpoint dec_sigs (l : list val) : option (list (str * str)) :=
  match l with
  | [] => Some []
  | VL [VS t; VS s] :: r => option_map (cons (t, s)) (dec_sigs r)
  | _ => None
  end.

Fixpoint dec_gosum (l : list val) : option (list (str * str * Z * str)) :=
  match l with
  | [] => Some []
  | VL [VS p; VS v; VI k; VS d] :: r => option_map (cons (p, v, k, d)) (dec_gosum r)
  | _ => None
  end.

Inductive step := SGet (p : str) | SGrow (path vers : str).

Fixpoint dec_steps (l : list val) : option (list step) :=
  match l with
  | [] => Some []
  | VL [VS k; VS p] :: r =>
      if str_eqb k (B "get") then option_map (cons (SGet p)) (dec_steps r) else None
  | VL [VS k; VS p; VS v] :: r =>
      if str_eqb k (B "grow") then option_map (cons (SGrow p v)) (dec_steps r) else None
  | _ => None
  end.

Definition enc_http (r : http_result) : val :=
  match r with
  | HOk CText body => VL [VI 200; VI 0; VS body]
  | HOk COctet body => VL [VI 200; VI 1; VS body]
  | HStatus c => VL [VI c]
  | HPanic => VPanic
  end.

Definition enc_grow (r : ores Z) : val :=
  match r with
  | OOk id => VOk (VI id)
  | ONotExist => VErr "notexist"
  | OFail => VErr "fail"
  | OPanic => VPanic
  end.

Section Run.
Variable name : str.
Variable khash : Z.
Variable sigs : list (str * str).
Variable gs : list (str * str * Z * str).

Definition sgn_i : signer unit := {| sg_name := name; sg_hash := khash; sg_id := tt |}.
Definition Sg_i (_ : unit) (text : str) : option str := assoc_str text sigs.

Definition serve_i : tstate -> str -> http_result * tstate :=
  serve_test record_hash node_hash_sha (gosum_table gs) unit Sg_i sgn_i.
Definition grow_i : tstate -> str -> str -> ores Z * tstate :=
  test_lookup record_hash node_hash_sha (gosum_table gs).

Fixpoint run_steps (st : tstate) (steps : list step) : list val :=
  match steps with
  | [] => []
  | SGet p :: r => let (res, st') := serve_i st p in enc_http res :: run_steps st' r
  | SGrow p v :: r => let (res, st') := grow_i st p v in enc_grow res :: run_steps st' r
  end.
End Run.

Definition dispatch (f : str) (a : val) : val :=
  if str_eqb f (B "Session") then
    match a with
    | VL [VS name; VI khash; VL sigs; VL gs; VL steps] =>
        match dec_sigs sigs, dec_gosum gs, dec_steps steps with
        | Some sigs', Some gs', Some steps' => VL (run_steps name khash sigs' gs' tstate0 steps')
        | _, _, _ => VBadCase
        end
    | _ => VBadCase
    end
  else if str_eqb f (B "ModVer") then
    match a with
    | VS s => VB (mod_ver_match s)
    | _ => VBadCase
    end
  else VBadCase.
