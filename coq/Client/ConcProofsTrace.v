(* C14 — proofs, part 2: properties of the trace of a run (fetch_once) and of quiescent
   states (ends_at_max). *)
From Verif.Base Require Import Bytes.
From Verif.Module Require Import Match.
From Verif.Client Require Import Conc ConcProofs.

Definition ev (t : nat) (l : label) : list event :=
  match l with LTau => [] | _ => [(t, l)] end.

Lemma do_act_thread s t :
  do_act s (AThread t) = match step s t with
                         | Some (s', l) => (s', ev t l)
                         | None => (s, [])
                         end.
Proof. cbn. destruct (step s t) as [[s' l]|]; auto. destruct l; auto. Qed.

Lemma step_shape s t s' l :
  step s t = Some (s', l) ->
  exists th c th' c' cfg' cache',
    nth_error (s_threads s) t = Some th /\ nth_error (s_clients s) (t_cl th) = Some c /\
    step_at t th c (s_cfg s) (s_cache s) (nth_error (s_chain s) (s_cur s)) = Some (th', c', cfg', cache', l) /\
    s' = build s t th' (t_cl th) c' cfg' cache'.
Proof.
  unfold step. intros H.
  destruct (nth_error (s_threads s) t) as [th|] eqn:Ht; [|discriminate].
  destruct (nth_error (s_clients s) (t_cl th)) as [c|] eqn:Hc; [|discriminate].
  destruct (step_at t th c (s_cfg s) (s_cache s) (nth_error (s_chain s) (s_cur s)))
    as [[[[[th' c'] cfg'] cache'] l']|] eqn:Hs; [|discriminate].
  injection H as <- <-. exists th, c, th', c', cfg', cache'. auto.
Qed.

(* induction over the schedule for invariants that relate the state and the trace so far *)
Lemma run_tr_invariant (P : state -> list event -> Prop) :
  (forall s tr t s' l, Inv s -> P s tr -> step s t = Some (s', l) -> P s' (tr ++ ev t l)) ->
  (forall s tr s', Inv s -> P s tr -> grow s = Some s' -> P s' tr) ->
  forall sched s tr, Inv s -> P s tr -> P (run sched s) (tr ++ trace sched s).
Proof.
  intros Hstep Hgrow. induction sched as [|a r IH]; intros s tr HI HP.
  - cbn. now rewrite app_nil_r.
  - rewrite run_cons, trace_cons, app_assoc. apply IH; [now apply do_act_inv|].
    destruct a as [t|].
    + rewrite do_act_thread. destruct (step s t) as [[s' l]|] eqn:E; cbn.
      * eapply Hstep; eauto.
      * now rewrite app_nil_r.
    + cbn. destruct (grow s) eqn:E; cbn; rewrite app_nil_r; eauto.
Qed.

(* ---- fetch_once ------------------------------------------------------------------------------- *)
Definition is_rc (ci k : nat) (e : event) : bool :=
  match snd e with LReadCache c' k' _ => Nat.eqb ci c' && Nat.eqb k k' | _ => false end.
Definition is_rr (ci k : nat) (e : event) : bool :=
  match snd e with LReadRemote c' k' _ => Nat.eqb ci c' && Nat.eqb k k' | _ => false end.
Definition nrc (ci k : nat) (tr : list event) : nat := length (filter (is_rc ci k) tr).
Definition nrr (ci k : nat) (tr : list event) : nat := length (filter (is_rr ci k) tr).

Definition cells_of (s : state) (ci : nat) : list (nat * cell) :=
  match nth_error (s_clients s) ci with Some c => c_cells c | None => [] end.

Definition FO (s : state) (tr : list event) : Prop := forall ci k,
  (nrc ci k tr <= 1)%nat /\ (nrr ci k tr <= 1)%nat /\
  (lookup k (cells_of s ci) = None -> nrc ci k tr = O /\ nrr ci k tr = O) /\
  (forall t th, nth_error (s_threads s) t = Some th -> t_cl th = ci -> t_key th = k ->
     (t_pc th = PReadCache -> nrc ci k tr = O /\ nrr ci k tr = O) /\
     (t_pc th = PReadRemote -> nrr ci k tr = O)).

Lemma count_ev (f : event -> bool) tr t l :
  f (t, LTau) = false ->
  length (filter f (tr ++ ev t l)) = (length (filter f tr) + if f (t, l) then 1 else 0)%nat.
Proof.
  intros Htau. rewrite filter_app, app_length. f_equal.
  destruct l; cbn; try (rewrite Htau; reflexivity); match goal with |- context [f ?e] => destruct (f e) end; auto.
Qed.

Lemma step_at_fo t th c cfg cache srv th' c' cfg' cache' l :
  step_at t th c cfg cache srv = Some (th', c', cfg', cache', l) ->
  (forall ci k r, l = LReadCache ci k r -> ci = t_cl th /\ k = t_key th /\ t_pc th = PReadCache) /\
  (forall ci k h, l = LReadRemote ci k h -> ci = t_cl th /\ k = t_key th /\ t_pc th = PReadRemote) /\
  (t_pc th = PReadCache -> exists r, l = LReadCache (t_cl th) (t_key th) r) /\
  (forall k, lookup k (c_cells c') = None -> lookup k (c_cells c) = None) /\
  (t_pc th' = PReadCache -> t_pc th = PCellGate /\ lookup (t_key th) (c_cells c) = None) /\
  (t_pc th' = PReadRemote -> t_pc th = PReadCache).
Proof.
  intros H. destruct th as [cl path key p msg lat first init data wc new res].
  crack H; cbn in *; subst p.
  all: repeat split; intros; try discriminate; eauto.
  all: try (match goal with H : _ = LReadCache _ _ _ |- _ => injection H as -> -> _ end; auto).
  all: try (match goal with H : _ = LReadRemote _ _ _ |- _ => injection H as -> -> _ end; auto).
  all: try (revert H; unfold decide, ret, mdone; cbn; ifs; cbn; intros; discriminate).
  all: try (match goal with H : context [Nat.eqb ?a ?b] |- _ => destruct (Nat.eqb a b); [discriminate|auto] end).
Qed.

Lemma is_rc_true ci k t l : is_rc ci k (t, l) = true -> exists r, l = LReadCache ci k r.
Proof.
  unfold is_rc; cbn. destruct l; try discriminate. intros H. apply andb_true_iff in H as [H1 H2].
  apply Nat.eqb_eq in H1, H2. subst. eauto.
Qed.
Lemma is_rr_true ci k t l : is_rr ci k (t, l) = true -> exists h, l = LReadRemote ci k h.
Proof.
  unfold is_rr; cbn. destruct l; try discriminate. intros H. apply andb_true_iff in H as [H1 H2].
  apply Nat.eqb_eq in H1, H2. subst. eauto.
Qed.
Lemma is_rc_refl ci k t r : is_rc ci k (t, LReadCache ci k r) = true.
Proof. unfold is_rc; cbn. now rewrite !Nat.eqb_refl. Qed.

Lemma cells_of_build s t th' ci0 c c' cfg' cache' ci :
  nth_error (s_clients s) ci0 = Some c ->
  cells_of (build s t th' ci0 c' cfg' cache') ci = if Nat.eqb ci ci0 then c_cells c' else cells_of s ci.
Proof.
  intros Hc. unfold cells_of; cbn. destruct (Nat.eqb_spec ci ci0) as [->|Hne].
  - rewrite nth_upd_eq; auto. eapply nth_some_lt; eauto.
  - rewrite nth_upd_ne; auto.
Qed.

Lemma step_FO s tr t s' l : Inv s -> FO s tr -> step s t = Some (s', l) -> FO s' (tr ++ ev t l).
Proof.
  intros HI HF H.
  destruct (step_shape _ _ _ _ H) as (th & c & th' & c' & cfg' & cache' & Ht & Hc & Hs & ->).
  destruct (step_at_fo _ _ _ _ _ _ _ _ _ _ _ Hs) as (F1 & F2 & F3 & F4 & F5 & F6).
  destruct (step_at_static _ _ _ _ _ _ _ _ _ _ _ Hs) as (Hcl & Hkey & _ & _).
  destruct (inv_threads s HI t th Ht) as (c0 & Hc0 & Hti). rewrite Hc in Hc0. injection Hc0 as <-.
  assert (Hlt : (t < length (s_threads s))%nat) by (eapply nth_some_lt; eauto).
  intros ci k. destruct (HF ci k) as (H1 & H2 & H3 & H4).
  unfold nrc, nrr in *. rewrite !count_ev by reflexivity.
  (* ownership: another thread of the same client and key cannot be fetching too *)
  assert (Hown : forall t2 th2, t2 <> t -> nth_error (s_threads s) t2 = Some th2 ->
            t_cl th2 = t_cl th -> t_key th2 = t_key th -> sect_of th = SRec ->
            t_pc th2 = PReadCache \/ t_pc th2 = PReadRemote -> False).
  { intros t2 th2 Hne Ht2 Hcl2 Hk2 Hsec Hpc2.
    destruct (inv_threads s HI t2 th2 Ht2) as (c2 & Hc2 & Hti2).
    rewrite Hcl2, Hc in Hc2. injection Hc2 as <-.
    pose proof (ti_rec _ _ _ _ _ Hti Hsec) as E1.
    assert (Hsec2 : sect_of th2 = SRec) by (unfold sect_of; destruct Hpc2 as [-> | ->]; reflexivity).
    pose proof (ti_rec _ _ _ _ _ Hti2 Hsec2) as E2. rewrite Hk2, E1 in E2. congruence. }
  assert (Hnew : forall t2 th2, nth_error (s_threads (build s t th' (t_cl th) c' cfg' cache')) t2 = Some th2 ->
            (t2 = t /\ th2 = th') \/ (t2 <> t /\ nth_error (s_threads s) t2 = Some th2)).
  { intros t2 th2 E. cbn in E. apply nth_upd in E. tauto. }
  assert (Hcells : cells_of (build s t th' (t_cl th) c' cfg' cache') (t_cl th) = c_cells c').
  { now rewrite (cells_of_build _ _ _ _ _ _ _ _ _ Hc), Nat.eqb_refl. }
  destruct (is_rc ci k (t, l)) eqn:Erc; [|destruct (is_rr ci k (t, l)) eqn:Err].
  - (* this step is the cache read of (ci, k) *)
    destruct (is_rc_true _ _ _ _ Erc) as (r & ->).
    destruct (F1 _ _ _ eq_refl) as (-> & -> & Hpc).
    destruct (H4 t th Ht eq_refl eq_refl) as (H4a & _). destruct (H4a Hpc) as (E1 & E2).
    assert (Hsec : sect_of th = SRec) by (unfold sect_of; now rewrite Hpc).
    cbn [is_rr snd]. rewrite E1, E2. split; [auto|split; [auto|split]].
    + intros Hn. rewrite Hcells in Hn.
      apply F4 in Hn. rewrite (ti_rec _ _ _ _ _ Hti Hsec) in Hn. discriminate.
    + intros t2 th2 Ht2 Hcl2 Hk2. destruct (Hnew _ _ Ht2) as [(-> & ->)|(Hne & Ht2')]; split; intros Hp.
      * apply F5 in Hp as (Hp & _). congruence.
      * reflexivity.
      * exfalso. eapply Hown; eauto.
      * reflexivity.
  - (* this step is the remote read of (ci, k) *)
    destruct (is_rr_true _ _ _ _ Err) as (h & ->).
    destruct (F2 _ _ _ eq_refl) as (-> & -> & Hpc).
    destruct (H4 t th Ht eq_refl eq_refl) as (_ & H4b). pose proof (H4b Hpc) as E2.
    assert (Hsec : sect_of th = SRec) by (unfold sect_of; now rewrite Hpc).
    rewrite E2. split; [lia|split; [auto|split]].
    + intros Hn. rewrite Hcells in Hn.
      apply F4 in Hn. rewrite (ti_rec _ _ _ _ _ Hti Hsec) in Hn. discriminate.
    + intros t2 th2 Ht2 Hcl2 Hk2. destruct (Hnew _ _ Ht2) as [(-> & ->)|(Hne & Ht2')]; split; intros Hp.
      * apply F5 in Hp as (Hp & _). congruence.
      * apply F6 in Hp. congruence.
      * exfalso. eapply Hown; eauto.
      * exfalso. eapply Hown; eauto.
  - (* the counts of (ci, k) do not change *)
    rewrite !Nat.add_0_r.
    assert (Hnone : lookup k (cells_of (build s t th' (t_cl th) c' cfg' cache') ci) = None ->
                    lookup k (cells_of s ci) = None).
    { rewrite (cells_of_build _ _ _ _ _ _ _ _ _ Hc). destruct (Nat.eqb_spec ci (t_cl th)) as [->|Hne]; auto.
      intros Hn. apply F4 in Hn. unfold cells_of. now rewrite Hc. }
    split; [auto|split; [auto|split]].
    + intros Hn. apply Hnone in Hn. now apply H3.
    + intros t2 th2 Ht2 Hcl2 Hk2. destruct (Hnew _ _ Ht2) as [(-> & ->)|(Hne & Ht2')]; split; intros Hp.
      * apply F5 in Hp as (Hp & Hn). rewrite Hcl in Hcl2. rewrite Hkey in Hk2. subst ci k.
        apply H3. unfold cells_of. now rewrite Hc.
      * apply F6 in Hp. destruct (F3 Hp) as (r & ->). rewrite Hcl in Hcl2. rewrite Hkey in Hk2. subst ci k.
        rewrite is_rc_refl in Erc. discriminate.
      * destruct (H4 _ _ Ht2' Hcl2 Hk2) as (H4a & _). now apply H4a.
      * destruct (H4 _ _ Ht2' Hcl2 Hk2) as (_ & H4b). now apply H4b.
Qed.

Lemma FO_init chain cur cfg cache nos lks : FO (init_state chain cur cfg cache nos lks) [].
Proof.
  intros ci k. cbn. repeat split; auto.
Qed.

Lemma grow_FO s tr s' : Inv s -> FO s tr -> grow s = Some s' -> FO s' tr.
Proof.
  intros _ HF Hg. unfold grow in Hg. destruct (Nat.ltb _ _); [|discriminate].
  injection Hg as <-. exact HF.
Qed.

Theorem fetch_once_run chain cur cfg cache nos lks sched ci k :
  wf_init chain cur cfg cache nos lks ->
  (nrc ci k (trace sched (init_state chain cur cfg cache nos lks)) <= 1)%nat /\
  (nrr ci k (trace sched (init_state chain cur cfg cache nos lks)) <= 1)%nat.
Proof.
  intros Hwf.
  pose proof (run_tr_invariant FO step_FO grow_FO sched _ [] (init_inv _ _ _ _ _ _ Hwf)
                (FO_init chain cur cfg cache nos lks)) as HF.
  cbn in HF. destruct (HF ci k) as (H1 & H2 & _). auto.
Qed.

(* ---- ends_at_max -------------------------------------------------------------------------------
   (1) whenever a client's memory head is ahead of the configuration file, some thread of that
       client is still in the write-back loop of mergeLatest and will write a head at least
       that large;
   (2) every head a client was served is in its memory, or a thread still carries it towards
       the install step. *)
Definition flusher (th : thread) (m : Z) : Prop :=
  match t_pc th with
  | PReadConfig | PReadMsg => True
  | PMemRead | PInstall => t_first th = false
  | PCheckOld => t_first th = false /\ size (t_msg th) < size (t_lat th)
  | PWriteConfig => m <= size (t_new th)
  | _ => False
  end.

Definition FL (s : state) : Prop := forall ci c, nth_error (s_clients s) ci = Some c ->
  size (c_mem c) <= size (s_cfg s) \/
  exists t th, nth_error (s_threads s) t = Some th /\ t_cl th = ci /\ flusher th (size (c_mem c)).

Lemma step_at_flush ch cfg cache srv c t th th' c' cfg' cache' l :
  tinv ch cfg c t th -> 0 <= size cfg ->
  step_at t th c cfg cache srv = Some (th', c', cfg', cache', l) ->
  size (c_mem c') <= size cfg' \/ flusher th' (size (c_mem c')) \/
  (c_mem c' = c_mem c /\ ~ flusher th (size (c_mem c))).
Proof.
  intros Hi Hnn H. destruct th as [cl path key p msg lat first init data wc new res].
  crack H; cbn in *; subst p; destruct Hi; cbn in *; unfold sect_of in *; cbn in *; spec.
  all: set (F := flusher); unfold decide, ret, mdone; cbn; ifs; subst F; unfold flusher; cbn; zb; cbn in *; spec.
  all: try (right; right; split; [reflexivity|]; intuition (try discriminate; try lia); fail).
  all: try (right; left; auto; lia).
  all: try (left; lia).
  all: destruct (Z_le_gt_dec (size (c_mem c')) (size cfg')); [left; lia|].
  all: try (destruct first; spec).
  all: first [ right; left; reflexivity
             | right; left; lia
             | right; left; split; [reflexivity|lia]
             | right; right; split; [reflexivity|]; intuition (try discriminate; try lia) ].
Qed.


Lemma step_FL s t s' l : Inv s -> FL s -> step s t = Some (s', l) -> FL s'.
Proof.
  intros HI HF H.
  destruct (step_shape _ _ _ _ H) as (th & c & th' & c' & cfg' & cache' & Ht & Hc & Hs & ->).
  destruct (step_at_static _ _ _ _ _ _ _ _ _ _ _ Hs) as (Hcl & _ & _ & _).
  destruct (inv_threads s HI t th Ht) as (c0 & Hc0 & Hti). rewrite Hc in Hc0. injection Hc0 as <-.
  assert (Hlt : (t < length (s_threads s))%nat) by (eapply nth_some_lt; eauto).
  assert (Hnn : 0 <= size (s_cfg s)).
  { eapply hin_nonneg; [apply (inv_nonneg s HI)|apply (inv_cfg s HI)]. }
  destruct (step_at_cext (S t) _ _ _ _ _ _ _ _ _ _ _ _ (Nat.neq_succ_diag_l t) Hti Hs) as (_ & Hmono).
  intros ci c2 Hc2. cbn in Hc2. cbn [s_cfg build s_threads].
  apply nth_upd in Hc2 as [(-> & -> & _)|(Hne & Hc2)].
  - destruct (step_at_flush _ _ _ _ _ _ _ _ _ _ _ _ Hti Hnn Hs) as [K|[K|(Km & Kf)]].
    + now left.
    + right. exists t, th'. rewrite nth_upd_eq by auto. auto.
    + rewrite Km. destruct (HF _ _ Hc) as [Hl|(t2 & th2 & Ht2 & Hcl2 & Hf2)]; [left; lia|].
      right. exists t2, th2. rewrite nth_upd_ne; auto. intros ->. rewrite Ht in Ht2. congruence.
  - destruct (HF _ _ Hc2) as [Hl|(t2 & th2 & Ht2 & Hcl2 & Hf2)]; [left; lia|].
    right. exists t2, th2. rewrite nth_upd_ne; auto. intros ->. rewrite Ht in Ht2. congruence.
Qed.

Definition read_of (l : label) : option (nat * Z) :=
  match l with
  | LReadConfig c (Some h) => Some (c, fst h)
  | LReadCache c _ (Some h) => Some (c, fst h)
  | LReadRemote c _ h => Some (c, fst h)
  | _ => None
  end.

Definition carrier (th : thread) (z : Z) : Prop :=
  (t_pc th = PMemRead \/ t_pc th = PInstall) /\ z <= size (t_msg th).

Definition SEEN (s : state) (tr : list event) : Prop := forall e ci z,
  In e tr -> read_of (snd e) = Some (ci, z) ->
  z <= size (mem_of s ci) \/
  exists t th, nth_error (s_threads s) t = Some th /\ t_cl th = ci /\ carrier th z.

Lemma step_at_carry ch cfg cache srv c t th th' c' cfg' cache' l z :
  tinv ch cfg c t th -> 0 <= size (c_mem c) ->
  step_at t th c cfg cache srv = Some (th', c', cfg', cache', l) ->
  carrier th z -> z <= size (c_mem c') \/ carrier th' z.
Proof.
  intros Hi Hnn H [Hpc Hz]. destruct th as [cl path key p msg lat first init data wc new res].
  crack H; cbn in *; subst p; (destruct Hpc as [Hpc|Hpc]; try discriminate Hpc); destruct Hi; cbn in *; spec.
  all: set (F := carrier); unfold decide, ret, mdone; cbn; ifs; subst F; unfold carrier; cbn; zb; cbn in *.
  all: try (left; lia).
  all: try (right; split; [auto|lia]).
Qed.

Lemma step_at_read t th c cfg cache srv th' c' cfg' cache' l ci z :
  step_at t th c cfg cache srv = Some (th', c', cfg', cache', l) ->
  read_of l = Some (ci, z) -> ci = t_cl th /\ carrier th' z.
Proof.
  intros H Hr. destruct th as [cl path key p msg lat first init data wc new res].
  crack H; cbn in *; try discriminate.
  all: repeat match goal with H : context [match ?x with _ => _ end] |- _ => destruct x; try discriminate end.
  all: injection Hr as <- <-; unfold carrier; cbn; split; auto; split; auto; lia.
Qed.

Lemma mem_of_build s t th' ci0 c c' cfg' cache' ci :
  nth_error (s_clients s) ci0 = Some c ->
  mem_of (build s t th' ci0 c' cfg' cache') ci = if Nat.eqb ci ci0 then c_mem c' else mem_of s ci.
Proof.
  intros Hc. unfold mem_of; cbn. destruct (Nat.eqb_spec ci ci0) as [->|Hne].
  - rewrite nth_upd_eq; auto. eapply nth_some_lt; eauto.
  - rewrite nth_upd_ne; auto.
Qed.

Lemma step_SEEN s tr t s' l : Inv s -> SEEN s tr -> step s t = Some (s', l) -> SEEN s' (tr ++ ev t l).
Proof.
  intros HI HS H.
  pose proof (step_heads_le _ _ _ _ HI H) as (_ & Hmem).
  destruct (step_shape _ _ _ _ H) as (th & c & th' & c' & cfg' & cache' & Ht & Hc & Hs & ->).
  destruct (step_at_static _ _ _ _ _ _ _ _ _ _ _ Hs) as (Hcl & _ & _ & _).
  destruct (inv_threads s HI t th Ht) as (c0 & Hc0 & Hti). rewrite Hc in Hc0. injection Hc0 as <-.
  assert (Hlt : (t < length (s_threads s))%nat) by (eapply nth_some_lt; eauto).
  pose proof (ci_nonneg _ _ _ _ (inv_clients s HI _ _ Hc)) as Hnn.
  intros e ci z Hin Hr. apply in_app_or in Hin as [Hin|Hin].
  - destruct (HS e ci z Hin Hr) as [Hl|(t2 & th2 & Ht2 & Hcl2 & Hca)].
    + left. specialize (Hmem ci). lia.
    + destruct (Nat.eq_dec t2 t) as [->|Hne].
      * rewrite Ht in Ht2. injection Ht2 as <-.
        destruct (step_at_carry _ _ _ _ _ _ _ _ _ _ _ _ _ Hti Hnn Hs Hca) as [K|K].
        -- left. rewrite (mem_of_build _ _ _ _ _ _ _ _ _ Hc), <- Hcl2, Nat.eqb_refl. auto.
        -- right. exists t, th'. cbn. rewrite nth_upd_eq by auto. repeat split; auto; try apply K. congruence.
      * right. exists t2, th2. cbn. rewrite nth_upd_ne by auto. auto.
  - destruct l; cbn in Hin; try contradiction; destruct Hin as [<-|[]]; cbn in Hr;
      destruct (step_at_read _ _ _ _ _ _ _ _ _ _ _ _ _ Hs Hr) as (-> & K);
      right; exists t, th'; cbn; rewrite nth_upd_eq by auto; auto.
Qed.

Definition quiescent (s : state) : Prop :=
  forall t th, nth_error (s_threads s) t = Some th -> t_pc th = PDone.

Lemma grow_FL_SEEN s tr s' : Inv s -> FL s /\ SEEN s tr -> grow s = Some s' -> FL s' /\ SEEN s' tr.
Proof.
  intros _ HF Hg. unfold grow in Hg. destruct (Nat.ltb _ _); [|discriminate].
  injection Hg as <-. exact HF.
Qed.

Theorem ends_at_max_run chain cur cfg cache nos lks sched :
  wf_init chain cur cfg cache nos lks ->
  let s := run sched (init_state chain cur cfg cache nos lks) in
  let tr := trace sched (init_state chain cur cfg cache nos lks) in
  quiescent s ->
  (forall ci c, nth_error (s_clients s) ci = Some c -> size (c_mem c) <= size (s_cfg s)) /\
  (forall e ci z, In e tr -> read_of (snd e) = Some (ci, z) -> z <= size (mem_of s ci)).
Proof.
  intros Hwf s tr Hq.
  assert (HP : FL s /\ SEEN s ([] ++ tr)).
  { apply (run_tr_invariant (fun s tr => FL s /\ SEEN s tr)).
    - intros s0 tr0 t s' l HI [HF HS] Hst. split; [eapply step_FL|eapply step_SEEN]; eauto.
    - apply grow_FL_SEEN.
    - now apply init_inv.
    - split.
      + intros ci c Hc. left. cbn in Hc. apply map_nth_error_inv in Hc as (n & _ & <-). cbn.
        eapply hin_nonneg; [apply (wf_nonneg _ _ _ _ _ _ Hwf)|apply (wf_cfg _ _ _ _ _ _ Hwf)].
      + intros e ci z []. }
  destruct HP as [HF HS]. cbn in HS. split.
  - intros ci c Hc. destruct (HF ci c Hc) as [Hl|(t & th & Ht & _ & Hf)]; auto.
    unfold flusher in Hf. rewrite (Hq _ _ Ht) in Hf. contradiction.
  - intros e ci z Hin Hr. destruct (HS e ci z Hin Hr) as [Hl|(t & th & Ht & _ & [Hpc _])]; auto.
    rewrite (Hq _ _ Ht) in Hpc. destruct Hpc; discriminate.
Qed.
