(* Client/SeqProofsTile.v — the tile layer of the sequential client model: what readTile,
   ReadTiles, SaveTiles and the stateful TileHashReader can change and emit.

   Parametric in the authentication predicates of C10 (builder c10-tiles, Tlog/TileSpec.v):
     NodeAt R N l o x  "x is the hash of the complete subtree at (level l, offset o) of the tree
                        of size N with root R" (existence of a sibling path);
     tile_ok R N t d   every entry of tile data d is NodeAt at its coordinate;
   and in their soundness theorem, stated as a Section hypothesis in the form this file uses:
     tiles_sound : the arguments of SaveTiles are tile_ok, the returned hashes are NodeAt,
     saved_authenticated : the arguments of SaveTiles are tile_ok whatever ReadHashes then returns. *)
From Verif.Base Require Import Bytes.
From Verif.Tlog Require Import Index Tree Codec Tile TileReader.
From Verif.Note Require Import Note.
From Verif.Client Require Import Seq.

(* ---- inversion of the state monad ---------------------------------------------------------- *)

Lemma bind_inv {A B} (m : M A) (k : A -> M B) s b s' :
  bindM m k s = (b, s') -> exists a s1, m s = (a, s1) /\ k a s1 = (b, s').
Proof. unfold bindM. destruct (m s) as [a s1]. eauto. Qed.

Lemma ret_inv {A} (a b : A) s s' : ret a s = (b, s') -> b = a /\ s' = s.
Proof. unfold ret. intros [= <- <-]. auto. Qed.

Ltac minv H :=
  let a := fresh "a" in let s1 := fresh "s" in let E := fresh "E" in
  apply bind_inv in H; destruct H as (a & s1 & E & H).

Tactic Notation "minva" hyp(H) ident(a) ident(s1) ident(E) :=
  apply bind_inv in H; destruct H as (a & s1 & E & H).

(* ---- frames ---------------------------------------------------------------------------------- *)

(* what the tile layer never changes *)
Record tframe (s s' : state) : Prop := mkTframe {
  tf_init : c_init (s_c s') = c_init (s_c s);
  tf_name : c_name (s_c s') = c_name (s_c s);
  tf_vs : c_verifiers (s_c s') = c_verifiers (s_c s);
  tf_latest : c_latest (s_c s') = c_latest (s_c s);
  tf_msg : c_latest_msg (s_c s') = c_latest_msg (s_c s);
  tf_records : c_records (s_c s') = c_records (s_c s);
  tf_height : c_height (s_c s') = c_height (s_c s);
  tf_config : w_config (s_w s') = w_config (s_w s);
  tf_interf : w_interf (s_w s') = w_interf (s_w s);
  tf_remote : w_remote (s_w s') = w_remote (s_w s)
}.

Lemma tframe_refl s : tframe s s.
Proof. constructor; reflexivity. Qed.

Lemma tframe_trans s1 s2 s3 : tframe s1 s2 -> tframe s2 s3 -> tframe s1 s3.
Proof. intros [] []. constructor; congruence. Qed.

(* the trace grows by events that all satisfy P *)
Definition textend (P : event -> Prop) (s s' : state) : Prop :=
  exists evs, s_tr s' = s_tr s ++ evs /\ Forall P evs.

Lemma textend_refl P s : textend P s s.
Proof. exists []. rewrite app_nil_r. auto. Qed.

Lemma textend_trans P s1 s2 s3 : textend P s1 s2 -> textend P s2 s3 -> textend P s1 s3.
Proof.
  intros (e1 & H1 & F1) (e2 & H2 & F2). exists (e1 ++ e2). split.
  - rewrite H2, H1, app_assoc. reflexivity.
  - apply Forall_app; auto.
Qed.

Lemma textend_impl (P Q : event -> Prop) s s' :
  (forall e, P e -> Q e) -> textend P s s' -> textend Q s s'.
Proof. intros HPQ (e & H & F). exists e. split; auto. eapply Forall_impl; eauto. Qed.

Lemma textend_one (P : event -> Prop) s s' e : s_tr s' = s_tr s ++ [e] -> P e -> textend P s s'.
Proof. intros H HP. exists [e]. auto. Qed.

Definition is_read (e : event) : Prop :=
  match e with EvReadRemote _ | EvReadCache _ => True | _ => False end.

(* ---- primitive operations ------------------------------------------------------------------- *)

Lemma read_remote_spec p s r s' :
  read_remote p s = (r, s') -> tframe s s' /\ textend is_read s s'.
Proof.
  unfold read_remote, bindM, get_world, set_world, emit, ret; cbn. intros [= <- <-].
  split; [constructor; reflexivity | eapply textend_one; cbn; [reflexivity | exact I]].
Qed.

Lemma read_cache_spec f s r s' :
  read_cache f s = (r, s') -> tframe s s' /\ textend is_read s s'.
Proof.
  unfold read_cache, bindM, get_world, emit, ret; cbn. intros [= <- <-].
  split; [constructor; reflexivity | eapply textend_one; cbn; [reflexivity | exact I]].
Qed.

Lemma write_cache_spec f d s u s' :
  write_cache f d s = (u, s') -> tframe s s' /\ s_tr s' = s_tr s ++ [EvWriteCache f d].
Proof.
  unfold write_cache, bindM, get_world, set_world, emit, ret; cbn. intros [= <- <-].
  split; [constructor; reflexivity | reflexivity].
Qed.

Lemma mark_tile_saved_spec t s u s' :
  mark_tile_saved t s = (u, s') -> tframe s s' /\ s_tr s' = s_tr s.
Proof.
  unfold mark_tile_saved, bindM, get_client, set_client, ret; cbn. intros [= <- <-].
  split; [constructor; reflexivity | reflexivity].
Qed.

Lemma textend_same P s s' : s_tr s' = s_tr s -> textend P s s'.
Proof. intros H. exists []. rewrite app_nil_r. auto. Qed.

(* ---- readTile / ReadTiles ---------------------------------------------------------------------- *)

Definition tl (s s' : state) : Prop := tframe s s' /\ textend is_read s s'.

Lemma tl_refl s : tl s s.
Proof. split; [apply tframe_refl | apply textend_refl]. Qed.

Lemma tl_trans s1 s2 s3 : tl s1 s2 -> tl s2 s3 -> tl s1 s3.
Proof. intros [] []. split; [eapply tframe_trans | eapply textend_trans]; eauto. Qed.

Lemma read_tile_work_spec t s r s' : read_tile_work t s = (r, s') -> tl s s'.
Proof.
  unfold read_tile_work. intros H.
  minv H. unfold get_client in E. inversion E; subst a s0; clear E.
  set (full := mkTile (tH t) (tL t) (tN t) (pow2sh (tH t))) in *.
  assert (Hremote : forall s0 r0 s0',
    (d <- read_remote (tile_remote_path t);;
     match d with
     | Some data => ret (Some data)
     | None =>
         if tile_eqb t full then ret None
         else d2 <- read_remote (tile_remote_path full);;
              match d2 with
              | Some data => ret (Some (tile_prefix data (tW full) (tW t)))
              | None => ret None
              end
     end) s0 = (r0, s0') -> tl s0 s0').
  { intros s0 r0 s0' H0. minv H0. apply read_remote_spec in E.
    destruct a as [data|].
    - apply ret_inv in H0 as [_ ->]. exact E.
    - destruct (tile_eqb t full).
      + apply ret_inv in H0 as [_ ->]. exact E.
      + minv H0. apply read_remote_spec in E0.
        assert (s2 = s0') by (destruct a; apply ret_inv in H0 as [_ ->]; reflexivity). subst.
        eapply tl_trans; eauto. }
  minv H. apply read_cache_spec in E.
  destruct a as [data|].
  - minv H. apply mark_tile_saved_spec in E0 as [F0 T0]. apply ret_inv in H as [_ ->].
    eapply tl_trans; [exact E|]. split; [exact F0 | apply textend_same; exact T0].
  - destruct (tile_eqb t full).
    + eapply tl_trans; [exact E | eapply Hremote; eauto].
    + minv H. apply read_cache_spec in E0.
      destruct a as [data|].
      * minv H. apply mark_tile_saved_spec in E1 as [F1 T1]. apply ret_inv in H as [_ ->].
        eapply tl_trans; [exact E|]. eapply tl_trans; [exact E0|].
        split; [exact F1 | apply textend_same; exact T1].
      * eapply tl_trans; [exact E|]. eapply tl_trans; [exact E0 | eapply Hremote; eauto].
Qed.

Lemma read_tile_spec t s r s' : read_tile t s = (r, s') -> tl s s'.
Proof.
  unfold read_tile. intros H. minv H. unfold get_client in E. inversion E; subst a s0; clear E.
  destruct (tile_find t (c_tiles (s_c s))).
  - apply ret_inv in H as [_ ->]. apply tl_refl.
  - minv H. apply read_tile_work_spec in E.
    minv H. unfold get_client in E0. inversion E0; subst a0 s1; clear E0.
    minv H. unfold set_client in E0. inversion E0; subst a0 s1; clear E0.
    apply ret_inv in H as [_ ->].
    eapply tl_trans; [exact E|]. split; [constructor; reflexivity | apply textend_same; reflexivity].
Qed.

Lemma read_tiles_all_spec ts : forall s r s', read_tiles_all ts s = (r, s') -> tl s s'.
Proof.
  induction ts as [|t ts IH]; intros s r s' H; cbn in H.
  - apply ret_inv in H as [_ ->]. apply tl_refl.
  - minv H. apply read_tile_spec in E. minv H. apply IH in E0. apply ret_inv in H as [_ ->].
    eapply tl_trans; eauto.
Qed.

Lemma read_tiles_spec ts s r s' : read_tiles ts s = (r, s') -> tl s s'.
Proof.
  unfold read_tiles. intros H. minv H. apply read_tiles_all_spec in E. apply ret_inv in H as [_ ->]. exact E.
Qed.

(* ---- SaveTiles ------------------------------------------------------------------------------- *)

Definition saved_ev (name : str) (ts : list tile) (ds : list str) (e : event) : Prop :=
  exists t d, e = EvWriteCache (tile_cache_key name t) d /\ In (t, d) (combine ts ds).

Lemma save_tiles_spec ts : forall ds s u s',
  save_tiles ts ds s = (u, s') ->
  tframe s s' /\ textend (saved_ev (c_name (s_c s)) ts ds) s s'.
Proof.
  induction ts as [|t ts IH]; intros ds s u s' H.
  - cbn in H. apply ret_inv in H as [_ ->]. split; [apply tframe_refl | apply textend_refl].
  - destruct ds as [|d ds].
    + cbn in H. apply ret_inv in H as [_ ->]. split; [apply tframe_refl | apply textend_refl].
    + cbn [save_tiles] in H. minv H. unfold get_client in E. inversion E; subst a s0; clear E.
      minv H.
      assert (Hstep : tframe s s0 /\ textend (saved_ev (c_name (s_c s)) (t :: ts) (d :: ds)) s s0).
      { destruct (tile_mem t (c_tile_saved (s_c s))).
        - apply ret_inv in E as [_ ->]. split; [apply tframe_refl | apply textend_refl].
        - minv E. apply mark_tile_saved_spec in E0 as [F0 T0].
          apply write_cache_spec in E as [F1 T1].
          split; [eapply tframe_trans; eauto|].
          eapply textend_one; [rewrite T1, T0; reflexivity|].
          exists t, d. split; [reflexivity | left; reflexivity]. }
      destruct Hstep as [F T]. apply IH in H as [F' T'].
      split; [eapply tframe_trans; eauto|].
      eapply textend_trans; [exact T|].
      eapply textend_impl; [|exact T'].
      intros e (t0 & d0 & -> & Hin). rewrite (tf_name _ _ F).
      exists t0, d0. split; [reflexivity | right; exact Hin].
Qed.

(* ---- the stateful tile hash reader ----------------------------------------------------------- *)

Section TileAuth.
Variable node_hash : hash -> hash -> hash.
Variable NodeAt : hash -> Z -> Z -> Z -> hash -> Prop.
Variable tile_ok : hash -> Z -> tile -> str -> Prop.

Definition node_auth (R : hash) (N : Z) (i : Z) (x : hash) : Prop :=
  exists l o, split_stored_hash_index i = Index.Ok (l, o) /\ NodeAt R N l o x.

(* C10 read_hashes_sound, through check_and_extract *)
Hypothesis tiles_sound : forall N R h ix rt hs ts ds,
  1 <= h <= 30 -> 0 <= N < 2 ^ 62 ->
  tile_read_hashes node_hash (N, R) h ix rt = (TOk hs, Some (ts, ds)) ->
  Forall2 (node_auth R N) ix hs /\ Forall2 (tile_ok R N) ts ds.

(* C10 read_hashes_saved_only_authenticated: whatever ReadHashes goes on to return *)
Hypothesis saved_authenticated : forall N R h ix rt r ts ds,
  1 <= h <= 30 -> 0 <= N < 2 ^ 62 ->
  tile_read_hashes node_hash (N, R) h ix rt = (r, Some (ts, ds)) -> Forall2 (tile_ok R N) ts ds.

(* events of the tile layer working for tree tr *)
Definition tile_ev (name : str) (tr : tree) (e : event) : Prop :=
  match e with
  | EvReadRemote _ | EvReadCache _ => True
  | EvWriteCache f d => exists t, f = tile_cache_key name t /\ tile_ok (Codec.tH tr) (Codec.tN tr) t d
  | _ => False
  end.

Lemma is_read_tile_ev name tr e : is_read e -> tile_ev name tr e.
Proof. destruct e; cbn; tauto. Qed.

Lemma Forall2_combine_in {A B} (P : A -> B -> Prop) l1 l2 a b :
  Forall2 P l1 l2 -> In (a, b) (combine l1 l2) -> P a b.
Proof.
  induction 1; cbn; [tauto|]. intros [[= <- <-]|Hin]; auto.
Qed.

Lemma tile_read_hashes_st_spec tr ix s r s' :
  1 <= c_height (s_c s) <= 30 -> 0 <= Codec.tN tr < 2 ^ 62 ->
  tile_read_hashes_st node_hash tr ix s = (r, s') ->
  tframe s s' /\ textend (tile_ev (c_name (s_c s)) tr) s s' /\
  (forall hs, r = TOk hs -> Forall2 (node_auth (Codec.tH tr) (Codec.tN tr)) ix hs).
Proof.
  intros Hh HN H. unfold tile_read_hashes_st in H.
  minv H. unfold get_client in E. inversion E; subst a s0; clear E.
  set (h := c_height (s_c s)) in *.
  assert (Hdom : (h <? 1) || (62 <? h) = false).
  { apply orb_false_iff. split; [apply Z.ltb_ge | apply Z.ltb_ge]; lia. }
  rewrite Hdom in H.
  destruct (make_plan (Codec.tN tr) h ix) as [p|e|] eqn:Hplan.
  2,3: apply ret_inv in H as [-> ->]; split; [apply tframe_refl|split; [apply textend_refl | discriminate]].
  minv H. apply read_tiles_spec in E. destruct E as [F T].
  destruct a as [data|].
  2: { apply ret_inv in H as [-> ->]. split; [exact F|]. split; [|discriminate].
       eapply textend_impl; [|exact T]. apply is_read_tile_ev. }
  (* the pure reader that returns the data we read *)
  assert (Hpure : tile_read_hashes node_hash (Codec.tN tr, Codec.tH tr) h ix (fun _ => Some data)
                  = check_and_extract node_hash (Codec.tN tr, Codec.tH tr) p ix data).
  { unfold tile_read_hashes. cbn [fst]. rewrite Hdom, Hplan. reflexivity. }
  destruct (check_and_extract node_hash (Codec.tN tr, Codec.tH tr) p ix data) as [res sv] eqn:Hce.
  cbn [fst snd] in H.
  destruct sv as [[ts ds]|].
  - assert (Hok := saved_authenticated _ _ _ _ _ _ _ _ Hh HN Hpure).
    minv H. apply save_tiles_spec in E as [F' T']. apply ret_inv in H as [-> ->].
    split; [eapply tframe_trans; eauto|]. split.
    + eapply textend_trans; [eapply textend_impl; [|exact T]; apply is_read_tile_ev|].
      eapply textend_impl; [|exact T'].
      intros e (t0 & d0 & -> & Hin). cbn. exists t0. split.
      * rewrite (tf_name _ _ F). reflexivity.
      * eapply Forall2_combine_in; eauto.
    + intros hs' ->. destruct (tiles_sound _ _ _ _ _ _ _ _ Hh HN Hpure) as [Hauth _]. exact Hauth.
  - apply ret_inv in H as [-> ->]. split; [exact F|]. split.
    + eapply textend_impl; [|exact T]. apply is_read_tile_ev.
    + intros hs ->.
      (* a successful read always saves: check_and_extract returns Some whenever it returns hashes *)
      unfold check_and_extract in Hce.
      repeat match type of Hce with
             | (if ?b then _ else _) = _ => destruct b; [discriminate|]
             | match ?x with TOk _ => _ | TErr _ => _ | TPanic => _ end = _ => destruct x; try discriminate
             end.
Qed.

(* ---- TreeHash and ProveTree over the reader -------------------------------------------------- *)

Definition hash_of_prefix (newer : tree) (n : Z) (h : hash) : Prop :=
  (n = 0 /\ h = empty_hash) \/
  exists ix hs, sub_tree_index 0 n [] = Index.Ok ix /\
                Forall2 (node_auth (Codec.tH newer) (Codec.tN newer)) ix hs /\
                tree_hash node_hash n (fun _ => Some hs) = Index.Ok h.

Lemma lift_res_ok {A} (r : Index.res A) a : lift_res r = TOk a -> r = Index.Ok a.
Proof. destruct r; cbn; congruence. Qed.

Lemma tree_hash_st_spec newer n s r s' :
  1 <= c_height (s_c s) <= 30 -> 0 <= Codec.tN newer < 2 ^ 62 ->
  tree_hash_st node_hash newer n s = (r, s') ->
  tframe s s' /\ textend (tile_ev (c_name (s_c s)) newer) s s' /\
  (forall h, r = TOk h -> hash_of_prefix newer n h).
Proof.
  intros Hh HN H. unfold tree_hash_st in H.
  destruct (n =? 0) eqn:Hn0.
  { apply ret_inv in H as [-> ->]. split; [apply tframe_refl|]. split; [apply textend_refl|].
    intros h [= <-]. left. split; [apply Z.eqb_eq; exact Hn0 | reflexivity]. }
  destruct (sub_tree_index 0 n []) as [ix|k|] eqn:Hix.
  2,3: apply ret_inv in H as [-> ->]; split; [apply tframe_refl|split; [apply textend_refl | discriminate]].
  minv H. apply tile_read_hashes_st_spec in E as (F & T & Hauth); auto.
  split; [|split].
  - destruct a; apply ret_inv in H as [_ ->]; exact F.
  - destruct a; apply ret_inv in H as [_ ->]; exact T.
  - intros h ->. destruct a as [hs|e|]; apply ret_inv in H as [H _]; try discriminate.
    symmetry in H. apply lift_res_ok in H.
    right. exists ix, hs. split; [exact Hix|]. split; [apply Hauth; reflexivity | exact H].
Qed.

Lemma prove_tree_st_spec newer t n s r s' :
  1 <= c_height (s_c s) <= 30 -> 0 <= Codec.tN newer < 2 ^ 62 ->
  prove_tree_st node_hash newer t n s = (r, s') ->
  tframe s s' /\ textend (tile_ev (c_name (s_c s)) newer) s s'.
Proof.
  intros Hh HN H. unfold prove_tree_st in H.
  destruct ((t <? 1) || (n <? 1) || (t <? n)).
  { apply ret_inv in H as [_ ->]. split; [apply tframe_refl | apply textend_refl]. }
  destruct (tree_proof_index (range_fuel t) 0 t n []) as [ix|k|].
  2,3: apply ret_inv in H as [_ ->]; split; [apply tframe_refl | apply textend_refl].
  destruct ix as [|i ix].
  { apply ret_inv in H as [_ ->]. split; [apply tframe_refl | apply textend_refl]. }
  minv H. apply tile_read_hashes_st_spec in E as (F & T & _); auto.
  destruct a; apply ret_inv in H as [_ ->]; auto.
Qed.

End TileAuth.
