(* Client/ServerProofsLookup.v — what an honest TestServer answers on /latest and /lookup/:
     test_signed_spec     Signed() is note.Sign of FormatTree(size, MTH of the record hashes); the note
                          opens under the server's verifier to exactly that text, which parses back to
                          the tree (size, MTH)                          [C07 round trip + C09 codec + store]
     serve_latest_honest  GET /latest
     serve_lookup_honest  GET /lookup/EP@EV for a module version gosum knows, with valid record text:
                          200, body = FormatRecord(id, text) ++ signed tree note; ParseRecord gives back
                          (id, text, note); text is gosum's data; the record is in the signed tree
                          (id < size, records[id] = text); the log grew by at most this record.
   Signing is abstract: Sg is total (Ed25519 signs everything) and the verifier registered under the
   signer's (name, key hash) accepts what Sg produces (section hypotheses). *)
From Verif.Base Require Import Bytes Strconv StrconvProofs Base64 Base64Proofs.
From Verif.Gen Require Import GenConsts.
From Verif.Tlog Require Import Index Tree Codec Spec6962 ProofsIndex ProofsSpec ProofsTree ProofsStore ProofsCodec.
From Verif.Note Require Import Note NoteProofs NoteProofsRT.
From Verif.Module Require Import Escape.
From Verif.Client Require Import Server ServerProofs.

(* ---------------------------------------------------------------- the tree text is a signable note text *)

Definition ascii_b (b : Z) : bool := (32 <=? b) && (b <? 128).

Lemma ascii_forall s : forallb ascii_b s = true -> Forall (fun b => 32 <= b < 128) s.
Proof.
  intros H. apply Forall_forall. intros b Hb. rewrite forallb_forall in H. specialize (H b Hb).
  unfold ascii_b in H. apply andb_prop in H as [H1 H2]. apply Z.leb_le in H1. apply Z.ltb_lt in H2. lia.
Qed.

Lemma scan_ok_line s : Forall (fun b => 32 <= b < 128) s -> scan_ok (s ++ [10]) = true.
Proof. intros H. rewrite scan_ok_app by (apply scan_ok_ascii; exact H). vm_compute. reflexivity. Qed.

Lemma has_suffix_app_nl x : has_suffix (x ++ [10]) [10] = true.
Proof. unfold has_suffix. rewrite rev_app_distr. cbn. destruct (rev x); reflexivity. Qed.

Lemma format_tree_text t :
  0 <= tN t -> Forall byte (tH t) ->
  scan_ok (format_tree t) = true /\ has_suffix (format_tree t) [10] = true.
Proof.
  intros HN HH.
  assert (E : format_tree t = (B "go.sum database tree" ++ [10]) ++ (format_int (tN t) ++ [10]) ++ (hash_string (tH t) ++ [10])).
  { unfold format_tree. rewrite tree_prefix_eq, <- !app_assoc. reflexivity. }
  split.
  - rewrite E. rewrite scan_ok_app by (apply scan_ok_line; apply ascii_forall; vm_compute; reflexivity).
    rewrite scan_ok_app.
    + apply scan_ok_line. unfold hash_string.
      pose proof (b64_encode_alphabet (tH t) HH) as Ha. revert Ha. apply Forall_impl.
      intros c Hc. apply b64_char_range in Hc. lia.
    + apply scan_ok_line. destruct (format_int_shape (tN t)) as (ds & Ef & Hd & _).
      destruct (Z.ltb_spec (tN t) 0); [lia|]. rewrite Ef. cbn [app].
      revert Hd. apply Forall_impl. intros c Hc. unfold is_digit in Hc.
      apply andb_prop in Hc as [H1 H2]. apply Z.leb_le in H1. apply Z.leb_le in H2. lia.
  - rewrite E, !app_assoc. apply has_suffix_app_nl.
Qed.

Lemma empty_hash_is_hash : is_hash empty_hash.
Proof.
  split; [|reflexivity]. apply Forall_forall. intros b Hb.
  assert (H : forallb (fun b => (0 <=? b) && (b <? 256)) empty_hash = true) by (vm_compute; reflexivity).
  rewrite forallb_forall in H. specialize (H b Hb). apply andb_prop in H as [H1 H2].
  apply Z.leb_le in H1. apply Z.ltb_lt in H2. unfold byte. lia.
Qed.

Lemma nth_error_firstn1 {A} (l : list A) n x : nth_error l n = Some x -> firstn 1 (skipn n l) = [x].
Proof.
  revert l. induction n as [|n IH]; intros [|y l]; cbn [nth_error skipn]; try discriminate.
  - intros [= ->]. reflexivity.
  - apply IH.
Qed.

Section Lookup.
Variable leaf_hash : str -> hash.
Variable node_hash : hash -> hash -> hash.
Variable gosum : str -> str -> gres.
Variable sid : Type.
Variable Sg : sid -> str -> option str.
Variable sgn : signer sid.
Variable vid : Type.
Variable V : vid -> str -> str -> bool.
Variable vs : verifiers vid.

Hypothesis Hleaf : forall r, is_hash (leaf_hash r).
Hypothesis Hnode : forall a b, is_hash (node_hash a b).
(* the server key: a valid printable name, a 32-bit key hash; signing is total and yields bytes *)
Hypothesis Hname : is_valid_name (sg_name sgn) = true.
Hypothesis Hname32 : Forall (fun b => 32 <= b) (sg_name sgn).
Hypothesis Hhash : 0 <= sg_hash sgn < 2 ^ 32.
Hypothesis Hsg : forall text, exists sig, Sg (sg_id sgn) text = Some sig /\ sig <> [] /\ Forall byte sig.
(* the client's verifier table: well keyed, and the verifier registered under the signer's name and key
   hash accepts the signer's signatures *)
Hypothesis Hvs : forall k l v, In (k, l) vs -> In v l -> (v_name v, v_hash v) = k.
Hypothesis Hver : exists ver, Note.lookup vid vs (sg_name sgn) (sg_hash sgn) = LUnique ver /\
                              forall text sig, Sg (sg_id sgn) text = Some sig -> V (v_id ver) text sig = true.

Notation store_of := (store_of leaf_hash node_hash).
Notation SInv := (SInv leaf_hash node_hash gosum).
Notation HInv := (HInv leaf_hash node_hash).
Notation serve_test := (serve_test leaf_hash node_hash gosum sid Sg sgn).
Notation test_ops := (test_ops leaf_hash node_hash gosum sid Sg sgn).
Notation test_signed := (test_signed node_hash sid Sg sgn).

Definition root (recs : list str) : hash := mth node_hash (map leaf_hash recs).
Definition head (recs : list str) : tree := Tree (zlen recs) (root recs).

Lemma root_is_hash recs : is_hash (root recs).
Proof.
  unfold root, mth. generalize (length (map leaf_hash recs)) as f.
  assert (Hl : Forall is_hash (map leaf_hash recs)).
  { apply Forall_forall. intros x Hx. apply in_map_iff in Hx as (r & <- & _). apply Hleaf. }
  revert Hl. generalize (map leaf_hash recs) as l. intros l Hl f.
  destruct f; destruct l as [|x [|y r]]; cbn [mth_fuel]; try apply empty_hash_is_hash; try apply Hnode;
    inversion Hl; assumption.
Qed.

(* a message that opens under vs to the text of the tree head (size, MTH) *)
Definition signed_head (msg : str) (recs : list str) : Prop :=
  exists nt, Note.open vid V msg vs = Note.Ok nt /\ n_text nt = format_tree (head recs) /\
             parse_tree (n_text nt) = Index.Ok (head recs).

Theorem test_signed_spec st :
  HInv st -> zlen (ts_records st) < 2 ^ 62 ->
  exists msg, test_signed st = OOk msg /\ signed_head msg (ts_records st).
Proof.
  intros Hh Hlen. unfold ServerProofs.HInv in Hh. set (recs := ts_records st) in *.
  unfold Server.test_signed. fold recs.
  rewrite (tree_hash_ext node_hash _ _ (reader_of (ts_hashes st)) (safe_reader_eq _)), Hh.
  rewrite (tree_hash_is_MTH leaf_hash node_hash recs (zlen recs) Hlen) by (pose proof (zlen_nonneg recs); lia).
  unfold zlen at 2. rewrite Nat2Z.id, firstn_all. fold (root recs). fold (head recs).
  set (t := format_tree (head recs)).
  assert (H63 : 2 ^ 62 < 2 ^ 63) by (apply pow2_lt; lia).
  destruct (format_tree_text (head recs)) as [Hscan Hsuf];
    [cbn; apply zlen_nonneg | cbn; apply root_is_hash |]. fold t in Hscan, Hsuf.
  destruct (Hsg t) as (sig & Esig & Hne & Hbytes).
  destruct Hver as (ver & Elk & HV).
  destruct (sign_open_roundtrip_stmt vid V sid Sg vs t [(sgn, sig)] Hscan Hsuf ltac:(discriminate) ltac:(cbn; lia))
    as (msg & Esign & _ & Eopen).
  - intros s sg [[= <- <-]|[]]. repeat (split; [assumption|]). exact Hhash.
  - exact Hvs.
  - intros s sg [[= <- <-]|[]]. rewrite Elk. discriminate.
  - intros s sg v [[= <- <-]|[]] Ev. rewrite Elk in Ev. injection Ev as <-. apply HV. exact Esig.
  - cbn [map fst] in Esign. rewrite Esign. exists msg. split; [reflexivity|].
    cbn [map fst snd filter] in Eopen. unfold is_known in Eopen. cbn [s_name s_hash] in Eopen.
    rewrite Elk in Eopen. cbn [filter dedup_key mem_nh existsb] in Eopen.
    eexists. split; [exact Eopen|]. cbn [n_text]. split; [reflexivity|].
    apply parse_format_tree; [cbn; pose proof (zlen_nonneg recs); lia | cbn; apply root_is_hash].
Qed.

Theorem serve_latest_honest st :
  HInv st -> zlen (ts_records st) < 2 ^ 62 ->
  exists msg, serve_test st latest_path = (HOk CText msg, st) /\ signed_head msg (ts_records st).
Proof.
  intros HI Hlen. destruct (test_signed_spec st HI Hlen) as (msg & E & H).
  exists msg. split; [|exact H].
  unfold Server.serve_test, serve. rewrite lookup_prefix_eq, latest_path_eq. cbn [has_prefix Z.eqb Pos.eqb andb].
  rewrite str_eqb_refl. unfold serve_latest. cbn [op_signed Server.test_ops]. rewrite E. reflexivity.
Qed.

Lemma has_prefix_app_self (p s : str) : has_prefix (p ++ s) p = true.
Proof. apply has_prefix_app. Qed.

Theorem serve_lookup_honest st ep ev M Vv text :
  SInv st -> zlen (ts_records st) + 1 < 2 ^ 62 ->
  ~ In 64 ep -> mod_ver_match (ep ++ 64 :: ev) = true ->
  unescape_path ep = EOk M -> unescape_version ev = EOk Vv ->
  gosum M Vv = OOk text -> is_valid_record_text text = true ->
  exists id st' signed,
    serve_test st (lookup_prefix ++ ep ++ 64 :: ev)
    = (HOk CText (format_int id ++ [10] ++ text ++ [10] ++ signed), st') /\
    SInv st' /\
    (st' = st \/ ts_records st' = ts_records st ++ [text]) /\
    parse_record (format_int id ++ [10] ++ text ++ [10] ++ signed) = Index.Ok (id, text, signed) /\
    0 <= id < zlen (ts_records st') /\ nth_error (ts_records st') (Z.to_nat id) = Some text /\
    signed_head signed (ts_records st').
Proof.
  intros HI Hlen Hep Hm Hup Huv Hg Hvalid.
  assert (Ei : index_of 64 (ep ++ 64 :: ev) = Some (length ep)).
  { apply index_of_app_notin. apply Forall_forall. intros x Hx E. subst. contradiction. }
  assert (HM : ~ In 64 M) by (eapply unescape_path_no_at; eauto).
  destruct (mod_ver_match_v _ _ Hm Ei) as [r Er]. rewrite skipn_S_app in Er. subst ev.
  destruct (unescape_version_v r Vv Huv) as [v' ->].
  destruct (test_lookup_spec leaf_hash node_hash gosum st M (118 :: v') HI Hlen HM ltac:(discriminate)) as [HI' Hc].
  destruct Hc as [(id & d & Efst & Hg' & Hid0 & Hnth & Hst)|(_ & _ & Hno & _)]; [|exfalso; eapply Hno; eauto].
  rewrite Hg in Hg'. injection Hg' as <-.
  set (st' := snd (test_lookup leaf_hash node_hash gosum st M (118 :: v'))) in *.
  assert (Hidlt : (Z.to_nat id < length (ts_records st'))%nat) by (apply nth_error_Some; congruence).
  assert (Hlen' : zlen (ts_records st') < 2 ^ 62).
  { destruct Hst as [->| ->]; [lia|]. rewrite zlen_app. change (zlen [text]) with 1. lia. }
  destruct (test_signed_spec st' (SInv_HInv _ _ _ _ HI') Hlen') as (signed & Esig & Hhead).
  exists id, st', signed.
  assert (H63 : 2 ^ 62 < 2 ^ 63) by (apply pow2_lt; lia).
  assert (Hidr : 0 <= id < zlen (ts_records st')) by (unfold zlen; lia).
  split; [|split; [exact HI'|split; [|split; [|split; [exact Hidr|split; [exact Hnth|exact Hhead]]]]]].
  - unfold Server.serve_test, serve. rewrite has_prefix_app_self.
    rewrite (skipn_app (length lookup_prefix)), skipn_all, Nat.sub_diag. cbn [app skipn].
    unfold serve_lookup. rewrite Hm. cbn [negb]. rewrite Ei.
    rewrite firstn_app_exact, skipn_S_app, Hup, Huv.
    cbn [op_lookup Server.test_ops].
    destruct (test_lookup leaf_hash node_hash gosum st M (118 :: v')) as [r0 s0] eqn:Etl.
    cbn [fst snd] in Efst. subst r0. unfold st' in *. cbn [snd] in *.
    cbn [op_read_records Server.test_ops]. unfold test_read_records.
    destruct (Z.leb_spec 1 0); [lia|]. destruct (Z.ltb_spec id 0); [lia|].
    destruct (Z.ltb_spec (zlen (ts_records s0)) (id + 1)); [lia|].
    change (Z.to_nat 1) with 1%nat. rewrite (nth_error_firstn1 _ _ _ Hnth).
    unfold format_record. rewrite Hvalid.
    cbn [op_signed Server.test_ops]. rewrite Esig. rewrite <- !app_assoc. reflexivity.
  - destruct Hst as [Hs|Hs]; [left; exact Hs | right; exact Hs].
  - assert (Ef : format_record id text = Index.Ok (format_int id ++ [10] ++ text ++ [10]))
      by (unfold format_record; rewrite Hvalid; reflexivity).
    pose proof (parse_format_record id text signed _ ltac:(lia) Ef) as Hp.
    rewrite <- !app_assoc in Hp. exact Hp.
Qed.

End Lookup.
