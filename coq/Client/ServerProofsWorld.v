(* Client/ServerProofsWorld.v — composition of the server model with the sequential client model:
   the WORLD whose remote is the modelled server is an honest world in the sense of
   Client/SeqProofsHonest.v (HonestWorld), so C01 lookup_honest_complete / C13 honest growth apply
   to the real sumdb.Server + TestServer, not to an assumed oracle.

     frozen_gosum          a gosum backend that knows no further modules (everything not yet in the log
                           does not exist): the server then answers from a fixed log
     frozen_remote st      w_remote of the world: the body of the 200 answers of
                           serve_test … frozen_gosum … st, None for every other status
     frozen_world st cfg   that remote, empty cache, configuration cfg, nobody else writing
     frozen_state_fixed    requests never change the frozen server's state
     frozen_world_honest   for every state st reached by an honest TestServer (SInv for ANY gosum), with a
                           non-empty log: HonestWorld … (range_hash recs) (zlen recs) h vs name (frozen_world st cfg)
   The log a client sees "growing" is, as in SeqProofsHonest, the fixed final log presented through
   heads of sizes <= N; a server whose log is still shorter than a head the client already holds
   cannot serve that head's tiles, so the per-read function w_remote cannot be a growing server. *)
From Verif.Base Require Import Bytes.
From Verif.Gen Require Import GenConsts.
From Verif.Tlog Require Import Index Tree Codec Tile TileReader Spec6962 ProofsIndex ProofsSpec ProofsTree ProofsStore ProofsCodec.
From Verif.Tlog Require Import TileSpec TileProofsHonest NewTilesProofs.
From Verif.Note Require Import Note.
From Verif.Gen Require Import GenUnicode.
From Verif.Module Require Import Path Escape EscapeProofs EscapeProofsPath.
From Verif.Client Require Import Seq SeqProofsSafe SeqProofsHonest Server ServerProofs ServerProofsLookup.

Definition body_of (r : http_result) : option str :=
  match r with
  | HOk _ b => Some b
  | _ => None
  end.

Definition frozen_gosum : str -> str -> gres := fun _ _ => ONotExist.

(* ---------------------------------------------------------------- escaping, as the client does it *)

Lemma path_ok_no_at p : path_ok p = true -> ~ In 64 p.
Proof.
  unfold path_ok, ok_b. destruct (check_module_path p) eqn:Hc; [discriminate|]. intros _ Hin.
  apply check_module_path_check_path, check_path_elems in Hc.
  destruct (in_split_on 47 p 64 Hin) as [E|[e [He Hce]]]; [discriminate|].
  pose proof (check_elem_chars _ _ (first_err_none _ _ _ Hc He)) as Hch. cbn [char_ok] in Hch.
  apply (runes_ascii _ _ modPathOK_lt128) in Hch.
  rewrite forallb_forall in Hch. specialize (Hch 64 Hce). vm_compute in Hch. discriminate.
Qed.

Lemma escape_path_unescape p e : escape_path p = EOk e -> unescape_path e = EOk p /\ ~ In 64 e.
Proof.
  unfold escape_path, escape_checked. destruct (path_ok p) eqn:Hok; [|discriminate]. intros He.
  split.
  - unfold unescape_path, unescape_checked. rewrite (escape_string_roundtrip p e He), Hok. reflexivity.
  - pose proof (path_ok_no_at p Hok) as Hp.
    rewrite (escape_string_flat p (path_ok_clean p Hok)) in He. injection He as <-.
    intros Hin. apply in_flat_map in Hin as (c & Hc & Hin). unfold esc_byte in Hin.
    destruct (is_upper c) eqn:Eu.
    + apply is_upper_true in Eu. destruct Hin as [H|[H|[]]]; [unfold bang in H; lia | lia].
    + destruct Hin as [H|[]]. subst. contradiction.
Qed.

Lemma escape_version_unescape v e : escape_version v = EOk e -> unescape_version e = EOk v.
Proof.
  unfold escape_version, escape_checked. destruct (version_ok v) eqn:Hok; [|discriminate]. intros He.
  unfold unescape_version, unescape_checked. rewrite (escape_string_roundtrip v e He).
  unfold version_ok in Hok. apply andb_prop in Hok as [-> _]. reflexivity.
Qed.

Section World.
Variable sha : str -> str.
Variable leaf_hash : str -> hash.
Variable node_hash : hash -> hash -> hash.
Variable gosum : str -> str -> gres.
Variable sid : Type.
Variable Sg : sid -> str -> option str.
Variable sgn : signer sid.
Variable V : str -> str -> str -> bool.
Variable vs : verifiers str.
Variable name : str.

Hypothesis Hleaf : forall r, is_hash (leaf_hash r).
Hypothesis Hnode : forall a b, is_hash (node_hash a b).
Hypothesis Hname : is_valid_name (sg_name sgn) = true.
Hypothesis Hname32 : Forall (fun b => 32 <= b) (sg_name sgn).
Hypothesis Hhash : 0 <= sg_hash sgn < 2 ^ 32.
Hypothesis Hsg : forall text, exists sig, Sg (sg_id sgn) text = Some sig /\ sig <> [] /\ Forall Base64Proofs.byte sig.
Hypothesis Hvs : forall k l v, In (k, l) vs -> In v l -> (v_name v, v_hash v) = k.
Hypothesis Hver : exists ver, Note.lookup str vs (sg_name sgn) (sg_hash sgn) = LUnique ver /\
                              forall text sig, Sg (sg_id sgn) text = Some sig -> V (v_id ver) text sig = true.

Notation serve_frozen := (serve_test leaf_hash node_hash frozen_gosum sid Sg sgn).
Notation frozen_ops := (test_ops leaf_hash node_hash frozen_gosum sid Sg sgn).
Notation range_hash := (range_hash leaf_hash node_hash).

Definition frozen_remote (st : tstate) : nat -> str -> option str :=
  fun _ p => body_of (fst (serve_frozen st p)).

Definition frozen_world (st : tstate) (cfg : list (str * str)) : world :=
  mkWorld (frozen_remote st) [] [] cfg [].

Lemma frozen_lookup_state st p v : snd (test_lookup leaf_hash node_hash frozen_gosum st p v) = st.
Proof. unfold test_lookup. destruct (find_key _ _); reflexivity. Qed.

Theorem frozen_state_fixed st path : snd (serve_frozen st path) = st.
Proof.
  unfold serve_test. destruct (serve_state frozen_ops st path) as [E|(m & i & p & v & _ & _ & _ & _ & _ & E)]; rewrite E;
    [reflexivity|]. apply frozen_lookup_state.
Qed.

Lemma range_hash_root recs : range_hash recs 0 (zlen recs) = root leaf_hash node_hash recs.
Proof. unfold ProofsStore.range_hash, root. rewrite Z.sub_0_r, slice_all. reflexivity. Qed.

Lemma range_hash_nth recs id text :
  0 <= id -> nth_error recs (Z.to_nat id) = Some text -> leaf_hash text = range_hash recs id (id + 1).
Proof.
  intros Hid Hn. destruct (nth_error_split _ _ Hn) as (pre & rest & -> & Hl).
  assert (E : id = zlen pre) by (unfold zlen; lia). rewrite E. symmetry. apply range_hash_leaf.
Qed.

Lemma range_hash_32 recs lo hi : length (range_hash recs lo hi) = 32%nat.
Proof.
  unfold ProofsStore.range_hash, mth. set (l := map leaf_hash _).
  assert (Hl : Forall is_hash l).
  { apply Forall_forall. intros x Hx. apply in_map_iff in Hx as (r & <- & _). apply Hleaf. }
  assert (G : forall f, is_hash (mth_fuel node_hash f l)).
  { intros f. destruct f; destruct l as [|x [|y r]]; cbn [mth_fuel]; try apply empty_hash_is_hash; try apply Hnode;
      inversion Hl; assumption. }
  destruct (G (length l)) as [_ H]. unfold len in H. change tlog_HashSize with 32 in H. lia.
Qed.

(* an answer of the frozen server to a lookup request is an honest record *)
Lemma frozen_lookup_honest st m ct body :
  SInv leaf_hash node_hash gosum st -> 0 < zlen (ts_records st) < 2 ^ 62 ->
  fst (serve_lookup frozen_ops st m) = HOk ct body ->
  honest_record leaf_hash V (range_hash (ts_records st)) (zlen (ts_records st)) vs body.
Proof.
  intros [HH Hent] Hlen. unfold serve_lookup.
  destruct (negb (mod_ver_match m)); [discriminate|].
  destruct (index_of 64 m) as [i|]; [|discriminate].
  destruct (unescape_path _) as [p|]; [|discriminate].
  destruct (unescape_version _) as [v|]; [|discriminate].
  cbn [op_lookup test_ops]. unfold test_lookup.
  destruct (find_key (version_string p v) (ts_lookup st)) as [id|] eqn:Ef; [|discriminate].
  apply find_key_in in Ef. rewrite Forall_forall in Hent.
  destruct (Hent _ Ef) as (p' & v' & text & _ & _ & _ & Hid0 & Hnth). cbn [snd] in Hid0, Hnth.
  assert (Hidlt : (Z.to_nat id < length (ts_records st))%nat) by (apply nth_error_Some; congruence).
  cbn [op_read_records test_ops]. unfold test_read_records.
  destruct (Z.leb_spec 1 0); [lia|]. destruct (Z.ltb_spec id 0); [lia|].
  destruct (Z.ltb_spec (zlen (ts_records st)) (id + 1)); [unfold zlen in *; lia|].
  change (Z.to_nat 1) with 1%nat. rewrite (nth_error_firstn1 _ _ _ Hnth).
  unfold format_record. destruct (is_valid_record_text text) eqn:Hvalid; [|discriminate].
  cbn [op_signed test_ops].
  destruct (test_signed_spec leaf_hash node_hash sid Sg sgn str V vs Hleaf Hnode Hname Hname32 Hhash Hsg Hvs Hver st HH ltac:(lia))
    as (signed & Es & nt & Eopen & _ & Eparse).
  rewrite Es. cbn [fst]. intros [= _ <-].
  assert (H63 : 2 ^ 62 < 2 ^ 63) by (apply pow2_lt; lia).
  exists id, text, signed, (zlen (ts_records st)).
  split.
  - apply parse_format_record; [unfold zlen in *; lia|]. unfold format_record. rewrite Hvalid. reflexivity.
  - split; [unfold zlen in *; lia|]. split; [lia|]. split; [apply range_hash_nth; assumption|].
    exists nt. split; [exact Eopen|]. rewrite Eparse. unfold head. rewrite range_hash_root. reflexivity.
Qed.

Theorem frozen_world_honest st cfg h :
  SInv leaf_hash node_hash gosum st -> 0 < zlen (ts_records st) < 2 ^ 62 -> 1 <= h <= 30 ->
  (exists cm, assoc (latest_file name) cfg = Some cm /\
              honest_msg V (range_hash (ts_records st)) (zlen (ts_records st)) vs cm) ->
  (exists k hash key, assoc (B "key") cfg = Some k /\
     parse_verifier_key sha (trim_space k) = KOk (name, hash, key) /\
     verifier_list str [ {| v_name := name; v_hash := hash; v_id := key |} ] = vs) ->
  HonestWorld sha leaf_hash V (range_hash (ts_records st)) (zlen (ts_records st)) h vs name (frozen_world st cfg).
Proof.
  intros HI Hlen Hh Hcfg Hkey. constructor; cbn [frozen_world w_remote w_cache w_config w_interf].
  - (* tiles *)
    intros t k (m & ix & p & Hm & Hp & Hin). unfold frozen_remote, tile_remote_path.
    assert (Ht : tree_tile h m t).
    { pose proof (make_plan_tiles_in_tree m h ix p ltac:(lia) ltac:(lia) Hp) as Hall.
      rewrite Forall_forall in Hall. apply Hall. exact Hin. }
    assert (Hs : servable h (zlen (ts_records st)) t).
    { apply (servable_mono h m); [lia | lia | apply tree_tile_servable; exact Ht]. }
    destruct (serve_tile_servable leaf_hash node_hash frozen_gosum sid Sg sgn st h t (SInv_HInv _ _ _ _ HI) ltac:(lia) Hh Hs)
      as [E _].
    rewrite E. reflexivity.
  - intros f d Hf. discriminate.
  - reflexivity.
  - exact Hcfg.
  - (* lookups *)
    intros k p d. unfold frozen_remote, serve_test, serve.
    change (B "/lookup/") with lookup_prefix. rewrite has_prefix_app_self.
    rewrite (skipn_app (length lookup_prefix)), skipn_all, Nat.sub_diag. cbn [app skipn].
    destruct (fst (serve_lookup frozen_ops st p)) as [ct body| |] eqn:E; cbn [body_of]; try discriminate.
    intros [= <-]. eapply frozen_lookup_honest; eauto.
  - exact Hkey.
Qed.

(* a module version that is recorded (with valid text) is served with 200 *)
Lemma frozen_remote_recorded st ep ev M Vv id text k :
  SInv leaf_hash node_hash gosum st -> 0 < zlen (ts_records st) < 2 ^ 62 ->
  ~ In 64 ep -> mod_ver_match (ep ++ 64 :: ev) = true ->
  unescape_path ep = EOk M -> unescape_version ev = EOk Vv ->
  find_key (version_string M Vv) (ts_lookup st) = Some id ->
  nth_error (ts_records st) (Z.to_nat id) = Some text -> is_valid_record_text text = true ->
  exists body, frozen_remote st k (lookup_prefix ++ ep ++ 64 :: ev) = Some body.
Proof.
  intros [HH Hent] Hlen Hep Hm Hup Huv Hf Hnth Hvalid.
  assert (Ei : index_of 64 (ep ++ 64 :: ev) = Some (length ep)).
  { apply index_of_app_notin. apply Forall_forall. intros x Hx E. subst. contradiction. }
  unfold frozen_remote, serve_test, serve. rewrite has_prefix_app_self.
  rewrite (skipn_app (length lookup_prefix)), skipn_all, Nat.sub_diag. cbn [app skipn].
  unfold serve_lookup. rewrite Hm. cbn [negb]. rewrite Ei, firstn_app_exact, skipn_S_app, Hup, Huv.
  cbn [op_lookup test_ops]. unfold test_lookup. rewrite Hf.
  assert (Hid0 : 0 <= id).
  { apply find_key_in in Hf. rewrite Forall_forall in Hent. destruct (Hent _ Hf) as (_ & _ & _ & _ & _ & _ & H0 & _). exact H0. }
  assert (Hidlt : (Z.to_nat id < length (ts_records st))%nat) by (apply nth_error_Some; congruence).
  cbn [op_read_records test_ops]. unfold test_read_records.
  destruct (Z.leb_spec 1 0); [lia|]. destruct (Z.ltb_spec id 0); [lia|].
  destruct (Z.ltb_spec (zlen (ts_records st)) (id + 1)); [unfold zlen in *; lia|].
  change (Z.to_nat 1) with 1%nat. rewrite (nth_error_firstn1 _ _ _ Hnth).
  unfold format_record. rewrite Hvalid. cbn [op_signed test_ops].
  destruct (test_signed_spec leaf_hash node_hash sid Sg sgn str V vs Hleaf Hnode Hname Hname32 Hhash Hsg Hvs Hver st HH ltac:(lia))
    as (signed & Es & _).
  rewrite Es. cbn [fst body_of]. eauto.
Qed.

(* END TO END: the sequential client model against the modelled server.  One Lookup by a good
   (fresh or initialised-honest) client never reports a security error; the result of a lookup that
   is not memoised is the go.sum lines of an honest record, or the remote error of a module the
   server does not serve; and if the server has the module version recorded, it IS the lines. *)
Theorem client_over_server st cfg h skip c path vers r evs w' c' :
  SInv leaf_hash node_hash gosum st -> 0 < zlen (ts_records st) < 2 ^ 62 -> 1 <= h <= 30 ->
  (exists cm, assoc (latest_file name) cfg = Some cm /\
              honest_msg V (range_hash (ts_records st)) (zlen (ts_records st)) vs cm) ->
  (exists k hash key, assoc (B "key") cfg = Some k /\
     parse_verifier_key sha (trim_space k) = KOk (name, hash, key) /\
     verifier_list str [ {| v_name := name; v_hash := hash; v_id := key |} ] = vs) ->
  let T := range_hash (ts_records st) in
  let N := zlen (ts_records st) in
  let esc_p := fun p => match escape_path p with EOk e => Some e | EErr _ => None end in
  let esc_v := fun v => match escape_version v with EOk e => Some e | EErr _ => None end in
  GoodClient leaf_hash V T N h vs name c ->
  Seq.lookup sha leaf_hash node_hash V esc_p esc_v skip (frozen_world st cfg) c path vers = (r, evs, w', c') ->
  r <> LErr ESecurity /\ Forall nosec evs /\
  HonestWorld sha leaf_hash V T N h vs name w' /\ GoodClient leaf_hash V T N h vs name c' /\
  forall ep ev, skip path = false -> escape_path path = EOk ep ->
    escape_version (trim_suffix vers go_mod_suffix) = EOk ev ->
    (c_init c = None \/ rec_find (name ++ B "/lookup/" ++ ep ++ [64] ++ ev) (c_records c) = None) ->
    ((exists data, r = LOk (result_lines path vers data) /\ honest_record leaf_hash V T N vs data) \/
     r = LErr ERemote) /\
    (forall id text, mod_ver_match (ep ++ 64 :: ev) = true ->
       find_key (version_string path (trim_suffix vers go_mod_suffix)) (ts_lookup st) = Some id ->
       nth_error (ts_records st) (Z.to_nat id) = Some text -> is_valid_record_text text = true ->
       exists data, r = LOk (result_lines path vers data) /\ honest_record leaf_hash V T N vs data).
Proof.
  intros HI Hlen Hh Hcfg Hkey T N esc_p esc_v HG Hl.
  pose proof (frozen_world_honest st cfg h HI Hlen Hh Hcfg Hkey) as HW.
  destruct (lookup_honest sha leaf_hash node_hash V esc_p esc_v skip T N h
              (range_hash_splits leaf_hash node_hash (ts_records st)) (range_hash_32 (ts_records st))
              ltac:(unfold N; lia) Hh vs name _ _ _ _ _ _ _ _ HW HG Hl) as (HW' & HG' & Hns & Hsec & Hans).
  split; [exact Hsec|]. split; [exact Hns|]. split; [exact HW'|]. split; [exact HG'|].
  intros ep ev Hskip Hep Hev Hmemo.
  assert (Hans' := Hans ep ev Hskip ltac:(unfold esc_p; rewrite Hep; reflexivity)
                        ltac:(unfold esc_v; rewrite Hev; reflexivity) Hmemo).
  split.
  - destruct Hans' as [H|[H _]]; [left; exact H | right; exact H].
  - intros id text Hm Hf Hnth Hvalid.
    destruct Hans' as [H|[_ [k Hnone]]]; [exact H|]. exfalso.
    destruct (escape_path_unescape _ _ Hep) as [Hup Hno]. pose proof (escape_version_unescape _ _ Hev) as Huv.
    destruct (frozen_remote_recorded st ep ev _ _ id text k HI Hlen Hno Hm Hup Huv Hf Hnth Hvalid) as [body Hb].
    cbn [frozen_world w_remote] in Hnone. change (B "/lookup/") with lookup_prefix in Hnone.
    change (ep ++ [64] ++ ev) with (ep ++ 64 :: ev) in Hnone. congruence.
Qed.

End World.
