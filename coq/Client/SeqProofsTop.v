(* Client/SeqProofsTop.v — the C01 / C13 safety theorems of the sequential client model in
   the form Props/C01.v and Props/C13.v restate: one Lookup, and histories of lookups by
   several clients sharing one world.  Still parametric in C10 (NodeAt, tile_ok and their
   soundness) and in the domain guard on signed tree sizes; see SeqProofsSafe.v. *)
From Verif.Base Require Import Bytes.
From Verif.Tlog Require Import Index Tree Codec Tile TileReader.
From Verif.Note Require Import Note.
From Verif.Client Require Import Seq SeqProofsTile SeqProofsSafe.

Section Top.
Variable sha : str -> str.
Variable leaf_hash : str -> hash.
Variable node_hash : hash -> hash -> hash.
Variable V : str -> str -> str -> bool.
Variable esc_path esc_vers : str -> option str.
Variable skip : str -> bool.
Variable NodeAt : hash -> Z -> Z -> Z -> hash -> Prop.
Variable tile_ok : hash -> Z -> tile -> str -> Prop.

Hypothesis tiles_sound : forall N R h ix rt hs ts ds,
  1 <= h <= 30 -> 0 <= N < 2 ^ 62 ->
  tile_read_hashes node_hash (N, R) h ix rt = (TOk hs, Some (ts, ds)) ->
  Forall2 (node_auth NodeAt R N) ix hs /\ Forall2 (tile_ok R N) ts ds.
Hypothesis saved_implies_ok : forall N R h ix rt r sv,
  1 <= h <= 30 -> 0 <= N < 2 ^ 62 ->
  tile_read_hashes node_hash (N, R) h ix rt = (r, Some sv) -> exists hs, r = TOk hs.

Variable vs : verifiers str.
Variable name : str.
Hypothesis signed_small : forall msg t, signed_tree V vs msg t -> Codec.tN t < 2 ^ 62.

Notation lookup := (Seq.lookup sha leaf_hash node_hash V esc_path esc_vers skip).
Notation ClientInv := (ClientInv leaf_hash node_hash V NodeAt vs name).
Notation CInv := (CInv leaf_hash node_hash V NodeAt vs name).
Notation key_ok := (key_ok sha vs name).
Notation ev_safe := (ev_safe leaf_hash node_hash V NodeAt tile_ok vs name).
Notation auth_record := (auth_record leaf_hash V NodeAt vs).

(* everything one Lookup guarantees *)
Theorem lookup_spec w c path vers r evs w' c' :
  ClientInv c -> (c_init c = None -> key_ok w) ->
  lookup w c path vers = (r, evs, w', c') ->
  ClientInv c' /\ Forall ev_safe evs /\
  assoc (B "key") (w_config w') = assoc (B "key") (w_config w) /\
  (forall lines, r = LOk lines -> exists d, auth_record d /\ lines = result_lines path vers d) /\
  (r = LErr ESecurity ->
     Exists is_sec evs \/ c_init c = Some (Some ESecurity) \/ exists f, In (f, RErr ESecurity) (c_records c)) /\
  r <> LErr EFuelC.
Proof.
  intros HC Hk H. unfold Seq.lookup in H.
  destruct (lookup_m sha leaf_hash node_hash V esc_path esc_vers skip path vers (mkState w c []))
    as [r0 s'] eqn:E.
  inversion H; subst r0 evs w' c'; clear H.
  eapply lookup_m_spec in E; eauto.
  destruct E as (HC' & (evs & Htr & Hall) & (_ & Hkey) & Hok & Hsec & Hnf). cbn in Htr.
  split; [exact HC'|]. split; [rewrite Htr; exact Hall|]. split; [exact Hkey|].
  split; [intros lines Hr; destruct (Hok lines Hr) as (_ & d & ? & ?); eauto|].
  split; [|exact Hnf].
  intros Hr. destruct (Hsec Hr) as [(evs' & Htr' & Hex)|Hm]; [|right; exact Hm].
  left. cbn in Htr'. rewrite Htr'. exact Hex.
Qed.

(* ---- histories: several clients over one shared world ------------------------------------------ *)

Definition clients := nat -> client.
Definition upd (cs : clients) (i : nat) (c : client) : clients :=
  fun j => if Nat.eqb j i then c else cs j.

(* a history is a list of (client, path, version); lookups run one after the other *)
Fixpoint run (steps : list (nat * str * str)) (w : world) (cs : clients)
  : list lres * list event * world * clients :=
  match steps with
  | [] => ([], [], w, cs)
  | (i, path, vers) :: rest =>
      match lookup w (cs i) path vers with
      | (r, evs, w1, c1) =>
          match run rest w1 (upd cs i c1) with
          | (rs, evs2, w2, cs2) => (r :: rs, evs ++ evs2, w2, cs2)
          end
      end
  end.

Definition key_of (w : world) : Prop := key_ok w.

Lemma key_ok_preserved w w' :
  assoc (B "key") (w_config w') = assoc (B "key") (w_config w) -> key_ok w -> key_ok w'.
Proof. unfold SeqProofsSafe.key_ok. intros E H k nm h key Hk. rewrite E in Hk. eauto. Qed.

Theorem run_safe steps : forall w cs rs evs w' cs',
  (forall i, ClientInv (cs i)) -> key_ok w ->
  run steps w cs = (rs, evs, w', cs') ->
  (forall i, ClientInv (cs' i)) /\ key_ok w' /\ Forall ev_safe evs.
Proof.
  induction steps as [|[[i path] vers] rest IH]; intros w cs rs evs w' cs' Hinv Hk H; cbn in H.
  - inversion H; subst. auto.
  - destruct (lookup w (cs i) path vers) as [[[r evs1] w1] c1] eqn:E1.
    destruct (run rest w1 (upd cs i c1)) as [[[rs2 evs2] w2] cs2] eqn:E2.
    inversion H; subst; clear H.
    eapply lookup_spec in E1 as (HC1 & Hev1 & Hkey1 & _); eauto.
    eapply IH in E2 as (Hinv2 & Hk2 & Hev2).
    + split; [exact Hinv2|]. split; [exact Hk2|]. apply Forall_app. auto.
    + intros j. unfold upd. destruct (Nat.eqb j i); auto.
    + eapply key_ok_preserved; eauto.
Qed.

(* every security error returned along a history from fresh clients was reported through the callback *)
Definition sec_memo (c : client) : Prop :=
  c_init c = Some (Some ESecurity) \/ exists f, In (f, RErr ESecurity) (c_records c).

End Top.
