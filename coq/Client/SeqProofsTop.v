(* Client/SeqProofsTop.v — the C01 / C13 safety theorems of the sequential client model in
   the form Props/C01.v and Props/C13.v restate: one Lookup, and histories of lookups by
   several clients sharing one world.  Still parametric in C10 (NodeAt, tile_ok and their
   soundness) and in the domain guard on signed tree sizes; see SeqProofsSafe.v. *)
From Verif.Base Require Import Bytes.
From Verif.Tlog Require Import Index Tree Codec Tile TileReader ProofsIndex.
From Verif.Note Require Import Note.
From Verif.Client Require Import Seq SeqProofsTile SeqProofsSafe.

Section Top.
Variable sha : str -> str.
Variable leaf_hash : str -> hash.
Variable node_hash : hash -> hash -> hash.
Variable V : str -> str -> str -> bool.
Variable esc_path esc_vers : str -> option str.
Variable skip : str -> bool.
Variable NodeAt : hash -> Z -> Z -> Z -> hash -> Prop.
Variable tile_ok : hash -> Z -> tile -> str -> Prop.

Hypothesis tiles_sound : forall N R h ix rt hs ts ds,
  1 <= h <= 30 -> 0 <= N < 2 ^ 62 ->
  tile_read_hashes node_hash (N, R) h ix rt = (TOk hs, Some (ts, ds)) ->
  Forall2 (node_auth NodeAt R N) ix hs /\ Forall2 (tile_ok R N) ts ds.
Hypothesis saved_authenticated : forall N R h ix rt r ts ds,
  1 <= h <= 30 -> 0 <= N < 2 ^ 62 ->
  tile_read_hashes node_hash (N, R) h ix rt = (r, Some (ts, ds)) -> Forall2 (tile_ok R N) ts ds.

Variable vs : verifiers str.
Variable name : str.
Hypothesis signed_small : forall msg t, signed_tree V vs msg t -> Codec.tN t < 2 ^ 62.

Notation lookup := (Seq.lookup sha leaf_hash node_hash V esc_path esc_vers skip).
Notation ClientInv := (ClientInv leaf_hash V NodeAt vs name).
Notation CInv := (CInv leaf_hash V NodeAt vs name).
Notation key_ok := (key_ok sha vs name).
Notation ev_safe := (ev_safe leaf_hash node_hash V NodeAt tile_ok vs name).
Notation auth_record := (auth_record leaf_hash V NodeAt vs).

(* everything one Lookup guarantees *)
Theorem lookup_spec w c path vers r evs w' c' :
  ClientInv c -> (c_init c = None -> key_ok w) ->
  lookup w c path vers = (r, evs, w', c') ->
  ClientInv c' /\ Forall ev_safe evs /\
  assoc (B "key") (w_config w') = assoc (B "key") (w_config w) /\
  (forall lines, r = LOk lines -> exists d, auth_record d /\ lines = result_lines path vers d) /\
  (r = LErr ESecurity ->
     Exists is_sec evs \/ c_init c = Some (Some ESecurity) \/ exists f, In (f, RErr ESecurity) (c_records c)) /\
  r <> LErr EFuelC /\
  (sec_memo c' -> sec_memo c \/ Exists is_sec evs).
Proof.
  intros HC Hk H. unfold Seq.lookup in H.
  destruct (lookup_m sha leaf_hash node_hash V esc_path esc_vers skip path vers (mkState w c []))
    as [r0 s'] eqn:E.
  inversion H; subst r0 evs w' c'; clear H.
  eapply lookup_m_spec in E; eauto.
  destruct E as (HC' & (evs & Htr & Hall) & (_ & Hkey) & Hok & Hsec & Hnf & Hmemo). cbn in Htr.
  split; [exact HC'|]. split; [rewrite Htr; exact Hall|]. split; [exact Hkey|].
  split; [intros lines Hr; destruct (Hok lines Hr) as (_ & d & ? & ?); eauto|].
  split; [|split; [exact Hnf|]].
  - intros Hr. destruct (Hsec Hr) as [(evs' & Htr' & Hex)|Hm]; [|right; exact Hm].
    left. cbn in Htr'. rewrite Htr'. exact Hex.
  - intros Hm. destruct (Hmemo Hm) as [Ho|(evs' & Htr' & Hex)]; [left; exact Ho|].
    right. cbn in Htr'. rewrite Htr'. exact Hex.
Qed.

(* C01 lookup_safe: an Ok result is exactly the go.sum lines of a response whose record is
   authenticated, at the index of its id, against a tree that opens under the configured verifiers *)
Theorem lookup_safe w c path vers lines evs w' c' :
  ClientInv c -> (c_init c = None -> key_ok w) ->
  lookup w c path vers = (LOk lines, evs, w', c') ->
  exists data id text rest tmsg t,
    lines = result_lines path vers data /\
    parse_record data = Index.Ok (id, text, rest) /\
    signed_tree V vs tmsg t /\ 0 <= id < Codec.tN t /\
    node_auth NodeAt (Codec.tH t) (Codec.tN t) (stored_hash_index 0 id) (leaf_hash text).
Proof.
  intros HC Hk H. eapply lookup_spec in H as (_ & _ & _ & Hok & _); eauto.
  destruct (Hok _ eq_refl) as (d & (id & text & rest & tmsg & t & Hp & Hs & Hlt & Ha) & ->).
  exists d, id, text, rest, tmsg, t. auto.
Qed.

(* the explicit Merkle path: given that a NodeAt fact at level 0 yields a proof CheckRecord accepts *)
Hypothesis nodeat_record_path : forall R N id x,
  0 <= id < N -> N < 2 ^ 62 -> NodeAt R N 0 id x -> exists p, check_record node_hash p N R id x = Index.Ok tt.

Theorem lookup_safe_path w c path vers lines evs w' c' :
  ClientInv c -> (c_init c = None -> key_ok w) ->
  lookup w c path vers = (LOk lines, evs, w', c') ->
  exists data id text rest tmsg t p,
    lines = result_lines path vers data /\
    parse_record data = Index.Ok (id, text, rest) /\
    signed_tree V vs tmsg t /\ 0 <= id < Codec.tN t /\
    check_record node_hash p (Codec.tN t) (Codec.tH t) id (leaf_hash text) = Index.Ok tt.
Proof.
  intros HC Hk H. destruct (lookup_safe _ _ _ _ _ _ _ _ HC Hk H)
    as (d & id & text & rest & tmsg & t & Hl & Hp & Hs & Hid & (l & o & Hsplit & Hnode)).
  assert (Hr := signed_range V vs signed_small _ _ Hs).
  assert (Hb : stored_hash_index 0 id < 2 ^ 63).
  { rewrite stored_hash_index_first by lia. rewrite level_up_0.
    pose proof (first_index_le_double id ltac:(lia)). lia. }
  rewrite (split_index 0 id) in Hsplit by lia. injection Hsplit as <- <-.
  destruct (nodeat_record_path _ _ _ _ Hid ltac:(lia) Hnode) as (p & Hp').
  exists d, id, text, rest, tmsg, t, p. repeat (split; [assumption|]). exact Hp'.
Qed.

(* ---- histories: several clients over one shared world ------------------------------------------ *)

Definition clients := nat -> client.
Definition upd (cs : clients) (i : nat) (c : client) : clients :=
  fun j => if Nat.eqb j i then c else cs j.

(* a history is a list of (client, path, version); lookups run one after the other *)
Fixpoint run (steps : list (nat * str * str)) (w : world) (cs : clients)
  : list lres * list event * world * clients :=
  match steps with
  | [] => ([], [], w, cs)
  | (i, path, vers) :: rest =>
      match lookup w (cs i) path vers with
      | (r, evs, w1, c1) =>
          match run rest w1 (upd cs i c1) with
          | (rs, evs2, w2, cs2) => (r :: rs, evs ++ evs2, w2, cs2)
          end
      end
  end.

Definition key_of (w : world) : Prop := key_ok w.

Lemma key_ok_preserved w w' :
  assoc (B "key") (w_config w') = assoc (B "key") (w_config w) -> key_ok w -> key_ok w'.
Proof. unfold SeqProofsSafe.key_ok. intros E H k nm h key Hk. rewrite E in Hk. eauto. Qed.

Theorem run_safe steps : forall w cs rs evs w' cs',
  (forall i, ClientInv (cs i)) -> key_ok w ->
  run steps w cs = (rs, evs, w', cs') ->
  (forall i, ClientInv (cs' i)) /\ key_ok w' /\ Forall ev_safe evs.
Proof.
  induction steps as [|[[i path] vers] rest IH]; intros w cs rs evs w' cs' Hinv Hk H; cbn in H.
  - inversion H; subst. auto.
  - destruct (lookup w (cs i) path vers) as [[[r evs1] w1] c1] eqn:E1.
    destruct (run rest w1 (upd cs i c1)) as [[[rs2 evs2] w2] cs2] eqn:E2.
    inversion H; subst; clear H.
    eapply lookup_spec in E1 as (HC1 & Hev1 & Hkey1 & _); eauto.
    eapply IH in E2 as (Hinv2 & Hk2 & Hev2).
    + split; [exact Hinv2|]. split; [exact Hk2|]. apply Forall_app. auto.
    + intros j. unfold upd. destruct (Nat.eqb j i); auto.
    + eapply key_ok_preserved; eauto.
Qed.

(* C13 config_monotone_chain: along any history every WriteConfig (successful or not) writes a
   head signed under the configured key over a stored head that is empty or signed, strictly
   smaller and on the same timeline *)
Theorem config_monotone_chain steps w cs rs evs w' cs' f old new ok :
  (forall i, ClientInv (cs i)) -> key_ok w ->
  run steps w cs = (rs, evs, w', cs') ->
  In (EvWriteConfig f old new ok) evs ->
  f = latest_file name /\
  exists tnew, signed_tree V vs new tnew /\
    (old = [] \/ exists told, signed_tree V vs old told /\ Codec.tN told < Codec.tN tnew /\
                              Consistent node_hash NodeAt told tnew).
Proof.
  intros Hinv Hk Hrun Hin. eapply run_safe in Hrun as (_ & _ & Hall); eauto.
  rewrite Forall_forall in Hall. apply Hall in Hin. exact Hin.
Qed.

(* C01 writes_authenticated along histories *)
Theorem writes_authenticated steps w cs rs evs w' cs' f d :
  (forall i, ClientInv (cs i)) -> key_ok w ->
  run steps w cs = (rs, evs, w', cs') ->
  In (EvWriteCache f d) evs ->
  (exists t tmsg tr, f = tile_cache_key name t /\ signed_tree V vs tmsg tr /\
                     tile_ok (Codec.tH tr) (Codec.tN tr) t d) \/
  ((exists ep ev, f = name ++ B "/lookup/" ++ ep ++ [64] ++ ev) /\ auth_record d).
Proof.
  intros Hinv Hk Hrun Hin. eapply run_safe in Hrun as (_ & _ & Hall); eauto.
  rewrite Forall_forall in Hall. apply Hall in Hin. exact Hin.
Qed.

(* C13 fork_reports_both_heads: every security report names two notes, each the empty timeline or
   signed under the configured key, and contains both (indented as checkTrees prints them) *)
Theorem security_report_shape steps w cs rs evs w' cs' msg :
  (forall i, ClientInv (cs i)) -> key_ok w ->
  run steps w cs = (rs, evs, w', cs') ->
  In (EvSecurity msg) evs ->
  exists older newer,
    note_ok V vs older /\ note_ok V vs newer /\
    infix (indent older) msg /\ infix (indent newer) msg.
Proof.
  intros Hinv Hk Hrun Hin. eapply run_safe in Hrun as (_ & _ & Hall); eauto.
  rewrite Forall_forall in Hall. apply Hall in Hin.
  destruct Hin as (older & newer & h & p & -> & Ho & Hn).
  exists older, newer. split; [exact Ho|]. split; [exact Hn|]. apply security_msg_contains.
Qed.

(* ... and whenever a lookup of a history that started with clients holding no memoised security
   error returns ErrSecurity, such a report is in the trace *)
Theorem security_error_reported : forall steps w cs rs evs w' cs',
  (forall i, ClientInv (cs i)) -> key_ok w -> (forall i, ~ sec_memo (cs i)) ->
  run steps w cs = (rs, evs, w', cs') ->
  In (LErr ESecurity) rs -> Exists is_sec evs.
Proof.
  assert (Hgen : forall steps w cs rs evs w' cs',
    (forall i, ClientInv (cs i)) -> key_ok w ->
    run steps w cs = (rs, evs, w', cs') ->
    In (LErr ESecurity) rs -> Exists is_sec evs \/ exists i, sec_memo (cs i)).
  { induction steps as [|[[i path] vers] rest IH]; intros w cs rs evs w' cs' Hinv Hk H Hin; cbn in H.
    - inversion H; subst. destruct Hin.
    - destruct (lookup w (cs i) path vers) as [[[r evs1] w1] c1] eqn:E1.
      destruct (run rest w1 (upd cs i c1)) as [[[rs2 evs2] w2] cs2] eqn:E2.
      inversion H; subst; clear H.
      eapply lookup_spec in E1 as (HC1 & Hev1 & Hkey1 & _ & Hsec1 & _ & Hmemo1); eauto.
      destruct Hin as [->|Hin].
      + destruct (Hsec1 eq_refl) as [Hex|Hm].
        * left. apply Exists_app. left. exact Hex.
        * right. exists i. exact Hm.
      + eapply IH in E2; eauto.
        * destruct E2 as [Hex|(j & Hm)]; [left; apply Exists_app; right; exact Hex|].
          unfold upd in Hm. destruct (Nat.eqb j i) eqn:Eji.
          -- destruct (Hmemo1 Hm) as [Ho|Hex]; [right; exists i; exact Ho|].
             left. apply Exists_app. left. exact Hex.
          -- right. exists j. exact Hm.
        * intros j. unfold upd. destruct (Nat.eqb j i); auto.
        * eapply key_ok_preserved; eauto. }
  intros steps w cs rs evs w' cs' Hinv Hk Hnom Hrun Hin.
  destruct (Hgen _ _ _ _ _ _ _ Hinv Hk Hrun Hin) as [H|(i & Hm)]; [exact H|].
  exfalso. eapply Hnom; eauto.
Qed.

End Top.
