(* Client/SeqProofsSafe.v — safety of the sequential client model (C01, C13): whatever the world
   answers, every event emitted and every value returned is authenticated against a tree head
   that opens under the configured verifiers, and the stored head only moves forward along
   one timeline.

   Parametric (Section variables / hypotheses) in
     NodeAt, tile_ok, tiles_sound, saved_implies_ok       C10 (see SeqProofsTile.v)
     vs, name                                              the configured verifiers and server name
     signed_small : a tree that opens under vs has fewer than 2^62 records (the domain on
                    which the tlog and tile models mirror int64 arithmetic). *)
From Verif.Base Require Import Bytes.
From Verif.Tlog Require Import Index Tree Codec Tile TileReader.
From Verif.Note Require Import Note.
From Verif.Client Require Import Seq SeqProofsTile.

Lemma parse_tree_nonneg text t : parse_tree text = Index.Ok t -> 0 <= Codec.tN t.
Proof.
  unfold parse_tree. destruct (_ || _ || _); [discriminate|].
  destruct (split_on 10 text) as [|l0 [|l1 [|l2 r]]]; try discriminate.
  destruct (Strconv.parse_int64 l1) as [n|]; [|discriminate].
  destruct (n <? 0) eqn:Hn; cbn [orb]; [discriminate|].
  destruct (negb _); [discriminate|].
  destruct (Base64.b64_decode l2) as [h|]; [|discriminate].
  destruct (len h =? _); [|discriminate].
  intros [= <-]. cbn. apply Z.ltb_ge in Hn. exact Hn.
Qed.

Section Safe.
Variable sha : str -> str.
Variable leaf_hash : str -> hash.
Variable node_hash : hash -> hash -> hash.
Variable V : str -> str -> str -> bool.
Variable esc_path esc_vers : str -> option str.
Variable skip : str -> bool.

Variable NodeAt : hash -> Z -> Z -> Z -> hash -> Prop.
Variable tile_ok : hash -> Z -> tile -> str -> Prop.

Hypothesis tiles_sound : forall N R h ix rt hs ts ds,
  1 <= h <= 30 -> 0 <= N < 2 ^ 62 ->
  tile_read_hashes node_hash (N, R) h ix rt = (TOk hs, Some (ts, ds)) ->
  Forall2 (node_auth NodeAt R N) ix hs /\ Forall2 (tile_ok R N) ts ds.

Hypothesis saved_implies_ok : forall N R h ix rt r sv,
  1 <= h <= 30 -> 0 <= N < 2 ^ 62 ->
  tile_read_hashes node_hash (N, R) h ix rt = (r, Some sv) -> exists hs, r = TOk hs.

Variable vs : verifiers str.
Variable name : str.

(* msg opens under the configured verifiers to a tree text that parses to t *)
Definition signed_tree (msg : str) (t : tree) : Prop :=
  exists n, Note.open str V msg vs = Note.Ok n /\ parse_tree (n_text n) = Index.Ok t.

Hypothesis signed_small : forall msg t, signed_tree msg t -> Codec.tN t < 2 ^ 62.

Lemma signed_range msg t : signed_tree msg t -> 0 <= Codec.tN t < 2 ^ 62.
Proof.
  intros H. split; [|eapply signed_small; eauto].
  destruct H as (n & _ & Hp). eapply parse_tree_nonneg; eauto.
Qed.

Definition note_ok (m : str) : Prop := m = [] \/ exists t, signed_tree m t.

(* the head (N, hash) of [older] is what the authenticated hashes of [newer] fold to *)
Definition Consistent (older newer : tree) : Prop :=
  hash_of_prefix node_hash NodeAt newer (Codec.tN older) (Codec.tH older).

Definition head_ok (msg : str) (t : tree) : Prop :=
  (msg = [] /\ Codec.tN t = 0) \/ signed_tree msg t.

(* a lookup response whose record is authenticated against a signed tree *)
Definition auth_record (data : str) : Prop :=
  exists id text rest tmsg t,
    parse_record data = Index.Ok (id, text, rest) /\ signed_tree tmsg t /\ id < Codec.tN t /\
    node_auth NodeAt (Codec.tH t) (Codec.tN t) (stored_hash_index 0 id) (leaf_hash text).

Definition is_lookup_file (f : str) : Prop :=
  exists ep ev, f = name ++ B "/lookup/" ++ ep ++ [64] ++ ev.

Definition tile_write_ok (f d : str) : Prop :=
  exists t tmsg tr, f = tile_cache_key name t /\ signed_tree tmsg tr /\
                    tile_ok (Codec.tH tr) (Codec.tN tr) t d.

Definition config_write_ok (old new : str) : Prop :=
  exists tnew, signed_tree new tnew /\
    (old = [] \/ exists told, signed_tree old told /\ Codec.tN told < Codec.tN tnew /\ Consistent told tnew).

Definition ev_safe (e : event) : Prop :=
  match e with
  | EvReadRemote _ | EvReadCache _ | EvReadConfig _ => True
  | EvWriteCache f d => tile_write_ok f d \/ (is_lookup_file f /\ auth_record d)
  | EvWriteConfig f old new ok => f = latest_file name /\ config_write_ok old new
  | EvSecurity msg => exists older newer h p, msg = security_msg older newer h p /\ note_ok older /\ note_ok newer
  end.

(* ev_safe and not a configuration write *)
Definition ev_nocfg (e : event) : Prop :=
  ev_safe e /\ match e with EvWriteConfig _ _ _ _ => False | _ => True end.

Lemma ev_nocfg_safe e : ev_nocfg e -> ev_safe e.
Proof. intros []; auto. Qed.

(* the invariant of an initialised client *)
Record CInv (c : client) : Prop := mkCInv {
  ci_vs : c_verifiers c = vs;
  ci_name : c_name c = name;
  ci_height : 1 <= c_height c <= 30;
  ci_head : head_ok (c_latest_msg c) (c_latest c);
  ci_records : forall f d, In (f, ROk d) (c_records c) -> auth_record d
}.

Lemma head_ok_range msg t : head_ok msg t -> 0 <= Codec.tN t < 2 ^ 62.
Proof.
  intros [[_ ->]|H]; [split; [lia | reflexivity]|]. eapply signed_range; eauto.
Qed.

Lemma head_ok_note msg t : head_ok msg t -> note_ok msg.
Proof. intros [[-> _]|H]; [left; reflexivity | right; eauto]. Qed.

Lemma tframe_cinv s s' : tframe s s' -> CInv (s_c s) -> CInv (s_c s').
Proof.
  intros F [H1 H2 H3 H4 H5]. constructor.
  - rewrite (tf_vs _ _ F); auto.
  - rewrite (tf_name _ _ F); auto.
  - rewrite (tf_height _ _ F); auto.
  - rewrite (tf_msg _ _ F), (tf_latest _ _ F); auto.
  - rewrite (tf_records _ _ F); auto.
Qed.

(* tile events of a signed tree are safe *)
Lemma tile_ev_safe tr tmsg e :
  signed_tree tmsg tr -> tile_ev tile_ok name tr e -> ev_nocfg e.
Proof.
  intros Hs. destruct e; cbn; intros He; try contradiction; unfold ev_nocfg; cbn; try tauto.
  destruct He as (t & -> & Hok). split; [|exact I]. left. exists t, tmsg, tr. auto.
Qed.

(* ---- checkTrees ------------------------------------------------------------------------------ *)

Definition trusted (msg : str) (t : tree) : Prop := Codec.tN t = 0 \/ signed_tree msg t.

Definition is_sec (e : event) : Prop := match e with EvSecurity _ => True | _ => False end.

Definition sec_ev (older_note newer_note : str) (e : event) : Prop :=
  exists h p, e = EvSecurity (security_msg older_note newer_note h p).

(* safe, no configuration write, no security report *)
Definition ev_quiet (e : event) : Prop := ev_nocfg e /\ ~ is_sec e.

Lemma tile_ev_quiet tr tmsg e :
  signed_tree tmsg tr -> tile_ev tile_ok name tr e -> ev_quiet e.
Proof.
  intros Hs He. split; [eapply tile_ev_safe; eauto|]. destruct e; cbn in *; tauto.
Qed.

Lemma emit_spec e s u s' : emit e s = (u, s') -> tframe s s' /\ s_tr s' = s_tr s ++ [e].
Proof. unfold emit. intros [= _ <-]. split; [constructor; reflexivity | reflexivity]. Qed.

Lemma tree_hash_st_safe newer nn n s r s' :
  CInv (s_c s) -> 0 <= n <= Codec.tN newer -> Codec.tN newer < 2 ^ 62 -> trusted nn newer ->
  tree_hash_st node_hash newer n s = (r, s') ->
  tframe s s' /\ textend ev_quiet s s' /\
  (forall h, r = TOk h -> hash_of_prefix node_hash NodeAt newer n h).
Proof.
  intros HI Hn HN [H0|Hs] H.
  - assert (n = 0) by lia. subst n. unfold tree_hash_st in H. cbn in H.
    apply ret_inv in H as [-> ->]. split; [apply tframe_refl|]. split; [apply textend_refl|].
    intros h [= <-]. left. auto.
  - eapply tree_hash_st_spec in H; eauto; [|apply (ci_height _ HI) | lia].
    destruct H as (F & T & Hh). split; [exact F|]. split; [|exact Hh].
    eapply textend_impl; [|exact T]. rewrite (ci_name _ HI). intros e. eapply tile_ev_quiet; eauto.
Qed.

Lemma prove_tree_st_safe newer nn n s r s' :
  CInv (s_c s) -> 0 <= Codec.tN newer < 2 ^ 62 -> trusted nn newer ->
  prove_tree_st node_hash newer (Codec.tN newer) n s = (r, s') ->
  tframe s s' /\ textend ev_quiet s s'.
Proof.
  intros HI HN [H0|Hs] H.
  - unfold prove_tree_st in H. rewrite H0 in H. cbn in H.
    apply ret_inv in H as [_ ->]. split; [apply tframe_refl | apply textend_refl].
  - eapply prove_tree_st_spec in H; eauto; [|apply (ci_height _ HI)].
    destruct H as (F & T). split; [exact F|].
    eapply textend_impl; [|exact T]. rewrite (ci_name _ HI). intros e. eapply tile_ev_quiet; eauto.
Qed.

Lemma textend_quiet_nocfg s s' : textend ev_quiet s s' -> textend ev_nocfg s s'.
Proof. apply textend_impl. intros e []; auto. Qed.

Lemma check_trees_spec older on newer nn s r s' :
  CInv (s_c s) ->
  0 <= Codec.tN older <= Codec.tN newer -> Codec.tN newer < 2 ^ 62 ->
  trusted nn newer -> note_ok on -> note_ok nn ->
  check_trees node_hash older on newer nn s = (r, s') ->
  tframe s s' /\
  textend (fun e => ev_nocfg e /\ (is_sec e -> sec_ev on nn e)) s s' /\
  (r = None -> Consistent older newer) /\
  (r = Some ESecurity -> exists e, In e (s_tr s') /\ sec_ev on nn e) /\
  (r <> Some ESecurity -> textend ev_quiet s s').
Proof.
  intros HI Hn HN Htr Hon Hnn H. unfold check_trees in H.
  minv H. eapply tree_hash_st_safe in E as (F & T & Hh); eauto.
  assert (Tw : textend (fun e => ev_nocfg e /\ (is_sec e -> sec_ev on nn e)) s s0).
  { eapply textend_impl; [|exact T]. intros e [Hq Hns]. split; [exact Hq | tauto]. }
  destruct a as [h|e|].
  2,3: apply ret_inv in H as [-> ->]; split; [exact F|]; split; [exact Tw|];
       split; [discriminate|]; split; [discriminate | intros _; exact T].
  destruct (str_eqb h (Codec.tH older)) eqn:Heq.
  - apply ret_inv in H as [-> ->]. split; [exact F|]. split; [exact Tw|].
    split; [|split; [discriminate | intros _; exact T]].
    intros _. apply str_eqb_eq in Heq. subst h. apply Hh. reflexivity.
  - minv H. assert (HI0 := tframe_cinv _ _ F HI).
    eapply prove_tree_st_safe in E as (F1 & T1); eauto; [|lia].
    minv H. apply emit_spec in E as [F2 T2]. apply ret_inv in H as [-> ->].
    split; [eapply tframe_trans; [exact F|]; eapply tframe_trans; eauto|].
    set (pf := match a with
               | TOk p => match check_tree node_hash p (Codec.tN newer) (Codec.tH newer) (Codec.tN older) h with
                          | Index.Ok _ => Some p | _ => None end
               | _ => None end) in *.
    assert (Hsec : sec_ev on nn (EvSecurity (security_msg on nn h pf))) by (exists h, pf; reflexivity).
    split; [|split; [discriminate|]; split; [|congruence]].
    + eapply textend_trans; [exact Tw|]. eapply textend_trans.
      * eapply textend_impl; [|exact T1]. intros e [Hq Hns]. split; [exact Hq | tauto].
      * eapply textend_one; [exact T2|]. split; [|intros _; exact Hsec].
        split; [|exact I]. cbn. exists on, nn, h, pf. auto.
    + intros _. exists (EvSecurity (security_msg on nn h pf)). split; [|exact Hsec].
      rewrite T2. apply in_or_app. right. left. reflexivity.
Qed.

End Safe.
