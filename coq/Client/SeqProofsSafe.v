(* Client/SeqProofsSafe.v — safety of the sequential client model (C01, C13): whatever the world
   answers, every event emitted and every value returned is authenticated against a tree head
   that opens under the configured verifiers, and the stored head only moves forward along
   one timeline.

   Parametric (Section variables / hypotheses) in
     NodeAt, tile_ok, tiles_sound, saved_authenticated       C10 (see SeqProofsTile.v)
     vs, name                                              the configured verifiers and server name
     signed_small : a tree that opens under vs has fewer than 2^62 records (the domain on
                    which the tlog and tile models mirror int64 arithmetic). *)
From Verif.Base Require Import Bytes.
From Verif.Tlog Require Import Index Tree Codec Tile TileReader.
From Verif.Note Require Import Note.
From Verif.Client Require Import Seq SeqProofsTile.

Lemma parse_tree_nonneg text t : parse_tree text = Index.Ok t -> 0 <= Codec.tN t.
Proof.
  unfold parse_tree. destruct (_ || _ || _); [discriminate|].
  destruct (split_on 10 text) as [|l0 [|l1 [|l2 r]]]; try discriminate.
  destruct (Strconv.parse_int64 l1) as [n|]; [|discriminate].
  destruct (n <? 0) eqn:Hn; cbn [orb]; [discriminate|].
  destruct (negb _); [discriminate|].
  destruct (Base64.b64_decode l2) as [h|]; [|discriminate].
  destruct (len h =? _); [|discriminate].
  intros [= <-]. cbn. apply Z.ltb_ge in Hn. exact Hn.
Qed.

Section Safe.
Variable sha : str -> str.
Variable leaf_hash : str -> hash.
Variable node_hash : hash -> hash -> hash.
Variable V : str -> str -> str -> bool.
Variable esc_path esc_vers : str -> option str.
Variable skip : str -> bool.

Variable NodeAt : hash -> Z -> Z -> Z -> hash -> Prop.
Variable tile_ok : hash -> Z -> tile -> str -> Prop.

Hypothesis tiles_sound : forall N R h ix rt hs ts ds,
  1 <= h <= 30 -> 0 <= N < 2 ^ 62 ->
  tile_read_hashes node_hash (N, R) h ix rt = (TOk hs, Some (ts, ds)) ->
  Forall2 (node_auth NodeAt R N) ix hs /\ Forall2 (tile_ok R N) ts ds.

Hypothesis saved_authenticated : forall N R h ix rt r ts ds,
  1 <= h <= 30 -> 0 <= N < 2 ^ 62 ->
  tile_read_hashes node_hash (N, R) h ix rt = (r, Some (ts, ds)) -> Forall2 (tile_ok R N) ts ds.

Variable vs : verifiers str.
Variable name : str.

(* msg opens under the configured verifiers to a tree text that parses to t *)
Definition signed_tree (msg : str) (t : tree) : Prop :=
  exists n, Note.open str V msg vs = Note.Ok n /\ parse_tree (n_text n) = Index.Ok t.

Hypothesis signed_small : forall msg t, signed_tree msg t -> Codec.tN t < 2 ^ 62.

Lemma signed_range msg t : signed_tree msg t -> 0 <= Codec.tN t < 2 ^ 62.
Proof.
  intros H. split; [|eapply signed_small; eauto].
  destruct H as (n & _ & Hp). eapply parse_tree_nonneg; eauto.
Qed.

Definition note_ok (m : str) : Prop := m = [] \/ exists t, signed_tree m t.

(* the head (N, hash) of [older] is what the authenticated hashes of [newer] fold to *)
Definition Consistent (older newer : tree) : Prop :=
  hash_of_prefix node_hash NodeAt newer (Codec.tN older) (Codec.tH older).

Definition head_ok (msg : str) (t : tree) : Prop :=
  (msg = [] /\ Codec.tN t = 0) \/ signed_tree msg t.

(* a lookup response whose record is authenticated against a signed tree *)
Definition auth_record (data : str) : Prop :=
  exists id text rest tmsg t,
    parse_record data = Index.Ok (id, text, rest) /\ signed_tree tmsg t /\
    0 <= id < Codec.tN t /\
    node_auth NodeAt (Codec.tH t) (Codec.tN t) (stored_hash_index 0 id) (leaf_hash text).

Definition is_lookup_file (f : str) : Prop :=
  exists ep ev, f = name ++ B "/lookup/" ++ ep ++ [64] ++ ev.

Definition tile_write_ok (f d : str) : Prop :=
  exists t tmsg tr, f = tile_cache_key name t /\ signed_tree tmsg tr /\
                    tile_ok (Codec.tH tr) (Codec.tN tr) t d.

Definition config_write_ok (old new : str) : Prop :=
  exists tnew, signed_tree new tnew /\
    (old = [] \/ exists told, signed_tree old told /\ Codec.tN told < Codec.tN tnew /\ Consistent told tnew).

Definition ev_safe (e : event) : Prop :=
  match e with
  | EvReadRemote _ | EvReadCache _ | EvReadConfig _ => True
  | EvWriteCache f d => tile_write_ok f d \/ (is_lookup_file f /\ auth_record d)
  | EvWriteConfig f old new ok => f = latest_file name /\ config_write_ok old new
  | EvSecurity msg => exists older newer h p, msg = security_msg older newer h p /\ note_ok older /\ note_ok newer
  end.

(* ev_safe and not a configuration write *)
Definition ev_nocfg (e : event) : Prop :=
  ev_safe e /\ match e with EvWriteConfig _ _ _ _ => False | _ => True end.

Lemma ev_nocfg_safe e : ev_nocfg e -> ev_safe e.
Proof. intros []; auto. Qed.

(* the invariant of an initialised client *)
Record CInv (c : client) : Prop := mkCInv {
  ci_vs : c_verifiers c = vs;
  ci_name : c_name c = name;
  ci_height : 1 <= c_height c <= 30;
  ci_head : head_ok (c_latest_msg c) (c_latest c);
  ci_records : forall f d, In (f, ROk d) (c_records c) -> auth_record d;
  ci_nofuel : forall f, ~ In (f, RErr EFuelC) (c_records c)
}.

Lemma head_ok_range msg t : head_ok msg t -> 0 <= Codec.tN t < 2 ^ 62.
Proof.
  intros [[_ ->]|H]; [split; [lia | reflexivity]|]. eapply signed_range; eauto.
Qed.

Lemma head_ok_note msg t : head_ok msg t -> note_ok msg.
Proof. intros [[-> _]|H]; [left; reflexivity | right; eauto]. Qed.

Lemma tframe_cinv s s' : tframe s s' -> CInv (s_c s) -> CInv (s_c s').
Proof.
  intros F [H1 H2 H3 H4 H5 H6]. constructor.
  - rewrite (tf_vs _ _ F); auto.
  - rewrite (tf_name _ _ F); auto.
  - rewrite (tf_height _ _ F); auto.
  - rewrite (tf_msg _ _ F), (tf_latest _ _ F); auto.
  - rewrite (tf_records _ _ F); auto.
  - rewrite (tf_records _ _ F); auto.
Qed.

(* tile events of a signed tree are safe *)
Lemma tile_ev_safe tr tmsg e :
  signed_tree tmsg tr -> tile_ev tile_ok name tr e -> ev_nocfg e.
Proof.
  intros Hs. destruct e; cbn; intros He; try contradiction; unfold ev_nocfg; cbn; try tauto.
  destruct He as (t & -> & Hok). split; [|exact I]. left. exists t, tmsg, tr. auto.
Qed.

(* ---- checkTrees ------------------------------------------------------------------------------ *)

Definition trusted (msg : str) (t : tree) : Prop := Codec.tN t = 0 \/ signed_tree msg t.

Definition is_sec (e : event) : Prop := match e with EvSecurity _ => True | _ => False end.

Definition sec_ev (older_note newer_note : str) (e : event) : Prop :=
  exists h p, e = EvSecurity (security_msg older_note newer_note h p).

(* safe, no configuration write, no security report *)
Definition ev_quiet (e : event) : Prop := ev_nocfg e /\ ~ is_sec e.

Lemma tile_ev_quiet tr tmsg e :
  signed_tree tmsg tr -> tile_ev tile_ok name tr e -> ev_quiet e.
Proof.
  intros Hs He. split; [eapply tile_ev_safe; eauto|]. destruct e; cbn in *; tauto.
Qed.

Lemma emit_spec e s u s' : emit e s = (u, s') -> tframe s s' /\ s_tr s' = s_tr s ++ [e].
Proof. unfold emit. intros [= _ <-]. split; [constructor; reflexivity | reflexivity]. Qed.

Lemma tree_hash_st_safe newer nn n s r s' :
  CInv (s_c s) -> 0 <= n <= Codec.tN newer -> Codec.tN newer < 2 ^ 62 -> trusted nn newer ->
  tree_hash_st node_hash newer n s = (r, s') ->
  tframe s s' /\ textend ev_quiet s s' /\
  (forall h, r = TOk h -> hash_of_prefix node_hash NodeAt newer n h).
Proof.
  intros HI Hn HN [H0|Hs] H.
  - assert (n = 0) by lia. subst n. unfold tree_hash_st in H. cbn in H.
    apply ret_inv in H as [-> ->]. split; [apply tframe_refl|]. split; [apply textend_refl|].
    intros h [= <-]. left. auto.
  - eapply tree_hash_st_spec in H; eauto; [|apply (ci_height _ HI) | lia].
    destruct H as (F & T & Hh). split; [exact F|]. split; [|exact Hh].
    eapply textend_impl; [|exact T]. rewrite (ci_name _ HI). intros e. eapply tile_ev_quiet; eauto.
Qed.

Lemma prove_tree_st_safe newer nn n s r s' :
  CInv (s_c s) -> 0 <= Codec.tN newer < 2 ^ 62 -> trusted nn newer ->
  prove_tree_st node_hash newer (Codec.tN newer) n s = (r, s') ->
  tframe s s' /\ textend ev_quiet s s'.
Proof.
  intros HI HN [H0|Hs] H.
  - unfold prove_tree_st in H. rewrite H0 in H. cbn in H.
    apply ret_inv in H as [_ ->]. split; [apply tframe_refl | apply textend_refl].
  - eapply prove_tree_st_spec in H; eauto; [|apply (ci_height _ HI)].
    destruct H as (F & T). split; [exact F|].
    eapply textend_impl; [|exact T]. rewrite (ci_name _ HI). intros e. eapply tile_ev_quiet; eauto.
Qed.

(* a security report is among the events added *)
Definition has_sec (s s' : state) : Prop :=
  exists evs, s_tr s' = s_tr s ++ evs /\ Exists is_sec evs.

Lemma has_sec_intro P s s1 s' e :
  textend P s s1 -> s_tr s' = s_tr s1 ++ [e] -> is_sec e -> has_sec s s'.
Proof.
  intros (e1 & H1 & _) H2 He. exists (e1 ++ [e]). split.
  - rewrite H2, H1, app_assoc. reflexivity.
  - apply Exists_app. right. constructor. exact He.
Qed.

Lemma has_sec_l P s s1 s' : textend P s s1 -> has_sec s1 s' -> has_sec s s'.
Proof.
  intros (e1 & H1 & _) (e2 & H2 & He). exists (e1 ++ e2). split.
  - rewrite H2, H1, app_assoc. reflexivity.
  - apply Exists_app. right. exact He.
Qed.

Lemma has_sec_r P s s1 s' : has_sec s s1 -> textend P s1 s' -> has_sec s s'.
Proof.
  intros (e1 & H1 & He) (e2 & H2 & _). exists (e1 ++ e2). split.
  - rewrite H2, H1, app_assoc. reflexivity.
  - apply Exists_app. left. exact He.
Qed.

Lemma textend_quiet_nocfg s s' : textend ev_quiet s s' -> textend ev_nocfg s s'.
Proof. apply textend_impl. intros e []; auto. Qed.

Lemma check_trees_spec older on newer nn s r s' :
  CInv (s_c s) ->
  0 <= Codec.tN older <= Codec.tN newer -> Codec.tN newer < 2 ^ 62 ->
  trusted nn newer -> note_ok on -> note_ok nn ->
  check_trees node_hash older on newer nn s = (r, s') ->
  tframe s s' /\
  textend (fun e => ev_nocfg e /\ (is_sec e -> sec_ev on nn e)) s s' /\
  (r = None -> Consistent older newer) /\
  (r = Some ESecurity -> has_sec s s') /\
  (r <> Some ESecurity -> textend ev_quiet s s').
Proof.
  intros HI Hn HN Htr Hon Hnn H. unfold check_trees in H.
  minv H. eapply tree_hash_st_safe in E as (F & T & Hh); eauto.
  assert (Tw : textend (fun e => ev_nocfg e /\ (is_sec e -> sec_ev on nn e)) s s0).
  { eapply textend_impl; [|exact T]. intros e [Hq Hns]. split; [exact Hq | tauto]. }
  destruct a as [h|e|].
  2,3: apply ret_inv in H as [-> ->]; split; [exact F|]; split; [exact Tw|];
       split; [discriminate|]; split; [discriminate | intros _; exact T].
  destruct (str_eqb h (Codec.tH older)) eqn:Heq.
  - apply ret_inv in H as [-> ->]. split; [exact F|]. split; [exact Tw|].
    split; [|split; [discriminate | intros _; exact T]].
    intros _. apply str_eqb_eq in Heq. subst h. apply Hh. reflexivity.
  - minv H. assert (HI0 := tframe_cinv _ _ F HI).
    eapply prove_tree_st_safe in E as (F1 & T1); eauto; [|lia].
    minv H. apply emit_spec in E as [F2 T2]. apply ret_inv in H as [-> ->].
    split; [eapply tframe_trans; [exact F|]; eapply tframe_trans; eauto|].
    set (pf := match a with
               | TOk p => match check_tree node_hash p (Codec.tN newer) (Codec.tH newer) (Codec.tN older) h with
                          | Index.Ok _ => Some p | _ => None end
               | _ => None end) in *.
    assert (Hsec : sec_ev on nn (EvSecurity (security_msg on nn h pf))) by (exists h, pf; reflexivity).
    split; [|split; [discriminate|]; split; [|congruence]].
    + eapply textend_trans; [exact Tw|]. eapply textend_trans.
      * eapply textend_impl; [|exact T1]. intros e [Hq Hns]. split; [exact Hq | tauto].
      * eapply textend_one; [exact T2|]. split; [|intros _; exact Hsec].
        split; [|exact I]. cbn. exists on, nn, h, pf. auto.
    + intros _. eapply has_sec_intro; [|exact T2|exact I].
      eapply textend_trans; [exact T | exact T1].
Qed.

(* ---- mergeLatestMem ---------------------------------------------------------------------------- *)

(* what merging heads never changes *)
Record mframe (s s' : state) : Prop := mkMframe {
  mf_init : c_init (s_c s') = c_init (s_c s);
  mf_name : c_name (s_c s') = c_name (s_c s);
  mf_vs : c_verifiers (s_c s') = c_verifiers (s_c s);
  mf_records : c_records (s_c s') = c_records (s_c s);
  mf_height : c_height (s_c s') = c_height (s_c s);
  mf_remote : w_remote (s_w s') = w_remote (s_w s);
  mf_key : assoc (B "key") (w_config (s_w s')) = assoc (B "key") (w_config (s_w s))
}.

Lemma mframe_refl s : mframe s s.
Proof. constructor; reflexivity. Qed.

Lemma mframe_trans s1 s2 s3 : mframe s1 s2 -> mframe s2 s3 -> mframe s1 s3.
Proof. intros [] []. constructor; congruence. Qed.

Lemma tframe_mframe s s' : tframe s s' -> mframe s s'.
Proof. intros []. constructor; auto. congruence. Qed.

Definition same_head (s s' : state) : Prop :=
  c_latest (s_c s') = c_latest (s_c s) /\ c_latest_msg (s_c s') = c_latest_msg (s_c s).

Definition same_config (s s' : state) : Prop :=
  w_config (s_w s') = w_config (s_w s) /\ w_interf (s_w s') = w_interf (s_w s).

Lemma tframe_same_head s s' : tframe s s' -> same_head s s'.
Proof. intros []. split; auto. Qed.

Lemma tframe_same_config s s' : tframe s s' -> same_config s s'.
Proof. intros []. split; auto. Qed.

(* the relation between a merged message and the head it was merged into *)
Definition merged (w : when) (msg : str) (old_head new_head : tree) (new_msg : str) : Prop :=
  match w with
  | MsgFuture => msg <> [] /\ new_msg = msg /\ signed_tree msg new_head /\
                 Codec.tN old_head < Codec.tN new_head /\ Consistent old_head new_head
  | MsgPast => new_head = old_head /\ 0 < Codec.tN old_head /\
               (msg = [] \/ exists t, signed_tree msg t /\ Codec.tN t < Codec.tN old_head /\ Consistent t old_head)
  | MsgNow => new_head = old_head /\
              (msg = [] \/ exists t, signed_tree msg t /\ Codec.tN t = Codec.tN old_head /\ Consistent t old_head)
  end.

Lemma install_inv tr m s u s' :
  install tr m s = (u, s') ->
  s' = mkState (s_w s)
               (mkClient (c_init (s_c s)) (c_name (s_c s)) (c_verifiers (s_c s)) tr m
                         (c_records (s_c s)) (c_tiles (s_c s)) (c_tile_saved (s_c s)) (c_height (s_c s)))
               (s_tr s).
Proof. unfold install, bindM, get_client, set_client. intros [= _ <-]. reflexivity. Qed.

Lemma merge_latest_mem_spec msg s r s' :
  CInv (s_c s) ->
  merge_latest_mem node_hash V msg s = (r, s') ->
  CInv (s_c s') /\ mframe s s' /\ same_config s s' /\ textend ev_nocfg s s' /\
  match r with
  | inr e => same_head s s' /\ (e = ESecurity -> has_sec s s') /\ (e <> ESecurity -> textend ev_quiet s s')
  | inl w => textend ev_quiet s s' /\
             merged w msg (c_latest (s_c s)) (c_latest (s_c s')) (c_latest_msg (s_c s')) /\
             (w <> MsgFuture -> same_head s s')
  end.
Proof.
  intros HI H. unfold merge_latest_mem in H.
  minv H. unfold get_client in E. inversion E; subst a s0; clear E.
  assert (Hrefl : CInv (s_c s) /\ mframe s s /\ same_config s s /\ textend ev_nocfg s s).
  { split; [exact HI|]. split; [apply mframe_refl|]. split; [split; reflexivity | apply textend_refl]. }
  assert (Hsame : same_head s s) by (split; reflexivity).
  destruct msg as [|b msg'].
  { apply ret_inv in H as [-> ->]. destruct Hrefl as (R1 & R2 & R3 & R4).
    split; [exact R1|]. split; [exact R2|]. split; [exact R3|]. split; [exact R4|]. split; [apply textend_refl|]. split; [|intros _; exact Hsame].
    assert (Hr0 := head_ok_range _ _ (ci_head _ HI)).
    destruct (Codec.tN (c_latest (s_c s)) =? 0) eqn:H0; cbn; auto.
    apply Z.eqb_neq in H0. split; [reflexivity|]. split; [lia | auto]. }
  set (msg := b :: msg') in *.
  rewrite (ci_vs _ HI) in H.
  destruct (Note.open str V msg vs) as [n|e] eqn:Hopen.
  2: { apply ret_inv in H as [-> ->]. destruct Hrefl as (R1 & R2 & R3 & R4).
       split; [exact R1|]. split; [exact R2|]. split; [exact R3|]. split; [exact R4|]. split; [exact Hsame|]. split; [discriminate | intros _; apply textend_refl]. }
  destruct (parse_tree (n_text n)) as [tr|k|] eqn:Hparse.
  2,3: apply ret_inv in H as [-> ->]; destruct Hrefl as (R1 & R2 & R3 & R4);
       (split; [exact R1|]); (split; [exact R2|]); (split; [exact R3|]); (split; [exact R4|]); (split; [exact Hsame|]); (split; [discriminate | intros _; apply textend_refl]).
  assert (Hsig : signed_tree msg tr) by (exists n; auto).
  assert (Htr := signed_range _ _ Hsig).
  assert (Hlat := head_ok_range _ _ (ci_head _ HI)).
  assert (Hnote : note_ok (c_latest_msg (s_c s))) by (eapply head_ok_note; apply (ci_head _ HI)).
  assert (Htrust : trusted (c_latest_msg (s_c s)) (c_latest (s_c s))).
  { destruct (ci_head _ HI) as [[_ H0]|Hs]; [left; exact H0 | right; exact Hs]. }
  destruct (Codec.tN tr <=? Codec.tN (c_latest (s_c s))) eqn:Hle.
  - apply Z.leb_le in Hle.
    minv H.
    assert (P1 : 0 <= Codec.tN tr <= Codec.tN (c_latest (s_c s))) by lia.
    assert (P2 : Codec.tN (c_latest (s_c s)) < 2 ^ 62) by lia.
    assert (P3 : note_ok msg) by (right; eauto).
    destruct (check_trees_spec _ _ _ _ _ _ _ HI P1 P2 Htrust P3 Hnote E) as (F & T & Hnone & Hsec & Hq).
    assert (Tn : textend ev_nocfg s s0) by (eapply textend_impl; [|exact T]; intros e []; auto).
    destruct a as [err|].
    + apply ret_inv in H as [-> ->].
      split; [eapply tframe_cinv; eauto|]. split; [apply tframe_mframe; exact F|].
      split; [apply tframe_same_config; exact F|]. split; [exact Tn|].
      split; [apply tframe_same_head; exact F|]. split.
      * intros ->. apply Hsec. reflexivity.
      * intros Hne. apply Hq. congruence.
    + apply ret_inv in H as [-> ->].
      split; [eapply tframe_cinv; eauto|]. split; [apply tframe_mframe; exact F|].
      split; [apply tframe_same_config; exact F|]. split; [exact Tn|].
      split; [apply Hq; discriminate|]. split; [|intros _; apply tframe_same_head; exact F].
      destruct (Codec.tN tr <? Codec.tN (c_latest (s_c s))) eqn:Hlt; cbn.
      * split; [apply (tf_latest _ _ F)|]. apply Z.ltb_lt in Hlt. split; [lia|]. right. exists tr. auto.
      * split; [apply (tf_latest _ _ F)|]. right. exists tr. apply Z.ltb_ge in Hlt.
        split; [exact Hsig|]. split; [lia | auto].
  - apply Z.leb_gt in Hle.
    minv H.
    assert (P1 : 0 <= Codec.tN (c_latest (s_c s)) <= Codec.tN tr) by lia.
    assert (P2 : Codec.tN tr < 2 ^ 62) by lia.
    assert (P3 : note_ok msg) by (right; eauto).
    assert (P4 : trusted msg tr) by (right; exact Hsig).
    destruct (check_trees_spec _ _ _ _ _ _ _ HI P1 P2 P4 Hnote P3 E) as (F & T & Hnone & Hsec & Hq).
    assert (Tn : textend ev_nocfg s s0) by (eapply textend_impl; [|exact T]; intros e []; auto).
    destruct a as [err|].
    + apply ret_inv in H as [-> ->].
      split; [eapply tframe_cinv; eauto|]. split; [apply tframe_mframe; exact F|].
      split; [apply tframe_same_config; exact F|]. split; [exact Tn|].
      split; [apply tframe_same_head; exact F|]. split.
      * intros ->. apply Hsec. reflexivity.
      * intros Hne. apply Hq. congruence.
    + minv H. apply install_inv in E0. subst s1.
      apply ret_inv in H as [-> ->]. cbn [s_c s_w s_tr].
      assert (HI0 := tframe_cinv _ _ F HI).
      split.
      { destruct HI0. constructor; cbn; auto. right. exact Hsig. }
      split; [constructor; cbn; try apply F; rewrite (tf_config _ _ F); reflexivity|].
      split; [split; cbn; apply F|].
      split; [destruct Tn as (evs & ? & ?); exists evs; cbn; auto|].
      split; [destruct (Hq ltac:(discriminate)) as (evs & ? & ?); exists evs; cbn; auto|].
      split; [|congruence].
      cbn. split; [discriminate|]. split; [reflexivity|]. split; [exact Hsig|]. split; [lia|].
      apply Hnone. reflexivity.
Qed.

(* the errors mergeLatestMem can produce *)
Lemma check_trees_errs older on newer nn s e s' :
  check_trees node_hash older on newer nn s = (Some e, s') -> e = EPanicC \/ e = ETiles \/ e = ESecurity.
Proof.
  unfold check_trees. intros H. minv H. destruct a as [h|k|].
  - destruct (str_eqb h (Codec.tH older)).
    + apply ret_inv in H as [[=] _].
    + minv H. minv H. apply ret_inv in H as [[= <-] _]. auto.
  - apply ret_inv in H as [[= <-] _]. auto.
  - apply ret_inv in H as [[= <-] _]. auto.
Qed.

Lemma merge_latest_mem_errs msg s e s' :
  merge_latest_mem node_hash V msg s = (inr e, s') -> e <> EFuelC.
Proof.
  unfold merge_latest_mem. intros H. minv H. destruct msg as [|b m].
  { apply ret_inv in H as [[=] _]. }
  destruct (Note.open str V (b :: m) (c_verifiers a)).
  2: { apply ret_inv in H as [[= ->] _]. discriminate. }
  destruct (parse_tree (n_text a0)).
  2,3: apply ret_inv in H as [[= ->] _]; discriminate.
  destruct (_ <=? _).
  - minv H. destruct a2 as [err|].
    + apply ret_inv in H as [[= ->] _]. apply check_trees_errs in E0. intuition congruence.
    + apply ret_inv in H as [[=] _].
  - minv H. destruct a2 as [err|].
    + apply ret_inv in H as [[= ->] _]. apply check_trees_errs in E0. intuition congruence.
    + minv H. apply ret_inv in H as [[=] _].
Qed.

(* ---- the configuration file ------------------------------------------------------------------ *)

Lemma read_config_spec f s r s' :
  read_config f s = (r, s') ->
  tframe s s' /\ textend ev_quiet s s' /\ r = assoc f (w_config (s_w s)).
Proof.
  unfold read_config, bindM, get_world, emit, ret; cbn. intros [= <- <-].
  split; [constructor; reflexivity|]. split; [|reflexivity].
  eapply textend_one; [reflexivity|]. split; [split; exact I | intros []].
Qed.

Lemma assoc_set_other k k' v l : k <> k' -> assoc k (assoc_set k' v l) = assoc k l.
Proof.
  intros Hne. induction l as [|[a b] l IH]; cbn.
  - destruct (str_eqb k k') eqn:E; [apply str_eqb_eq in E; contradiction | reflexivity].
  - destruct (str_eqb k' a) eqn:E1; cbn.
    + apply str_eqb_eq in E1. subst a.
      destruct (str_eqb k k') eqn:E; [apply str_eqb_eq in E; contradiction | reflexivity].
    + destruct (str_eqb k a); [reflexivity | exact IH].
Qed.

Lemma latest_file_not_key nm : latest_file nm <> B "key".
Proof.
  unfold latest_file. intros H. apply (f_equal (@rev Z)) in H. rewrite rev_app_distr in H.
  cbn in H. discriminate.
Qed.

Lemma write_config_spec f old new s ok s' :
  write_config f old new s = (ok, s') ->
  s_c s' = s_c s /\ w_remote (s_w s') = w_remote (s_w s) /\
  s_tr s' = s_tr s ++ [EvWriteConfig f old new ok] /\
  w_interf (s_w s') = List.tl (w_interf (s_w s)) /\
  (f <> B "key" -> assoc (B "key") (w_config (s_w s')) = assoc (B "key") (w_config (s_w s))) /\
  (ok = false -> exists x r, w_interf (s_w s) = Some x :: r \/ assoc f (w_config (s_w s)) <> Some old /\ (old <> [] \/ assoc f (w_config (s_w s)) <> None)).
Proof.
  unfold write_config, bindM, get_world, set_world, emit, ret; cbn. intros [= <- <-]. cbn.
  repeat (split; [reflexivity|]).
  split.
  { intros Hf. destruct (str_eqb old _); destruct (w_interf (s_w s)) as [|[x|] rr];
      repeat rewrite assoc_set_other by (intros Heq; apply Hf; symmetry; exact Heq); reflexivity. }
  intros Hok. destruct (w_interf (s_w s)) as [|[x|] r].
  - exists [], []. right. destruct (assoc f (w_config (s_w s))) as [d|] eqn:Ha.
    + split; [|right; discriminate]. intros [= ->]. rewrite str_eqb_refl in Hok. discriminate.
    + split; [discriminate|]. left. intros ->. discriminate.
  - exists x, r. left. reflexivity.
  - exists [], []. right. destruct (assoc f (w_config (s_w s))) as [d|] eqn:Ha.
    + split; [|right; discriminate]. intros [= ->]. rewrite str_eqb_refl in Hok. discriminate.
    + split; [discriminate|]. left. intros ->. discriminate.
Qed.

(* ---- mergeLatest ----------------------------------------------------------------------------------- *)

Definition safe_step (s s' : state) (r : option cerr) : Prop :=
  CInv (s_c s') /\ mframe s s' /\ textend ev_safe s s' /\
  (r = Some ESecurity -> has_sec s s').

Lemma textend_nocfg_safe s s' : textend ev_nocfg s s' -> textend ev_safe s s'.
Proof. apply textend_impl. apply ev_nocfg_safe. Qed.

Lemma textend_quiet_safe s s' : textend ev_quiet s s' -> textend ev_safe s s'.
Proof. apply textend_impl. intros e [[] _]. auto. Qed.

Lemma merge_loop_spec fuel : forall s r s',
  CInv (s_c s) ->
  merge_loop node_hash V fuel s = (r, s') ->
  safe_step s s' r /\ (length (w_interf (s_w s)) < fuel -> r <> Some EFuelC)%nat.
Proof.
  induction fuel as [|f IH]; intros s r s' HI H.
  - cbn in H. apply ret_inv in H as [-> ->]. split; [|intros Hl; inversion Hl].
    split; [exact HI|]. split; [apply mframe_refl|]. split; [apply textend_refl | discriminate].
  - cbn [merge_loop] in H. minv H. unfold get_client in E. inversion E; subst a s0; clear E.
    minv H. apply read_config_spec in E as (F0 & T0 & Hcfg).
    assert (HI0 := tframe_cinv _ _ F0 HI).
    destruct a as [msg|].
    2: { apply ret_inv in H as [-> ->]. split; [|discriminate].
         split; [exact HI0|]. split; [apply tframe_mframe; exact F0|].
         split; [apply textend_quiet_safe; exact T0 | discriminate]. }
    minv H. assert (Herr := E). apply merge_latest_mem_spec in E as (HI1 & F1 & C1 & T1 & Hr); [|exact HI0].
    assert (Fm : mframe s s1) by (eapply mframe_trans; [apply tframe_mframe; exact F0 | exact F1]).
    assert (Tm : textend ev_safe s s1).
    { eapply textend_trans; [apply textend_quiet_safe; exact T0 | apply textend_nocfg_safe; exact T1]. }
    destruct a as [w|e].
    2: { apply ret_inv in H as [-> ->]. destruct Hr as (_ & Hsec & _).
         split; [|intros _ [= ->]; eapply merge_latest_mem_errs; eauto].
         split; [exact HI1|]. split; [exact Fm|]. split; [exact Tm|].
         intros [= ->]. eapply has_sec_l; [exact T0 | apply Hsec; reflexivity]. }
    destruct Hr as (Tq & Hm & Hsame).
    destruct w.
    2,3: apply ret_inv in H as [-> ->]; (split; [|discriminate]);
         (split; [exact HI1|]); (split; [exact Fm|]); (split; [exact Tm | discriminate]).
    (* msg is in the past: write our head over it *)
    minv H. unfold get_client in E. inversion E; subst a s2; clear E.
    minv H. apply write_config_spec in E as (Hc & Hrem & Htr & Hint & Hkeep & Hfail).
    cbn in Hm. destruct Hm as (Hhead & Hpos & Hpast).
    assert (Hsame' := Hsame ltac:(discriminate)). destruct Hsame' as [_ Hmsg].
    assert (Hsigned : signed_tree (c_latest_msg (s_c s1)) (c_latest (s_c s1))).
    { destruct (ci_head _ HI1) as [[_ H0]|Hs]; [|exact Hs]. rewrite Hhead in H0. lia. }
    assert (Hev : ev_safe (EvWriteConfig (latest_file (c_name (s_c s1))) msg (c_latest_msg (s_c s1)) a)).
    { cbn. split; [rewrite (ci_name _ HI1); reflexivity|].
      exists (c_latest (s_c s1)). split; [exact Hsigned|].
      destruct Hpast as [->|(t & Ht & Hlt & Hcons)]; [left; reflexivity|].
      right. exists t. rewrite Hhead. auto. }
    assert (HI2 : CInv (s_c s2)) by (rewrite Hc; exact HI1).
    assert (F2 : mframe s s2).
    { eapply mframe_trans; [exact Fm|]. constructor; try (rewrite Hc; reflexivity); [exact Hrem|].
      apply Hkeep. apply latest_file_not_key. }
    assert (T2 : textend ev_safe s s2).
    { eapply textend_trans; [exact Tm|]. eapply textend_one; [exact Htr | exact Hev]. }
    destruct a.
    + apply ret_inv in H as [-> ->]. split; [|discriminate].
      split; [exact HI2|]. split; [exact F2|]. split; [exact T2 | discriminate].
    + apply IH in H as ((HI3 & F3 & T3 & Hsec3) & Hfuel); [|exact HI2].
      split.
      * split; [exact HI3|]. split; [eapply mframe_trans; eauto|].
        split; [eapply textend_trans; eauto|].
        intros Hr. eapply has_sec_l; [exact T2 | apply Hsec3; exact Hr].
      * intros Hlen. apply Hfuel.
        (* the failed compare-and-swap consumed an interference *)
        assert (Ei : w_interf (s_w s1) = w_interf (s_w s)).
        { destruct C1 as [_ Ci]. rewrite Ci. apply (tf_interf _ _ F0). }
        assert (Ec : w_config (s_w s1) = w_config (s_w s)).
        { destruct C1 as [Cc _]. rewrite Cc. apply (tf_config _ _ F0). }
        assert (En : c_name (s_c s1) = c_name (s_c s)) by apply (mf_name _ _ Fm).
        rewrite Hint, Ei.
        destruct (Hfail eq_refl) as (x & rr & [Hi|[Hne Hold]]).
        -- rewrite Ei in Hi. rewrite Hi in *. cbn in *. lia.
        -- exfalso. rewrite Ec, En in Hne. apply Hne. symmetry. exact Hcfg.
Qed.

Lemma merge_latest_spec msg s r s' :
  CInv (s_c s) ->
  merge_latest node_hash V msg s = (r, s') ->
  safe_step s s' r /\ r <> Some EFuelC.
Proof.
  intros HI H. unfold merge_latest in H.
  minv H. assert (Herr := E). apply merge_latest_mem_spec in E as (HI1 & F1 & C1 & T1 & Hr); [|exact HI].
  destruct a as [w|e].
  2: { apply ret_inv in H as [-> ->]. destruct Hr as (_ & Hsec & _).
       split; [|intros [= ->]; eapply merge_latest_mem_errs; eauto].
       split; [exact HI1|]. split; [exact F1|]. split; [apply textend_nocfg_safe; exact T1|].
       intros [= ->]. apply Hsec. reflexivity. }
  destruct w.
  1,2: apply ret_inv in H as [-> ->]; (split; [|discriminate]);
       (split; [exact HI1|]); (split; [exact F1|]); (split; [apply textend_nocfg_safe; exact T1 | discriminate]).
  minv H. unfold get_world in E. inversion E; subst a s1; clear E.
  apply merge_loop_spec in H as ((HI2 & F2 & T2 & Hsec2) & Hfuel); [|exact HI1].
  split; [|apply Hfuel; lia].
  split; [exact HI2|]. split; [eapply mframe_trans; eauto|].
  split; [eapply textend_trans; [apply textend_nocfg_safe; exact T1 | exact T2]|].
  intros Hs. eapply has_sec_l; [exact T1 | apply Hsec2; exact Hs].
Qed.

(* ---- checkRecord ------------------------------------------------------------------------------------ *)

Lemma sum_shifts_pos_pos p : 0 < sum_shifts_pos p.
Proof. induction p; cbn [sum_shifts_pos]; lia. Qed.

Lemma stored_hash_index_0_nonneg id : 0 <= stored_hash_index 0 id.
Proof.
  unfold stored_hash_index, level_up. cbn [Z.iter]. rewrite Z.add_0_r.
  destruct id; cbn [sum_shifts]; try lia. pose proof (sum_shifts_pos_pos p). lia.
Qed.

Lemma make_plan_empty_tree h x : 0 <= x -> make_plan 0 h [x] = TErr TENotInTree.
Proof.
  intros Hx. unfold make_plan. cbn.
  assert (H0 : (0 <=? x) = true) by (apply Z.leb_le; exact Hx).
  unfold stored_hash_index, level_up, sum_shifts. cbn. rewrite H0. reflexivity.
Qed.

Lemma tile_read_hashes_st_empty tr x s r s' :
  Codec.tN tr = 0 -> 0 <= x ->
  tile_read_hashes_st node_hash tr [x] s = (r, s') -> s' = s /\ forall hs, r <> TOk hs.
Proof.
  intros H0 Hx H. unfold tile_read_hashes_st in H. minv H.
  unfold get_client in E. inversion E; subst a s0; clear E.
  destruct (_ || _).
  - apply ret_inv in H as [-> ->]. split; [reflexivity | discriminate].
  - rewrite H0, (make_plan_empty_tree _ _ Hx) in H.
    apply ret_inv in H as [-> ->]. split; [reflexivity | discriminate].
Qed.

Lemma check_record_st_spec id text s r s' :
  CInv (s_c s) ->
  check_record_st leaf_hash node_hash id text s = (r, s') ->
  tframe s s' /\ textend ev_quiet s s' /\
  (r = None -> exists tmsg, signed_tree tmsg (c_latest (s_c s)) /\
               0 <= id < Codec.tN (c_latest (s_c s)) /\
               node_auth NodeAt (Codec.tH (c_latest (s_c s))) (Codec.tN (c_latest (s_c s)))
                         (stored_hash_index 0 id) (leaf_hash text)) /\
  (forall e, r = Some e -> e <> ESecurity /\ e <> EFuelC).
Proof.
  intros HI H. unfold check_record_st in H.
  minv H. unfold get_client in E. inversion E; subst a s0; clear E.
  destruct ((id <? 0) || (Codec.tN (c_latest (s_c s)) <=? id)) eqn:Hle.
  { apply ret_inv in H as [-> ->]. split; [apply tframe_refl|]. split; [apply textend_refl|].
    split; [discriminate|]. intros e [= <-]. split; discriminate. }
  apply orb_false_iff in Hle as [Hneg Hle]. apply Z.ltb_ge in Hneg. apply Z.leb_gt in Hle. minv H.
  destruct (ci_head _ HI) as [[_ H0]|Hs]; [lia|].
  assert (Hr := signed_range _ _ Hs).
  eapply tile_read_hashes_st_spec in E as (F & T & Hauth); eauto; [|apply (ci_height _ HI)].
  assert (Tq : textend ev_quiet s s0).
  { eapply textend_impl; [|exact T]. rewrite (ci_name _ HI). intros e. eapply tile_ev_quiet; eauto. }
  assert (Hfin : s' = s0 /\
                 (r = None -> exists h l, a = TOk (h :: l) /\ str_eqb h (leaf_hash text) = true) /\
                 (forall e, r = Some e -> e <> ESecurity /\ e <> EFuelC)).
  { destruct a as [[|h l]|k|]; try (apply ret_inv in H as [-> ->]; split; [reflexivity|];
                                     split; [discriminate|]; intros e [= <-]; split; discriminate).
    destruct (str_eqb h (leaf_hash text)) eqn:Heq; apply ret_inv in H as [-> ->].
    - split; [reflexivity|]. split; [intros _; exists h, l; auto | intros e [=]].
    - split; [reflexivity|]. split; [discriminate | intros e [= <-]; split; discriminate]. }
  destruct Hfin as (-> & Hnone & Herrs).
  split; [exact F|]. split; [exact Tq|]. split; [|exact Herrs].
  intros Hr0. destruct (Hnone Hr0) as (h & l & -> & Heq). apply str_eqb_eq in Heq. subst h.
  exists (c_latest_msg (s_c s)). split; [exact Hs|]. split; [lia|].
  specialize (Hauth _ eq_refl). inversion Hauth; subst. assumption.
Qed.

(* ---- the body of Lookup ------------------------------------------------------------------------------ *)

Lemma tl_quiet s s' : tl s s' -> tframe s s' /\ textend ev_quiet s s'.
Proof.
  intros [F T]. split; [exact F|]. eapply textend_impl; [|exact T].
  intros e He. destruct e; cbn in He; try contradiction; (split; [split; exact I | intros []]).
Qed.

Lemma record_work_spec file rp s r s' :
  CInv (s_c s) -> is_lookup_file file ->
  record_work leaf_hash node_hash V file rp s = (r, s') ->
  CInv (s_c s') /\ mframe s s' /\ textend ev_safe s s' /\
  (forall d, r = ROk d -> auth_record d) /\
  (r = RErr ESecurity -> has_sec s s') /\ r <> RErr EFuelC.
Proof.
  intros HI Hfile H. unfold record_work in H.
  minva H d sa Ea. apply read_cache_spec in Ea. apply tl_quiet in Ea as [F0 T0].
  assert (HI0 := tframe_cinv _ _ F0 HI).
  minva H dw sb Eb.
  assert (Hrd : CInv (s_c sb) /\ mframe s sb /\ textend ev_safe s sb).
  { destruct d as [data|].
    - apply ret_inv in Eb as [_ ->]. split; [exact HI0|]. split; [apply tframe_mframe; exact F0|].
      apply textend_quiet_safe; exact T0.
    - minva Eb rr sr Er. apply read_remote_spec in Er. apply tl_quiet in Er as [F1 T1].
      assert (sb = sr) by (destruct rr; apply ret_inv in Eb as [_ ->]; reflexivity). subst sr.
      split; [eapply tframe_cinv; eauto|]. split; [apply tframe_mframe; eapply tframe_trans; eauto|].
      apply textend_quiet_safe. eapply textend_trans; eauto. }
  destruct Hrd as (HI1 & Fm1 & Tm1). clear Eb.
  assert (Hstop : forall e, e <> ESecurity -> e <> EFuelC -> (RErr e, sb) = (r, s') ->
            CInv (s_c s') /\ mframe s s' /\ textend ev_safe s s' /\
            (forall d, r = ROk d -> auth_record d) /\ (r = RErr ESecurity -> has_sec s s') /\ r <> RErr EFuelC).
  { intros e H1 H2 [= <- <-]. split; [exact HI1|]. split; [exact Fm1|]. split; [exact Tm1|].
    split; [discriminate|]. split; congruence. }
  destruct dw as [[data write]|].
  2: { apply ret_inv in H as [-> ->]. eapply Hstop; [| |reflexivity]; discriminate. }
  destruct (parse_record data) as [[[id text] tree_msg]|k|] eqn:Hparse.
  2,3: apply ret_inv in H as [-> ->]; eapply Hstop; [| |reflexivity]; discriminate.
  minva H e1 sc Ec. apply merge_latest_spec in Ec as ((HI2 & F2 & T2 & Hsec2) & Hnf2); [|exact HI1].
  assert (Fm2 : mframe s sc) by (eapply mframe_trans; [exact Fm1 | exact F2]).
  assert (Tm2 : textend ev_safe s sc) by (eapply textend_trans; [exact Tm1 | exact T2]).
  destruct e1 as [err|].
  { apply ret_inv in H as [-> ->]. split; [exact HI2|]. split; [exact Fm2|]. split; [exact Tm2|].
    split; [discriminate|]. split.
    - intros [= ->]. eapply has_sec_l; [exact Tm1 | apply Hsec2; reflexivity].
    - intros [= ->]. apply Hnf2. reflexivity. }
  minva H e2 sd Ed. apply check_record_st_spec in Ed as (F3 & T3 & Hnone & Herrs); [|exact HI2].
  assert (HI3 := tframe_cinv _ _ F3 HI2).
  assert (Fm3 : mframe s sd) by (eapply mframe_trans; [exact Fm2 | apply tframe_mframe; exact F3]).
  assert (Tm3 : textend ev_safe s sd) by (eapply textend_trans; [exact Tm2 | apply textend_quiet_safe; exact T3]).
  destruct e2 as [err|].
  { apply ret_inv in H as [-> ->]. destruct (Herrs _ eq_refl) as [Hs1 Hs2].
    split; [exact HI3|]. split; [exact Fm3|]. split; [exact Tm3|].
    split; [discriminate|]. split; congruence. }
  destruct (Hnone eq_refl) as (tmsg & Hsig & Hlt & Hauth).
  assert (Hrec : auth_record data).
  { exists id, text, tree_msg, tmsg, (c_latest (s_c sc)). auto. }
  minva H u se Ee. apply ret_inv in H as [-> ->].
  assert (Hw : CInv (s_c se) /\ mframe s se /\ textend ev_safe s se).
  { destruct write.
    - apply write_cache_spec in Ee as [F4 T4].
      split; [eapply tframe_cinv; eauto|].
      split; [eapply mframe_trans; [exact Fm3 | apply tframe_mframe; exact F4]|].
      eapply textend_trans; [exact Tm3|]. eapply textend_one; [exact T4|]. cbn. right. auto.
    - apply ret_inv in Ee as [_ ->]. auto. }
  destruct Hw as (HI4 & Fm4 & Tm4).
  split; [exact HI4|]. split; [exact Fm4|]. split; [exact Tm4|].
  split; [intros d0 [= <-]; exact Hrec|]. split; discriminate.
Qed.

(* ---- memoisation, initialisation, Lookup ------------------------------------------------------------- *)

Lemma rec_find_in f l r : rec_find f l = Some r -> In (f, r) l.
Proof.
  induction l as [|[k v] l IH]; cbn; [discriminate|].
  destruct (str_eqb f k) eqn:E.
  - intros [= ->]. apply str_eqb_eq in E. subst. left. reflexivity.
  - intros H. right. auto.
Qed.

(* what a lookup never changes once the client is initialised *)
Record lframe (s s' : state) : Prop := mkLframe {
  lf_init : c_init (s_c s') = c_init (s_c s);
  lf_name : c_name (s_c s') = c_name (s_c s);
  lf_vs : c_verifiers (s_c s') = c_verifiers (s_c s);
  lf_height : c_height (s_c s') = c_height (s_c s);
  lf_remote : w_remote (s_w s') = w_remote (s_w s);
  lf_key : assoc (B "key") (w_config (s_w s')) = assoc (B "key") (w_config (s_w s))
}.

Lemma mframe_lframe s s' : mframe s s' -> lframe s s'.
Proof. intros []. constructor; auto. Qed.

Lemma record_do_spec file rp s r s' :
  CInv (s_c s) -> is_lookup_file file ->
  record_do leaf_hash node_hash V file rp s = (r, s') ->
  CInv (s_c s') /\ lframe s s' /\ textend ev_safe s s' /\
  (forall d, r = ROk d -> auth_record d) /\
  (r = RErr ESecurity -> has_sec s s' \/ In (file, RErr ESecurity) (c_records (s_c s))) /\
  r <> RErr EFuelC /\
  (forall f, In (f, RErr ESecurity) (c_records (s_c s')) ->
             In (f, RErr ESecurity) (c_records (s_c s)) \/ has_sec s s').
Proof.
  intros HI Hfile H. unfold record_do in H.
  minva H c0 s0 E0. unfold get_client in E0. inversion E0; subst c0 s0; clear E0.
  destruct (rec_find file (c_records (s_c s))) as [r0|] eqn:Hfind.
  - apply ret_inv in H as [-> ->]. apply rec_find_in in Hfind.
    split; [exact HI|]. split; [constructor; reflexivity|]. split; [apply textend_refl|].
    split; [intros d ->; eapply (ci_records _ HI); eauto|].
    split; [intros ->; right; exact Hfind|].
    split; [intros ->; eapply (ci_nofuel _ HI); eauto|].
    intros f Hin. left. exact Hin.
  - minva H r1 s1 E1. apply record_work_spec in E1 as (HI1 & F1 & T1 & Hok & Hsec & Hnf); auto.
    minva H c2 s2 E2. unfold get_client in E2. inversion E2; subst c2 s2; clear E2.
    minva H u s3 E3. unfold set_client in E3. inversion E3; subst s3; clear E3.
    apply ret_inv in H as [-> ->]. cbn [s_c s_w s_tr].
    split.
    { destruct HI1. constructor; cbn; auto.
      - intros f d [[= <- ->]|Hin]; eauto.
      - intros f [[= <- ->]|Hin]; [apply Hnf; reflexivity | eapply ci_nofuel0; eauto]. }
    split; [constructor; cbn; apply F1|].
    split; [destruct T1 as (evs & ? & ?); exists evs; cbn; auto|].
    split; [exact Hok|].
    assert (Hsec' : r1 = RErr ESecurity ->
              has_sec s {| s_w := s_w s1; s_c := {| c_init := c_init (s_c s1); c_name := c_name (s_c s1);
                 c_verifiers := c_verifiers (s_c s1); c_latest := c_latest (s_c s1);
                 c_latest_msg := c_latest_msg (s_c s1); c_records := (file, r1) :: c_records (s_c s1);
                 c_tiles := c_tiles (s_c s1); c_tile_saved := c_tile_saved (s_c s1);
                 c_height := c_height (s_c s1) |}; s_tr := s_tr s1 |}).
    { intros Hr. destruct (Hsec Hr) as (evs & ? & ?). exists evs; cbn; auto. }
    split; [intros Hr; left; auto|]. split; [exact Hnf|].
    intros f [[= <- Hr]|Hin].
    + right. apply Hsec'. exact Hr.
    + left. rewrite <- (mf_records _ _ F1). exact Hin.
Qed.

Definition key_ok (w : world) : Prop :=
  forall k nm h key, assoc (B "key") (w_config w) = Some k ->
    parse_verifier_key sha (trim_space k) = KOk (nm, h, key) ->
    nm = name /\ verifier_list str [ {| v_name := nm; v_hash := h; v_id := key |} ] = vs.

Definition Fresh (c : client) : Prop :=
  c_init c = None /\ c_latest_msg c = [] /\ Codec.tN (c_latest c) = 0 /\ c_records c = [] /\
  1 <= c_height c <= 30.

Lemma init_work_spec s r s' :
  Fresh (s_c s) -> key_ok (s_w s) ->
  init_work sha node_hash V s = (r, s') ->
  c_init (s_c s') = None /\
  (w_remote (s_w s') = w_remote (s_w s) /\
   assoc (B "key") (w_config (s_w s')) = assoc (B "key") (w_config (s_w s))) /\
  (c_height (s_c s') = c_height (s_c s) /\ c_records (s_c s') = c_records (s_c s)) /\
  textend ev_safe s s' /\
  (r = None -> CInv (s_c s')) /\ (r = Some ESecurity -> has_sec s s') /\ r <> Some EFuelC.
Proof.
  intros (Hi & Hm & Hn & Hr & Hh) Hkey H. unfold init_work in H.
  minva H k s1 E1. apply read_config_spec in E1 as (F1 & T1 & Hk).
  assert (Hstop : forall e, e <> ESecurity -> e <> EFuelC -> (Some e, s1) = (r, s') ->
     c_init (s_c s') = None /\
     (w_remote (s_w s') = w_remote (s_w s) /\
      assoc (B "key") (w_config (s_w s')) = assoc (B "key") (w_config (s_w s))) /\
     (c_height (s_c s') = c_height (s_c s) /\ c_records (s_c s') = c_records (s_c s)) /\
     textend ev_safe s s' /\ (r = None -> CInv (s_c s')) /\ (r = Some ESecurity -> has_sec s s') /\ r <> Some EFuelC).
  { intros e H1 H2 [= <- <-]. split; [rewrite (tf_init _ _ F1); exact Hi|].
    split; [split; [apply (tf_remote _ _ F1) | rewrite (tf_config _ _ F1); reflexivity]|]. split; [split; [apply (tf_height _ _ F1) | apply (tf_records _ _ F1)]|].
    split; [apply textend_quiet_safe; exact T1|]. split; [discriminate|]. split; congruence. }
  destruct k as [vkey|].
  2: { apply ret_inv in H as [-> ->]. eapply Hstop; [| |reflexivity]; discriminate. }
  destruct (parse_verifier_key sha (trim_space vkey)) as [[[nm h] key]|e] eqn:Hparse.
  2: { apply ret_inv in H as [-> ->]. eapply Hstop; [| |reflexivity]; discriminate. }
  destruct (Hkey _ _ _ _ (eq_sym Hk) Hparse) as [-> Hvs].
  minva H c1 s2 E2. unfold get_client in E2. inversion E2; subst c1 s2; clear E2.
  minva H u s3 E3. unfold set_client in E3. inversion E3; subst s3; clear E3.
  set (s3 := mkState _ _ _) in H.
  assert (HI3 : CInv (s_c s3)).
  { unfold s3. cbn. constructor; cbn.
    - exact Hvs.
    - reflexivity.
    - rewrite (tf_height _ _ F1). exact Hh.
    - left. split; [rewrite (tf_msg _ _ F1); exact Hm|].
      rewrite (tf_latest _ _ F1), Hn. reflexivity.
    - rewrite (tf_records _ _ F1), Hr. intros f d [].
    - rewrite (tf_records _ _ F1), Hr. intros f []. }
  assert (F3 : c_init (s_c s3) = None /\
               (w_remote (s_w s3) = w_remote (s_w s) /\
                assoc (B "key") (w_config (s_w s3)) = assoc (B "key") (w_config (s_w s))) /\
               (c_height (s_c s3) = c_height (s_c s) /\ c_records (s_c s3) = c_records (s_c s))).
  { unfold s3; cbn. split; [rewrite (tf_init _ _ F1); exact Hi|].
    split; [split; [apply (tf_remote _ _ F1) | rewrite (tf_config _ _ F1); reflexivity]
           | split; [apply (tf_height _ _ F1) | apply (tf_records _ _ F1)]]. }
  assert (T3 : textend ev_safe s s3).
  { apply textend_quiet_safe. destruct T1 as (evs & ? & ?). exists evs. unfold s3; cbn. auto. }
  destruct F3 as (Fi & (Fr & Fk) & Fh & Frec).
  minva H d s4 E4. apply read_config_spec in E4 as (F4 & T4 & _).
  assert (HI4 := tframe_cinv _ _ F4 HI3).
  destruct d as [data|].
  2: { apply ret_inv in H as [-> ->]. split; [rewrite (tf_init _ _ F4); exact Fi|].
       split; [split; [rewrite (tf_remote _ _ F4); exact Fr | rewrite (tf_config _ _ F4); exact Fk]|].
       split; [split; [rewrite (tf_height _ _ F4); exact Fh | rewrite (tf_records _ _ F4); exact Frec]|].
       split; [eapply textend_trans; [exact T3 | apply textend_quiet_safe; exact T4]|].
       split; [discriminate|]. split; discriminate. }
  apply merge_latest_spec in H as ((HI5 & F5 & T5 & Hsec5) & Hnf5); [|exact HI4].
  split; [rewrite (mf_init _ _ F5), (tf_init _ _ F4); exact Fi|].
  split; [split; [rewrite (mf_remote _ _ F5), (tf_remote _ _ F4); exact Fr
                 | rewrite (mf_key _ _ F5), (tf_config _ _ F4); exact Fk]|].
  split; [split; [rewrite (mf_height _ _ F5), (tf_height _ _ F4); exact Fh
                 | rewrite (mf_records _ _ F5), (tf_records _ _ F4); exact Frec]|].
  assert (T4' : textend ev_safe s s4) by (eapply textend_trans; [exact T3 | apply textend_quiet_safe; exact T4]).
  split; [eapply textend_trans; [exact T4' | exact T5]|].
  split; [intros _; exact HI5|]. split; [|exact Hnf5].
  intros Hs. eapply has_sec_l; [exact T4' | apply Hsec5; exact Hs].
Qed.

(* a security error is memoised in the client *)
Definition sec_memo (c : client) : Prop :=
  c_init c = Some (Some ESecurity) \/ exists f, In (f, RErr ESecurity) (c_records c).

(* the invariant of a client between lookups *)
Definition ClientInv (c : client) : Prop :=
  match c_init c with
  | None => Fresh c
  | Some None => CInv c
  | Some (Some e) => e <> EFuelC
  end.

Lemma lookup_m_spec path vers s r s' :
  ClientInv (s_c s) -> (c_init (s_c s) = None -> key_ok (s_w s)) ->
  lookup_m sha leaf_hash node_hash V esc_path esc_vers skip path vers s = (r, s') ->
  ClientInv (s_c s') /\ textend ev_safe s s' /\
  (w_remote (s_w s') = w_remote (s_w s) /\
   assoc (B "key") (w_config (s_w s')) = assoc (B "key") (w_config (s_w s))) /\
  (forall lines, r = LOk lines ->
     CInv (s_c s') /\ exists d, auth_record d /\ lines = result_lines path vers d) /\
  (r = LErr ESecurity ->
     has_sec s s' \/ c_init (s_c s) = Some (Some ESecurity) \/
     exists f, In (f, RErr ESecurity) (c_records (s_c s))) /\
  r <> LErr EFuelC /\
  (sec_memo (s_c s') -> sec_memo (s_c s) \/ has_sec s s').
Proof.
  intros HC Hkey H. unfold lookup_m in H.
  destruct (skip path).
  { apply ret_inv in H as [-> ->]. split; [exact HC|]. split; [apply textend_refl|]. split; [split; reflexivity|].
    split; [discriminate|]. split; [discriminate|]. split; [discriminate | auto]. }
  minva H e0 s1 E1.
  (* initialisation *)
  assert (Hinit : ClientInv (s_c s1) /\ textend ev_safe s s1 /\
                  (w_remote (s_w s1) = w_remote (s_w s) /\
                   assoc (B "key") (w_config (s_w s1)) = assoc (B "key") (w_config (s_w s))) /\
                  c_init (s_c s1) = Some e0 /\
                  (e0 = Some ESecurity -> has_sec s s1 \/ c_init (s_c s) = Some (Some ESecurity)) /\
                  c_records (s_c s1) = c_records (s_c s)).
  (* (a memoised security error of s1 is one of s or was reported during initialisation) *)
  { unfold client_init in E1. minva E1 c0 sa Ea. unfold get_client in Ea. inversion Ea; subst c0 sa; clear Ea.
    unfold ClientInv in HC. destruct (c_init (s_c s)) as [r0|] eqn:Hci.
    - apply ret_inv in E1 as [-> ->]. unfold ClientInv. rewrite Hci.
      split; [exact HC|]. split; [apply textend_refl|]. split; [split; reflexivity|]. split; [reflexivity|].
      split; [intros ->; right; reflexivity | reflexivity].
    - minva E1 r1 sb Eb. apply init_work_spec in Eb as (Hi & Hrm & (Hh & Hrec) & T & Hnone & Hsec & Hnf); auto.
      minva E1 c2 sc Ec. unfold get_client in Ec. inversion Ec; subst c2 sc; clear Ec.
      minva E1 u sd Ed. unfold set_client in Ed. inversion Ed; subst sd; clear Ed.
      apply ret_inv in E1 as [-> ->]. cbn [s_c s_w s_tr]. unfold ClientInv; cbn.
      split.
      { destruct r1 as [e|].
        - intros ->. apply Hnf. reflexivity.
        - destruct (Hnone eq_refl). constructor; cbn; auto. }
      split; [destruct T as (evs & ? & ?); exists evs; cbn; auto|].
      split; [exact Hrm|]. split; [reflexivity|].
      split; [|exact Hrec].
      intros ->. left. destruct (Hsec eq_refl) as (evs & ? & ?). exists evs; cbn; auto. }
  destruct Hinit as (HC1 & T1 & Hrm1 & Hci1 & Hsec1 & Hsame1).
  assert (Hmemo1 : sec_memo (s_c s1) -> sec_memo (s_c s) \/ has_sec s s1).
  { intros [Hi|(f & Hin)].
    - rewrite Hci1 in Hi. injection Hi as ->. destruct (Hsec1 eq_refl) as [Hs|Hm]; [right; exact Hs | left; left; exact Hm].
    - left. right. exists f. rewrite <- Hsame1. exact Hin. }
  destruct e0 as [err|].
  { apply ret_inv in H as [-> ->]. split; [exact HC1|]. split; [exact T1|]. split; [exact Hrm1|].
    split; [discriminate|]. split; [|split; [|exact Hmemo1]].
    - intros [= ->]. destruct (Hsec1 eq_refl); auto.
    - intros [= ->]. unfold ClientInv in HC1. rewrite Hci1 in HC1. apply HC1. reflexivity. }
  assert (HI1 : CInv (s_c s1)) by (unfold ClientInv in HC1; rewrite Hci1 in HC1; exact HC1).
  assert (Hstop : forall e, e <> ESecurity -> e <> EFuelC -> (LErr e, s1) = (r, s') ->
    ClientInv (s_c s') /\ textend ev_safe s s' /\
    (w_remote (s_w s') = w_remote (s_w s) /\
     assoc (B "key") (w_config (s_w s')) = assoc (B "key") (w_config (s_w s))) /\
    (forall lines, r = LOk lines -> CInv (s_c s') /\ exists d, auth_record d /\ lines = result_lines path vers d) /\
    (r = LErr ESecurity -> has_sec s s' \/ c_init (s_c s) = Some (Some ESecurity) \/
       exists f, In (f, RErr ESecurity) (c_records (s_c s))) /\ r <> LErr EFuelC /\
    (sec_memo (s_c s') -> sec_memo (s_c s) \/ has_sec s s')).
  { intros e H1 H2 [= <- <-]. split; [exact HC1|]. split; [exact T1|]. split; [exact Hrm1|].
    split; [discriminate|]. split; [congruence|]. split; [congruence | exact Hmemo1]. }
  destruct (esc_path path) as [epath|].
  2: { apply ret_inv in H as [-> ->]. eapply Hstop; [| |reflexivity]; discriminate. }
  destruct (esc_vers (trim_suffix vers go_mod_suffix)) as [evers|].
  2: { apply ret_inv in H as [-> ->]. eapply Hstop; [| |reflexivity]; discriminate. }
  minva H c1 s2 E2. unfold get_client in E2. inversion E2; subst c1 s2; clear E2.
  minva H rr s3 E3.
  apply record_do_spec in E3 as (HI3 & F3 & T3 & Hok & Hsec3 & Hnf3 & Hmemo3); auto.
  2: { exists epath, evers. rewrite (ci_name _ HI1). reflexivity. }
  assert (HC3 : ClientInv (s_c s3)).
  { unfold ClientInv. rewrite (lf_init _ _ F3), Hci1. exact HI3. }
  assert (T13 : textend ev_safe s s3) by (eapply textend_trans; eauto).
  assert (Hrm3 : w_remote (s_w s3) = w_remote (s_w s) /\
                 assoc (B "key") (w_config (s_w s3)) = assoc (B "key") (w_config (s_w s))).
  { destruct Hrm1 as [Ha Hb]. split; [rewrite (lf_remote _ _ F3); exact Ha | rewrite (lf_key _ _ F3); exact Hb]. }
  assert (Hmemo13 : sec_memo (s_c s3) -> sec_memo (s_c s) \/ has_sec s s3).
  { intros [Hi|(f & Hin)].
    - rewrite (lf_init _ _ F3), Hci1 in Hi. discriminate.
    - destruct (Hmemo3 _ Hin) as [Hold|Hs].
      + left. right. exists f. rewrite <- Hsame1. exact Hold.
      + right. eapply has_sec_l; [exact T1 | exact Hs]. }
  destruct rr as [data|err]; apply ret_inv in H as [-> ->].
  - split; [exact HC3|]. split; [exact T13|]. split; [exact Hrm3|].
    split; [|split; [discriminate|]; split; [discriminate | exact Hmemo13]].
    intros lines [= <-]. split; [exact HI3|]. exists data. split; [apply Hok; reflexivity | reflexivity].
  - split; [exact HC3|]. split; [exact T13|]. split; [exact Hrm3|].
    split; [discriminate|]. split; [|split; [|exact Hmemo13]].
    + intros [= ->]. destruct (Hsec3 eq_refl) as [Hs|Hin].
      * left. eapply has_sec_l; [exact T1 | exact Hs].
      * right. right. rewrite Hsame1 in Hin. eauto.
    + intros [= ->]. apply Hnf3. reflexivity.
Qed.

(* ---- C13: a signed head that is not consistent with the client's is never accepted ------------------- *)

Lemma open_nil_fails : Note.open str V [] vs = Note.Err Malformed.
Proof. reflexivity. Qed.

Lemma signed_tree_fun msg t1 t2 : signed_tree msg t1 -> signed_tree msg t2 -> t1 = t2.
Proof. intros (n1 & H1 & P1) (n2 & H2 & P2). rewrite H1 in H2. injection H2 as <-. congruence. Qed.

Lemma signed_tree_nonnil msg t : signed_tree msg t -> msg <> [].
Proof. intros (n & H & _) ->. rewrite open_nil_fails in H. discriminate. Qed.

(* the order in which mergeLatestMem compares the presented tree with the client's *)
Definition on_timeline (latest tr : tree) : Prop :=
  if Codec.tN tr <=? Codec.tN latest then Consistent tr latest else Consistent latest tr.

Lemma fork_never_accepted_mem msg tr s r s' :
  CInv (s_c s) -> signed_tree msg tr -> ~ on_timeline (c_latest (s_c s)) tr ->
  merge_latest_mem node_hash V msg s = (r, s') ->
  (exists e, r = inr e) /\ same_head s s' /\ same_config s s' /\ textend ev_nocfg s s'.
Proof.
  intros HI Hsig Hfork H. assert (Hnn := signed_tree_nonnil _ _ Hsig).
  apply merge_latest_mem_spec in H as (HI' & F & C & T & Hr); [|exact HI].
  destruct r as [w|e].
  - exfalso. apply Hfork. destruct Hr as (_ & Hm & _). unfold on_timeline.
    destruct w; cbn in Hm.
    + destruct Hm as (_ & _ & [->|(t & Ht & Hlt & Hc)]); [contradiction|].
      rewrite (signed_tree_fun _ _ _ Hsig Ht).
      replace (Codec.tN t <=? Codec.tN (c_latest (s_c s))) with true by (symmetry; apply Z.leb_le; lia).
      exact Hc.
    + destruct Hm as (_ & [->|(t & Ht & Heq & Hc)]); [contradiction|].
      rewrite (signed_tree_fun _ _ _ Hsig Ht).
      replace (Codec.tN t <=? Codec.tN (c_latest (s_c s))) with true by (symmetry; apply Z.leb_le; lia).
      exact Hc.
    + destruct Hm as (_ & _ & Ht & Hlt & Hc).
      rewrite (signed_tree_fun _ _ _ Hsig Ht).
      replace (Codec.tN (c_latest (s_c s')) <=? Codec.tN (c_latest (s_c s))) with false by (symmetry; apply Z.leb_gt; lia).
      exact Hc.
  - destruct Hr as (Hsame & _). split; [eauto|]. auto.
Qed.

Lemma fork_never_accepted_merge msg tr s r s' :
  CInv (s_c s) -> signed_tree msg tr -> ~ on_timeline (c_latest (s_c s)) tr ->
  merge_latest node_hash V msg s = (r, s') ->
  (exists e, r = Some e) /\ same_head s s' /\ same_config s s' /\ textend ev_nocfg s s'.
Proof.
  intros HI Hsig Hfork H. unfold merge_latest in H. minva H a s1 E.
  eapply fork_never_accepted_mem in E as ((e & ->) & Hh & Hc & T); eauto.
  apply ret_inv in H as [-> ->]. split; [eauto|]. auto.
Qed.

(* ---- the security report contains both notes -------------------------------------------------------- *)

Definition infix (a m : str) : Prop := exists pre post, m = pre ++ a ++ post.

Lemma security_msg_contains older newer h p :
  infix (indent older) (security_msg older newer h p) /\ infix (indent newer) (security_msg older newer h p).
Proof.
  unfold security_msg, infix. split.
  - exists (B "SECURITY ERROR" ++ [10] ++ B "go.sum database server misbehavior detected!" ++ [10; 10]
            ++ B "old database:" ++ [10; 9]).
    eexists. repeat rewrite <- app_assoc. reflexivity.
  - exists (B "SECURITY ERROR" ++ [10] ++ B "go.sum database server misbehavior detected!" ++ [10; 10]
            ++ B "old database:" ++ [10; 9] ++ indent older ++ [10] ++ B "new database:" ++ [10; 9]).
    eexists. repeat rewrite <- app_assoc. reflexivity.
Qed.

End Safe.
