(* Wire dispatcher for the C14 trace replay.  One function:

     Replay  [scenario; trace; results; finalcfg]  ->  ok 0 | err "step k not enabled: class" | err "final: class"

   scenario = [chain; I cur; cfg; cache; clients; threads]
     chain   = [[I size; S hash] ...]       every head the honest server signs during the run
     cfg     = [] | [I size; S hash]        the shared configuration file name/latest
     cache   = [[I key; I size; S hash] ...] lookup records in the shared cache (head embedded in the record)
     clients = [S gonosumdb ...]
     threads = [[I client; S path; I key] ...]
   trace   = [event ...]
     [I 0]                              the server grew by one record
     [I 1; I t]                         ReadConfig("key")
     [I 2; I t; cfg]                    ReadConfig(name/latest) returned cfg
     [I 3; I t; old; new; I ok]         WriteConfig(name/latest, old, new), ok = 1 unless ErrWriteConflict
     [I 4; I t; cfg]                    ReadCache(lookup file): [] = miss, else the head in the record
     [I 5; I t; I size; S hash]         ReadRemote(lookup): the head in the response
     [I 6; I t; cfg]                    WriteCache(lookup file, record with that head)
     [I 7; I t; I site]                 release of a pause of thread t inside checkTrees (site 1) or
                                        checkRecord (site 0)
   results = [I r ...] per thread: 0 ErrGONOSUMDB, 1 lines returned, 2 error
   finalcfg = cfg after the run. *)
From Verif.Base Require Import Bytes Wire.
From Verif.Client Require Import Conc.

Definition dec_ohead (v : val) : option (option head) :=
  match v with
  | VL [] => Some None
  | VL [VI n; VS h] => Some (Some (n, h))
  | _ => None
  end.

Fixpoint dec_list {A} (f : val -> option A) (l : list val) : option (list A) :=
  match l with
  | [] => Some []
  | x :: r => match f x, dec_list f r with
              | Some a, Some b => Some (a :: b)
              | _, _ => None
              end
  end.

Definition dec_head (v : val) : option head :=
  match v with VL [VI n; VS h] => Some (n, h) | _ => None end.
Definition dec_cache (v : val) : option (nat * head) :=
  match v with VL [VI k; VI n; VS h] => Some (Z.to_nat k, (n, h)) | _ => None end.
Definition dec_str (v : val) : option str := match v with VS s => Some s | _ => None end.
Definition dec_thread (v : val) : option (nat * str * nat) :=
  match v with VL [VI c; VS p; VI k] => Some (Z.to_nat c, p, Z.to_nat k) | _ => None end.
Definition dec_result (v : val) : option result :=
  match v with
  | VI 0 => Some RSkip
  | VI 1 => Some (ROk O)
  | VI 2 => Some RErr
  | _ => None
  end.

Definition dec_scenario (v : val) : option state :=
  match v with
  | VL [VL chain; VI cur; cfg; VL cache; VL clients; VL threads] =>
      match dec_list dec_head chain, dec_ohead cfg, dec_list dec_cache cache,
            dec_list dec_str clients, dec_list dec_thread threads with
      | Some ch, Some cf, Some ca, Some cl, Some th =>
          Some (init_state ch (Z.to_nat cur) cf ca cl th)
      | _, _, _, _, _ => None
      end
  | _ => None
  end.

(* client and key of thread t in the scenario *)
Definition ck (s : state) (t : nat) : nat * nat :=
  match nth_error (s_threads s) t with
  | Some th => (t_cl th, t_key th)
  | None => (O, O)
  end.

Definition dec_event (s : state) (v : val) : option obs :=
  match v with
  | VL [VI 0] => Some OGrow
  | VL [VI 1; VI t] => let t := Z.to_nat t in Some (OStep t (LReadConfigKey (fst (ck s t))))
  | VL [VI 2; VI t; x] =>
      let t := Z.to_nat t in
      match dec_ohead x with Some x => Some (OStep t (LReadConfig (fst (ck s t)) x)) | None => None end
  | VL [VI 3; VI t; o; n; VI k] =>
      let t := Z.to_nat t in
      match dec_ohead o, dec_ohead n with
      | Some o, Some n => Some (OStep t (LWriteConfig (fst (ck s t)) o n (negb (k =? 0))))
      | _, _ => None
      end
  | VL [VI 4; VI t; x] =>
      let t := Z.to_nat t in
      match dec_ohead x with
      | Some x => Some (OStep t (LReadCache (fst (ck s t)) (snd (ck s t)) x))
      | None => None
      end
  | VL [VI 5; VI t; VI n; VS h] =>
      let t := Z.to_nat t in Some (OStep t (LReadRemote (fst (ck s t)) (snd (ck s t)) (n, h)))
  | VL [VI 6; VI t; x] =>
      let t := Z.to_nat t in
      match dec_ohead x with
      | Some x => Some (OStep t (LWriteCache (fst (ck s t)) (snd (ck s t)) x))
      | None => None
      end
  | VL [VI 7; VI t; VI x] => Some (OYield (Z.to_nat t) (if x =? 0 then SiteRecord else SiteTrees))
  | _ => None
  end.

Definition result_class_eqb (a b : result) : bool :=
  match a, b with
  | RSkip, RSkip | ROk _, ROk _ | RErr, RErr | RNone, RNone => true
  | _, _ => false
  end.

Fixpoint results_match (ths : list thread) (rs : list result) : bool :=
  match ths, rs with
  | [], [] => true
  | th :: ths', r :: rs' =>
      result_class_eqb (t_res th) r &&
      match t_res th with ROk k => Nat.eqb k (t_key th) | _ => true end &&
      results_match ths' rs'
  | _, _ => false
  end.

Definition err_msg (m : str) : val := VL [VS (B "err"); VS m].
Definition step_err (k : nat) (class : str) : val :=
  err_msg (B "step " ++ dec (Z.of_nat k) ++ B " not enabled: " ++ class).

Definition replay_case (a : val) : val :=
  match a with
  | VL [sc; VL tr; VL rs; fc] =>
      match dec_scenario sc with
      | None => VBadCase
      | Some s0 =>
          match dec_list (dec_event s0) tr, dec_list dec_result rs, dec_ohead fc with
          | Some tr, Some rs, Some fc =>
              match replay O tr s0 with
              | inr (ENotEnabled k) => step_err k (B "call")
              | inr (EValues k) => step_err k (B "values")
              | inr (EGrow k) => step_err k (B "grow")
              | inr (ESite k) => step_err k (B "site")
              | inl s1 =>
                  let s2 := finish (length (s_threads s1)) s1 in
                  if negb (all_done s2) then err_msg (B "final: unfinished")
                  else if negb (results_match (s_threads s2) rs) then err_msg (B "final: results")
                  else if negb (ohead_eqb (s_cfg s2) fc) then err_msg (B "final: config")
                  else if negb (final_ok s2) then err_msg (B "final: inv")
                  else VOk (VI 0)
              end
          | _, _, _ => VBadCase
          end
      end
  | _ => VBadCase
  end.

Definition dispatch (f : str) (a : val) : val :=
  if str_eqb f (B "Replay") then replay_case a else VBadCase.
