(* Client/Server.v — executable model of the SERVER side of the checksum database:
   sumdb.Server.ServeHTTP (/repo/sumdb/server.go) over an abstract ServerOps, and the in-memory
   ServerOps of sumdb.TestServer (/repo/sumdb/test.go).  MODEL FILE: no proofs here (see
   Client/ServerProofs*.v; wire dispatcher Client/DispatchServer.v; check B01).

   EXPORTED NAMES AND TYPES
     ores A      := OOk a | ONotExist | OFail | OPanic     result of one ServerOps call: a value, an
                    error with os.IsNotExist(err) = true, any other error, a Go panic inside the call
     ctype       := CText | COctet        "text/plain; charset=UTF-8" | "application/octet-stream"
     http_result := HOk ct body | HStatus code | HPanic     200 with Content-Type and body; an error
                    status written by http.Error / http.NotFound (400, 404, 500; the message text is
                    not modelled); HPanic = the handler panicked (no response)
     server_ops S := { op_signed : S -> ores str;                       ServerOps.Signed
                       op_read_records : S -> Z -> Z -> ores (list str);   ReadRecords(id, n)
                       op_lookup : S -> str -> str -> ores Z * S;       Lookup(module.Version{path, vers})
                       op_read_tile_data : S -> tile -> ores str }      ReadTileData(t)
                    over an explicit state S; only Lookup may change it (true of TestServer)
     mod_ver_match : str -> bool          modVerRE.MatchString (hand recogniser; the regex source is
                                          pinned by Example modVerRE_pinned against Gen/GenRegex.v)
     report_error  : ores A -> http_result      reportError: 404 for IsNotExist, else 500
     cut_after_nl  : str -> str           the "after" of bytes.Cut(msg, "\n")
     data_tile_body : Z -> list str -> option str    the loop of the data-tile branch; None = FormatRecord failed
     serve : server_ops S -> S -> str -> http_result * S      Server.ServeHTTP on r.URL.Path

     gres        := ores str              result of the gosum callback of NewTestServer
     tstate      := { ts_records : list str; ts_hashes : list hash; ts_lookup : list (str * Z) }
     tstate0     : tstate                 NewTestServer(...)
     safe_reader : list hash -> reader    testHashes.ReadHashes (= Tree.reader_of; None = the Go code panics)
     find_key    : str -> list (str * Z) -> option Z
     version_string : str -> str -> str   module.Version.String
     Section variables of the TestServer part: leaf_hash node_hash (tlog.RecordHash / NodeHash),
       gosum : str -> str -> gres, sid, Sg : sid -> str -> option str, sgn : signer sid
       (the note.Signer that note.NewSigner builds from the server's key)
     test_signed test_read_records test_lookup test_read_tile_data      the four TestServer methods
     test_ops    : server_ops tstate
     serve_test  : tstate -> str -> http_result * tstate    = serve test_ops

   MODELLING DECISIONS
   * A request is its URL path (r.URL.Path); method, query, headers are not looked at by ServeHTTP.
   * testHashes.ReadHashes never returns an error; it PANICS (index out of range) when an index is
     outside the slice.  Tlog's readers encode "cannot read" as None -> Err EReader / TErr TEReader; over
     reader_of (ts_hashes) that outcome is therefore mapped to OPanic.
   * TestServer.Lookup mutates records and lookup BEFORE StoredHashesForRecordHash can fail (then it
     panics); the model keeps that order.  The state is sequential (the mutex is not modelled; the
     second look at s.lookup after the unlocked gosum call cannot differ).
   * note.NewSigner(s.signer) failing (malformed server key) is not modelled: the signer is given.
   * Integers are unbounded Z: t.N << t.H and id+i do not wrap (requests keep N < 2^31). *)
From Verif.Base Require Import Bytes.
From Verif.Gen Require Import GenRegex.
From Verif.Tlog Require Import Index Tree Codec Tile Spec6962.
From Verif.Note Require Import Note.
From Verif.Module Require Import Escape.

Inductive ores (A : Type) : Type :=
| OOk (a : A)
| ONotExist
| OFail
| OPanic.
Arguments OOk {A} a.
Arguments ONotExist {A}.
Arguments OFail {A}.
Arguments OPanic {A}.

Inductive ctype := CText | COctet.

Inductive http_result :=
| HOk (ct : ctype) (body : str)
| HStatus (code : Z)
| HPanic.

Record server_ops (St : Type) := mkOps {
  op_signed : St -> ores str;
  op_read_records : St -> Z -> Z -> ores (list str);
  op_lookup : St -> str -> str -> ores Z * St;
  op_read_tile_data : St -> tile -> ores str
}.
Arguments mkOps {St} _ _ _ _.
Arguments op_signed {St} _ _.
Arguments op_read_records {St} _ _ _ _.
Arguments op_lookup {St} _ _ _ _.
Arguments op_read_tile_data {St} _ _ _.

(* ---- modVerRE ------------------------------------------------------------------------------ *)

(* var modVerRE = lazyregexp.New(`^[^@]+@v[0-9]+\.[0-9]+\.[0-9]+(-[^@]* )?(\+incompatible)?$`)   (no space in the source)
   [^@] matches every character but '@' (newline and U+FFFD for an invalid byte included), so on
   bytes: a non-empty '@'-free prefix, '@', "v" digits "." digits "." digits, and then either
   nothing, or "+incompatible", or '-' followed by anything '@'-free (which absorbs a trailing
   "+incompatible").  The digit groups are followed by a non-digit, so the greedy split is the
   only one. *)
Example modVerRE_pinned :
  sumdb_modVerRE = B "^[^@]+@v[0-9]+\.[0-9]+\.[0-9]+(-[^@]*)?(\+incompatible)?$".
Proof. reflexivity. Qed.

(* one or more digits; the rest *)
Definition digits1 (s : str) : option str :=
  match span is_digit s with
  | ([], _) => None
  | (_, r) => Some r
  end.

Definition mod_ver_tail (r : str) : bool :=
  match r with
  | [] => true
  | 45 :: _ => true
  | _ => str_eqb r (B "+incompatible")
  end.

Definition mod_ver_match (s : str) : bool :=
  match index_of 64 s with
  | None => false
  | Some i =>
      let p := firstn i s in
      let v := skipn (S i) s in
      match p with
      | [] => false
      | _ =>
          if contains_byte 64 v then false
          else
            match v with
            | 118 :: r0 =>
                match digits1 r0 with
                | Some (46 :: r1) =>
                    match digits1 r1 with
                    | Some (46 :: r2) =>
                        match digits1 r2 with
                        | Some r3 => mod_ver_tail r3
                        | None => false
                        end
                    | _ => false
                    end
                | _ => false
                end
            | _ => false
            end
      end
  end.

(* ---- ServeHTTP ------------------------------------------------------------------------------- *)

(* func reportError(w, err) *)
Definition report_error {A : Type} (e : ores A) : http_result :=
  match e with
  | ONotExist => HStatus 404
  | OPanic => HPanic
  | _ => HStatus 500
  end.

(* http.Error(w, err.Error(), http.StatusInternalServerError) after an ops call *)
Definition internal_error {A : Type} (e : ores A) : http_result :=
  match e with
  | OPanic => HPanic
  | _ => HStatus 500
  end.

(* _, msg, _ = bytes.Cut(msg, []byte{'\n'}) *)
Definition cut_after_nl (msg : str) : str :=
  match index_of 10 msg with
  | Some i => skipn (S i) msg
  | None => []
  end.

(* for i, text := range records { msg, err := tlog.FormatRecord(start+int64(i), text); … } *)
Fixpoint data_tile_body (start : Z) (records : list str) : option str :=
  match records with
  | [] => Some []
  | text :: rest =>
      match format_record start text with
      | Index.Ok msg =>
          match data_tile_body (start + 1) rest with
          | Some d => Some (cut_after_nl msg ++ d)
          | None => None
          end
      | _ => None
      end
  end.

Definition lookup_prefix : str := B "/lookup/".
Definition tile_prefix_path : str := B "/tile/".
Definition latest_path : str := B "/latest".

Section Serve.
Variable St : Type.
Variable ops : server_ops St.

(* case strings.HasPrefix(r.URL.Path, "/lookup/") *)
Definition serve_lookup (st : St) (mod_ : str) : http_result * St :=
  if negb (mod_ver_match mod_) then (HStatus 400, st)
  else
    match index_of 64 mod_ with
    | None => (HPanic, st)                                  (* mod[:-1] *)
    | Some i =>
        let esc_path := firstn i mod_ in
        let esc_vers := skipn (S i) mod_ in
        match unescape_path esc_path with
        | EErr _ => (HStatus 500, st)                       (* reportError: never a not-exist error *)
        | EOk path =>
            match unescape_version esc_vers with
            | EErr _ => (HStatus 500, st)
            | EOk vers =>
                match op_lookup ops st path vers with
                | (OOk id, st1) =>
                    match op_read_records ops st1 id 1 with
                    | OOk [text] =>
                        match format_record id text with
                        | Index.Ok msg =>
                            match op_signed ops st1 with
                            | OOk signed => (HOk CText (msg ++ signed), st1)
                            | e => (internal_error e, st1)
                            end
                        | Index.Err _ => (HStatus 500, st1)
                        | Index.Panic => (HPanic, st1)
                        end
                    | OOk _ => (HStatus 500, st1)           (* invalid record count *)
                    | e => (internal_error e, st1)
                    end
                | (e, st1) => (report_error e, st1)
                end
            end
        end
    end.

(* case r.URL.Path == "/latest" *)
Definition serve_latest (st : St) : http_result * St :=
  match op_signed ops st with
  | OOk data => (HOk CText data, st)
  | e => (internal_error e, st)
  end.

(* case strings.HasPrefix(r.URL.Path, "/tile/") *)
Definition serve_tile (st : St) (path : str) : http_result * St :=
  match parse_tile_path (skipn 1 path) with
  | TErr _ => (HStatus 400, st)
  | TPanic => (HPanic, st)
  | TOk t =>
      if tL t =? -1 then
        let start := Z.shiftl (tN t) (tH t) in
        match op_read_records ops st start (tW t) with
        | OOk records =>
            if negb (zlen records =? tW t) then (HStatus 500, st)
            else match data_tile_body start records with
                 | Some data => (HOk CText data, st)
                 | None => (HStatus 500, st)
                 end
        | e => (report_error e, st)
        end
      else
        match op_read_tile_data ops st t with
        | OOk data => (HOk COctet data, st)
        | e => (report_error e, st)
        end
  end.

(* func (s *Server) ServeHTTP(w http.ResponseWriter, r *http.Request) *)
Definition serve (st : St) (path : str) : http_result * St :=
  if has_prefix path lookup_prefix then serve_lookup st (skipn (length lookup_prefix) path)
  else if str_eqb path latest_path then serve_latest st
  else if has_prefix path tile_prefix_path then serve_tile st path
  else (HStatus 404, st).

End Serve.

Arguments serve_lookup {St} ops st mod_.
Arguments serve_latest {St} ops st.
Arguments serve_tile {St} ops st path.
Arguments serve {St} ops st path.

(* ---- TestServer ------------------------------------------------------------------------------ *)

Definition gres := ores str.

Record tstate := mkT {
  ts_records : list str;
  ts_hashes : list hash;
  ts_lookup : list (str * Z)
}.

Definition tstate0 : tstate := mkT [] [] [].

Fixpoint find_key (k : str) (l : list (str * Z)) : option Z :=
  match l with
  | [] => None
  | (k', v) :: r => if str_eqb k k' then Some v else find_key k r
  end.

(* func (m Version) String() string *)
Definition version_string (path vers : str) : str :=
  match vers with
  | [] => path
  | _ => path ++ 64 :: vers
  end.

(* testHashes as a tlog reader: reader_of, with the range test done on Z first (the same function,
   ServerProofs.safe_reader_eq; Z.to_nat of a huge index is never built) *)
Definition safe_reader (store : list hash) (indexes : list Z) : option (list hash) :=
  if forallb (fun i => (0 <=? i) && (i <? zlen store)) indexes then reader_of store indexes else None.

Section Test.
Variable leaf_hash : str -> hash.
Variable node_hash : hash -> hash -> hash.
Variable gosum : str -> str -> gres.
Variable sid : Type.
Variable Sg : sid -> str -> option str.
Variable sgn : signer sid.

(* func (s *TestServer) Signed(ctx) ([]byte, error) *)
Definition test_signed (st : tstate) : ores str :=
  let size := zlen (ts_records st) in
  match tree_hash node_hash size (safe_reader (ts_hashes st)) with
  | Index.Ok h =>
      match sign sid Sg {| n_text := format_tree (Tree size h); n_sigs := []; n_unverified := [] |} [sgn] with
      | Note.Ok msg => OOk msg
      | Note.Err _ => OFail
      end
  | Index.Err EReader => OPanic                            (* h[id] out of range *)
  | Index.Err _ => OFail
  | Index.Panic => OPanic
  end.

(* func (s *TestServer) ReadRecords(ctx, id, n int64) ([][]byte, error) *)
Definition test_read_records (st : tstate) (id n : Z) : ores (list str) :=
  if n <=? 0 then OOk []
  else if id <? 0 then OPanic                              (* s.records[id] with id < 0 *)
  else if zlen (ts_records st) <? id + n then OFail     (* "missing records" *)
  else OOk (firstn (Z.to_nat n) (skipn (Z.to_nat id) (ts_records st))).

(* func (s *TestServer) Lookup(ctx, m module.Version) (int64, error) *)
Definition test_lookup (st : tstate) (path vers : str) : ores Z * tstate :=
  let key := version_string path vers in
  match find_key key (ts_lookup st) with
  | Some id => (OOk id, st)
  | None =>
      match gosum path vers with
      | OOk data =>
          let id := zlen (ts_records st) in
          let recs := ts_records st ++ [data] in
          let lk := ts_lookup st ++ [(key, id)] in
          match stored_hashes_for_record_hash node_hash id (leaf_hash data) (safe_reader (ts_hashes st)) with
          | Index.Ok hs => (OOk id, mkT recs (ts_hashes st ++ hs) lk)
          | _ => (OPanic, mkT recs (ts_hashes st) lk)      (* panic(err) after the appends *)
          end
      | ONotExist => (ONotExist, st)
      | OFail => (OFail, st)
      | OPanic => (OPanic, st)
      end
  end.

(* func (s *TestServer) ReadTileData(ctx, t tlog.Tile) ([]byte, error) *)
Definition test_read_tile_data (st : tstate) (t : tile) : ores str :=
  match read_tile_data t (safe_reader (ts_hashes st)) with
  | TOk d => OOk d
  | TErr TEReader => OPanic                                (* h[id] out of range *)
  | TErr _ => OFail
  | TPanic => OPanic
  end.

Definition test_ops : server_ops tstate :=
  mkOps test_signed test_read_records test_lookup test_read_tile_data.

Definition serve_test (st : tstate) (path : str) : http_result * tstate := serve test_ops st path.

End Test.
