(* C14 — interleaving labelled transition system of concurrently running sumdb.Client
   lookups against an HONEST server (sumdb/client.go, sumdb/cache.go).  Definitions only;
   proofs live in Client/ConcProofs*.v.

   One atomic step per mutex-protected section and per ClientOps call:

     Lookup:  atomic.Store didLookup; skip(path)                           PStart
              c.init() = initOnce.Do(initWork)                             PInitGate
              initWork: ReadConfig("key")                                  PInitKey
                        ReadConfig(name+"/latest"); mergeLatest(data)      PInitLatest, merge pcs
                        (once done)                                        PInitEnd
              c.record.Do(file, f)                                         PCellGate
              f: ReadCache(file)                                           PReadCache
                 ReadRemote(remotePath)                                    PReadRemote
                 mergeLatest(treeMsg)                                      merge pcs
                 checkRecord: lock; latest := c.latest; unlock             PCheckRecord
                              ReadHashes (tiles), compare                  PRecHashes
                 WriteCache(file, data)                                    PWriteCache
                 e.result = ...; done = 1; unlock                          PCellEnd
     mergeLatest(msg):  when := mergeLatestMem(msg)          (t_first = true)
                        if when != msgFuture return
                        for { msg := ReadConfig(latest)                    PReadConfig
                              when := mergeLatestMem(msg)    (t_first = false)
                              if when != msgPast return
                              lock; latestMsg := c.latestMsg; unlock       PReadMsg
                              WriteConfig(latest, msg, latestMsg)          PWriteConfig
                              if err != ErrWriteConflict return }
     mergeLatestMem(msg): lock; latest := c.latest; unlock                 PMemRead
                          for { if tree.N <= latest.N { checkTrees; return past/now }    PCheckOld
                                checkTrees
                                lock; if c.latest == latest { install } else { re-read }; unlock   PInstall
                                if installed return future }

   In the honest world checkTrees and the tile reads under checkRecord are pure successes
   (C10/C01; tile reads only memoise): checkTrees is the silent local step PCheckOld, or
   the first half of PInstall; the tile reads of checkRecord are the silent step PRecHashes.
   (They are separate steps because the harness can pause a goroutine there, see below.)  A head is (size, hash); the honest chain is the list of all heads the
   server ever signs during a run, the server's current head is [nth s_cur s_chain];
   growth of the server is the environment action AGrow.  The empty configuration file and
   the initial in-memory head (N = 0, no message) are [None].

   The cache is shared by all clients of the run (one GOPATH/pkg/sumdb); every client has
   its own memory head, init once-cell and record once-cells; the configuration file is
   shared. *)
From Verif.Base Require Import Bytes.
From Verif.Module Require Import Match.

Definition head := (Z * str)%type.

Definition head_eqb (a b : head) : bool := (fst a =? fst b) && str_eqb (snd a) (snd b).
Definition ohead_eqb (a b : option head) : bool :=
  match a, b with
  | None, None => true
  | Some x, Some y => head_eqb x y
  | _, _ => false
  end.
Definition size (h : option head) : Z := match h with None => 0 | Some x => fst x end.

Inductive result := RNone | RSkip | ROk (k : nat) | RErr.

Inductive pc :=
| PStart | PInitGate | PInitKey | PInitLatest
| PMemRead | PCheckOld | PInstall | PReadConfig | PReadMsg | PWriteConfig
| PInitEnd | PCellGate | PReadCache | PReadRemote | PCheckRecord | PRecHashes | PWriteCache | PCellEnd
| PDone.

Record thread := {
  t_cl : nat;              (* client the lookup runs on *)
  t_path : str;            (* module path (for the GONOSUMDB decision) *)
  t_key : nat;             (* identifies the record file name/lookup@escaped-path@version *)
  t_pc : pc;
  t_msg : option head;     (* msg argument of the current mergeLatestMem *)
  t_lat : option head;     (* local copy of c.latest *)
  t_first : bool;          (* first mergeLatestMem of mergeLatest (line 306) / the one in the loop *)
  t_init : bool;           (* mergeLatest called from initWork *)
  t_data : option head;    (* tree head embedded in the record data *)
  t_wc : bool;             (* writeCache *)
  t_new : option head;     (* latestMsg read before WriteConfig *)
  t_res : result }.

Inductive ionce := INot | IRunning (t : nat) | IDone.
Inductive cell := CRunning (t : nat) | CDone (r : result).

Record client := {
  c_mem : option head;            (* c.latest / c.latestMsg, guarded by latestMu *)
  c_init : ionce;                 (* initOnce *)
  c_nosumdb : str;
  c_cells : list (nat * cell) }.  (* c.record; absent = never requested *)

Record state := {
  s_chain : list head;
  s_cur : nat;
  s_cfg : option head;
  s_cache : list (nat * head);
  s_clients : list client;
  s_threads : list thread }.

Inductive label :=
| LTau
| LReadConfigKey (c : nat)
| LReadConfig (c : nat) (v : option head)
| LWriteConfig (c : nat) (old new : option head) (ok : bool)
| LReadCache (c k : nat) (r : option head)
| LReadRemote (c k : nat) (h : head)
| LWriteCache (c k : nat) (h : option head).

(* ---- small map helpers ---------------------------------------------------------------- *)
Fixpoint upd_nth {A} (n : nat) (x : A) (l : list A) : list A :=
  match l, n with
  | [], _ => []
  | _ :: r, O => x :: r
  | y :: r, S n' => y :: upd_nth n' x r
  end.

Fixpoint lookup {A} (k : nat) (m : list (nat * A)) : option A :=
  match m with
  | [] => None
  | (k', v) :: r => if Nat.eqb k k' then Some v else lookup k r
  end.

Definition set_cur (s : state) (n : nat) : state :=
  {| s_chain := s_chain s; s_cur := n; s_cfg := s_cfg s; s_cache := s_cache s;
     s_clients := s_clients s; s_threads := s_threads s |}.

Definition set_mem (c : client) (v : option head) : client :=
  {| c_mem := v; c_init := c_init c; c_nosumdb := c_nosumdb c; c_cells := c_cells c |}.
Definition set_init (c : client) (i : ionce) : client :=
  {| c_mem := c_mem c; c_init := i; c_nosumdb := c_nosumdb c; c_cells := c_cells c |}.
Definition set_cell (c : client) (k : nat) (x : cell) : client :=
  {| c_mem := c_mem c; c_init := c_init c; c_nosumdb := c_nosumdb c;
     c_cells := (k, x) :: c_cells c |}.

Definition set_pc (th : thread) (p : pc) : thread :=
  {| t_cl := t_cl th; t_path := t_path th; t_key := t_key th; t_pc := p; t_msg := t_msg th;
     t_lat := t_lat th; t_first := t_first th; t_init := t_init th; t_data := t_data th;
     t_wc := t_wc th; t_new := t_new th; t_res := t_res th |}.
Definition set_lat (th : thread) (v : option head) : thread :=
  {| t_cl := t_cl th; t_path := t_path th; t_key := t_key th; t_pc := t_pc th; t_msg := t_msg th;
     t_lat := v; t_first := t_first th; t_init := t_init th; t_data := t_data th;
     t_wc := t_wc th; t_new := t_new th; t_res := t_res th |}.
Definition set_new (th : thread) (v : option head) : thread :=
  {| t_cl := t_cl th; t_path := t_path th; t_key := t_key th; t_pc := t_pc th; t_msg := t_msg th;
     t_lat := t_lat th; t_first := t_first th; t_init := t_init th; t_data := t_data th;
     t_wc := t_wc th; t_new := v; t_res := t_res th |}.
Definition set_res (th : thread) (r : result) : thread :=
  {| t_cl := t_cl th; t_path := t_path th; t_key := t_key th; t_pc := t_pc th; t_msg := t_msg th;
     t_lat := t_lat th; t_first := t_first th; t_init := t_init th; t_data := t_data th;
     t_wc := t_wc th; t_new := t_new th; t_res := r |}.
(* entering mergeLatest(msg) / the mergeLatestMem of the loop *)
Definition set_merge (th : thread) (msg : option head) (first init : bool) : thread :=
  {| t_cl := t_cl th; t_path := t_path th; t_key := t_key th; t_pc := PMemRead; t_msg := msg;
     t_lat := t_lat th; t_first := first; t_init := init; t_data := t_data th;
     t_wc := t_wc th; t_new := t_new th; t_res := t_res th |}.
Definition set_data (th : thread) (d : option head) (wc : bool) : thread :=
  {| t_cl := t_cl th; t_path := t_path th; t_key := t_key th; t_pc := t_pc th; t_msg := t_msg th;
     t_lat := t_lat th; t_first := t_first th; t_init := t_init th; t_data := d;
     t_wc := wc; t_new := t_new th; t_res := t_res th |}.

(* ---- local control flow of mergeLatest / mergeLatestMem -------------------------------- *)
Inductive when := WPast | WNow | WFuture.

(* mergeLatest returns nil *)
Definition mdone (th : thread) : thread :=
  if t_init th then set_pc th PInitEnd else set_pc th PCheckRecord.

(* mergeLatestMem returned w *)
Definition ret (w : when) (th : thread) : thread :=
  if t_first th
  then match w with WFuture => set_pc th PReadConfig | _ => mdone th end
  else match w with WPast => set_pc th PReadMsg | _ => mdone th end.

(* head of the loop in mergeLatestMem, with the local copy t_lat *)
Definition decide (th : thread) : thread :=
  match t_msg th with
  | None => ret (if size (t_lat th) =? 0 then WNow else WPast) th
  | Some _ =>
      if size (t_msg th) <=? size (t_lat th) then set_pc th PCheckOld else set_pc th PInstall
  end.

Definition skips (c : client) (th : thread) : bool :=
  match_prefix_patterns (c_nosumdb c) (t_path th).

(* ---- the step function ------------------------------------------------------------------ *)
(* One step of thread t (record th, on client c) as a function of the shared values it can
   touch: its client, the configuration file, the cache, the server's current head.
   None = blocked (initOnce / parCache entry held by another goroutine) or finished. *)
Definition outcome := (thread * client * option head * list (nat * head) * label)%type.

Definition step_at (t : nat) (th : thread) (c : client) (cfg : option head)
    (cache : list (nat * head)) (srv : option head) : option outcome :=
  let ci := t_cl th in
  match t_pc th with
  | PStart =>
      if skips c th
      then Some (set_pc (set_res th RSkip) PDone, c, cfg, cache, LTau)
      else Some (set_pc th PInitGate, c, cfg, cache, LTau)
  | PInitGate =>
      match c_init c with
      | INot => Some (set_pc th PInitKey, set_init c (IRunning t), cfg, cache, LTau)
      | IRunning _ => None
      | IDone => Some (set_pc th PCellGate, c, cfg, cache, LTau)
      end
  | PInitKey => Some (set_pc th PInitLatest, c, cfg, cache, LReadConfigKey ci)
  | PInitLatest => Some (set_merge th cfg true true, c, cfg, cache, LReadConfig ci cfg)
  | PMemRead => Some (decide (set_lat th (c_mem c)), c, cfg, cache, LTau)
  | PCheckOld =>
      (* checkTrees(tree, latest) succeeded (honest world) *)
      Some (ret (if size (t_msg th) <? size (t_lat th) then WPast else WNow) th, c, cfg, cache, LTau)
  | PInstall =>
      (* checkTrees(latest, tree) succeeded (honest world); lock and install or re-read *)
      if ohead_eqb (c_mem c) (t_lat th)
      then Some (ret WFuture th, set_mem c (t_msg th), cfg, cache, LTau)
      else Some (decide (set_lat th (c_mem c)), c, cfg, cache, LTau)
  | PReadConfig => Some (set_merge th cfg false (t_init th), c, cfg, cache, LReadConfig ci cfg)
  | PReadMsg => Some (set_pc (set_new th (c_mem c)) PWriteConfig, c, cfg, cache, LTau)
  | PWriteConfig =>
      if ohead_eqb cfg (t_msg th)
      then Some (mdone th, c, t_new th, cache, LWriteConfig ci (t_msg th) (t_new th) true)
      else Some (set_pc th PReadConfig, c, cfg, cache, LWriteConfig ci (t_msg th) (t_new th) false)
  | PInitEnd =>
      Some (set_pc (set_merge th (t_msg th) true false) PCellGate, set_init c IDone, cfg, cache, LTau)
  | PCellGate =>
      match lookup (t_key th) (c_cells c) with
      | None => Some (set_pc th PReadCache, set_cell c (t_key th) (CRunning t), cfg, cache, LTau)
      | Some (CRunning _) => None
      | Some (CDone r) => Some (set_pc (set_res th r) PDone, c, cfg, cache, LTau)
      end
  | PReadCache =>
      match lookup (t_key th) cache with
      | Some h => Some (set_merge (set_data th (Some h) false) (Some h) true false, c, cfg, cache,
                        LReadCache ci (t_key th) (Some h))
      | None => Some (set_pc th PReadRemote, c, cfg, cache, LReadCache ci (t_key th) None)
      end
  | PReadRemote =>
      match srv with
      | Some h => Some (set_merge (set_data th (Some h) true) (Some h) true false, c, cfg, cache,
                        LReadRemote ci (t_key th) h)
      | None => None
      end
  | PCheckRecord =>
      (* checkRecord fails when id >= latest.N; an honest record has id < size of its head,
         so the model fails (conservatively) whenever the head of the data is beyond memory *)
      if size (t_data th) <=? size (c_mem c)
      then Some (set_pc (set_lat th (c_mem c)) PRecHashes, c, cfg, cache, LTau)
      else Some (set_pc (set_res (set_lat th (c_mem c)) RErr) PCellEnd, c, cfg, cache, LTau)
  | PRecHashes =>
      (* ReadHashes through the tiles of the copied head and the comparison with the record
         hash succeeded (honest world) *)
      Some (set_pc (set_res th (ROk (t_key th))) (if t_wc th then PWriteCache else PCellEnd),
            c, cfg, cache, LTau)
  | PWriteCache =>
      match t_data th with
      | Some h => Some (set_pc th PCellEnd, c, cfg, (t_key th, h) :: cache,
                        LWriteCache ci (t_key th) (t_data th))
      | None => None
      end
  | PCellEnd =>
      Some (set_pc th PDone, set_cell c (t_key th) (CDone (t_res th)), cfg, cache, LTau)
  | PDone => None
  end.

Definition build (s : state) (t : nat) (th : thread) (ci : nat) (c : client) (cfg : option head)
    (cache : list (nat * head)) : state :=
  {| s_chain := s_chain s; s_cur := s_cur s; s_cfg := cfg; s_cache := cache;
     s_clients := upd_nth ci c (s_clients s); s_threads := upd_nth t th (s_threads s) |}.

Definition step (s : state) (t : nat) : option (state * label) :=
  match nth_error (s_threads s) t with
  | None => None
  | Some th =>
      match nth_error (s_clients s) (t_cl th) with
      | None => None
      | Some c =>
          match step_at t th c (s_cfg s) (s_cache s) (nth_error (s_chain s) (s_cur s)) with
          | Some (th', c', cfg', cache', l) => Some (build s t th' (t_cl th) c' cfg' cache', l)
          | None => None
          end
      end
  end.

(* the server signs its next head *)
Definition grow (s : state) : option state :=
  if Nat.ltb (S (s_cur s)) (length (s_chain s)) then Some (set_cur s (S (s_cur s))) else None.

(* ---- schedules --------------------------------------------------------------------------- *)
Inductive act := AThread (t : nat) | AGrow.

Definition event := (nat * label)%type.

(* one action; a disabled action stutters.  Returns the event when it is not silent. *)
Definition do_act (s : state) (a : act) : state * list event :=
  match a with
  | AThread t =>
      match step s t with
      | Some (s', LTau) => (s', [])
      | Some (s', l) => (s', [(t, l)])
      | None => (s, [])
      end
  | AGrow => match grow s with Some s' => (s', []) | None => (s, []) end
  end.

Fixpoint run_tr (sched : list act) (s : state) : state * list event :=
  match sched with
  | [] => (s, [])
  | a :: r => let (s1, e1) := do_act s a in
              let (s2, e2) := run_tr r s1 in (s2, e1 ++ e2)
  end.

Definition run (sched : list act) (s : state) : state := fst (run_tr sched s).
Definition trace (sched : list act) (s : state) : list event := snd (run_tr sched s).

(* ---- initial states ------------------------------------------------------------------------ *)
Definition new_thread (cl : nat) (path : str) (key : nat) : thread :=
  {| t_cl := cl; t_path := path; t_key := key; t_pc := PStart; t_msg := None; t_lat := None;
     t_first := true; t_init := false; t_data := None; t_wc := false; t_new := None;
     t_res := RNone |}.
Definition new_client (nosumdb : str) : client :=
  {| c_mem := None; c_init := INot; c_nosumdb := nosumdb; c_cells := [] |}.

Definition init_state (chain : list head) (cur : nat) (cfg : option head) (cache : list (nat * head))
    (nosumdbs : list str) (lookups : list (nat * str * nat)) : state :=
  {| s_chain := chain; s_cur := cur; s_cfg := cfg; s_cache := cache;
     s_clients := List.map new_client nosumdbs;
     s_threads := List.map (fun x => new_thread (fst (fst x)) (snd (fst x)) (snd x)) lookups |}.

(* ---- trace replay ---------------------------------------------------------------------------
   The real client is run under a scheduler that releases one ClientOps call at a time and
   waits until every goroutine is parked at its next ClientOps call, has returned, or is
   blocked in initOnce / parCache.  An observed trace is the list of released calls with the
   values they read or wrote (and the growth of the server).  It is replayed by running, for
   each observation of thread t, t's silent steps up to its next call, the call itself (its
   label must be the observed one), and t's silent steps after it. *)
Definition is_op (p : pc) : bool :=
  match p with
  | PInitKey | PInitLatest | PReadConfig | PWriteConfig | PReadCache | PReadRemote | PWriteCache => true
  | _ => false
  end.

(* Which goroutine passes initOnce or takes a parCache entry first among several that were
   woken together is decided by the Go runtime, not by the controller; the replay therefore
   takes the gate steps of a thread only when its next call is observed ([gates] = true) and
   stops in front of them when running on after a call. *)
Definition is_gate (p : pc) : bool :=
  match p with PStart | PInitGate | PCellGate => true | _ => false end.

Fixpoint advance (gates : bool) (fuel : nat) (s : state) (t : nat) : state :=
  match fuel with
  | O => s
  | S f =>
      match nth_error (s_threads s) t with
      | Some th =>
          if is_op (t_pc th) || (negb gates && is_gate (t_pc th)) then s
          else match step s t with
               | Some (s', _) => advance gates f s' t
               | None => s
               end
      | None => s
      end
  end.

Definition adv_fuel : nat := 32.

(* The controller can also pause a lookup goroutine inside checkTrees / checkRecord (where the
   client saves verified tiles: the WriteCache of a tile, which is called on the lookup
   goroutine itself with no lock held).  [OYield t site] is the release of such a pause. *)
Inductive site := SiteTrees | SiteRecord.
Definition at_site (x : site) (p : pc) : bool :=
  match x, p with
  | SiteTrees, PCheckOld | SiteTrees, PInstall | SiteRecord, PRecHashes => true
  | _, _ => false
  end.

Inductive obs := OGrow | OStep (t : nat) (l : label) | OYield (t : nat) (x : site).

(* the pause in which thread t's running-on will end, if it ends in one *)
Fixpoint next_site (t : nat) (tr : list obs) : option site :=
  match tr with
  | [] => None
  | OGrow :: r => next_site t r
  | OStep t' _ :: r => if Nat.eqb t t' then None else next_site t r
  | OYield t' x :: r => if Nat.eqb t t' then Some x else next_site t r
  end.

(* run thread t on after a released call or pause: silent steps up to its next call, gate,
   end — or up to the pause [stop] *)
Fixpoint run_on (stop : option site) (fuel : nat) (s : state) (t : nat) : state :=
  match fuel with
  | O => s
  | S f =>
      match nth_error (s_threads s) t with
      | Some th =>
          if is_op (t_pc th) || is_gate (t_pc th)
             || match stop with Some x => at_site x (t_pc th) | None => false end
          then s
          else match step s t with
               | Some (s', _) => run_on stop f s' t
               | None => s
               end
      | None => s
      end
  end.

Inductive replay_err :=
| ENotEnabled (k : nat)       (* the observed call is not the thread's next call, or the thread is blocked *)
| EValues (k : nat)           (* the call is enabled but reads/writes other values *)
| EGrow (k : nat)             (* the server grew beyond the scenario's chain *)
| ESite (k : nat).            (* the thread is not inside checkTrees / checkRecord *)

Definition label_kind_eqb (a b : label) : bool :=
  match a, b with
  | LTau, LTau | LReadConfigKey _, LReadConfigKey _ | LReadConfig _ _, LReadConfig _ _
  | LWriteConfig _ _ _ _, LWriteConfig _ _ _ _ | LReadCache _ _ _, LReadCache _ _ _
  | LReadRemote _ _ _, LReadRemote _ _ _ | LWriteCache _ _ _, LWriteCache _ _ _ => true
  | _, _ => false
  end.
Definition label_eqb (a b : label) : bool :=
  match a, b with
  | LTau, LTau => true
  | LReadConfigKey c, LReadConfigKey c' => Nat.eqb c c'
  | LReadConfig c v, LReadConfig c' v' => Nat.eqb c c' && ohead_eqb v v'
  | LWriteConfig c o n k, LWriteConfig c' o' n' k' =>
      Nat.eqb c c' && ohead_eqb o o' && ohead_eqb n n' && Bool.eqb k k'
  | LReadCache c k r, LReadCache c' k' r' => Nat.eqb c c' && Nat.eqb k k' && ohead_eqb r r'
  | LReadRemote c k h, LReadRemote c' k' h' => Nat.eqb c c' && Nat.eqb k k' && head_eqb h h'
  | LWriteCache c k h, LWriteCache c' k' h' => Nat.eqb c c' && Nat.eqb k k' && ohead_eqb h h'
  | _, _ => false
  end.

Fixpoint replay (k : nat) (tr : list obs) (s : state) : state + replay_err :=
  match tr with
  | [] => inl s
  | OGrow :: r => match grow s with Some s' => replay (S k) r s' | None => inr (EGrow k) end
  | OStep t l :: r =>
      let s1 := advance true adv_fuel s t in
      match step s1 t with
      | Some (s2, l') =>
          if label_eqb l l' then replay (S k) r (run_on (next_site t r) adv_fuel s2 t)
          else if label_kind_eqb l l' then inr (EValues k) else inr (ENotEnabled k)
      | None => inr (ENotEnabled k)
      end
  | OYield t x :: r =>
      match nth_error (s_threads s) t with
      | Some th =>
          if at_site x (t_pc th)
          then match step s t with
               | Some (s2, _) => replay (S k) r (run_on (next_site t r) adv_fuel s2 t)
               | None => inr (ESite k)
               end
          else inr (ESite k)
      | None => inr (ESite k)
      end
  end.

(* after the last observation every thread runs its remaining silent steps *)
Fixpoint advance_all (ts : list nat) (s : state) : state :=
  match ts with [] => s | t :: r => advance_all r (advance true adv_fuel s t) end.
Fixpoint finish (rounds : nat) (s : state) : state :=
  match rounds with
  | O => s
  | S n => finish n (advance_all (seq 0 (length (s_threads s))) s)
  end.

(* ---- the decidable part of the invariant, evaluated on the final state of a replay ------- *)
Definition in_chain (s : state) (h : option head) : bool :=
  match h with None => true | Some x => existsb (head_eqb x) (s_chain s) end.

Definition thread_ok (s : state) (th : thread) : bool :=
  in_chain s (t_msg th) && in_chain s (t_lat th) && in_chain s (t_data th) && in_chain s (t_new th).

Definition client_ok (s : state) (c : client) : bool :=
  in_chain s (c_mem c) &&
  match c_init c with INot => true | IRunning _ => false | IDone => size (c_mem c) <=? size (s_cfg s) end.

Definition all_done (s : state) : bool :=
  forallb (fun th => match t_pc th with PDone => true | _ => false end) (s_threads s).

Definition final_ok (s : state) : bool :=
  in_chain s (s_cfg s) && forallb (thread_ok s) (s_threads s) && forallb (client_ok s) (s_clients s)
  && forallb (fun kv => in_chain s (Some (snd kv))) (s_cache s).
