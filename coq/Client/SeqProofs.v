(* Client/SeqProofs.v — basic facts about the sequential client model (Client/Seq.v):
   the GONOSUMDB short cut, memoisation (parCache) and the compare-and-swap of WriteConfig. *)
From Verif.Base Require Import Bytes.
From Verif.Tlog Require Import Index Tree Codec Tile TileReader.
From Verif.Note Require Import Note.
From Verif.Client Require Import Seq.

Section Basic.
Variable sha : str -> str.
Variable leaf_hash : str -> hash.
Variable node_hash : hash -> hash -> hash.
Variable V : str -> str -> str -> bool.
Variable esc_path esc_vers : str -> option str.
Variable skip : str -> bool.

Notation lookup := (lookup sha leaf_hash node_hash V esc_path esc_vers skip).

(* a path listed in GONOSUMDB: no ClientOps call at all, nothing changes *)
Lemma lookup_skip_no_ops w c path vers :
  skip path = true -> lookup w c path vers = (LSkip, [], w, c).
Proof.
  intros Hs. unfold Seq.lookup, lookup_m. rewrite Hs. reflexivity.
Qed.

(* a second lookup of the same module version by an initialised client does no I/O
   (parCache memoisation), whatever the memoised result was *)
Lemma lookup_memo_no_ops w c path vers epath evers r :
  skip path = false ->
  c_init c = Some None ->
  esc_path path = Some epath ->
  esc_vers (trim_suffix vers go_mod_suffix) = Some evers ->
  rec_find (c_name c ++ B "/lookup/" ++ epath ++ [64] ++ evers) (c_records c) = Some r ->
  exists res, lookup w c path vers = (res, [], w, c) /\
              res = match r with RErr e => LErr e | ROk d => LOk (result_lines path vers d) end.
Proof.
  intros Hs Hi Hp Hv Hr.
  unfold Seq.lookup, lookup_m. rewrite Hs.
  unfold client_init, record_do, bindM, get_client, ret.
  cbn [s_c s_w s_tr]. rewrite Hi. rewrite Hp, Hv. cbn [s_c s_w s_tr]. rewrite Hr.
  destruct r; eexists; split; reflexivity.
Qed.

(* an initialisation error is memoised: no I/O, same error *)
Lemma lookup_init_error_memo w c path vers e :
  skip path = false -> c_init c = Some (Some e) ->
  lookup w c path vers = (LErr e, [], w, c).
Proof.
  intros Hs Hi. unfold Seq.lookup, lookup_m. rewrite Hs.
  unfold client_init, bindM, get_client, ret. cbn [s_c s_w s_tr]. rewrite Hi. reflexivity.
Qed.
End Basic.

(* WriteConfig is a compare-and-swap on the stored file (after a possible interference) *)
Lemma write_config_cas f old new s :
  let cfg1 := match w_interf (s_w s) with Some x :: _ => assoc_set f x (w_config (s_w s)) | _ => w_config (s_w s) end in
  let cur := match assoc f cfg1 with Some d => d | None => [] end in
  fst (write_config f old new s) = str_eqb old cur /\
  w_config (s_w (snd (write_config f old new s))) = (if str_eqb old cur then assoc_set f new cfg1 else cfg1) /\
  s_tr (snd (write_config f old new s)) = s_tr s ++ [EvWriteConfig f old new (str_eqb old cur)].
Proof.
  cbn. unfold write_config, bindM, get_world, set_world, emit, ret; cbn. auto.
Qed.
