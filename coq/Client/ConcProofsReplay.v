(* C14 — proofs, part 4: the trace replay used by the correspondence run only produces states
   of runs of the LTS, so everything proved about all runs holds for every replayed trace. *)
From Verif.Base Require Import Bytes.
From Verif.Module Require Import Match.
From Verif.Client Require Import Conc ConcProofs.

Lemma run_single a s : run [a] s = fst (do_act s a).
Proof. now rewrite run_cons. Qed.

Lemma step_run s t s' l : step s t = Some (s', l) -> run [AThread t] s = s'.
Proof. intros H. unfold run; cbn. rewrite H. destruct l; reflexivity. Qed.

Lemma advance_run g f s t : exists sched, advance g f s t = run sched s.
Proof.
  revert s; induction f as [|f IH]; intros s; cbn; [exists []; reflexivity|].
  destruct (nth_error (s_threads s) t) as [th|]; [|exists []; reflexivity].
  destruct (is_op (t_pc th) || negb g && is_gate (t_pc th)); [exists []; reflexivity|].
  destruct (step s t) as [[s' l]|] eqn:E; [|exists []; reflexivity].
  destruct (IH s') as (sched & ->). exists (AThread t :: sched).
  rewrite run_cons, <- run_single. f_equal. symmetry. eapply step_run; eauto.
Qed.

Lemma run_on_run stop f s t : exists sched, run_on stop f s t = run sched s.
Proof.
  revert s; induction f as [|f IH]; intros s; cbn; [exists []; reflexivity|].
  destruct (nth_error (s_threads s) t) as [th|]; [|exists []; reflexivity].
  match goal with |- context [if ?b then _ else _] => destruct b end; [exists []; reflexivity|].
  destruct (step s t) as [[s' l]|] eqn:E; [|exists []; reflexivity].
  destruct (IH s') as (sched & ->). exists (AThread t :: sched).
  rewrite run_cons, <- run_single. f_equal. symmetry. eapply step_run; eauto.
Qed.

Lemma replay_run tr : forall k s s', replay k tr s = inl s' -> exists sched, s' = run sched s.
Proof.
  induction tr as [|o tr IH]; intros k s s' H; cbn [replay] in H.
  - injection H as <-. exists []. reflexivity.
  - destruct o as [|t l|t x].
    + destruct (grow s) as [s1|] eqn:E; [|discriminate].
      destruct (IH _ _ _ H) as (sched & ->). exists (AGrow :: sched).
      rewrite run_cons. cbn. now rewrite E.
    + destruct (advance_run true adv_fuel s t) as (sc1 & E1). rewrite E1 in H.
      destruct (step (run sc1 s) t) as [[s2 l']|] eqn:E2; [|discriminate].
      destruct (label_eqb l l'); [|destruct (label_kind_eqb l l'); discriminate].
      destruct (run_on_run (next_site t tr) adv_fuel s2 t) as (sc3 & E3). rewrite E3 in H.
      destruct (IH _ _ _ H) as (sched & ->).
      exists (sc1 ++ [AThread t] ++ sc3 ++ sched).
      rewrite !run_app. now rewrite (step_run _ _ _ _ E2).
    + destruct (nth_error (s_threads s) t) as [th|]; [|discriminate].
      destruct (at_site x (t_pc th)); [|discriminate].
      destruct (step s t) as [[s2 l']|] eqn:E2; [|discriminate].
      destruct (run_on_run (next_site t tr) adv_fuel s2 t) as (sc3 & E3). rewrite E3 in H.
      destruct (IH _ _ _ H) as (sched & ->).
      exists ([AThread t] ++ sc3 ++ sched).
      rewrite !run_app. now rewrite (step_run _ _ _ _ E2).
Qed.

Lemma advance_all_run ts s : exists sched, advance_all ts s = run sched s.
Proof.
  revert s; induction ts as [|t ts IH]; intros s; cbn [advance_all]; [exists []; reflexivity|].
  destruct (advance_run true adv_fuel s t) as (sc1 & ->).
  destruct (IH (run sc1 s)) as (sc2 & ->). exists (sc1 ++ sc2). now rewrite run_app.
Qed.

Lemma finish_run n s : exists sched, finish n s = run sched s.
Proof.
  revert s; induction n as [|n IH]; intros s; cbn [finish]; [exists []; reflexivity|].
  destruct (advance_all_run (seq 0 (length (s_threads s))) s) as (sc1 & ->).
  destruct (IH (run sc1 s)) as (sc2 & ->). exists (sc1 ++ sc2). now rewrite run_app.
Qed.

(* an accepted trace ends in a state of a run of the LTS, hence in a state satisfying Inv *)
Theorem replay_sound k tr n s s' :
  Inv s -> replay k tr s = inl s' -> exists sched, finish n s' = run sched s /\ Inv (finish n s').
Proof.
  intros HI H. destruct (replay_run _ _ _ _ H) as (sc1 & ->).
  destruct (finish_run n (run sc1 s)) as (sc2 & E). exists (sc1 ++ sc2).
  rewrite run_app, <- E. split; auto. rewrite E, <- run_app. now apply run_inv.
Qed.

(* ---- what never changes: the chain, and which lookup a thread runs ------------------------------ *)
Definition same_static (s0 s : state) : Prop :=
  s_chain s = s_chain s0 /\
  (forall t th0, nth_error (s_threads s0) t = Some th0 ->
     exists th, nth_error (s_threads s) t = Some th /\ t_cl th = t_cl th0 /\
                t_path th = t_path th0 /\ t_key th = t_key th0) /\
  (forall ci c0, nth_error (s_clients s0) ci = Some c0 ->
     exists c, nth_error (s_clients s) ci = Some c /\ c_nosumdb c = c_nosumdb c0).

Lemma same_static_refl s : same_static s s.
Proof. repeat split; eauto. Qed.

Lemma same_static_trans a b c : same_static a b -> same_static b c -> same_static a c.
Proof.
  intros (H1 & H2 & H3) (H4 & H5 & H6). split; [congruence|split].
  - intros t th0 Ht. destruct (H2 _ _ Ht) as (th1 & Ht1 & E1 & E2 & E3).
    destruct (H5 _ _ Ht1) as (th2 & Ht2 & E4 & E5 & E6). exists th2. repeat split; congruence.
  - intros ci c0 Hc. destruct (H3 _ _ Hc) as (c1 & Hc1 & E1).
    destruct (H6 _ _ Hc1) as (c2 & Hc2 & E2). exists c2. split; congruence.
Qed.

Lemma step_same_static s t s' l : step s t = Some (s', l) -> same_static s s'.
Proof.
  unfold step. intros H.
  destruct (nth_error (s_threads s) t) as [th|] eqn:Ht; [|discriminate].
  destruct (nth_error (s_clients s) (t_cl th)) as [c|] eqn:Hc; [|discriminate].
  destruct (step_at t th c (s_cfg s) (s_cache s) (nth_error (s_chain s) (s_cur s)))
    as [[[[[th' c'] cfg'] cache'] l']|] eqn:Hs; [|discriminate].
  injection H as <- <-.
  destruct (step_at_static _ _ _ _ _ _ _ _ _ _ _ Hs) as (Hcl & Hkey & Hpath & Hns).
  split; [reflexivity|split]; cbn.
  - intros t2 th2 Ht2. destruct (Nat.eq_dec t t2) as [<-|Hne].
    + exists th'. rewrite nth_upd_eq by (eapply nth_some_lt; eauto).
      rewrite Ht in Ht2. injection Ht2 as <-. auto.
    + exists th2. rewrite nth_upd_ne by auto. auto.
  - intros ci c2 Hc2. destruct (Nat.eq_dec (t_cl th) ci) as [<-|Hne].
    + exists c'. rewrite nth_upd_eq by (eapply nth_some_lt; eauto).
      rewrite Hc in Hc2. injection Hc2 as <-. auto.
    + exists c2. rewrite nth_upd_ne by auto. auto.
Qed.

Lemma run_same_static sched s : same_static s (run sched s).
Proof.
  revert s; induction sched as [|a r IH]; intros s; [apply same_static_refl|].
  rewrite run_cons. eapply same_static_trans; [|apply IH].
  destruct a as [t|]; cbn.
  - destruct (step s t) as [[s' l]|] eqn:E; cbn; [|apply same_static_refl].
    assert (same_static s s') by (eapply step_same_static; eauto). destruct l; auto.
  - unfold grow. destruct (Nat.ltb _ _); cbn; repeat split; eauto.
Qed.

(* a lookup whose path matches its client's pattern list, in an initial state *)
Lemma init_skipping chain cur cfg cache nos lks t ci path key globs :
  nth_error lks t = Some (ci, path, key) -> nth_error nos ci = Some globs ->
  match_prefix_patterns globs path = true ->
  skipping (init_state chain cur cfg cache nos lks) t.
Proof.
  intros Hl Hn Hm. exists (new_thread ci path key), (new_client globs). cbn.
  repeat split.
  - now rewrite (map_nth_error _ _ _ Hl).
  - now rewrite (map_nth_error _ _ _ Hn).
  - exact Hm.
Qed.
