(* Client/SeqProofsOrderHist.v — C13 over histories: the heads a client installs form a chain,
   the heads stored in the configuration form a chain, and — as long as no lookup both moved
   its client's head and failed — every installed head is a prefix of the stored head, so all
   accepted heads are pairwise comparable (totally ordered by Consistent), up to an explicit
   collision of the node hash.

   NodeAt / tile_ok are the C10 predicates (Tlog/TileSpec.v); the order facts are
   Client/SeqProofsOrder.v's.  "No foreign writer": w_interf = [] (every writer of the
   configuration is a client of the history).

   Why the condition on failing lookups is needed (and is not an artefact of the proof):
   mergeLatest installs the presented head in memory FIRST (mergeLatestMem, checked only against
   the client's own head) and compares with the configuration afterwards.  A long-lived client
   whose head is behind the stored one (another client advanced it) therefore installs a head that
   forks from the stored head, then detects the fork (ErrSecurity, or a plain error if the tiles
   needed for the comparison are not served) — and keeps the forked head in memory. *)
From Verif.Base Require Import Bytes.
From Verif.Tlog Require Import Index Tree Codec Tile TileReader TileSpec.
From Verif.Note Require Import Note.
From Verif.Client Require Import Seq SeqProofs SeqProofsTile SeqProofsSafe SeqProofsTop SeqProofsInst SeqProofsOrder.

Section Hist.
Variable sha : str -> str.
Variable leaf_hash : str -> hash.
Variable node_hash : hash -> hash -> hash.
Variable V : str -> str -> str -> bool.
Variable esc_path esc_vers : str -> option str.
Variable skip : str -> bool.
Variable vs : verifiers str.
Variable name : str.
Hypothesis signed_small : forall msg t, signed_tree V vs msg t -> Codec.tN t < 2 ^ 62.

Notation NodeAt := (TileSpec.NodeAt node_hash).
Notation tile_ok := (TileSpec.tile_ok node_hash).
Notation CInv := (CInv leaf_hash V NodeAt vs name).
Notation ClientInv := (ClientInv leaf_hash V NodeAt vs name).
Notation Consistent := (Consistent node_hash NodeAt).
Notation Before := (Before node_hash).
Notation Comparable := (Comparable node_hash).
Notation coll := (coll node_hash).
Notation signed_tree := (signed_tree V vs).
Notation key_ok := (key_ok sha vs name).
Notation lookup := (Seq.lookup sha leaf_hash node_hash V esc_path esc_vers skip).
Notation run := (run sha leaf_hash node_hash V esc_path esc_vers skip).

Let mlm_spec := merge_latest_mem_spec sha leaf_hash node_hash V esc_path esc_vers skip NodeAt tile_ok
                  (c10_tiles_sound node_hash) (c10_saved_authenticated node_hash) vs name signed_small.
Let ml_spec := merge_latest_spec sha leaf_hash node_hash V esc_path esc_vers skip NodeAt tile_ok
                  (c10_tiles_sound node_hash) (c10_saved_authenticated node_hash) vs name signed_small.
Let cr_spec := check_record_st_spec sha leaf_hash node_hash V esc_path esc_vers skip NodeAt tile_ok
                  (c10_tiles_sound node_hash) (c10_saved_authenticated node_hash) vs name signed_small.
Let lm_spec := lookup_m_spec sha leaf_hash node_hash V esc_path esc_vers skip NodeAt tile_ok
                  (c10_tiles_sound node_hash) (c10_saved_authenticated node_hash) vs name signed_small.
Let rc_spec := read_config_spec leaf_hash node_hash V NodeAt tile_ok vs name.
Let tf_cinv := tframe_cinv leaf_hash V NodeAt vs name.
Let rs_safe := run_safe sha leaf_hash node_hash V esc_path esc_vers skip NodeAt tile_ok
                  (c10_tiles_sound node_hash) (c10_saved_authenticated node_hash) vs name signed_small.

(* ---- the vocabulary ---------------------------------------------------------------------------- *)

(* the stored head: the content of <name>/latest *)
Definition cfg_msg (w : world) : option str := assoc (latest_file name) (w_config w).

(* A is the stored head or a strictly smaller prefix of it *)
Definition BeforeCfg (A : tree) (w : world) : Prop :=
  exists msg Y, cfg_msg w = Some msg /\ signed_tree msg Y /\ Before A Y.

(* the stored head only moves forward: whatever was before it stays before it *)
Definition CfgMono (w w' : world) : Prop :=
  forall A, BeforeCfg A w -> BeforeCfg A w' \/ coll.

(* the client's head is empty or before the stored head *)
Definition InvC (c : client) (w : world) : Prop :=
  Codec.tN (c_latest c) <= 0 \/ BeforeCfg (c_latest c) w.

(* how a client's head moves *)
Definition HeadStep (L L' : tree) : Prop :=
  L' = L \/ coll \/ Codec.tN L <= 0 \/ (Before L L' /\ Codec.tN L' <= 2 ^ 62).

Lemma headstep_trans L1 L2 L3 : HeadStep L1 L2 -> HeadStep L2 L3 -> HeadStep L1 L3.
Proof.
  intros [->|[C|[H0|[B1 S1]]]] H23; auto.
  - right. left. exact C.
  - right. right. left. exact H0.
  - destruct H23 as [->|[C|[H0|[B2 S2]]]].
    + right. right. right. auto.
    + right. left. exact C.
    + right. right. left. pose proof (before_le _ _ _ B1). lia.
    + destruct (before_trans node_hash _ _ _ B1 B2 S2) as [B|C]; [right; right; right; auto | right; left; exact C].
Qed.

Lemma cfgmono_refl w : CfgMono w w.
Proof. intros A H. left. exact H. Qed.

Lemma cfgmono_trans w1 w2 w3 : CfgMono w1 w2 -> CfgMono w2 w3 -> CfgMono w1 w3.
Proof. intros H1 H2 A HA. destruct (H1 A HA) as [H|C]; [apply H2; exact H | right; exact C]. Qed.

(* what a piece of a lookup does to the head and the stored head; ok = "it did not fail" *)
Record sstep (ok : Prop) (s s' : state) : Prop := mkSstep {
  ss_interf : w_interf (s_w s) = [] -> w_interf (s_w s') = [];
  ss_cfg : w_interf (s_w s) = [] -> CfgMono (s_w s) (s_w s');
  ss_head : HeadStep (c_latest (s_c s)) (c_latest (s_c s'));
  ss_mono : Codec.tN (c_latest (s_c s)) <= Codec.tN (c_latest (s_c s'));
  ss_keep : w_interf (s_w s) = [] ->
            ok \/ Codec.tN (c_latest (s_c s')) = Codec.tN (c_latest (s_c s)) ->
            InvC (s_c s) (s_w s) -> InvC (s_c s') (s_w s') \/ coll
}.

Lemma sstep_same ok s s' :
  c_latest (s_c s') = c_latest (s_c s) -> w_config (s_w s') = w_config (s_w s) ->
  w_interf (s_w s') = w_interf (s_w s) -> sstep ok s s'.
Proof.
  intros HL HC HI. constructor.
  - intros H. rewrite HI. exact H.
  - intros _ A (msg & Y & H1 & H2 & H3). left. exists msg, Y. unfold cfg_msg in *. rewrite HC. auto.
  - left. exact HL.
  - rewrite HL. lia.
  - intros _ _ [H|(msg & Y & H1 & H2 & H3)]; left; [left; rewrite HL; exact H|].
    right. exists msg, Y. unfold cfg_msg in *. rewrite HC, HL. auto.
Qed.

Lemma sstep_refl ok s : sstep ok s s.
Proof. apply sstep_same; reflexivity. Qed.

Lemma sstep_tframe ok s s' : tframe s s' -> sstep ok s s'.
Proof. intros F. apply sstep_same; apply F. Qed.

Lemma sstep_trans (ok ok1 ok2 : Prop) s1 s2 s3 :
  (ok -> ok1 /\ ok2) -> sstep ok1 s1 s2 -> sstep ok2 s2 s3 -> sstep ok s1 s3.
Proof.
  intros Hok [I1 C1 H1 M1 K1] [I2 C2 H2 M2 K2]. constructor.
  - auto.
  - intros Hi. eapply cfgmono_trans; eauto.
  - eapply headstep_trans; eauto.
  - lia.
  - intros Hi Hc Hinv.
    assert (Hc1 : ok1 \/ Codec.tN (c_latest (s_c s2)) = Codec.tN (c_latest (s_c s1))).
    { destruct Hc as [Ho|He]; [left; apply Hok; exact Ho | right; lia]. }
    assert (Hc2 : ok2 \/ Codec.tN (c_latest (s_c s3)) = Codec.tN (c_latest (s_c s2))).
    { destruct Hc as [Ho|He]; [left; apply Hok; exact Ho | right; lia]. }
    destruct (K1 Hi Hc1 Hinv) as [Hinv2|C]; [|right; exact C].
    exact (K2 (I1 Hi) Hc2 Hinv2).
Qed.

Lemma sstep_weaken (ok ok' : Prop) s s' : (ok -> ok') -> sstep ok' s s' -> sstep ok s s'.
Proof.
  intros Hok [I C H M K]. constructor; auto. intros Hi [Ho|He]; apply K; auto.
Qed.

(* ---- the configuration without a foreign writer ------------------------------------------------- *)

Lemma assoc_set_same k v l : assoc k (assoc_set k v l) = Some v.
Proof.
  induction l as [|[a b] l IH]; cbn.
  - rewrite str_eqb_refl. reflexivity.
  - destruct (str_eqb k a) eqn:E; cbn; [rewrite str_eqb_refl; reflexivity | rewrite E; exact IH].
Qed.

Lemma write_config_alone f old new s :
  w_interf (s_w s) = [] -> assoc f (w_config (s_w s)) = Some old ->
  write_config f old new s =
  (true, mkState (mkWorld (w_remote (s_w s)) (w_reads (s_w s)) (w_cache (s_w s))
                          (assoc_set f new (w_config (s_w s))) [])
                 (s_c s) (s_tr s ++ [EvWriteConfig f old new true])).
Proof.
  intros Hi Ha. unfold write_config, bindM, get_world, set_world, emit, ret; cbn.
  rewrite Hi, Ha, str_eqb_refl. reflexivity.
Qed.

Lemma merge_latest_mem_nil_now s s' :
  merge_latest_mem node_hash V [] s = (inl MsgNow, s') -> Codec.tN (c_latest (s_c s)) = 0.
Proof.
  unfold merge_latest_mem, bindM, get_client, ret. cbn.
  destruct (Codec.tN (c_latest (s_c s)) =? 0) eqn:E; intros H; [apply Z.eqb_eq; exact E | discriminate].
Qed.

Lemma cinv_signed c : CInv c -> 0 < Codec.tN (c_latest c) -> signed_tree (c_latest_msg c) (c_latest c).
Proof. intros HI Hpos. destruct (ci_head _ _ _ _ _ _ HI) as [[_ H0]|Hs]; [lia | exact Hs]. Qed.

Lemma cinv_range c : CInv c -> 0 <= Codec.tN (c_latest c) < 2 ^ 62.
Proof. intros HI. eapply head_ok_range; [exact signed_small | apply (ci_head _ _ _ _ _ _ HI)]. Qed.

(* ---- mergeLatest ---------------------------------------------------------------------------------- *)

Lemma merge_latest_mem_sstep msg s r s' :
  CInv (s_c s) -> merge_latest_mem node_hash V msg s = (r, s') ->
  HeadStep (c_latest (s_c s)) (c_latest (s_c s')) /\
  Codec.tN (c_latest (s_c s)) <= Codec.tN (c_latest (s_c s')).
Proof.
  intros HI H. apply mlm_spec in H as (HI' & _ & _ & _ & Hr); [|exact HI].
  destruct r as [w|e].
  - destruct Hr as (_ & Hm & Hsame). destruct w.
    + destruct (Hsame ltac:(discriminate)) as [-> _]. split; [left; reflexivity | lia].
    + destruct (Hsame ltac:(discriminate)) as [-> _]. split; [left; reflexivity | lia].
    + cbn in Hm. destruct Hm as (_ & _ & Hs & Hlt & Hc). split; [|lia].
      right. right. right. split; [right; auto|]. pose proof (signed_small _ _ Hs). lia.
  - destruct Hr as ([-> _] & _). split; [left; reflexivity | lia].
Qed.

Theorem merge_latest_sstep msg s r s' :
  CInv (s_c s) -> merge_latest node_hash V msg s = (r, s') -> sstep (r = None) s s'.
Proof.
  intros HI H. unfold merge_latest in H. minva H a s1 E1.
  assert (Hstep1 := merge_latest_mem_sstep _ _ _ _ HI E1).
  destruct (mlm_spec _ _ _ _ HI E1) as (HI1 & _ & [Cc1 Ci1] & _ & Hr1).
  assert (Hquiet : forall r0, a <> inl MsgFuture -> (r0, s1) = (r, s') -> sstep (r = None) s s').
  { intros r0 Hne [= _ <-]. apply sstep_same; auto.
    destruct a as [w|e]; [destruct Hr1 as (_ & _ & Hsame); destruct w; try congruence; apply Hsame; discriminate
                         | destruct Hr1 as ([? _] & _); assumption]. }
  destruct a as [w|e]; [|apply ret_inv in H as [-> ->]; eapply Hquiet; [discriminate | reflexivity]].
  destruct w; try (apply ret_inv in H as [-> ->]; eapply Hquiet; [discriminate | reflexivity]).
  clear Hquiet.
  (* the head moved to the presented tree T; now the stored head is consulted *)
  destruct Hr1 as (_ & Hm1 & _). cbn in Hm1. destruct Hm1 as (Hnn & Emsg & HsT & HltT & HcT).
  set (X := c_latest (s_c s)) in *. set (T := c_latest (s_c s1)) in *.
  pose proof (cinv_range _ HI) as HXr. fold X in HXr.
  minva H w0 s1' Ew. unfold get_world in Ew. inversion Ew; subst w0 s1'; clear Ew.
  cbn [merge_loop] in H.
  minva H c0 s1' Ec. unfold get_client in Ec. inversion Ec; subst c0 s1'; clear Ec.
  minva H d s2 E2. apply rc_spec in E2 as (F2 & _ & Hd).
  rewrite (ci_name _ _ _ _ _ _ HI1) in Hd.
  assert (HI2 := tf_cinv _ _ F2 HI1).
  assert (HT2 : c_latest (s_c s2) = T) by apply (tf_latest _ _ F2).
  assert (Hcfg2 : w_config (s_w s2) = w_config (s_w s)) by (rewrite (tf_config _ _ F2); exact Cc1).
  assert (Hint2 : w_interf (s_w s2) = w_interf (s_w s)) by (rewrite (tf_interf _ _ F2); exact Ci1).
  assert (HXT : HeadStep X T) by apply Hstep1.
  assert (Hfail : forall e, c_latest (s_c s') = T -> w_config (s_w s') = w_config (s_w s) ->
                            w_interf (s_w s') = w_interf (s_w s) -> r = Some e -> sstep (r = None) s s').
  { intros e HL HC HIi ->. constructor.
    - intros Hi. rewrite HIi. exact Hi.
    - intros _ A (m & Y & H1 & H2 & H3). left. exists m, Y. unfold cfg_msg in *. rewrite HC. auto.
    - rewrite HL. exact HXT.
    - rewrite HL. fold X. lia.
    - intros _ [Hn|He]; [discriminate|]. rewrite HL in He. fold X in He. lia. }
  destruct d as [cmsg|].
  2: { apply ret_inv in H as [-> ->]. eapply Hfail; eauto. }
  minva H a2 s3 E3.
  assert (Hstep3 := merge_latest_mem_sstep _ _ _ _ HI2 E3).
  destruct (mlm_spec _ _ _ _ HI2 E3) as (HI3 & F3 & [Cc3 Ci3] & _ & Hr3).
  destruct a2 as [w|e].
  2: { apply ret_inv in H as [-> ->]. destruct Hr3 as ([HL _] & _).
       eapply Hfail; eauto; congruence. }
  destruct Hr3 as (_ & Hm3 & Hsame3). rewrite HT2 in Hm3.
  assert (Hcmsg : cfg_msg (s_w s) = Some cmsg) by (unfold cfg_msg; rewrite <- Cc1; symmetry; exact Hd).
  assert (HTr : Codec.tN T <= 2 ^ 62) by (pose proof (signed_small _ _ HsT); lia).
  destruct w.
  - (* the stored head is older: write ours over it *)
    cbn in Hm3. destruct Hm3 as (HL3 & Hpos & Hpast).
    destruct (Hsame3 ltac:(discriminate)) as [_ Hmsg3].
    minva H c3 s3' Ec. unfold get_client in Ec. inversion Ec; subst c3 s3'; clear Ec.
    minva H ok s4 E4.
    assert (Hsig3 : signed_tree (c_latest_msg (s_c s3)) T).
    { rewrite <- HL3. apply cinv_signed; [exact HI3 | rewrite HL3; exact Hpos]. }
    destruct (w_interf (s_w s)) as [|i0 ir] eqn:Hi.
    + (* no foreign writer: the compare-and-swap succeeds *)
      rewrite write_config_alone in E4.
      2: { rewrite Ci3, Hint2. reflexivity. }
      2: { rewrite (mf_name _ _ F3), (ci_name _ _ _ _ _ _ HI2), Cc3, Hcfg2. exact Hcmsg. }
      inversion E4; subst ok s4; clear E4. apply ret_inv in H as [-> ->]. cbn [s_w s_c w_interf w_config].
      assert (Hnew : cfg_msg {| w_remote := w_remote (s_w s3); w_reads := w_reads (s_w s3); w_cache := w_cache (s_w s3);
                                w_config := assoc_set (latest_file (c_name (s_c s3))) (c_latest_msg (s_c s3)) (w_config (s_w s3));
                                w_interf := [] |} = Some (c_latest_msg (s_c s3))).
      { unfold cfg_msg. cbn [w_config]. rewrite (mf_name _ _ F3), (ci_name _ _ _ _ _ _ HI2). apply assoc_set_same. }
      constructor; cbn [s_w s_c w_interf w_config].
      * reflexivity.
      * intros _ A (m & Y & H1 & H2 & H3). rewrite Hcmsg in H1. injection H1 as <-.
        destruct Hpast as [->|(t & Ht & Hlt & Hc)]; [exfalso; eapply signed_tree_nonnil; eauto|].
        rewrite (signed_tree_fun _ _ _ _ _ H2 Ht) in H3.
        destruct (before_trans node_hash A t T H3 ltac:(right; auto) HTr) as [B|C]; [left | right; exact C].
        exists (c_latest_msg (s_c s3)), T. auto.
      * rewrite HL3. exact HXT.
      * rewrite HL3. fold X. lia.
      * intros _ _ _. left. right. exists (c_latest_msg (s_c s3)), T. rewrite HL3.
        split; [exact Hnew|]. split; [exact Hsig3 | apply before_refl].
    + (* a foreign writer exists: only the head facts *)
      assert (Hheads : HeadStep X (c_latest (s_c s')) /\ Codec.tN X <= Codec.tN (c_latest (s_c s'))).
      { apply write_config_spec in E4 as (Hc4 & _).
        assert (HI4 : CInv (s_c s4)) by (rewrite Hc4; exact HI3).
        assert (HL4 : c_latest (s_c s4) = T) by (rewrite Hc4; exact HL3).
        destruct ok.
        - apply ret_inv in H as [-> ->]. rewrite HL4. split; [exact HXT | lia].
        - revert H HI4 HL4. generalize s4. generalize (length (w_interf (s_w s1))).
          induction n as [|n IHn]; intros s5 H HI5 HL5.
          + cbn in H. apply ret_inv in H as [-> ->]. rewrite HL5. split; [exact HXT | lia].
          + cbn [merge_loop] in H.
            minva H c0 s5' Ec. unfold get_client in Ec. inversion Ec; subst c0 s5'; clear Ec.
            minva H d s6 E6. apply rc_spec in E6 as (F6 & _ & _).
            assert (HI6 := tf_cinv _ _ F6 HI5).
            assert (HL6 : c_latest (s_c s6) = T) by (rewrite (tf_latest _ _ F6); exact HL5).
            destruct d as [m|]; [|apply ret_inv in H as [-> ->]; rewrite HL6; split; [exact HXT | lia]].
            minva H a7 s7 E7.
            destruct (merge_latest_mem_sstep _ _ _ _ HI6 E7) as [Hh7 Hm7]. rewrite HL6 in Hh7, Hm7.
            destruct (mlm_spec _ _ _ _ HI6 E7) as (HI7 & _ & _ & _ & Hr7).
            assert (Hdone : forall r0, (r0, s7) = (r, s') ->
                      HeadStep X (c_latest (s_c s')) /\ Codec.tN X <= Codec.tN (c_latest (s_c s'))).
            { intros r0 [= _ <-]. split; [eapply headstep_trans; eauto | lia]. }
            destruct a7 as [w7|e7]; [|apply ret_inv in H as [-> ->]; eapply Hdone; reflexivity].
            destruct w7; try (apply ret_inv in H as [-> ->]; eapply Hdone; reflexivity).
            destruct Hr7 as (_ & _ & Hsame7). destruct (Hsame7 ltac:(discriminate)) as [HL7 _].
            minva H c7 s7' Ec. unfold get_client in Ec. inversion Ec; subst c7 s7'; clear Ec.
            minva H ok8 s8 E8. apply write_config_spec in E8 as (Hc8 & _).
            destruct ok8.
            * apply ret_inv in H as [-> ->]. rewrite Hc8, HL7, HL6. split; [exact HXT | lia].
            * eapply IHn; [exact H | rewrite Hc8; exact HI7 | rewrite Hc8, HL7; exact HL6]. }
      destruct Hheads as [Hh Hm]. constructor; try (intros Hx; rewrite Hi in Hx; discriminate Hx); assumption.
  - (* the stored head equals ours *)
    apply ret_inv in H as [-> ->]. cbn in Hm3. destruct Hm3 as (HL3 & Hnow).
    destruct (Hsame3 ltac:(discriminate)) as [_ Hmsg3].
    constructor.
    + intros Hi. rewrite Ci3, Hint2. exact Hi.
    + intros _ A (m & Y & H1 & H2 & H3). left. exists m, Y. unfold cfg_msg in *. rewrite Cc3, Hcfg2. auto.
    + rewrite HL3. exact HXT.
    + rewrite HL3. fold X. lia.
    + intros _ _ _. destruct Hnow as [->|(t & Ht & Heq & Hc)].
      { apply merge_latest_mem_nil_now in E3. rewrite HT2 in E3. lia. }
      destruct (consistent_same_size node_hash t T Hc Heq ltac:(lia)) as [EH|C]; [left | right; exact C].
      right. exists cmsg, t. split; [unfold cfg_msg in *; rewrite Cc3, Hcfg2; exact Hcmsg|].
      split; [exact Ht|]. left. rewrite HL3. symmetry. apply tree_ext; assumption.
  - (* the stored head is newer: it is installed *)
    apply ret_inv in H as [-> ->]. cbn in Hm3. destruct Hm3 as (_ & Emsg3 & HsY & HltY & HcY).
    constructor.
    + intros Hi. rewrite Ci3, Hint2. exact Hi.
    + intros _ A (m & Y & H1 & H2 & H3). left. exists m, Y. unfold cfg_msg in *. rewrite Cc3, Hcfg2. auto.
    + destruct Hstep3 as [Hh _]. rewrite HT2 in Hh. eapply headstep_trans; [exact HXT | exact Hh].
    + destruct Hstep3 as [_ Hm]. rewrite HT2 in Hm. fold X. lia.
    + intros _ _ _. left. right. exists cmsg, (c_latest (s_c s3)).
      split; [unfold cfg_msg in *; rewrite Cc3, Hcfg2; exact Hcmsg|].
      split; [exact HsY | apply before_refl].
Qed.

(* ---- the rest of Lookup ------------------------------------------------------------------------------ *)

Let iw_spec := init_work_spec sha leaf_hash node_hash V esc_path esc_vers skip NodeAt tile_ok
                  (c10_tiles_sound node_hash) (c10_saved_authenticated node_hash) vs name signed_small.

Lemma tl_tframe s s' : tl s s' -> tframe s s'.
Proof. intros []; assumption. Qed.

Lemma record_work_sstep file rp s r s' :
  CInv (s_c s) -> record_work leaf_hash node_hash V file rp s = (r, s') ->
  sstep (forall e, r <> RErr e) s s'.
Proof.
  intros HI H. unfold record_work in H.
  minva H d sa Ea. apply read_cache_spec in Ea. apply tl_tframe in Ea.
  minva H dw sb Eb.
  assert (Fb : tframe s sb).
  { destruct d as [data|].
    - apply ret_inv in Eb as [_ ->]. exact Ea.
    - minva Eb rr sr Er. apply read_remote_spec in Er. apply tl_tframe in Er.
      assert (sb = sr) by (destruct rr; apply ret_inv in Eb as [_ ->]; reflexivity). subst sr.
      eapply tframe_trans; eauto. }
  clear Eb Ea. assert (HIb := tf_cinv _ _ Fb HI).
  destruct dw as [[data write]|]; [|apply ret_inv in H as [-> ->]; apply sstep_tframe; exact Fb].
  destruct (parse_record data) as [[[id text] tree_msg]|k|];
    try (apply ret_inv in H as [-> ->]; apply sstep_tframe; exact Fb).
  minva H e1 sc Ec.
  assert (Sc := merge_latest_sstep _ _ _ _ HIb Ec).
  destruct (ml_spec _ _ _ _ HIb Ec) as ((HIc & _) & _).
  assert (Sbc : sstep (e1 = None) s sc).
  { eapply sstep_trans; [|apply (sstep_tframe True); exact Fb | exact Sc]. auto. }
  destruct e1 as [err|].
  { apply ret_inv in H as [-> ->]. eapply sstep_weaken; [|exact Sbc]. intros Hno. exfalso. eapply Hno; reflexivity. }
  minva H e2 sd Ed. destruct (cr_spec _ _ _ _ _ HIc Ed) as (Fd & _).
  assert (Sd : sstep True s sd).
  { eapply sstep_trans; [|exact Sbc | apply (sstep_tframe True); exact Fd]. auto. }
  destruct e2 as [err|].
  { apply ret_inv in H as [-> ->]. eapply sstep_weaken; [|exact Sd]. auto. }
  minva H u se Ee. apply ret_inv in H as [-> ->].
  assert (Fe : tframe sd se).
  { destruct write; [apply write_cache_spec in Ee as [F _]; exact F | apply ret_inv in Ee as [_ ->]; apply tframe_refl]. }
  apply (sstep_weaken _ True); [auto|].
  apply (sstep_trans True True True _ sd); [auto | exact Sd | apply sstep_tframe; exact Fe].
Qed.

Lemma record_do_sstep file rp s r s' :
  CInv (s_c s) -> record_do leaf_hash node_hash V file rp s = (r, s') ->
  sstep (forall e, r <> RErr e) s s'.
Proof.
  intros HI H. unfold record_do in H.
  minva H c0 s0 E0. unfold get_client in E0. inversion E0; subst c0 s0; clear E0.
  destruct (rec_find file (c_records (s_c s))).
  - apply ret_inv in H as [-> ->]. apply sstep_refl.
  - minva H r1 s1 E1. apply record_work_sstep in E1; [|exact HI].
    minva H c2 s2 E2. unfold get_client in E2. inversion E2; subst c2 s2; clear E2.
    minva H u s3 E3. unfold set_client in E3. inversion E3; subst s3; clear E3.
    apply ret_inv in H as [-> ->].
    eapply sstep_trans; [|exact E1 | apply (sstep_same True); reflexivity]. auto.
Qed.

Lemma init_work_sstep s r s' :
  Fresh (s_c s) -> key_ok (s_w s) -> init_work sha node_hash V s = (r, s') -> sstep (r = None) s s'.
Proof.
  intros (Hi & Hm & Hn & Hr & Hh) Hkey H. unfold init_work in H.
  minva H k s1 E1. apply rc_spec in E1 as (F1 & _ & Hk).
  destruct k as [vkey|]; [|apply ret_inv in H as [-> ->]; apply sstep_tframe; exact F1].
  destruct (parse_verifier_key sha (trim_space vkey)) as [[[nm h] key]|e] eqn:Hparse;
    [|apply ret_inv in H as [-> ->]; apply sstep_tframe; exact F1].
  destruct (Hkey _ _ _ _ (eq_sym Hk) Hparse) as [-> Hvs].
  minva H c1 s2 E2. unfold get_client in E2. inversion E2; subst c1 s2; clear E2.
  minva H u s3 E3. unfold set_client in E3. inversion E3; subst s3; clear E3.
  set (s3 := mkState _ _ _) in H.
  assert (HI3 : CInv (s_c s3)).
  { unfold s3. cbn. constructor; cbn.
    - exact Hvs.
    - reflexivity.
    - rewrite (tf_height _ _ F1). exact Hh.
    - left. split; [rewrite (tf_msg _ _ F1); exact Hm|].
      rewrite (tf_latest _ _ F1), Hn. reflexivity.
    - rewrite (tf_records _ _ F1), Hr. intros f d [].
    - rewrite (tf_records _ _ F1), Hr. intros f []. }
  assert (HN3 : Codec.tN (c_latest (s_c s3)) = 0).
  { unfold s3. cbn. rewrite (tf_latest _ _ F1), Hn. reflexivity. }
  assert (S3 : sstep True s s3).
  { constructor.
    - intros Hx. unfold s3. cbn. rewrite (tf_interf _ _ F1). exact Hx.
    - intros _ A (m & Y & G1 & G2 & G3). left. exists m, Y. unfold cfg_msg, s3 in *. cbn. rewrite (tf_config _ _ F1). auto.
    - right. right. left. lia.
    - lia.
    - intros _ _ _. left. left. lia. }
  minva H d s4 E4. apply rc_spec in E4 as (F4 & _ & _).
  assert (HI4 := tf_cinv _ _ F4 HI3).
  assert (S4 : sstep True s s4).
  { eapply sstep_trans; [|exact S3 | apply (sstep_tframe True); exact F4]. auto. }
  destruct d as [data|]; [|apply ret_inv in H as [-> ->]; eapply sstep_weaken; [|exact S4]; auto].
  apply merge_latest_sstep in H; [|exact HI4].
  eapply sstep_trans; [|exact S4 | exact H]. auto.
Qed.

Lemma client_init_sstep s r s' :
  ClientInv (s_c s) -> (c_init (s_c s) = None -> key_ok (s_w s)) ->
  client_init sha node_hash V s = (r, s') ->
  sstep (r = None) s s' /\ (r = None -> CInv (s_c s')).
Proof.
  intros HC Hkey H. unfold client_init in H.
  minva H c0 s0 E0. unfold get_client in E0. inversion E0; subst c0 s0; clear E0.
  unfold SeqProofsSafe.ClientInv in HC. destruct (c_init (s_c s)) as [r0|] eqn:Hci.
  - apply ret_inv in H as [-> ->]. split; [apply sstep_refl|]. intros ->. exact HC.
  - minva H r1 s1 E1. assert (E1' := E1). apply init_work_sstep in E1; auto.
    apply iw_spec in E1' as (_ & _ & _ & _ & Hnone & _); auto.
    minva H c2 s2 E2. unfold get_client in E2. inversion E2; subst c2 s2; clear E2.
    minva H u s3 E3. unfold set_client in E3. inversion E3; subst s3; clear E3.
    apply ret_inv in H as [-> ->]. split.
    + eapply sstep_trans; [|exact E1 | apply (sstep_same True); reflexivity]. auto.
    + intros Hr. destruct (Hnone Hr). constructor; cbn; auto.
Qed.

Theorem lookup_m_sstep path vers s r s' :
  ClientInv (s_c s) -> (c_init (s_c s) = None -> key_ok (s_w s)) ->
  lookup_m sha leaf_hash node_hash V esc_path esc_vers skip path vers s = (r, s') ->
  sstep (forall e, r <> LErr e) s s'.
Proof.
  intros HC Hkey H. unfold lookup_m in H.
  destruct (skip path); [apply ret_inv in H as [-> ->]; apply sstep_refl|].
  minva H e0 s1 E1. apply client_init_sstep in E1 as [S1 HI1]; auto.
  destruct e0 as [err|].
  { apply ret_inv in H as [-> ->]. eapply sstep_weaken; [|exact S1]. intros Hno. exfalso. eapply Hno; reflexivity. }
  specialize (HI1 eq_refl).
  assert (S1' : sstep True s s1) by (eapply sstep_weaken; [|exact S1]; auto).
  destruct (esc_path path) as [epath|]; [|apply ret_inv in H as [-> ->]; eapply sstep_weaken; [|exact S1']; auto].
  destruct (esc_vers (trim_suffix vers go_mod_suffix)) as [evers|];
    [|apply ret_inv in H as [-> ->]; eapply sstep_weaken; [|exact S1']; auto].
  minva H c1 s2 E2. unfold get_client in E2. inversion E2; subst c1 s2; clear E2.
  minva H rr s3 E3. apply record_do_sstep in E3; [|exact HI1].
  destruct rr as [data|err]; apply ret_inv in H as [-> ->].
  - eapply sstep_trans; [|exact S1' | exact E3]. intros _. split; [exact I | discriminate].
  - apply (sstep_trans _ True (forall e, RErr err <> RErr e) _ s1);
      [intros Hno; exfalso; eapply Hno; reflexivity | exact S1' | exact E3].
Qed.

(* ---- histories ----------------------------------------------------------------------------------------- *)

Let lk_spec := lookup_spec sha leaf_hash node_hash V esc_path esc_vers skip NodeAt tile_ok
                  (c10_tiles_sound node_hash) (c10_saved_authenticated node_hash) vs name signed_small.

(* one Lookup *)
Theorem lookup_sstep w c path vers r evs w' c' :
  ClientInv c -> (c_init c = None -> key_ok w) ->
  lookup w c path vers = (r, evs, w', c') ->
  sstep (forall e, r <> LErr e) (mkState w c []) (mkState w' c' evs).
Proof.
  intros HC Hk H. unfold Seq.lookup in H.
  destruct (lookup_m sha leaf_hash node_hash V esc_path esc_vers skip path vers (mkState w c [])) as [r0 s'] eqn:E.
  inversion H; subst r0 evs w' c'; clear H.
  apply lookup_m_sstep in E; auto. destruct s'. exact E.
Qed.

(* an initialised client (one that can answer lookups) *)
Definition live (c : client) : Prop := c_init c = Some None.

(* a lookup is clean unless it both failed and moved its client's head *)
Definition clean_step (r : lres) (c c' : client) : Prop :=
  (forall e, r <> LErr e) \/ Codec.tN (c_latest c') = Codec.tN (c_latest c).

Fixpoint run_clean (steps : list (nat * str * str)) (w : world) (cs : clients) : Prop :=
  match steps with
  | [] => True
  | (i, path, vers) :: rest =>
      match lookup w (cs i) path vers with
      | (r, _, w1, c1) => clean_step r (cs i) c1 /\ run_clean rest w1 (upd cs i c1)
      end
  end.

(* the global states between the lookups of a history, the initial one first *)
Fixpoint run_states (steps : list (nat * str * str)) (w : world) (cs : clients) : list (world * clients) :=
  (w, cs) ::
  match steps with
  | [] => []
  | (i, path, vers) :: rest =>
      match lookup w (cs i) path vers with
      | (_, _, w1, c1) => run_states rest w1 (upd cs i c1)
      end
  end.

(* ACCEPTED in a global state: a non-empty head that is the latest of an initialised client, or
   that the stored configuration opens to *)
Definition accepted_in (st : world * clients) (A : tree) : Prop :=
  0 < Codec.tN A /\
  ((exists i, live (snd st i) /\ c_latest (snd st i) = A) \/
   (exists msg, cfg_msg (fst st) = Some msg /\ signed_tree msg A)).

Definition accepted (steps : list (nat * str * str)) (w : world) (cs : clients) (A : tree) : Prop :=
  exists st, In st (run_states steps w cs) /\ accepted_in st A.

(* every client's head moves along one chain, whatever the world does *)
Theorem client_heads_chain steps : forall w cs rs evs w' cs',
  (forall i, ClientInv (cs i)) -> key_ok w ->
  run steps w cs = (rs, evs, w', cs') ->
  forall i, HeadStep (c_latest (cs i)) (c_latest (cs' i)) /\
            Codec.tN (c_latest (cs i)) <= Codec.tN (c_latest (cs' i)).
Proof.
  induction steps as [|[[i path] vers] rest IH]; intros w cs rs evs w' cs' Hinv Hk H j; cbn in H.
  - inversion H; subst. split; [left; reflexivity | lia].
  - destruct (lookup w (cs i) path vers) as [[[r evs1] w1] c1] eqn:E1.
    destruct (run rest w1 (upd cs i c1)) as [[[rs2 evs2] w2] cs2] eqn:E2.
    inversion H; subst; clear H.
    assert (S1 := lookup_sstep _ _ _ _ _ _ _ _ (Hinv i) (fun _ => Hk) E1).
    eapply lk_spec in E1 as (HC1 & _ & Hkey1 & _); eauto.
    eapply IH with (i := j) in E2.
    + destruct E2 as [Hh Hm]. unfold upd in Hh, Hm. destruct (Nat.eqb j i) eqn:Eji.
      * apply Nat.eqb_eq in Eji. subst j. split.
        -- eapply headstep_trans; [apply (ss_head _ _ _ S1) | exact Hh].
        -- pose proof (ss_mono _ _ _ S1) as M. cbn in M. lia.
      * auto.
    + intros k. unfold upd. destruct (Nat.eqb k i); auto.
    + eapply key_ok_preserved; eauto.
Qed.

(* the stored head moves along one chain when the clients of the history are its only writers *)
Theorem config_heads_chain steps : forall w cs rs evs w' cs',
  (forall i, ClientInv (cs i)) -> key_ok w -> w_interf w = [] ->
  run steps w cs = (rs, evs, w', cs') ->
  w_interf w' = [] /\ CfgMono w w'.
Proof.
  induction steps as [|[[i path] vers] rest IH]; intros w cs rs evs w' cs' Hinv Hk Hi H; cbn in H.
  - inversion H; subst. split; [exact Hi | apply cfgmono_refl].
  - destruct (lookup w (cs i) path vers) as [[[r evs1] w1] c1] eqn:E1.
    destruct (run rest w1 (upd cs i c1)) as [[[rs2 evs2] w2] cs2] eqn:E2.
    inversion H; subst; clear H.
    assert (S1 := lookup_sstep _ _ _ _ _ _ _ _ (Hinv i) (fun _ => Hk) E1).
    eapply lk_spec in E1 as (HC1 & _ & Hkey1 & _); eauto.
    eapply IH in E2.
    + destruct E2 as [Hi2 Hm2]. split; [exact Hi2|].
      eapply cfgmono_trans; [apply (ss_cfg _ _ _ S1 Hi) | exact Hm2].
    + intros k. unfold upd. destruct (Nat.eqb k i); auto.
    + eapply key_ok_preserved; eauto.
    + apply (ss_interf _ _ _ S1 Hi).
Qed.

(* the cross invariant: every initialised client's head is before the stored head *)
Definition AllBefore (w : world) (cs : clients) : Prop :=
  forall i, live (cs i) -> InvC (cs i) w \/ coll.

Lemma step_all_before w cs i path vers r evs w1 c1 :
  (forall i, ClientInv (cs i)) -> key_ok w -> w_interf w = [] ->
  lookup w (cs i) path vers = (r, evs, w1, c1) -> clean_step r (cs i) c1 ->
  AllBefore w cs -> AllBefore w1 (upd cs i c1).
Proof.
  intros Hinv Hk Hi E1 Hclean Hall.
  assert (S1 := lookup_sstep _ _ _ _ _ _ _ _ (Hinv i) (fun _ => Hk) E1).
  intros j Hl. unfold upd in *. destruct (Nat.eqb j i) eqn:Eji.
  - (* the stepping client *)
    pose proof (Hinv i) as HCi. unfold SeqProofsSafe.ClientInv in HCi.
    destruct (c_init (cs i)) as [[e|]|] eqn:Hci.
    + (* dead clients stay dead *)
      exfalso. unfold Seq.lookup, lookup_m in E1.
      destruct (skip path); [inversion E1; subst; unfold live in Hl; congruence|].
      unfold client_init, bindM, get_client, ret in E1. cbn in E1. rewrite Hci in E1.
      inversion E1; subst. unfold live in Hl. congruence.
    + destruct (Hall i Hci) as [Hb|C]; [|right; exact C].
      apply (ss_keep _ _ _ S1 Hi Hclean Hb).
    + apply (ss_keep _ _ _ S1 Hi Hclean). left. destruct HCi as (_ & _ & Hn & _). cbn. lia.
  - (* the others: the stored head only moved forward *)
    destruct (Hall j Hl) as [[H0|Hb]|C]; [left; left; exact H0 | | right; exact C].
    destruct (ss_cfg _ _ _ S1 Hi _ Hb) as [Hb'|C]; [left; right; exact Hb' | right; exact C].
Qed.

(* heads_before_config: along a history of clean lookups without a foreign writer, the head of every
   initialised client stays before the stored head *)
Theorem heads_before_config steps : forall w cs rs evs w' cs',
  (forall i, ClientInv (cs i)) -> key_ok w -> w_interf w = [] ->
  run steps w cs = (rs, evs, w', cs') -> run_clean steps w cs ->
  AllBefore w cs -> AllBefore w' cs'.
Proof.
  induction steps as [|[[i path] vers] rest IH]; intros w cs rs evs w' cs' Hinv Hk Hi H Hcl Hall; cbn in H, Hcl.
  - inversion H; subst. exact Hall.
  - destruct (lookup w (cs i) path vers) as [[[r evs1] w1] c1] eqn:E1.
    destruct (run rest w1 (upd cs i c1)) as [[[rs2 evs2] w2] cs2] eqn:E2.
    inversion H; subst; clear H. destruct Hcl as [Hc1 Hcl].
    assert (S1 := lookup_sstep _ _ _ _ _ _ _ _ (Hinv i) (fun _ => Hk) E1).
    assert (Hall1 := step_all_before _ _ _ _ _ _ _ _ _ Hinv Hk Hi E1 Hc1 Hall).
    eapply lk_spec in E1 as (HC1 & _ & Hkey1 & _); eauto.
    eapply IH in E2; eauto.
    + intros k. unfold upd. destruct (Nat.eqb k i); auto.
    + eapply key_ok_preserved; eauto.
    + apply (ss_interf _ _ _ S1 Hi).
Qed.

(* every head accepted anywhere along such a history is before the final stored head *)
Lemma accepted_before_final steps : forall w cs rs evs w' cs',
  (forall i, ClientInv (cs i)) -> key_ok w -> w_interf w = [] ->
  run steps w cs = (rs, evs, w', cs') -> run_clean steps w cs -> AllBefore w cs ->
  forall A, accepted steps w cs A -> BeforeCfg A w' \/ coll.
Proof.
  induction steps as [|[[i path] vers] rest IH]; intros w cs rs evs w' cs' Hinv Hk Hi H Hcl Hall A (st & Hin & Hacc);
    cbn in H, Hcl, Hin.
  - inversion H; subst. destruct Hin as [<-|[]]. destruct Hacc as (Hpos & [(j & Hl & <-)|(msg & Hm & Hs)]); cbn in *.
    + destruct (Hall j Hl) as [[H0|Hb]|C]; [lia | left; exact Hb | right; exact C].
    + left. exists msg, A. split; [exact Hm|]. split; [exact Hs | apply before_refl].
  - destruct (lookup w (cs i) path vers) as [[[r evs1] w1] c1] eqn:E1.
    destruct (run rest w1 (upd cs i c1)) as [[[rs2 evs2] w2] cs2] eqn:E2.
    inversion H; subst; clear H. destruct Hcl as [Hc1 Hcl].
    assert (S1 := lookup_sstep _ _ _ _ _ _ _ _ (Hinv i) (fun _ => Hk) E1).
    assert (Hall1 := step_all_before _ _ _ _ _ _ _ _ _ Hinv Hk Hi E1 Hc1 Hall).
    assert (E1' := E1). eapply lk_spec in E1' as (HC1 & _ & Hkey1 & _); eauto.
    assert (Hinv1 : forall k, ClientInv (upd cs i c1 k)) by (intros k; unfold upd; destruct (Nat.eqb k i); auto).
    assert (Hk1 : key_ok w1) by (eapply key_ok_preserved; eauto).
    assert (Hi1 : w_interf w1 = []) by apply (ss_interf _ _ _ S1 Hi).
    destruct Hin as [<-|Hin].
    + (* accepted in the first state: carried by the monotone stored head *)
      assert (Hb : BeforeCfg A w \/ coll).
      { destruct Hacc as (Hpos & [(j & Hl & <-)|(msg & Hm & Hs)]); cbn in *.
        - destruct (Hall j Hl) as [[H0|Hb]|C]; [lia | left; exact Hb | right; exact C].
        - left. exists msg, A. split; [exact Hm|]. split; [exact Hs | apply before_refl]. }
      destruct Hb as [Hb|C]; [|right; exact C].
      destruct (ss_cfg _ _ _ S1 Hi _ Hb) as [Hb1|C]; [|right; exact C].
      destruct (config_heads_chain _ _ _ _ _ _ _ Hinv1 Hk1 Hi1 E2) as [_ Hmono]. apply Hmono. exact Hb1.
    + eapply (IH _ _ _ _ _ _ Hinv1 Hk1 Hi1 E2 Hcl Hall1). exists st. auto.
Qed.

(* installed_heads_totally_ordered *)
Theorem installed_heads_totally_ordered steps w cs rs evs w' cs' :
  (forall i, ClientInv (cs i)) -> key_ok w -> w_interf w = [] ->
  run steps w cs = (rs, evs, w', cs') -> run_clean steps w cs -> AllBefore w cs ->
  forall A B, accepted steps w cs A -> accepted steps w cs B -> Comparable A B \/ coll.
Proof.
  intros Hinv Hk Hi H Hcl Hall A B HA HB.
  destruct (accepted_before_final _ _ _ _ _ _ _ Hinv Hk Hi H Hcl Hall A HA) as [(m1 & Y1 & M1 & S1 & B1)|C]; [|right; exact C].
  destruct (accepted_before_final _ _ _ _ _ _ _ Hinv Hk Hi H Hcl Hall B HB) as [(m2 & Y2 & M2 & S2 & B2)|C]; [|right; exact C].
  rewrite M1 in M2. injection M2 as <-. rewrite (signed_tree_fun _ _ _ _ _ S2 S1) in B2.
  apply (before_comparable node_hash A B Y1 B1 B2). pose proof (signed_small _ _ S1). lia.
Qed.

(* new clients over any configuration satisfy the cross invariant *)
Lemma fresh_all_before w cs : (forall i, c_init (cs i) = None) -> AllBefore w cs.
Proof. intros H i Hl. unfold live in Hl. rewrite H in Hl. discriminate. Qed.

End Hist.
