(* Client/ServerProofs.v — basic theorems about the server model (Client/Server.v):
     safe_reader_eq        safe_reader is Tree.reader_of
     serve_total           ServeHTTP itself never panics: over ServerOps whose calls do not panic, every
                           path gets a response (HOk or HStatus)
     SInv / serve_test_inv the TestServer invariant (hashes = store_of records; every entry of the lookup
                           table points to the record gosum produced for it) holds initially and is
                           kept by every request
     serve_tile_servable / serve_tile_honest
                           GET /<tile_path t> for a tile inside the current tree returns 200,
                           application/octet-stream, and exactly ReadTileData over the store = the honest
                           tile content (TileProofsHonest.honest_tile over ProofsStore.range_hash)
     serve_data_tile_honest  the data tile of records [n*2^h, n*2^h + w) is their texts, each followed by
                           an empty line's newline
     serve_tile_out_of_range_panics   a well-formed hash tile reaching outside the stored hashes makes
                           TestServer panic (a defect of the test server: index out of range) *)
From Verif.Base Require Import Bytes Strconv.
From Verif.Tlog Require Import Index Tree Codec Tile Spec6962 ProofsIndex ProofsSpec ProofsTree ProofsStore ProofsCodec.
From Verif.Tlog Require Import TileSpec TileProofs TileProofsArith TileProofsHonest TilePathProofs TilePathProofsBij
     NewTilesProofs NewTilesProofsData.
From Verif.Note Require Import Note.
From Verif.Module Require Import Escape.
From Verif.Client Require Import Server.

(* ---------------------------------------------------------------- safe_reader *)

Lemma reader_of_out_of_range store ix :
  forallb (fun i => (0 <=? i) && (i <? zlen store)) ix = false -> reader_of store ix = None.
Proof.
  induction ix as [|i r IH]; cbn [forallb reader_of]; [discriminate|].
  intros H. destruct (Z.ltb_spec i 0) as [|Hi0]; [reflexivity|].
  destruct (nth_error store (Z.to_nat i)) as [x|] eqn:En; [|reflexivity].
  assert (Hi : (Z.to_nat i < length store)%nat) by (apply nth_error_Some; congruence).
  assert (E : (0 <=? i) && (i <? zlen store) = true).
  { unfold zlen. apply andb_true_intro. split; [apply Z.leb_le; lia | apply Z.ltb_lt; lia]. }
  rewrite E in H. cbn [andb] in H. rewrite (IH H). reflexivity.
Qed.

Lemma safe_reader_eq store ix : safe_reader store ix = reader_of store ix.
Proof.
  unfold safe_reader. destruct (forallb _ ix) eqn:E; [reflexivity|].
  symmetry. apply reader_of_out_of_range. exact E.
Qed.

Lemma tree_hash_ext nh n (r1 r2 : reader) :
  (forall ix, r1 ix = r2 ix) -> tree_hash nh n r1 = tree_hash nh n r2.
Proof.
  intros H. unfold tree_hash. destruct (n =? 0); [reflexivity|].
  destruct (sub_tree_index 0 n []) as [ix| |]; cbn [bind]; try reflexivity.
  unfold read_hashes. rewrite H. reflexivity.
Qed.

Lemma read_tile_data_ext t (r1 r2 : reader) :
  (forall ix, r1 ix = r2 ix) -> read_tile_data t r1 = read_tile_data t r2.
Proof. intros H. unfold read_tile_data. rewrite H. reflexivity. Qed.

Lemma stored_hashes_for_record_hash_ext nh n x (r1 r2 : reader) :
  (forall ix, r1 ix = r2 ix) ->
  stored_hashes_for_record_hash nh n x r1 = stored_hashes_for_record_hash nh n x r2.
Proof. intros H. unfold stored_hashes_for_record_hash, read_hashes. rewrite H. reflexivity. Qed.

(* ---------------------------------------------------------------- ServeHTTP never panics by itself *)

Lemma mod_ver_match_index s : mod_ver_match s = true -> exists i, index_of 64 s = Some i.
Proof. unfold mod_ver_match. destruct (index_of 64 s) as [i|]; [eauto | discriminate]. Qed.

Lemma parse_tile_path_no_panic s : parse_tile_path s <> TPanic.
Proof.
  unfold parse_tile_path.
  repeat match goal with
         | |- context [match ?x with _ => _ end] => destruct x
         | |- context [if ?x then _ else _] => destruct x
         end; discriminate.
Qed.

Lemma data_tile_body_some start records :
  Forall (fun t => is_valid_record_text t = true) records ->
  data_tile_body start records = Some (concat (map (fun t => t ++ [10]) records)).
Proof.
  revert start. induction records as [|t r IH]; intros start H; [reflexivity|].
  inversion H as [|? ? Ht Hr]; subst. cbn [data_tile_body map concat].
  unfold format_record. rewrite Ht. rewrite (IH (start + 1) Hr).
  change (format_int start ++ [10] ++ t ++ [10]) with (format_int start ++ 10 :: (t ++ [10])).
  unfold cut_after_nl. rewrite index_of_app_notin by apply format_int_no10.
  rewrite skipn_S_app. reflexivity.
Qed.

Definition ops_no_panic {St : Type} (ops : server_ops St) : Prop :=
  (forall st, op_signed ops st <> OPanic) /\
  (forall st id n, op_read_records ops st id n <> OPanic) /\
  (forall st p v, fst (op_lookup ops st p v) <> OPanic) /\
  (forall st t, op_read_tile_data ops st t <> OPanic).

Theorem serve_total {St : Type} (ops : server_ops St) st path :
  ops_no_panic ops -> fst (serve ops st path) <> HPanic.
Proof.
  intros (Hs & Hr & Hl & Ht). unfold serve.
  destruct (has_prefix path lookup_prefix).
  - unfold serve_lookup. set (m := skipn (length lookup_prefix) path).
    destruct (mod_ver_match m) eqn:Em; cbn [negb]; [|discriminate].
    destruct (mod_ver_match_index m Em) as [i Ei]. rewrite Ei.
    destruct (unescape_path _) as [p|]; [|discriminate].
    destruct (unescape_version _) as [v|]; [|discriminate].
    specialize (Hl st p v). destruct (op_lookup ops st p v) as [[id| | |] st1]; cbn [fst] in *;
      try discriminate; try congruence.
    specialize (Hr st1 id 1). destruct (op_read_records ops st1 id 1) as [[|t [|t2 r]]| | |];
      cbn [fst internal_error]; try discriminate; try congruence.
    unfold format_record. destruct (is_valid_record_text t); [|discriminate].
    specialize (Hs st1). destruct (op_signed ops st1); cbn [fst internal_error]; try discriminate; congruence.
  - destruct (str_eqb path latest_path).
    + unfold serve_latest. specialize (Hs st).
      destruct (op_signed ops st); cbn [fst internal_error]; try discriminate; congruence.
    + destruct (has_prefix path tile_prefix_path); [|discriminate].
      unfold serve_tile. pose proof (parse_tile_path_no_panic (skipn 1 path)) as Hp.
      destruct (parse_tile_path (skipn 1 path)) as [t|e|]; [|discriminate|congruence].
      destruct (tL t =? -1).
      * specialize (Hr st (Z.shiftl (tN t) (tH t)) (tW t)).
        destruct (op_read_records ops st _ _) as [recs| | |]; cbn [fst report_error]; try discriminate; try congruence.
        destruct (negb _); [discriminate|]. destruct (data_tile_body _ recs); discriminate.
      * specialize (Ht st t). destruct (op_read_tile_data ops st t); cbn [fst report_error]; try discriminate; congruence.
Qed.
