(* Client/ServerProofs.v — basic theorems about the server model (Client/Server.v):
     safe_reader_eq        safe_reader is Tree.reader_of
     serve_total           ServeHTTP itself never panics: over ServerOps whose calls do not panic, every
                           path gets a response (HOk or HStatus)
     HInv / SInv / serve_test_inv / reachable_inv
                           the TestServer invariant (HInv: hashes = store_of records; SInv: HInv and every
                           entry of the lookup table points to the record gosum produced for it) holds
                           initially, is kept by every request, hence holds in every reachable state
     serve_tile_servable / serve_tile_honest
                           GET /<tile_path t> for a tile inside the current tree returns 200,
                           application/octet-stream, and exactly ReadTileData over the store = the honest
                           tile content (TileProofsHonest.honest_tile over ProofsStore.range_hash)
     serve_data_tile_honest  the data tile of records [n*2^h, n*2^h + w) is their texts, each followed by
                           an empty line's newline
     serve_tile_out_of_range_panics   a well-formed hash tile reaching outside the stored hashes makes
                           TestServer panic (a defect of the test server: index out of range) *)
From Verif.Base Require Import Bytes Strconv.
From Verif.Tlog Require Import Index Tree Codec Tile Spec6962 ProofsIndex ProofsSpec ProofsTree ProofsStore ProofsCodec.
From Verif.Tlog Require Import TileSpec TileProofs TileProofsArith TileProofsHonest TilePathProofs TilePathProofsBij
     NewTilesProofs NewTilesProofsData.
From Verif.Note Require Import Note.
From Verif.Module Require Import Escape.
From Verif.Client Require Import Server.

(* ---------------------------------------------------------------- safe_reader *)

Lemma reader_of_out_of_range store ix :
  forallb (fun i => (0 <=? i) && (i <? zlen store)) ix = false -> reader_of store ix = None.
Proof.
  induction ix as [|i r IH]; cbn [forallb reader_of]; [discriminate|].
  intros H. destruct (Z.ltb_spec i 0) as [|Hi0]; [reflexivity|].
  destruct (nth_error store (Z.to_nat i)) as [x|] eqn:En; [|reflexivity].
  assert (Hi : (Z.to_nat i < length store)%nat) by (apply nth_error_Some; congruence).
  assert (E : (0 <=? i) && (i <? zlen store) = true).
  { unfold zlen. apply andb_true_intro. split; [apply Z.leb_le; lia | apply Z.ltb_lt; lia]. }
  rewrite E in H. cbn [andb] in H. rewrite (IH H). reflexivity.
Qed.

Lemma safe_reader_eq store ix : safe_reader store ix = reader_of store ix.
Proof.
  unfold safe_reader. destruct (forallb _ ix) eqn:E; [reflexivity|].
  symmetry. apply reader_of_out_of_range. exact E.
Qed.

Lemma tree_hash_ext nh n (r1 r2 : reader) :
  (forall ix, r1 ix = r2 ix) -> tree_hash nh n r1 = tree_hash nh n r2.
Proof.
  intros H. unfold tree_hash. destruct (n =? 0); [reflexivity|].
  destruct (sub_tree_index 0 n []) as [ix| |]; cbn [bind]; try reflexivity.
  unfold read_hashes. rewrite H. reflexivity.
Qed.

Lemma read_tile_data_ext t (r1 r2 : reader) :
  (forall ix, r1 ix = r2 ix) -> read_tile_data t r1 = read_tile_data t r2.
Proof. intros H. unfold read_tile_data. rewrite H. reflexivity. Qed.

Lemma stored_hashes_for_record_hash_ext nh n x (r1 r2 : reader) :
  (forall ix, r1 ix = r2 ix) ->
  stored_hashes_for_record_hash nh n x r1 = stored_hashes_for_record_hash nh n x r2.
Proof. intros H. unfold stored_hashes_for_record_hash, read_hashes. rewrite H. reflexivity. Qed.

(* ---------------------------------------------------------------- ServeHTTP never panics by itself *)

Lemma mod_ver_match_index s : mod_ver_match s = true -> exists i, index_of 64 s = Some i.
Proof. unfold mod_ver_match. destruct (index_of 64 s) as [i|]; [eauto | discriminate]. Qed.

Lemma parse_tile_path_no_panic s : parse_tile_path s <> TPanic.
Proof.
  unfold parse_tile_path.
  repeat match goal with
         | |- context [match ?x with _ => _ end] => destruct x
         | |- context [if ?x then _ else _] => destruct x
         end; discriminate.
Qed.

Lemma data_tile_body_some start records :
  Forall (fun t => is_valid_record_text t = true) records ->
  data_tile_body start records = Some (concat (map (fun t => t ++ [10]) records)).
Proof.
  revert start. induction records as [|t r IH]; intros start H; [reflexivity|].
  inversion H as [|? ? Ht Hr]; subst. cbn [data_tile_body map concat].
  unfold format_record. rewrite Ht. rewrite (IH (start + 1) Hr).
  change (format_int start ++ [10] ++ t ++ [10]) with (format_int start ++ 10 :: (t ++ [10])).
  unfold cut_after_nl. rewrite index_of_app_notin by apply format_int_no10.
  rewrite skipn_S_app. reflexivity.
Qed.

Definition ops_no_panic {St : Type} (ops : server_ops St) : Prop :=
  (forall st, op_signed ops st <> OPanic) /\
  (forall st id n, op_read_records ops st id n <> OPanic) /\
  (forall st p v, fst (op_lookup ops st p v) <> OPanic) /\
  (forall st t, op_read_tile_data ops st t <> OPanic).

Theorem serve_total {St : Type} (ops : server_ops St) st path :
  ops_no_panic ops -> fst (serve ops st path) <> HPanic.
Proof.
  intros (Hs & Hr & Hl & Ht). unfold serve.
  destruct (has_prefix path lookup_prefix).
  - unfold serve_lookup. set (m := skipn (length lookup_prefix) path).
    destruct (mod_ver_match m) eqn:Em; cbn [negb]; [|discriminate].
    destruct (mod_ver_match_index m Em) as [i Ei]. rewrite Ei.
    destruct (unescape_path _) as [p|]; [|discriminate].
    destruct (unescape_version _) as [v|]; [|discriminate].
    specialize (Hl st p v). destruct (op_lookup ops st p v) as [[id| | |] st1]; cbn [fst] in *;
      try discriminate; try congruence.
    specialize (Hr st1 id 1). destruct (op_read_records ops st1 id 1) as [[|t [|t2 r]]| | |];
      cbn [fst internal_error]; try discriminate; try congruence.
    unfold format_record. destruct (is_valid_record_text t); [|discriminate].
    specialize (Hs st1). destruct (op_signed ops st1); cbn [fst internal_error]; try discriminate; congruence.
  - destruct (str_eqb path latest_path).
    + unfold serve_latest. specialize (Hs st).
      destruct (op_signed ops st); cbn [fst internal_error]; try discriminate; congruence.
    + destruct (has_prefix path tile_prefix_path); [|discriminate].
      unfold serve_tile. pose proof (parse_tile_path_no_panic (skipn 1 path)) as Hp.
      destruct (parse_tile_path (skipn 1 path)) as [t|e|]; [|discriminate|congruence].
      destruct (tL t =? -1).
      * specialize (Hr st (Z.shiftl (tN t) (tH t)) (tW t)).
        destruct (op_read_records ops st _ _) as [recs| | |]; cbn [fst report_error]; try discriminate; try congruence.
        destruct (negb _); [discriminate|]. destruct (data_tile_body _ recs); discriminate.
      * specialize (Ht st t). destruct (op_read_tile_data ops st t); cbn [fst report_error]; try discriminate; congruence.
Qed.

(* ---------------------------------------------------------------- which state a request leaves *)

Lemma serve_state {St : Type} (ops : server_ops St) st path :
  snd (serve ops st path) = st \/
  exists m i p v, path = lookup_prefix ++ m /\ mod_ver_match m = true /\ index_of 64 m = Some i /\
                  unescape_path (firstn i m) = EOk p /\ unescape_version (skipn (S i) m) = EOk v /\
                  snd (serve ops st path) = snd (op_lookup ops st p v).
Proof.
  unfold serve. destruct (has_prefix path lookup_prefix) eqn:Hp.
  - assert (Epath : path = lookup_prefix ++ skipn (length lookup_prefix) path).
    { clear -Hp. revert Hp. generalize lookup_prefix as q. induction path as [|c r IH]; intros [|x q] H; cbn in *;
        try reflexivity; try discriminate.
      apply andb_prop in H as [H1 H2]. apply Z.eqb_eq in H1. subst. f_equal. apply IH. exact H2. }
    unfold serve_lookup. set (m := skipn (length lookup_prefix) path) in *.
    destruct (mod_ver_match m) eqn:Em; cbn [negb]; [|left; reflexivity].
    destruct (index_of 64 m) as [i|] eqn:Ei; [|left; reflexivity].
    destruct (unescape_path (firstn i m)) as [p|] eqn:Eup; [|left; reflexivity].
    destruct (unescape_version (skipn (S i) m)) as [v|] eqn:Euv; [|left; reflexivity].
    right. exists m, i, p, v. repeat (split; [assumption|]).
    destruct (op_lookup ops st p v) as [[id| | |] st1]; cbn [snd]; try reflexivity.
    destruct (op_read_records ops st1 id 1) as [[|t [|t2 r]]| | |]; try reflexivity.
    destruct (format_record id t); try reflexivity.
    destruct (op_signed ops st1); reflexivity.
  - left. destruct (str_eqb path latest_path).
    + unfold serve_latest. destruct (op_signed ops st); reflexivity.
    + destruct (has_prefix path tile_prefix_path); [|reflexivity].
      unfold serve_tile. destruct (parse_tile_path (skipn 1 path)) as [t|e|]; try reflexivity.
      destruct (tL t =? -1).
      * destruct (op_read_records ops st _ _) as [recs| | |]; try reflexivity.
        destruct (negb _); [reflexivity|]. destruct (data_tile_body _ recs); reflexivity.
      * destruct (op_read_tile_data ops st t); reflexivity.
Qed.

(* ---------------------------------------------------------------- keys *)

Lemma key_inj p p' v v' :
  ~ In 64 p -> ~ In 64 p' -> p ++ 64 :: v = p' ++ 64 :: v' -> p = p' /\ v = v'.
Proof.
  revert p'. induction p as [|c p IH]; intros [|c' p'] Hp Hp' E; cbn [app] in E.
  - injection E as ->. auto.
  - injection E as <- _. exfalso. apply Hp'. left. reflexivity.
  - injection E as -> _. exfalso. apply Hp. left. reflexivity.
  - injection E as -> E. destruct (IH p') as [-> ->]; auto.
    + intros H. apply Hp. right. exact H.
    + intros H. apply Hp'. right. exact H.
Qed.

Lemma find_key_in k l id : find_key k l = Some id -> In (k, id) l.
Proof.
  induction l as [|[k' v] r IH]; cbn [find_key]; [discriminate|].
  destruct (str_eqb_spec k k') as [->|_].
  - intros [= ->]. left. reflexivity.
  - intros H. right. apply IH. exact H.
Qed.

Lemma find_key_app_new k l id : find_key k l = None -> find_key k (l ++ [(k, id)]) = Some id.
Proof.
  induction l as [|[k' v] r IH]; cbn [find_key app].
  - intros _. rewrite str_eqb_refl. reflexivity.
  - destruct (str_eqb k k'); [discriminate|exact IH].
Qed.

Lemma index_of_firstn_notin c s i : index_of c s = Some i -> ~ In c (firstn i s).
Proof.
  revert i. induction s as [|x r IH]; intros i; cbn [index_of]; [discriminate|].
  destruct (Z.eqb_spec x c) as [->|Hne].
  - intros [= <-]. cbn. tauto.
  - destruct (index_of c r) as [j|]; [|discriminate]. cbn [option_map]. intros [= <-].
    cbn [firstn]. intros [H|H]; [congruence|]. exact (IH j eq_refl H).
Qed.

Lemma unescape_from_no_at b s r : unescape_from b s = Some r -> ~ In 64 s -> ~ In 64 r.
Proof.
  revert b r. induction s as [|c s IH]; intros b r; cbn [unescape_from].
  - destruct b; [discriminate|]. intros [= <-] _ [].
  - intros H Hs.
    assert (Hs' : ~ In 64 s) by (intros X; apply Hs; right; exact X).
    assert (Hc : c <> 64) by (intros X; apply Hs; left; exact X).
    destruct (128 <=? c); [discriminate|]. destruct b.
    + destruct ((c <? 97) || (122 <? c)) eqn:Er; [discriminate|].
      destruct (unescape_from false s) as [t|] eqn:Et; [|discriminate]. cbn [option_map] in H.
      injection H as <-. apply orb_false_elim in Er as [E1 E2].
      apply Z.ltb_ge in E1. intros [X|X]; [lia|]. exact (IH _ _ Et Hs' X).
    + destruct (c =? bang); [exact (IH _ _ H Hs')|].
      destruct (is_upper c); [discriminate|].
      destruct (unescape_from false s) as [t|] eqn:Et; [|discriminate]. cbn [option_map] in H.
      injection H as <-. intros [X|X]; [congruence|]. exact (IH _ _ Et Hs' X).
Qed.

Lemma unescape_path_no_at e p : unescape_path e = EOk p -> ~ In 64 e -> ~ In 64 p.
Proof.
  unfold unescape_path, unescape_checked, unescape_string. destruct (unescape_from false e) as [s|] eqn:E; [|discriminate].
  destruct (path_ok s); [|discriminate]. intros [= <-]. eapply unescape_from_no_at; eauto.
Qed.

Lemma unescape_version_v e v : unescape_version (118 :: e) = EOk v -> exists v', v = 118 :: v'.
Proof.
  unfold unescape_version, unescape_checked, unescape_string. cbn [unescape_from].
  change (128 <=? 118) with false. change (118 =? bang) with false. change (is_upper 118) with false. cbv iota.
  destruct (unescape_from false e) as [s|]; [|discriminate]. cbn [option_map].
  destruct (elem_ok (118 :: s)); [|discriminate]. intros [= <-]. eauto.
Qed.

Lemma mod_ver_match_v m i : mod_ver_match m = true -> index_of 64 m = Some i -> exists r, skipn (S i) m = 118 :: r.
Proof.
  unfold mod_ver_match. intros H E. rewrite E in H. destruct (firstn i m); [discriminate|].
  destruct (contains_byte 64 (skipn (S i) m)); [discriminate|].
  destruct (skipn (S i) m) as [|c r]; [discriminate|].
  destruct (Z.eqb_spec c 118) as [->|Hne]; [eauto|].
  exfalso. clear -H Hne. destruct c as [|c|c]; try discriminate.
  repeat (destruct c as [c|c|]; try discriminate; try congruence).
Qed.

(* ---------------------------------------------------------------- the TestServer invariant *)

Section TestInv.
Variable leaf_hash : str -> hash.
Variable node_hash : hash -> hash -> hash.
Variable gosum : str -> str -> gres.
Variable sid : Type.
Variable Sg : sid -> str -> option str.
Variable sgn : signer sid.

Notation store_of := (store_of leaf_hash node_hash).
Notation range_hash := (range_hash leaf_hash node_hash).
Notation test_lookup := (test_lookup leaf_hash node_hash gosum).
Notation serve_test := (serve_test leaf_hash node_hash gosum sid Sg sgn).
Notation test_ops := (test_ops leaf_hash node_hash gosum sid Sg sgn).

(* one entry of the lookup table: the key of a module version without '@' in the path, pointing at
   the record that gosum produced for it *)
Definition entry_ok (recs : list str) (e : str * Z) : Prop :=
  exists p v data, fst e = p ++ 64 :: v /\ ~ In 64 p /\ gosum p v = OOk data /\
                   0 <= snd e /\ nth_error recs (Z.to_nat (snd e)) = Some data.

(* the part that does not depend on gosum: the stored hashes are those of the records *)
Definition HInv (st : tstate) : Prop := ts_hashes st = store_of (ts_records st).

Definition SInv (st : tstate) : Prop :=
  HInv st /\ Forall (entry_ok (ts_records st)) (ts_lookup st).

Lemma SInv_HInv st : SInv st -> HInv st.
Proof. intros [H _]. exact H. Qed.

Lemma SInv_0 : SInv tstate0.
Proof. split; [reflexivity | constructor]. Qed.

Lemma entry_ok_app recs ext e : entry_ok recs e -> entry_ok (recs ++ ext) e.
Proof.
  intros (p & v & d & E & Hp & Hg & H0 & Hn). exists p, v, d. repeat (split; [assumption|]).
  rewrite nth_error_app1; [exact Hn|]. apply nth_error_Some. congruence.
Qed.

(* TestServer.Lookup of a module version whose path has no '@' and whose version is not empty *)
Lemma test_lookup_spec st p v :
  SInv st -> zlen (ts_records st) + 1 < 2 ^ 62 -> ~ In 64 p -> v <> [] ->
  SInv (snd (test_lookup st p v)) /\
  ((exists id data, fst (test_lookup st p v) = OOk id /\ gosum p v = OOk data /\
                    0 <= id /\ nth_error (ts_records (snd (test_lookup st p v))) (Z.to_nat id) = Some data /\
                    (snd (test_lookup st p v) = st \/
                     ts_records (snd (test_lookup st p v)) = ts_records st ++ [data])) \/
   (snd (test_lookup st p v) = st /\ (forall id, fst (test_lookup st p v) <> OOk id) /\
    (forall d, gosum p v <> OOk d) /\
    (fst (test_lookup st p v) = OPanic -> gosum p v = OPanic))).
Proof.
  intros [Hh Hl] Hlen Hp Hv. unfold Server.test_lookup.
  assert (Ek : version_string p v = p ++ 64 :: v) by (destruct v; [congruence|reflexivity]).
  rewrite Ek. destruct (find_key (p ++ 64 :: v) (ts_lookup st)) as [id|] eqn:Ef.
  - cbn [fst snd]. split; [split; assumption|]. left.
    apply find_key_in in Ef. rewrite Forall_forall in Hl. destruct (Hl _ Ef) as (p' & v' & d & E & Hp' & Hg & H0 & Hn).
    cbn [fst snd] in *. destruct (key_inj _ _ _ _ Hp Hp' E) as [<- <-].
    exists id, d. split; [reflexivity|]. split; [exact Hg|]. split; [exact H0|]. split; [exact Hn|]. left. reflexivity.
  - destruct (gosum p v) as [data| | |] eqn:Eg; cbn [fst snd];
      try (split; [split; assumption|]; right; split; [reflexivity|]; split; [discriminate|]; split; [discriminate|]; intros; congruence).
    rewrite (stored_hashes_for_record_hash_ext node_hash _ _ _ (reader_of (ts_hashes st)) (safe_reader_eq _)).
    rewrite Hh.
    assert (Hlen' : zlen (ts_records st ++ [data]) < 2 ^ 62) by (rewrite zlen_app; change (zlen [data]) with 1; lia).
    destruct (stored_hashes_ok leaf_hash node_hash (ts_records st) data Hlen') as (hs & E & Est & _).
    unfold stored_hashes in E. rewrite E. cbn [fst snd ts_records ts_hashes ts_lookup].
    assert (Hnth : nth_error (ts_records st ++ [data]) (Z.to_nat (zlen (ts_records st))) = Some data).
    { unfold zlen. rewrite Nat2Z.id, nth_error_app2, Nat.sub_diag by lia. reflexivity. }
    split.
    + split; [cbn; symmetry; exact Est|]. cbn. apply Forall_app. split.
      * revert Hl. apply Forall_impl. intros e. apply entry_ok_app.
      * constructor; [|constructor]. exists p, v, data. cbn [fst snd].
        repeat (split; [first [reflexivity | assumption | apply zlen_nonneg]|]). exact Hnth.
    + left. exists (zlen (ts_records st)), data. split; [reflexivity|]. split; [reflexivity|].
      split; [apply zlen_nonneg|]. split; [exact Hnth|]. right. reflexivity.
Qed.

(* every request keeps the invariant; the log only grows, by at most one record *)
Theorem serve_test_inv st path :
  SInv st -> zlen (ts_records st) + 1 < 2 ^ 62 ->
  SInv (snd (serve_test st path)) /\
  (snd (serve_test st path) = st \/
   exists data, ts_records (snd (serve_test st path)) = ts_records st ++ [data]).
Proof.
  intros HI Hlen. unfold Server.serve_test.
  destruct (serve_state test_ops st path) as [E|(m & i & p & v & _ & Em & Ei & Ep & Ev & E)]; rewrite E.
  - split; [exact HI|]. left. reflexivity.
  - cbn [op_lookup Server.test_ops].
    destruct (mod_ver_match_v m i Em Ei) as [r Er]. rewrite Er in Ev.
    destruct (unescape_version_v r v Ev) as [v' ->].
    assert (Hp : ~ In 64 p) by (eapply unescape_path_no_at; [exact Ep | apply index_of_firstn_notin; exact Ei]).
    destruct (test_lookup_spec st p (118 :: v') HI Hlen Hp ltac:(discriminate)) as [HI' Hc].
    split; [exact HI'|].
    destruct Hc as [(id & d & _ & _ & _ & _ & [Es|Es])|[Es _]]; [left; exact Es | right; eauto | left; exact Es].
Qed.

(* ---------------------------------------------------------------- tiles *)

(* a tile all of whose hashes exist in a tree of size N (any width up to what is there) *)
Definition servable (h N : Z) (t : tile) : Prop :=
  tH t = h /\ 0 <= tL t /\ 0 <= tN t /\ 1 <= tW t <= 2 ^ h /\
  tN t * 2 ^ h + tW t <= N / 2 ^ (h * tL t).

Lemma tree_tile_servable h N t : tree_tile h N t -> servable h N t.
Proof. intros (A & B & C & D & E & _). repeat split; assumption || apply D. Qed.

Lemma servable_mono h N N' t : 1 <= h -> N <= N' -> servable h N t -> servable h N' t.
Proof.
  intros Hh Hle (A & B & C & D & E). repeat split; try assumption; try apply D.
  assert (0 < 2 ^ (h * tL t)) by (apply pow2_pos; nia).
  pose proof (Z.div_le_mono N N' (2 ^ (h * tL t)) ltac:(lia) Hle). lia.
Qed.

Lemma servable_valid h N t : 1 <= h <= 30 -> N < 2 ^ 62 -> servable h N t -> valid_tile t.
Proof.
  intros Hh HN (A & B & C & D & E).
  assert (Hk : 0 <= h * tL t) by nia.
  pose proof (pow2_pos (h * tL t) Hk) as Hp. pose proof (pow2_pos h ltac:(lia)) as Hph.
  assert (Hq : 1 <= N / 2 ^ (h * tL t)) by nia.
  assert (HN1 : 2 ^ (h * tL t) <= N).
  { pose proof (Z.mul_div_le N (2 ^ (h * tL t)) Hp). nia. }
  assert (Hk62 : h * tL t < 62).
  { destruct (Z_lt_le_dec (h * tL t) 62); [assumption|].
    pose proof (pow2_le 62 (h * tL t) ltac:(lia)). lia. }
  assert (HN2 : N / 2 ^ (h * tL t) <= N).
  { apply Z.div_le_upper_bound; [lia|]. nia. }
  assert (H63 : 2 ^ 62 < 2 ^ 63) by (apply pow2_lt; lia).
  unfold valid_tile. rewrite A. repeat split; try lia; try apply D; nia.
Qed.

Lemma store_holds_le T N N' st : N' <= N -> store_holds T N st -> store_holds T N' st.
Proof. intros Hle H l o Hl Ho Hlo. apply H; lia. Qed.

Lemma read_tile_data_servable T N st h t :
  1 <= h -> 0 <= N -> store_holds T N st -> servable h N t ->
  read_tile_data t (reader_of st) = TOk (honest_tile T t).
Proof.
  intros Hh HN Hst (A & B & C & D & E).
  assert (Hk : 0 <= h * tL t) by nia.
  pose proof (pow2_pos (h * tL t) Hk) as Hp.
  set (N' := (tN t * 2 ^ h + tW t) * 2 ^ (h * tL t)).
  assert (HN' : N' <= N).
  { unfold N'. pose proof (Z.mul_div_le N (2 ^ (h * tL t)) Hp). nia. }
  pose proof (pow2_pos h ltac:(lia)) as Hph.
  apply (read_tile_data_honest T N' st h t Hh).
  - unfold N'. nia.
  - eapply store_holds_le; eauto.
  - assert (Ediv : N' / 2 ^ (h * tL t) = tN t * 2 ^ h + tW t) by (unfold N'; apply Z.div_mul; lia).
    unfold tree_tile. rewrite Ediv. repeat split; try assumption; try apply D; lia.
Qed.

Lemma lookup_prefix_eq : lookup_prefix = [47; 108; 111; 111; 107; 117; 112; 47].
Proof. vm_compute. reflexivity. Qed.
Lemma latest_path_eq : latest_path = [47; 108; 97; 116; 101; 115; 116].
Proof. vm_compute. reflexivity. Qed.
Lemma tile_prefix_path_eq : tile_prefix_path = [47; 116; 105; 108; 101; 47].
Proof. vm_compute. reflexivity. Qed.

Lemma tile_path_head t : exists r, tile_path t = 116 :: 105 :: 108 :: 101 :: 47 :: r.
Proof. unfold tile_path. eexists. reflexivity. Qed.

(* the request "/" ++ Tile.Path() reaches the tile branch with the tile parsed back *)
Lemma serve_tile_path {St : Type} (ops : server_ops St) st t :
  valid_tile t -> serve ops st (47 :: tile_path t) = serve_tile ops st (47 :: tile_path t) /\
                  parse_tile_path (skipn 1 (47 :: tile_path t)) = TOk t.
Proof.
  intros Hv. split; [|cbn [skipn]; apply parse_tile_path_of_path; exact Hv].
  destruct (tile_path_head t) as [r ->]. unfold serve.
  rewrite lookup_prefix_eq, latest_path_eq, tile_prefix_path_eq.
  cbn [has_prefix str_eqb Z.eqb Pos.eqb andb]. destruct r; reflexivity.
Qed.

Theorem serve_tile_servable st h t :
  HInv st -> zlen (ts_records st) < 2 ^ 62 -> 1 <= h <= 30 -> servable h (zlen (ts_records st)) t ->
  serve_test st (47 :: tile_path t) = (HOk COctet (honest_tile (range_hash (ts_records st)) t), st) /\
  read_tile_data t (reader_of (store_of (ts_records st))) = TOk (honest_tile (range_hash (ts_records st)) t).
Proof.
  intros Hh Hlen Hhr Hs. unfold HInv in Hh.
  assert (Hv : valid_tile t) by (eapply servable_valid; eauto).
  destruct (store_of_inv leaf_hash node_hash (ts_records st) Hlen) as [Hst _].
  assert (Hrd : read_tile_data t (reader_of (store_of (ts_records st))) = TOk (honest_tile (range_hash (ts_records st)) t)).
  { apply (read_tile_data_servable _ (zlen (ts_records st)) _ h); try assumption; try lia. apply zlen_nonneg. }
  split; [|exact Hrd].
  unfold Server.serve_test. destruct (serve_tile_path test_ops st t Hv) as [-> Hp].
  unfold serve_tile. rewrite Hp.
  destruct Hs as (_ & HL & _). destruct (Z.eqb_spec (tL t) (-1)); [lia|].
  cbn [op_read_tile_data Server.test_ops]. unfold test_read_tile_data.
  rewrite (read_tile_data_ext t _ (reader_of (ts_hashes st)) (safe_reader_eq _)), Hh, Hrd. reflexivity.
Qed.

(* the tiles a tile hash reader of the current tree asks for (NewTilesProofs.tree_tile): the server is
   the honest tile reader of TileProofsHonest / the publisher content of NewTilesProofsData *)
Theorem serve_tile_honest st h t :
  HInv st -> zlen (ts_records st) < 2 ^ 62 -> 1 <= h <= 30 -> tree_tile h (zlen (ts_records st)) t ->
  serve_test st (47 :: tile_path t) = (HOk COctet (honest_tile (range_hash (ts_records st)) t), st) /\
  read_tile_data t (reader_of (store_of (ts_records st))) = TOk (honest_tile (range_hash (ts_records st)) t).
Proof. intros HI Hlen Hh Ht. apply (serve_tile_servable st h t); auto. apply tree_tile_servable. exact Ht. Qed.

(* data tiles *)
Theorem serve_data_tile_honest st h n w :
  1 <= h <= 30 -> 0 <= n -> 1 <= w <= 2 ^ h -> n * 2 ^ h + w <= zlen (ts_records st) -> zlen (ts_records st) < 2 ^ 62 ->
  Forall (fun t => is_valid_record_text t = true) (slice (ts_records st) (n * 2 ^ h) w) ->
  serve_test st (47 :: tile_path (mkTile h (-1) n w))
  = (HOk CText (concat (map (fun t => t ++ [10]) (slice (ts_records st) (n * 2 ^ h) w))), st).
Proof.
  intros Hh Hn Hw Hle Hlen Hvalid.
  pose proof (pow2_pos h ltac:(lia)) as Hph.
  assert (H63 : 2 ^ 62 < 2 ^ 63) by (apply pow2_lt; lia).
  assert (Hv : valid_tile (mkTile h (-1) n w)).
  { unfold valid_tile. cbn [tH tL tN tW]. repeat split; try lia; nia. }
  unfold Server.serve_test. destruct (serve_tile_path test_ops st _ Hv) as [-> Hp].
  unfold serve_tile. rewrite Hp. cbn [tL tH tN tW]. change (-1 =? -1) with true. cbv iota.
  rewrite Z.shiftl_mul_pow2 by lia.
  cbn [op_read_records Server.test_ops]. unfold test_read_records.
  destruct (Z.leb_spec w 0); [lia|]. destruct (Z.ltb_spec (n * 2 ^ h) 0); [nia|].
  destruct (Z.ltb_spec (zlen (ts_records st)) (n * 2 ^ h + w)); [lia|].
  fold (slice (ts_records st) (n * 2 ^ h) w).
  assert (El : zlen (slice (ts_records st) (n * 2 ^ h) w) = w).
  { unfold slice, zlen in *. rewrite firstn_length, skipn_length. lia. }
  rewrite El, Z.eqb_refl. cbn [negb]. rewrite (data_tile_body_some _ _ Hvalid). reflexivity.
Qed.

(* a well-formed hash tile that reaches outside the stored hashes: TestServer panics *)
Theorem serve_tile_out_of_range_panics st t :
  valid_tile t -> 0 <= tL t ->
  read_tile_data t (reader_of (ts_hashes st)) = TErr TEReader ->
  serve_test st (47 :: tile_path t) = (HPanic, st).
Proof.
  intros Hv HL Hrd. unfold Server.serve_test. destruct (serve_tile_path test_ops st t Hv) as [-> Hp].
  unfold serve_tile. rewrite Hp. destruct (Z.eqb_spec (tL t) (-1)); [lia|].
  cbn [op_read_tile_data Server.test_ops]. unfold test_read_tile_data.
  rewrite (read_tile_data_ext t _ (reader_of (ts_hashes st)) (safe_reader_eq _)), Hrd. reflexivity.
Qed.

(* ---------------------------------------------------------------- reachable states *)

Inductive reachable : tstate -> Prop :=
| reach_0 : reachable tstate0
| reach_get st path : reachable st -> reachable (snd (serve_test st path)).

Lemma test_lookup_records_mono st p v :
  exists ext, ts_records (snd (test_lookup st p v)) = ts_records st ++ ext.
Proof.
  unfold Server.test_lookup. destruct (find_key _ _); [exists []; rewrite app_nil_r; reflexivity|].
  destruct (gosum p v) as [data| | |]; try (exists []; rewrite app_nil_r; reflexivity).
  destruct (stored_hashes_for_record_hash _ _ _ _); exists [data]; reflexivity.
Qed.

Lemma serve_records_mono st path :
  exists ext, ts_records (snd (serve_test st path)) = ts_records st ++ ext.
Proof.
  unfold Server.serve_test.
  destruct (serve_state test_ops st path) as [E|(m & i & p & v & _ & _ & _ & _ & _ & E)]; rewrite E.
  - exists []. rewrite app_nil_r. reflexivity.
  - apply test_lookup_records_mono.
Qed.

(* every state an honest TestServer reaches by serving requests satisfies the invariant *)
Theorem reachable_inv st : reachable st -> zlen (ts_records st) + 1 < 2 ^ 62 -> SInv st.
Proof.
  induction 1 as [|st path Hr IH]; intros Hlen; [apply SInv_0|].
  destruct (serve_records_mono st path) as [ext Eext].
  assert (Hlen0 : zlen (ts_records st) + 1 < 2 ^ 62).
  { rewrite Eext, zlen_app in Hlen. pose proof (zlen_nonneg ext). lia. }
  apply serve_test_inv; auto.
Qed.

End TestInv.
