(* Proofs about the note model, part 2: the Sign/Open round trip (C07 sign_open_roundtrip),
   the format of Sign's output, and the refutation of the round trip for signer names with
   C0 control characters (finding K2).
   Contents: stepping lemmas for the UTF-8 scans (decode_char, pscan_step, pscan_app), names
   (valid_name_facts), blocks of newline-terminated lines (block_of), one built signature
   line (parse_sig_line_built), the signature loop on built lines (open_loop_rt). *)
From Verif.Base Require Import Bytes Utf8 Base64 Base64Proofs.
From Verif.Gen Require Import GenConsts GenUnicode.
From Verif.Note Require Import Note NoteProofs.

Ltac break_decode :=
  repeat match goal with
  | |- context [if ?c then _ else _] => destruct c eqn:?
  | |- context [match ?l with [] => _ | _ :: _ => _ end] => destruct l
  end.

Ltac rewrite_conds :=
  repeat match goal with H : ?c = _ |- context [?c] => rewrite H end.

Ltac to_arith :=
  repeat match goal with H : context [if ?c then _ else _] |- _ => destruct c eqn:? end;
  rewrite ?andb_true_iff, ?andb_false_iff, ?Z.leb_le, ?Z.leb_gt, ?Z.ltb_lt, ?Z.ltb_ge, ?Z.eqb_eq, ?Z.eqb_neq in *.

Lemma decode_char s r w :
  Utf8.decode s = (r, w) -> s <> [] ->
  (r = rune_error /\ w = 1%nat) \/
  ((1 <= w <= length s)%nat /\ (forall t, Utf8.decode (firstn w s ++ t) = (r, w)) /\
   ((w = 1%nat /\ r = hd 0 s /\ r < 128) \/ (128 <= r /\ Forall (fun b => 128 <= b) (firstn w s)))).
Proof.
  intros H Hne. destruct s as [|b0 rest]; [congruence|]. clear Hne. revert H. unfold Utf8.decode, cont.
  break_decode; intros [= <- <-]; try (left; split; reflexivity); right.
  all: split; [cbn [length]; lia|].
  all: split; [intros t; cbn [firstn app]; unfold Utf8.decode, cont; rewrite_conds; reflexivity|].
  all: cbn [firstn hd].
  all: to_arith.
  all: try (left; repeat split; lia).
  all: right; split; [unfold rune_error in *; lia|repeat constructor; lia].
Qed.

Lemma decode_width s : s <> [] -> (1 <= snd (Utf8.decode s))%nat.
Proof.
  intros Hne. destruct (Utf8.decode s) as [r w] eqn:E.
  destruct (decode_char _ _ _ E Hne) as [[_ ->]|[[H _] _]]; cbn [snd]; lia.
Qed.

Lemma runes_w_fuel f1 : forall f2 s, (length s <= f1)%nat -> (length s <= f2)%nat -> runes_w f1 s = runes_w f2 s.
Proof.
  induction f1 as [|f1 IH]; intros f2 s H1 H2.
  - destruct s; [|cbn in H1; lia]. destruct f2; reflexivity.
  - destruct f2 as [|f2].
    + destruct s; [reflexivity|cbn in H2; lia].
    + destruct s as [|b r]; [reflexivity|].
      assert (Hne : b :: r <> []) by discriminate.
      pose proof (decode_width _ Hne) as Hw.
      cbn [runes_w]. destruct (Utf8.decode (b :: r)) as [rn w]. cbn [snd] in Hw.
      f_equal. apply IH; rewrite skipn_length; cbn [length] in *; lia.
Qed.

(* a predicate over the decoded runes of a string, as Open's scan and utf8.ValidString do *)
Definition pscan (p : Z * nat -> bool) (s : str) : bool := forallb p (runes_w (length s) s).

Lemma pscan_step p s :
  s <> [] -> pscan p s = p (Utf8.decode s) && pscan p (skipn (snd (Utf8.decode s)) s).
Proof.
  intros Hne. pose proof (decode_width _ Hne) as Hw.
  destruct s as [|b r]; [congruence|]. unfold pscan. cbn [length runes_w].
  destruct (Utf8.decode (b :: r)) as [rn w]. cbn [snd] in *. cbn [forallb]. f_equal. f_equal.
  apply runes_w_fuel; rewrite skipn_length; cbn [length]; lia.
Qed.

Lemma runes_step s :
  s <> [] -> Utf8.runes s = fst (Utf8.decode s) :: Utf8.runes (skipn (snd (Utf8.decode s)) s).
Proof.
  intros Hne. pose proof (decode_width _ Hne) as Hw.
  destruct s as [|b r]; [congruence|]. unfold Utf8.runes. cbn [length runes_w].
  destruct (Utf8.decode (b :: r)) as [rn w]. cbn [snd fst] in *. cbn [map fst]. f_equal. f_equal.
  apply runes_w_fuel; rewrite skipn_length; cbn [length]; lia.
Qed.

Definition not_err1 (p : Z * nat -> bool) : Prop :=
  forall r w, p (r, w) = true -> ~ (r = rune_error /\ w = 1%nat).

Lemma pscan_app p a b : not_err1 p -> pscan p a = true -> pscan p (a ++ b) = pscan p b.
Proof.
  intros Hp. remember (length a) as n eqn:Hn. assert (Hle : (length a <= n)%nat) by lia. clear Hn.
  revert a Hle. induction n as [|n IH]; intros a Hle Ha.
  - destruct a; [reflexivity|cbn in Hle; lia].
  - destruct a as [|c a']; [reflexivity|]. set (a := c :: a') in *.
    assert (Hne : a <> []) by discriminate.
    rewrite (pscan_step p a Hne) in Ha. apply andb_true_iff in Ha. destruct Ha as [Hd Hr].
    destruct (Utf8.decode a) as [r w] eqn:E. cbn [snd] in Hr.
    destruct (decode_char _ _ _ E Hne) as [Herr|[[Hw1 Hw2] [Happ _]]].
    { exfalso. exact (Hp r w Hd Herr). }
    assert (Hab : a ++ b = firstn w a ++ (skipn w a ++ b)) by (rewrite app_assoc, firstn_skipn; reflexivity).
    assert (Hdab : Utf8.decode (a ++ b) = (r, w)) by (rewrite Hab; apply Happ).
    assert (Hne2 : a ++ b <> []) by (subst a; discriminate).
    rewrite (pscan_step p (a ++ b) Hne2), Hdab, Hd. cbn [snd andb].
    rewrite skipn_app. replace (w - length a)%nat with O by lia. cbn [skipn].
    apply IH; [rewrite skipn_length; subst a; cbn [length] in *; lia|exact Hr].
Qed.

Definition scan_p (rw : Z * nat) : bool := negb (bad_rune rw).
Definition valid_p (rw : Z * nat) : bool := negb ((fst rw =? rune_error) && Nat.eqb (snd rw) 1).

Lemma scan_ok_pscan s : scan_ok s = pscan scan_p s.
Proof. reflexivity. Qed.
Lemma valid_pscan s : Utf8.valid s = pscan valid_p s.
Proof. reflexivity. Qed.

Lemma scan_p_not_err1 : not_err1 scan_p.
Proof.
  intros r w H [-> ->]. unfold scan_p, bad_rune in H. cbn in H. discriminate.
Qed.

Lemma scan_ok_app a b : scan_ok a = true -> scan_ok (a ++ b) = scan_ok b.
Proof. rewrite !scan_ok_pscan. apply pscan_app. exact scan_p_not_err1. Qed.

Lemma scan_ok_ascii s : Forall (fun b => 32 <= b < 128) s -> scan_ok s = true.
Proof.
  induction 1 as [|b r Hb _ IH]; [reflexivity|].
  rewrite scan_ok_pscan, pscan_step by discriminate.
  assert (E : Utf8.decode (b :: r) = (b, 1%nat)).
  { unfold Utf8.decode. destruct (Z.ltb_spec b 128); [reflexivity|lia]. }
  rewrite E. cbn [snd skipn]. rewrite <- scan_ok_pscan, IH, andb_true_r.
  unfold scan_p, bad_rune, rune_error. cbn [fst snd].
  destruct (Z.ltb_spec b 32); [lia|]. destruct (Z.eqb_spec b 65533); [lia|]. reflexivity.
Qed.

Lemma scan_ok_valid_name s : Utf8.valid s = true -> Forall (fun b => 32 <= b) s -> scan_ok s = true.
Proof.
  remember (length s) as n eqn:Hn. assert (Hle : (length s <= n)%nat) by lia. clear Hn.
  revert s Hle. induction n as [|n IH]; intros s Hle Hv Hb.
  - destruct s; [reflexivity|cbn in Hle; lia].
  - destruct s as [|c s']; [reflexivity|]. set (s := c :: s') in *.
    assert (Hne : s <> []) by discriminate.
    rewrite valid_pscan, (pscan_step _ s Hne) in Hv. apply andb_true_iff in Hv. destruct Hv as [Hd Hr].
    rewrite scan_ok_pscan, (pscan_step _ s Hne).
    destruct (Utf8.decode s) as [r w] eqn:E. cbn [snd] in *.
    assert (Hskip : Forall (fun b => 32 <= b) (skipn w s)).
    { rewrite <- (firstn_skipn w s) in Hb. apply Forall_app in Hb. tauto. }
    rewrite <- scan_ok_pscan, (IH (skipn w s)); [| rewrite skipn_length; pose proof (decode_width _ Hne) as Hw; rewrite E in Hw; subst s; cbn [snd length] in *; lia | rewrite valid_pscan; exact Hr | exact Hskip].
    rewrite andb_true_r. unfold valid_p in Hd. cbn [fst snd] in Hd.
    unfold scan_p, bad_rune. cbn [fst snd].
    destruct (decode_char _ _ _ E Hne) as [[-> ->]|[_ [_ [(-> & Hr1 & _)|[Hr2 _]]]]].
    + cbn in Hd. discriminate.
    + subst s. cbn [hd] in Hr1. inversion Hb; subst.
      destruct (Z.ltb_spec c 32); [lia|]. cbn [andb orb]. apply negb_true_iff in Hd. rewrite Hd. reflexivity.
    + destruct (Z.ltb_spec r 32); [lia|]. cbn [andb orb]. apply negb_true_iff in Hd. rewrite Hd. reflexivity.
Qed.

Lemma in_runes_ascii b s : Utf8.valid s = true -> In b s -> b < 128 -> In b (Utf8.runes s).
Proof.
  remember (length s) as n eqn:Hn. assert (Hle : (length s <= n)%nat) by lia. clear Hn.
  revert s Hle. induction n as [|n IH]; intros s Hle Hv Hin Hb.
  - destruct s; [destruct Hin|cbn in Hle; lia].
  - destruct s as [|c s']; [destruct Hin|]. set (s := c :: s') in *.
    assert (Hne : s <> []) by discriminate.
    rewrite valid_pscan, (pscan_step _ s Hne) in Hv. apply andb_true_iff in Hv. destruct Hv as [Hd Hr].
    rewrite (runes_step s Hne).
    destruct (Utf8.decode s) as [r w] eqn:E. cbn [snd fst] in *.
    pose proof (decode_width _ Hne) as Hw. rewrite E in Hw. cbn [snd] in Hw.
    assert (Hrec : In b (skipn w s) -> In b (Utf8.runes (skipn w s))).
    { intros Hi. apply IH; [rewrite skipn_length; subst s; cbn [length] in *; lia|rewrite valid_pscan; exact Hr|exact Hi|exact Hb]. }
    rewrite <- (firstn_skipn w s) in Hin. apply in_app_or in Hin.
    destruct (decode_char _ _ _ E Hne) as [[-> ->]|[_ [_ [(-> & Hr1 & _)|[_ Hf]]]]].
    + unfold valid_p in Hd. cbn in Hd. discriminate.
    + destruct Hin as [Hi|Hi]; [|right; apply Hrec; exact Hi].
      subst s. cbn [firstn hd] in *. destruct Hi as [<-|[]]. left. exact Hr1.
    + destruct Hin as [Hi|Hi]; [|right; apply Hrec; exact Hi].
      rewrite Forall_forall in Hf. specialize (Hf b Hi). lia.
Qed.

Lemma valid_name_facts name :
  is_valid_name name = true ->
  name <> [] /\ Utf8.valid name = true /\ ~ In 32 name /\ ~ In 10 name /\ ~ In 43 name.
Proof.
  unfold is_valid_name. rewrite !andb_true_iff, !negb_true_iff. intros [[[Hne Hv] Hs] Hp].
  split; [destruct name; [discriminate|discriminate]|]. split; [exact Hv|].
  assert (Hsp : forall b, b < 128 -> unicode_IsSpace b = true -> ~ In b name).
  { intros b Hb Hsb Hin. apply (in_runes_ascii b name Hv) in Hin; [|exact Hb].
    assert (existsb unicode_IsSpace (Utf8.runes name) = true) by (apply existsb_exists; eauto).
    congruence. }
  split; [apply Hsp; [lia|reflexivity]|]. split; [apply Hsp; [lia|reflexivity]|].
  intros Hin. unfold contains_byte in Hp.
  assert (existsb (fun x => x =? 43) name = true) by (apply existsb_exists; exists 43; split; [exact Hin|reflexivity]).
  congruence.
Qed.

(* ---- blocks of newline-terminated lines -------------------------------------------------- *)

Definition block_of (bodies : list str) : str := concat (map (fun b => b ++ [10]) bodies).
Definition body_ok (b : str) : Prop := b <> [] /\ ~ In 10 b.
Definition no_nn (l : str) : Prop := forall k, has_prefix (skipn k l) note_sigSplit = false.

Lemma no_nn_nil : no_nn [].
Proof. intros k. rewrite skipn_nil. reflexivity. Qed.

Lemma no_nn_cons x l : no_nn l -> (x <> 10 \/ hd 0 l <> 10) -> no_nn (x :: l).
Proof.
  intros H Hx [|k]; cbn [skipn]; [|apply H]. unfold note_sigSplit. cbn [has_prefix].
  destruct (Z.eqb_spec 10 x) as [<-|]; [|reflexivity]. cbn [andb].
  destruct l as [|y l]; cbn [has_prefix]; [reflexivity|]. cbn [hd] in Hx.
  destruct (Z.eqb_spec 10 y) as [<-|]; [|reflexivity]. exfalso. destruct Hx; congruence.
Qed.

Lemma body_line_no_nn body rest :
  body_ok body -> no_nn rest -> hd 0 rest <> 10 ->
  no_nn (body ++ 10 :: rest) /\ hd 0 (body ++ 10 :: rest) <> 10.
Proof.
  intros [Hne Hn] Hr Hh. induction body as [|b body IH]; [congruence|].
  assert (Hb : b <> 10) by (intros ->; apply Hn; left; reflexivity).
  split; [|exact Hb]. cbn [app]. apply no_nn_cons; [|left; exact Hb].
  destruct body as [|b2 body].
  - cbn [app]. apply no_nn_cons; [exact Hr|right; exact Hh].
  - apply IH; [discriminate|]. intros Hi; apply Hn; right; exact Hi.
Qed.

Lemma block_cons body rest : block_of (body :: rest) = body ++ 10 :: block_of rest.
Proof. unfold block_of. cbn [map concat]. rewrite <- app_assoc. reflexivity. Qed.

Lemma block_no_nn bodies :
  Forall body_ok bodies -> no_nn (block_of bodies) /\ hd 0 (block_of bodies) <> 10.
Proof.
  induction 1 as [|body rest Hb _ [IH1 IH2]].
  - split; [apply no_nn_nil|cbn; lia].
  - rewrite block_cons. apply body_line_no_nn; assumption.
Qed.

Lemma split_on_body body rest :
  ~ In 10 body -> split_on 10 (body ++ 10 :: rest) = body :: split_on 10 rest.
Proof.
  induction body as [|c body IH]; intros Hn.
  - cbn [app split_on]. rewrite Z.eqb_refl. reflexivity.
  - cbn [app split_on]. destruct (Z.eqb_spec c 10) as [->|_]; [exfalso; apply Hn; left; reflexivity|].
    rewrite IH; [reflexivity|]. intros Hi; apply Hn; right; exact Hi.
Qed.

Lemma sig_lines_block bodies : Forall body_ok bodies -> sig_lines (block_of bodies) = bodies.
Proof.
  intros H. unfold sig_lines.
  assert (E : split_on 10 (block_of bodies) = bodies ++ [[]]).
  { induction H as [|body rest [_ Hb] _ IH]; [reflexivity|].
    rewrite block_cons, split_on_body, IH by exact Hb. reflexivity. }
  rewrite E. apply removelast_last.
Qed.

Lemma block_last bodies :
  bodies <> [] -> is_empty (block_of bodies) || negb (last (block_of bodies) 0 =? 10) = false.
Proof.
  intros Hne. destruct (exists_last Hne) as (bs & b & ->).
  assert (E : block_of (bs ++ [b]) = (block_of bs ++ b) ++ [10]).
  { unfold block_of. rewrite map_app, concat_app. cbn [map concat]. rewrite app_nil_r, app_assoc. reflexivity. }
  rewrite E, last_last, Z.eqb_refl. destruct (block_of bs ++ b); reflexivity.
Qed.

Lemma scan_ok_block bodies :
  Forall (fun b => scan_ok b = true) bodies -> scan_ok (block_of bodies) = true.
Proof.
  induction 1 as [|body rest Hb _ IH]; [reflexivity|].
  rewrite block_cons, scan_ok_app by exact Hb.
  change (10 :: block_of rest) with ([10] ++ block_of rest). rewrite scan_ok_app by reflexivity. exact IH.
Qed.

(* ---- one built signature line ---------------------------------------------------------------- *)

Lemma be32_enc_bytes h : Forall byte (be32_enc h).
Proof. unfold be32_enc, byte. repeat constructor; apply Z.mod_pos_bound; lia. Qed.

Lemma be32_dec_enc h rest : 0 <= h < 2 ^ 32 -> be32_dec (be32_enc h ++ rest) = h.
Proof.
  intros Hh. unfold be32_enc, be32_dec. cbn [app]. change (2 ^ 32) with 4294967296 in Hh.
  Z.div_mod_to_equations. lia.
Qed.

Lemma b64_char_range c : is_b64_char c = true -> 32 < c < 128 /\ c <> 10.
Proof.
  unfold is_b64_char, sextet, is_upper, is_lower, is_digit, pad_char.
  repeat zb_step; cbn [andb]; intros Hcc; try discriminate; lia.
Qed.

Lemma b64_encode_nonempty s : s <> [] -> b64_encode s <> [].
Proof. unfold b64_encode. destruct s as [|a [|b [|c r]]]; [congruence|discriminate..]. Qed.

Lemma parse_sig_line_built name h sig :
  is_valid_name name = true -> 0 <= h < 2 ^ 32 -> sig <> [] -> Forall byte sig ->
  parse_sig_line (note_sigPrefix ++ name ++ 32 :: b64_encode (be32_enc h ++ sig)) =
  Some (name ++ 32 :: b64_encode (be32_enc h ++ sig), name, h, sig, b64_encode (be32_enc h ++ sig)).
Proof.
  intros Hv Hh Hne Hb. set (raw := be32_enc h ++ sig). set (b64 := b64_encode raw).
  assert (Hraw : Forall byte raw) by (apply Forall_app; split; [apply be32_enc_bytes|exact Hb]).
  assert (Hd : b64_decode b64 = Some raw) by (apply b64_decode_encode; exact Hraw).
  destruct (valid_name_facts _ Hv) as (_ & _ & H32 & _ & _).
  unfold parse_sig_line. rewrite has_prefix_app. cbn [negb].
  change (skipn (length note_sigPrefix) (note_sigPrefix ++ name ++ 32 :: b64)) with (name ++ 32 :: b64).
  rewrite (chop_app 32 name b64 H32), Hd, Hv. cbn [negb orb].
  assert (Hbe : b64 <> []) by (apply b64_encode_nonempty; subst raw; unfold be32_enc; discriminate).
  destruct b64 as [|c0 b64'] eqn:Eb; [congruence|]. cbn [is_empty orb].
  assert (Hlen : 5 <= len raw).
  { subst raw. unfold len. rewrite app_length. destruct sig; [congruence|]. cbn [length be32_enc]. lia. }
  destruct (Z.ltb_spec (len raw) 5); [lia|].
  subst raw. rewrite be32_dec_enc by exact Hh.
  change (skipn 4 (be32_enc h ++ sig)) with sig. reflexivity.
Qed.

Lemma built_line_ok name h sig :
  is_valid_name name = true -> Forall (fun b => 32 <= b) name -> Forall byte sig ->
  let body := note_sigPrefix ++ name ++ 32 :: b64_encode (be32_enc h ++ sig) in
  body_ok body /\ scan_ok body = true.
Proof.
  intros Hv Hc Hb body. destruct (valid_name_facts _ Hv) as (_ & Hval & _ & H10 & _).
  assert (Hraw : Forall byte (be32_enc h ++ sig)) by (apply Forall_app; split; [apply be32_enc_bytes|exact Hb]).
  pose proof (b64_encode_alphabet _ Hraw) as Hal. fold (b64_encode (be32_enc h ++ sig)) in Hal.
  split; [split|].
  - subst body. discriminate.
  - subst body. intros Hi. apply in_app_or in Hi. destruct Hi as [Hi|Hi].
    { cbn in Hi. intuition lia. }
    apply in_app_or in Hi. destruct Hi as [Hi|[Hi|Hi]]; [exact (H10 Hi)|lia|].
    rewrite Forall_forall in Hal. apply Hal, b64_char_range in Hi. lia.
  - subst body. rewrite scan_ok_app by reflexivity.
    rewrite scan_ok_app by (apply scan_ok_valid_name; assumption).
    apply scan_ok_ascii. constructor; [lia|].
    eapply Forall_impl; [|exact Hal]. intros c Hc'. apply b64_char_range in Hc'. lia.
Qed.

(* ---- the round trip -------------------------------------------------------------------------- *)

Lemma has_suffix_nl t : has_suffix t [10] = true -> exists t', t = t' ++ [10].
Proof.
  unfold has_suffix. intros H. apply has_prefix_true in H. destruct H as [r Hr].
  exists (rev r). rewrite <- (rev_involutive t), Hr. reflexivity.
Qed.

Lemma sign_old_spec have old out :
  sign_old have old = Ok out ->
  out = concat (map (fun s => sig_line (s_name s) (s_b64 s))
                    (filter (fun s => negb (mem_nh (s_name s, s_hash s) have)) old)).
Proof.
  revert out. induction old as [|sg rest IH]; intros out; cbn [sign_old].
  - intros [= <-]. reflexivity.
  - destruct (negb (is_valid_name (s_name sg))); [discriminate|]. cbn [filter].
    destruct (mem_nh (s_name sg, s_hash sg) have); cbn [negb]; [apply IH|].
    destruct (b64_decode (s_b64 sg)) as [raw|]; [|discriminate].
    destruct ((len raw <? 4) || negb (be32_dec raw =? s_hash sg)); [discriminate|].
    destruct (sign_old have rest) as [o|]; [|discriminate]. intros [= <-].
    cbn [map concat]. rewrite (IH o eq_refl). reflexivity.
Qed.

Section RoundTrip.
  Variable vid : Type.
  Variable V : vid -> str -> str -> bool.
  Variable sid : Type.
  Variable Sg : sid -> str -> option str.
  Variable known : verifiers vid.
  Variable t : str.

  (* the signature record Open reports for a signer's signature bytes *)
  Definition signature_of (s : signer sid) (sig : str) : signature :=
    {| s_name := sg_name s; s_hash := sg_hash s; s_b64 := b64_encode (be32_enc (sg_hash s) ++ sig) |}.

  Definition is_known (s : signature) : bool :=
    match lookup vid known (s_name s) (s_hash s) with LUnique _ => true | _ => false end.
  Definition is_unknown (s : signature) : bool :=
    match lookup vid known (s_name s) (s_hash s) with LUnknown => true | _ => false end.

  (* first signature per (name, hash) *)
  Fixpoint dedup_key (seen : list (str * Z)) (l : list signature) : list signature :=
    match l with
    | [] => []
    | s :: r => if mem_nh (s_name s, s_hash s) seen then dedup_key seen r
                else s :: dedup_key ((s_name s, s_hash s) :: seen) r
    end.

  (* first signature per line text "name base64" *)
  Fixpoint dedup_line (seen : list str) (l : list signature) : list signature :=
    match l with
    | [] => []
    | s :: r => if mem_str (s_name s ++ 32 :: s_b64 s) seen then dedup_line seen r
                else s :: dedup_line ((s_name s ++ 32 :: s_b64 s) :: seen) r
    end.

  Definition finish (sigs unv : list signature) : res note :=
    let n := {| n_text := t; n_sigs := sigs; n_unverified := unv |} in
    match sigs with [] => Err (Unverified n) | _ => Ok n end.

  Definition body_of (s : signature) : str := note_sigPrefix ++ s_name s ++ 32 :: s_b64 s.

  Definition line_good (s : signature) : Prop :=
    parse_sig_line (body_of s) = Some (s_name s ++ 32 :: s_b64 s, s_name s, s_hash s, sig_bytes s, s_b64 s) /\
    lookup vid known (s_name s) (s_hash s) <> LAmbiguous /\
    (forall v, lookup vid known (s_name s) (s_hash s) = LUnique v -> V (v_id v) t (sig_bytes s) = true).

  Lemma open_loop_rt sl :
    well_keyed vid known ->
    forall seen seenU num sigs unv,
      (num + length sl <= 100)%nat -> Forall line_good sl ->
      open_loop vid V t known (map body_of sl) seen seenU num sigs unv =
      finish (sigs ++ dedup_key seen (filter is_known sl)) (unv ++ dedup_line seenU (filter is_unknown sl)).
  Proof.
    intros Hw. induction sl as [|s sl IH]; intros seen seenU num sigs unv Hnum Hg.
    - cbn [map open_loop filter dedup_key dedup_line]. rewrite !app_nil_r. reflexivity.
    - inversion Hg as [|? ? (Hp & Hna & HV) Hg']; subst. destruct s as [nm h b].
      cbn [s_name s_hash s_b64] in *. cbn [map open_loop]. rewrite Hp.
      cbn [length] in Hnum.
      replace (Nat.ltb 100 (S num)) with false by (symmetry; apply Nat.ltb_ge; lia).
      cbn [filter]. unfold is_known at 1, is_unknown at 1. cbn [s_name s_hash].
      destruct (lookup vid known nm h) as [|v|] eqn:Hl; [| |congruence].
      + cbn [dedup_line s_name s_b64]. destruct (mem_str (nm ++ 32 :: b) seenU).
        * apply IH; [lia|exact Hg'].
        * rewrite IH by (try lia; exact Hg'). rewrite <- app_assoc. reflexivity.
      + destruct (lookup_unique_keyed vid known nm h v Hw Hl) as [Hn Hh].
        rewrite Hn, Hh, str_eqb_refl, Z.eqb_refl. cbn [negb orb].
        cbn [dedup_key s_name s_hash]. destruct (mem_nh (nm, h) seen).
        * apply IH; [lia|exact Hg'].
        * rewrite (HV v eq_refl). rewrite IH by (try lia; exact Hg'). rewrite <- app_assoc. reflexivity.
  Qed.

  Lemma sig_line_body s : sig_line (s_name s) (s_b64 s) = body_of s ++ [10].
  Proof. unfold sig_line, body_of. rewrite <- !app_assoc. reflexivity. Qed.

  (* what each (signer, signature bytes) pair must satisfy *)
  Definition signer_ok (p : signer sid * str) : Prop :=
    let (s, sig) := p in
    Sg (sg_id s) t = Some sig /\ sig <> [] /\ Forall byte sig /\
    is_valid_name (sg_name s) = true /\ Forall (fun b => 32 <= b) (sg_name s) /\
    0 <= sg_hash s < 2 ^ 32.

  Lemma sign_new_ok ss :
    Forall signer_ok ss ->
    sign_new sid Sg t (map fst ss) =
    Ok (block_of (map (fun p => body_of (signature_of (fst p) (snd p))) ss)).
  Proof.
    induction 1 as [|[s sig] ss (HS & _ & _ & Hv & _) _ IH]; [reflexivity|].
    cbn [map fst snd sign_new]. rewrite Hv, HS, IH. cbn [negb]. rewrite block_cons.
    change (sg_name s) with (s_name (signature_of s sig)) at 1.
    change (b64_encode (be32_enc (sg_hash s) ++ sig)) with (s_b64 (signature_of s sig)).
    rewrite sig_line_body, <- app_assoc. reflexivity.
  Qed.

  Theorem sign_open_roundtrip ss :
    scan_ok t = true -> has_suffix t [10] = true ->
    ss <> [] -> (length ss <= 100)%nat ->
    Forall signer_ok ss ->
    well_keyed vid known ->
    (forall s sig, In (s, sig) ss -> lookup vid known (sg_name s) (sg_hash s) <> LAmbiguous) ->
    (forall s sig v, In (s, sig) ss -> lookup vid known (sg_name s) (sg_hash s) = LUnique v ->
                     V (v_id v) t sig = true) ->
    let all := map (fun p => signature_of (fst p) (snd p)) ss in
    exists msg,
      sign sid Sg {| n_text := t; n_sigs := []; n_unverified := [] |} (map fst ss) = Ok msg /\
      msg = t ++ [10] ++ block_of (map body_of all) /\
      open vid V msg known =
      finish (dedup_key [] (filter is_known all)) (dedup_line [] (filter is_unknown all)).
  Proof.
    intros Hscan Hsuf Hne Hlen Hss Hw Hamb HVS all.
    set (block := block_of (map body_of all)).
    exists (t ++ [10] ++ block).
    assert (Hsign : sign sid Sg {| n_text := t; n_sigs := []; n_unverified := [] |} (map fst ss)
                    = Ok (t ++ [10] ++ block)).
    { unfold sign. cbn [n_text n_sigs n_unverified app]. rewrite Hsuf. cbn [negb].
      rewrite (sign_new_ok ss Hss). cbn [sign_old app]. subst block all. rewrite map_map. reflexivity. }
    split; [exact Hsign|]. split; [reflexivity|].
    (* facts about the lines *)
    assert (Hall : Forall (fun s => line_good s /\ body_ok (body_of s) /\ scan_ok (body_of s) = true) all).
    { subst all. apply Forall_forall. intros s Hin. apply in_map_iff in Hin.
      destruct Hin as ([sg sig] & <- & Hin). cbn [fst snd].
      rewrite Forall_forall in Hss. destruct (Hss _ Hin) as (HS & Hsne & Hsb & Hv & Hc & Hh).
      pose proof (parse_sig_line_built (sg_name sg) (sg_hash sg) sig Hv Hh Hsne Hsb) as Hp.
      assert (Hsig : sig_bytes (signature_of sg sig) = sig).
      { unfold sig_bytes, signature_of. cbn [s_b64]. unfold b64_decode, b64_encode.
        rewrite b64_decode_encode; [reflexivity|]. apply Forall_app. split; [apply be32_enc_bytes|exact Hsb]. }
      split; [|exact (built_line_ok (sg_name sg) (sg_hash sg) sig Hv Hc Hsb)].
      unfold line_good, body_of. rewrite Hsig. cbn [signature_of s_name s_hash s_b64].
      split; [exact Hp|]. split; [exact (Hamb sg sig Hin)|]. intros v Hl. exact (HVS sg sig v Hin Hl). }
    assert (Hgood : Forall line_good all) by (eapply Forall_impl; [|exact Hall]; intros ? (? & _); assumption).
    assert (Hbodies : Forall body_ok (map body_of all)).
    { apply Forall_map. eapply Forall_impl; [|exact Hall]. intros ? (_ & ? & _); assumption. }
    assert (Hscans : Forall (fun b => scan_ok b = true) (map body_of all)).
    { apply Forall_map. eapply Forall_impl; [|exact Hall]. intros ? (_ & _ & ?); assumption. }
    assert (Hallne : map body_of all <> []).
    { subst all. destruct ss; [congruence|discriminate]. }
    destruct (has_suffix_nl t Hsuf) as [t' Ht].
    destruct (block_no_nn _ Hbodies) as [Hnn Hhd]. fold block in Hnn, Hhd.
    (* the scan *)
    assert (H1 : scan_ok (t ++ [10] ++ block) = true).
    { rewrite scan_ok_app by exact Hscan. rewrite scan_ok_app by reflexivity. apply scan_ok_block. exact Hscans. }
    (* the split *)
    assert (Hmsg : t ++ [10] ++ block = t' ++ 10 :: 10 :: block).
    { rewrite Ht, <- app_assoc. reflexivity. }
    assert (H2 : last_index note_sigSplit (t ++ [10] ++ block) = Some (length t')).
    { apply last_index_intro; [discriminate| |].
      - rewrite Hmsg, skipn_app, skipn_all, Nat.sub_diag. cbn [app skipn].
        apply has_prefix_true. exists block. reflexivity.
      - intros j Hj. rewrite skipn_app, skipn_all2 by (rewrite Ht, app_length; cbn [length]; lia).
        cbn [app]. assert (Hn10 : no_nn (10 :: block)) by (apply no_nn_cons; [exact Hnn|right; exact Hhd]).
        apply Hn10. }
    unfold open. rewrite H1, H2. cbn [negb].
    destruct (split_at2 t' 10 10 block) as [Hf Hs]. rewrite Hmsg, Hf, Hs, <- Ht.
    unfold block at 1 2. rewrite (block_last _ Hallne). fold block.
    unfold block. rewrite (sig_lines_block _ Hbodies).
    rewrite (open_loop_rt all Hw [] [] O [] []); [reflexivity| |exact Hgood].
    subst all. rewrite map_length. cbn. lia.
  Qed.
End RoundTrip.

(* ---- the format of Sign's output --------------------------------------------------------------- *)

Section SignFormat.
  Variable sid : Type.
  Variable Sg : sid -> str -> option str.

  (* Sign emits the text, a blank line, the existing signatures (verified, then unverified)
     whose key is not the key of one of the signers, then the new signatures *)
  Theorem sign_format n signers msg :
    sign sid Sg n signers = Ok msg ->
    has_suffix (n_text n) [10] = true /\
    exists new,
      sign_new sid Sg (n_text n) signers = Ok new /\
      msg = n_text n ++ [10] ++
            concat (map (fun s => sig_line (s_name s) (s_b64 s))
                        (filter (fun s => negb (mem_nh (s_name s, s_hash s)
                                                       (map (fun sg => (sg_name sg, sg_hash sg)) signers)))
                                (n_sigs n ++ n_unverified n))) ++ new.
  Proof.
    unfold sign. destruct (has_suffix (n_text n) [10]); cbn [negb]; [|discriminate].
    destruct (sign_new sid Sg (n_text n) signers) as [new|]; [|discriminate].
    destruct (sign_old _ (n_sigs n ++ n_unverified n)) as [old|] eqn:E; [|discriminate].
    intros [= <-]. split; [reflexivity|]. exists new. split; [reflexivity|].
    rewrite (sign_old_spec _ _ _ E). reflexivity.
  Qed.
End SignFormat.

(* ---- K2: control characters in a signer name ----------------------------------------------------- *)

Definition k2_name : str := [97; 1; 98].   (* "a\x01b" *)
Definition k2_signer : signer unit := {| sg_name := k2_name; sg_hash := 1; sg_id := tt |}.
Definition k2_known : verifiers unit :=
  verifier_list unit [{| v_name := k2_name; v_hash := 1; v_id := tt |}].

(* Every hypothesis of sign_open_roundtrip except "the signer name has no byte below 0x20"
   holds, Sign succeeds, and Open rejects the result as malformed. *)
Theorem sign_open_roundtrip_ctrl_name_refuted :
  let V := fun (_ : unit) (_ _ : str) => true in
  let Sg := fun (_ : unit) (_ : str) => Some [7] in
  exists (t : str) (ss : list (signer unit * str)) (known : verifiers unit) (msg : str),
    scan_ok t = true /\ has_suffix t [10] = true /\ ss <> [] /\ (length ss <= 100)%nat /\
    Forall (fun p => Sg (sg_id (fst p)) t = Some (snd p) /\ snd p <> [] /\ Forall byte (snd p) /\
                     is_valid_name (sg_name (fst p)) = true /\ 0 <= sg_hash (fst p) < 2 ^ 32) ss /\
    well_keyed unit known /\
    (forall s sig, In (s, sig) ss -> lookup unit known (sg_name s) (sg_hash s) <> LAmbiguous) /\
    (forall s sig v, In (s, sig) ss -> lookup unit known (sg_name s) (sg_hash s) = LUnique v ->
                     V (v_id v) t sig = true) /\
    sign unit Sg {| n_text := t; n_sigs := []; n_unverified := [] |} (map fst ss) = Ok msg /\
    open unit V msg known = Err Malformed.
Proof.
  intros V Sg.
  exists [116; 10], [(k2_signer, [7])], k2_known.
  eexists. split; [reflexivity|]. split; [reflexivity|]. split; [discriminate|]. split; [cbn; lia|].
  split.
  { constructor; [|constructor]. cbn [fst snd]. split; [reflexivity|]. split; [discriminate|].
    split; [repeat constructor; unfold byte; lia|]. split; [vm_compute; reflexivity|]. cbn; lia. }
  split; [apply verifier_list_well_keyed|].
  split.
  { intros s sig [[= <- <-]|[]]. vm_compute. discriminate. }
  split; [reflexivity|].
  split; vm_compute; reflexivity.
Qed.

(* ---- the round trip with every hypothesis spelled out (the form stated in Props/C07.v) ---------- *)

Theorem sign_open_roundtrip_stmt :
  forall (vid : Type) (V : vid -> str -> str -> bool) (sid : Type) (Sg : sid -> str -> option str)
         (known : verifiers vid) (t : str) (ss : list (signer sid * str)),
    scan_ok t = true -> has_suffix t [10] = true ->
    ss <> [] -> (length ss <= 100)%nat ->
    (forall s sig, In (s, sig) ss ->
       Sg (sg_id s) t = Some sig /\ sig <> [] /\ Forall (fun b => 0 <= b < 256) sig /\
       is_valid_name (sg_name s) = true /\ Forall (fun b => 32 <= b) (sg_name s) /\
       0 <= sg_hash s < 2 ^ 32) ->
    (forall k l v, In (k, l) known -> In v l -> (v_name v, v_hash v) = k) ->
    (forall s sig, In (s, sig) ss -> lookup vid known (sg_name s) (sg_hash s) <> LAmbiguous) ->
    (forall s sig v, In (s, sig) ss -> lookup vid known (sg_name s) (sg_hash s) = LUnique v ->
                     V (v_id v) t sig = true) ->
    let all := map (fun p => {| s_name := sg_name (fst p); s_hash := sg_hash (fst p);
                                s_b64 := b64_encode (be32_enc (sg_hash (fst p)) ++ snd p) |}) ss in
    let verified := dedup_key [] (filter (is_known vid known) all) in
    let unverified := dedup_line [] (filter (is_unknown vid known) all) in
    exists msg,
      sign sid Sg {| n_text := t; n_sigs := []; n_unverified := [] |} (map fst ss) = Ok msg /\
      msg = t ++ [10] ++ concat (map (fun s => sig_line (s_name s) (s_b64 s)) all) /\
      open vid V msg known =
      match verified with
      | [] => Err (Unverified {| n_text := t; n_sigs := []; n_unverified := unverified |})
      | _ => Ok {| n_text := t; n_sigs := verified; n_unverified := unverified |}
      end.
Proof.
  intros vid V sid Sg known t ss Hscan Hsuf Hne Hlen Hss Hw Hamb HVS all verified unverified.
  assert (Hss' : Forall (signer_ok sid Sg t) ss).
  { apply Forall_forall. intros [s sig] Hin. exact (Hss s sig Hin). }
  destruct (sign_open_roundtrip vid V sid Sg known t ss Hscan Hsuf Hne Hlen Hss' Hw Hamb HVS)
    as (msg & H1 & H2 & H3).
  exists msg. split; [exact H1|]. split.
  - rewrite H2. f_equal. f_equal. unfold block_of. rewrite map_map. f_equal.
    apply map_ext. intros s. symmetry. apply sig_line_body.
  - rewrite H3. unfold finish.
    change (map (fun p : signer sid * str => signature_of sid (fst p) (snd p)) ss) with all.
    change (dedup_key [] (filter (is_known vid known) all)) with verified.
    change (dedup_line [] (filter (is_unknown vid known) all)) with unverified.
    destruct verified; reflexivity.
Qed.
