(* Wire dispatcher for the note model (property C07).

   Executable instances of the Section variables of Note.v:
     vid = sid = str (key bytes);  sha = Sha256.sha256;
     V key msg sig  = the answer recorded for (key, msg, sig) in the table that comes with
                      the case (real Ed25519 keys: the harness records every Verify call),
                      otherwise the toy scheme below, implemented identically in
                      harness/gen/note.go;
     Sg key msg     = the recorded signature for (key, msg), otherwise the toy scheme;
     pub_of_seed    = the recorded public key of the case.

   Encodings (Go side: harness/props/c07.go)
     verifier  L[S name; I hash; S key]          signer  L[S name; I hash; S key]
     table     L[ L[S name; I hash; L[verifier..]] ..]       (a raw verifierMap)
     vtable    L[ L[S key; S msg; S sig; I ok] ..]   stable  L[ L[S key; S msg; S sig] ..]
     signature L[S name; I hash; S base64]       note    L[S text; L[signature..]; L[signature..]]
   Functions
     IsValidName S                          -> I 0/1
     NewVerifier S                          -> ok L[S name; I hash] | err id|alg|hash
     NewSigner   L[S skey; S pub]           -> ok L[S name; I hash] | err id|alg|hash
     VerifierKey L[S name; S pub32]         -> S vkey
     Open     L[S msg; table; vtable]       -> open result
     OpenList L[S msg; L[verifier..]; vtable] -> open result
     Sign     L[note; L[signer..]; stable]  -> ok S msg | err malformed|invalidsigner|signerfailed
   open result: ok note | err malformed | err mismatched | L[S err; S invalidsig; S name; I hash]
                | L[S err; S ambiguous; S name; I hash] | L[S err; S unverified; note] *)
From Verif.Base Require Import Bytes Wire Sha256.
From Verif.Note Require Import Note.

(* ---- toy signature scheme ---------------------------------------------------------- *)

Definition toy_h (seed : Z) (s : str) : Z :=
  fold_left (fun h b => Z.land (Z.shiftl h 5 + h + b + 1) 4294967295) s seed.   (* h*33+b+1 mod 2^32 *)

(* up to 8 bytes; the length is the first key byte mod 9 (so some keys make empty or short
   signatures) *)
Definition toy_sig (key msg : str) : str :=
  let full := be32_enc (toy_h 2166136261 (key ++ msg)) ++ be32_enc (toy_h 40389 (msg ++ key)) in
  match key with
  | [] => full
  | k0 :: _ => firstn (Z.to_nat (k0 mod 9)) full
  end.

Definition toy_verify (key msg sig : str) : bool := str_eqb sig (toy_sig key msg).
(* a toy signer with an empty key fails *)
Definition toy_sign (key msg : str) : option str :=
  match key with [] => None | _ => Some (toy_sig key msg) end.

(* ---- recorded tables ------------------------------------------------------------------ *)

Fixpoint vtable_find (t : list val) (key msg sig : str) : option bool :=
  match t with
  | VL [VS k; VS m; VS s; VI ok] :: r =>
      if str_eqb k key && str_eqb m msg && str_eqb s sig then Some (negb (ok =? 0))
      else vtable_find r key msg sig
  | _ :: r => vtable_find r key msg sig
  | [] => None
  end.

Definition V_of (t : list val) (key msg sig : str) : bool :=
  match vtable_find t key msg sig with
  | Some b => b
  | None => toy_verify key msg sig
  end.

Fixpoint stable_find (t : list val) (key msg : str) : option str :=
  match t with
  | VL [VS k; VS m; VS s] :: r =>
      if str_eqb k key && str_eqb m msg then Some s else stable_find r key msg
  | _ :: r => stable_find r key msg
  | [] => None
  end.

Definition S_of (t : list val) (key msg : str) : option str :=
  match stable_find t key msg with
  | Some s => Some s
  | None => toy_sign key msg
  end.

(* ---- decoding ---------------------------------------------------------------------------- *)

Fixpoint all_some {A} (l : list (option A)) : option (list A) :=
  match l with
  | [] => Some []
  | Some a :: r => option_map (cons a) (all_some r)
  | None :: _ => None
  end.

Definition dec_verifier (v : val) : option (verifier str) :=
  match v with
  | VL [VS name; VI hash; VS key] => Some {| v_name := name; v_hash := hash; v_id := key |}
  | _ => None
  end.

Definition dec_verifiers (l : list val) : option (list (verifier str)) := all_some (map dec_verifier l).

Definition dec_entry (v : val) : option ((str * Z) * list (verifier str)) :=
  match v with
  | VL [VS name; VI hash; VL vs] => option_map (fun l => ((name, hash), l)) (dec_verifiers vs)
  | _ => None
  end.

Definition dec_signer (v : val) : option (signer str) :=
  match v with
  | VL [VS name; VI hash; VS key] => Some {| sg_name := name; sg_hash := hash; sg_id := key |}
  | _ => None
  end.

Definition dec_sig (v : val) : option signature :=
  match v with
  | VL [VS name; VI hash; VS b64] => Some {| s_name := name; s_hash := hash; s_b64 := b64 |}
  | _ => None
  end.

Definition dec_note (v : val) : option note :=
  match v with
  | VL [VS text; VL sigs; VL unv] =>
      match all_some (map dec_sig sigs), all_some (map dec_sig unv) with
      | Some a, Some b => Some {| n_text := text; n_sigs := a; n_unverified := b |}
      | _, _ => None
      end
  | _ => None
  end.

(* ---- encoding ---------------------------------------------------------------------------- *)

Definition enc_sig (s : signature) : val := VL [VS (s_name s); VI (s_hash s); VS (s_b64 s)].
Definition enc_note (n : note) : val :=
  VL [VS (n_text n); VL (map enc_sig (n_sigs n)); VL (map enc_sig (n_unverified n))].

Definition enc_open (r : res note) : val :=
  match r with
  | Ok n => VOk (enc_note n)
  | Err Malformed => VErr "malformed"
  | Err Mismatched => VErr "mismatched"
  | Err (InvalidSignature name h) => VL [VS (B "err"); VS (B "invalidsig"); VS name; VI h]
  | Err (Ambiguous name h) => VL [VS (B "err"); VS (B "ambiguous"); VS name; VI h]
  | Err (Unverified n) => VL [VS (B "err"); VS (B "unverified"); enc_note n]
  | Err InvalidSigner => VErr "invalidsigner"
  | Err SignerFailed => VErr "signerfailed"
  end.

Definition enc_sign (r : res str) : val :=
  match r with
  | Ok m => VOk (VS m)
  | Err Malformed => VErr "malformed"
  | Err InvalidSigner => VErr "invalidsigner"
  | Err SignerFailed => VErr "signerfailed"
  | Err _ => VErr "other"
  end.

Definition enc_key (r : kres (str * Z * str)) : val :=
  match r with
  | KOk (name, h, _) => VOk (VL [VS name; VI h])
  | KErr KeyID => VErr "id"
  | KErr KeyAlg => VErr "alg"
  | KErr KeyHash => VErr "hash"
  end.

(* ---- the dispatcher ------------------------------------------------------------------------ *)

Definition dispatch (f : str) (a : val) : val :=
  if str_eqb f (B "IsValidName") then
    match a with VS s => VB (is_valid_name s) | _ => VBadCase end
  else if str_eqb f (B "NewVerifier") then
    match a with VS s => enc_key (parse_verifier_key sha256 s) | _ => VBadCase end
  else if str_eqb f (B "NewSigner") then
    match a with
    | VL [VS s; VS pub] => enc_key (parse_signer_key sha256 (fun _ => pub) s)
    | _ => VBadCase
    end
  else if str_eqb f (B "VerifierKey") then
    match a with
    | VL [VS name; VS pub] => VS (format_verifier_key sha256 name pub)
    | _ => VBadCase
    end
  else if str_eqb f (B "Open") then
    match a with
    | VL [VS msg; VL tbl; VL vt] =>
        match all_some (map dec_entry tbl) with
        | Some known => enc_open (open str (V_of vt) msg known)
        | None => VBadCase
        end
    | _ => VBadCase
    end
  else if str_eqb f (B "OpenList") then
    match a with
    | VL [VS msg; VL vs; VL vt] =>
        match dec_verifiers vs with
        | Some l => enc_open (open str (V_of vt) msg (verifier_list str l))
        | None => VBadCase
        end
    | _ => VBadCase
    end
  else if str_eqb f (B "Sign") then
    match a with
    | VL [n; VL ss; VL st] =>
        match dec_note n, all_some (map dec_signer ss) with
        | Some n', Some signers => enc_sign (sign str (S_of st) n' signers)
        | _, _ => VBadCase
        end
    | _ => VBadCase
    end
  else VBadCase.
