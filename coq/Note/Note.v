(* Executable model of golang.org/x/mod/sumdb/note (note.go).  MODEL FILE: no proofs here
   (proofs: Note/NoteProofs*.v; wire dispatcher: Note/DispatchNote.v).

   External functions are Section variables (never axioms); after the section closes
   every definition takes exactly the ones it uses as leading explicit arguments:
     vid  : Type                          identity of a verifier key
     V    : vid -> str -> str -> bool     V v msg sig   = Verifier.Verify(msg, sig)
     sid  : Type                          identity of a signer key
     Sg   : sid -> str -> option str      Sg s msg      = Signer.Sign(msg); None = error
     sha  : str -> str                    SHA-256 (instance: Base/Sha256.v sha256)
     pub_of_seed : str -> str             Ed25519 public key of a 32-byte seed

   EXPORTED NAMES AND TYPES (str = list Z, one Z per byte; hashes are Z in [0,2^32))
     Record signature := { s_name : str; s_hash : Z; s_b64 : str }
     Record note      := { n_text : str; n_sigs : list signature; n_unverified : list signature }
     Inductive err    := Malformed | InvalidSigner | SignerFailed
                       | InvalidSignature (name : str) (hash : Z) | Unverified (n : note)
                       | Ambiguous (name : str) (hash : Z) | Mismatched
     Inductive res A  := Ok (a : A) | Err (e : err)
     Inductive keyerr := KeyID | KeyAlg | KeyHash       (errVerifierID/Alg/Hash, errSignerID/Alg/Hash)
     Inductive kres A := KOk (a : A) | KErr (e : keyerr)

     be32_enc : Z -> str                  binary.BigEndian.PutUint32
     be32_dec : str -> Z                  binary.BigEndian.Uint32 of the first 4 bytes
     chop : Z -> str -> str * str         chop(s, sep) for a one-byte separator
     last_index : str -> str -> option nat          bytes.LastIndex
     is_valid_name : str -> bool                    isValidName
     key_hash sha : str -> str -> Z                 keyHash(name, key)
     parse_verifier_key sha : str -> kres (str * Z * str)    NewVerifier: (name, hash, alg-byte :: 32-byte key)
     parse_signer_key sha pub_of_seed : str -> kres (str * Z * str)   NewSigner: (name, hash, 32-byte seed)
     format_verifier_key sha : str -> str -> str    NewEd25519VerifierKey(name, 32-byte key) (success value)
     hex8 : Z -> str                                fmt "%08x"

     Record verifier vid := { v_name : str; v_hash : Z; v_id : vid }        a note.Verifier
     verifiers vid := list ((str * Z) * list (verifier vid))                  note.verifierMap
     verifier_list vid : list (verifier vid) -> verifiers vid                 note.VerifierList
     Inductive lookup_res vid := LUnknown | LUnique (v : verifier vid) | LAmbiguous
     lookup vid : verifiers vid -> str -> Z -> lookup_res vid                 verifierMap.Verifier
     sig_lines : str -> list str                    the lines of a signature block ending in LF
     parse_sig_line : str -> option (str * str * Z * str * str)
                                                    one line: (line after the prefix, name, hash, signature bytes, base64)
     open vid V : str -> verifiers vid -> res note                            note.Open
     Record signer sid := { sg_name : str; sg_hash : Z; sg_id : sid }         a note.Signer
     sig_line : str -> str -> str                   "— " name " " base64 "\n"
     sign sid Sg : note -> list (signer sid) -> res str                       note.Sign
     sig_bytes : signature -> str                   decoded base64 without the 4 hash bytes

   Deviations, all unobservable through the correspondence run:
   * Go's verifierMap.Verifier would index v[0] of an empty slice; VerifierList never
     stores an empty slice; [lookup] treats an empty entry as unknown.
   * [open] takes the table (a note.Verifiers that behaves like verifierMap over an
     arbitrary table, so that the mismatched-verifier check is reachable); a general
     note.Verifiers returning other errors is not modelled. *)
From Verif.Base Require Import Bytes Utf8 Base64.
From Verif.Gen Require Import GenConsts GenUnicode.

Record signature := { s_name : str; s_hash : Z; s_b64 : str }.
Record note := { n_text : str; n_sigs : list signature; n_unverified : list signature }.

Inductive err :=
| Malformed | InvalidSigner | SignerFailed
| InvalidSignature (name : str) (hash : Z)
| Unverified (n : note)
| Ambiguous (name : str) (hash : Z)
| Mismatched.

Inductive res (A : Type) := Ok (a : A) | Err (e : err).
Arguments Ok {A} a.
Arguments Err {A} e.

Inductive keyerr := KeyID | KeyAlg | KeyHash.
Inductive kres (A : Type) := KOk (a : A) | KErr (e : keyerr).
Arguments KOk {A} a.
Arguments KErr {A} e.

(* ---- small helpers -------------------------------------------------------------- *)

Definition is_empty (s : str) : bool := match s with [] => true | _ => false end.

Definition be32_enc (h : Z) : str :=
  [(h / 16777216) mod 256; (h / 65536) mod 256; (h / 256) mod 256; h mod 256].

Definition be32_dec (s : str) : Z :=
  match s with
  | a :: b :: c :: d :: _ => ((a * 256 + b) * 256 + c) * 256 + d
  | _ => 0   (* callers check the length first *)
  end.

(* chop(s, sep) with a one-byte separator: text before and after the first sep;
   (s, "") if there is none *)
Fixpoint chop (sep : Z) (s : str) : str * str :=
  match s with
  | [] => ([], [])
  | c :: r => if c =? sep then ([], r) else let (a, b) := chop sep r in (c :: a, b)
  end.

(* bytes.LastIndex(s, sep) *)
Fixpoint last_index (sep s : str) : option nat :=
  match s with
  | [] => if is_empty sep then Some O else None
  | _ :: r =>
      match last_index sep r with
      | Some i => Some (S i)
      | None => if has_prefix s sep then Some O else None
      end
  end.

Definition nh_eqb (a b : str * Z) : bool := str_eqb (fst a) (fst b) && (snd a =? snd b).

Definition mem_nh (k : str * Z) (l : list (str * Z)) : bool := existsb (nh_eqb k) l.
Definition mem_str (k : str) (l : list str) : bool := existsb (str_eqb k) l.

Definition is_hex (c : Z) : bool :=
  is_digit c || ((97 <=? c) && (c <=? 102)) || ((65 <=? c) && (c <=? 70)).
Definition hex_val (c : Z) : Z :=
  if is_digit c then c - 48 else if 97 <=? c then c - 87 else c - 55.
Definition parse_hex (s : str) : Z := fold_left (fun acc c => acc * 16 + hex_val c) s 0.

Definition hex_digit (n : Z) : Z := if n <? 10 then 48 + n else 87 + n.
(* fmt.Sprintf("%08x", h) for a uint32 h *)
Definition hex8 (h : Z) : str :=
  flat_map (fun b => [hex_digit (b / 16); hex_digit (b mod 16)]) (be32_enc h).

(* ---- names ------------------------------------------------------------------------ *)

(* isValidName: name != "" && utf8.ValidString(name)
                && strings.IndexFunc(name, unicode.IsSpace) < 0 && !strings.Contains(name, "+") *)
Definition is_valid_name (name : str) : bool :=
  negb (is_empty name) && Utf8.valid name
  && negb (existsb unicode_IsSpace (Utf8.runes name))
  && negb (contains_byte 43 name).

(* ---- the scan at the top of Open ------------------------------------------------- *)

(* r < 0x20 && r != '\n' || r == utf8.RuneError && size == 1 *)
Definition bad_rune (rw : Z * nat) : bool :=
  ((fst rw <? 32) && negb (fst rw =? 10)) || ((fst rw =? rune_error) && Nat.eqb (snd rw) 1).

Definition scan_ok (msg : str) : bool :=
  forallb (fun rw => negb (bad_rune rw)) (runes_w (length msg) msg).

(* ---- signature lines -------------------------------------------------------------- *)

(* the loop "i := IndexByte(sigs, '\n'); line := sigs[:i]; sigs = sigs[i+1:]" over a block
   that ends in '\n': all fields of the split except the final empty one *)
Definition sig_lines (sigs : str) : list str := removelast (split_on 10 sigs).

(* one signature line; None = errMalformedNote.
   Result: (line after the prefix, name, hash, signature bytes, base64 text) *)
Definition parse_sig_line (line : str) : option (str * str * Z * str * str) :=
  if negb (has_prefix line note_sigPrefix) then None
  else
    let line' := skipn (length note_sigPrefix) line in
    let (name, b64) := chop 32 line' in
    match b64_decode b64 with
    | None => None
    | Some sig =>
        if negb (is_valid_name name) || is_empty b64 || (len sig <? 5) then None
        else Some (line', name, be32_dec sig, skipn 4 sig, b64)
    end.

Definition sig_bytes (s : signature) : str :=
  match b64_decode (s_b64 s) with
  | Some raw => skipn 4 raw
  | None => []
  end.

Definition sig_line (name b64 : str) : str := note_sigPrefix ++ name ++ [32] ++ b64 ++ [10].

(* ---- keys ------------------------------------------------------------------------- *)

Section Keys.
  Variable sha : str -> str.
  Variable pub_of_seed : str -> str.

  (* keyHash: first four bytes, big endian, of SHA-256(name "\n" key) *)
  Definition key_hash (name key : str) : Z := be32_dec (sha (name ++ [10] ++ key)).

  (* NewVerifier.  Result: (name, hash, decoded key = algorithm byte :: 32 bytes) *)
  Definition parse_verifier_key (vkey : str) : kres (str * Z * str) :=
    let (name, rest) := chop 43 vkey in
    let (hash16, key64) := chop 43 rest in
    match b64_decode key64 with
    | None => KErr KeyID
    | Some key =>
        if negb (Nat.eqb (length hash16) 8) || negb (forallb is_hex hash16)
           || negb (is_valid_name name) || is_empty key
        then KErr KeyID
        else
          let hash := parse_hex hash16 in
          if negb (hash =? key_hash name key) then KErr KeyHash
          else match key with
               | alg :: k =>
                   if negb (alg =? note_algEd25519) then KErr KeyAlg
                   else if negb (Nat.eqb (length k) 32) then KErr KeyID
                   else KOk (name, hash, key)
               | [] => KErr KeyID
               end
    end.

  (* NewSigner.  Result: (name, hash, 32-byte seed) *)
  Definition parse_signer_key (skey : str) : kres (str * Z * str) :=
    let (priv1, r1) := chop 43 skey in
    let (priv2, r2) := chop 43 r1 in
    let (name, r3) := chop 43 r2 in
    let (hash16, key64) := chop 43 r3 in
    match b64_decode key64 with
    | None => KErr KeyID
    | Some key =>
        if negb (str_eqb priv1 (B "PRIVATE")) || negb (str_eqb priv2 (B "KEY"))
           || negb (Nat.eqb (length hash16) 8) || negb (forallb is_hex hash16)
           || negb (is_valid_name name) || is_empty key
        then KErr KeyID
        else
          let hash := parse_hex hash16 in
          match key with
          | alg :: seed =>
              if negb (alg =? note_algEd25519) then KErr KeyAlg
              else if negb (Nat.eqb (length seed) 32) then KErr KeyID
              else if negb (hash =? key_hash name (note_algEd25519 :: pub_of_seed seed))
              then KErr KeyHash
              else KOk (name, hash, seed)
          | [] => KErr KeyID
          end
    end.

  (* NewEd25519VerifierKey(name, key) for a 32-byte key (the vkey of GenerateKey) *)
  Definition format_verifier_key (name pub : str) : str :=
    let pubkey := note_algEd25519 :: pub in
    name ++ [43] ++ hex8 (key_hash name pubkey) ++ [43] ++ b64_encode pubkey.
End Keys.

(* ---- verifiers ----------------------------------------------------------------------- *)

Section Verifiers.
  Variable vid : Type.

  Record verifier := { v_name : str; v_hash : Z; v_id : vid }.

  (* verifierMap: (name, hash) -> the verifiers registered under it, in order *)
  Definition verifiers := list ((str * Z) * list verifier).

  Fixpoint vm_add (k : str * Z) (v : verifier) (m : verifiers) : verifiers :=
    match m with
    | [] => [(k, [v])]
    | (k', l) :: r => if nh_eqb k k' then (k', l ++ [v]) :: r else (k', l) :: vm_add k v r
    end.

  (* VerifierList(list...) *)
  Definition verifier_list (l : list verifier) : verifiers :=
    fold_left (fun m v => vm_add (v_name v, v_hash v) v m) l [].

  Inductive lookup_res := LUnknown | LUnique (v : verifier) | LAmbiguous.

  Fixpoint vm_find (k : str * Z) (m : verifiers) : option (list verifier) :=
    match m with
    | [] => None
    | (k', l) :: r => if nh_eqb k k' then Some l else vm_find k r
    end.

  (* verifierMap.Verifier(name, hash) *)
  Definition lookup (m : verifiers) (name : str) (hash : Z) : lookup_res :=
    match vm_find (name, hash) m with
    | None | Some [] => LUnknown
    | Some [v] => LUnique v
    | Some (_ :: _ :: _) => LAmbiguous
    end.

  Variable V : vid -> str -> str -> bool.

  (* the signature loop of Open; [num] = numSig so far *)
  Fixpoint open_loop (text : str) (known : verifiers) (lines : list str)
           (seen : list (str * Z)) (seen_unv : list str) (num : nat)
           (sigs unv : list signature) : res note :=
    match lines with
    | [] =>
        let n := {| n_text := text; n_sigs := sigs; n_unverified := unv |} in
        match sigs with
        | [] => Err (Unverified n)
        | _ => Ok n
        end
    | line :: rest =>
        match parse_sig_line line with
        | None => Err Malformed
        | Some (line', name, hash, sig, b64) =>
            if Nat.ltb 100 (S num) then Err Malformed
            else
              let s := {| s_name := name; s_hash := hash; s_b64 := b64 |} in
              match lookup known name hash with
              | LUnknown =>
                  if mem_str line' seen_unv
                  then open_loop text known rest seen seen_unv (S num) sigs unv
                  else open_loop text known rest seen (line' :: seen_unv) (S num) sigs (unv ++ [s])
              | LAmbiguous => Err (Ambiguous name hash)
              | LUnique v =>
                  if negb (str_eqb (v_name v) name) || negb (v_hash v =? hash) then Err Mismatched
                  else if mem_nh (name, hash) seen
                  then open_loop text known rest seen seen_unv (S num) sigs unv
                  else if V (v_id v) text sig
                  then open_loop text known rest ((name, hash) :: seen) seen_unv (S num)
                                 (sigs ++ [s]) unv
                  else Err (InvalidSignature name hash)
              end
        end
    end.

  (* note.Open(msg, known) *)
  Definition open (msg : str) (known : verifiers) : res note :=
    if negb (scan_ok msg) then Err Malformed
    else match last_index note_sigSplit msg with
         | None => Err Malformed
         | Some split =>
             let text := firstn (S split) msg in
             let sigs := skipn (S (S split)) msg in
             if is_empty sigs || negb (last sigs 0 =? 10) then Err Malformed
             else open_loop text known (sig_lines sigs) [] [] O [] []
         end.
End Verifiers.

Arguments v_name {vid} v.
Arguments v_hash {vid} v.
Arguments v_id {vid} v.
Arguments LUnknown {vid}.
Arguments LUnique {vid} v.
Arguments LAmbiguous {vid}.

(* ---- signing ----------------------------------------------------------------------------- *)

Section Signing.
  Variable sid : Type.
  Variable Sg : sid -> str -> option str.

  Record signer := { sg_name : str; sg_hash : Z; sg_id : sid }.

  (* the loop over signers: the new signature lines, in order *)
  Fixpoint sign_new (text : str) (signers : list signer) : res str :=
    match signers with
    | [] => Ok []
    | s :: rest =>
        if negb (is_valid_name (sg_name s)) then Err InvalidSigner
        else match Sg (sg_id s) text with
             | None => Err SignerFailed
             | Some sig =>
                 match sign_new text rest with
                 | Ok out => Ok (sig_line (sg_name s) (b64_encode (be32_enc (sg_hash s) ++ sig)) ++ out)
                 | Err e => Err e
                 end
             end
    end.

  (* existing signatures not replaced by new ones *)
  Fixpoint sign_old (have : list (str * Z)) (old : list signature) : res str :=
    match old with
    | [] => Ok []
    | sg :: rest =>
        if negb (is_valid_name (s_name sg)) then Err Malformed
        else if mem_nh (s_name sg, s_hash sg) have then sign_old have rest
        else match b64_decode (s_b64 sg) with
             | None => Err Malformed
             | Some raw =>
                 if (len raw <? 4) || negb (be32_dec raw =? s_hash sg) then Err Malformed
                 else match sign_old have rest with
                      | Ok out => Ok (sig_line (s_name sg) (s_b64 sg) ++ out)
                      | Err e => Err e
                      end
             end
    end.

  (* note.Sign(n, signers...) *)
  Definition sign (n : note) (signers : list signer) : res str :=
    if negb (has_suffix (n_text n) [10]) then Err Malformed
    else match sign_new (n_text n) signers with
         | Err e => Err e
         | Ok new =>
             let have := map (fun s => (sg_name s, sg_hash s)) signers in
             match sign_old have (n_sigs n ++ n_unverified n) with
             | Err e => Err e
             | Ok old => Ok (n_text n ++ [10] ++ old ++ new)
             end
         end.
End Signing.

Arguments sg_name {sid} s.
Arguments sg_hash {sid} s.
Arguments sg_id {sid} s.
