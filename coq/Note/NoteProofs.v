(* Proofs about the note model, part 1: soundness of open (C07 open_sound,
   open_bad_known_sig_fails, open_text_tamper), the key-hash binding of verifier keys, and
   the lookup facts of verifier_list.  The round trip is in NoteProofsRT.v. *)
From Verif.Base Require Import Bytes Utf8 Base64.
From Verif.Gen Require Import GenConsts GenUnicode.
From Verif.Note Require Import Note.

(* ---- lists of bytes ------------------------------------------------------------------ *)

Lemma has_prefix_true s p : has_prefix s p = true <-> exists r, s = p ++ r.
Proof.
  revert s; induction p as [|x p IH]; intros s.
  - destruct s; simpl; split; eauto.
  - destruct s as [|y s]; simpl.
    + split; [discriminate|]. intros [r Hr]; discriminate.
    + rewrite andb_true_iff, Z.eqb_eq, IH. split.
      * intros [-> [r ->]]. eauto.
      * intros [r Hr]. injection Hr as -> ->. eauto.
Qed.

Lemma has_prefix_app p r : has_prefix (p ++ r) p = true.
Proof. apply has_prefix_true. eauto. Qed.

Lemma has_prefix_nil_false p : p <> [] -> has_prefix [] p = false.
Proof. destruct p; [congruence|reflexivity]. Qed.

Lemma last_index_none sep s :
  sep <> [] -> last_index sep s = None -> forall j, has_prefix (skipn j s) sep = false.
Proof.
  intros Hsep. induction s as [|c r IH]; intros H j.
  - rewrite skipn_nil. apply has_prefix_nil_false; assumption.
  - cbn [last_index] in H. destruct (last_index sep r) eqn:E; [discriminate|].
    destruct (has_prefix (c :: r) sep) eqn:E2; [discriminate|].
    destruct j as [|j]; [exact E2|]. cbn [skipn]. apply IH. reflexivity.
Qed.

(* bytes.LastIndex finds an occurrence and there is none further right *)
Lemma last_index_some sep s i :
  sep <> [] -> last_index sep s = Some i ->
  has_prefix (skipn i s) sep = true /\
  forall j, (i < j)%nat -> has_prefix (skipn j s) sep = false.
Proof.
  intros Hsep. revert i. induction s as [|c r IH]; intros i H.
  - cbn [last_index] in H. destruct sep; [congruence|discriminate].
  - cbn [last_index] in H. destruct (last_index sep r) as [i'|] eqn:E.
    + injection H as <-. destruct (IH i' eq_refl) as [H1 H2]. split; [exact H1|].
      intros [|j] Hj; [lia|]. cbn [skipn]. apply H2. lia.
    + destruct (has_prefix (c :: r) sep) eqn:E2; [|discriminate]. injection H as <-.
      split; [exact E2|]. intros [|j] Hj; [lia|]. cbn [skipn].
      apply last_index_none; assumption.
Qed.

Lemma last_index_intro sep s i :
  sep <> [] -> has_prefix (skipn i s) sep = true ->
  (forall j, (i < j)%nat -> has_prefix (skipn j s) sep = false) ->
  last_index sep s = Some i.
Proof.
  intros Hsep H1 H2. destruct (last_index sep s) as [i'|] eqn:E.
  - destruct (last_index_some sep s i' Hsep E) as [H3 H4].
    destruct (Nat.lt_trichotomy i i') as [Hl|[->|Hl]]; [|reflexivity|].
    + rewrite (H2 i' Hl) in H3. discriminate.
    + rewrite (H4 i Hl) in H1. discriminate.
  - rewrite (last_index_none sep s Hsep E i) in H1. discriminate.
Qed.

Lemma split_at2 (a : str) x y rest :
  firstn (S (length a)) (a ++ x :: y :: rest) = a ++ [x] /\
  skipn (S (S (length a))) (a ++ x :: y :: rest) = rest.
Proof.
  induction a as [|c a IH]; [split; reflexivity|].
  destruct IH as [IH1 IH2]. split.
  - change (c :: firstn (S (length a)) (a ++ x :: y :: rest) = c :: a ++ [x]). now rewrite IH1.
  - exact IH2.
Qed.

(* the split of Open: msg = text "\n" sigs with text = msg[:split+1], sigs = msg[split+2:] *)
Lemma split_decomp msg split :
  has_prefix (skipn split msg) note_sigSplit = true ->
  exists a sigs, msg = a ++ 10 :: 10 :: sigs /\ length a = split /\
                 firstn (S split) msg = a ++ [10] /\ skipn (S (S split)) msg = sigs.
Proof.
  intros H. apply has_prefix_true in H. destruct H as [sigs Hs].
  assert (Hle : (split <= length msg)%nat).
  { destruct (Nat.le_gt_cases split (length msg)) as [Hl|Hl]; [exact Hl|].
    rewrite skipn_all2 in Hs by lia. discriminate. }
  exists (firstn split msg), sigs.
  assert (Hm : msg = firstn split msg ++ 10 :: 10 :: sigs).
  { rewrite <- (firstn_skipn split msg) at 1. rewrite Hs. reflexivity. }
  assert (Hl : length (firstn split msg) = split) by (apply firstn_length_le; exact Hle).
  split; [exact Hm|]. split; [exact Hl|].
  destruct (split_at2 (firstn split msg) 10 10 sigs) as [H1 H2].
  rewrite Hl in H1, H2. rewrite <- Hm in H1, H2. split; assumption.
Qed.

Lemma chop_spec sep s a b :
  chop sep s = (a, b) ->
  ~ In sep a /\ (s = a ++ sep :: b \/ (s = a /\ b = [])).
Proof.
  revert a b. induction s as [|c r IH]; intros a b H; cbn [chop] in H.
  - injection H as <- <-. split; [intros []|]. right; split; reflexivity.
  - destruct (Z.eqb_spec c sep) as [->|Hne].
    + injection H as <- <-. split; [intros []|]. left; reflexivity.
    + destruct (chop sep r) as [a' b'] eqn:E. injection H as <- <-.
      destruct (IH a' b' eq_refl) as [Hn Hs]. split.
      * intros [Hc|Hi]; [congruence|exact (Hn Hi)].
      * destruct Hs as [->|[-> ->]]; [left|right; split]; reflexivity.
Qed.

Lemma chop_app sep a b : ~ In sep a -> chop sep (a ++ sep :: b) = (a, b).
Proof.
  induction a as [|c a IH]; intros Hn; cbn [chop app].
  - rewrite Z.eqb_refl. reflexivity.
  - destruct (Z.eqb_spec c sep) as [->|Hne]; [exfalso; apply Hn; left; reflexivity|].
    rewrite IH; [reflexivity|]. intros Hi; apply Hn; right; exact Hi.
Qed.

(* ---- name/hash keys --------------------------------------------------------------------- *)

Lemma nh_eqb_eq a b : nh_eqb a b = true <-> a = b.
Proof.
  destruct a as [n h], b as [n' h']. unfold nh_eqb; cbn [fst snd].
  rewrite andb_true_iff, str_eqb_eq, Z.eqb_eq. split; [intros [-> ->]; reflexivity|intros [= -> ->]; auto].
Qed.

Lemma nh_eqb_refl a : nh_eqb a a = true.
Proof. apply nh_eqb_eq; reflexivity. Qed.

Lemma nh_eqb_sym a b : nh_eqb a b = nh_eqb b a.
Proof.
  destruct (nh_eqb a b) eqn:E1, (nh_eqb b a) eqn:E2; try reflexivity.
  - apply nh_eqb_eq in E1. subst. rewrite nh_eqb_refl in E2. discriminate.
  - apply nh_eqb_eq in E2. subst. rewrite nh_eqb_refl in E1. discriminate.
Qed.

(* ---- one signature line -------------------------------------------------------------------- *)

Lemma parse_sig_line_some line l' name h sig b64 :
  parse_sig_line line = Some (l', name, h, sig, b64) ->
  exists raw, b64_decode b64 = Some raw /\ sig = skipn 4 raw /\ h = be32_dec raw /\ 5 <= len raw /\
              is_valid_name name = true /\ b64 <> [] /\
              line = note_sigPrefix ++ l' /\ l' = name ++ 32 :: b64.
Proof.
  unfold parse_sig_line. destruct (has_prefix line note_sigPrefix) eqn:Hp; cbn [negb]; [|discriminate].
  apply has_prefix_true in Hp. destruct Hp as [rest ->].
  change (skipn (length note_sigPrefix) (note_sigPrefix ++ rest)) with rest.
  destruct (chop 32 rest) as [nm b] eqn:Hc.
  destruct (b64_decode b) as [raw|] eqn:Hd; [|discriminate].
  destruct (is_valid_name nm) eqn:Hv; cbn [negb orb]; [|discriminate].
  destruct b as [|b0 b]; cbn [is_empty orb]; [discriminate|].
  destruct (Z.ltb_spec (len raw) 5) as [Hl|Hl]; [discriminate|].
  intros [= <- <- <- <- <-]. exists raw. repeat split; try assumption; try reflexivity; try discriminate.
  apply chop_spec in Hc. destruct Hc as [_ [->|[_ Hb]]]; [reflexivity|discriminate].
Qed.

Lemma sig_bytes_of_line line l' name h sig b64 :
  parse_sig_line line = Some (l', name, h, sig, b64) ->
  sig_bytes {| s_name := name; s_hash := h; s_b64 := b64 |} = sig.
Proof.
  intros H. apply parse_sig_line_some in H. destruct H as (raw & Hd & -> & _).
  unfold sig_bytes; cbn [s_b64]. rewrite Hd. reflexivity.
Qed.

(* ---- soundness of Open ------------------------------------------------------------------------ *)

Section Open.
  Variable vid : Type.
  Variable V : vid -> str -> str -> bool.
  Variable known : verifiers vid.
  Variable text : str.

  (* a verified signature: taken from a line of the message, its key has exactly one known
     verifier, and that verifier accepted the signature bytes over [text] *)
  Definition sig_ok (Q : str -> Prop) (s : signature) : Prop :=
    exists v line line',
      lookup vid known (s_name s) (s_hash s) = LUnique v /\
      v_name v = s_name s /\ v_hash v = s_hash s /\
      V (v_id v) text (sig_bytes s) = true /\
      Q line /\ parse_sig_line line = Some (line', s_name s, s_hash s, sig_bytes s, s_b64 s).

  Definition unv_ok (Q : str -> Prop) (s : signature) : Prop :=
    lookup vid known (s_name s) (s_hash s) = LUnknown /\
    exists line line', Q line /\
      parse_sig_line line = Some (line', s_name s, s_hash s, sig_bytes s, s_b64 s).

  Lemma open_loop_ok (Q : str -> Prop) lines :
    forall seen seenU num sigs unv n,
      (forall l, In l lines -> Q l) ->
      Forall (sig_ok Q) sigs -> Forall (unv_ok Q) unv ->
      open_loop vid V text known lines seen seenU num sigs unv = Ok n ->
      n_text n = text /\ n_sigs n <> [] /\
      Forall (sig_ok Q) (n_sigs n) /\ Forall (unv_ok Q) (n_unverified n).
  Proof.
    induction lines as [|line rest IH]; intros seen seenU num sigs unv n HQ Hs Hu H.
    - cbn [open_loop] in H. destruct sigs as [|s0 sigs]; [discriminate|].
      injection H as <-. cbn. repeat split; try assumption. discriminate.
    - cbn [open_loop] in H.
      destruct (parse_sig_line line) as [[[[[l' name] h] sig] b64]|] eqn:Hp; [|discriminate].
      destruct (Nat.ltb 100 (S num)); [discriminate|].
      assert (HQr : forall l, In l rest -> Q l) by (intros l Hl; apply HQ; right; exact Hl).
      assert (HQl : Q line) by (apply HQ; left; reflexivity).
      pose proof (sig_bytes_of_line _ _ _ _ _ _ Hp) as Hsb.
      destruct (lookup vid known name h) as [|v|] eqn:Hl; [| |discriminate].
      + destruct (mem_str l' seenU).
        * exact (IH _ _ _ _ _ n HQr Hs Hu H).
        * refine (IH _ _ _ _ _ n HQr Hs _ H). apply Forall_app. split; [assumption|].
          constructor; [|constructor]. split; [exact Hl|].
          exists line, l'. cbn [s_name s_hash s_b64]. rewrite Hsb. split; assumption.
      + destruct (str_eqb_spec (v_name v) name) as [Hn|Hn]; cbn [negb orb] in H; [|discriminate].
        destruct (Z.eqb_spec (v_hash v) h) as [Hh|Hh]; cbn [negb] in H; [|discriminate].
        destruct (mem_nh (name, h) seen).
        * exact (IH _ _ _ _ _ n HQr Hs Hu H).
        * destruct (V (v_id v) text sig) eqn:HV; [|discriminate].
          refine (IH _ _ _ _ _ n HQr _ Hu H). apply Forall_app. split; [assumption|].
          constructor; [|constructor].
          exists v, line, l'. cbn [s_name s_hash s_b64]. rewrite Hsb. repeat split; assumption.
  Qed.

  (* a line for a uniquely known key whose signature the verifier rejects, not preceded by
     another line for the same key: the loop fails, and not merely as "unverified" *)
  Lemma open_loop_bad line line' name hash sig b64 v post pre :
    forall seen seenU num sigs unv,
      mem_nh (name, hash) seen = false ->
      (forall l l' n' h' s' b', In l pre -> parse_sig_line l = Some (l', n', h', s', b') ->
                                nh_eqb (name, hash) (n', h') = false) ->
      parse_sig_line line = Some (line', name, hash, sig, b64) ->
      lookup vid known name hash = LUnique v ->
      V (v_id v) text sig = false ->
      match open_loop vid V text known (pre ++ line :: post) seen seenU num sigs unv with
      | Ok _ => False
      | Err (Unverified _) => False
      | Err _ => True
      end.
  Proof.
    induction pre as [|l0 pre IH]; intros seen seenU num sigs unv Hseen Hpre Hp Hl HV.
    - cbn [app open_loop]. rewrite Hp. destruct (Nat.ltb 100 (S num)); [exact I|].
      rewrite Hl. destruct (negb (str_eqb (v_name v) name) || negb (v_hash v =? hash)); [exact I|].
      rewrite Hseen, HV. exact I.
    - cbn [app open_loop].
      destruct (parse_sig_line l0) as [[[[[l' n'] h'] s'] b']|] eqn:Hp0; [|exact I].
      destruct (Nat.ltb 100 (S num)); [exact I|].
      assert (Hpre' : forall l l' n' h' s' b', In l pre -> parse_sig_line l = Some (l', n', h', s', b') ->
                                               nh_eqb (name, hash) (n', h') = false).
      { intros; eapply Hpre; [right|]; eassumption. }
      destruct (lookup vid known n' h') as [|v0|]; [| |exact I].
      + destruct (mem_str l' seenU); apply IH; assumption.
      + destruct (negb (str_eqb (v_name v0) n') || negb (v_hash v0 =? h')); [exact I|].
        destruct (mem_nh (n', h') seen); [apply IH; assumption|].
        destruct (V (v_id v0) text s'); [|exact I].
        apply IH; try assumption.
        unfold mem_nh in *. cbn [existsb]. rewrite Hseen.
        rewrite (Hpre l0 l' n' h' s' b' (or_introl eq_refl) Hp0). reflexivity.
  Qed.
End Open.

Section OpenTheorems.
  Variable vid : Type.
  Variable V : vid -> str -> str -> bool.

  Definition sig_split_nonempty : note_sigSplit <> [] := ltac:(discriminate).

  (* what a successful Open establishes *)
  Theorem open_sound msg known n :
    open vid V msg known = Ok n ->
    n_sigs n <> [] /\
    (exists sigblock,
        msg = n_text n ++ [10] ++ sigblock /\ last (n_text n) 0 = 10 /\
        (* the split is at the LAST blank line: no "\n\n" starts at or after the final newline of the text *)
        (forall j, (length (n_text n) <= j)%nat -> has_prefix (skipn j msg) note_sigSplit = false) /\
        (forall s, In s (n_sigs n) ->
           exists v line line',
             lookup vid known (s_name s) (s_hash s) = LUnique v /\
             v_name v = s_name s /\ v_hash v = s_hash s /\
             V (v_id v) (n_text n) (sig_bytes s) = true /\
             In line (sig_lines sigblock) /\
             parse_sig_line line = Some (line', s_name s, s_hash s, sig_bytes s, s_b64 s)) /\
        (forall s, In s (n_unverified n) ->
           lookup vid known (s_name s) (s_hash s) = LUnknown /\
           exists line line', In line (sig_lines sigblock) /\
             parse_sig_line line = Some (line', s_name s, s_hash s, sig_bytes s, s_b64 s))).
  Proof.
    unfold open. destruct (scan_ok msg); cbn [negb]; [|discriminate].
    destruct (last_index note_sigSplit msg) as [split|] eqn:Hli; [|discriminate].
    destruct (last_index_some _ _ _ sig_split_nonempty Hli) as [Hpre Hlast].
    destruct (split_decomp msg split Hpre) as (a & sigs & Hm & Hla & Hf & Hsk).
    rewrite Hf, Hsk. destruct (is_empty sigs || negb (last sigs 0 =? 10)); [discriminate|].
    intros H.
    destruct (open_loop_ok vid V known (a ++ [10]) (fun l => In l (sig_lines sigs)) (sig_lines sigs)
                [] [] O [] [] n (fun l Hl => Hl) (Forall_nil _) (Forall_nil _) H)
      as (Ht & Hne & Hs & Hu).
    split; [exact Hne|]. exists sigs. rewrite Ht.
    split; [rewrite Hm, <- app_assoc; reflexivity|].
    split; [apply last_last|].
    split.
    { intros j Hj. apply Hlast. rewrite app_length in Hj. cbn in Hj. lia. }
    split.
    - intros s Hin. rewrite Forall_forall in Hs. exact (Hs s Hin).
    - intros s Hin. rewrite Forall_forall in Hu. exact (Hu s Hin).
  Qed.

  (* If the first signature line for some key known uniquely to [known] is rejected by that
     key's verifier, Open fails (with InvalidSignature for that key unless an earlier line
     already made it fail), and it does not report the note as merely unverified. *)
  Theorem open_bad_known_sig_fails msg known split pre line post line' name hash sig b64 v :
    last_index note_sigSplit msg = Some split ->
    sig_lines (skipn (S (S split)) msg) = pre ++ line :: post ->
    (forall l l' n' h' s' b', In l pre -> parse_sig_line l = Some (l', n', h', s', b') ->
                              (n', h') <> (name, hash)) ->
    parse_sig_line line = Some (line', name, hash, sig, b64) ->
    lookup vid known name hash = LUnique v ->
    V (v_id v) (firstn (S split) msg) sig = false ->
    match open vid V msg known with
    | Ok _ => False
    | Err (Unverified _) => False
    | Err _ => True
    end.
  Proof.
    intros Hli Hlines Hpre Hp Hl HV. unfold open.
    destruct (scan_ok msg); cbn [negb]; [|exact I]. rewrite Hli.
    destruct (is_empty _ || negb _); [exact I|]. rewrite Hlines.
    eapply open_loop_bad; try eassumption; [reflexivity|].
    intros l l' n' h' s' b' Hin Hpl.
    destruct (nh_eqb (name, hash) (n', h')) eqn:E; [|reflexivity].
    apply nh_eqb_eq in E. exfalso. eapply Hpre; [exact Hin|exact Hpl|]. symmetry; exact E.
  Qed.

  (* Acceptance of any message exhibits a known verifier and a signature in that message
     which the verifier accepts for exactly the returned text: to have a changed text
     accepted one needs a signature valid for the changed text (a forgery). *)
  Theorem open_text_tamper msg' known n' :
    open vid V msg' known = Ok n' ->
    exists v name hash sig sigblock line line' b64,
      msg' = n_text n' ++ [10] ++ sigblock /\
      In line (sig_lines sigblock) /\ parse_sig_line line = Some (line', name, hash, sig, b64) /\
      lookup vid known name hash = LUnique v /\
      V (v_id v) (n_text n') sig = true.
  Proof.
    intros H. destruct (open_sound _ _ _ H) as (Hne & sigblock & Hm & _ & _ & Hs & _).
    destruct (n_sigs n') as [|s rest] eqn:E; [congruence|].
    destruct (Hs s (or_introl eq_refl)) as (v & line & line' & Hl & _ & _ & HV & Hin & Hp).
    exists v, (s_name s), (s_hash s), (sig_bytes s), sigblock, line, line', (s_b64 s).
    repeat split; assumption.
  Qed.
End OpenTheorems.

(* ---- verifier keys ------------------------------------------------------------------------------ *)

Theorem verifier_key_binding (sha : str -> str) k name h key :
  parse_verifier_key sha k = KOk (name, h, key) -> h = key_hash sha name key.
Proof.
  unfold parse_verifier_key.
  destruct (chop 43 k) as [nm rest]. destruct (chop 43 rest) as [h16 k64].
  destruct (b64_decode k64) as [kb|]; [|discriminate].
  destruct (negb (Nat.eqb (length h16) 8) || negb (forallb is_hex h16) || negb (is_valid_name nm) || is_empty kb);
    [discriminate|].
  destruct (Z.eqb_spec (parse_hex h16) (key_hash sha nm kb)) as [He|He]; cbn [negb]; [|discriminate].
  destruct kb as [|alg kk]; [discriminate|].
  destruct (negb (alg =? note_algEd25519)); [discriminate|].
  destruct (negb (Nat.eqb (length kk) 32)); [discriminate|].
  intros [= <- <- <-]. exact He.
Qed.

(* a parsed verifier key has a valid name and an Ed25519 key of 32 bytes *)
Lemma parse_verifier_key_shape (sha : str -> str) k name h key :
  parse_verifier_key sha k = KOk (name, h, key) ->
  is_valid_name name = true /\ exists pub, key = note_algEd25519 :: pub /\ length pub = 32%nat.
Proof.
  unfold parse_verifier_key.
  destruct (chop 43 k) as [nm rest]. destruct (chop 43 rest) as [h16 k64].
  destruct (b64_decode k64) as [kb|]; [|discriminate].
  destruct (is_valid_name nm) eqn:Hv; cbn [negb];
    [|rewrite orb_true_r; cbn [orb]; discriminate].
  destruct (negb (Nat.eqb (length h16) 8) || negb (forallb is_hex h16) || false || is_empty kb);
    [discriminate|].
  destruct (negb (parse_hex h16 =? key_hash sha nm kb)); [discriminate|].
  destruct kb as [|alg kk]; [discriminate|].
  destruct (Z.eqb_spec alg note_algEd25519) as [->|]; cbn [negb]; [|discriminate].
  destruct (Nat.eqb_spec (length kk) 32) as [Hl|]; cbn [negb]; [|discriminate].
  intros [= <- <- <-]. split; [exact Hv|]. exists kk. split; [reflexivity|exact Hl].
Qed.

(* ---- VerifierList -------------------------------------------------------------------------------- *)

Section VerifierList.
  Variable vid : Type.

  (* every verifier stored under a key of the table carries that key *)
  Definition well_keyed (m : verifiers vid) : Prop :=
    forall k l v, In (k, l) m -> In v l -> (v_name v, v_hash v) = k.

  Lemma vm_add_well_keyed m v :
    well_keyed m -> well_keyed (vm_add vid (v_name v, v_hash v) v m).
  Proof.
    induction m as [|[k' l'] m IH]; intros Hw k l v0 Hin Hv.
    - cbn in Hin. destruct Hin as [[= <- <-]|[]]. destruct Hv as [<-|[]]. reflexivity.
    - cbn [vm_add] in Hin. destruct (nh_eqb (v_name v, v_hash v) k') eqn:E.
      + destruct Hin as [[= <- <-]|Hin].
        * apply in_app_or in Hv. destruct Hv as [Hv|[<-|[]]].
          -- eapply Hw; [left; reflexivity|exact Hv].
          -- apply nh_eqb_eq in E. exact E.
        * eapply Hw; [right; exact Hin|exact Hv].
      + destruct Hin as [[= <- <-]|Hin].
        * eapply Hw; [left; reflexivity|exact Hv].
        * eapply IH; [|exact Hin|exact Hv]. intros k0 l0 v1 H1 H2. eapply Hw; [right; exact H1|exact H2].
  Qed.

  Lemma verifier_list_well_keyed l : well_keyed (verifier_list vid l).
  Proof.
    unfold verifier_list.
    assert (H : forall m, well_keyed m ->
                          well_keyed (fold_left (fun m v => vm_add vid (v_name v, v_hash v) v m) l m)).
    { induction l as [|v l IH]; intros m Hm; [exact Hm|]. cbn [fold_left]. apply IH.
      apply vm_add_well_keyed. exact Hm. }
    apply H. intros k l0 v [].
  Qed.

  Lemma vm_find_in k m l : vm_find vid k m = Some l -> exists k', nh_eqb k k' = true /\ In (k', l) m.
  Proof.
    induction m as [|[k' l'] m IH]; [discriminate|]. cbn [vm_find].
    destruct (nh_eqb k k') eqn:E.
    - intros [= <-]. exists k'. split; [exact E|left; reflexivity].
    - intros H. destruct (IH H) as (k0 & H1 & H2). exists k0. split; [exact H1|right; exact H2].
  Qed.

  (* the verifier found for (name, hash) carries that name and hash: for tables built by
     VerifierList the mismatched-verifier error of Open cannot occur *)
  Lemma lookup_unique_keyed m name hash v :
    well_keyed m -> lookup vid m name hash = LUnique v -> v_name v = name /\ v_hash v = hash.
  Proof.
    intros Hw. unfold lookup. destruct (vm_find vid (name, hash) m) as [l|] eqn:E; [|discriminate].
    destruct l as [|v0 [|v1 l]]; try discriminate. intros [= <-].
    destruct (vm_find_in _ _ _ E) as (k' & Hk & Hin). apply nh_eqb_eq in Hk. subst k'.
    specialize (Hw _ _ v0 Hin (or_introl eq_refl)). injection Hw as -> ->. split; reflexivity.
  Qed.
End VerifierList.
