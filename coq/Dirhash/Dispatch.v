(* Wire dispatcher for the dirhash model, instantiated with the executable SHA-256.
     Hash1    L2 [L names; L entries]   entries: L2 [S name; S content] readable,
                                                 L1 [S name] open fails; absent = open fails
     HashDir  L3 [S dir; S prefix; L entries]  dir = the directory argument as spelled;
                                        entries = the tree (rel, content) / (rel) unreadable
     DirFiles L3 [S dir; S prefix; L entries]  -> sorted list of names
     HashZip  L entries                 entries of the archive in order
     Join     L2 [S a; S b]             filepath.Join(a, b)
     Hex      S bytes                   fmt %x
   results: ok S | err newline | err open <name> | err outside *)
From Verif.Base Require Import Bytes Wire Hex SortStr Sha256.
From Verif.Dirhash Require Import Model.

Definition entry_of (v : val) : option (str * option str) :=
  match v with
  | VL [VS n; VS c] => Some (n, Some c)
  | VL [VS n] => Some (n, None)
  | _ => None
  end.

Fixpoint entries_of (l : list val) : option (list (str * option str)) :=
  match l with
  | [] => Some []
  | v :: r =>
      match entry_of v, entries_of r with
      | Some e, Some es => Some (e :: es)
      | _, _ => None
      end
  end.

Fixpoint strs_of (l : list val) : option (list str) :=
  match l with
  | [] => Some []
  | VS s :: r => option_map (cons s) (strs_of r)
  | _ => None
  end.

(* the open function described by an entry list: first entry with that name *)
Fixpoint assoc_open (es : list (str * option str)) (name : str) : option str :=
  match es with
  | [] => None
  | (k, c) :: r => if str_eqb k name then c else assoc_open r name
  end.

Definition result_val (r : result) : val :=
  match r with
  | Ok s => VOk (VS s)
  | ErrNewline => VErr "newline"
  | ErrOpen f => VL [VS (B "err"); VS (B "open"); VS f]
  | Outside => VErr "outside"
  end.

Definition dispatch (f : str) (a : val) : val :=
  if str_eqb f (B "Hash1") then
    match a with
    | VL [VL names; VL es] =>
        match strs_of names, entries_of es with
        | Some ns, Some es' => result_val (hash1 sha256 ns (assoc_open es'))
        | _, _ => VBadCase
        end
    | _ => VBadCase
    end
  else if str_eqb f (B "HashDir") then
    match a with
    | VL [VS dir; VS prefix; VL es] =>
        match entries_of es with
        | Some t => result_val (hash_dir sha256 dir t prefix)
        | None => VBadCase
        end
    | _ => VBadCase
    end
  else if str_eqb f (B "DirFiles") then
    match a with
    | VL [VS dir; VS prefix; VL es] =>
        match entries_of es with
        | Some t => VL (map VS (sort_strs (dir_files dir t prefix)))
        | None => VBadCase
        end
    | _ => VBadCase
    end
  else if str_eqb f (B "HashZip") then
    match a with
    | VL es =>
        match entries_of es with
        | Some z => result_val (hash_zip sha256 z)
        | None => VBadCase
        end
    | _ => VBadCase
    end
  else if str_eqb f (B "Join") then
    match a with
    | VL [VS x; VS y] => VS (join2 x y)
    | _ => VBadCase
    end
  else if str_eqb f (B "Hex") then
    match a with
    | VS s => VS (hex_encode s)
    | _ => VBadCase
    end
  else VBadCase.
