(* Proofs about the naming part of the dirhash model: DirFiles / HashDir on a tree with a
   plain prefix, and agreement of HashZip with HashDir on the extraction of the archive. *)
From Verif.Base Require Import Bytes Hex SortStr Base64.
From Verif.Dirhash Require Import Model Proofs.
From Coq Require Import Sorting.Permutation.

(* a plain path element: not empty, not "." and not ".." *)
Definition normalb (c : str) : bool :=
  negb (is_nil c || str_eqb c dot || str_eqb c dotdot).

(* a plain relative slash path: every '/'-separated element is plain (so the path is
   non-empty, relative, has no empty element and is its own filepath.Clean) *)
Definition good_path (p : str) : Prop := forallb normalb (split_on 47 p) = true.

(* the trees DirFiles can meet: distinct relative paths made of plain elements *)
Definition tree_wf (t : tree) : Prop :=
  NoDup (map fst t) /\ forall e, In e t -> good_path (fst e).

(* ---------------------------------------------------------------- lists and strings *)

Lemma split_on_nonempty sep s : split_on sep s <> [].
Proof.
  induction s as [|c r IH]; cbn [split_on]; [discriminate|].
  destruct (c =? sep); [discriminate|]. destruct (split_on sep r); discriminate.
Qed.

Lemma split_on_app_sep sep a b :
  split_on sep (a ++ sep :: b) = split_on sep a ++ split_on sep b.
Proof.
  induction a as [|c a IH]; cbn [app split_on].
  - now rewrite Z.eqb_refl.
  - destruct (c =? sep); [now rewrite IH|].
    rewrite IH. pose proof (split_on_nonempty sep a) as Hne.
    destruct (split_on sep a) as [|h t]; [congruence | reflexivity].
Qed.

Lemma join_slash_cons c r : r <> [] -> join_slash (c :: r) = c ++ 47 :: join_slash r.
Proof. destruct r; [congruence | reflexivity]. Qed.

Lemma join_slash_split s : join_slash (split_on 47 s) = s.
Proof.
  induction s as [|c r IH]; cbn [split_on]; [reflexivity|].
  pose proof (split_on_nonempty 47 r) as Hne.
  destruct (Z.eqb_spec c 47) as [->|Hc].
  - rewrite join_slash_cons by exact Hne. now rewrite IH.
  - destruct (split_on 47 r) as [|h t]; [congruence|].
    destruct t as [|h2 t]; cbn [join_slash] in *; [now rewrite IH|].
    rewrite <- IH. reflexivity.
Qed.

Lemma has_prefix_app p x : has_prefix (p ++ x) p = true.
Proof.
  induction p as [|c p IH]; cbn [app has_prefix]; [destruct x; reflexivity|].
  now rewrite Z.eqb_refl, IH.
Qed.

Lemma trim_prefix_nil s : trim_prefix s [] = s.
Proof. unfold trim_prefix. destruct s; reflexivity. Qed.

Lemma skipn_app_length (p x : str) : skipn (length p) (p ++ x) = x.
Proof. induction p as [|c p IH]; cbn [length app skipn]; auto. Qed.

Lemma trim_prefix_app p x : trim_prefix (p ++ x) p = x.
Proof. unfold trim_prefix. now rewrite has_prefix_app, skipn_app_length. Qed.

Lemma str_eqb_app_head p a b : str_eqb (p ++ a) (p ++ b) = str_eqb a b.
Proof.
  induction p as [|c p IH]; cbn [app str_eqb]; [reflexivity|]. now rewrite Z.eqb_refl, IH.
Qed.

(* ---------------------------------------------------------------- Clean and resolve *)

Lemma clean_comps_normal rooted cs stack :
  forallb normalb cs = true -> clean_comps rooted cs stack = rev stack ++ cs.
Proof.
  revert stack; induction cs as [|c cs IH]; intros stack H; cbn [clean_comps].
  - now rewrite app_nil_r.
  - cbn [forallb] in H. apply andb_true_iff in H. destruct H as [Hc Hcs].
    unfold normalb in Hc. apply negb_true_iff in Hc.
    apply orb_false_iff in Hc. destruct Hc as [Hc Hdd].
    rewrite Hc, Hdd. rewrite IH by exact Hcs. cbn [rev]. now rewrite <- app_assoc.
Qed.

Lemma resolve_comps_normal cs stack :
  forallb normalb cs = true -> resolve_comps cs stack = Some (rev stack ++ cs).
Proof.
  revert stack; induction cs as [|c cs IH]; intros stack H; cbn [resolve_comps].
  - now rewrite app_nil_r.
  - cbn [forallb] in H. apply andb_true_iff in H. destruct H as [Hc Hcs].
    unfold normalb in Hc. apply negb_true_iff in Hc.
    apply orb_false_iff in Hc. destruct Hc as [Hc Hdd].
    rewrite Hc, Hdd. rewrite IH by exact Hcs. cbn [rev]. now rewrite <- app_assoc.
Qed.

Lemma good_path_shape p : good_path p -> exists c r, p = c :: r /\ c <> 47.
Proof.
  unfold good_path. destruct p as [|c r]; cbn [split_on forallb]; [discriminate|].
  intros H. exists c, r. split; [reflexivity|]. intros ->.
  cbn in H. discriminate.
Qed.

Lemma clean_good p : good_path p -> clean p = p.
Proof.
  intros Hg. destruct (good_path_shape p Hg) as (c & r & -> & Hc).
  unfold clean. rewrite clean_comps_normal by exact Hg. cbn [rev app].
  rewrite join_slash_split.
  assert (Hroot : match c :: r with 47 :: _ => true | _ => false end = false).
  { destruct (Z.eqb_spec c 47) as [->|_]; [congruence|].
    destruct c as [|q|q]; try reflexivity.
    do 6 (destruct q as [q|q|]; try reflexivity). congruence. }
  rewrite Hroot. reflexivity.
Qed.

Lemma good_path_join a b : good_path a -> good_path b -> good_path (a ++ 47 :: b).
Proof.
  unfold good_path. intros Ha Hb. rewrite split_on_app_sep, forallb_app. now rewrite Ha, Hb.
Qed.

Lemma join2_good a b : good_path a -> good_path b -> join2 a b = a ++ 47 :: b.
Proof.
  intros Ha Hb. unfold join2. destruct (good_path_shape a Ha) as (c & r & -> & _).
  cbn [is_nil]. apply clean_good. now apply good_path_join.
Qed.

Lemma join2_empty b : good_path b -> join2 [] b = b.
Proof.
  intros Hb. unfold join2. destruct (good_path_shape b Hb) as (c & r & -> & _).
  cbn [is_nil]. now apply clean_good.
Qed.

(* Walk reports cdir/rel and DirFiles cuts cdir/ off again, for every cleaned directory
   argument except the root "/" *)
Lemma dir_rel_walk cdir rel : cdir <> [47] -> dir_rel cdir (walk_file cdir rel) = rel.
Proof.
  intros Hroot. unfold dir_rel, walk_file.
  destruct (str_eqb_spec cdir dot) as [_|_]; [reflexivity|].
  destruct (str_eqb_spec cdir [47]) as [E|_]; [contradiction|].
  clear. induction cdir as [|c cdir IH]; [reflexivity | exact IH].
Qed.

Lemma resolve_slash_good b : good_path b -> resolve (47 :: b) = Some b.
Proof.
  intros Hb. unfold resolve. cbn [split_on]. rewrite Z.eqb_refl. cbn [resolve_comps is_nil orb].
  rewrite resolve_comps_normal by exact Hb. cbn [rev app option_map]. now rewrite join_slash_split.
Qed.

Lemma resolve_good b : good_path b -> resolve b = Some b.
Proof.
  intros Hb. unfold resolve. rewrite resolve_comps_normal by exact Hb.
  cbn [rev app option_map]. now rewrite join_slash_split.
Qed.

(* ---------------------------------------------------------------- association lists *)

Lemma tree_lookup_in (t : tree) k c :
  NoDup (map fst t) -> In (k, c) t -> tree_lookup t k = c.
Proof.
  induction t as [|[k' c'] t IH]; intros Hnd Hin; [destruct Hin|].
  cbn [map fst] in Hnd. inversion Hnd as [|? ? Hnotin Hnd']; subst.
  cbn [tree_lookup]. destruct Hin as [E|Hin].
  - injection E as -> ->. now rewrite str_eqb_refl.
  - destruct (str_eqb_spec k' k) as [->|_]; [|now apply IH].
    exfalso. apply Hnotin. apply in_map_iff. now exists (k, c).
Qed.

Lemma tree_lookup_notin (t : tree) k : ~ In k (map fst t) -> tree_lookup t k = None.
Proof.
  induction t as [|[k' c'] t IH]; intros Hn; cbn [tree_lookup]; [reflexivity|].
  destruct (str_eqb_spec k' k) as [->|_]; [exfalso; apply Hn; now left|].
  apply IH. intros H. apply Hn. now right.
Qed.

Lemma existsb_name_false (z : zip) k :
  ~ In k (map fst z) -> existsb (fun e => str_eqb (fst e) k) z = false.
Proof.
  induction z as [|[k' c'] z IH]; intros Hn; cbn [existsb fst]; [reflexivity|].
  destruct (str_eqb_spec k' k) as [->|_]; [exfalso; apply Hn; now left|].
  apply IH. intros H. apply Hn. now right.
Qed.

Lemma zip_open_in (z : zip) k c :
  NoDup (map fst z) -> In (k, c) z -> zip_open z k = c.
Proof.
  induction z as [|[k' c'] z IH]; intros Hnd Hin; [destruct Hin|].
  cbn [map fst] in Hnd. inversion Hnd as [|? ? Hnotin Hnd']; subst.
  cbn [zip_open]. destruct Hin as [E|Hin].
  - injection E as -> ->. rewrite str_eqb_refl, existsb_name_false by exact Hnotin. reflexivity.
  - destruct (str_eqb_spec k' k) as [->|_]; [|now apply IH].
    exfalso. apply Hnotin. apply in_map_iff. now exists (k, c).
Qed.

(* the name DirFiles gives to rel under a plain prefix *)
Definition rename (prefix : str) (e : str * option str) : str * option str :=
  (prefix ++ 47 :: fst e, snd e).

Lemma NoDup_rename prefix (t : tree) :
  NoDup (map fst t) -> NoDup (map fst (map (rename prefix) t)).
Proof.
  rewrite map_map. cbn [rename fst].
  induction t as [|e t IH]; cbn [map]; intros H; [constructor|].
  inversion H as [|? ? Hn Hnd]; subst. constructor; [|now apply IH].
  intros Hin. apply Hn. apply in_map_iff in Hin. destruct Hin as (e' & E & He').
  apply app_inv_head in E. injection E as E. apply in_map_iff. now exists e'.
Qed.

Lemma tree_lookup_rename prefix (t : tree) rel :
  tree_lookup (map (rename prefix) t) (prefix ++ 47 :: rel) = tree_lookup t rel.
Proof.
  induction t as [|[k c] t IH]; cbn [map rename tree_lookup fst snd]; [reflexivity|].
  rewrite str_eqb_app_head. cbn [str_eqb]. rewrite Z.eqb_refl. cbn [andb]. now rewrite IH.
Qed.

(* ---------------------------------------------------------------- DirFiles, HashDir *)

Theorem dir_files_naming dir (t : tree) prefix :
  clean dir <> [47] ->
  good_path prefix -> (forall e, In e t -> good_path (fst e)) ->
  dir_files dir t prefix = map (fun e => prefix ++ 47 :: fst e) t.
Proof.
  intros Hd Hp Ht. unfold dir_files. apply map_ext_in. intros e He.
  rewrite dir_rel_walk by exact Hd. apply join2_good; auto.
Qed.

Theorem dir_files_naming_empty dir (t : tree) :
  clean dir <> [47] ->
  (forall e, In e t -> good_path (fst e)) -> dir_files dir t [] = map fst t.
Proof.
  intros Hd Ht. unfold dir_files. apply map_ext_in. intros e He.
  rewrite dir_rel_walk by exact Hd. apply join2_empty; auto.
Qed.

Theorem dir_files_naming_both (dir : str) (t : tree) (prefix : str) :
  clean dir <> [47] ->
  (forall e, In e t -> good_path (fst e)) ->
  (good_path prefix -> dir_files dir t prefix = map (fun e => prefix ++ 47 :: fst e) t) /\
  dir_files dir t [] = map fst t.
Proof.
  intros Hd Ht. split; [intros Hp; now apply dir_files_naming | now apply dir_files_naming_empty].
Qed.

Section DirProofs.
Variable sha : str -> str.

(* HashDir with a plain prefix is Hash1 over the renamed tree *)
Theorem hash_dir_formula dir (t : tree) prefix :
  dir <> [] -> clean dir <> [47] ->
  good_path prefix -> tree_wf t ->
  hash_dir sha dir t prefix =
  hash1 sha (map fst (map (rename prefix) t)) (tree_lookup (map (rename prefix) t)).
Proof.
  intros Hne Hd Hp [Hnd Hgood]. unfold hash_dir.
  assert (Hnil : is_nil dir = false) by (destruct dir; [congruence | reflexivity]).
  rewrite (dir_files_naming dir t prefix Hd Hp Hgood).
  rewrite map_map. cbn [rename fst].
  assert (Hesc : existsb (escapes dir prefix) (map (fun e => prefix ++ 47 :: fst e) t) = false).
  { clear Hnd. induction t as [|e t IH]; cbn [map existsb]; [reflexivity|].
    rewrite IH by (intros e' He'; apply Hgood; now right). rewrite orb_false_r.
    unfold escapes. rewrite trim_prefix_app, Hnil, resolve_slash_good; [reflexivity|].
    apply Hgood. now left. }
  rewrite Hesc. apply hash1_ext. intros name Hin.
  apply in_map_iff in Hin. destruct Hin as (e & <- & He).
  rewrite tree_lookup_rename. unfold dir_open.
  rewrite trim_prefix_app, resolve_slash_good by (now apply Hgood). reflexivity.
Qed.

Theorem hash_dir_formula_empty dir (t : tree) :
  clean dir <> [47] ->
  tree_wf t -> hash_dir sha dir t [] = hash1 sha (map fst t) (tree_lookup t).
Proof.
  intros Hd [Hnd Hgood]. unfold hash_dir. rewrite (dir_files_naming_empty dir t Hd Hgood).
  assert (Hesc : existsb (escapes dir []) (map fst t) = false).
  { clear Hnd. induction t as [|e t IH]; cbn [map existsb]; [reflexivity|].
    rewrite IH by (intros e' He'; apply Hgood; now right). rewrite orb_false_r.
    unfold escapes. rewrite trim_prefix_nil.
    rewrite resolve_good by (apply Hgood; now left).
    destruct (good_path_shape (fst e) (Hgood e (or_introl eq_refl))) as (c & r & -> & Hc).
    rewrite orb_false_r. apply andb_false_iff. right.
    destruct (Z.eqb_spec c 47) as [->|_]; [congruence|].
    destruct c as [|q|q]; try reflexivity.
    do 6 (destruct q as [q|q|]; try reflexivity). congruence. }
  rewrite Hesc. apply hash1_ext. intros name Hin.
  apply in_map_iff in Hin. destruct Hin as (e & <- & He).
  unfold dir_open. rewrite trim_prefix_nil.
  rewrite resolve_good by (now apply Hgood). reflexivity.
Qed.

(* the empty directory argument: DirFiles("", prefix) lists the current directory, but
   HashDir("", prefix) opens "/rel" (filepath.Join("", "/rel")), outside the directory *)
Theorem hash_dir_empty_dir_outside (e : str * option str) (t : tree) prefix :
  good_path prefix -> tree_wf (e :: t) -> hash_dir sha [] (e :: t) prefix = Outside.
Proof.
  intros Hp [Hnd Hgood]. unfold hash_dir.
  rewrite (dir_files_naming [] (e :: t) prefix) by (try exact Hp; try exact Hgood; vm_compute; discriminate).
  cbn [map existsb]. unfold escapes at 1. rewrite trim_prefix_app. reflexivity.
Qed.

(* the archive z is, up to the order of its entries, the tree with every name prefixed
   by prefix/ : then hashing the archive and hashing the directory agree *)
Theorem zip_dir_agree (z : zip) dir (t : tree) prefix :
  dir <> [] -> clean dir <> [47] ->
  good_path prefix -> tree_wf t ->
  Permutation z (map (rename prefix) t) ->
  hash_zip sha z = hash_dir sha dir t prefix.
Proof.
  intros Hne Hd Hp Hwf HP. rewrite (hash_dir_formula dir t prefix Hne Hd Hp Hwf).
  destruct Hwf as [Hnd Hgood].
  pose proof (NoDup_rename prefix t Hnd) as Hnd2.
  assert (Hnd1 : NoDup (map fst z)).
  { eapply Permutation_NoDup; [|exact Hnd2]. symmetry. now apply Permutation_map. }
  unfold hash_zip. apply hash1_perm_ext; [now apply Permutation_map|].
  intros name Hin. apply in_map_iff in Hin. destruct Hin as ([k c] & <- & He). cbn [fst].
  rewrite (zip_open_in z k c Hnd1 He).
  symmetry. apply tree_lookup_in; [exact Hnd2|].
  eapply Permutation_in; [exact HP | exact He].
Qed.

End DirProofs.
