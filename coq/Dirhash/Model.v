(* Executable model of golang.org/x/mod/sumdb/dirhash (sumdb/dirhash/hash.go):
   Hash1, DirFiles, HashDir, HashZip, over an abstract file tree / abstract zip archive
   and parametric in the hash function [sha] (instantiated by Base/Sha256.sha256 in the
   dispatcher).  Definitions only; proofs live in Dirhash/Proofs*.v.

   Abstractions (each is checked against the real code by the correspondence run):
   * the [open] argument of Hash1 is a function [str -> option str]: [Some c] = the file
     opens and reads as [c]; [None] = open (or the subsequent read) fails.  Hash1 treats
     both failures alike (returns the error).
   * a file tree (what filepath.Walk finds under dir) is an association list
     [(rel, content)] : rel is the slash-separated path relative to dir of a non-directory
     entry, content is [None] for an entry that cannot be opened (e.g. dangling symlink).
     The list order is the walk order; Hash1 sorts, so only DirFiles can observe it, and
     nothing below depends on it.  Empty directories are not visible to DirFiles.
     Not modelled: dir not being a directory, Walk errors, dir = "/".
   * a zip archive is the list of its entries [(name, content)] in central-directory
     order; content [None] = the entry cannot be opened/read (unsupported method, bad
     checksum).  HashZip looks entries up through a Go map filled in order, so for a
     duplicated name every occurrence reads the LAST entry of that name ([zip_open]).
   * Unix path semantics (filepath.Separator = '/'; ToSlash is the identity). *)
From Verif.Base Require Import Bytes Hex SortStr Base64.

Inductive result :=
| Ok (s : str)
| ErrNewline                (* "dirhash: filenames with newlines are not supported" *)
| ErrOpen (f : str)         (* the error of open(f) / of reading f *)
| Outside.                  (* HashDir only: an opened path leaves dir; not modelled *)

Definition has_newline (f : str) : bool := contains_byte 10 f.

(* ------------------------------------------------------------------ Hash1 *)
Section Hash.
Variable sha : str -> str.

(* fmt.Fprintf(h, "%x  %s\n", hf.Sum(nil), file) *)
Definition line (content file : str) : str :=
  hex_encode (sha content) ++ B "  " ++ file ++ [10].

(* the loop of Hash1 over the sorted names: the first failing file (in sorted order)
   decides the error; for one file the newline test comes before open *)
Fixpoint summary (files : list str) (open : str -> option str) : result :=
  match files with
  | [] => Ok []
  | f :: rest =>
      if has_newline f then ErrNewline
      else match open f with
           | None => ErrOpen f
           | Some c =>
               match summary rest open with
               | Ok s => Ok (line c f ++ s)
               | e => e
               end
           end
  end.

Definition hash1 (files : list str) (open : str -> option str) : result :=
  match summary (sort_strs files) open with
  | Ok s => Ok (B "h1:" ++ b64_encode (sha s))
  | e => e
  end.

(* ------------------------------------------------------------------ paths *)
(* path/filepath.Clean on Unix, by components: empty and "." components vanish, ".."
   removes the preceding real component, is kept at the front of a relative path and
   dropped at the root. [stack] is reversed. *)
Definition is_nil (s : str) : bool := match s with [] => true | _ => false end.
Definition dot : str := [46].
Definition dotdot : str := [46; 46].

Fixpoint clean_comps (rooted : bool) (cs : list str) (stack : list str) : list str :=
  match cs with
  | [] => rev stack
  | c :: r =>
      if is_nil c || str_eqb c dot then clean_comps rooted r stack
      else if str_eqb c dotdot then
        match stack with
        | top :: below =>
            if str_eqb top dotdot then clean_comps rooted r (c :: stack)
            else clean_comps rooted r below
        | [] => if rooted then clean_comps rooted r [] else clean_comps rooted r [c]
        end
      else clean_comps rooted r (c :: stack)
  end.

Fixpoint join_slash (cs : list str) : str :=
  match cs with
  | [] => []
  | c :: r => match r with [] => c | _ => c ++ 47 :: join_slash r end
  end.

Definition clean (p : str) : str :=
  let rooted := match p with 47 :: _ => true | _ => false end in
  let body := join_slash (clean_comps rooted (split_on 47 p) []) in
  let out := if rooted then 47 :: body else body in
  if is_nil out then dot else out.

(* filepath.Join(a, b): Clean of the "/"-join starting at the first non-empty element;
   "" when both are empty *)
Definition join2 (a b : str) : str :=
  if is_nil a then (if is_nil b then [] else clean b) else clean (a ++ 47 :: b).

(* strings.TrimPrefix *)
Definition trim_prefix (s p : str) : str :=
  if has_prefix s p then skipn (length p) s else s.

(* ------------------------------------------------------------------ DirFiles, HashDir *)
Definition tree := list (str * option str).

(* The path filepath.Walk(cdir, ...) reports for the entry at rel below the cleaned
   directory argument cdir: filepath.Join(cdir, rel) = rel for ".", "/rel" for the root *)
Definition walk_file (cdir rel : str) : str :=
  if str_eqb cdir dot then rel
  else if str_eqb cdir [47] then 47 :: rel
  else cdir ++ 47 :: rel.

(* rel := file; if dir != "." { rel = file[len(dir)+1:] }   (dir already cleaned).
   For cdir = "/" this drops the first byte of the name (the code's quirk, kept). *)
Definition dir_rel (cdir file : str) : str :=
  if str_eqb cdir dot then file else skipn (S (length cdir)) file.

(* DirFiles(dir, prefix): dir = filepath.Clean(dir); for every file in walk order
   filepath.ToSlash(filepath.Join(prefix, rel)).  [dir] is the directory argument as
   spelled by the caller (".", "./", "sub", "./sub/", absolute ...); [t] is what lies
   below the directory it denotes. *)
Definition dir_files (dir : str) (t : tree) (prefix : str) : list str :=
  let cdir := clean dir in
  map (fun e => join2 prefix (dir_rel cdir (walk_file cdir (fst e)))) t.

(* filepath.Join(dir, x) followed by os.Open: [x] is resolved lexically below dir
   (whatever the spelling of dir); None = it climbs out of dir *)
Fixpoint resolve_comps (cs : list str) (stack : list str) : option (list str) :=
  match cs with
  | [] => Some (rev stack)
  | c :: r =>
      if is_nil c || str_eqb c dot then resolve_comps r stack
      else if str_eqb c dotdot then
        match stack with
        | _ :: below => resolve_comps r below
        | [] => None
        end
      else resolve_comps r (c :: stack)
  end.

Definition resolve (x : str) : option str :=
  option_map join_slash (resolve_comps (split_on 47 x) []).

Fixpoint tree_lookup (t : tree) (rel : str) : option str :=
  match t with
  | [] => None          (* no such file, a directory, or dir itself: open or read fails *)
  | (k, c) :: r => if str_eqb k rel then c else tree_lookup r rel
  end.

(* osOpen of HashDir *)
Definition dir_open (t : tree) (prefix : str) (name : str) : option str :=
  match resolve (trim_prefix name prefix) with
  | Some rel => tree_lookup t rel
  | None => None
  end.

(* does filepath.Join(dir, x) leave the directory?  Lexically ([resolve]); and for the
   empty directory argument Join("", "/rel") = "/rel" is an absolute path (DirFiles("")
   lists the current directory, but HashDir("", prefix) then opens from the root) *)
Definition escapes (dir : str) (prefix : str) (name : str) : bool :=
  let x := trim_prefix name prefix in
  (is_nil dir && match x with 47 :: _ => true | _ => false end)
  || match resolve x with Some _ => false | None => true end.

Definition hash_dir (dir : str) (t : tree) (prefix : str) : result :=
  let files := dir_files dir t prefix in
  if existsb (escapes dir prefix) files then Outside
  else hash1 files (dir_open t prefix).

(* ------------------------------------------------------------------ HashZip *)
Definition zip := list (str * option str).

(* zfiles[name] after the loop: the last entry with that name *)
Fixpoint zip_open (z : zip) (name : str) : option str :=
  match z with
  | [] => None          (* "should never happen" *)
  | (k, c) :: r =>
      if str_eqb k name && negb (existsb (fun e => str_eqb (fst e) name) r) then c
      else zip_open r name
  end.

Definition hash_zip (z : zip) : result :=
  hash1 (map fst z) (zip_open z).

End Hash.
