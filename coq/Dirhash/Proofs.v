(* Proofs about the Hash1 part of the dirhash model: the documented formula, which error
   wins, order independence, unique decodability of the summary (injectivity).
   Everything is parametric in [sha]. *)
From Verif.Base Require Import Bytes Hex SortStr Base64 Base64Proofs.
From Verif.Dirhash Require Import Model.
From Coq Require Import Sorting.Permutation.

Section HashProofs.
Variable sha : str -> str.

(* the text Hash1 feeds to the outer hash when nothing fails *)
Definition summary_text (content : str -> str) (files : list str) : str :=
  concat (map (fun f => line sha (content f) f) files).

(* ------------------------------------------------------------ formula and errors *)

Lemma summary_ok files open content :
  (forall f, In f files -> has_newline f = false) ->
  (forall f, In f files -> open f = Some (content f)) ->
  summary sha files open = Ok (summary_text content files).
Proof.
  induction files as [|f r IH]; intros Hnl Hop; cbn [summary]; [reflexivity|].
  rewrite (Hnl f) by now left. rewrite (Hop f) by now left.
  rewrite IH; [reflexivity | |]; intros g Hg; [apply Hnl | apply Hop]; now right.
Qed.

Lemma summary_ext files o1 o2 :
  (forall f, In f files -> o1 f = o2 f) -> summary sha files o1 = summary sha files o2.
Proof.
  induction files as [|f r IH]; intros H; cbn [summary]; [reflexivity|].
  rewrite (H f) by now left. rewrite IH; [reflexivity|]. intros g Hg. apply H. now right.
Qed.

(* the first file (in list order) that has a newline or cannot be read decides *)
Lemma summary_first_error good f rest open :
  (forall g, In g good -> has_newline g = false /\ open g <> None) ->
  (has_newline f = true -> summary sha (good ++ f :: rest) open = ErrNewline) /\
  (has_newline f = false -> open f = None -> summary sha (good ++ f :: rest) open = ErrOpen f).
Proof.
  induction good as [|g good IH]; intros Hgood; cbn [app summary].
  - split; [intros -> ; reflexivity | intros -> ->; reflexivity].
  - destruct (Hgood g (or_introl eq_refl)) as [Hn Ho]. rewrite Hn.
    destruct (open g) as [c|]; [|congruence].
    destruct IH as [IH1 IH2]; [intros h Hh; apply Hgood; now right|].
    split; [intros H; now rewrite IH1 | intros H1 H2; now rewrite IH2].
Qed.

Lemma summary_ok_inv files open s :
  summary sha files open = Ok s ->
  forall f, In f files -> has_newline f = false /\ open f <> None.
Proof.
  revert s; induction files as [|f r IH]; intros s H g Hg; [destruct Hg|].
  cbn [summary] in H.
  destruct (has_newline f) eqn:Hn; [discriminate|].
  destruct (open f) as [c|] eqn:Ho; [|discriminate].
  destruct (summary sha r open) as [s'| | |] eqn:Hs; try discriminate.
  destruct Hg as [<-|Hg]; [split; congruence | eapply IH; eauto].
Qed.

Lemma summary_not_outside files open : summary sha files open <> Outside.
Proof.
  induction files as [|f r IH]; cbn [summary]; [discriminate|].
  destruct (has_newline f); [discriminate|].
  destruct (open f); [|discriminate].
  destruct (summary sha r open); congruence.
Qed.

Definition the_content (open : str -> option str) (f : str) : str :=
  match open f with Some c => c | None => [] end.

Theorem hash1_formula files open content :
  (forall f, In f files -> has_newline f = false) ->
  (forall f, In f files -> open f = Some (content f)) ->
  hash1 sha files open =
    Ok (B "h1:" ++ b64_encode (sha (summary_text content (sort_strs files)))).
Proof.
  intros Hnl Hop. unfold hash1.
  rewrite (summary_ok _ open content); [reflexivity | |];
    intros f Hf; apply (proj1 (sort_strs_in _ _)) in Hf; auto.
Qed.

(* Hash1 succeeds exactly when no name has a newline and every file can be read *)
Theorem hash1_ok_iff files open :
  (exists s, hash1 sha files open = Ok s) <->
  (forall f, In f files -> has_newline f = false /\ open f <> None).
Proof.
  split.
  - intros [s H] f Hf. unfold hash1 in H.
    destruct (summary sha (sort_strs files) open) as [s'| | |] eqn:Hs; try discriminate.
    eapply summary_ok_inv; [exact Hs | now apply (proj2 (sort_strs_in _ _))].
  - intros H. eexists. apply (hash1_formula files open (the_content open)).
    + intros f Hf. now apply H.
    + intros f Hf. unfold the_content. destruct (H f Hf) as [_ Ho].
      destruct (open f); congruence.
Qed.

(* which error: the first offending name in sorted order; newline test before open *)
Theorem hash1_first_error files open good f rest :
  sort_strs files = good ++ f :: rest ->
  (forall g, In g good -> has_newline g = false /\ open g <> None) ->
  (has_newline f = true -> hash1 sha files open = ErrNewline) /\
  (has_newline f = false -> open f = None -> hash1 sha files open = ErrOpen f).
Proof.
  intros Hs Hgood. unfold hash1. rewrite Hs.
  destruct (summary_first_error good f rest open Hgood) as [H1 H2].
  split; [intros H; now rewrite H1 | intros Ha Hb; now rewrite H2].
Qed.

Theorem hash1_error_iff files open :
  ((exists s, hash1 sha files open = Ok s) <->
   (forall f, In f files -> has_newline f = false /\ open f <> None)) /\
  (forall good f rest,
     sort_strs files = good ++ f :: rest ->
     (forall g, In g good -> has_newline g = false /\ open g <> None) ->
     (has_newline f = true -> hash1 sha files open = ErrNewline) /\
     (has_newline f = false -> open f = None -> hash1 sha files open = ErrOpen f)).
Proof.
  split; [apply hash1_ok_iff|]. intros good f rest Hs Hg. now apply (hash1_first_error files open good f rest).
Qed.

Theorem hash1_not_outside files open : hash1 sha files open <> Outside.
Proof.
  unfold hash1. pose proof (summary_not_outside (sort_strs files) open) as H.
  destruct (summary sha (sort_strs files) open); congruence.
Qed.

(* split a list at its first element satisfying p *)
Lemma first_split (p : str -> bool) (l : list str) :
  existsb p l = true ->
  exists good f rest, l = good ++ f :: rest /\ p f = true /\ forall g, In g good -> p g = false.
Proof.
  induction l as [|x l IH]; cbn [existsb]; [discriminate|].
  destruct (p x) eqn:Hx.
  - intros _. exists [], x, l. repeat split; [exact Hx | intros g []].
  - cbn [orb]. intros H. destruct (IH H) as (good & f & rest & -> & Hf & Hg).
    exists (x :: good), f, rest. repeat split; [exact Hf|].
    intros g [<-|Hin]; [exact Hx | now apply Hg].
Qed.

(* a name with a newline is never hashed; if all files can be read the error is the
   newline error *)
Theorem newline_rejected files open f :
  In f files -> has_newline f = true ->
  (forall s, hash1 sha files open <> Ok s) /\
  ((forall g, In g files -> open g <> None) -> hash1 sha files open = ErrNewline).
Proof.
  intros Hin Hnl. split.
  - intros s Hs.
    assert (Hok : exists s, hash1 sha files open = Ok s) by (now exists s).
    destruct (proj1 (hash1_ok_iff files open) Hok f Hin). congruence.
  - intros Hop.
    assert (Hex : existsb has_newline (sort_strs files) = true).
    { apply existsb_exists. exists f. split; [now apply (proj2 (sort_strs_in _ _)) | exact Hnl]. }
    destruct (first_split _ _ Hex) as (good & g & rest & Hs & Hg & Hgood).
    destruct (hash1_first_error files open good g rest Hs) as [H1 _]; [|now apply H1].
    intros h Hh. split; [now apply Hgood|].
    apply Hop. apply (proj1 (sort_strs_in _ _)). rewrite Hs. apply in_or_app. now left.
Qed.

(* ------------------------------------------------------------ order independence *)

Theorem hash1_perm_invariant l1 l2 open :
  Permutation l1 l2 -> hash1 sha l1 open = hash1 sha l2 open.
Proof. intros HP. unfold hash1. now rewrite (sort_strs_perm_eq l1 l2 HP). Qed.

Lemma hash1_ext files o1 o2 :
  (forall f, In f files -> o1 f = o2 f) -> hash1 sha files o1 = hash1 sha files o2.
Proof.
  intros H. unfold hash1. rewrite (summary_ext _ o1 o2); [reflexivity|].
  intros f Hf. apply H. now apply (proj1 (sort_strs_in _ _)).
Qed.

Lemma hash1_perm_ext l1 l2 o1 o2 :
  Permutation l1 l2 -> (forall f, In f l1 -> o1 f = o2 f) ->
  hash1 sha l1 o1 = hash1 sha l2 o2.
Proof.
  intros HP H. rewrite (hash1_ext l1 o1 o2 H). now apply hash1_perm_invariant.
Qed.

(* ------------------------------------------------------------ unique decodability *)

(* a newline-free name followed by a newline is a self-delimiting code *)
Lemma newline_delimited f1 f2 r1 r2 :
  has_newline f1 = false -> has_newline f2 = false ->
  f1 ++ 10 :: r1 = f2 ++ 10 :: r2 -> f1 = f2 /\ r1 = r2.
Proof.
  unfold has_newline, contains_byte.
  revert f2; induction f1 as [|x f1 IH]; intros [|y f2]; cbn [existsb app]; intros H1 H2 E.
  - injection E as ->. auto.
  - injection E as <- _. rewrite Z.eqb_refl in H2. discriminate.
  - injection E as -> _. rewrite Z.eqb_refl in H1. discriminate.
  - injection E as -> E. apply orb_false_iff in H1, H2.
    destruct (IH f2 (proj2 H1) (proj2 H2) E) as [-> ->]. auto.
Qed.

Lemma app_eq_length_inv (a b c d : str) :
  length a = length c -> a ++ b = c ++ d -> a = c /\ b = d.
Proof.
  revert c; induction a as [|x a IH]; intros [|y c] HL E; cbn in *; try discriminate; auto.
  injection E as -> E. destruct (IH c) as [-> ->]; auto.
Qed.

(* lines "digest  name\n" with a fixed-width digest and newline-free names: the
   concatenation determines the list of (digest, name) pairs, whatever the digests and
   names look like (names may contain double spaces, hex digits, whole fake lines) *)
Definition raw_line (p : str * str) : str := fst p ++ B "  " ++ snd p ++ [10].

Lemma raw_lines_inj (n : nat) (l1 l2 : list (str * str)) :
  (forall p, In p l1 -> length (fst p) = n /\ has_newline (snd p) = false) ->
  (forall p, In p l2 -> length (fst p) = n /\ has_newline (snd p) = false) ->
  concat (map raw_line l1) = concat (map raw_line l2) -> l1 = l2.
Proof.
  revert l2; induction l1 as [|[d1 f1] l1 IH]; intros [|[d2 f2] l2] H1 H2 E.
  - reflexivity.
  - exfalso. cbn [map concat] in E. unfold raw_line in E. cbn [fst snd] in E. change (B "  ") with [32; 32] in E.
    apply (f_equal (@length Z)) in E. rewrite !app_length in E. cbn [length] in E. lia.
  - exfalso. cbn [map concat] in E. unfold raw_line in E. cbn [fst snd] in E. change (B "  ") with [32; 32] in E.
    apply (f_equal (@length Z)) in E. rewrite !app_length in E. cbn [length] in E. lia.
  - cbn [map concat] in E. unfold raw_line in E. cbn [fst snd] in E. rewrite <- !app_assoc in E.
    destruct (H1 (d1, f1) (or_introl eq_refl)) as [L1 N1].
    destruct (H2 (d2, f2) (or_introl eq_refl)) as [L2 N2]. cbn [fst snd] in *.
    destruct (app_eq_length_inv _ _ _ _ (eq_trans L1 (eq_sym L2)) E) as [-> E'].
    change (B "  ") with [32; 32] in E'. cbn [app] in E'.
    injection E' as E'. rewrite <- ?app_assoc in E'. cbn [app] in E'.
    destruct (newline_delimited _ _ _ _ N1 N2 E') as [-> E''].
    f_equal. apply IH; [| | exact E'']; intros p Hp; [apply H1 | apply H2]; now right.
Qed.

Variable hlen : nat.
Hypothesis sha_len : forall x, length (sha x) = hlen.

Lemma summary_text_raw content files :
  summary_text content files =
  concat (map raw_line (map (fun f => (hex_encode (sha (content f)), f)) files)).
Proof.
  unfold summary_text. rewrite map_map. reflexivity.
Qed.

(* equal summaries: same names in the same order with the same content digests *)
Theorem summary_text_injective l1 l2 c1 c2 :
  (forall f, In f l1 -> has_newline f = false) ->
  (forall f, In f l2 -> has_newline f = false) ->
  summary_text c1 l1 = summary_text c2 l2 ->
  map (fun f => (f, sha (c1 f))) l1 = map (fun f => (f, sha (c2 f))) l2.
Proof.
  intros N1 N2 E. rewrite !summary_text_raw in E.
  apply (raw_lines_inj (2 * hlen)) in E.
  - revert l2 N2 E. induction l1 as [|f l1 IH]; intros [|g l2] N2 E; cbn [map] in *;
      try discriminate; [reflexivity|].
    injection E as Eh -> E. apply hex_encode_inj in Eh. rewrite Eh. f_equal.
    apply IH; [intros h Hh; apply N1; now right | intros h Hh; apply N2; now right | exact E].
  - intros p Hp. apply in_map_iff in Hp. destruct Hp as (f & <- & Hf). cbn [fst snd].
    rewrite hex_encode_length, sha_len. auto.
  - intros p Hp. apply in_map_iff in Hp. destruct Hp as (f & <- & Hf). cbn [fst snd].
    rewrite hex_encode_length, sha_len. auto.
Qed.

Theorem summary_injective l1 l2 c1 c2 :
  (forall f, In f l1 -> has_newline f = false) ->
  (forall f, In f l2 -> has_newline f = false) ->
  summary_text c1 (sort_strs l1) = summary_text c2 (sort_strs l2) ->
  map (fun f => (f, sha (c1 f))) (sort_strs l1) = map (fun f => (f, sha (c2 f))) (sort_strs l2).
Proof.
  intros N1 N2. apply summary_text_injective; intros f Hf; apply (proj1 (sort_strs_in _ _)) in Hf; auto.
Qed.

Lemma pairs_same_names (A : Type) (l1 l2 : list str) (g1 g2 : str -> A) :
  map (fun f => (f, g1 f)) l1 = map (fun f => (f, g2 f)) l2 ->
  l1 = l2 /\ forall f, In f l1 -> g1 f = g2 f.
Proof.
  revert l2; induction l1 as [|f l1 IH]; intros [|h l2] E; cbn [map] in E; try discriminate.
  - split; [reflexivity | intros f []].
  - injection E as -> Eg E. destruct (IH l2 E) as [-> Hall].
    split; [reflexivity|]. intros f [<-|Hf]; [exact Eg | now apply Hall].
Qed.

Lemma all_equal_or_witness (l : list str) (c1 c2 : str -> str) :
  (forall f, In f l -> c1 f = c2 f) \/ (exists f, In f l /\ c1 f <> c2 f).
Proof.
  induction l as [|f l [IH|[g [Hg Hne]]]].
  - left. intros f [].
  - destruct (str_eqb_spec (c1 f) (c2 f)) as [E|NE].
    + left. intros g [<-|Hg]; auto.
    + right. exists f. split; [now left | exact NE].
  - right. exists g. split; [now right | exact Hne].
Qed.

(* equal summaries: the same multiset of (name, content) pairs, or two of the contents
   collide under sha *)
Theorem summaries_equal_same_sets l1 l2 c1 c2 :
  (forall f, In f l1 -> has_newline f = false) ->
  (forall f, In f l2 -> has_newline f = false) ->
  summary_text c1 (sort_strs l1) = summary_text c2 (sort_strs l2) ->
  Permutation (map (fun f => (f, c1 f)) l1) (map (fun f => (f, c2 f)) l2) \/
  exists x y, x <> y /\ sha x = sha y.
Proof.
  intros N1 N2 E.
  apply summary_injective in E; [|assumption|assumption].
  apply pairs_same_names in E. destruct E as [Es Hsha].
  destruct (all_equal_or_witness (sort_strs l1) c1 c2) as [Hall|[f [Hf Hne]]].
  - left.
    transitivity (map (fun f => (f, c1 f)) (sort_strs l1)).
    + apply Permutation_map. symmetry. apply sort_strs_perm.
    + rewrite (map_ext_in _ (fun f => (f, c2 f)) (sort_strs l1))
        by (intros f Hf; now rewrite Hall).
      rewrite Es. apply Permutation_map. apply sort_strs_perm.
  - right. exists (c1 f), (c2 f). split; [exact Hne | now apply Hsha].
Qed.

(* different multisets of (name, content) pairs: different summaries, or two of the
   contents collide under sha *)
Theorem distinct_sets_distinct_summaries l1 l2 c1 c2 :
  (forall f, In f l1 -> has_newline f = false) ->
  (forall f, In f l2 -> has_newline f = false) ->
  ~ Permutation (map (fun f => (f, c1 f)) l1) (map (fun f => (f, c2 f)) l2) ->
  summary_text c1 (sort_strs l1) <> summary_text c2 (sort_strs l2) \/
  exists x y, x <> y /\ sha x = sha y.
Proof.
  intros N1 N2 HNP.
  destruct (str_eqb_spec (summary_text c1 (sort_strs l1)) (summary_text c2 (sort_strs l2)))
    as [E|NE]; [|now left].
  destruct (summaries_equal_same_sets l1 l2 c1 c2 N1 N2 E) as [HP|Hc]; [contradiction | now right].
Qed.

(* the same at the level of the h1: strings, when sha returns bytes: equal hashes come
   from the same multiset of (name, content) pairs, or exhibit a collision of sha (on two
   contents or on the two summaries) *)
Hypothesis sha_bytes : forall x, Forall byte (sha x).

Lemma hash1_ok_text files open h :
  hash1 sha files open = Ok h ->
  (forall f, In f files -> has_newline f = false /\ open f = Some (the_content open f)) /\
  h = B "h1:" ++ b64_encode (sha (summary_text (the_content open) (sort_strs files))).
Proof.
  intros H.
  assert (Hok : forall f, In f files -> has_newline f = false /\ open f = Some (the_content open f)).
  { intros f Hf.
    destruct (proj1 (hash1_ok_iff files open) (ex_intro _ h H) f Hf) as [Hn Ho].
    split; [exact Hn|]. unfold the_content. destruct (open f); congruence. }
  split; [exact Hok|].
  rewrite (hash1_formula files open (the_content open)) in H.
  - now injection H as <-.
  - intros f Hf. now apply Hok.
  - intros f Hf. now apply Hok.
Qed.

Theorem hash1_injective l1 l2 o1 o2 h :
  hash1 sha l1 o1 = Ok h -> hash1 sha l2 o2 = Ok h ->
  Permutation (map (fun f => (f, o1 f)) l1) (map (fun f => (f, o2 f)) l2) \/
  exists x y, x <> y /\ sha x = sha y.
Proof.
  intros H1 H2.
  destruct (hash1_ok_text l1 o1 h H1) as [K1 E1].
  destruct (hash1_ok_text l2 o2 h H2) as [K2 E2].
  rewrite E1 in E2. apply app_inv_head in E2. unfold b64_encode in E2.
  apply (f_equal decode) in E2. rewrite !b64_decode_encode in E2 by apply sha_bytes.
  injection E2 as E2.
  destruct (str_eqb_spec (summary_text (the_content o1) (sort_strs l1))
                         (summary_text (the_content o2) (sort_strs l2))) as [E|NE].
  - destruct (summaries_equal_same_sets l1 l2 (the_content o1) (the_content o2)) as [HP|Hc];
      [intros f Hf; now apply K1 | intros f Hf; now apply K2 | exact E | | now right].
    left.
    rewrite (map_ext_in (fun f => (f, o1 f)) (fun f => (f, Some (the_content o1 f))) l1)
      by (intros f Hf; f_equal; now apply K1).
    rewrite (map_ext_in (fun f => (f, o2 f)) (fun f => (f, Some (the_content o2 f))) l2)
      by (intros f Hf; f_equal; now apply K2).
    apply (Permutation_map (fun p : str * str => (fst p, Some (snd p)))) in HP.
    rewrite !map_map in HP. exact HP.
  - right. eexists _, _. split; [exact NE | exact E2].
Qed.

End HashProofs.
