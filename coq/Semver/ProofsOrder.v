(* Generic development: three-way comparison functions that are total preorders, and the
   combinators (pull-back, lexicographic sequencing, lists, options) that preserve this. *)
From Coq Require Import List ZArith Lia.
Import ListNotations.

Record POrd {A} (c : A -> A -> comparison) : Prop := {
  po_antisym : forall x y, c y x = CompOpp (c x y);
  po_eq_cong : forall x y z, c x y = Eq -> c x z = c y z;
  po_lt_trans : forall x y z, c x y = Lt -> c y z = Lt -> c x z = Lt }.

(* Eq only between identical elements: the preorder is a total order *)
Definition Separating {A} (c : A -> A -> comparison) : Prop :=
  forall x y, c x y = Eq -> x = y.

Section Derived.
  Context {A} (c : A -> A -> comparison) (P : POrd c).

  Lemma po_refl x : c x x = Eq.
  Proof. pose proof (po_antisym c P x x) as H. destruct (c x x); simpl in H; congruence. Qed.

  Lemma po_eq_sym x y : c x y = Eq -> c y x = Eq.
  Proof. intros H. rewrite (po_antisym c P x y), H. reflexivity. Qed.

  Lemma po_eq_cong_r x y z : c x y = Eq -> c z x = c z y.
  Proof.
    intros H. rewrite (po_antisym c P x z), (po_antisym c P y z).
    now rewrite (po_eq_cong c P x y z H).
  Qed.

  Lemma po_eq_trans x y z : c x y = Eq -> c y z = Eq -> c x z = Eq.
  Proof. intros H1 H2. now rewrite (po_eq_cong c P x y z H1). Qed.

  Lemma po_gt_lt x y : c x y = Gt <-> c y x = Lt.
  Proof. rewrite (po_antisym c P x y). destruct (c x y); simpl; split; congruence. Qed.

  Lemma po_gt_trans x y z : c x y = Gt -> c y z = Gt -> c x z = Gt.
  Proof.
    rewrite !po_gt_lt. intros H1 H2. exact (po_lt_trans c P z y x H2 H1).
  Qed.

  (* "<=" is transitive *)
  Lemma po_le_trans x y z : c x y <> Gt -> c y z <> Gt -> c x z <> Gt.
  Proof.
    intros H1 H2.
    destruct (c x y) eqn:Exy; [| |congruence].
    - rewrite (po_eq_cong c P x y z Exy). exact H2.
    - destruct (c y z) eqn:Eyz; [| |congruence].
      + rewrite <- (po_eq_cong_r y z x Eyz). congruence.
      + rewrite (po_lt_trans c P x y z Exy Eyz). congruence.
  Qed.

  Lemma po_trans_all o x y z : c x y = o -> c y z = o -> c x z = o.
  Proof.
    destruct o; [apply po_eq_trans | apply (po_lt_trans c P) | apply po_gt_trans].
  Qed.
End Derived.

(* ---- combinators ------------------------------------------------------------------ *)

Definition pull {A B} (f : A -> B) (c : B -> B -> comparison) : A -> A -> comparison :=
  fun x y => c (f x) (f y).

Lemma pull_POrd {A B} (f : A -> B) c : POrd c -> POrd (pull f c).
Proof.
  intros P. unfold pull. split; intros.
  - apply (po_antisym c P).
  - now apply (po_eq_cong c P).
  - eapply (po_lt_trans c P); eauto.
Qed.

(* first c1, then c2 to break ties *)
Definition lexc {A} (c1 c2 : A -> A -> comparison) : A -> A -> comparison :=
  fun x y => match c1 x y with Eq => c2 x y | r => r end.

Lemma lexc_eq {A} (c1 c2 : A -> A -> comparison) x y :
  lexc c1 c2 x y = Eq <-> c1 x y = Eq /\ c2 x y = Eq.
Proof.
  unfold lexc. destruct (c1 x y); split; intros H; try tauto; try congruence;
    destruct H; congruence.
Qed.

Lemma lexc_lt {A} (c1 c2 : A -> A -> comparison) x y :
  lexc c1 c2 x y = Lt <-> c1 x y = Lt \/ (c1 x y = Eq /\ c2 x y = Lt).
Proof.
  unfold lexc. destruct (c1 x y); split; intros H; try tauto; try congruence;
    destruct H as [H|[H H']]; congruence.
Qed.

Lemma lexc_POrd {A} (c1 c2 : A -> A -> comparison) : POrd c1 -> POrd c2 -> POrd (lexc c1 c2).
Proof.
  intros P1 P2. split.
  - intros x y. unfold lexc. rewrite (po_antisym c1 P1 x y), (po_antisym c2 P2 x y).
    destruct (c1 x y); reflexivity.
  - intros x y z H. apply lexc_eq in H. destruct H as [H1 H2]. unfold lexc.
    rewrite (po_eq_cong c1 P1 x y z H1), (po_eq_cong c2 P2 x y z H2). reflexivity.
  - intros x y z Hxy Hyz. apply lexc_lt in Hxy. apply lexc_lt in Hyz. apply lexc_lt.
    destruct Hxy as [Hxy|[Hxy Hxy2]]; destruct Hyz as [Hyz|[Hyz Hyz2]].
    + left. eapply (po_lt_trans c1 P1); eauto.
    + left. rewrite <- (po_eq_cong_r c1 P1 y z x Hyz). exact Hxy.
    + left. rewrite (po_eq_cong c1 P1 x y z Hxy). exact Hyz.
    + right. split.
      * eapply (po_eq_trans c1 P1); eauto.
      * eapply (po_lt_trans c2 P2); eauto.
Qed.

Lemma lexc_Separating {A} (c1 c2 : A -> A -> comparison) :
  (forall x y, c1 x y = Eq -> c2 x y = Eq -> x = y) -> Separating (lexc c1 c2).
Proof. intros H x y E. apply lexc_eq in E. destruct E. auto. Qed.

(* lexicographic order on lists; a proper prefix is smaller *)
Fixpoint list_lex {A} (c : A -> A -> comparison) (xs ys : list A) : comparison :=
  match xs, ys with
  | [], [] => Eq
  | [], _ :: _ => Lt
  | _ :: _, [] => Gt
  | x :: xs', y :: ys' => match c x y with Eq => list_lex c xs' ys' | r => r end
  end.

Lemma list_lex_POrd {A} (c : A -> A -> comparison) : POrd c -> POrd (list_lex c).
Proof.
  intros P. split.
  - induction x as [|a x IH]; intros [|b y]; simpl; try reflexivity.
    rewrite (po_antisym c P a b), IH. destruct (c a b); reflexivity.
  - induction x as [|a x IH]; intros [|b y] [|d z]; simpl; intros H; try congruence.
    destruct (c a b) eqn:E; try discriminate.
    rewrite (po_eq_cong c P a b d E). destruct (c b d); auto.
  - induction x as [|a x IH]; intros [|b y] [|d z]; simpl; intros H1 H2; try congruence.
    destruct (c a b) eqn:Eab; try discriminate.
    + rewrite (po_eq_cong c P a b d Eab). destruct (c b d) eqn:Ebd; try discriminate; eauto.
    + destruct (c b d) eqn:Ebd; try discriminate.
      * rewrite <- (po_eq_cong_r c P b d a Ebd), Eab. reflexivity.
      * rewrite (po_lt_trans c P a b d Eab Ebd). reflexivity.
Qed.

Lemma list_lex_Separating {A} (c : A -> A -> comparison) : Separating c -> Separating (list_lex c).
Proof.
  intros S x. induction x as [|a x IH]; intros [|b y]; simpl; intros H; try congruence.
  destruct (c a b) eqn:E; try discriminate. f_equal; auto.
Qed.

(* options: [None] below everything / above everything *)
Definition opt_bot {A} (c : A -> A -> comparison) (x y : option A) : comparison :=
  match x, y with
  | None, None => Eq
  | None, Some _ => Lt
  | Some _, None => Gt
  | Some a, Some b => c a b
  end.

Definition opt_top {A} (c : A -> A -> comparison) (x y : option A) : comparison :=
  match x, y with
  | None, None => Eq
  | None, Some _ => Gt
  | Some _, None => Lt
  | Some a, Some b => c a b
  end.

Lemma opt_bot_POrd {A} (c : A -> A -> comparison) : POrd c -> POrd (opt_bot c).
Proof.
  intros P. split.
  - intros [a|] [b|]; simpl; try reflexivity. apply (po_antisym c P).
  - intros [a|] [b|] [d|]; simpl; intros H; try congruence. now apply (po_eq_cong c P).
  - intros [a|] [b|] [d|]; simpl; intros H1 H2; try congruence. eapply (po_lt_trans c P); eauto.
Qed.

Lemma opt_top_POrd {A} (c : A -> A -> comparison) : POrd c -> POrd (opt_top c).
Proof.
  intros P. split.
  - intros [a|] [b|]; simpl; try reflexivity. apply (po_antisym c P).
  - intros [a|] [b|] [d|]; simpl; intros H; try congruence. now apply (po_eq_cong c P).
  - intros [a|] [b|] [d|]; simpl; intros H1 H2; try congruence. eapply (po_lt_trans c P); eauto.
Qed.

Lemma opt_bot_Separating {A} (c : A -> A -> comparison) : Separating c -> Separating (opt_bot c).
Proof. intros S [a|] [b|]; simpl; intros H; try congruence. f_equal; auto. Qed.

Lemma opt_top_Separating {A} (c : A -> A -> comparison) : Separating c -> Separating (opt_top c).
Proof. intros S [a|] [b|]; simpl; intros H; try congruence. f_equal; auto. Qed.

(* base orders *)
Lemma nat_compare_POrd : POrd Nat.compare.
Proof.
  split; intros.
  - apply Nat.compare_antisym.
  - apply Nat.compare_eq in H. now subst.
  - apply Nat.compare_lt_iff in H, H0. apply Nat.compare_lt_iff. lia.
Qed.

Lemma N_compare_POrd : POrd N.compare.
Proof.
  split; intros.
  - apply N.compare_antisym.
  - apply N.compare_eq in H. now subst.
  - exact (N.lt_trans x y z H H0).
Qed.
