(* Characterisation of the parser of Semver/Model.v: [parse v = Some p] exactly when v has
   one of the three documented shapes and p holds its parts ([parse_iff]). *)
From Coq Require Import List ZArith Lia Bool.
From Verif.Base Require Import Bytes.
From Verif.Gen Require Import GenChars.
From Verif.Semver Require Import Model Spec ProofsOrder ProofsStr.

(* Case analysis on whether the variable c is the literal k, for goals that are equations
   between a [match c with k => .. | _ => d end] and an [if c =? k then .. else d]. *)
Ltac zlit c k :=
  let Hne := fresh "Hne" in
  let p := fresh "p" in
  destruct (Z.eqb_spec c k) as [->|Hne];
  [ | solve [ destruct c as [|p|p]; try reflexivity;
              repeat (destruct p as [p|p|]; try reflexivity);
              exfalso; apply Hne; reflexivity ] ].

(* ---- characters and small predicates -------------------------------------------------- *)

Lemma is_ident_char_spec c : is_ident_char c = ident_char c.
Proof.
  unfold is_ident_char, semver_isIdentChar, ident_char, is_digit, is_upper, is_lower.
  destruct (65 <=? c), (c <=? 90), (97 <=? c), (c <=? 122), (48 <=? c), (c <=? 57), (c =? 45);
    reflexivity.
Qed.

Lemma ident_char_not_dot c : ident_char c = true -> (c =? 46) = false.
Proof.
  unfold ident_char, is_digit, is_upper, is_lower. intros H.
  destruct (Z.eqb_spec c 46) as [->|]; [discriminate H|reflexivity].
Qed.

Lemma ident_or_dot_not_plus c : ident_char c || (c =? 46) = true -> negb (c =? 43) = true.
Proof.
  unfold ident_char, is_digit, is_upper, is_lower. intros H.
  destruct (Z.eqb_spec c 43) as [->|]; [discriminate H|reflexivity].
Qed.

Lemma head48_eq (s : str) :
  (match s with 48 :: _ => true | _ => false end) = match s with [] => false | c :: _ => c =? 48 end.
Proof. destruct s as [|c r]; [reflexivity|]. zlit c 48. reflexivity. Qed.

Lemma len_cons (c : Z) r : len (c :: r) = 1 + len r.
Proof. unfold len. simpl length. lia. Qed.

Lemma len_app (a b : str) : len (a ++ b) = len a + len b.
Proof. unfold len. rewrite app_length. lia. Qed.

Lemma len_nonneg (a : str) : 0 <= len a.
Proof. unfold len. lia. Qed.

Lemma one_lt_len_cons (c : Z) r : (1 <? len (c :: r)) = negb (is_nil r).
Proof.
  rewrite len_cons. destruct r as [|d r]; [reflexivity|]. rewrite len_cons.
  pose proof (len_nonneg r). change (negb (is_nil (d :: r))) with true. apply Z.ltb_lt. lia.
Qed.

Lemma is_bad_num_cons c r :
  is_bad_num (c :: r) = is_num (c :: r) && negb (is_nil r) && (c =? 48).
Proof.
  rewrite <- (one_lt_len_cons c r). unfold is_bad_num. zlit c 48. reflexivity.
Qed.

(* the model's per-identifier test of parsePrerelease is the declarative [pre_ident] *)
Lemma pre_ident_model id :
  forallb is_ident_char id && (negb (is_nil id) && negb (is_bad_num id)) = pre_ident id.
Proof.
  unfold pre_ident. rewrite (forallb_ext_in is_ident_char ident_char id)
    by (intros; apply is_ident_char_spec).
  destruct id as [|c r]; [reflexivity|].
  rewrite is_bad_num_cons.
  unfold is_num, all_digits, numeral. simpl forallb. unfold all_digits.
  destruct (is_digit c), (forallb is_digit r), (is_nil r), (c =? 48), (ident_char c),
    (forallb ident_char r); reflexivity.
Qed.

Lemma build_ident_model id :
  forallb is_ident_char id && negb (is_nil id) = build_ident id.
Proof.
  unfold build_ident. rewrite (forallb_ext_in is_ident_char ident_char id)
    by (intros; apply is_ident_char_spec). apply andb_comm.
Qed.

Lemma forallb_and {A} (p q : A -> bool) l :
  forallb p l && forallb q l = forallb (fun x => p x && q x) l.
Proof.
  induction l as [|a l IH]; [reflexivity|]. simpl. rewrite <- IH.
  destruct (p a), (q a), (forallb p l); reflexivity.
Qed.

Lemma pre_check_model body :
  forallb (fun c => is_ident_char c || (c =? 46)) body
  && forallb (fun id => negb (match id with [] => true | _ => false end) && negb (is_bad_num id))
             (split_on 46 body)
  = forallb pre_ident (split_on 46 body).
Proof.
  rewrite forallb_split_on, forallb_and. apply forallb_ext_in. intros id _.
  apply pre_ident_model.
Qed.

Lemma build_check_model body :
  forallb (fun c => is_ident_char c || (c =? 46)) body
  && forallb (fun id => negb (match id with [] => true | _ => false end)) (split_on 46 body)
  = forallb build_ident (split_on 46 body).
Proof.
  rewrite forallb_split_on, forallb_and. apply forallb_ext_in. intros id _.
  apply build_ident_model.
Qed.

Lemma pre_ident_chars id : pre_ident id = true -> forallb ident_char id = true.
Proof.
  unfold pre_ident. intros H. apply andb_true_iff in H. destruct H as [H _].
  apply andb_true_iff in H. tauto.
Qed.

Lemma build_ident_chars id : build_ident id = true -> forallb ident_char id = true.
Proof. unfold build_ident. intros H. apply andb_true_iff in H. tauto. Qed.

(* identifiers contain neither '.' nor '+' *)
Lemma idents_body_chars (p : str -> bool) body :
  (forall id, p id = true -> forallb ident_char id = true) ->
  forallb p (split_on 46 body) = true ->
  forallb (fun c => ident_char c || (c =? 46)) body = true.
Proof.
  intros Hp H. rewrite forallb_split_on. revert H. apply forallb_impl. exact Hp.
Qed.

Lemma body_no_plus body :
  forallb (fun c => ident_char c || (c =? 46)) body = true ->
  forallb (fun c => negb (c =? 43)) body = true.
Proof. apply forallb_impl. intros c. apply ident_or_dot_not_plus. Qed.

Lemma ident_chars_no_dot id : forallb ident_char id = true -> no_sep 46 id = true.
Proof.
  unfold no_sep. apply forallb_impl. intros c H. now rewrite (ident_char_not_dot c H).
Qed.

(* ---- parse_int ------------------------------------------------------------------------- *)

Lemma parse_int_iff v t rest :
  parse_int v = Some (t, rest) <->
  v = t ++ rest /\ numeral t = true /\ stops is_digit rest = true.
Proof.
  split.
  - destruct v as [|c r]; simpl; [discriminate|].
    destruct (is_digit c) eqn:Ec; [|discriminate].
    destruct (span is_digit r) as [ds rest'] eqn:Es.
    destruct (span_inv _ _ _ _ Es) as (-> & Hds & Hst).
    change (match ds with [] => true | _ :: _ => false end) with (is_nil ds).
    destruct ((c =? 48) && negb (is_nil ds)) eqn:Ez; [discriminate|].
    intros H. inversion H; subst. repeat split; auto.
    unfold numeral, all_digits. rewrite Ec, Hds. simpl.
    destruct (c =? 48), (is_nil ds); simpl in *; congruence.
  - intros (-> & Hn & Hst). destruct t as [|c ds]; [discriminate|].
    unfold numeral, all_digits in Hn. apply andb_true_iff in Hn. destruct Hn as [Hn Hz].
    apply andb_true_iff in Hn. destruct Hn as [Hc Hds].
    simpl. rewrite Hc, (span_app _ _ _ Hds Hst).
    change (match ds with [] => true | _ :: _ => false end) with (is_nil ds).
    destruct (c =? 48), (is_nil ds); simpl in *; try reflexivity; discriminate.
Qed.

(* ---- parse_prerelease, parse_build ------------------------------------------------------ *)

Definition not_plus (c : Z) : bool := negb (c =? 43).

Lemma parse_prerelease_eq v :
  parse_prerelease v =
  match v with
  | [] => None
  | c :: r =>
      if c =? 45 then
        let (body, rest) := span not_plus r in
        if forallb pre_ident (split_on 46 body) then Some (45 :: body, rest) else None
      else None
  end.
Proof.
  destruct v as [|c r]; [reflexivity|]. zlit c 45.
  unfold parse_prerelease. fold not_plus. destruct (span not_plus r) as [body rest].
  rewrite pre_check_model. reflexivity.
Qed.

Lemma parse_build_eq v :
  parse_build v =
  match v with
  | [] => None
  | c :: body =>
      if c =? 43 then
        if forallb build_ident (split_on 46 body) then Some (43 :: body, []) else None
      else None
  end.
Proof.
  destruct v as [|c r]; [reflexivity|]. zlit c 43.
  unfold parse_build. rewrite build_check_model. reflexivity.
Qed.

Lemma parse_build_cons body :
  parse_build (43 :: body) =
  if forallb build_ident (split_on 46 body) then Some (43 :: body, []) else None.
Proof. rewrite parse_build_eq. reflexivity. Qed.

(* the shapes of the prerelease and build fields *)
Definition pre_str (pre : str) : Prop :=
  pre = [] \/ exists body, pre = 45 :: body /\ forallb pre_ident (split_on 46 body) = true.
Definition build_str (b : str) : Prop :=
  b = [] \/ exists body, b = 43 :: body /\ forallb build_ident (split_on 46 body) = true.

Lemma parse_prerelease_sound v t rest :
  parse_prerelease v = Some (t, rest) ->
  v = t ++ rest /\ exists body, t = 45 :: body /\ forallb pre_ident (split_on 46 body) = true.
Proof.
  rewrite parse_prerelease_eq. destruct v as [|c r]; [discriminate|].
  destruct (Z.eqb_spec c 45) as [->|]; [|discriminate].
  destruct (span not_plus r) as [body rest'] eqn:Es.
  destruct (span_inv _ _ _ _ Es) as (-> & _ & _).
  destruct (forallb pre_ident (split_on 46 body)) eqn:Ei; [|discriminate].
  intros H. inversion H; subst. split; [reflexivity|]. eauto.
Qed.

Lemma parse_prerelease_complete body rest :
  forallb pre_ident (split_on 46 body) = true -> stops not_plus rest = true ->
  parse_prerelease (45 :: body ++ rest) = Some (45 :: body, rest).
Proof.
  intros Hi Hst. rewrite parse_prerelease_eq. rewrite Z.eqb_refl.
  rewrite span_app; [now rewrite Hi| |exact Hst].
  apply body_no_plus. eapply idents_body_chars; [|exact Hi]. apply pre_ident_chars.
Qed.

(* ---- the steps of parse ---------------------------------------------------------------- *)

Definition pre_step (v6 : str) : option (str * str) :=
  match v6 with
  | [] => Some ([], v6)
  | c :: _ => if c =? 45 then parse_prerelease v6 else Some ([], v6)
  end.

Definition build_step (v7 : str) : option (str * str) :=
  match v7 with
  | [] => Some ([], v7)
  | c :: _ => if c =? 43 then parse_build v7 else Some ([], v7)
  end.

Definition finish (major minor patch v6 : str) : option parsed :=
  match pre_step v6 with
  | None => None
  | Some (pre, v7) =>
      match build_step v7 with
      | None => None
      | Some (b, v8) =>
          match v8 with [] => Some (mkParsed major minor patch [] pre b) | _ :: _ => None end
      end
  end.

Definition parse3 (major minor v5 : str) : option parsed :=
  match parse_int v5 with
  | None => None
  | Some (patch, v6) => finish major minor patch v6
  end.

Definition parse2 (major v3 : str) : option parsed :=
  match parse_int v3 with
  | None => None
  | Some (minor, v4) =>
      match v4 with
      | [] => Some (mkParsed major minor zero (B ".0") [] [])
      | d :: v5 => if d =? 46 then parse3 major minor v5 else None
      end
  end.

Definition parse1 (v1 : str) : option parsed :=
  match parse_int v1 with
  | None => None
  | Some (major, v2) =>
      match v2 with
      | [] => Some (mkParsed major zero zero (B ".0.0") [] [])
      | d :: v3 => if d =? 46 then parse2 major v3 else None
      end
  end.

Lemma pre_step_eq (v6 : str) :
  match v6 with
  | 45 :: _ => match parse_prerelease v6 with
               | Some (t, r) => Some (t, r)
               | None => None
               end
  | _ => Some ([], v6)
  end = pre_step v6.
Proof.
  destruct v6 as [|c r]; [reflexivity|]. unfold pre_step. zlit c 45.
  destruct (parse_prerelease (45 :: r)) as [[t r']|]; reflexivity.
Qed.

Lemma build_step_eq (v7 : str) :
  match v7 with
  | 43 :: _ => parse_build v7
  | _ => Some ([], v7)
  end = build_step v7.
Proof. destruct v7 as [|c r]; [reflexivity|]. unfold build_step. zlit c 43. reflexivity. Qed.

Lemma parse_eq v :
  parse v = match v with [] => None | c :: v1 => if c =? 118 then parse1 v1 else None end.
Proof.
  destruct v as [|c v1]; [reflexivity|]. zlit c 118.
  unfold parse, parse1. destruct (parse_int v1) as [[M v2]|]; [|reflexivity].
  destruct v2 as [|d v3]; [reflexivity|]. zlit d 46.
  unfold parse2. destruct (parse_int v3) as [[m v4]|]; [|reflexivity].
  destruct v4 as [|d v5]; [reflexivity|]. zlit d 46.
  unfold parse3. destruct (parse_int v5) as [[pt v6]|]; [|reflexivity].
  unfold finish. cbv zeta. rewrite pre_step_eq.
  destruct (pre_step v6) as [[pre v7]|]; [|reflexivity].
  rewrite build_step_eq. reflexivity.
Qed.

Lemma pre_step_sound v6 pre v7 :
  pre_step v6 = Some (pre, v7) -> v6 = pre ++ v7 /\ pre_str pre.
Proof.
  unfold pre_step. destruct v6 as [|c r].
  - intros H. inversion H. split; [reflexivity|now left].
  - destruct (Z.eqb_spec c 45) as [->|].
    + intros H. apply parse_prerelease_sound in H. destruct H as (H & body & -> & Hi).
      split; [exact H|]. right. eauto.
    + intros H. inversion H. split; [reflexivity|now left].
Qed.

Lemma build_str_stops b : build_str b -> stops not_plus b = true /\ stops is_digit b = true
  /\ pre_step b = Some ([], b).
Proof. intros [->|(body & -> & _)]; repeat split; reflexivity. Qed.

Lemma pre_step_complete pre b :
  pre_str pre -> build_str b -> pre_step (pre ++ b) = Some (pre, b).
Proof.
  intros [->|(body & -> & Hi)] Hb.
  - apply (build_str_stops b Hb).
  - simpl app. unfold pre_step. rewrite Z.eqb_refl.
    apply parse_prerelease_complete; [exact Hi|]. apply (build_str_stops b Hb).
Qed.

Lemma build_step_sound v7 b :
  build_step v7 = Some (b, []) -> v7 = b /\ build_str b.
Proof.
  unfold build_step. destruct v7 as [|c r].
  - intros H. inversion H. split; [reflexivity|now left].
  - destruct (Z.eqb_spec c 43) as [->|].
    + rewrite parse_build_cons.
      destruct (forallb build_ident (split_on 46 r)) eqn:Ei; [|discriminate].
      intros H. inversion H. split; [reflexivity|]. right. eauto.
    + intros H. inversion H.
Qed.

Lemma build_step_complete b : build_str b -> build_step b = Some (b, []).
Proof.
  intros [->|(body & -> & Hi)]; [reflexivity|].
  unfold build_step. rewrite Z.eqb_refl, parse_build_cons, Hi. reflexivity.
Qed.

Lemma pre_build_stops_digit pre b : pre_str pre -> build_str b -> stops is_digit (pre ++ b) = true.
Proof.
  intros [->|(body & -> & _)] Hb; [|reflexivity]. apply (build_str_stops b Hb).
Qed.

(* ---- parse -------------------------------------------------------------------------------- *)

Inductive parse_rel : str -> parsed -> Prop :=
| PR_major M :
    numeral M = true ->
    parse_rel (118 :: M) (mkParsed M zero zero (B ".0.0") [] [])
| PR_minor M m :
    numeral M = true -> numeral m = true ->
    parse_rel (118 :: M ++ 46 :: m) (mkParsed M m zero (B ".0") [] [])
| PR_full M m pt pre b :
    numeral M = true -> numeral m = true -> numeral pt = true ->
    pre_str pre -> build_str b ->
    parse_rel (118 :: M ++ 46 :: m ++ 46 :: pt ++ pre ++ b) (mkParsed M m pt [] pre b).

Lemma parse_sound v p : parse v = Some p -> parse_rel v p.
Proof.
  rewrite parse_eq. destruct v as [|c v1]; [discriminate|].
  destruct (Z.eqb_spec c 118) as [->|]; [|discriminate].
  unfold parse1. destruct (parse_int v1) as [[M v2]|] eqn:E1; [|discriminate].
  apply parse_int_iff in E1. destruct E1 as (-> & HM & _).
  destruct v2 as [|d v3].
  { intros H. inversion H. rewrite app_nil_r. now constructor. }
  destruct (Z.eqb_spec d 46) as [->|]; [|discriminate].
  unfold parse2. destruct (parse_int v3) as [[m v4]|] eqn:E2; [|discriminate].
  apply parse_int_iff in E2. destruct E2 as (-> & Hm & _).
  destruct v4 as [|d v5].
  { intros H. inversion H. rewrite app_nil_r. now constructor. }
  destruct (Z.eqb_spec d 46) as [->|]; [|discriminate].
  unfold parse3. destruct (parse_int v5) as [[pt v6]|] eqn:E3; [|discriminate].
  apply parse_int_iff in E3. destruct E3 as (-> & Hpt & _).
  unfold finish. destruct (pre_step v6) as [[pre v7]|] eqn:E4; [|discriminate].
  apply pre_step_sound in E4. destruct E4 as (-> & Hpre).
  destruct (build_step v7) as [[b v8]|] eqn:E5; [|discriminate].
  destruct v8 as [|? ?]; [|discriminate].
  apply build_step_sound in E5. destruct E5 as (-> & Hb).
  intros H. inversion H. now constructor.
Qed.

Lemma parse_int_app t rest :
  numeral t = true -> stops is_digit rest = true -> parse_int (t ++ rest) = Some (t, rest).
Proof. intros. apply parse_int_iff. auto. Qed.

Lemma parse_complete v p : parse_rel v p -> parse v = Some p.
Proof.
  intros H. rewrite parse_eq. destruct H as [M HM|M m HM Hm|M m pt pre b HM Hm Hpt Hpre Hb].
  - rewrite Z.eqb_refl. unfold parse1.
    rewrite <- (app_nil_r M) at 1. rewrite parse_int_app by auto. reflexivity.
  - rewrite Z.eqb_refl. unfold parse1. rewrite parse_int_app by auto.
    rewrite Z.eqb_refl. unfold parse2.
    rewrite <- (app_nil_r m) at 1. rewrite parse_int_app by auto. reflexivity.
  - rewrite Z.eqb_refl. unfold parse1. rewrite parse_int_app by auto.
    rewrite Z.eqb_refl. unfold parse2. rewrite parse_int_app by auto.
    rewrite Z.eqb_refl. unfold parse3.
    rewrite parse_int_app by (auto using pre_build_stops_digit).
    unfold finish. rewrite (pre_step_complete pre b Hpre Hb), (build_step_complete b Hb).
    reflexivity.
Qed.

Theorem parse_iff v p : parse v = Some p <-> parse_rel v p.
Proof. split; [apply parse_sound | apply parse_complete]. Qed.

Lemma parse_pre_str v p : parse v = Some p -> pre_str (p_prerelease p).
Proof. intros H. apply parse_sound in H. destruct H; simpl; auto; now left. Qed.

(* ---- Canonical in terms of the parsed fields ------------------------------------------------ *)

Lemma take_app_len (x b : str) : take (len (x ++ b) - len b) (x ++ b) = x.
Proof.
  unfold take. rewrite len_app. replace (len x + len b - len b) with (len x) by lia.
  unfold len. rewrite Nat2Z.id, firstn_app, Nat.sub_diag, firstn_all. simpl. apply app_nil_r.
Qed.

Lemma full_assoc (M m pt pre b : str) :
  118 :: M ++ 46 :: m ++ 46 :: pt ++ pre ++ b = (118 :: M ++ 46 :: m ++ 46 :: pt ++ pre) ++ b.
Proof.
  simpl. f_equal. rewrite <- app_assoc. f_equal. simpl. f_equal.
  rewrite <- app_assoc. f_equal. simpl. f_equal. now rewrite <- app_assoc.
Qed.

Lemma canonical_parts v p :
  parse v = Some p ->
  canonical v = 118 :: p_major p ++ 46 :: p_minor p ++ 46 :: p_patch p ++ p_prerelease p.
Proof.
  intros H. unfold canonical. rewrite H. apply parse_sound in H.
  destruct H as [M HM|M m HM Hm|M m pt pre b HM Hm Hpt Hpre Hb]; cbn [p_build p_short p_major p_minor p_patch p_prerelease].
  - reflexivity.
  - simpl. now rewrite <- app_assoc.
  - destruct b as [|c b'].
    + now rewrite !app_nil_r.
    + rewrite full_assoc. apply take_app_len.
Qed.

Lemma canonical_invalid v : parse v = None -> canonical v = [].
Proof. intros H. unfold canonical. now rewrite H. Qed.
