(* Wire dispatcher for the semver model: function name and argument value to result value. *)
From Verif.Base Require Import Bytes Wire.
From Verif.Semver Require Import Model.

Definition on_str (a : val) (k : str -> val) : val :=
  match a with VS s => k s | _ => VBadCase end.
Definition on_pair (a : val) (k : str -> str -> val) : val :=
  match a with VL [VS v; VS w] => k v w | _ => VBadCase end.
Definition strs_of (l : list val) : list str :=
  flat_map (fun x => match x with VS s => [s] | _ => [] end) l.

Definition dispatch (f : str) (a : val) : val :=
  if str_eqb f (B "IsValid") then on_str a (fun v => VB (is_valid v))
  else if str_eqb f (B "Canonical") then on_str a (fun v => VS (canonical v))
  else if str_eqb f (B "Major") then on_str a (fun v => VS (major v))
  else if str_eqb f (B "MajorMinor") then on_str a (fun v => VS (major_minor v))
  else if str_eqb f (B "Prerelease") then on_str a (fun v => VS (prerelease v))
  else if str_eqb f (B "Build") then on_str a (fun v => VS (build v))
  else if str_eqb f (B "CanonicalVersion") then on_str a (fun v => VS (canonical_version v))
  else if str_eqb f (B "Compare") then on_pair a (fun v w => VI (compare v w))
  else if str_eqb f (B "Max") then on_pair a (fun v w => VS (max v w))
  else if str_eqb f (B "Sort") then
    match a with VL l => VL (List.map VS (sort (strs_of l))) | _ => VBadCase end
  else VBadCase.
