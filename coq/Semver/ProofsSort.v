(* ByVersion.Less is a strict total order on strings; Sort returns the unique sorted
   permutation of its input. *)
From Coq Require Import List ZArith Lia Bool Permutation Sorted.
From Verif.Base Require Import Bytes.
From Verif.Semver Require Import Model Spec ProofsOrder ProofsStr ProofsParse ProofsCompare.

(* Compare first, the string itself to break ties *)
Definition cmp_less : str -> str -> comparison := lexc cmp_version str_cmp.

Lemma cmp_less_POrd : POrd cmp_less.
Proof. apply lexc_POrd; [apply cmp_version_POrd | apply str_cmp_POrd]. Qed.

Lemma cmp_less_Separating : Separating cmp_less.
Proof. apply lexc_Separating. intros x y _ H. now apply str_cmp_eq. Qed.

Lemma less_lt a b : less a b = true <-> cmp_less a b = Lt.
Proof.
  unfold less, cmp_less, lexc. rewrite compare_cmp.
  destruct (cmp_version a b); simpl.
  - apply str_ltb_lt.
  - split; reflexivity.
  - split; discriminate.
Qed.

Lemma less_false a b : less a b = false <-> cmp_less a b <> Lt.
Proof. rewrite <- less_lt. destruct (less a b); split; congruence. Qed.

Theorem less_irrefl a : less a a = false.
Proof. apply less_false. rewrite (po_refl _ cmp_less_POrd). discriminate. Qed.

Theorem less_trans a b c : less a b = true -> less b c = true -> less a c = true.
Proof. rewrite !less_lt. apply (po_lt_trans _ cmp_less_POrd). Qed.

Theorem less_asym a b : less a b = true -> less b a = false.
Proof.
  rewrite less_lt, less_false, (po_antisym _ cmp_less_POrd a b). intros ->. discriminate.
Qed.

Theorem less_total a b : a <> b -> less a b = true \/ less b a = true.
Proof.
  intros Hne. rewrite !less_lt, (po_antisym _ cmp_less_POrd a b).
  destruct (cmp_less a b) eqn:E; simpl; auto.
  apply cmp_less_Separating in E. contradiction.
Qed.

(* the order used by the sortedness statement *)
Definition le_ver (a b : str) : Prop := less b a = false.

Lemma le_ver_cmp a b : le_ver a b <-> cmp_less a b <> Gt.
Proof.
  unfold le_ver. rewrite less_false, (po_antisym _ cmp_less_POrd a b).
  destruct (cmp_less a b); simpl; split; congruence.
Qed.

Lemma le_ver_trans a b c : le_ver a b -> le_ver b c -> le_ver a c.
Proof. rewrite !le_ver_cmp. apply (po_le_trans _ cmp_less_POrd). Qed.

Lemma le_ver_antisym a b : le_ver a b -> le_ver b a -> a = b.
Proof.
  rewrite !le_ver_cmp, (po_antisym _ cmp_less_POrd a b). intros H1 H2.
  apply cmp_less_Separating. destruct (cmp_less a b); simpl in *; congruence.
Qed.

Lemma le_ver_refl a : le_ver a a.
Proof. apply less_irrefl. Qed.

(* ---- insertion sort -------------------------------------------------------------------------- *)

Lemma insert_perm x l : Permutation (x :: l) (insert x l).
Proof.
  induction l as [|y r IH]; simpl; [reflexivity|].
  destruct (less y x); [|reflexivity].
  rewrite perm_swap. now apply perm_skip.
Qed.

Lemma insert_sorted x l : StronglySorted le_ver l -> StronglySorted le_ver (insert x l).
Proof.
  induction l as [|y r IH]; simpl; intros S.
  - repeat constructor.
  - inversion S as [|y' r' Sr Hall]; subst.
    destruct (less y x) eqn:E.
    + constructor; [now apply IH|].
      apply (Permutation_Forall (insert_perm x r)). constructor; [|exact Hall].
      unfold le_ver. now apply less_asym.
    + constructor; [exact S|]. constructor; [exact E|].
      revert Hall. apply Forall_impl. intros z Hz. eapply le_ver_trans; [exact E|exact Hz].
Qed.

Lemma sort_perm l : Permutation l (sort l).
Proof.
  induction l as [|x l IH]; simpl; [reflexivity|].
  rewrite <- insert_perm. now apply perm_skip.
Qed.

Lemma sort_sorted l : StronglySorted le_ver (sort l).
Proof.
  induction l as [|x l IH]; simpl; [constructor|]. now apply insert_sorted.
Qed.

Theorem sort_spec l :
  Permutation l (sort l) /\ StronglySorted (fun a b => less b a = false) (sort l).
Proof. split; [apply sort_perm | apply sort_sorted]. Qed.

(* ---- the sorted permutation is unique ------------------------------------------------------------ *)

Lemma sorted_perm_unique l1 l2 :
  StronglySorted le_ver l1 -> StronglySorted le_ver l2 -> Permutation l1 l2 -> l1 = l2.
Proof.
  revert l2. induction l1 as [|a l1 IH]; intros l2 S1 S2 P.
  - apply Permutation_nil in P. now subst.
  - destruct l2 as [|b l2]; [apply Permutation_sym, Permutation_nil in P; discriminate|].
    inversion S1 as [|a' l1' S1' H1]; subst. inversion S2 as [|b' l2' S2' H2]; subst.
    assert (Hab : a = b).
    { assert (Ia : In a (b :: l2)) by (apply (Permutation_in _ P); now left).
      assert (Ib : In b (a :: l1)) by (apply (Permutation_in _ (Permutation_sym P)); now left).
      destruct Ia as [->|Ia]; [reflexivity|]. destruct Ib as [->|Ib]; [reflexivity|].
      rewrite Forall_forall in H1, H2. apply le_ver_antisym; auto. }
    subst b. f_equal. apply IH; auto. now apply Permutation_cons_inv in P.
Qed.

Theorem sort_unique l l' :
  Permutation l l' -> StronglySorted (fun a b => less b a = false) l' -> l' = sort l.
Proof.
  intros P S. apply sorted_perm_unique; [exact S | apply sort_sorted |].
  rewrite <- P. apply sort_perm.
Qed.
