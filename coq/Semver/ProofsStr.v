(* String lemmas used by the semver proofs: span, split_on/join, orders on strings. *)
From Coq Require Import List ZArith Lia Bool.
From Verif.Base Require Import Bytes.
From Verif.Semver Require Import Spec ProofsOrder.

(* ---- orders on strings -------------------------------------------------------------- *)

Lemma str_cmp_POrd : POrd str_cmp.
Proof.
  split.
  - intros x y. apply str_cmp_antisym.
  - intros x y z H. apply str_cmp_eq in H. now subst.
  - intros x y z. apply str_cmp_trans.
Qed.

Lemma str_cmp_Separating : Separating str_cmp.
Proof. intros x y H. now apply str_cmp_eq. Qed.

Lemma str_cmp_refl x : str_cmp x x = Eq.
Proof. now apply str_cmp_eq. Qed.

Lemma str_ltb_lt x y : str_ltb x y = true <-> str_cmp x y = Lt.
Proof. unfold str_ltb. destruct (str_cmp x y); split; congruence. Qed.

Lemma str_eqb_false x y : str_eqb x y = false <-> x <> y.
Proof. destruct (str_eqb_spec x y); split; congruence. Qed.

(* shorter strings first, strings of the same length in byte order *)
Definition shortlex : str -> str -> comparison :=
  lexc (pull (@length Z) Nat.compare) str_cmp.

Lemma shortlex_POrd : POrd shortlex.
Proof. apply lexc_POrd; [apply pull_POrd, nat_compare_POrd | apply str_cmp_POrd]. Qed.

Lemma shortlex_Separating : Separating shortlex.
Proof. apply lexc_Separating. intros x y _ H. now apply str_cmp_eq. Qed.

Lemma shortlex_refl x : shortlex x x = Eq.
Proof. apply (po_refl _ shortlex_POrd). Qed.

Lemma len_lt_iff (x y : str) : (len x <? len y) = true <-> (length x < length y)%nat.
Proof. unfold len. rewrite Z.ltb_lt. lia. Qed.

(* ---- span ---------------------------------------------------------------------------- *)

Definition stops (p : Z -> bool) (b : str) : bool :=
  match b with [] => true | c :: _ => negb (p c) end.

Lemma span_inv p s a b :
  span p s = (a, b) -> s = a ++ b /\ forallb p a = true /\ stops p b = true.
Proof.
  revert a b. induction s as [|c s IH]; simpl; intros a b H.
  - inversion H; subst. auto.
  - destruct (p c) eqn:Ec.
    + destruct (span p s) as [a' b'] eqn:E. inversion H; subst.
      destruct (IH a' b eq_refl) as (-> & Ha & Hb). simpl. rewrite Ec, Ha. auto.
    + inversion H; subst. simpl. rewrite Ec. auto.
Qed.

Lemma span_app p a b :
  forallb p a = true -> stops p b = true -> span p (a ++ b) = (a, b).
Proof.
  intros Ha Hb. induction a as [|c a IH]; simpl in *.
  - destruct b as [|d b]; [reflexivity|]. simpl in *. destruct (p d); [discriminate|reflexivity].
  - apply andb_true_iff in Ha. destruct Ha as [Hc Ha]. rewrite Hc, (IH Ha). reflexivity.
Qed.

(* ---- split_on / join ------------------------------------------------------------------ *)

Lemma split_on_nonnil sep s : split_on sep s <> [].
Proof.
  destruct s as [|c r]; simpl; [discriminate|].
  destruct (c =? sep); [discriminate|]. destruct (split_on sep r); discriminate.
Qed.

Lemma split_on_cons sep c r :
  c <> sep -> exists h t, split_on sep r = h :: t /\ split_on sep (c :: r) = (c :: h) :: t.
Proof.
  intros Hc. simpl. destruct (Z.eqb_spec c sep); [contradiction|].
  destruct (split_on sep r) as [|h t] eqn:E; [now apply split_on_nonnil in E|]. eauto.
Qed.

Lemma join_cons sep x y r : join sep (x :: y :: r) = x ++ sep :: join sep (y :: r).
Proof. reflexivity. Qed.

Lemma join_split sep s : join sep (split_on sep s) = s.
Proof.
  induction s as [|c r IH]; [reflexivity|].
  simpl split_on. destruct (Z.eqb_spec c sep) as [->|Hc].
  - destruct (split_on sep r) as [|h t] eqn:E; [now apply split_on_nonnil in E|].
    rewrite join_cons, IH. reflexivity.
  - destruct (split_on sep r) as [|h t] eqn:E; [now apply split_on_nonnil in E|].
    destruct t as [|h' t].
    + simpl in *. now subst.
    + rewrite join_cons in *. rewrite <- IH. reflexivity.
Qed.

Lemma split_on_inj sep s t : split_on sep s = split_on sep t -> s = t.
Proof. intros H. rewrite <- (join_split sep s), <- (join_split sep t), H. reflexivity. Qed.

Definition no_sep (sep : Z) (x : str) : bool := forallb (fun c => negb (c =? sep)) x.

Lemma split_on_no_sep sep x : no_sep sep x = true -> split_on sep x = [x].
Proof.
  induction x as [|c x IH]; simpl; intros H; [reflexivity|].
  apply andb_true_iff in H. destruct H as [Hc Hx].
  destruct (c =? sep); [discriminate|]. rewrite (IH Hx). reflexivity.
Qed.

Lemma split_on_app_sep sep x s :
  no_sep sep x = true -> split_on sep (x ++ sep :: s) = x :: split_on sep s.
Proof.
  induction x as [|c x IH]; simpl; intros H.
  - rewrite Z.eqb_refl. reflexivity.
  - apply andb_true_iff in H. destruct H as [Hc Hx].
    destruct (c =? sep); [discriminate|]. rewrite (IH Hx). reflexivity.
Qed.

Lemma split_join sep l :
  l <> [] -> forallb (no_sep sep) l = true -> split_on sep (join sep l) = l.
Proof.
  induction l as [|x l IH]; intros Hn H; [congruence|].
  simpl in H. apply andb_true_iff in H. destruct H as [Hx Hl].
  destruct l as [|y r].
  - simpl. now apply split_on_no_sep.
  - rewrite join_cons, split_on_app_sep by exact Hx. f_equal. apply IH; [discriminate|exact Hl].
Qed.

(* a character test on the whole string versus on its pieces *)
Lemma forallb_split_on (q : Z -> bool) sep s :
  forallb (fun c => q c || (c =? sep)) s = forallb (forallb q) (split_on sep s).
Proof.
  induction s as [|c r IH]; [reflexivity|].
  simpl forallb at 1. simpl split_on. destruct (Z.eqb_spec c sep) as [->|Hc].
  - rewrite orb_true_r. simpl. exact IH.
  - rewrite orb_false_r, IH.
    destruct (split_on sep r) as [|h t] eqn:E; [now apply split_on_nonnil in E|].
    simpl. now rewrite andb_assoc.
Qed.

Lemma forallb_impl {A} (p q : A -> bool) l :
  (forall x, p x = true -> q x = true) -> forallb p l = true -> forallb q l = true.
Proof. rewrite !forallb_forall. auto. Qed.

Lemma forallb_ext_in {A} (p q : A -> bool) l :
  (forall x, In x l -> p x = q x) -> forallb p l = forallb q l.
Proof.
  induction l as [|a l IH]; intros H; [reflexivity|]. simpl.
  rewrite (H a (or_introl eq_refl)), IH; [reflexivity|]. intros x Hx. apply H. now right.
Qed.
