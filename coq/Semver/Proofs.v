(* Proofs about the semver model. *)
From Verif.Base Require Import Bytes.
From Verif.Semver Require Import Model.

Lemma compare_int_refl x : compare_int x x = 0.
Proof. unfold compare_int. now rewrite str_eqb_refl. Qed.

Lemma compare_prerelease_refl x : compare_prerelease x x = 0.
Proof. unfold compare_prerelease. now rewrite str_eqb_refl. Qed.

Lemma compare_refl v : compare v v = 0.
Proof.
  unfold compare. destruct (parse v) as [p|]; [|reflexivity].
  rewrite !compare_int_refl. simpl. apply compare_prerelease_refl.
Qed.
