(* Executable model of golang.org/x/mod/semver (semver/semver.go) and of
   module.CanonicalVersion.  Definitions only; proofs live in Semver/Proofs*.v. *)
From Verif.Base Require Import Bytes.
From Verif.Gen Require Import GenChars.

Record parsed := mkParsed {
  p_major : str; p_minor : str; p_patch : str; p_short : str;
  p_prerelease : str; p_build : str }.

(* semver.go isIdentChar: regenerated from the source on every run (Gen/GenChars.v) *)
Definition is_ident_char (c : Z) : bool := semver_isIdentChar c.

(* semver.go parseInt: (t, rest) or failure *)
Definition parse_int (v : str) : option (str * str) :=
  match v with
  | [] => None
  | c :: r =>
      if is_digit c then
        let (ds, rest) := span is_digit r in
        if (c =? 48) && negb (match ds with [] => true | _ => false end) then None
        else Some (c :: ds, rest)
      else None
  end.

(* semver.go isBadNum / isNum *)
Definition is_num (v : str) : bool := forallb is_digit v.
Definition is_bad_num (v : str) : bool :=
  is_num v && (1 <? len v) && (match v with 48 :: _ => true | _ => false end).

(* semver.go parsePrerelease. v starts with '-'. The Go loop scans to the first '+',
   failing on a character outside [0-9A-Za-z-.], on an empty identifier and on a numeric
   identifier with a leading zero. *)
Definition parse_prerelease (v : str) : option (str * str) :=
  match v with
  | 45 :: r =>
      let (body, rest) := span (fun c => negb (c =? 43)) r in
      if forallb (fun c => is_ident_char c || (c =? 46)) body
         && forallb (fun id => negb (match id with [] => true | _ => false end) && negb (is_bad_num id))
                    (split_on 46 body)
      then Some (45 :: body, rest) else None
  | _ => None
  end.

(* semver.go parseBuild. v starts with '+'; consumes everything. *)
Definition parse_build (v : str) : option (str * str) :=
  match v with
  | 43 :: body =>
      if forallb (fun c => is_ident_char c || (c =? 46)) body
         && forallb (fun id => negb (match id with [] => true | _ => false end)) (split_on 46 body)
      then Some (v, []) else None
  | _ => None
  end.

Definition zero : str := [48].

(* semver.go parse *)
Definition parse (v : str) : option parsed :=
  match v with
  | 118 :: v1 =>
      match parse_int v1 with
      | None => None
      | Some (major, v2) =>
          match v2 with
          | [] => Some (mkParsed major zero zero (B ".0.0") [] [])
          | 46 :: v3 =>
              match parse_int v3 with
              | None => None
              | Some (minor, v4) =>
                  match v4 with
                  | [] => Some (mkParsed major minor zero (B ".0") [] [])
                  | 46 :: v5 =>
                      match parse_int v5 with
                      | None => None
                      | Some (patch, v6) =>
                          let pre := match v6 with
                                     | 45 :: _ => match parse_prerelease v6 with
                                                  | Some (t, r) => Some (t, r)
                                                  | None => None
                                                  end
                                     | _ => Some ([], v6)
                                     end in
                          match pre with
                          | None => None
                          | Some (prerelease, v7) =>
                              let bld := match v7 with
                                         | 43 :: _ => parse_build v7
                                         | _ => Some ([], v7)
                                         end in
                              match bld with
                              | None => None
                              | Some (build, v8) =>
                                  match v8 with
                                  | [] => Some (mkParsed major minor patch [] prerelease build)
                                  | _ => None
                                  end
                              end
                          end
                      end
                  | _ => None
                  end
              end
          | _ => None
          end
      end
  | _ => None
  end.

Definition is_valid (v : str) : bool :=
  match parse v with Some _ => true | None => false end.

Definition take (n : Z) (s : str) : str := firstn (Z.to_nat n) s.

Definition canonical (v : str) : str :=
  match parse v with
  | None => []
  | Some p =>
      match p_build p with
      | _ :: _ => take (len v - len (p_build p)) v
      | [] => match p_short p with
              | _ :: _ => v ++ p_short p
              | [] => v
              end
      end
  end.

Definition major (v : str) : str :=
  match parse v with
  | None => []
  | Some p => take (1 + len (p_major p)) v
  end.

(* semver.go MajorMinor, including the slice comparison it performs *)
Definition major_minor (v : str) : str :=
  match parse v with
  | None => []
  | Some p =>
      let i := 1 + len (p_major p) in
      let j := i + 1 + len (p_minor p) in
      if (j <=? len v)
         && (match nth_error v (Z.to_nat i) with Some 46 => true | _ => false end)
         && str_eqb (firstn (Z.to_nat (j - (i + 1))) (skipn (Z.to_nat (i + 1)) v)) (p_minor p)
      then take j v
      else take i v ++ [46] ++ p_minor p
  end.

Definition prerelease (v : str) : str :=
  match parse v with None => [] | Some p => p_prerelease p end.

Definition build (v : str) : str :=
  match parse v with None => [] | Some p => p_build p end.

(* semver.go compareInt *)
Definition compare_int (x y : str) : Z :=
  if str_eqb x y then 0
  else if len x <? len y then -1
  else if len y <? len x then 1
  else if str_ltb x y then -1 else 1.

(* one step of the loop of comparePrerelease on two identifiers that differ *)
Definition compare_ident (dx dy : str) : Z :=
  let ix := is_num dx in
  let iy := is_num dy in
  if negb (Bool.eqb ix iy) then (if ix then -1 else 1)
  else if ix && (len dx <? len dy) then -1
  else if ix && (len dy <? len dx) then 1
  else if str_ltb dx dy then -1 else 1.

Fixpoint compare_idents (xs ys : list str) : Z :=
  match xs, ys with
  | [], _ => -1            (* x == "" after the loop (also when both ran out) *)
  | _ :: _, [] => 1
  | dx :: xs', dy :: ys' =>
      if str_eqb dx dy then compare_idents xs' ys' else compare_ident dx dy
  end.

(* the identifiers of a prerelease string "-a.b.c": drop the separator, split on '.' *)
Definition idents (x : str) : list str :=
  match x with [] => [] | _ :: r => split_on 46 r end.

(* semver.go comparePrerelease *)
Definition compare_prerelease (x y : str) : Z :=
  if str_eqb x y then 0
  else match x, y with
       | [], _ => 1
       | _, [] => -1
       | _, _ => compare_idents (idents x) (idents y)
       end.

(* semver.go Compare *)
Definition compare (v w : str) : Z :=
  match parse v, parse w with
  | None, None => 0
  | None, Some _ => -1
  | Some _, None => 1
  | Some pv, Some pw =>
      let c := compare_int (p_major pv) (p_major pw) in
      if negb (c =? 0) then c else
      let c := compare_int (p_minor pv) (p_minor pw) in
      if negb (c =? 0) then c else
      let c := compare_int (p_patch pv) (p_patch pw) in
      if negb (c =? 0) then c else
      compare_prerelease (p_prerelease pv) (p_prerelease pw)
  end.

(* semver.go Max *)
Definition max (v w : str) : str :=
  let v := canonical v in
  let w := canonical w in
  if 0 <? compare v w then v else w.

(* ByVersion.Less *)
Definition less (a b : str) : bool :=
  let c := compare a b in
  if negb (c =? 0) then c <? 0 else str_ltb a b.

(* semver.Sort: sort.Sort with ByVersion. Less is a strict total order on strings
   (Proofs), so every correct sorting algorithm returns the same list; the model uses
   insertion sort. *)
Fixpoint insert (x : str) (l : list str) : list str :=
  match l with
  | [] => [x]
  | y :: r => if less y x then y :: insert x r else x :: l
  end.

Definition sort (l : list str) : list str := fold_right insert [] l.

(* module.CanonicalVersion *)
Definition canonical_version (v : str) : str :=
  let cv := canonical v in
  if str_eqb (build v) (B "+incompatible") then cv ++ B "+incompatible" else cv.
