(* Compare on rendered versions is SemVer 2.0.0 section 11 precedence ([compare_spec]). *)
From Coq Require Import List ZArith Lia Bool.
From Verif.Base Require Import Bytes.
From Verif.Semver Require Import Model Spec ProofsOrder ProofsStr ProofsParse ProofsCompare ProofsGrammar.

Lemma pre_ident_numeral x : pre_ident x = true -> all_digits x = true -> numeral x = true.
Proof.
  unfold pre_ident. intros H D. apply andb_true_iff in H. destruct H as [_ H].
  rewrite D in H. exact H.
Qed.

Lemma ident_cmp_prec x y :
  pre_ident x = true -> pre_ident y = true -> ident_cmp x y = prec_ident x y.
Proof.
  intros Hx Hy. unfold ident_cmp, prec_ident. change is_num with all_digits.
  destruct (all_digits x) eqn:Dx, (all_digits y) eqn:Dy; try reflexivity.
  apply shortlex_numeric; now apply pre_ident_numeral.
Qed.

Lemma list_lex_prec l l' :
  forallb pre_ident l = true -> forallb pre_ident l' = true ->
  list_lex ident_cmp l l' = prec_idents l l'.
Proof.
  revert l'. induction l as [|x l IH]; intros [|y l'] H H'; try reflexivity.
  simpl in H, H'. apply andb_true_iff in H, H'. destruct H as [Hx Hl], H' as [Hy Hl'].
  simpl. rewrite (ident_cmp_prec x y Hx Hy), (IH l' Hl Hl'). reflexivity.
Qed.

Lemma prekey_render_pre l :
  forallb pre_ident l = true ->
  prekey (render_pre l) = match l with [] => None | _ :: _ => Some l end.
Proof.
  intros H. rewrite render_pre_eq. destruct l as [|x r]; [reflexivity|].
  unfold prekey. rewrite split_join; [reflexivity|discriminate|].
  eapply idents_no_dot; [|exact H]. apply pre_ident_chars.
Qed.

Lemma cmp_pre_prec l l' :
  forallb pre_ident l = true -> forallb pre_ident l' = true ->
  cmp_pre (prekey (render_pre l)) (prekey (render_pre l')) = prec_pre l l'.
Proof.
  intros H H'. rewrite (prekey_render_pre l H), (prekey_render_pre l' H').
  destruct l as [|x r], l' as [|y r']; try reflexivity.
  unfold cmp_pre, opt_top, prec_pre. now apply list_lex_prec.
Qed.

Lemma cmp_parsed_prec d d' :
  wf d = true -> wf d' = true -> cmp_parsed (parsed_of d) (parsed_of d') = prec d d'.
Proof.
  intros W W'. apply wf_inv in W, W'.
  destruct W as (HM & Hm & Hpt & Hpre & _), W' as (HM' & Hm' & Hpt' & Hpre' & _).
  unfold cmp_parsed, lexc, pull, prec, then_cmp, parsed_of.
  cbn [p_major p_minor p_patch p_prerelease].
  rewrite !shortlex_numeric, cmp_pre_prec by assumption.
  destruct (val (v_major d) ?= val (v_major d'))%N; try reflexivity.
  destruct (val (v_minor d) ?= val (v_minor d'))%N; try reflexivity.
  destruct (val (v_patch d) ?= val (v_patch d'))%N; reflexivity.
Qed.

Theorem compare_spec (v w : Version) :
  compare (render v) (render w) = Z_of_comparison (prec v w).
Proof.
  rewrite compare_cmp. unfold cmp_version.
  rewrite (parse_render v (vd_wf v)), (parse_render w (vd_wf w)). simpl opt_bot.
  rewrite cmp_parsed_prec by apply vd_wf. reflexivity.
Qed.
