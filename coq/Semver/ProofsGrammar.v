(* The strings accepted by the model's parser are exactly the renderings of the
   declarative Version of Semver/Spec.v, and the accessors return the corresponding parts. *)
From Coq Require Import List ZArith Lia Bool Eqdep_dec.
From Verif.Base Require Import Bytes.
From Verif.Semver Require Import Model Spec ProofsOrder ProofsStr ProofsParse.

(* ---- rendering, with the literals evaluated ---------------------------------------------- *)

Lemma render_pre_eq l : render_pre l = match l with [] => [] | _ :: _ => 45 :: join 46 l end.
Proof. destruct l; reflexivity. Qed.

Lemma render_build_eq l : render_build l = match l with [] => [] | _ :: _ => 43 :: join 46 l end.
Proof. destruct l; reflexivity. Qed.

Lemma render_eq d :
  render d = 118 :: v_major d ++
             match v_form d with
             | ShortMajor => []
             | ShortMinor => 46 :: v_minor d
             | Full => 46 :: v_minor d ++ 46 :: v_patch d
                       ++ render_pre (v_pre d) ++ render_build (v_build d)
             end.
Proof. unfold render. destruct (v_form d); reflexivity. Qed.

(* ---- well-formedness, as propositions ------------------------------------------------------ *)

Lemma wf_inv d :
  wf d = true ->
  numeral (v_major d) = true /\ numeral (v_minor d) = true /\ numeral (v_patch d) = true
  /\ forallb pre_ident (v_pre d) = true /\ forallb build_ident (v_build d) = true
  /\ match v_form d with
     | Full => True
     | ShortMinor => v_patch d = B "0" /\ v_pre d = [] /\ v_build d = []
     | ShortMajor => v_minor d = B "0" /\ v_patch d = B "0" /\ v_pre d = [] /\ v_build d = []
     end.
Proof.
  unfold wf. intros H. repeat (apply andb_true_iff in H; destruct H as [H ?]).
  repeat split; try assumption.
  destruct (v_form d); [exact I| |].
  - repeat match goal with
           | H : _ && _ = true |- _ => apply andb_true_iff in H; destruct H
           end.
    repeat split; try (now apply str_eqb_eq);
      match goal with
      | H : is_nil ?l = true |- ?l = [] => destruct l; [reflexivity|discriminate]
      end.
  - repeat match goal with
           | H : _ && _ = true |- _ => apply andb_true_iff in H; destruct H
           end.
    repeat split; try (now apply str_eqb_eq);
      match goal with
      | H : is_nil ?l = true |- ?l = [] => destruct l; [reflexivity|discriminate]
      end.
Qed.

(* ---- the parsed record of a version -------------------------------------------------------- *)

Definition short_of (f : form) : str :=
  match f with Full => [] | ShortMinor => B ".0" | ShortMajor => B ".0.0" end.

Definition parsed_of (d : vdata) : parsed :=
  mkParsed (v_major d) (v_minor d) (v_patch d) (short_of (v_form d))
           (render_pre (v_pre d)) (render_build (v_build d)).

Lemma idents_no_dot (p : str -> bool) l :
  (forall id, p id = true -> forallb ident_char id = true) ->
  forallb p l = true -> forallb (no_sep 46) l = true.
Proof.
  intros Hp. apply forallb_impl. intros id H. apply ident_chars_no_dot, Hp, H.
Qed.

Lemma render_pre_str l : forallb pre_ident l = true -> pre_str (render_pre l).
Proof.
  intros H. rewrite render_pre_eq. destruct l as [|x r]; [now left|]. right.
  exists (join 46 (x :: r)). split; [reflexivity|].
  rewrite split_join; [exact H|discriminate|].
  eapply idents_no_dot; [|exact H]. apply pre_ident_chars.
Qed.

Lemma render_build_str l : forallb build_ident l = true -> build_str (render_build l).
Proof.
  intros H. rewrite render_build_eq. destruct l as [|x r]; [now left|]. right.
  exists (join 46 (x :: r)). split; [reflexivity|].
  rewrite split_join; [exact H|discriminate|].
  eapply idents_no_dot; [|exact H]. apply build_ident_chars.
Qed.

Lemma parse_rel_render d : wf d = true -> parse_rel (render d) (parsed_of d).
Proof.
  intros H. apply wf_inv in H. destruct H as (HM & Hm & Hpt & Hpre & Hb & Hf).
  rewrite render_eq. unfold parsed_of. destruct d as [M m pt f pre bld]. simpl in *.
  destruct f.
  - apply PR_full; auto using render_pre_str, render_build_str.
  - destruct Hf as (-> & -> & ->). apply PR_minor; auto.
  - destruct Hf as (-> & -> & -> & ->). rewrite app_nil_r. apply PR_major; auto.
Qed.

Theorem parse_render d : wf d = true -> parse (render d) = Some (parsed_of d).
Proof. intros H. apply parse_complete, parse_rel_render, H. Qed.

(* ---- from a parse back to a version ---------------------------------------------------------- *)

Lemma render_pre_idents pre : pre_str pre -> render_pre (idents pre) = pre.
Proof.
  intros [->|(body & -> & _)]; [reflexivity|]. rewrite render_pre_eq. simpl idents.
  destruct (split_on 46 body) as [|h t] eqn:E; [now apply split_on_nonnil in E|].
  rewrite <- E, join_split. reflexivity.
Qed.

Lemma render_build_idents b : build_str b -> render_build (idents b) = b.
Proof.
  intros [->|(body & -> & _)]; [reflexivity|]. rewrite render_build_eq. simpl idents.
  destruct (split_on 46 body) as [|h t] eqn:E; [now apply split_on_nonnil in E|].
  rewrite <- E, join_split. reflexivity.
Qed.

Lemma pre_str_idents pre : pre_str pre -> forallb pre_ident (idents pre) = true.
Proof. intros [->|(body & -> & H)]; [reflexivity|exact H]. Qed.

Lemma build_str_idents b : build_str b -> forallb build_ident (idents b) = true.
Proof. intros [->|(body & -> & H)]; [reflexivity|exact H]. Qed.

Lemma parse_rel_version s p :
  parse_rel s p -> exists d, wf d = true /\ render d = s /\ parsed_of d = p.
Proof.
  intros H. destruct H as [M HM|M m HM Hm|M m pt pre b HM Hm Hpt Hpre Hb].
  - exists (mkV M (B "0") (B "0") ShortMajor [] []). split; [|split].
    + unfold wf. simpl. rewrite HM. reflexivity.
    + rewrite render_eq. simpl. now rewrite app_nil_r.
    + reflexivity.
  - exists (mkV M m (B "0") ShortMinor [] []). split; [|split].
    + unfold wf. simpl. rewrite HM, Hm. reflexivity.
    + rewrite render_eq. reflexivity.
    + reflexivity.
  - exists (mkV M m pt Full (idents pre) (idents b)). split; [|split].
    + unfold wf. simpl. rewrite HM, Hm, Hpt, (pre_str_idents pre Hpre), (build_str_idents b Hb).
      reflexivity.
    + rewrite render_eq. simpl. now rewrite (render_pre_idents pre Hpre), (render_build_idents b Hb).
    + unfold parsed_of. simpl. now rewrite (render_pre_idents pre Hpre), (render_build_idents b Hb).
Qed.

(* ---- the grammar theorem ----------------------------------------------------------------------- *)

Theorem is_valid_iff_grammar s : is_valid s = true <-> exists v : Version, render v = s.
Proof.
  unfold is_valid. split.
  - destruct (parse s) as [p|] eqn:E; [|discriminate]. intros _.
    apply parse_sound, parse_rel_version in E. destruct E as (d & Hwf & Hr & _).
    exists (mkVersion d Hwf). exact Hr.
  - intros [v <-]. now rewrite (parse_render v (vd_wf v)).
Qed.

Corollary is_valid_render (v : Version) : is_valid (render v) = true.
Proof. apply is_valid_iff_grammar. eauto. Qed.

(* ---- render is injective -------------------------------------------------------------------------- *)

Lemma render_ids_inj (p : str -> bool) c l l' :
  (forall id, p id = true -> forallb ident_char id = true) ->
  forallb p l = true -> forallb p l' = true ->
  match l with [] => [] | _ :: _ => c :: join 46 l end
  = match l' with [] => [] | _ :: _ => c :: join 46 l' end -> l = l'.
Proof.
  intros Hp H H' E. destruct l as [|x r], l' as [|x' r']; try discriminate; [reflexivity|].
  injection E as E.
  assert (S1 : split_on 46 (join 46 (x :: r)) = x :: r)
    by (apply split_join; [discriminate|eapply idents_no_dot; eauto]).
  assert (S2 : split_on 46 (join 46 (x' :: r')) = x' :: r')
    by (apply split_join; [discriminate|eapply idents_no_dot; eauto]).
  assert (E' : join 46 (x :: r) = join 46 (x' :: r')) by exact E.
  rewrite E' in S1. congruence.
Qed.

Lemma short_of_inj f g : short_of f = short_of g -> f = g.
Proof. destruct f, g; simpl; intros H; try reflexivity; discriminate. Qed.

Theorem render_inj_data d d' : wf d = true -> wf d' = true -> render d = render d' -> d = d'.
Proof.
  intros W W' E.
  assert (P : Some (parsed_of d) = Some (parsed_of d'))
    by (rewrite <- (parse_render d W), <- (parse_render d' W'), E; reflexivity).
  apply wf_inv in W, W'.
  destruct W as (_ & _ & _ & Hpre & Hb & _), W' as (_ & _ & _ & Hpre' & Hb' & _).
  destruct d as [M m pt f pre bld], d' as [M' m' pt' f' pre' bld']. unfold parsed_of in P.
  simpl in *. injection P as -> -> -> Ef Ep Eb.
  apply short_of_inj in Ef. rewrite render_pre_eq, render_pre_eq in Ep.
  rewrite render_build_eq, render_build_eq in Eb.
  apply (render_ids_inj pre_ident) in Ep; auto using pre_ident_chars.
  apply (render_ids_inj build_ident) in Eb; auto using build_ident_chars.
  congruence.
Qed.

Theorem render_inj (v w : Version) : render v = render w -> v = w.
Proof.
  intros E. apply render_inj_data in E; try apply vd_wf.
  destruct v as [d W], w as [d' W']. simpl in E. subst d'.
  f_equal. apply UIP_dec. apply bool_dec.
Qed.

(* ---- accessors ---------------------------------------------------------------------------------------- *)

Lemma take_prefix (x r : str) : take (len x) (x ++ r) = x.
Proof.
  unfold take, len. rewrite Nat2Z.id, firstn_app, Nat.sub_diag, firstn_all. simpl. apply app_nil_r.
Qed.

Lemma major_parts v p : parse v = Some p -> major v = 118 :: p_major p.
Proof.
  intros H. unfold major. rewrite H. apply parse_sound in H.
  destruct H as [M HM|M m HM Hm|M m pt pre b HM Hm Hpt Hpre Hb]; cbn [p_major];
    rewrite <- len_cons with (c := 118).
  - rewrite <- (app_nil_r (118 :: M)) at 2. apply take_prefix.
  - apply (take_prefix (118 :: M)).
  - apply (take_prefix (118 :: M)).
Qed.

Lemma some46_eq (o : option Z) :
  (match o with Some 46 => true | _ => false end)
  = match o with Some c => c =? 46 | None => false end.
Proof. destruct o as [c|]; [|reflexivity]. zlit c 46. reflexivity. Qed.

(* MajorMinor's test and slice on a string x ++ "." ++ m ++ rest with i = len x *)
Lemma major_minor_aux (x m rest : str) :
  let v := x ++ 46 :: m ++ rest in
  let i := len x in
  let j := i + 1 + len m in
  (j <=? len v)
  && (match nth_error v (Z.to_nat i) with Some 46 => true | _ => false end)
  && str_eqb (firstn (Z.to_nat (j - (i + 1))) (skipn (Z.to_nat (i + 1)) v)) m = true
  /\ take j v = x ++ 46 :: m.
Proof.
  intros v i j. subst v i j.
  assert (E1 : Z.to_nat (len x) = length x) by (unfold len; apply Nat2Z.id).
  assert (E2 : Z.to_nat (len x + 1 + len m - (len x + 1)) = length m)
    by (unfold len; lia).
  assert (E3 : Z.to_nat (len x + 1) = length (x ++ [46]))
    by (rewrite app_length; unfold len; simpl; lia).
  assert (E4 : x ++ 46 :: m ++ rest = (x ++ [46]) ++ m ++ rest)
    by (rewrite <- app_assoc; reflexivity).
  split.
  - rewrite !andb_true_iff. repeat split.
    + apply Z.leb_le. rewrite len_app, len_cons, len_app. pose proof (len_nonneg rest). lia.
    + rewrite some46_eq, E1, nth_error_app2, Nat.sub_diag by lia. reflexivity.
    + rewrite E2, E3, E4, skipn_app, skipn_all, Nat.sub_diag. simpl.
      rewrite firstn_app, Nat.sub_diag, firstn_all. simpl. rewrite app_nil_r. apply str_eqb_refl.
  - replace (len x + 1 + len m) with (len (x ++ 46 :: m))
      by (rewrite len_app, len_cons; lia).
    replace (x ++ 46 :: m ++ rest) with ((x ++ 46 :: m) ++ rest)
      by (rewrite <- app_assoc; reflexivity).
    apply take_prefix.
Qed.

Lemma major_minor_parts v p :
  parse v = Some p -> major_minor v = 118 :: p_major p ++ 46 :: p_minor p.
Proof.
  intros H. unfold major_minor. rewrite H. apply parse_sound in H.
  destruct H as [M HM|M m HM Hm|M m pt pre b HM Hm Hpt Hpre Hb]; cbn [p_major p_minor];
    rewrite <- len_cons with (c := 118).
  - cbv zeta.
    replace (len (118 :: M) + 1 + len zero <=? len (118 :: M)) with false
      by (symmetry; apply Z.leb_gt; unfold zero; rewrite (len_cons 48 []); unfold len; simpl; lia).
    simpl andb. cbv iota. rewrite <- (app_nil_r (118 :: M)) at 2. rewrite take_prefix. reflexivity.
  - pose proof (major_minor_aux (118 :: M) m []) as A. cbv zeta in A. rewrite app_nil_r in A.
    destruct A as [A1 A2]. cbv zeta. change (118 :: M ++ 46 :: m) with ((118 :: M) ++ 46 :: m).
    rewrite A1, A2. reflexivity.
  - pose proof (major_minor_aux (118 :: M) m (46 :: pt ++ pre ++ b)) as A. cbv zeta in A.
    destruct A as [A1 A2]. cbv zeta.
    change (118 :: M ++ 46 :: m ++ 46 :: pt ++ pre ++ b)
      with ((118 :: M) ++ 46 :: m ++ 46 :: pt ++ pre ++ b).
    rewrite A1, A2. reflexivity.
Qed.

Section Accessors.
  Variable d : vdata.
  Hypothesis W : wf d = true.

  Lemma major_render : major (render d) = render_major d.
  Proof. rewrite (major_parts _ _ (parse_render d W)). reflexivity. Qed.

  Lemma major_minor_render : major_minor (render d) = render_major_minor d.
  Proof. rewrite (major_minor_parts _ _ (parse_render d W)). reflexivity. Qed.

  Lemma prerelease_render : prerelease (render d) = render_pre (v_pre d).
  Proof. unfold prerelease. rewrite (parse_render d W). reflexivity. Qed.

  Lemma build_render : build (render d) = render_build (v_build d).
  Proof. unfold build. rewrite (parse_render d W). reflexivity. Qed.

  Lemma canonical_render : canonical (render d) = render_canonical d.
  Proof. rewrite (canonical_parts _ _ (parse_render d W)). reflexivity. Qed.
End Accessors.

Theorem accessors_render (v : Version) :
  major (render v) = render_major v /\
  major_minor (render v) = render_major_minor v /\
  prerelease (render v) = render_pre (v_pre v) /\
  build (render v) = render_build (v_build v) /\
  canonical (render v) = render_canonical v.
Proof.
  pose proof (vd_wf v) as W.
  split; [now apply major_render|]. split; [now apply major_minor_render|].
  split; [now apply prerelease_render|]. split; [now apply build_render|].
  now apply canonical_render.
Qed.

Theorem accessors_invalid s :
  is_valid s = false ->
  major s = [] /\ major_minor s = [] /\ prerelease s = [] /\ build s = [] /\ canonical s = []
  /\ canonical_version s = [].
Proof.
  unfold is_valid, major, major_minor, prerelease, build, canonical_version, canonical, build.
  destruct (parse s); [discriminate|]. intros _. repeat split; reflexivity.
Qed.

Theorem canonical_version_spec v :
  (build v = B "+incompatible" -> canonical_version v = canonical v ++ B "+incompatible") /\
  (build v <> B "+incompatible" -> canonical_version v = canonical v).
Proof.
  unfold canonical_version. destruct (str_eqb_spec (build v) (B "+incompatible")); split; tauto.
Qed.

(* in terms of the grammar: the build metadata is kept only when it is exactly "incompatible" *)
Theorem canonical_version_render (v : Version) :
  canonical_version (render v) =
  render_canonical v ++ (if str_eqb (render_build (v_build v)) (B "+incompatible")
                         then B "+incompatible" else []).
Proof.
  unfold canonical_version.
  rewrite (build_render v (vd_wf v)), (canonical_render v (vd_wf v)).
  destruct (str_eqb _ _); [reflexivity|now rewrite app_nil_r].
Qed.
