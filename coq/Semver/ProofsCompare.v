(* Compare of Semver/Model.v is the pull-back of a lexicographic total order on parsed
   versions ([compare_cmp]); the total-preorder laws follow from the generic development
   in ProofsOrder.v.  Numerals of any length are compared by value
   ([compare_int_numeric]). *)
From Coq Require Import List ZArith Lia Bool.
From Verif.Base Require Import Bytes.
From Verif.Semver Require Import Model Spec ProofsOrder ProofsStr ProofsParse.

Lemma Z_of_comparison_opp c : Z_of_comparison (CompOpp c) = - Z_of_comparison c.
Proof. destruct c; reflexivity. Qed.

Lemma Z_of_comparison_le0 c : Z_of_comparison c <= 0 <-> c <> Gt.
Proof. destruct c; simpl; split; intros; try congruence; try lia. Qed.

Lemma Z_of_comparison_eq0 c : Z_of_comparison c = 0 <-> c = Eq.
Proof. destruct c; simpl; split; intros; try congruence; try lia. Qed.

Lemma Z_of_comparison_range c :
  Z_of_comparison c = -1 \/ Z_of_comparison c = 0 \/ Z_of_comparison c = 1.
Proof. destruct c; simpl; auto. Qed.

(* ---- compareInt is the shortlex order ---------------------------------------------------- *)

Lemma compare_int_shortlex x y : compare_int x y = Z_of_comparison (shortlex x y).
Proof.
  unfold compare_int, shortlex, lexc, pull.
  destruct (str_eqb_spec x y) as [->|Hne].
  - rewrite Nat.compare_refl, str_cmp_refl. reflexivity.
  - destruct (Nat.compare_spec (length x) (length y)) as [He|Hlt|Hgt].
    + replace (len x <? len y) with false by (symmetry; apply Z.ltb_ge; unfold len; lia).
      replace (len y <? len x) with false by (symmetry; apply Z.ltb_ge; unfold len; lia).
      unfold str_ltb. destruct (str_cmp x y) eqn:E; try reflexivity.
      apply str_cmp_eq in E. contradiction.
    + apply len_lt_iff in Hlt. rewrite Hlt. reflexivity.
    + replace (len x <? len y) with false by (symmetry; apply Z.ltb_ge; unfold len; lia).
      apply len_lt_iff in Hgt. rewrite Hgt. reflexivity.
Qed.

(* ---- identifiers of a prerelease ---------------------------------------------------------- *)

(* numeric identifiers below alphanumeric ones; numeric ones by shortlex (= by value when
   they have no leading zeros), alphanumeric ones in byte order *)
Definition ident_cmp (x y : str) : comparison :=
  match is_num x, is_num y with
  | true, true => shortlex x y
  | true, false => Lt
  | false, true => Gt
  | false, false => str_cmp x y
  end.

Lemma ident_cmp_Separating : Separating ident_cmp.
Proof.
  intros x y. unfold ident_cmp. destruct (is_num x), (is_num y); try discriminate.
  - apply shortlex_Separating.
  - apply str_cmp_Separating.
Qed.

Lemma ident_cmp_refl x : ident_cmp x x = Eq.
Proof. unfold ident_cmp. destruct (is_num x); [apply shortlex_refl | apply str_cmp_refl]. Qed.

Lemma ident_cmp_POrd : POrd ident_cmp.
Proof.
  split.
  - intros x y. unfold ident_cmp. destruct (is_num x), (is_num y); try reflexivity.
    + apply (po_antisym _ shortlex_POrd).
    + apply (po_antisym _ str_cmp_POrd).
  - intros x y z H. apply ident_cmp_Separating in H. now subst.
  - intros x y z. unfold ident_cmp.
    destruct (is_num x), (is_num y), (is_num z); try discriminate; try reflexivity.
    + apply (po_lt_trans _ shortlex_POrd).
    + apply (po_lt_trans _ str_cmp_POrd).
Qed.

Lemma compare_ident_cmp dx dy :
  dx <> dy -> compare_ident dx dy = Z_of_comparison (ident_cmp dx dy).
Proof.
  intros Hne. unfold compare_ident, ident_cmp.
  destruct (is_num dx), (is_num dy); simpl; try reflexivity.
  - pose proof (compare_int_shortlex dx dy) as H. unfold compare_int in H.
    apply str_eqb_false in Hne. rewrite Hne in H. exact H.
  - unfold str_ltb. destruct (str_cmp dx dy) eqn:E; try reflexivity.
    apply str_cmp_eq in E. contradiction.
Qed.

Lemma compare_idents_lex xs ys :
  xs <> ys -> compare_idents xs ys = Z_of_comparison (list_lex ident_cmp xs ys).
Proof.
  revert ys. induction xs as [|dx xs IH]; intros [|dy ys] Hne; simpl; try reflexivity; try congruence.
  destruct (str_eqb_spec dx dy) as [->|Hd].
  - rewrite ident_cmp_refl. apply IH. congruence.
  - rewrite (compare_ident_cmp dx dy Hd).
    destruct (ident_cmp dx dy) eqn:E; try reflexivity.
    apply ident_cmp_Separating in E. contradiction.
Qed.

(* the key of a prerelease string: none (highest), or its list of identifiers *)
Definition prekey (x : str) : option (list str) :=
  match x with [] => None | _ :: r => Some (split_on 46 r) end.

Definition cmp_pre : option (list str) -> option (list str) -> comparison :=
  opt_top (list_lex ident_cmp).

Lemma cmp_pre_POrd : POrd cmp_pre.
Proof. apply opt_top_POrd, list_lex_POrd, ident_cmp_POrd. Qed.

Lemma cmp_pre_Separating : Separating cmp_pre.
Proof. apply opt_top_Separating, list_lex_Separating, ident_cmp_Separating. Qed.

Definition pre_shape (x : str) : Prop := x = [] \/ exists body, x = 45 :: body.

Lemma pre_str_shape x : pre_str x -> pre_shape x.
Proof. intros [->|(body & -> & _)]; [now left|right; eauto]. Qed.

Lemma prekey_inj x y : pre_shape x -> pre_shape y -> prekey x = prekey y -> x = y.
Proof.
  intros [->|(bx & ->)] [->|(by' & ->)]; simpl; intros H; try congruence.
  inversion H as [H']. apply split_on_inj in H'. congruence.
Qed.

Lemma compare_prerelease_cmp x y :
  pre_shape x -> pre_shape y ->
  compare_prerelease x y = Z_of_comparison (cmp_pre (prekey x) (prekey y)).
Proof.
  intros Hx Hy. unfold compare_prerelease.
  destruct (str_eqb_spec x y) as [->|Hne].
  - rewrite (po_refl _ cmp_pre_POrd). reflexivity.
  - destruct Hx as [->|(bx & ->)], Hy as [->|(by' & ->)]; try reflexivity; try congruence.
    simpl. apply compare_idents_lex. intros H. apply split_on_inj in H. congruence.
Qed.

(* ---- Compare ------------------------------------------------------------------------------- *)

Definition cmp_parsed : parsed -> parsed -> comparison :=
  lexc (pull p_major shortlex)
 (lexc (pull p_minor shortlex)
 (lexc (pull p_patch shortlex)
       (pull (fun p => prekey (p_prerelease p)) cmp_pre))).

(* invalid strings are all equivalent and below every valid one *)
Definition cmp_version (v w : str) : comparison := opt_bot cmp_parsed (parse v) (parse w).

Lemma cmp_parsed_POrd : POrd cmp_parsed.
Proof.
  unfold cmp_parsed.
  apply lexc_POrd; [apply pull_POrd, shortlex_POrd|].
  apply lexc_POrd; [apply pull_POrd, shortlex_POrd|].
  apply lexc_POrd; [apply pull_POrd, shortlex_POrd|].
  apply pull_POrd, cmp_pre_POrd.
Qed.

Lemma cmp_version_POrd : POrd cmp_version.
Proof. apply (pull_POrd parse (opt_bot cmp_parsed)), opt_bot_POrd, cmp_parsed_POrd. Qed.

Lemma cmp_parsed_eq p q :
  cmp_parsed p q = Eq <->
  p_major p = p_major q /\ p_minor p = p_minor q /\ p_patch p = p_patch q
  /\ prekey (p_prerelease p) = prekey (p_prerelease q).
Proof.
  unfold cmp_parsed. rewrite !lexc_eq. unfold pull. split.
  - intros (H1 & H2 & H3 & H4). repeat split; try (now apply shortlex_Separating).
    now apply cmp_pre_Separating.
  - intros (-> & -> & -> & ->). rewrite !shortlex_refl, (po_refl _ cmp_pre_POrd). auto.
Qed.

Theorem compare_cmp v w : compare v w = Z_of_comparison (cmp_version v w).
Proof.
  unfold compare, cmp_version.
  destruct (parse v) as [pv|] eqn:Ev, (parse w) as [pw|] eqn:Ew; try reflexivity.
  simpl opt_bot. unfold cmp_parsed, lexc, pull. rewrite !compare_int_shortlex.
  destruct (shortlex (p_major pv) (p_major pw)); try reflexivity.
  destruct (shortlex (p_minor pv) (p_minor pw)); try reflexivity.
  destruct (shortlex (p_patch pv) (p_patch pw)); try reflexivity.
  simpl. apply compare_prerelease_cmp; apply pre_str_shape; eapply parse_pre_str; eauto.
Qed.

(* ---- the laws ------------------------------------------------------------------------------- *)

Theorem compare_total v w : compare v w = -1 \/ compare v w = 0 \/ compare v w = 1.
Proof. rewrite compare_cmp. apply Z_of_comparison_range. Qed.

Theorem compare_antisym v w : compare w v = - compare v w.
Proof.
  rewrite !compare_cmp, (po_antisym _ cmp_version_POrd v w). apply Z_of_comparison_opp.
Qed.

Theorem compare_trans a b c : compare a b <= 0 -> compare b c <= 0 -> compare a c <= 0.
Proof.
  rewrite !compare_cmp, !Z_of_comparison_le0. apply (po_le_trans _ cmp_version_POrd).
Qed.

Theorem compare_eq_trans a b c : compare a b = 0 -> compare b c = 0 -> compare a c = 0.
Proof.
  rewrite !compare_cmp, !Z_of_comparison_eq0. apply (po_eq_trans _ cmp_version_POrd).
Qed.

(* strict versions, from the two above *)
Theorem compare_le_lt_trans a b c : compare a b <= 0 -> compare b c < 0 -> compare a c < 0.
Proof.
  intros H1 H2. destruct (Z_lt_le_dec (compare a c) 0) as [|H3]; [assumption|exfalso].
  assert (H4 : compare c a <= 0) by (rewrite (compare_antisym a c); lia).
  pose proof (compare_trans c a b H4 H1) as H5. rewrite (compare_antisym b c) in H5. lia.
Qed.

Theorem compare_lt_le_trans a b c : compare a b < 0 -> compare b c <= 0 -> compare a c < 0.
Proof.
  intros H1 H2. destruct (Z_lt_le_dec (compare a c) 0) as [|H3]; [assumption|exfalso].
  assert (H4 : compare c a <= 0) by (rewrite (compare_antisym a c); lia).
  pose proof (compare_trans b c a H2 H4) as H5. rewrite (compare_antisym a b) in H5. lia.
Qed.

Theorem compare_invalid v w :
  (is_valid v = false -> is_valid w = false -> compare v w = 0) /\
  (is_valid v = false -> is_valid w = true -> compare v w = -1 /\ compare w v = 1).
Proof.
  unfold is_valid, compare.
  destruct (parse v), (parse w); repeat split; intros; try reflexivity; discriminate.
Qed.

(* ---- numerals of any length are compared by value ------------------------------------------ *)

Definition pow10 (s : str) : Z := 10 ^ len s.

Lemma pow10_pos s : 0 < pow10 s.
Proof. unfold pow10. apply Z.pow_pos_nonneg; [lia|apply len_nonneg]. Qed.

Lemma pow10_cons c s : pow10 (c :: s) = 10 * pow10 s.
Proof.
  unfold pow10. rewrite len_cons, Z.add_comm, Z.pow_add_r by (pose proof (len_nonneg s); lia).
  change (10 ^ 1) with 10. ring.
Qed.

Definition hstep (a c : Z) : Z := 10 * a + (c - 48).

Lemma zval_hstep s : zval s = fold_left hstep s 0.
Proof. reflexivity. Qed.

Lemma horner_shift s : forall a, fold_left hstep s a = a * pow10 s + fold_left hstep s 0.
Proof.
  induction s as [|c s IH]; intros a.
  - simpl. unfold pow10. simpl. ring.
  - cbn [fold_left]. rewrite (IH (hstep a c)), (IH (hstep 0 c)), pow10_cons. unfold hstep. ring.
Qed.

Lemma zval_cons c s : zval (c :: s) = (c - 48) * pow10 s + zval s.
Proof.
  rewrite !zval_hstep. cbn [fold_left]. rewrite horner_shift. unfold hstep. ring.
Qed.

Lemma digit_range c : is_digit c = true -> 0 <= c - 48 <= 9.
Proof. unfold is_digit. intros H. apply andb_true_iff in H. lia. Qed.

Lemma zval_bounds s : all_digits s = true -> 0 <= zval s < pow10 s.
Proof.
  induction s as [|c s IH]; intros H.
  - unfold zval, pow10. simpl. lia.
  - simpl in H. apply andb_true_iff in H. destruct H as [Hc Hs].
    apply digit_range in Hc. specialize (IH Hs). rewrite zval_cons, pow10_cons.
    pose proof (pow10_pos s). nia.
Qed.

Lemma str_cmp_zval x y :
  length x = length y -> all_digits x = true -> all_digits y = true ->
  str_cmp x y = (zval x ?= zval y).
Proof.
  revert y. induction x as [|c x IH]; intros [|d y] Hl Hx Hy; try discriminate.
  - reflexivity.
  - simpl in Hl, Hx, Hy. apply andb_true_iff in Hx, Hy. destruct Hx as [Hc Hx], Hy as [Hd Hy].
    injection Hl as Hl. rewrite !zval_cons.
    assert (Hp : pow10 x = pow10 y) by (unfold pow10, len; now rewrite Hl).
    pose proof (zval_bounds x Hx). pose proof (zval_bounds y Hy). pose proof (pow10_pos y).
    apply digit_range in Hc, Hd. rewrite Hp in *. simpl str_cmp.
    destruct (Z.compare_spec c d) as [->|Hlt|Hgt].
    + rewrite (IH y Hl Hx Hy). symmetry. apply Z.add_compare_mono_l.
    + symmetry. apply Z.compare_lt_iff. nia.
    + symmetry. apply Z.compare_gt_iff. nia.
Qed.

Lemma numeral_all_digits s : numeral s = true -> all_digits s = true.
Proof.
  destruct s as [|c r]; [discriminate|]. unfold numeral, all_digits. simpl. intros H.
  apply andb_true_iff in H. destruct H as [H _]. exact H.
Qed.

(* a numeral of n digits other than "0" is at least 10^(n-1) *)
Lemma numeral_lower c r :
  numeral (c :: r) = true -> r <> [] -> pow10 r <= zval (c :: r).
Proof.
  unfold numeral. intros H Hr. apply andb_true_iff in H. destruct H as [H Hz].
  apply andb_true_iff in H. destruct H as [Hc Hd].
  destruct r as [|d r']; [congruence|]. simpl in Hz. rewrite orb_false_r in Hz.
  apply negb_true_iff, Z.eqb_neq in Hz. apply digit_range in Hc.
  pose proof (zval_bounds _ Hd). pose proof (pow10_pos (d :: r')). rewrite zval_cons. nia.
Qed.

Lemma pow10_mono (x y : str) : (length x <= length y)%nat -> pow10 x <= pow10 y.
Proof. intros H. unfold pow10, len. apply Z.pow_le_mono_r; lia. Qed.

Lemma numeral_shorter_smaller x y :
  numeral x = true -> numeral y = true -> (length x < length y)%nat -> zval x < zval y.
Proof.
  intros Hx Hy Hl. pose proof (zval_bounds x (numeral_all_digits x Hx)) as Bx.
  destruct y as [|d r]; [discriminate|]. simpl in Hl.
  assert (Hr : r <> []) by (intros ->; simpl in Hl; destruct x; [discriminate|simpl in Hl; lia]).
  pose proof (numeral_lower d r Hy Hr). pose proof (pow10_mono x r ltac:(lia)). lia.
Qed.

Lemma shortlex_numeric x y :
  numeral x = true -> numeral y = true -> shortlex x y = N.compare (val x) (val y).
Proof.
  intros Hx Hy. unfold val.
  pose proof (zval_bounds x (numeral_all_digits x Hx)) as Bx.
  pose proof (zval_bounds y (numeral_all_digits y Hy)) as By'.
  rewrite Z2N.inj_compare by lia.
  unfold shortlex, lexc, pull.
  destruct (Nat.compare_spec (length x) (length y)) as [He|Hlt|Hgt].
  - apply str_cmp_zval; auto using numeral_all_digits.
  - symmetry. apply Z.compare_lt_iff. now apply numeral_shorter_smaller.
  - symmetry. apply Z.compare_gt_iff. now apply numeral_shorter_smaller.
Qed.

Theorem compare_int_numeric x y :
  numeral x = true -> numeral y = true ->
  compare_int x y = Z_of_comparison (N.compare (val x) (val y)).
Proof. intros Hx Hy. rewrite compare_int_shortlex, shortlex_numeric; auto. Qed.

(* ---- Compare = 0 exactly when the canonical forms coincide --------------------------------- *)

Lemma parsed_wf v p :
  parse v = Some p ->
  numeral (p_major p) = true /\ numeral (p_minor p) = true /\ numeral (p_patch p) = true
  /\ pre_str (p_prerelease p) /\ build_str (p_build p).
Proof.
  intros H. apply parse_sound in H.
  destruct H; simpl; repeat split; auto; try (now left).
Qed.

Lemma app_digits_inj a r a' r' :
  all_digits a = true -> all_digits a' = true ->
  stops is_digit r = true -> stops is_digit r' = true ->
  a ++ r = a' ++ r' -> a = a' /\ r = r'.
Proof.
  intros Ha Ha' Hr Hr' E.
  pose proof (span_app is_digit a r Ha Hr) as S1.
  pose proof (span_app is_digit a' r' Ha' Hr') as S2.
  rewrite E in S1. rewrite S1 in S2. inversion S2. auto.
Qed.

Lemma pre_shape_stops x : pre_shape x -> stops is_digit x = true.
Proof. intros [->|(b & ->)]; reflexivity. Qed.

Lemma canonical_fields_inj M m pt pre M' m' pt' pre' :
  all_digits M = true -> all_digits m = true -> all_digits pt = true -> pre_shape pre ->
  all_digits M' = true -> all_digits m' = true -> all_digits pt' = true -> pre_shape pre' ->
  118 :: M ++ 46 :: m ++ 46 :: pt ++ pre = 118 :: M' ++ 46 :: m' ++ 46 :: pt' ++ pre' ->
  M = M' /\ m = m' /\ pt = pt' /\ pre = pre'.
Proof.
  intros HM Hm Hpt Hpre HM' Hm' Hpt' Hpre' E. injection E as E.
  apply app_digits_inj in E; [|assumption|assumption|reflexivity|reflexivity].
  destruct E as [-> E]. injection E as E.
  apply app_digits_inj in E; [|assumption|assumption|reflexivity|reflexivity].
  destruct E as [-> E]. injection E as E.
  apply app_digits_inj in E; [|assumption|assumption|now apply pre_shape_stops..].
  destruct E as [-> ->]. auto.
Qed.

Theorem compare_zero_iff_canonical v w : compare v w = 0 <-> canonical v = canonical w.
Proof.
  rewrite compare_cmp, Z_of_comparison_eq0. unfold cmp_version.
  destruct (parse v) as [p|] eqn:Ev, (parse w) as [q|] eqn:Ew; simpl opt_bot.
  - rewrite (canonical_parts v p Ev), (canonical_parts w q Ew), cmp_parsed_eq.
    destruct (parsed_wf v p Ev) as (HM & Hm & Hpt & Hpre & _).
    destruct (parsed_wf w q Ew) as (HM' & Hm' & Hpt' & Hpre' & _).
    apply pre_str_shape in Hpre, Hpre'. split.
    + intros (-> & -> & -> & Hk). now rewrite (prekey_inj _ _ Hpre Hpre' Hk).
    + intros E. apply canonical_fields_inj in E; auto using numeral_all_digits.
      destruct E as (-> & -> & -> & ->). auto.
  - rewrite (canonical_parts v p Ev), (canonical_invalid w Ew). split; discriminate.
  - rewrite (canonical_parts w q Ew), (canonical_invalid v Ev). split; discriminate.
  - rewrite (canonical_invalid v Ev), (canonical_invalid w Ew). split; reflexivity.
Qed.
