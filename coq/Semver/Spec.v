(* Declarative specification of the version strings of golang.org/x/mod/semver:
   the documented grammar
       vMAJOR[.MINOR[.PATCH[-PRERELEASE][+BUILD]]]
   as a data type with a rendering function, and SemVer 2.0.0 section 11 precedence
   written directly on that data type.  Nothing here mentions the Go-shaped model
   (Semver/Model.v); the theorems relating the two are in Semver/Proofs*.v. *)
From Verif.Base Require Import Bytes.

Definition Z_of_comparison (c : comparison) : Z :=
  match c with Eq => 0 | Lt => -1 | Gt => 1 end.

Definition is_nil {A} (l : list A) : bool := match l with [] => true | _ :: _ => false end.

(* ---- characters ------------------------------------------------------------------ *)

(* [0-9A-Za-z-] *)
Definition ident_char (c : Z) : bool :=
  is_digit c || is_upper c || is_lower c || (c =? 45).

(* ---- numerals -------------------------------------------------------------------- *)

Definition all_digits (s : str) : bool := forallb is_digit s.

(* a numeral: a non-empty string of digits that is "0" or does not start with '0' *)
Definition numeral (s : str) : bool :=
  match s with
  | [] => false
  | c :: r => is_digit c && all_digits r && (negb (c =? 48) || is_nil r)
  end.

(* the number denoted by a digit string (Horner), of any length *)
Definition zval (s : str) : Z := fold_left (fun a c => 10 * a + (c - 48)) s 0.
Definition val (s : str) : N := Z.to_N (zval s).

(* ---- identifiers ----------------------------------------------------------------- *)

(* prerelease identifier: non-empty over [0-9A-Za-z-]; when all digits, a numeral *)
Definition pre_ident (s : str) : bool :=
  negb (is_nil s) && forallb ident_char s && (negb (all_digits s) || numeral s).

(* build identifier: non-empty over [0-9A-Za-z-] *)
Definition build_ident (s : str) : bool :=
  negb (is_nil s) && forallb ident_char s.

(* ---- versions -------------------------------------------------------------------- *)

Inductive form := Full | ShortMinor | ShortMajor.

Record vdata := mkV {
  v_major : str; v_minor : str; v_patch : str;
  v_form : form;
  v_pre : list str;       (* prerelease identifiers, [] = no prerelease *)
  v_build : list str }.   (* build identifiers, [] = no build metadata *)

(* vMAJOR stands for vMAJOR.0.0 and vMAJOR.MINOR for vMAJOR.MINOR.0; the short forms
   carry neither prerelease nor build. *)
Definition wf (d : vdata) : bool :=
  numeral (v_major d) && numeral (v_minor d) && numeral (v_patch d)
  && forallb pre_ident (v_pre d) && forallb build_ident (v_build d)
  && match v_form d with
     | Full => true
     | ShortMinor => str_eqb (v_patch d) (B "0") && is_nil (v_pre d) && is_nil (v_build d)
     | ShortMajor => str_eqb (v_minor d) (B "0") && str_eqb (v_patch d) (B "0")
                     && is_nil (v_pre d) && is_nil (v_build d)
     end.

Record Version := mkVersion { vd :> vdata; vd_wf : wf vd = true }.

(* ---- rendering ------------------------------------------------------------------- *)

Fixpoint join (sep : Z) (l : list str) : str :=
  match l with
  | [] => []
  | x :: r => match r with [] => x | _ :: _ => x ++ sep :: join sep r end
  end.

Definition dot : Z := 46.

Definition render_pre (l : list str) : str :=
  match l with [] => [] | _ :: _ => B "-" ++ join dot l end.
Definition render_build (l : list str) : str :=
  match l with [] => [] | _ :: _ => B "+" ++ join dot l end.

Definition render (d : vdata) : str :=
  B "v" ++ v_major d ++
  match v_form d with
  | ShortMajor => []
  | ShortMinor => B "." ++ v_minor d
  | Full => B "." ++ v_minor d ++ B "." ++ v_patch d
            ++ render_pre (v_pre d) ++ render_build (v_build d)
  end.

(* the parts the accessors return *)
Definition render_major (d : vdata) : str := B "v" ++ v_major d.
Definition render_major_minor (d : vdata) : str := B "v" ++ v_major d ++ B "." ++ v_minor d.
Definition render_canonical (d : vdata) : str :=
  B "v" ++ v_major d ++ B "." ++ v_minor d ++ B "." ++ v_patch d ++ render_pre (v_pre d).

(* ---- precedence (SemVer 2.0.0 section 11) --------------------------------------- *)

(* 11.4.1-11.4.3: numeric identifiers are compared numerically and are lower than
   alphanumeric ones, which are compared in ASCII order *)
Definition prec_ident (x y : str) : comparison :=
  match all_digits x, all_digits y with
  | true, true => N.compare (val x) (val y)
  | true, false => Lt
  | false, true => Gt
  | false, false => str_cmp x y
  end.

(* 11.4: identifier by identifier from the left; 11.4.4: when all preceding identifiers
   are equal the longer list is higher *)
Fixpoint prec_idents (xs ys : list str) : comparison :=
  match xs, ys with
  | [], [] => Eq
  | [], _ :: _ => Lt
  | _ :: _, [] => Gt
  | x :: xs', y :: ys' =>
      match prec_ident x y with Eq => prec_idents xs' ys' | c => c end
  end.

(* 11.3: a version with a prerelease is lower than the same version without *)
Definition prec_pre (xs ys : list str) : comparison :=
  match xs, ys with
  | [], [] => Eq
  | [], _ :: _ => Gt
  | _ :: _, [] => Lt
  | _, _ => prec_idents xs ys
  end.

Definition then_cmp (c d : comparison) : comparison :=
  match c with Eq => d | _ => c end.

(* 11.2: major, minor, patch numerically; 11.1/10: build metadata is ignored *)
Definition prec (v w : vdata) : comparison :=
  then_cmp (N.compare (val (v_major v)) (val (v_major w)))
 (then_cmp (N.compare (val (v_minor v)) (val (v_minor w)))
 (then_cmp (N.compare (val (v_patch v)) (val (v_patch w)))
           (prec_pre (v_pre v) (v_pre w)))).
