(* CheckDir / CreateFromDir versus CheckFiles / Create on the list of all files (C17).
   Exported: sim, step_sim, pass2_sim, check_files_filter_agree, file_eqb_eq, files_eqb_eq,
   nodup_strs_spec, pre_class_eqb_eq, dir_vs_list_agree_partial. *)
From Verif.Base Require Import Bytes PathClean.
From Verif.Gen Require Import GenConsts.
From Verif.Module Require Import Path PathProofs.
From Verif.Zip Require Import Check Create ProofsPath ProofsColl ProofsClass ProofsZip ProofsRules ProofsCreate.


(* two runs of the second loop that agree on everything but the omitted files *)
Record sim (removed : list str) (a l : cstate) : Prop := {
  sm_valid : s_valid a = s_valid l;
  sm_invalid : s_invalid a = s_invalid l;
  sm_sizeerr : s_sizeerr a = s_sizeerr l;
  sm_maxsize : s_maxsize a = s_maxsize l;
  sm_coll : s_coll a = s_coll l;
  sm_fuel : s_fuel a = s_fuel l;
  sm_sub : forall p, In p (s_errpaths l) -> In p (s_errpaths a);
  sm_sup : forall p, In p (s_errpaths a) -> In p (s_errpaths l) \/ In p removed }.

Lemma sim_add_error removed a l p om e :
  sim removed a l -> ~ In p removed -> sim removed (add_error a p om e) (add_error l p om e).
Proof.
  intros [V I S M C F Sub Sup] Hnr.
  destruct (add_error_spec a p om e) as [[Ha Ea]|(Ha & Eea & Eva & Efa & Eca & Hca)];
  destruct (add_error_spec l p om e) as [[Hl El]|(Hl & Eel & Evl & Efl & Ecl & Hcl)].
  - rewrite Ea, El. split; assumption.
  - exfalso. destruct (Sup p Ha) as [H|H]; contradiction.
  - exfalso. apply Ha. apply Sub. exact Hl.
  - assert (Hs : s_sizeerr (add_error a p om e) = s_sizeerr a /\ s_maxsize (add_error a p om e) = s_maxsize a /\
                 s_sizeerr (add_error l p om e) = s_sizeerr l /\ s_maxsize (add_error l p om e) = s_maxsize l).
    { unfold add_error. destruct (existsb _ (s_errpaths a)), (existsb _ (s_errpaths l)); destruct om; repeat split. }
    destruct Hs as (S1 & M1 & S2 & M2).
    split; rewrite ?Eva, ?Evl, ?Efa, ?Efl, ?Eca, ?Ecl, ?S1, ?S2, ?M1, ?M2; auto.
    + destruct Hca as [(-> & _ & Hia)|(-> & _ & Hia)], Hcl as [(Hx & _ & Hil)|(Hx & _ & Hil)]; try discriminate;
        rewrite Hia, Hil, I; reflexivity.
    + rewrite Eea, Eel. intros q Hq. apply in_app_or in Hq. apply in_or_app. destruct Hq as [Hq|Hq]; [left; auto|now right].
    + rewrite Eea, Eel. intros q Hq. apply in_app_or in Hq. destruct Hq as [Hq|Hq].
      * destruct (Sup q Hq) as [H|H]; [left; apply in_or_app; now left|now right].
      * left. apply in_or_app. now right.
Qed.

Lemma sim_add_removed removed a l p e :
  sim removed a l -> In p removed -> sim removed (add_error a p true e) l.
Proof.
  intros [V I S M C F Sub Sup] Hr.
  destruct (add_error_spec a p true e) as [[Ha Ea]|(Ha & Eea & Eva & Efa & Eca & Hca)].
  - rewrite Ea. split; assumption.
  - assert (Hs : s_sizeerr (add_error a p true e) = s_sizeerr a /\ s_maxsize (add_error a p true e) = s_maxsize a).
    { unfold add_error. destruct (existsb _ _); split; reflexivity. }
    destruct Hs as (S1 & M1).
    destruct Hca as [(_ & _ & Hia)|(Hx & _)]; [|discriminate].
    split; rewrite ?Eva, ?Efa, ?Eca, ?S1, ?M1, ?Hia; auto.
    + rewrite Eea. intros q Hq. apply in_or_app. left. auto.
    + rewrite Eea. intros q Hq. apply in_app_or in Hq. destruct Hq as [Hq|[<-|[]]]; [apply Sup; exact Hq|now right].
Qed.

Lemma sim_core removed a l a' l' :
  sim removed a l ->
  s_errpaths a' = s_errpaths a -> s_errpaths l' = s_errpaths l ->
  s_valid a' = s_valid l' -> s_invalid a' = s_invalid l' -> s_sizeerr a' = s_sizeerr l' ->
  s_maxsize a' = s_maxsize l' -> s_coll a' = s_coll l' -> s_fuel a' = s_fuel l' ->
  sim removed a' l'.
Proof.
  intros [V I S M C F Sub Sup] Ea El. intros. split; auto; rewrite Ea, El; assumption.
Qed.

(* the same file processed in both runs, with the same path-only decisions *)
Lemma step_sim removed ge ha hl a l f :
  sim removed a l -> ~ In (f_path f) removed ->
  pre_class ge ha (f_path f) = pre_class ge hl (f_path f) ->
  sim removed (step ge ha a f) (step ge hl l f).
Proof.
  intros Sm Hnr Hpre. unfold step. rewrite <- Hpre.
  destruct (pre_class ge ha (f_path f)) as [[om e]|]; [apply sim_add_error; assumption|].
  destruct (f_lstat_ok f); cbn [negb]; [|apply sim_add_error; assumption].
  rewrite <- (sm_coll _ _ _ Sm).
  destruct (cc_check _ (s_coll a) _ _) as [cc' r].
  assert (Sm1 : sim removed (set_coll a cc') (set_coll l cc')).
  { eapply sim_core; [exact Sm|reflexivity|reflexivity| | | | | |]; cbn; try apply Sm; reflexivity. }
  destruct r; [|apply sim_add_error; assumption|].
  2:{ eapply sim_core; [exact Sm1|reflexivity|reflexivity| | | | | |]; cbn; try apply Sm; reflexivity. }
  destruct (f_mode f); try (apply sim_add_error; assumption).
  assert (Sm2 : sim removed (account_size (set_coll a cc') (f_size f)) (account_size (set_coll l cc') (f_size f))).
  { unfold account_size. cbn [set_coll s_maxsize]. rewrite (sm_maxsize _ _ _ Sm).
    destruct (_ && _); (eapply sim_core; [exact Sm1|reflexivity|reflexivity| | | | | |]); cbn; try apply Sm; reflexivity. }
  destruct (_ && _); [apply sim_add_error; assumption|].
  destruct (_ && _); [apply sim_add_error; assumption|].
  eapply sim_core; [exact Sm2|reflexivity|reflexivity| | | | | |]; cbn [add_valid s_valid s_invalid s_sizeerr s_maxsize s_coll s_fuel];
    try apply Sm2. rewrite (sm_valid _ _ _ Sm2). reflexivity.
Qed.

(* the second loop on a list and on the list without files that the loop omits before the
   collision check *)
Lemma pass2_sim removed ge ha hl keep : forall fa a l,
  sim removed a l ->
  (forall f, In f fa -> keep f = false ->
     In (f_path f) removed /\ exists e, pre_class ge ha (f_path f) = Some (true, e)) ->
  (forall f, In f fa -> keep f = true ->
     ~ In (f_path f) removed /\ pre_class ge ha (f_path f) = pre_class ge hl (f_path f)) ->
  sim removed (pass2 ge ha fa a) (pass2 ge hl (filter keep fa) l).
Proof.
  induction fa as [|f fa IH]; intros a l Sm Hrem Hkeep; [exact Sm|].
  cbn [pass2 fold_left filter]. destruct (keep f) eqn:Hk.
  - cbn [fold_left]. apply IH.
    + destruct (Hkeep f (or_introl eq_refl) Hk) as [Hnr Hp]. apply step_sim; assumption.
    + intros g Hg. apply Hrem. now right.
    + intros g Hg. apply Hkeep. now right.
  - apply IH.
    + destruct (Hrem f (or_introl eq_refl) Hk) as [Hr [e Hp]]. unfold step. rewrite Hp.
      apply sim_add_removed; assumption.
    + intros g Hg. apply Hrem. now right.
    + intros g Hg. apply Hkeep. now right.
Qed.

Lemma pass1_noerr files : forall st,
  Forall (fun f => f_lstat_ok f = true) files -> pass1_errs files st = st.
Proof.
  induction files as [|f files IH]; intros st H; [reflexivity|].
  inversion H as [|? ? Hf Hr]; subst. unfold pass1_errs in *. cbn [fold_left].
  rewrite Hf. cbn [negb]. rewrite andb_false_r. apply IH. exact Hr.
Qed.

Lemma sim_refl removed st : sim removed st st.
Proof. split; auto. Qed.

(* CheckFiles on a list and on a sub-list obtained by dropping files that are omitted before
   the collision check (vendored, inside a nested module) report the same valid and invalid
   files and the same size error, provided the dropped files do not change the path-only
   decisions for the others *)
Theorem check_files_filter_agree ge fa keep :
  Forall (fun f => f_lstat_ok f = true) fa ->
  let fl := filter keep fa in
  let removed := map f_path (filter (fun f => negb (keep f)) fa) in
  (forall f, In f fa -> keep f = false ->
     exists e, pre_class ge (have_gomod fa) (f_path f) = Some (true, e)) ->
  (forall f, In f fa -> keep f = true ->
     ~ In (f_path f) removed /\
     pre_class ge (have_gomod fa) (f_path f) = pre_class ge (have_gomod fl) (f_path f)) ->
  s_valid (check_files_state ge fa) = s_valid (check_files_state ge fl) /\
  c_valid (check_files_with ge fa) = c_valid (check_files_with ge fl) /\
  c_invalid (check_files_with ge fa) = c_invalid (check_files_with ge fl) /\
  c_sizeerr (check_files_with ge fa) = c_sizeerr (check_files_with ge fl) /\
  c_fuel (check_files_with ge fa) = c_fuel (check_files_with ge fl).
Proof.
  intros Hl fl removed Hrem Hkeep.
  assert (Hll : Forall (fun f => f_lstat_ok f = true) fl).
  { apply Forall_forall. intros f Hf. unfold fl in Hf. apply filter_In in Hf. rewrite Forall_forall in Hl. apply Hl, Hf. }
  unfold check_files_with, checked_of, check_files_state. rewrite !pass1_noerr by assumption.
  pose proof (pass2_sim removed ge (have_gomod fa) (have_gomod fl) keep fa cstate0 cstate0 (sim_refl _ _)) as Sm.
  destruct Sm as [V I S M C F _ _].
  - intros f Hf Hk. split; [|apply Hrem; assumption].
    unfold removed. apply in_map. apply filter_In. split; [exact Hf|]. now rewrite Hk.
  - intros f Hf Hk. apply Hkeep; assumption.
  - fold fl in V, I, S, M, C, F. cbn [c_valid c_invalid c_sizeerr c_fuel]. rewrite V, I, S, F. auto.
Qed.

Lemma bool_eqb_eq a b : Bool.eqb a b = true -> a = b.
Proof. destruct a, b; cbn; congruence. Qed.

Lemma fmode_code_inj a b : fmode_code a = fmode_code b -> a = b.
Proof. destruct a, b; cbn; congruence. Qed.

Lemma file_eqb_eq a b : file_eqb a b = true -> a = b.
Proof.
  unfold file_eqb. intros H.
  apply andb_true_iff in H. destruct H as [H H7]. apply andb_true_iff in H. destruct H as [H H6].
  apply andb_true_iff in H. destruct H as [H H5]. apply andb_true_iff in H. destruct H as [H H4].
  apply andb_true_iff in H. destruct H as [H H3]. apply andb_true_iff in H. destruct H as [H1 H2].
  destruct a, b; cbn in *.
  apply str_eqb_eq in H1. apply bool_eqb_eq in H2. apply Z.eqb_eq in H3. apply fmode_code_inj in H3.
  apply Z.eqb_eq in H4. apply bool_eqb_eq in H5. apply str_eqb_eq in H6. apply bool_eqb_eq in H7.
  subst. reflexivity.
Qed.

Lemma files_eqb_eq : forall a b, files_eqb a b = true -> a = b.
Proof.
  induction a as [|x a IH]; intros [|y b] H; cbn in H; try discriminate; [reflexivity|].
  apply andb_true_iff in H. destruct H as [H1 H2]. apply file_eqb_eq in H1. apply IH in H2. congruence.
Qed.

Lemma nodup_strs_spec l : nodup_strs l = true -> NoDup l.
Proof.
  induction l as [|x l IH]; intros H; [constructor|]. cbn in H. apply andb_true_iff in H. destruct H as [H1 H2].
  constructor; [|apply IH; exact H2]. intros Hin. apply existsb_str_eqb_In in Hin. rewrite Hin in H1. discriminate.
Qed.

Lemma ferr_code_inj a b : ferr_code a = ferr_code b -> a = b.
Proof. destruct a, b; cbn; intros H; try reflexivity; discriminate H. Qed.

Lemma pre_class_eqb_eq a b : pre_class_eqb a b = true -> a = b.
Proof.
  destruct a as [[x e]|], b as [[y e']|]; cbn; try discriminate; [|reflexivity].
  intros H. apply andb_true_iff in H. destruct H as [H1 H2]. apply bool_eqb_eq in H1. apply Z.eqb_eq in H2.
  apply ferr_code_inj in H2. congruence.
Qed.

Lemma mem_path_In l f : mem_path l f = true <-> In (f_path f) (map f_path l).
Proof.
  unfold mem_path. rewrite existsb_exists, in_map_iff. split.
  - intros (g & Hg & E). apply str_eqb_eq in E. eauto.
  - intros (g & E & Hg). exists g. split; [exact Hg|]. rewrite E. apply str_eqb_refl.
Qed.

(* For a directory tree satisfying the (decidable) side condition, the list check on the pruned
   listing of listFilesInDir and on the plain list of all its regular files report the same
   valid files in the same order, the same invalid files and the same size error, and Create
   gives the same result on both lists. *)
Theorem dir_vs_list_agree_partial ch :
  dir_list_condition ch = true ->
  let fl := fst (list_files_in_dir ch) in
  let fa := all_regular_files ch in
  c_valid (check_files fl) = c_valid (check_files fa) /\
  c_invalid (check_files fl) = c_invalid (check_files fa) /\
  c_sizeerr (check_files fl) = c_sizeerr (check_files fa) /\
  valid_files fl = valid_files fa /\
  (forall mp mv, create mp mv fl = create mp mv fa).
Proof.
  unfold dir_list_condition. intros H. cbn zeta.
  set (fa := all_regular_files ch) in *. set (fl := fst (list_files_in_dir ch)) in *.
  apply andb_true_iff in H. destruct H as [H Hcls]. apply andb_true_iff in H. destruct H as [H Hgover].
  apply andb_true_iff in H. destruct H as [H Hlstat]. apply andb_true_iff in H. destruct H as [Hfilter Hnd].
  apply files_eqb_eq in Hfilter. apply nodup_strs_spec in Hnd. apply bool_eqb_eq in Hgover.
  set (ge := root_gover fa) in *. set (keep := mem_path fl) in *.
  assert (Hl : Forall (fun f => f_lstat_ok f = true) fa) by (apply Forall_forall; rewrite forallb_forall in Hlstat; exact Hlstat).
  rewrite forallb_forall in Hcls.
  assert (Hrem : forall f, In f fa -> keep f = false -> exists e, pre_class ge (have_gomod fa) (f_path f) = Some (true, e)).
  { intros f Hf Hk. specialize (Hcls f Hf). fold keep in Hcls. rewrite Hk in Hcls.
    destruct (pre_class ge (have_gomod fa) (f_path f)) as [[[|] e]|]; try discriminate. eauto. }
  assert (Hkeep : forall f, In f fa -> keep f = true ->
            ~ In (f_path f) (map f_path (filter (fun f => negb (keep f)) fa)) /\
            pre_class ge (have_gomod fa) (f_path f) = pre_class ge (have_gomod (filter keep fa)) (f_path f)).
  { intros f Hf Hk. split.
    - intros Hin. apply in_map_iff in Hin. destruct Hin as (g & Ep & Hg). apply filter_In in Hg. destruct Hg as [Hg Hkg].
      assert (g = f) by (eapply NoDup_paths_unique; eauto). subst g. rewrite Hk in Hkg. discriminate.
    - specialize (Hcls f Hf). fold keep in Hcls. rewrite Hk in Hcls. apply pre_class_eqb_eq in Hcls.
      rewrite Hfilter. exact Hcls. }
  destruct (check_files_filter_agree ge fa keep Hl Hrem Hkeep) as (Hsv & Hv & Hi & Hs & Hf).
  rewrite Hfilter in Hsv, Hv, Hi, Hs, Hf.
  assert (Hcf : check_files fl = check_files_with ge fl) by (unfold check_files; rewrite Hgover; reflexivity).
  assert (Hca : check_files fa = check_files_with ge fa) by reflexivity.
  assert (Hvf : valid_files fl = valid_files fa).
  { unfold valid_files. rewrite Hgover. fold ge. symmetry. exact Hsv. }
  rewrite Hcf, Hca. repeat split; auto.
  intros mp mv. unfold create. rewrite Hcf, Hca, Hvf, <- Hf.
  unfold cf_err. rewrite <- Hs, <- Hi. reflexivity.
Qed.
