(* Executable model of zip.Unzip (zip/zip.go) on the abstract file system of Zip/Fs.v.
   Definitions only.

   unzip returns the outcome and the list of file-system events in the order they happen;
   the resulting file system is [apply_events fs0 events].  The declared-size check: reading
   an entry fails when the number of bytes differs from UncompressedSize64 (archive/zip
   reports a format error or an unexpected EOF, Unzip's LimitedReader the rest); the file
   has been created by then and holds an unspecified prefix of the data, which the model
   records as an EvCreate without an EvWrite.

   Exported: uerr (UE_xxx), uz_result (UzOk | UzErr), extract_entries, unzip, unzip_fs *)
From Verif.Base Require Import Bytes PathClean.
From Verif.Zip Require Import Check Fs.

Inductive uerr :=
  | UE_NotEmpty            (* target directory exists and is not empty *)
  | UE_Check (e : zerr)    (* checkZip / cf.Err() *)
  | UE_Mkdir               (* os.MkdirAll failed *)
  | UE_Exists              (* os.OpenFile(O_EXCL) failed *)
  | UE_Size                (* content differs from the declared size *)
  | UE_Fuel.

Inductive uz_result := UzOk | UzErr (k : uerr).

(* the extraction loop; s is the current file system, acc the events so far *)
Fixpoint extract_entries (dir prefix : str) (entries : list entry) (s : fs) (acc : list event)
  : uz_result * list event :=
  match entries with
  | [] => (UzOk, acc)
  | e :: r =>
      let name := skipn (length prefix) (e_name e) in
      if is_nil_s name || has_suffix name [47] then extract_entries dir prefix r s acc
      else
        let dst := filepath_join dir name in
        match mkdir_all (length dst) s (filepath_dir dst) with
        | MkFuel => (UzErr UE_Fuel, acc)
        | MkErr => (UzErr UE_Mkdir, acc)
        | MkOk evs =>
            let s1 := apply_events s evs in
            let acc1 := acc ++ evs in
            if negb (create_excl_ok s1 dst) then (UzErr UE_Exists, acc1)
            else if negb (len (e_content e) =? e_usize e) then (UzErr UE_Size, acc1 ++ [EvCreate dst])
            else
              let evs2 := [EvCreate dst; EvWrite dst (e_content e)] in
              extract_entries dir prefix r (apply_events s1 evs2) (acc1 ++ evs2)
        end
  end.

(* zip.Unzip(dir, m, zipFile) started in file system s; zipsize = size of the archive file *)
Definition unzip (s : fs) (dir mp mv : str) (zipsize : Z) (entries : list entry)
  : uz_result * list event :=
  if fs_has_children s dir then (UzErr UE_NotEmpty, [])
  else
    match check_zip mp mv zipsize entries with
    | (cf, Some e) => (UzErr (UE_Check e), [])
    | (cf, None) =>
        if c_fuel cf then (UzErr UE_Fuel, [])
        else
          match mkdir_all (length dir) s dir with
          | MkFuel => (UzErr UE_Fuel, [])
          | MkErr => (UzErr UE_Mkdir, [])
          | MkOk evs => extract_entries dir (zip_prefix mp mv) entries (apply_events s evs) evs
          end
    end.

Definition unzip_fs (s : fs) (dir mp mv : str) (zipsize : Z) (entries : list entry) : fs :=
  apply_events s (snd (unzip s dir mp mv zipsize entries)).
