(* zip.Create (Zip/Create.v).  Exported: honest, add_files_ok, add_files_shape,
   create_ok_shape, create_ok_iff_checkfiles_ok, create_ok_only_if. *)
From Verif.Base Require Import Bytes PathClean.
From Verif.Gen Require Import GenConsts.
From Verif.Module Require Import Path PathProofs.
From Verif.Zip Require Import Check Create ProofsPath ProofsColl ProofsClass.

Definition honest (f : file) : Prop := f_open_ok f = true /\ len (f_content f) = f_size f.

Lemma add_files_ok prefix fs :
  Forall honest fs ->
  add_files prefix fs =
  CrOk (map (fun f => mkEntry (prefix ++ f_path f) (len (f_content f)) (f_content f) 0) fs).
Proof.
  induction fs as [|f fs IH]; intros H; [reflexivity|].
  inversion H as [|? ? [Ho Hs] Hr]; subst. cbn [add_files map].
  rewrite Ho. cbn [negb]. rewrite Hs, Z.ltb_irrefl. rewrite IH by exact Hr. reflexivity.
Qed.

Lemma add_files_shape prefix fs z :
  add_files prefix fs = CrOk z ->
  z = map (fun f => mkEntry (prefix ++ f_path f) (len (f_content f)) (f_content f) 0) fs /\
  Forall (fun f => f_open_ok f = true /\ len (f_content f) <= f_size f) fs.
Proof.
  revert z. induction fs as [|f fs IH]; intros z H.
  - cbn in H. injection H as <-. split; [reflexivity|constructor].
  - cbn [add_files] in H. destruct (f_open_ok f) eqn:Ho; cbn [negb] in H; [|discriminate].
    destruct (f_size f <? len (f_content f)) eqn:Hs; [discriminate|]. apply Z.ltb_ge in Hs.
    destruct (add_files prefix fs) as [z'|] eqn:E; [|discriminate]. injection H as <-.
    destruct (IH z' eq_refl) as [-> Hf]. split; [reflexivity|]. constructor; [split; assumption|exact Hf].
Qed.

(* what a successful Create has established *)
Theorem create_ok_shape mp mv files z :
  create mp mv files = CrOk z ->
  check_module mp mv = None /\ cf_err (check_files files) = None /\
  z = map (fun f => mkEntry (zip_prefix mp mv ++ f_path f) (len (f_content f)) (f_content f) 0) (valid_files files) /\
  Forall (fun f => f_open_ok f = true /\ len (f_content f) <= f_size f) (valid_files files).
Proof.
  unfold create. destruct (check_module mp mv); [discriminate|].
  destruct (c_fuel (check_files files)); [discriminate|].
  destruct (cf_err (check_files files)); [discriminate|].
  intros H. apply add_files_shape in H. destruct H as [-> H]. auto.
Qed.

(* Given a valid module path with a matching canonical version and valid files whose content
   can be opened and has the size they report, Create succeeds exactly when the file check
   reports no error. *)
Theorem create_ok_iff_checkfiles_ok mp mv files :
  check_module mp mv = None ->
  Forall honest (valid_files files) ->
  ((exists z, create mp mv files = CrOk z) <-> cf_err (check_files files) = None).
Proof.
  intros Hm Hh. split.
  - intros [z H]. apply create_ok_shape in H. apply H.
  - intros He. unfold create. rewrite Hm.
    unfold check_files at 1. rewrite check_files_no_fuel. rewrite He.
    rewrite add_files_ok by exact Hh. eexists. reflexivity.
Qed.

(* without the assumptions: Create never succeeds when the file check reports an error or the
   module path/version is rejected *)
Theorem create_ok_only_if mp mv files z :
  create mp mv files = CrOk z -> check_module mp mv = None /\ cf_err (check_files files) = None.
Proof. intros H. apply create_ok_shape in H. split; apply H. Qed.
