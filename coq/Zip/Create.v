(* Executable model of zip.Create and zip.CreateFromDir (zip/zip.go).  Definitions only.

   The archive written is the list of [entry]s; what archive/zip does with them (compression,
   headers, the central directory) is outside the model.  zip.Writer.Create fails only for
   names longer than 65535 bytes, which is assumed away (checks/C05.json "assumptions").

   Exported: cerr (CE_xxx), create_result (CrOk | CrErr), add_files, create,
   create_from_dir *)
From Verif.Base Require Import Bytes PathClean.
From Verif.Zip Require Import Check.

Inductive cerr :=
  | CE_NonCanonical | CE_BadModule | CE_Size | CE_Invalid   (* before anything is written *)
  | CE_Open                                                 (* f.Open() failed *)
  | CE_Larger                                               (* "file is larger than declared size" *)
  | CE_Fuel.

Inductive create_result := CrOk (z : list entry) | CrErr (k : cerr).

Definition cerr_of_zerr (e : zerr) : cerr :=
  match e with
  | ZE_NonCanonical => CE_NonCanonical
  | ZE_BadModule => CE_BadModule
  | ZE_Size => CE_Size
  | ZE_Invalid => CE_Invalid
  end.

(* the loop over validFiles with addFile: Open, then copy through a LimitedReader of
   size+1 bytes; lr.N <= 0 exactly when more than size bytes could be read.  The entry gets
   the bytes actually copied, and archive/zip records their number as the declared size. *)
Fixpoint add_files (prefix : str) (fs : list file) : create_result :=
  match fs with
  | [] => CrOk []
  | f :: r =>
      if negb (f_open_ok f) then CrErr CE_Open
      else if f_size f <? len (f_content f) then CrErr CE_Larger
      else match add_files prefix r with
           | CrOk z => CrOk (mkEntry (prefix ++ f_path f) (len (f_content f)) (f_content f) 0 :: z)
           | CrErr k => CrErr k
           end
  end.

(* zip.Create *)
Definition create (mp mv : str) (files : list file) : create_result :=
  match check_module mp mv with
  | Some e => CrErr (cerr_of_zerr e)
  | None =>
      let cf := check_files files in
      if c_fuel cf then CrErr CE_Fuel
      else match cf_err cf with
           | Some e => CrErr (cerr_of_zerr e)
           | None => add_files (zip_prefix mp mv) (valid_files files)
           end
  end.

(* zip.CreateFromDir on the directory with entries ch *)
Definition create_from_dir (mp mv : str) (ch : list (str * tnode)) : create_result :=
  create mp mv (fst (list_files_in_dir ch)).
