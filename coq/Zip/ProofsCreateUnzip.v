(* zip.Create followed by zip.Unzip.  Exported: entry_rest_mk, create_then_unzip_tree. *)
From Verif.Base Require Import Bytes PathClean.
From Verif.Gen Require Import GenConsts.
From Verif.Module Require Import Path PathProofs.
From Verif.Zip Require Import Check Create Fs Unzip ProofsPath ProofsColl ProofsZip ProofsUnzip ProofsCreate ProofsCreateZip ProofsUnzipTree.

Lemma entry_rest_mk prefix f : entry_rest prefix (mk_entry prefix f) = f_path f.
Proof. unfold entry_rest, mk_entry. cbn [e_name]. apply skipn_app_len. Qed.

(* Whenever Create succeeds, extracting the archive into an absent or empty directory succeeds,
   and the files below the directory are exactly the valid files of the file check with their
   contents *)
Theorem create_then_unzip_tree mp mv files z s dir zs :
  create mp mv files = CrOk z -> zs <= zip_MaxZipFile ->
  clean_abs_dir dir ->
  (forall q, under dir q -> fs_lookup s q = None) ->
  fs_has_children s dir = false ->
  (exists evs0, mkdir_all (length dir) s dir = MkOk evs0) ->
  exists evs, unzip s dir mp mv zs z = (UzOk, evs) /\
    let s' := apply_events s evs in
    (forall f, In f (valid_files files) ->
       fs_lookup s' (dir ++ 47 :: f_path f) = Some (FFile (f_content f))) /\
    (forall q c, under dir q -> fs_lookup s' q = Some (FFile c) ->
       exists f, In f (valid_files files) /\ q = dir ++ 47 :: f_path f /\ c = f_content f).
Proof.
  intros Hc Hzs Hdir Hempty Hch Hm.
  pose proof (create_then_checkzip_ok mp mv files z zs Hc Hzs) as Hz.
  destruct (created_zip_restrictions mp mv files z Hc) as (_ & _ & _ & _ & _ & _ & Hfe).
  destruct (create_ok_shape _ _ _ _ Hc) as (_ & _ & Hshape & _).
  fold (mk_entry (zip_prefix mp mv)) in Hshape.
  assert (Hsz : Forall (fun e => len (e_content e) = e_usize e) (file_entries (zip_prefix mp mv) z)).
  { rewrite Hfe, Hshape. apply Forall_forall. intros e He. apply in_map_iff in He. destruct He as (f & <- & _). reflexivity. }
  destruct (proj2 (unzip_ok_iff s dir mp mv zs z Hdir Hempty Hch Hm)) as (evs & Hu); [split; [eauto|exact Hsz]|].
  exists evs. split; [exact Hu|]. cbn zeta.
  destruct (unzip_tree_is_entries s dir mp mv zs z evs Hdir Hempty Hch Hm Hu) as (_ & Hfiles & Hsound & _).
  rewrite Hfe in Hfiles, Hsound. split.
  - intros f Hf. specialize (Hfiles (mk_entry (zip_prefix mp mv) f)).
    rewrite entry_rest_mk in Hfiles. apply Hfiles. rewrite Hshape. now apply in_map.
  - intros q c Hq L. destruct (Hsound q c Hq L) as (e & He & -> & ->).
    rewrite Hshape in He. apply in_map_iff in He. destruct He as (f & <- & Hf).
    exists f. split; [exact Hf|]. rewrite entry_rest_mk. split; reflexivity.
Qed.
