(* zip.Create followed by zip.CheckZip: the valid files of checkFiles are collision-free,
   well-formed and within the size limits, so the created archive passes checkZip and obeys
   every documented restriction.  Exported: sublist (+ lemmas), cc_chain_any, vitems,
   total_fsize, valid_file_ok, vinv, step_vinv, check_files_state_vinv, equal_fold_gomod,
   path_split_join_snoc, path_base_join_snoc, valid_gomod_root, mk_entry, valid_path_shape,
   zstep_valid_entry, zfold_valid, create_then_checkzip_ok, created_zip_restrictions. *)
From Verif.Base Require Import Bytes Utf8 PathClean.
From Verif.Gen Require Import GenConsts GenUnicode.
From Verif.Module Require Import Path PathProofs PathProofsFold.
From Verif.Zip Require Import Check Create ProofsPath ProofsColl ProofsClass ProofsZip ProofsCreate.


(* order-preserving sublists *)
Inductive sublist {A : Type} : list A -> list A -> Prop :=
  | sl_nil l : sublist [] l
  | sl_keep x a b : sublist a b -> sublist (x :: a) (x :: b)
  | sl_skip x a b : sublist a b -> sublist a (x :: b).

Lemma sublist_refl {A} (l : list A) : sublist l l.
Proof. induction l; constructor; auto. Qed.

Lemma sublist_app_r {A} (a b c : list A) : sublist a b -> sublist a (b ++ c).
Proof. induction 1; cbn; constructor; auto. Qed.

Lemma sublist_app {A} (a b c d : list A) : sublist a b -> sublist c d -> sublist (a ++ c) (b ++ d).
Proof.
  induction 1 as [l|x a b Hab IH|x a b Hab IH]; intros Hcd; cbn.
  - induction l; cbn; [exact Hcd|constructor; assumption].
  - constructor; auto.
  - constructor; auto.
Qed.

Lemma sublist_in {A} (a b : list A) x : sublist a b -> In x a -> In x b.
Proof.
  induction 1 as [l|y a b Hab IH|y a b Hab IH]; intros Hin; [contradiction| |right; auto].
  destruct Hin; [now left|right; auto].
Qed.

Lemma Forall_sublist {A} (P : A -> Prop) a b : sublist a b -> Forall P b -> Forall P a.
Proof.
  induction 1 as [l|y a b Hab IH|y a b Hab IH]; intros Hb; [constructor| |].
  - inversion Hb; subst. constructor; auto.
  - inversion Hb; subst. auto.
Qed.

Lemma FOP_sublist {A} (R : A -> A -> Prop) a b : sublist a b -> ForallOrdPairs R b -> ForallOrdPairs R a.
Proof.
  induction 1 as [l|y a b Hab IH|y a b Hab IH]; intros Hb; [constructor| |].
  - inversion Hb; subst. constructor; [eapply Forall_sublist; eauto|auto].
  - inversion Hb; subst. auto.
Qed.

(* whatever the outcome of the loop, the map still represents a collision-free list: the
   registered paths plus the part of the chain handled before the error *)
Theorem cc_chain_any : forall new cc items,
  repr cc items -> coll_free items ->
  exists k, repr (fst (cc_chain cc new)) (items ++ firstn k new) /\
            coll_free (items ++ firstn k new) /\
            (snd (cc_chain cc new) = CCOk -> firstn k new = new).
Proof.
  induction new as [|[p d] rest IH]; intros cc items R F.
  - exists O. cbn. rewrite app_nil_r. auto.
  - cbn [cc_chain].
    destruct (cc_lookup (str_to_fold p) cc) as [[op od]|] eqn:L.
    + destruct (str_eqb_spec p op) as [->|]; cbn [negb].
      2:{ exists O. cbn [firstn fst snd]. rewrite app_nil_r. split; [exact R|split; [exact F|intros Hx; discriminate Hx]]. }
      destruct (Bool.eqb d od) eqn:Ed; cbn [negb].
      2:{ exists O. cbn [firstn fst snd]. rewrite app_nil_r. split; [exact R|split; [exact F|intros Hx; discriminate Hx]]. }
      apply eqb_true_eq in Ed. subst od.
      destruct d; cbn [negb].
      2:{ exists O. cbn [firstn fst snd]. rewrite app_nil_r. split; [exact R|split; [exact F|intros Hx; discriminate Hx]]. }
      destruct R as [R1 R2]. destruct (R2 _ _ L) as [Hin _].
      destruct (IH cc (items ++ [(op, true)])) as (k & Hr & Hf & Hk).
      * apply repr_again; [split; assumption|exact Hin].
      * apply FOP_snoc. split; [exact F|].
        apply Forall_forall. intros y Hy E. cbn [fst snd] in *.
        pose proof (R1 y Hy) as Ly. rewrite E, L in Ly. injection Ly as <-. auto.
      * exists (S k). cbn [firstn]. rewrite app_cons_assoc.
        split; [exact Hr|split; [exact Hf|]]. intros H. rewrite Hk by exact H. reflexivity.
    + destruct (IH ((str_to_fold p, (p, d)) :: cc) (items ++ [(p, d)])) as (k & Hr & Hf & Hk).
      * apply repr_insert; assumption.
      * apply FOP_snoc. split; [exact F|].
        apply Forall_forall. intros y Hy E. cbn [fst] in E.
        destruct R as [R1 _]. pose proof (R1 y Hy) as Ly. rewrite E, L in Ly. discriminate.
      * exists (S k). cbn [firstn]. rewrite app_cons_assoc.
        split; [exact Hr|split; [exact Hf|]]. intros H. rewrite Hk by exact H. reflexivity.
Qed.

(* what collisionChecker registers for the valid files: each path as a file, and its ancestors *)
Definition vitems (vs : list file) : list item := flat_map (fun f => items_of (f_path f) false) vs.

Definition total_fsize (vs : list file) : Z := fold_right (fun f a => f_size f + a) 0 vs.

Definition valid_file_ok (files : list file) (ge : bool) (f : file) : Prop :=
  In f files /\ f_lstat_ok f = true /\ f_mode f = MRegular /\
  pre_class ge (have_gomod files) (f_path f) = None /\
  (f_path f = go_mod -> f_size f <= zip_MaxGoMod) /\
  (f_path f = lic -> f_size f <= zip_MaxLICENSE).

Record vinv (files : list file) (ge : bool) (st : cstate) : Prop := {
  vi_coll : exists items, repr (s_coll st) items /\ coll_free items /\ sublist (vitems (s_valid st)) items;
  vi_valid : Forall (valid_file_ok files ge) (s_valid st);
  vi_size : s_sizeerr st = false ->
            0 <= s_maxsize st <= zip_MaxZipFile - total_fsize (s_valid st) /\
            Forall (fun f => 0 <= f_size f) (s_valid st) }.

Lemma vinv_add_error files ge st p om e : vinv files ge st -> vinv files ge (add_error st p om e).
Proof.
  intros [C V S].
  destruct (add_error_spec st p om e) as [[_ ->]|(_ & _ & Hv & _ & Hc & _)]; [split; assumption|].
  assert (Hs : s_sizeerr (add_error st p om e) = s_sizeerr st /\ s_maxsize (add_error st p om e) = s_maxsize st).
  { unfold add_error. destruct (existsb _ _); [split; reflexivity|]. destruct om; split; reflexivity. }
  destruct Hs as [Hs1 Hs2].
  split; rewrite ?Hv, ?Hc, ?Hs1, ?Hs2; assumption.
Qed.

Lemma total_fsize_snoc l f : total_fsize (l ++ [f]) = total_fsize l + f_size f.
Proof. unfold total_fsize. induction l as [|x l IH]; cbn [app fold_right] in *; lia. Qed.

Lemma vitems_snoc l f : vitems (l ++ [f]) = vitems l ++ items_of (f_path f) false.
Proof. unfold vitems. rewrite flat_map_app. cbn. now rewrite app_nil_r. Qed.

Lemma step_vinv files ge st f :
  vinv files ge st -> In f files -> vinv files ge (step ge (have_gomod files) st f).
Proof.
  intros I Hin. unfold step.
  destruct (pre_class ge (have_gomod files) (f_path f)) as [[om e]|] eqn:Ep; [apply vinv_add_error; exact I|].
  destruct (f_lstat_ok f) eqn:Hl; cbn [negb]; [|apply vinv_add_error; exact I].
  destruct (pre_class_none _ _ _ Ep) as (_ & _ & _ & _ & _ & Hcf & _).
  rewrite (cc_check_items (s_coll st) (f_path f) (is_dir_mode (f_mode f)) Hcf).
  destruct I as [(items & R & F & Sub) V S].
  destruct (cc_chain_any (items_of (f_path f) (is_dir_mode (f_mode f))) (s_coll st) items R F) as (k & R' & F' & Hk).
  destruct (cc_chain (s_coll st) (items_of (f_path f) (is_dir_mode (f_mode f)))) as [cc' r] eqn:Ecc.
  cbn [fst snd] in *.
  assert (I1 : vinv files ge (set_coll st cc')).
  { split; cbn [set_coll s_coll s_valid s_sizeerr s_maxsize]; auto.
    eexists. split; [exact R'|split; [exact F'|apply sublist_app_r; exact Sub]]. }
  destruct r as [|err|]; [|apply vinv_add_error; exact I1|].
  2:{ destruct I1 as [C1 V1 S1]. split; assumption. }
  destruct (f_mode f) eqn:Hm; try (apply vinv_add_error; exact I1).
  (* regular file *)
  specialize (Hk eq_refl). rewrite Hk in R', F'. cbn [is_dir_mode] in *.
  set (st1 := account_size (set_coll st cc') (f_size f)).
  assert (Hst1 : s_coll st1 = cc' /\ s_valid st1 = s_valid st).
  { unfold st1, account_size. destruct (_ && _); split; reflexivity. }
  destruct Hst1 as [Hc1 Hv1].
  assert (I2 : vinv files ge st1).
  { split; rewrite ?Hc1, ?Hv1.
    - eexists. split; [exact R'|split; [exact F'|apply sublist_app_r; exact Sub]].
    - exact V.
    - unfold st1, account_size. cbn [set_coll s_maxsize s_sizeerr].
      destruct ((0 <=? f_size f) && (f_size f <=? s_maxsize st)) eqn:Hfit; cbn [s_sizeerr s_maxsize s_valid]; [|discriminate].
      intros Hs. apply andb_true_iff in Hfit. destruct Hfit as [H0 H1]. apply Z.leb_le in H0, H1.
      destruct (S Hs) as [Hb Hf]. split; [lia|exact Hf]. }
  destruct (str_eqb_spec (f_path f) go_mod) as [Hg|Hg]; cbn [andb].
  - destruct (zip_MaxGoMod <? f_size f) eqn:Hsz; [apply vinv_add_error; exact I2|].
    apply Z.ltb_ge in Hsz.
    assert (Hnl : str_eqb (f_path f) (B "LICENSE") = false) by (rewrite Hg; reflexivity).
    rewrite Hnl. cbn [andb].
    split; cbn [add_valid s_coll s_valid s_sizeerr s_maxsize].
    + rewrite Hc1, Hv1, vitems_snoc. eexists. split; [exact R'|split; [exact F'|]].
      apply sublist_app; [exact Sub|apply sublist_refl].
    + rewrite Hv1. apply Forall_app. split; [exact V|constructor; [|constructor]].
      repeat split; auto; try (intros Hx; rewrite Hg in Hx; discriminate Hx).
    + rewrite Hv1. unfold st1, account_size. cbn [set_coll s_maxsize s_sizeerr].
      destruct ((0 <=? f_size f) && (f_size f <=? s_maxsize st)) eqn:Hfit; cbn [s_sizeerr s_maxsize]; [|discriminate].
      intros Hs. apply andb_true_iff in Hfit. destruct Hfit as [H0 H1]. apply Z.leb_le in H0, H1.
      destruct (S Hs) as [Hb Hf]. rewrite total_fsize_snoc. split; [lia|].
      apply Forall_app. split; [exact Hf|constructor; [exact H0|constructor]].
  - destruct (str_eqb_spec (f_path f) (B "LICENSE")) as [Hlc|Hlc]; cbn [andb].
    + destruct (zip_MaxLICENSE <? f_size f) eqn:Hsz; [apply vinv_add_error; exact I2|].
      apply Z.ltb_ge in Hsz.
      split; cbn [add_valid s_coll s_valid s_sizeerr s_maxsize].
      * rewrite Hc1, Hv1, vitems_snoc. eexists. split; [exact R'|split; [exact F'|]].
        apply sublist_app; [exact Sub|apply sublist_refl].
      * rewrite Hv1. apply Forall_app. split; [exact V|constructor; [|constructor]].
        repeat split; auto; try (intros Hx; contradiction).
      * rewrite Hv1. unfold st1, account_size. cbn [set_coll s_maxsize s_sizeerr].
        destruct ((0 <=? f_size f) && (f_size f <=? s_maxsize st)) eqn:Hfit; cbn [s_sizeerr s_maxsize]; [|discriminate].
        intros Hs. apply andb_true_iff in Hfit. destruct Hfit as [H0 H1]. apply Z.leb_le in H0, H1.
        destruct (S Hs) as [Hb Hf]. rewrite total_fsize_snoc. split; [lia|].
        apply Forall_app. split; [exact Hf|constructor; [exact H0|constructor]].
    + split; cbn [add_valid s_coll s_valid s_sizeerr s_maxsize].
      * rewrite Hc1, Hv1, vitems_snoc. eexists. split; [exact R'|split; [exact F'|]].
        apply sublist_app; [exact Sub|apply sublist_refl].
      * rewrite Hv1. apply Forall_app. split; [exact V|constructor; [|constructor]].
        repeat split; auto; try (intros Hx; contradiction).
      * rewrite Hv1. unfold st1, account_size. cbn [set_coll s_maxsize s_sizeerr].
        destruct ((0 <=? f_size f) && (f_size f <=? s_maxsize st)) eqn:Hfit; cbn [s_sizeerr s_maxsize]; [|discriminate].
        intros Hs. apply andb_true_iff in Hfit. destruct Hfit as [H0 H1]. apply Z.leb_le in H0, H1.
        destruct (S Hs) as [Hb Hf]. rewrite total_fsize_snoc. split; [lia|].
        apply Forall_app. split; [exact Hf|constructor; [exact H0|constructor]].
Qed.

(* strings.EqualFold(b, "go.mod") is plain ASCII case-insensitivity: no rune outside ASCII
   folds to one of g o . m d (a fact about the regenerated SimpleFold orbit table) *)

Definition gomod_folds : list Z := [71; 79; 46; 77; 68].

Lemma table_no_nonascii_gomod :
  forallb (fun rm => negb ((128 <=? fst rm) && existsb (Z.eqb (snd rm)) gomod_folds)) fold_min_table = true.
Proof. vm_compute. reflexivity. Qed.

Lemma assoc_z_in r t m : assoc_z r t = Some m -> In (r, m) t.
Proof.
  induction t as [|[a b] t IH]; cbn; [discriminate|].
  destruct (Z.eqb_spec a r) as [->|]; [intros [= ->]; now left|intros H; right; auto].
Qed.

Lemma fold_min_gomod r m :
  In m gomod_folds -> fold_min r = m -> r = m \/ (m <> 46 /\ r = m + 32).
Proof.
  intros Hm H. unfold fold_min in H.
  destruct (r <? 128) eqn:Hr.
  - unfold is_lower in H. destruct ((97 <=? r) && (r <=? 122)) eqn:Hl.
    + right. apply andb_true_iff in Hl. destruct Hl as [H1 H2]. apply Z.leb_le in H1, H2.
      split; [|lia]. intros ->. lia.
    + left. exact H.
  - exfalso. apply Z.ltb_ge in Hr. unfold fold_min_tbl in H.
    destruct (assoc_z r fold_min_table) as [m'|] eqn:Ea.
    + subst m'. apply assoc_z_in in Ea.
      pose proof table_no_nonascii_gomod as T. rewrite forallb_forall in T.
      specialize (T _ Ea). cbn [fst snd] in T.
      apply negb_true_iff in T. apply andb_false_iff in T. destruct T as [T|T].
      * apply Z.leb_gt in T. lia.
      * assert (existsb (Z.eqb m) gomod_folds = true); [|congruence].
        apply existsb_exists. exists m. split; [exact Hm|apply Z.eqb_refl].
    + subst m. unfold gomod_folds in Hm. cbn in Hm. intuition lia.
Qed.

Lemma runes_go_mod : runes go_mod = [103; 111; 46; 109; 111; 100].
Proof. vm_compute. reflexivity. Qed.

Lemma fold_eq_cons_inv a y b' :
  fold_eq_runes a (y :: b') = true -> exists x a', a = x :: a' /\ fold_min x = fold_min y /\ fold_eq_runes a' b' = true.
Proof.
  destruct a as [|x a']; cbn; [discriminate|]. intros H. apply andb_true_iff in H. destruct H as [H1 H2].
  apply Z.eqb_eq in H1. eauto.
Qed.

Lemma fold_eq_nil_inv a : fold_eq_runes a [] = true -> a = [].
Proof. destruct a; [reflexivity|discriminate]. Qed.

Theorem equal_fold_gomod b : equal_fold b go_mod = true -> ascii_lower b = go_mod.
Proof.
  unfold equal_fold. rewrite runes_go_mod. intros H.
  apply fold_eq_cons_inv in H. destruct H as (r1 & a1 & E1 & F1 & H).
  apply fold_eq_cons_inv in H. destruct H as (r2 & a2 & E2 & F2 & H).
  apply fold_eq_cons_inv in H. destruct H as (r3 & a3 & E3 & F3 & H).
  apply fold_eq_cons_inv in H. destruct H as (r4 & a4 & E4 & F4 & H).
  apply fold_eq_cons_inv in H. destruct H as (r5 & a5 & E5 & F5 & H).
  apply fold_eq_cons_inv in H. destruct H as (r6 & a6 & E6 & F6 & H).
  apply fold_eq_nil_inv in H. subst.
  change (fold_min 103) with 71 in F1. change (fold_min 111) with 79 in F2, F5.
  change (fold_min 46) with 46 in F3. change (fold_min 109) with 77 in F4. change (fold_min 100) with 68 in F6.
  apply fold_min_gomod in F1; [|cbn; tauto]. apply fold_min_gomod in F2; [|cbn; tauto].
  apply fold_min_gomod in F3; [|cbn; tauto]. apply fold_min_gomod in F4; [|cbn; tauto].
  apply fold_min_gomod in F5; [|cbn; tauto]. apply fold_min_gomod in F6; [|cbn; tauto].
  assert (Hb : runes b = b).
  { apply runes_all_ascii. rewrite E1. repeat constructor; lia. }
  rewrite Hb in E1. subst b.
  destruct F1 as [->|[_ ->]], F2 as [->|[_ ->]], F3 as [->|[? ->]], F4 as [->|[_ ->]], F5 as [->|[_ ->]], F6 as [->|[_ ->]];
    try reflexivity; try contradiction.
Qed.

(* ---- path.Split / path.Base of a path of good elements ---- *)

Lemma path_split_join_snoc els e :
  Forall good_elem els -> good_elem e ->
  path_split (join_slash (els ++ [e])) = (match els with [] => [] | _ => join_slash els ++ [47] end, e).
Proof.
  intros _ (_ & Hs & _). destruct els as [|x els].
  - cbn [app join_slash]. apply path_split_no_slash. exact Hs.
  - rewrite join_slash_snoc by discriminate. apply path_split_app. exact Hs.
Qed.

Lemma good_last e : good_elem e -> exists e' c, e = e' ++ [c] /\ c <> 47.
Proof.
  intros (Hne & Hs & _). destruct (@exists_last _ e Hne) as (e' & c & ->).
  exists e', c. split; [reflexivity|]. intros ->. apply Hs. apply in_or_app. right. now left.
Qed.

Lemma strip_no_trailing p c : c <> 47 -> strip_trailing_slashes (p ++ [c]) = p ++ [c].
Proof.
  intros Hc. unfold strip_trailing_slashes. rewrite rev_app_distr. cbn [rev app].
  assert (drop_slashes (c :: rev p) = c :: rev p).
  { cbn. destruct c as [|q|q]; try reflexivity.
    do 6 (destruct q; try reflexivity). exfalso. apply Hc. reflexivity. }
  rewrite H. cbn [rev]. now rewrite rev_involutive.
Qed.

Lemma path_base_join_snoc els e :
  Forall good_elem els -> good_elem e -> path_base (join_slash (els ++ [e])) = e.
Proof.
  intros Hg He. pose proof (path_split_join_snoc els e Hg He) as Hsp.
  destruct (good_last e He) as (e' & c & -> & Hc).
  assert (Hb : forall p : str, p <> [] -> path_base p =
               (if is_nil_s (snd (path_split (strip_trailing_slashes p))) then [47]
                else snd (path_split (strip_trailing_slashes p)))).
  { intros p Hpn. destruct p; [contradiction|reflexivity]. }
  match goal with |- path_base ?P = _ =>
    assert (Hp : exists p', P = p' ++ [c]);
    [|destruct Hp as (p' & Hp); rewrite (Hb P);
      [assert (Hst : strip_trailing_slashes P = P) by (rewrite Hp; apply strip_no_trailing; exact Hc);
       rewrite Hst, Hsp; cbn [snd]
      |rewrite Hp; destruct p'; discriminate]]
  end.
  { destruct els as [|x els]; [exists e'; reflexivity|].
    rewrite join_slash_snoc by discriminate. exists (join_slash (x :: els) ++ 47 :: e').
    rewrite <- app_assoc. reflexivity. }
  destruct (e' ++ [c]) eqn:E2; [destruct e'; discriminate|reflexivity].
Qed.

Lemma slash_prefixes_aux_in acc x e :
  In (rev acc ++ x ++ [47]) (slash_prefixes_aux acc (x ++ 47 :: e)).
Proof.
  revert acc. induction x as [|c x IH]; intros acc; cbn [app slash_prefixes_aux].
  - rewrite Z.eqb_refl. left. cbn [rev]. reflexivity.
  - specialize (IH (c :: acc)). cbn [rev] in IH. rewrite <- app_assoc in IH. cbn [app] in IH.
    destruct (c =? 47); [right; exact IH|exact IH].
Qed.

Lemma slash_prefixes_in x e : In (x ++ [47]) (slash_prefixes (x ++ 47 :: e)).
Proof. apply (slash_prefixes_aux_in [] x e). Qed.

(* a valid file whose base name folds to go.mod is "go.mod" in the root directory *)
Theorem valid_gomod_root files ge f :
  valid_file_ok files ge f ->
  equal_fold (path_base (f_path f)) go_mod = true -> f_path f = go_mod.
Proof.
  intros (Hin & Hl & Hm & Hpre & _) Hg.
  destruct (pre_class_none _ _ _ Hpre) as (_ & _ & _ & Hsub & _ & Hcf & Hcase).
  destruct (check_file_path_elems _ Hcf) as (els & Hne & Hp & Hgood & _).
  destruct (@exists_last _ els Hne) as (els' & e & ->).
  apply Forall_app in Hgood. destruct Hgood as [Hg' Hge]. inversion Hge as [|? ? He _]; subst.
  rewrite Hp in Hg. rewrite path_base_join_snoc in Hg by assumption.
  pose proof (path_split_join_snoc els' e Hg' He) as Hsp. rewrite <- Hp in Hsp.
  destruct els' as [|x els'].
  - cbn [app join_slash] in Hp. apply Hcase.
    rewrite Hp. rewrite (equal_fold_gomod e Hg). reflexivity.
  - exfalso.
    assert (Hh : In (join_slash (x :: els') ++ [47]) (have_gomod files)).
    { unfold have_gomod. apply in_map_iff. exists f. rewrite Hsp. split; [reflexivity|].
      apply filter_In. split; [exact Hin|].
      unfold gomod_named. rewrite Hsp. cbn [snd]. rewrite Hg, Hl, Hm. reflexivity. }
    unfold in_submodule in Hsub.
    assert (existsb (fun d => existsb (str_eqb d) (have_gomod files)) (slash_prefixes (f_path f)) = true); [|congruence].
    apply existsb_exists. exists (join_slash (x :: els') ++ [47]). split.
    + rewrite Hp. rewrite join_slash_snoc by discriminate. apply slash_prefixes_in.
    + apply existsb_str_eqb_In. exact Hh.
Qed.

Lemma vinv0 files ge : vinv files ge cstate0.
Proof.
  split; cbn.
  - exists []. split; [apply repr_nil|split; constructor].
  - constructor.
  - intros _. split; [unfold zip_MaxZipFile; lia|constructor].
Qed.

Lemma pass1_vinv files ge l : forall st, vinv files ge st -> vinv files ge (pass1_errs l st).
Proof.
  induction l as [|f l IH]; intros st I; [exact I|].
  unfold pass1_errs in *. cbn [fold_left]. apply IH.
  destruct (_ && _); [apply vinv_add_error; exact I|exact I].
Qed.

Lemma pass2_vinv files ge l : forall st,
  (forall f, In f l -> In f files) -> vinv files ge st -> vinv files ge (pass2 ge (have_gomod files) l st).
Proof.
  induction l as [|f l IH]; intros st Hsub I; [exact I|].
  cbn [pass2 fold_left]. apply IH; [intros g Hg; apply Hsub; now right|].
  apply step_vinv; [exact I|apply Hsub; now left].
Qed.

Theorem check_files_state_vinv files ge : vinv files ge (check_files_state ge files).
Proof.
  unfold check_files_state. apply pass2_vinv; [auto|]. apply pass1_vinv. apply vinv0.
Qed.

(* ---- Create's entries through checkZip ---- *)

Definition mk_entry (prefix : str) (f : file) : entry :=
  mkEntry (prefix ++ f_path f) (len (f_content f)) (f_content f) 0.

Definition total_len (vs : list file) : Z := fold_right (fun f a => len (f_content f) + a) 0 vs.

Lemma has_prefix_app p s : has_prefix (p ++ s) p = true.
Proof. induction p as [|c p IH]; cbn; [destruct s; reflexivity|]. now rewrite Z.eqb_refl. Qed.

Lemma skipn_app_len (p s : str) : skipn (length p) (p ++ s) = s.
Proof. induction p; cbn; auto. Qed.

Lemma valid_path_shape p :
  check_file_path p = None -> p <> [] /\ has_suffix p [47] = false /\ path_clean p = p.
Proof.
  intros H. split; [|split; [|apply check_file_path_clean; exact H]].
  - destruct (check_file_path_elems p H) as (els & Hne & -> & Hg & _). apply join_slash_nil_iff; assumption.
  - destruct (check_file_path_elems p H) as (els & Hne & -> & Hg & _).
    destruct (@exists_last _ els Hne) as (els' & e & ->).
    apply Forall_app in Hg. destruct Hg as [_ Hge]. inversion Hge as [|? ? He _]; subst.
    destruct (good_last e He) as (e' & c & -> & Hc).
    match goal with |- has_suffix ?P _ = _ => assert (Hp : exists p', P = p' ++ [c]) end.
    { destruct els' as [|x els']; [exists e'; reflexivity|].
      rewrite join_slash_snoc by discriminate. exists (join_slash (x :: els') ++ 47 :: e').
      rewrite <- app_assoc. reflexivity. }
    destruct Hp as (p' & ->). unfold has_suffix. rewrite rev_app_distr. cbn [rev app has_prefix].
    destruct (Z.eqb_spec 47 c); [congruence|reflexivity].
Qed.

Lemma path_base_go_mod : path_base go_mod = go_mod.
Proof. vm_compute. reflexivity. Qed.

Lemma to_int64_small n : 0 <= n <= zip_MaxZipFile -> to_int64 n = n.
Proof. unfold to_int64, zip_MaxZipFile. intros H. destruct (n <? 9223372036854775808) eqn:E; [reflexivity|]. apply Z.ltb_ge in E. lia. Qed.

Lemma len_nonneg (s : str) : 0 <= len s.
Proof. unfold len. lia. Qed.

Lemma zstep_valid_entry prefix st f files ge items :
  valid_file_ok files ge f -> len (f_content f) <= f_size f ->
  repr (z_coll st) items -> coll_free (items ++ items_of (f_path f) false) ->
  0 <= z_size st -> z_size st + len (f_content f) <= zip_MaxZipFile ->
  exists cc',
    zstep prefix st (mk_entry prefix f) =
      mkZState (z_valid st ++ [prefix ++ f_path f]) (z_invalid st) (z_sizeerr st)
               (z_size st + len (f_content f)) cc' (z_fuel st) /\
    repr cc' (items ++ items_of (f_path f) false).
Proof.
  intros Hv Hlen R F Hz0 Hz1. pose proof Hv as (Hin & Hl & Hm & Hpre & Hgs & Hls).
  destruct (pre_class_none _ _ _ Hpre) as (_ & _ & _ & _ & _ & Hcf & _).
  destruct (valid_path_shape _ Hcf) as (Hne & Hsuf & Hcl).
  assert (F0 : coll_free items) by (apply FOP_app in F; apply F).
  destruct (cc_chain_complete _ _ _ R F) as [cc' Hcc].
  destruct (cc_chain_ok _ _ _ _ R F0 Hcc) as [R' _].
  exists cc'. split; [|exact R'].
  unfold zstep, mk_entry. cbn [e_name e_usize e_content].
  rewrite has_prefix_app. cbn [negb]. rewrite skipn_app_len.
  assert (Hnil : is_nil_s (f_path f) = false) by (destruct (f_path f); [contradiction|reflexivity]).
  rewrite Hnil.
  assert (Hd : entry_is_dir (f_path f) = false) by exact Hsuf.
  assert (Hn : entry_name (f_path f) = f_path f) by (unfold entry_name; rewrite Hd; reflexivity).
  rewrite Hn, Hd. rewrite Hcl, str_eqb_refl. cbn [negb].
  rewrite Hcf. cbn [ok_b negb].
  rewrite cc_check_items by exact Hcf. rewrite Hcc.
  pose proof (len_nonneg (f_content f)) as Hl0.
  rewrite to_int64_small by lia.
  assert (Hfit : (0 <=? len (f_content f)) && (len (f_content f) <=? zip_MaxZipFile - z_size st) = true).
  { apply andb_true_iff. split; apply Z.leb_le; lia. }
  rewrite Hfit.
  destruct (equal_fold (path_base (f_path f)) go_mod) eqn:Hg; cbn [andb].
  - pose proof (valid_gomod_root files ge f Hv Hg) as Hgm. rewrite Hgm.
    rewrite path_base_go_mod. change (str_eqb go_mod go_mod) with true. cbn [negb andb].
    change (str_eqb go_mod (B "LICENSE")) with false. cbn [andb].
    assert (Hs : (zip_MaxGoMod <? len (f_content f)) = false).
    { apply Z.ltb_ge. specialize (Hgs Hgm). lia. }
    rewrite Hs. reflexivity.
  - destruct (str_eqb_spec (f_path f) go_mod) as [Hgm|Hngm]; cbn [andb].
    { exfalso. rewrite Hgm, path_base_go_mod in Hg. vm_compute in Hg. discriminate. }
    destruct (str_eqb_spec (f_path f) (B "LICENSE")) as [Hlc|Hnlc]; cbn [andb]; [|reflexivity].
    assert (Hs : (zip_MaxLICENSE <? len (f_content f)) = false).
    { apply Z.ltb_ge. specialize (Hls Hlc). lia. }
    rewrite Hs. reflexivity.
Qed.

Lemma total_fsize_nonneg l : Forall (fun f => 0 <= f_size f) l -> 0 <= total_fsize l.
Proof. unfold total_fsize. induction 1; cbn [fold_right]; lia. Qed.

Lemma vitems_app a b : vitems (a ++ b) = vitems a ++ vitems b.
Proof. unfold vitems. apply flat_map_app. Qed.

Lemma zfold_valid prefix files ge : forall rest done st,
  Forall (valid_file_ok files ge) rest ->
  Forall (fun f => len (f_content f) <= f_size f) rest ->
  Forall (fun f => 0 <= f_size f) rest ->
  coll_free (vitems (done ++ rest)) ->
  repr (z_coll st) (vitems done) ->
  0 <= z_size st -> z_size st + total_fsize rest <= zip_MaxZipFile ->
  let st' := fold_left (zstep prefix) (map (mk_entry prefix) rest) st in
  z_invalid st' = z_invalid st /\ z_sizeerr st' = z_sizeerr st /\
  z_valid st' = z_valid st ++ map (fun f => prefix ++ f_path f) rest.
Proof.
  induction rest as [|f rest IH]; intros done st Hv Hl Hs F R Hz0 Hz1.
  - cbn. rewrite app_nil_r. auto.
  - inversion Hv as [|? ? Hvf Hvr]; subst. inversion Hl as [|? ? Hlf Hlr]; subst.
    inversion Hs as [|? ? Hsf Hsr]; subst.
    pose proof (total_fsize_nonneg rest Hsr) as Hrn.
    assert (Hts : total_fsize (f :: rest) = f_size f + total_fsize rest) by reflexivity.
    assert (F1 : coll_free (vitems done ++ items_of (f_path f) false)).
    { rewrite app_cons_assoc, vitems_app in F. apply FOP_app in F. destruct F as [F _].
      rewrite vitems_snoc in F. exact F. }
    destruct (zstep_valid_entry prefix st f files ge (vitems done) Hvf Hlf R F1 Hz0) as (cc' & Hstep & R'); [lia|].
    cbn [map fold_left]. rewrite Hstep.
    specialize (IH (done ++ [f])
      (mkZState (z_valid st ++ [prefix ++ f_path f]) (z_invalid st) (z_sizeerr st)
                (z_size st + len (f_content f)) cc' (z_fuel st)) Hvr Hlr Hsr).
    cbn [z_coll z_size z_invalid z_sizeerr z_valid] in IH.
    rewrite <- app_cons_assoc in IH. rewrite vitems_snoc in IH.
    pose proof (len_nonneg (f_content f)) as Hl0.
    destruct (IH F R') as (H1 & H2 & H3); [lia|lia|].
    cbn zeta. rewrite H1, H2, H3. rewrite <- app_assoc. auto.
Qed.

(* Whenever Create succeeds, the archive passes the zip check: nothing invalid, no size error,
   and Valid lists every entry (for an archive file whose encoded size is within the limit) *)
Theorem create_then_checkzip_ok mp mv files z zipsize :
  create mp mv files = CrOk z -> zipsize <= zip_MaxZipFile ->
  check_zip mp mv zipsize z = (mkChecked (map e_name z) [] [] false false, None).
Proof.
  intros Hc Hzs. destruct (create_ok_shape _ _ _ _ Hc) as (Hm & Herr & -> & Hopen).
  set (ge := root_gover files) in *.
  pose proof (check_files_state_vinv files ge) as [(items & R & F & Sub) V S].
  fold (valid_files files) in *. change (s_valid (check_files_state ge files)) with (valid_files files) in *.
  assert (Hse : s_sizeerr (check_files_state ge files) = false).
  { unfold cf_err, check_files, check_files_with, checked_of in Herr. cbn [c_sizeerr] in Herr. fold ge in Herr.
    destruct (s_sizeerr (check_files_state ge files)); [discriminate|reflexivity]. }
  destruct (S Hse) as [Hb Hf].
  assert (Hl : Forall (fun f => len (f_content f) <= f_size f) (valid_files files)).
  { eapply Forall_impl; [|exact Hopen]. intros f [_ H]. exact H. }
  assert (F' : coll_free (vitems ([] ++ valid_files files))) by (eapply FOP_sublist; eauto).
  pose proof (zfold_valid (zip_prefix mp mv) files ge (valid_files files) [] zstate0 V Hl Hf F' repr_nil) as Hz.
  cbn [z_size z_invalid z_sizeerr z_valid zstate0 app] in Hz.
  destruct Hz as (H1 & H2 & H3); [lia|lia|].
  unfold check_zip. rewrite Hm.
  destruct (zip_MaxZipFile <? zipsize) eqn:E; [apply Z.ltb_lt in E; lia|].
  fold (mk_entry (zip_prefix mp mv)).
  set (st' := fold_left (zstep (zip_prefix mp mv)) (map (mk_entry (zip_prefix mp mv)) (valid_files files)) zstate0) in *.
  assert (Hfu : z_fuel st' = false) by (unfold st'; apply zfold_fuel).
  unfold checked_of_z, cf_err. cbn [c_sizeerr c_invalid]. rewrite H1, H2, H3, Hfu.
  rewrite map_map. cbn [e_name mk_entry]. reflexivity.
Qed.

Lemma filter_length_le' {A} (p : A -> bool) l : (length (filter p l) <= length l)%nat.
Proof. induction l as [|x l IH]; cbn; [lia|]. destruct (p x); cbn; lia. Qed.

Lemma valid_files_paths files : map f_path (valid_files files) = c_valid (check_files files).
Proof. reflexivity. Qed.

(* every archive Create produces obeys the documented restrictions, and its entries are the
   valid files of the file check under the module prefix, in order, with their contents *)
Theorem created_zip_restrictions mp mv files z :
  create mp mv files = CrOk z ->
  let prefix := zip_prefix mp mv in
  check_module mp mv = None /\
  map e_name z = map (fun p => prefix ++ p) (c_valid (check_files files)) /\
  map e_content z = map f_content (valid_files files) /\
  Forall (entry_ok prefix) z /\
  coll_free (flat_map (entry_items prefix) z) /\
  0 <= total_size (file_entries prefix z) <= zip_MaxZipFile /\
  file_entries prefix z = z.
Proof.
  intros Hc. cbn zeta.
  assert (Hz : 0 <= zip_MaxZipFile) by (unfold zip_MaxZipFile; lia).
  pose proof (create_then_checkzip_ok mp mv files z 0 Hc Hz) as Hk.
  destruct (checkzip_accepts_spec _ _ _ _ _ Hk) as (Hm & _ & Hok & Hfree & Hsz & Hv & _).
  destruct (create_ok_shape _ _ _ _ Hc) as (_ & _ & Hshape & _).
  cbn [c_valid] in Hv.
  assert (Hfe : file_entries (zip_prefix mp mv) z = z).
  { (* Valid lists every entry, so every entry is a file entry *)
    unfold file_entries in *. clear - Hv.
    assert (Hlen : length (filter (is_file_entry (zip_prefix mp mv)) z) = length z).
    { apply (f_equal (@length str)) in Hv. rewrite !map_length in Hv. symmetry. exact Hv. }
    clear Hv. induction z as [|e z IH]; [reflexivity|]. cbn [filter] in *.
    destruct (is_file_entry (zip_prefix mp mv) e).
    - f_equal. apply IH. cbn in Hlen. lia.
    - exfalso. pose proof (filter_length_le' (is_file_entry (zip_prefix mp mv)) z). cbn in Hlen. lia. }
  repeat split; auto; try (apply Hsz).
  - rewrite Hshape, map_map. cbn [e_name]. rewrite <- valid_files_paths, map_map. reflexivity.
  - rewrite Hshape, map_map. reflexivity.
Qed.
