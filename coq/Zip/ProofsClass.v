(* Classification of files by checkFiles (C17): every file lands in exactly one of Valid /
   Omitted / Invalid.  Exported: errs, vpaths, same_lists, step_kind, step_cases, inv,
   step_inv, pass2_inv, pass1_inv, check_files_state_inv, listed, str_eq_dec,
   classification_total_exclusive_nofuel, pre_class_none, step_fuel, check_files_no_fuel,
   classification_total_exclusive. *)
From Verif.Base Require Import Bytes PathClean.
From Verif.Module Require Import Path PathProofs.
From Verif.Zip Require Import Check ProofsPath ProofsColl.
From Coq Require Import Sorting.Permutation.


Definition errs (st : cstate) : list str := map fst (s_omitted st) ++ map fst (s_invalid st).

Definition same_lists (a b : cstate) : Prop :=
  s_errpaths a = s_errpaths b /\ s_omitted a = s_omitted b /\ s_invalid a = s_invalid b /\
  s_valid a = s_valid b.

Lemma same_lists_refl a : same_lists a a.
Proof. repeat split. Qed.

Lemma same_lists_trans a b c : same_lists a b -> same_lists b c -> same_lists a c.
Proof. unfold same_lists. intuition congruence. Qed.

Lemma same_lists_set_coll st cc : same_lists (set_coll st cc) st.
Proof. repeat split. Qed.

Lemma same_lists_account st sz : same_lists (account_size st sz) st.
Proof. unfold account_size. destruct (_ && _); repeat split. Qed.

Lemma same_lists_set_fuel st : same_lists (set_fuel st) st.
Proof. repeat split. Qed.

Lemma existsb_str_eqb_In p l : existsb (str_eqb p) l = true <-> In p l.
Proof.
  rewrite existsb_exists. split.
  - intros [x [Hin Heq]]. apply str_eqb_eq in Heq. now subst.
  - intros H. exists p. split; [exact H | apply str_eqb_refl].
Qed.

(* what one iteration of the second loop can do to the four lists *)
Inductive step_kind (st : cstate) (f : file) (st' : cstate) : Prop :=
  | SK_error (st0 : cstate) (om : bool) (e : ferr) :
      same_lists st0 st -> s_fuel st0 = s_fuel st -> st' = add_error st0 (f_path f) om e -> step_kind st f st'
  | SK_valid (st0 : cstate) :
      same_lists st0 st -> s_fuel st0 = s_fuel st -> f_lstat_ok f = true -> f_mode f = MRegular ->
      st' = add_valid st0 f -> step_kind st f st'
  | SK_fuel : same_lists st' st -> s_fuel st' = true -> step_kind st f st'.

Lemma step_cases ge have st f : step_kind st f (step ge have st f).
Proof.
  unfold step.
  destruct (pre_class ge have (f_path f)) as [[om e]|].
  { eapply SK_error; [apply same_lists_refl | reflexivity | reflexivity]. }
  destruct (f_lstat_ok f) eqn:Hl; cbn [negb].
  2:{ eapply SK_error; [apply same_lists_refl | reflexivity | reflexivity]. }
  destruct (cc_check _ _ _ _) as [cc' r].
  destruct r as [|e|].
  - destruct (f_mode f) eqn:Hm.
    + destruct (_ && _).
      { eapply SK_error; [| | reflexivity].
        - eapply same_lists_trans; [apply same_lists_account | apply same_lists_set_coll].
        - unfold account_size. destruct (_ && _); reflexivity. }
      destruct (_ && _).
      { eapply SK_error; [| | reflexivity].
        - eapply same_lists_trans; [apply same_lists_account | apply same_lists_set_coll].
        - unfold account_size. destruct (_ && _); reflexivity. }
      eapply SK_valid; [| | exact Hl | exact Hm | reflexivity].
      * eapply same_lists_trans; [apply same_lists_account | apply same_lists_set_coll].
      * unfold account_size. destruct (_ && _); reflexivity.
    + eapply SK_error; [apply same_lists_set_coll | reflexivity | reflexivity].
    + eapply SK_error; [apply same_lists_set_coll | reflexivity | reflexivity].
    + eapply SK_error; [apply same_lists_set_coll | reflexivity | reflexivity].
  - eapply SK_error; [apply same_lists_set_coll | reflexivity | reflexivity].
  - apply SK_fuel; [|reflexivity].
    eapply same_lists_trans; [apply same_lists_set_fuel | apply same_lists_set_coll].
Qed.

Definition vpaths (st : cstate) : list str := map f_path (s_valid st).

Lemma add_error_spec st p om e :
  (In p (s_errpaths st) /\ add_error st p om e = st) \/
  (~ In p (s_errpaths st) /\
   s_errpaths (add_error st p om e) = s_errpaths st ++ [p] /\
   s_valid (add_error st p om e) = s_valid st /\
   s_fuel (add_error st p om e) = s_fuel st /\
   s_coll (add_error st p om e) = s_coll st /\
   ((om = true /\ s_omitted (add_error st p om e) = s_omitted st ++ [(p, e)] /\
     s_invalid (add_error st p om e) = s_invalid st) \/
    (om = false /\ s_omitted (add_error st p om e) = s_omitted st /\
     s_invalid (add_error st p om e) = s_invalid st ++ [(p, e)]))).
Proof.
  unfold add_error. destruct (existsb (str_eqb p) (s_errpaths st)) eqn:E.
  - left. split; [now apply existsb_str_eqb_In | reflexivity].
  - right. split.
    + intros H. apply existsb_str_eqb_In in H. congruence.
    + destruct om; cbn; repeat split; auto.
Qed.

Lemma errs_add_perm st p om e :
  ~ In p (s_errpaths st) ->
  Permutation (s_errpaths st) (errs st) ->
  Permutation (s_errpaths (add_error st p om e)) (errs (add_error st p om e)).
Proof.
  intros Hn Hp. destruct (add_error_spec st p om e) as [[Hin _]|(_ & He & _ & _ & _ & Hc)]; [contradiction|].
  rewrite He. unfold errs.
  destruct Hc as [(_ & Ho & Hi)|(_ & Ho & Hi)]; rewrite Ho, Hi.
  - rewrite map_app. cbn [map fst].
    rewrite <- app_assoc. cbn [app].
    eapply Permutation_trans; [apply Permutation_app_tail; exact Hp|].
    unfold errs. rewrite <- app_assoc.
    apply Permutation_app_head. apply Permutation_sym. apply Permutation_cons_append.
  - rewrite map_app. cbn [map fst]. rewrite app_assoc.
    apply Permutation_app_tail. exact Hp.
Qed.

Record inv (all done : list file) (st : cstate) : Prop := {
  inv_perm : Permutation (s_errpaths st) (errs st);
  inv_nodup : NoDup (vpaths st ++ s_errpaths st);
  inv_valid : forall f, In f (s_valid st) -> In f done /\ f_lstat_ok f = true;
  inv_err : forall p, In p (s_errpaths st) ->
            In p (map f_path done) \/ exists g, In g all /\ f_path g = p /\ f_lstat_ok g = false;
  inv_total : s_fuel st = false -> forall f, In f done -> In (f_path f) (vpaths st ++ s_errpaths st) }.

Lemma same_lists_inv all done a b :
  same_lists a b -> s_fuel a = s_fuel b -> inv all done b -> inv all done a.
Proof.
  intros (H1 & H2 & H3 & H4) Hf [P N V E T].
  split; unfold errs, vpaths in *; rewrite ?H1, ?H2, ?H3, ?H4, ?Hf; auto.
Qed.

Lemma NoDup_app_snoc (A : Type) (l1 l2 : list A) x :
  NoDup (l1 ++ l2) -> ~ In x l1 -> ~ In x l2 -> NoDup (l1 ++ l2 ++ [x]).
Proof.
  intros Hn H1 H2. rewrite app_assoc.
  apply NoDup_rev in Hn. rewrite <- (rev_involutive ((l1 ++ l2) ++ [x])).
  apply NoDup_rev. rewrite rev_app_distr. cbn. constructor; [|exact Hn].
  rewrite <- in_rev. rewrite in_app_iff. tauto.
Qed.

Lemma NoDup_snoc_app (A : Type) (l1 l2 : list A) x :
  NoDup (l1 ++ l2) -> ~ In x l1 -> ~ In x l2 -> NoDup ((l1 ++ [x]) ++ l2).
Proof.
  intros Hn H1 H2. rewrite <- app_assoc. cbn.
  apply NoDup_Add with (a := x) (l := l1 ++ l2).
  - apply Add_app.
  - split; [exact Hn|]. rewrite in_app_iff. tauto.
Qed.

Lemma step_inv ge have all done st f :
  inv all done st -> In f all ->
  ~ In (f_path f) (map f_path done) ->
  (forall g, In g all -> f_path g = f_path f -> g = f) ->
  inv all (done ++ [f]) (step ge have st f).
Proof.
  intros I Hall Hnew Huniq.
  assert (Hnv : forall s0, same_lists s0 st -> ~ In (f_path f) (vpaths s0)).
  { intros s0 (_ & _ & _ & Hv) Hin. unfold vpaths in Hin. rewrite Hv in Hin.
    apply in_map_iff in Hin. destruct Hin as [g [Hg Hin]].
    apply (inv_valid _ _ _ I) in Hin. destruct Hin as [Hin _].
    apply Hnew. apply in_map_iff. exists g. split; assumption. }
  destruct (step_cases ge have st f) as [st0 om e Hs Hf ->|st0 Hs Hf Hl Hm ->|Hs Hf].
  - pose proof (same_lists_inv all done st0 st Hs Hf I) as I0.
    destruct (add_error_spec st0 (f_path f) om e) as [[Hin ->]|(Hn & He & Hv & Hfu & _ & Hc)].
    + destruct I0 as [P N V E T]. split; auto.
      * intros g Hg. destruct (V g Hg). split; [apply in_or_app; now left|assumption].
      * intros p Hp. destruct (E p Hp) as [H|H]; [left; rewrite map_app; apply in_or_app; now left|now right].
      * intros Hfu g Hg. apply in_app_or in Hg. destruct Hg as [Hg|[<-|[]]].
        -- now apply T.
        -- apply in_or_app. now right.
    + split.
      * apply errs_add_perm; [exact Hn|apply (inv_perm _ _ _ I0)].
      * unfold vpaths. rewrite Hv, He. apply NoDup_app_snoc; [apply (inv_nodup _ _ _ I0)| |exact Hn].
        apply (Hnv st0 Hs).
      * rewrite Hv. intros g Hg. destruct (inv_valid _ _ _ I0 g Hg). split; [apply in_or_app; now left|assumption].
      * rewrite He. intros p Hp. apply in_app_or in Hp. destruct Hp as [Hp|[<-|[]]].
        -- destruct (inv_err _ _ _ I0 p Hp) as [H|H]; [left; rewrite map_app; apply in_or_app; now left|now right].
        -- left. rewrite map_app. apply in_or_app. right. now left.
      * rewrite Hfu. unfold vpaths. rewrite Hv, He. intros Hfalse g Hg.
        apply in_app_or in Hg. destruct Hg as [Hg|[<-|[]]].
        -- pose proof (inv_total _ _ _ I0 Hfalse g Hg) as H. unfold vpaths in H.
           apply in_app_or in H. apply in_or_app. destruct H; [now left|right; apply in_or_app; now left].
        -- apply in_or_app. right. apply in_or_app. right. now left.
  - pose proof (same_lists_inv all done st0 st Hs Hf I) as I0.
    assert (Hne : ~ In (f_path f) (s_errpaths st0)).
    { intros Hin. destruct (inv_err _ _ _ I0 _ Hin) as [H|[g (Hg & Hp & Hlg)]]; [contradiction|].
      apply Huniq in Hp; [|exact Hg]. subst g. congruence. }
    split; unfold add_valid, errs, vpaths; cbn.
    + apply (inv_perm _ _ _ I0).
    + rewrite map_app. cbn. apply NoDup_snoc_app; [apply (inv_nodup _ _ _ I0)| |exact Hne].
      apply (Hnv st0 Hs).
    + intros g Hg. apply in_app_or in Hg. destruct Hg as [Hg|[<-|[]]].
      * destruct (inv_valid _ _ _ I0 g Hg). split; [apply in_or_app; now left|assumption].
      * split; [apply in_or_app; right; now left|exact Hl].
    + intros p Hp. destruct (inv_err _ _ _ I0 p Hp) as [H|H]; [left; rewrite map_app; apply in_or_app; now left|now right].
    + intros Hfalse g Hg. rewrite map_app. apply in_app_or in Hg. destruct Hg as [Hg|[<-|[]]].
      * pose proof (inv_total _ _ _ I0 Hfalse g Hg) as H. unfold vpaths in H.
        apply in_app_or in H. apply in_or_app. destruct H; [left; apply in_or_app; now left|now right].
      * apply in_or_app. left. apply in_or_app. right. now left.
  - pose proof (same_lists_inv all done _ st Hs) as K.
    destruct Hs as (H1 & H2 & H3 & H4). destruct I as [P N V E T].
    split; unfold errs, vpaths in *; rewrite ?H1, ?H2, ?H3, ?H4; auto.
    + intros g Hg. destruct (V g Hg). split; [apply in_or_app; now left|assumption].
    + intros p Hp. destruct (E p Hp) as [H|H]; [left; rewrite map_app; apply in_or_app; now left|now right].
    + congruence.
Qed.

Lemma pass2_inv ge have all : forall rest done st,
  inv all done st -> all = done ++ rest -> NoDup (map f_path all) ->
  inv all all (pass2 ge have rest st).
Proof.
  induction rest as [|f rest IH]; intros done st I Hall Hnd.
  - rewrite app_nil_r in Hall. subst done. exact I.
  - cbn [pass2 fold_left]. apply (IH (done ++ [f])).
    + apply step_inv; [exact I| | |].
      * subst all. apply in_or_app. right. now left.
      * subst all. rewrite map_app in Hnd. cbn in Hnd.
        apply NoDup_remove_2 in Hnd. intros H. apply Hnd. apply in_or_app. now left.
      * intros g Hg Hp.
        assert (Hf : In f all) by (subst all; apply in_or_app; right; now left).
        clear - Hnd Hg Hp Hf. induction all as [|x l IHl]; [contradiction|].
        cbn in Hnd. inversion Hnd as [|? ? Hx Hl]; subst.
        destruct Hg as [->|Hg], Hf as [->|Hf]; auto.
        -- exfalso. apply Hx. rewrite Hp. now apply in_map.
        -- exfalso. apply Hx. rewrite <- Hp. now apply in_map.
    + rewrite <- app_assoc. exact Hall.
    + exact Hnd.
Qed.

(* the first loop *)
Lemma pass1_inv all : forall l st,
  (forall f, In f l -> In f all) ->
  inv all [] st -> s_valid st = [] ->
  inv all [] (pass1_errs l st) /\ s_valid (pass1_errs l st) = [].
Proof.
  induction l as [|f l IH]; intros st Hsub I Hv; [split; assumption|].
  unfold pass1_errs in *. cbn [fold_left].
  destruct (gomod_named (f_path f) && negb (f_lstat_ok f)) eqn:E.
  2:{ apply IH; auto. intros g Hg. apply Hsub. now right. }
  apply IH; [intros g Hg; apply Hsub; now right| |].
  2:{ destruct (add_error_spec st (f_path f) false FE_Lstat) as [[_ ->]|(_ & _ & -> & _)]; exact Hv. }
  apply andb_true_iff in E. destruct E as [_ El]. apply negb_true_iff in El.
  destruct (add_error_spec st (f_path f) false FE_Lstat) as [[_ ->]|(Hn & He & Hv' & Hfu & _ & Hc)]; [exact I|].
  split.
  - apply errs_add_perm; [exact Hn|apply (inv_perm _ _ _ I)].
  - unfold vpaths. rewrite Hv', Hv, He. cbn.
    pose proof (inv_nodup _ _ _ I) as N. unfold vpaths in N. rewrite Hv in N. cbn in N.
    apply (NoDup_app_snoc _ [] _ _ N); [intros []|exact Hn].
  - rewrite Hv', Hv. intros g [].
  - rewrite He. intros p Hp. apply in_app_or in Hp. destruct Hp as [Hp|[<-|[]]].
    + apply (inv_err _ _ _ I p Hp).
    + right. exists f. split; [apply Hsub; now left|split; [reflexivity|exact El]].
  - intros _ g [].
Qed.

Lemma inv_cstate0 all : inv all [] cstate0.
Proof.
  split; cbn; auto; try constructor; try (intros ? []); try (intros _ ? []).
Qed.

Lemma check_files_state_inv ge files :
  NoDup (map f_path files) -> inv files files (check_files_state ge files).
Proof.
  intros Hnd. unfold check_files_state.
  destruct (pass1_inv files files cstate0 (fun f H => H) (inv_cstate0 files) eq_refl) as [I _].
  apply (pass2_inv ge (have_gomod files) files files [] _ I eq_refl Hnd).
Qed.

Definition listed (cf : checked) : list str :=
  c_valid cf ++ map fst (c_omitted cf) ++ map fst (c_invalid cf).

Definition str_eq_dec : forall a b : str, {a = b} + {a <> b} := list_eq_dec Z.eq_dec.

Theorem classification_total_exclusive_nofuel ge files :
  NoDup (map f_path files) ->
  c_fuel (check_files_with ge files) = false ->
  (forall p, In p (map f_path files) ->
             count_occ str_eq_dec (listed (check_files_with ge files)) p = 1%nat) /\
  (forall p, In p (listed (check_files_with ge files)) -> In p (map f_path files)).
Proof.
  intros Hnd Hfuel.
  pose proof (check_files_state_inv ge files Hnd) as I.
  unfold check_files_with, checked_of, listed in *. cbn [c_valid c_omitted c_invalid c_fuel] in *.
  set (st := check_files_state ge files) in *.
  assert (Hperm : Permutation (vpaths st ++ s_errpaths st)
                              (map f_path (s_valid st) ++ map fst (s_omitted st) ++ map fst (s_invalid st))).
  { apply Permutation_app_head. apply (inv_perm _ _ _ I). }
  split.
  - intros p Hp. apply NoDup_count_occ'.
    + eapply Permutation_NoDup; [exact Hperm|apply (inv_nodup _ _ _ I)].
    + apply in_map_iff in Hp. destruct Hp as [f [<- Hf]].
      eapply Permutation_in; [exact Hperm|]. apply (inv_total _ _ _ I Hfuel f Hf).
  - intros p Hp. apply (Permutation_in _ (Permutation_sym Hperm)) in Hp.
    apply in_app_or in Hp. destruct Hp as [Hp|Hp].
    + unfold vpaths in Hp. apply in_map_iff in Hp. destruct Hp as [f [<- Hf]].
      apply in_map. apply (inv_valid _ _ _ I f Hf).
    + destruct (inv_err _ _ _ I p Hp) as [H|[g (Hg & <- & _)]]; [exact H|now apply in_map].
Qed.


Lemma ok_b_none r : ok_b r = true -> r = None.
Proof. destruct r; [discriminate|reflexivity]. Qed.

(* what a path that reaches Lstat has passed *)
Lemma pre_class_none ge have p :
  pre_class ge have p = None ->
  path_clean p = p /\ path_is_abs p = false /\ is_vendored_package p ge = false /\
  in_submodule have p = false /\ p <> B ".hg_archival.txt" /\ check_file_path p = None /\
  (str_eqb (ascii_lower p) go_mod = true -> p = go_mod).
Proof.
  unfold pre_class.
  destruct (str_eqb_spec p (path_clean p)) as [E|]; cbn [negb]; [|discriminate].
  destruct (path_is_abs p); [discriminate|].
  destruct (is_vendored_package p ge); [discriminate|].
  destruct (in_submodule have p); [discriminate|].
  destruct (str_eqb_spec p (B ".hg_archival.txt")) as [|Hh]; [discriminate|].
  destruct (ok_b (check_file_path p)) eqn:Ec; cbn [negb]; [|discriminate].
  apply ok_b_none in Ec.
  destruct (str_eqb (ascii_lower p) go_mod) eqn:El; cbn [andb].
  - destruct (str_eqb_spec p go_mod) as [Eg|]; cbn [negb]; [|discriminate].
    intros _. repeat split; auto.
  - intros _. repeat split; auto. discriminate.
Qed.

Lemma add_error_fuel st p om e : s_fuel (add_error st p om e) = s_fuel st.
Proof. destruct (add_error_spec st p om e) as [[_ ->]|(_ & _ & _ & H & _)]; [reflexivity|exact H]. Qed.

Lemma account_size_fuel st sz : s_fuel (account_size st sz) = s_fuel st.
Proof. unfold account_size. destruct (_ && _); reflexivity. Qed.

Lemma step_fuel ge have st f : s_fuel (step ge have st f) = s_fuel st.
Proof.
  unfold step. destruct (pre_class ge have (f_path f)) as [[om e]|] eqn:Ep; [apply add_error_fuel|].
  destruct (f_lstat_ok f); cbn [negb]; [|apply add_error_fuel].
  destruct (pre_class_none _ _ _ Ep) as (_ & _ & _ & _ & _ & Hc & _).
  pose proof (cc_check_no_fuel (s_coll st) (f_path f) (is_dir_mode (f_mode f)) Hc) as Hnf.
  destruct (cc_check _ _ _ _) as [cc' r]. cbn [snd] in Hnf.
  destruct r as [|e|]; [|rewrite add_error_fuel; reflexivity|contradiction].
  destruct (f_mode f); try (rewrite add_error_fuel; reflexivity).
  destruct (_ && _); [rewrite add_error_fuel, account_size_fuel; reflexivity|].
  destruct (_ && _); [rewrite add_error_fuel, account_size_fuel; reflexivity|].
  cbn. rewrite account_size_fuel. reflexivity.
Qed.

Lemma pass2_fuel ge have files : forall st, s_fuel (pass2 ge have files st) = s_fuel st.
Proof.
  induction files as [|f files IH]; intros st; [reflexivity|].
  cbn [pass2 fold_left]. fold (pass2 ge have files (step ge have st f)).
  rewrite IH. apply step_fuel.
Qed.

Lemma pass1_fuel files : forall st, s_fuel (pass1_errs files st) = s_fuel st.
Proof.
  induction files as [|f files IH]; intros st; [reflexivity|].
  unfold pass1_errs in *. cbn [fold_left]. rewrite IH.
  destruct (_ && _); [apply add_error_fuel|reflexivity].
Qed.

Theorem check_files_no_fuel ge files : c_fuel (check_files_with ge files) = false.
Proof.
  unfold check_files_with, checked_of, check_files_state. cbn [c_fuel].
  rewrite pass2_fuel, pass1_fuel. reflexivity.
Qed.

Theorem classification_total_exclusive ge files :
  NoDup (map f_path files) ->
  (forall p, In p (map f_path files) ->
             count_occ str_eq_dec (listed (check_files_with ge files)) p = 1%nat) /\
  (forall p, In p (listed (check_files_with ge files)) -> In p (map f_path files)).
Proof.
  intros H. apply classification_total_exclusive_nofuel; [exact H|apply check_files_no_fuel].
Qed.
