(* Wire dispatcher for the zip model (function names "zip.*", "path.*", "filepath.*").

   Encodings (harness/props/zipwire.go produces the same for the implementation):
     file    L[S path; I lstat_ok; I mode(0 regular,1 dir,2 symlink,3 other); I size;
               I open_ok; S content; I ge124]
     entry   L[S name; I usize; S content; I header-mode class]
     node    L[I 0; I mode; S content; I ge124]  |  L[I 1; L[ L[S name; node] ... ]]
     fs      L[ L[S path; I kind(0 file,1 dir); S content] ... ]
     report  L[ L[S valid...]; L[L[S path; S kind]...] omitted; L[...] invalid; I sizeerr ]
   Results:
     zip.CheckFiles files                      -> L[report; S errclass]
     zip.CheckZip L[S mp; S mv; I zipsize; L entries] -> L[report; S errclass]
     zip.CheckDir L[S dir; L children]         -> L[report; S errclass]
     zip.Create L[S mp; S mv; L files]         -> ok L[L[S name; S content]...] | err class
     zip.CreateFromDir L[S mp; S mv; L children] -> same
     zip.DirListCondition L children           -> I (the side condition of dir_vs_list_agree)
     zip.Unzip L[fs; S dir; S mp; S mv; I zipsize; L entries]
                                               -> L[S outcome; fs listing sorted by path]
        (file contents are blanked in the listing unless the outcome is "ok")
     path.Clean/Dir/Base S -> S ; path.Split S -> L[S;S] ; path.IsAbs S -> I ;
     filepath.Join L[S;S] -> S *)
From Verif.Base Require Import Bytes Wire PathClean.
From Verif.Zip Require Import Check Create Fs Unzip.

Definition ferr_name (e : ferr) : str :=
  match e with
  | FE_NotClean => B "notclean" | FE_NotRelative => B "notrelative" | FE_BadPath => B "badpath"
  | FE_GoModCase => B "gomodcase" | FE_Lstat => B "lstat"
  | FE_CollCase => B "coll-case" | FE_CollFileDir => B "coll-filedir"
  | FE_CollMultiple => B "coll-multiple"
  | FE_GoModSize => B "gomodsize" | FE_LicenseSize => B "licensesize"
  | FE_NoPrefix => B "noprefix" | FE_GoModNotRoot => B "gomodnotroot"
  | FE_Vendored => B "vendored" | FE_SubmoduleFile => B "submodule-file"
  | FE_HgArchival => B "hgarchival" | FE_Symlink => B "symlink" | FE_NotRegular => B "notregular"
  | FE_VCS => B "vcs" | FE_SubmoduleDir => B "submodule-dir"
  end.

Definition zerr_name (e : option zerr) : str :=
  match e with
  | None => []
  | Some ZE_NonCanonical => B "noncanonical"
  | Some ZE_BadModule => B "badmodule"
  | Some ZE_Size => B "size"
  | Some ZE_Invalid => B "invalid"
  end.

Definition cerr_name (e : cerr) : str :=
  match e with
  | CE_NonCanonical => B "noncanonical" | CE_BadModule => B "badmodule" | CE_Size => B "size"
  | CE_Invalid => B "invalid" | CE_Open => B "open" | CE_Larger => B "larger" | CE_Fuel => B "fuel"
  end.

Definition uerr_name (e : uerr) : str :=
  match e with
  | UE_NotEmpty => B "notempty"
  | UE_Check z => zerr_name (Some z)
  | UE_Mkdir => B "mkdir" | UE_Exists => B "exists" | UE_Size => B "sizemismatch"
  | UE_Fuel => B "fuel"
  end.

Definition mode_of (m : Z) : fmode :=
  if m =? 0 then MRegular else if m =? 1 then MDir else if m =? 2 then MSymlink else MOther.

Definition file_of_val (v : val) : option file :=
  match v with
  | VL [VS p; VI l; VI m; VI sz; VI o; VS c; VI g] =>
      Some (mkFile p (l =? 1) (mode_of m) sz (o =? 1) c (g =? 1))
  | _ => None
  end.

Definition entry_of_val (v : val) : option entry :=
  match v with
  | VL [VS n; VI u; VS c; VI m] => Some (mkEntry n u c m)
  | _ => None
  end.

Fixpoint all_some {A B : Type} (f : A -> option B) (l : list A) : option (list B) :=
  match l with
  | [] => Some []
  | x :: r => match f x, all_some f r with
              | Some y, Some r' => Some (y :: r')
              | _, _ => None
              end
  end.

Fixpoint node_of_val (v : val) : option tnode :=
  match v with
  | VL [VI 0; VI m; VS c; VI g] => Some (TFile (mode_of m) c (g =? 1))
  | VL [VI 1; VL ch] =>
      option_map TDir
        ((fix go (l : list val) : option (list (str * tnode)) :=
            match l with
            | [] => Some []
            | VL [VS nm; n] :: r =>
                match node_of_val n, go r with
                | Some t, Some r' => Some ((nm, t) :: r')
                | _, _ => None
                end
            | _ => None
            end) ch)
  | _ => None
  end.

Definition children_of_val (v : val) : option (list (str * tnode)) :=
  match node_of_val (VL [VI 1; v]) with
  | Some (TDir ch) => Some ch
  | _ => None
  end.

Definition fsnode_of_val (v : val) : option (str * fnode) :=
  match v with
  | VL [VS p; VI k; VS c] => Some (p, if k =? 1 then FDir else FFile c)
  | _ => None
  end.

Definition errs_val (l : list (str * ferr)) : val :=
  VL (map (fun pe => VL [VS (fst pe); VS (ferr_name (snd pe))]) l).

Definition report_val (cf : checked) (e : option zerr) : val :=
  if c_fuel cf then VErr "fuel"
  else VL [VL [VL (map VS (c_valid cf)); errs_val (c_omitted cf); errs_val (c_invalid cf);
               VB (c_sizeerr cf)];
           VS (zerr_name e)].

Definition create_val (r : create_result) : val :=
  match r with
  | CrOk z => VOk (VL (map (fun e => VL [VS (e_name e); VS (e_content e)]) z))
  | CrErr k => VL [VS (B "err"); VS (cerr_name k)]
  end.

Fixpoint insert_fs (x : str * fnode) (l : fs) : fs :=
  match l with
  | [] => [x]
  | y :: r => if str_ltb (fst y) (fst x) then y :: insert_fs x r else x :: l
  end.

Definition sort_fs (s : fs) : fs := fold_right insert_fs [] s.

Definition fs_val (blank : bool) (s : fs) : val :=
  VL (map (fun pn => match snd pn with
                     | FDir => VL [VS (fst pn); VI 1; VS []]
                     | FFile c => VL [VS (fst pn); VI 0; VS (if blank then [] else c)]
                     end) (sort_fs s)).

Definition unzip_val (s : fs) (r : uz_result * list event) : val :=
  match fst r with
  | UzOk => VL [VS (B "ok"); fs_val false (apply_events s (snd r))]
  | UzErr k => VL [VS (uerr_name k); fs_val true (apply_events s (snd r))]
  end.

Definition on_s (a : val) (k : str -> val) : val :=
  match a with VS s => k s | _ => VBadCase end.

Definition dispatch (f : str) (a : val) : val :=
  if str_eqb f (B "zip.CheckFiles") then
    match a with
    | VL l => match all_some file_of_val l with
              | Some files => let cf := check_files files in report_val cf (cf_err cf)
              | None => VBadCase
              end
    | _ => VBadCase
    end
  else if str_eqb f (B "zip.CheckZip") then
    match a with
    | VL [VS mp; VS mv; VI zs; VL l] =>
        match all_some entry_of_val l with
        | Some es => let (cf, e) := check_zip mp mv zs es in report_val cf e
        | None => VBadCase
        end
    | _ => VBadCase
    end
  else if str_eqb f (B "zip.CheckDir") then
    match a with
    | VL [VS dir; t] =>
        match children_of_val t with
        | Some ch => let (cf, e) := check_dir dir ch in report_val cf e
        | None => VBadCase
        end
    | _ => VBadCase
    end
  else if str_eqb f (B "zip.Create") then
    match a with
    | VL [VS mp; VS mv; VL l] =>
        match all_some file_of_val l with
        | Some files => create_val (create mp mv files)
        | None => VBadCase
        end
    | _ => VBadCase
    end
  else if str_eqb f (B "zip.CreateFromDir") then
    match a with
    | VL [VS mp; VS mv; t] =>
        match children_of_val t with
        | Some ch => create_val (create_from_dir mp mv ch)
        | None => VBadCase
        end
    | _ => VBadCase
    end
  else if str_eqb f (B "zip.Unzip") then
    match a with
    | VL [VL s0; VS dir; VS mp; VS mv; VI zs; VL l] =>
        match all_some fsnode_of_val s0, all_some entry_of_val l with
        | Some s, Some es => unzip_val s (unzip s dir mp mv zs es)
        | _, _ => VBadCase
        end
    | _ => VBadCase
    end
  else if str_eqb f (B "zip.DirListCondition") then
    match children_of_val a with
    | Some ch => VB (dir_list_condition ch)
    | None => VBadCase
    end
  else if str_eqb f (B "path.Clean") then on_s a (fun s => VS (path_clean s))
  else if str_eqb f (B "path.Dir") then on_s a (fun s => VS (path_dir s))
  else if str_eqb f (B "path.Base") then on_s a (fun s => VS (path_base s))
  else if str_eqb f (B "path.Split") then
    on_s a (fun s => VL [VS (fst (path_split s)); VS (snd (path_split s))])
  else if str_eqb f (B "path.IsAbs") then on_s a (fun s => VB (path_is_abs s))
  else if str_eqb f (B "filepath.Join") then
    match a with VL [VS x; VS y] => VS (filepath_join x y) | _ => VBadCase end
  else VBadCase.
