(* listFilesInDir versus the plain list of all regular files, on trees (C17 dir_vs_list_agree):
   closure of isVendoredPackage under extension, the structure of the two walks of a tree of
   regular files and directories, and the agreement theorem.  Exported: vend0,
   vendored_sibling, vendored_below, tnode_ind', walk_list, walk_dir, plain, plain_sort,
   slash_prefixes_spec, slash_prefix_elems, wprops, heads, direct_ok, wprops_cons, node_ok,
   walk_children_ok, node_ok_all, walk_false_ge, sublist_filter_mem, root_gover_unique,
   dir_vs_list_agree. *)
From Verif.Base Require Import Bytes PathClean.
From Verif.Gen Require Import GenConsts.
From Verif.Module Require Import Path PathProofs.
From Verif.Zip Require Import Check Create Fs Unzip ProofsPath ProofsColl ProofsClass ProofsZip ProofsRules ProofsUnzip ProofsCreate ProofsCreateZip ProofsUnzipTree ProofsDirList.
From Coq Require Import Sorting.Permutation.


(* ---- isVendoredPackage is closed under extension at a slash-free tail ---- *)

Lemma has_prefix_app_split (P x y : str) :
  has_prefix (x ++ y) P = true ->
  has_prefix x P = true \/ exists P2, P = x ++ P2 /\ P2 <> [] /\ has_prefix y P2 = true.
Proof.
  revert P. induction x as [|c x IH]; intros P H.
  - destruct P as [|p P]; [left; reflexivity|right]. exists (p :: P). cbn in *. repeat split; [discriminate|exact H].
  - destruct P as [|p P]; [left; reflexivity|]. cbn [app has_prefix] in *.
    apply andb_true_iff in H. destruct H as [H1 H2]. apply Z.eqb_eq in H1. subst p.
    destruct (IH P H2) as [H|(P2 & -> & Hne & Hy)].
    + left. rewrite Z.eqb_refl. exact H.
    + right. exists P2. repeat split; assumption.
Qed.

Lemma has_prefix_In (y P : str) c : has_prefix y P = true -> In c P -> In c y.
Proof.
  revert y. induction P as [|p P IH]; intros y H Hc; [contradiction|].
  destruct y as [|b y]; [discriminate|]. cbn in H. apply andb_true_iff in H. destruct H as [H1 H2].
  apply Z.eqb_eq in H1. subst b. destruct Hc as [<-|Hc]; [now left|right; eauto].
Qed.

Lemma has_prefix_ext (x z P : str) : has_prefix x P = true -> has_prefix (x ++ z) P = true.
Proof.
  revert x. induction P as [|p P IH]; intros x H; [destruct (x ++ z); reflexivity|].
  destruct x as [|c x]; [discriminate|]. cbn in *. apply andb_true_iff in H. destruct H as [H1 H2].
  rewrite H1. cbn. apply IH. exact H2.
Qed.

Lemma has_prefix_length (x P : str) : has_prefix x P = true -> (length P <= length x)%nat.
Proof.
  revert x. induction P as [|p P IH]; intros x H; [cbn; lia|].
  destruct x as [|c x]; [discriminate|]. cbn in *. apply andb_true_iff in H. destruct H as [_ H]. apply IH in H. lia.
Qed.

(* a pattern ending in '/' that is a prefix of x ++ y with y slash-free lies inside x *)
Lemma has_prefix_slash_tail (P' x y : str) :
  ~ In 47 y -> has_prefix (x ++ y) (P' ++ [47]) = true -> has_prefix x (P' ++ [47]) = true.
Proof.
  intros Hy H. destruct (has_prefix_app_split _ _ _ H) as [H1|(P2 & E & Hne & Hp)]; [exact H1|].
  exfalso. apply Hy. apply (has_prefix_In y P2 47 Hp).
  destruct (@exists_last _ P2 Hne) as (P2' & c & ->).
  rewrite app_assoc in E. apply app_inj_tail in E. destruct E as [_ <-]. apply in_or_app. right. now left.
Qed.

Lemma contains_byte_In c s : contains_byte c s = true <-> In c s.
Proof.
  unfold contains_byte. rewrite existsb_exists. split.
  - intros (x & Hx & E). apply Z.eqb_eq in E. now subst.
  - intros H. exists c. split; [exact H|apply Z.eqb_refl].
Qed.

Lemma In_skipn {A} n (l : list A) x : In x (skipn n l) -> In x l.
Proof. revert l. induction n; intros l H; [exact H|]. destruct l; [contradiction|]. right. apply IHn. exact H. Qed.

Lemma skipn_slash_tail n (x y z : str) :
  ~ In 47 y -> contains_byte 47 (skipn n (x ++ y)) = true -> contains_byte 47 (skipn n (x ++ z)) = true.
Proof.
  intros Hy H. apply contains_byte_In in H. apply contains_byte_In.
  rewrite skipn_app in *. apply in_app_or in H. apply in_or_app. destruct H as [H|H]; [now left|].
  exfalso. apply Hy. eapply In_skipn; eauto.
Qed.

Lemma index_sub_unfold sub s :
  index_sub sub s = if has_prefix s sub then Some O
                    else match s with [] => None | _ :: r => option_map S (index_sub sub r) end.
Proof. destruct s; reflexivity. Qed.

Lemma index_sub_In sub : forall s j c, index_sub sub s = Some j -> In c sub -> In c s.
Proof.
  induction s as [|b s IH]; intros j c H Hc; rewrite index_sub_unfold in H.
  - destruct (has_prefix [] sub) eqn:E; [apply (has_prefix_In _ _ _ E Hc)|discriminate].
  - destruct (has_prefix (b :: s) sub) eqn:E; [apply (has_prefix_In _ _ _ E Hc)|].
    destruct (index_sub sub s) as [j'|] eqn:E2; [|discriminate]. right. eapply IH; eauto.
Qed.

Lemma index_sub_fits S' y : ~ In 47 y -> forall x j,
  index_sub (S' ++ [47]) (x ++ y) = Some j -> Nat.le (j + length (S' ++ [47])) (length x).
Proof.
  intros Hy. induction x as [|c x IH]; intros j H.
  - exfalso. apply Hy. cbn [app] in H. apply (index_sub_In _ _ _ 47 H). apply in_or_app. right. now left.
  - rewrite index_sub_unfold in H. destruct (has_prefix ((c :: x) ++ y) (S' ++ [47])) eqn:E.
    + injection H as <-. apply (has_prefix_slash_tail S' (c :: x) y Hy) in E. apply has_prefix_length in E. lia.
    + cbn [app] in H. destruct (index_sub (S' ++ [47]) (x ++ y)) as [j'|] eqn:E2; [|discriminate].
      injection H as <-. specialize (IH j' eq_refl). cbn [length]. lia.
Qed.

Lemma index_sub_stable S' y z : ~ In 47 y -> forall x j,
  index_sub (S' ++ [47]) (x ++ y) = Some j -> index_sub (S' ++ [47]) (x ++ z) = Some j.
Proof.
  intros Hy. induction x as [|c x IH]; intros j H.
  - exfalso. apply Hy. cbn [app] in H. apply (index_sub_In _ _ _ 47 H). apply in_or_app. right. now left.
  - rewrite index_sub_unfold in H. rewrite index_sub_unfold.
    destruct (has_prefix ((c :: x) ++ y) (S' ++ [47])) eqn:E.
    + injection H as <-. apply (has_prefix_slash_tail S' (c :: x) y Hy) in E.
      rewrite (has_prefix_ext _ z _ E). reflexivity.
    + cbn [app] in H. destruct (index_sub (S' ++ [47]) (x ++ y)) as [j'|] eqn:E2; [|discriminate].
      injection H as <-.
      assert (Hz : has_prefix ((c :: x) ++ z) (S' ++ [47]) = false).
      { destruct (has_prefix ((c :: x) ++ z) (S' ++ [47])) eqn:E3; [|reflexivity]. exfalso.
        destruct (has_prefix_app_split _ _ _ E3) as [H1|(P2 & EP & Hne & _)].
        - rewrite (has_prefix_ext _ y _ H1) in E. discriminate.
        - pose proof (index_sub_fits S' y Hy x j' E2) as Hfit. rewrite EP in Hfit.
          rewrite app_length in Hfit. cbn [length] in Hfit. lia. }
      rewrite Hz. cbn [app]. rewrite (IH j' eq_refl). reflexivity.
Qed.

(* the general part of isVendoredPackage *)
Definition vend0 (name : str) (ge124 : bool) : bool :=
  if has_prefix name (B "vendor/") then contains_byte 47 (skipn 7 name)
  else match index_sub (B "/vendor/") name with
       | Some j => contains_byte 47 (skipn (if ge124 then (j + 8)%nat else 8%nat) name)
       | None => false
       end.

Lemma is_vendored_vend0 name ge :
  is_vendored_package name ge = (ge && str_eqb name (B "vendor/modules.txt")) || vend0 name ge.
Proof. unfold is_vendored_package, vend0. destruct (ge && str_eqb name (B "vendor/modules.txt")); reflexivity. Qed.

Lemma vend0_closed x y z ge : ~ In 47 y -> vend0 (x ++ y) ge = true -> vend0 (x ++ z) ge = true.
Proof.
  intros Hy H. unfold vend0 in *.
  change (B "vendor/") with (B "vendor" ++ [47]) in *. change (B "/vendor/") with (B "/vendor" ++ [47]) in *.
  destruct (has_prefix (x ++ y) (B "vendor" ++ [47])) eqn:E.
  - apply (has_prefix_slash_tail _ x y Hy) in E. rewrite (has_prefix_ext _ z _ E).
    eapply skipn_slash_tail; eauto.
  - destruct (index_sub (B "/vendor" ++ [47]) (x ++ y)) as [j|] eqn:Ei; [|discriminate].
    assert (Ez : has_prefix (x ++ z) (B "vendor" ++ [47]) = false).
    { destruct (has_prefix (x ++ z) (B "vendor" ++ [47])) eqn:E3; [|reflexivity]. exfalso.
      destruct (has_prefix_app_split _ _ _ E3) as [H1|(P2 & EP & Hne & _)].
      - rewrite (has_prefix_ext _ y _ H1) in E. discriminate.
      - pose proof (index_sub_fits _ y Hy x j Ei) as Hfit.
        apply (f_equal (@length Z)) in EP. rewrite (app_length x P2) in EP.
        change (length (B "vendor" ++ [47])) with 7%nat in EP.
        change (length (B "/vendor" ++ [47])) with 8%nat in Hfit. unfold Nat.le in Hfit. lia. }
    rewrite Ez, (index_sub_stable _ y z Hy x j Ei). eapply skipn_slash_tail; eauto.
Qed.

(* V: a vendored file other than vendor/modules.txt: everything in its directory is vendored *)
Lemma vendored_sibling d base rest ge :
  ~ In 47 base -> d ++ base <> B "vendor/modules.txt" ->
  is_vendored_package (d ++ base) ge = true -> is_vendored_package (d ++ rest) ge = true.
Proof.
  intros Hb Hne H. rewrite is_vendored_vend0 in *.
  destruct (str_eqb_spec (d ++ base) (B "vendor/modules.txt")); [contradiction|].
  rewrite andb_false_r in H. cbn [orb] in H. rewrite (vend0_closed d base rest ge Hb H). apply orb_true_r.
Qed.

(* V': everything below a vendored directory is vendored *)
Lemma vendored_below D rest ge :
  is_vendored_package D ge = true -> is_vendored_package (D ++ 47 :: rest) ge = true.
Proof.
  intros H. rewrite is_vendored_vend0 in *. apply orb_true_iff in H. destruct H as [H|H].
  - apply andb_true_iff in H. destruct H as [_ H]. apply str_eqb_eq in H. subst D.
    apply orb_true_iff. right. unfold vend0. cbn. reflexivity.
  - rewrite <- (app_nil_r D) in H. rewrite (vend0_closed D [] (47 :: rest) ge (fun x => x) H). apply orb_true_r.
Qed.

Lemma tnode_ind' (P : tnode -> Prop) :
  (forall m c g, P (TFile m c g)) ->
  (forall ch, Forall (fun nc => P (snd nc)) ch -> P (TDir ch)) ->
  forall n, P n.
Proof.
  intros Hf Hd. fix IH 1. intros [m c g|ch]; [apply Hf|apply Hd].
  induction ch as [|[nm c] r IHr]; constructor; [apply IH|exact IHr].
Qed.

(* the children loop of walk *)
Fixpoint walk_list (prune ge : bool) (rel : str) (l : list (str * tnode)) : list file * list (str * ferr) :=
  match l with
  | [] => ([], [])
  | (cn, c) :: r =>
      let (f1, o1) := walk prune ge (child_path rel cn) cn c in
      let (f2, o2) := walk_list prune ge rel r in
      (f1 ++ f2, o1 ++ o2)
  end.

Lemma walk_dir prune ge rel nm ch :
  walk prune ge rel nm (TDir ch) =
    if prune && is_vendored_package rel ge
    then (let (fs, om) := walk_list prune ge rel ch in (fs, (rel, FE_Vendored) :: om))
    else if prune && is_vcs_name nm then ([], [(rel, FE_VCS)])
    else if prune && has_gomod_file ch then ([], [(rel, FE_SubmoduleDir)])
    else walk_list prune ge rel ch.
Proof.
  assert (E : forall l,
    (fix go (l : list (str * tnode)) : list file * list (str * ferr) :=
       match l with
       | [] => ([], [])
       | (cn, c) :: r =>
           let (f1, o1) := walk prune ge (child_path rel cn) cn c in
           let (f2, o2) := go r in (f1 ++ f2, o1 ++ o2)
       end) l = walk_list prune ge rel l).
  { induction l as [|[cn c] r IH]; [reflexivity|]. cbn [walk_list]. rewrite <- IH. reflexivity. }
  cbn [walk]. rewrite !E. reflexivity.
Qed.

Lemma walk_root_list prune ge ch : walk_root prune ge ch = walk_list prune ge [] ch.
Proof.
  unfold walk_root. induction ch as [|[cn c] r IH]; [reflexivity|]. cbn [walk_list]. rewrite <- IH. reflexivity.
Qed.

(* trees of regular files and directories with well-formed distinct names and no VCS directories *)
Inductive plain : tnode -> Prop :=
  | plain_file c g : plain (TFile MRegular c g)
  | plain_dir ch :
      NoDup (map fst ch) ->
      Forall (fun nc => good_elem (fst nc) /\ is_vcs_name (fst nc) = false /\ plain (snd nc)) ch ->
      plain (TDir ch).

Lemma insert_child_perm x l : Permutation (insert_child x l) (x :: l).
Proof.
  induction l as [|y r IH]; cbn; [reflexivity|].
  destruct (str_ltb (fst y) (fst x)); [|reflexivity].
  eapply Permutation_trans; [apply perm_skip; exact IH|apply perm_swap].
Qed.

Definition sort_children (ch : list (str * tnode)) : list (str * tnode) :=
  (fix go (l : list (str * tnode)) : list (str * tnode) :=
     match l with
     | [] => []
     | (nm, c) :: r => insert_child (nm, sort_tree c) (go r)
     end) ch.

Lemma sort_tree_dir ch : sort_tree (TDir ch) = TDir (sort_children ch).
Proof. reflexivity. Qed.

Lemma sort_children_perm ch :
  Permutation (sort_children ch) (map (fun nc => (fst nc, sort_tree (snd nc))) ch).
Proof.
  induction ch as [|[nm c] r IH]; [reflexivity|]. cbn [sort_children map fst snd].
  eapply Permutation_trans; [apply insert_child_perm|]. apply perm_skip. exact IH.
Qed.

Lemma plain_sort n : plain n -> plain (sort_tree n).
Proof.
  induction n as [m c g|ch IH] using tnode_ind'; intros H.
  - inversion H; subst. constructor.
  - inversion H as [|? Hnd Hall]; subst. rewrite sort_tree_dir.
    pose proof (sort_children_perm ch) as P.
    constructor.
    + eapply Permutation_NoDup; [apply Permutation_map; apply Permutation_sym; exact P|].
      rewrite map_map. cbn [fst]. exact Hnd.
    + eapply Permutation_Forall; [apply Permutation_sym; exact P|].
      apply Forall_forall. intros nc Hin. apply in_map_iff in Hin. destruct Hin as ([nm c] & <- & Hin).
      cbn [fst snd]. rewrite Forall_forall in Hall, IH. destruct (Hall _ Hin) as (Hg & Hv & Hp).
      split; [exact Hg|split; [exact Hv|apply (IH _ Hin); exact Hp]].
Qed.

Lemma sorted_children_eq ch : sorted_children ch = sort_children ch.
Proof. reflexivity. Qed.

(* ---- slash prefixes of a path of good elements are its proper element prefixes ---- *)

Lemma slash_prefixes_aux_spec : forall s acc d,
  In d (slash_prefixes_aux acc s) <-> exists x y, s = x ++ 47 :: y /\ d = rev acc ++ x ++ [47].
Proof.
  induction s as [|c s IH]; intros acc d; cbn [slash_prefixes_aux].
  - split; [intros []|intros (x & y & E & _); destruct x; discriminate].
  - destruct (Z.eqb_spec c 47) as [->|Hc].
    + cbn [In]. rewrite IH. split.
      * intros [<-|(x & y & -> & ->)].
        -- exists [], s. split; [reflexivity|]. cbn [rev app]; rewrite <- ?app_assoc; reflexivity.
        -- exists (47 :: x), y. split; [reflexivity|]. cbn [rev app]; rewrite <- ?app_assoc; reflexivity.
      * intros (x & y & E & ->). destruct x as [|x0 x].
        -- left. cbn [rev app]; rewrite <- ?app_assoc; reflexivity.
        -- right. cbn [app] in E. injection E as <- ->. exists x, y. split; [reflexivity|].
           cbn [rev app]; rewrite <- ?app_assoc; reflexivity.
    + rewrite IH. split.
      * intros (x & y & -> & ->). exists (c :: x), y. split; [reflexivity|].
        cbn [rev app]; rewrite <- ?app_assoc; reflexivity.
      * intros (x & y & E & ->). destruct x as [|x0 x]; [cbn in E; injection E as -> _; contradiction|].
        cbn [app] in E. injection E as <- ->. exists x, y. split; [reflexivity|].
        cbn [rev app]; rewrite <- ?app_assoc; reflexivity.
Qed.

Lemma slash_prefixes_spec s d : In d (slash_prefixes s) <-> exists x y, s = x ++ 47 :: y /\ d = x ++ [47].
Proof. unfold slash_prefixes. rewrite slash_prefixes_aux_spec. cbn [rev app]. reflexivity. Qed.

Lemma join_slash_no_trailing els : Forall good_elem els -> els <> [] -> exists p' c, join_slash els = p' ++ [c] /\ c <> 47.
Proof.
  intros Hg Hne. destruct (@exists_last _ els Hne) as (l & e & ->).
  apply Forall_app in Hg. destruct Hg as [_ Hge]. inversion Hge as [|? ? He _]; subst.
  destruct (good_last e He) as (e' & c & -> & Hc).
  destruct l as [|x l]; [exists e', c; split; [reflexivity|exact Hc]|].
  rewrite join_slash_snoc by discriminate. exists (join_slash (x :: l) ++ 47 :: e'), c.
  split; [rewrite <- app_assoc; reflexivity|exact Hc].
Qed.

(* x ++ "/" ++ y = join E with x = join D (good lists): D is a proper prefix of E *)
Lemma join_prefix_slash D E y :
  Forall good_elem D -> Forall good_elem E -> D <> [] ->
  join_slash E = join_slash D ++ 47 :: y -> exists m, m <> [] /\ E = D ++ m.
Proof.
  revert E. induction D as [|d D IH]; intros E HgD HgE Hne H; [contradiction|].
  inversion HgD as [|? ? Hd HgD']; subst.
  destruct E as [|e E]; [exfalso; apply (f_equal (@length Z)) in H; rewrite app_length in H; cbn [join_slash length] in H; lia|].
  inversion HgE as [|? ? He HgE']; subst.
  assert (Hsplit : forall (a b a' b' : str), ~ In 47 a -> ~ In 47 a' -> a ++ 47 :: b = a' ++ 47 :: b' -> a = a' /\ b = b').
  { induction a as [|c a IHa]; intros b a' b' Ha Ha' E0.
    - destruct a' as [|c' a']; [injection E0 as ->; auto|]. cbn in E0. injection E0 as <- _. exfalso. apply Ha'. now left.
    - destruct a' as [|c' a']; [cbn in E0; injection E0 as -> _; exfalso; apply Ha; now left|].
      cbn in E0. injection E0 as <- E0. destruct (IHa b a' b') as [-> ->]; auto.
      + intros Hx. apply Ha. now right.
      + intros Hx. apply Ha'. now right. }
  destruct Hd as (_ & Hds & _). destruct He as (Hen & Hes & _).
  destruct D as [|d2 D].
  - (* D = [d] *) cbn [join_slash] in H.
    destruct E as [|e2 E].
    + cbn [join_slash] in H. exfalso. apply Hes. rewrite H. apply in_or_app. right. now left.
    + change (join_slash (e :: e2 :: E)) with (e ++ 47 :: join_slash (e2 :: E)) in H.
      destruct (Hsplit _ _ _ _ Hes Hds H) as [-> _]. exists (e2 :: E). split; [discriminate|reflexivity].
  - change (join_slash (d :: d2 :: D)) with (d ++ 47 :: join_slash (d2 :: D)) in H.
    rewrite <- app_assoc in H. cbn [app] in H.
    destruct E as [|e2 E].
    + cbn [join_slash] in H. exfalso. apply Hes. rewrite H. apply in_or_app. right. now left.
    + change (join_slash (e :: e2 :: E)) with (e ++ 47 :: join_slash (e2 :: E)) in H.
      destruct (Hsplit _ _ _ _ Hes Hds H) as [-> H2].
      destruct (IH (e2 :: E) HgD' HgE' ltac:(discriminate) H2) as (m & Hm & Em).
      exists m. split; [exact Hm|]. cbn [app]. now rewrite Em.
Qed.

Lemma slash_prefix_elems D E :
  Forall good_elem D -> Forall good_elem E -> D <> [] ->
  In (join_slash D ++ [47]) (slash_prefixes (join_slash E)) -> exists m, m <> [] /\ E = D ++ m.
Proof.
  intros HgD HgE Hne H. apply slash_prefixes_spec in H. destruct H as (x & y & Ej & Ed).
  apply app_inj_tail in Ed. destruct Ed as [<- _]. eapply join_prefix_slash; eauto.
Qed.

Lemma slash_prefix_of_join D m :
  D <> [] -> m <> [] -> In (join_slash D ++ [47]) (slash_prefixes (join_slash (D ++ m))).
Proof.
  intros Hd Hm. rewrite join_slash_app by assumption. apply slash_prefixes_in.
Qed.

Lemma have_gomod_app a b : have_gomod (a ++ b) = have_gomod a ++ have_gomod b.
Proof. unfold have_gomod. now rewrite filter_app, map_app. Qed.

Lemma in_submodule_mono h h' p :
  (forall d, In d h -> In d h') -> in_submodule h p = true -> in_submodule h' p = true.
Proof.
  intros Hs H. unfold in_submodule in *. apply existsb_exists in H. destruct H as (d & Hd & Hm).
  apply existsb_exists. exists d. split; [exact Hd|]. apply existsb_str_eqb_In. apply Hs. now apply existsb_str_eqb_In.
Qed.

Lemma gomod_named_not_modules_txt p : gomod_named p = true -> p <> B "vendor/modules.txt".
Proof. intros H ->. vm_compute in H. discriminate. Qed.

Section Walk.
Variable ge : bool.

Local Notation vend p := (is_vendored_package p ge).

(* what the two walks of a subtree at path elements es produce: Fa all regular files, Fl the
   pruned listing; Pm describes the path elements below es *)
Record wprops (es : list str) (Pm : list str -> Prop) (Fa Fl : list file) : Prop := {
  w_shape : forall f, In f Fa -> f_lstat_ok f = true /\ f_mode f = MRegular /\ f_open_ok f = true /\
            exists more, Forall good_elem more /\ f_path f = join_slash (es ++ more) /\ Pm more;
  w_nodup : NoDup (map f_path Fa);
  w_sub : sublist Fl Fa;
  w_drop : forall f, In f Fa -> ~ In (f_path f) (map f_path Fl) ->
           vend (f_path f) = true \/ in_submodule (have_gomod Fa) (f_path f) = true;
  w_keep : forall f, In f Fl -> vend (f_path f) = false;
  w_mod : forall f g, In f Fl -> In g Fa -> gomod_named (f_path g) = true ->
          In (fst (path_split (f_path g))) (slash_prefixes (f_path f)) -> In g Fl }.

Definition kind_ok (n : tnode) (t : list str) : Prop :=
  match n with TFile _ _ _ => t = [] | TDir _ => t <> [] end.

Definition heads (l : list (str * tnode)) (more : list str) : Prop :=
  exists h t n, more = h :: t /\ In (h, n) l /\ kind_ok n t.

(* a direct child file is dropped only when vendored *)
Definition direct_ok (es : list str) (Fa Fl : list file) : Prop :=
  forall f h, In f Fa -> good_elem h -> f_path f = join_slash (es ++ [h]) -> In f Fl \/ vend (f_path f) = true.

Lemma wprops_nil es Pm : wprops es Pm [] [].
Proof.
  split.
  - intros f [].
  - constructor.
  - constructor.
  - intros f [].
  - intros f [].
  - intros f g [].
Qed.

Lemma NoDup_app_intro {A} (a b : list A) :
  NoDup a -> NoDup b -> (forall x, In x a -> In x b -> False) -> NoDup (a ++ b).
Proof.
  induction a as [|x a IH]; intros Ha Hb Hd; [exact Hb|].
  inversion Ha as [|? ? Hx Ha']; subst. cbn. constructor.
  - rewrite in_app_iff. intros [H|H]; [contradiction|]. apply (Hd x); [now left|exact H].
  - apply IH; auto. intros y Hy1 Hy2. apply (Hd y); [now right|exact Hy2].
Qed.

Lemma exists_last_or_nil' {A} (l : list A) : l = [] \/ exists l' x, l = l' ++ [x].
Proof. destruct l as [|a l]; [now left|right]. destruct (@exists_last _ (a :: l)) as (l' & x & E); [discriminate|eauto]. Qed.

Lemma join_cons_app es cn mc : join_slash ((es ++ [cn]) ++ mc) = join_slash (es ++ cn :: mc).
Proof. now rewrite <- app_assoc. Qed.

(* a go.mod-named file directly in the directory es makes everything below es vendored if it
   is vendored itself *)
Lemma vendored_direct_sibling es h m :
  es <> [] -> Forall good_elem es -> good_elem h -> m <> [] ->
  gomod_named (join_slash (es ++ [h])) = true ->
  vend (join_slash (es ++ [h])) = true -> vend (join_slash (es ++ m)) = true.
Proof.
  intros Hes Hg Hh Hm Hgm Hv.
  rewrite join_slash_snoc in Hv, Hgm by exact Hes. rewrite join_slash_app by assumption.
  replace (join_slash es ++ 47 :: h) with ((join_slash es ++ [47]) ++ h) in * by (rewrite <- app_assoc; reflexivity).
  replace (join_slash es ++ 47 :: join_slash m) with ((join_slash es ++ [47]) ++ join_slash m) by (rewrite <- app_assoc; reflexivity).
  eapply vendored_sibling; [apply Hh|apply gomod_named_not_modules_txt; exact Hgm|exact Hv].
Qed.

(* combining a child subtree with the rest of the children *)
Lemma wprops_cons es cn c r Pc Fac Flc Far Flr :
  Forall good_elem es -> good_elem cn -> ~ In cn (map fst r) ->
  wprops (es ++ [cn]) Pc Fac Flc ->
  (forall more, Pc more -> kind_ok c more) ->
  (* the child is a file (no elements below) or a directory (some) *)
  ((forall more, Pc more -> more = []) /\ (forall f, In f Fac -> In f Flc \/ vend (f_path f) = true)
   \/ (forall more, Pc more -> more <> [])) ->
  wprops es (heads r) Far Flr -> direct_ok es Far Flr ->
  wprops es (heads ((cn, c) :: r)) (Fac ++ Far) (Flc ++ Flr) /\ direct_ok es (Fac ++ Far) (Flc ++ Flr).
Proof.
  intros Hges Hgcn Hnin [Sc Nc Subc Dc Kc Mc] Hkc Hkind [Sr Nr Subr Dr Kr Mr] Hdir.
  assert (ShapeC : forall f, In f Fac -> exists mc, Forall good_elem mc /\ f_path f = join_slash (es ++ cn :: mc) /\ Pc mc).
  { intros f Hf. destruct (Sc f Hf) as (_ & _ & _ & mc & Hg & Hp & HP). exists mc. rewrite join_cons_app in Hp. auto. }
  assert (ShapeR : forall f, In f Far -> exists h t, In h (map fst r) /\ Forall good_elem (h :: t) /\ f_path f = join_slash (es ++ h :: t)).
  { intros f Hf. destruct (Sr f Hf) as (_ & _ & _ & more & Hg & Hp & (h & t & n & -> & Hh & _)).
    exists h, t. split; [apply in_map_iff; exists (h, n); auto|auto]. }
  assert (Hgood_app : forall m, Forall good_elem m -> Forall good_elem (es ++ m)) by (intros m Hm; apply Forall_app; split; assumption).
  assert (Hdisj : forall f g, In f Fac -> In g Far -> f_path f <> f_path g).
  { intros f g Hf Hg E. destruct (ShapeC f Hf) as (mc & Hgm & Hp & _). destruct (ShapeR g Hg) as (h & t & Hh & Hgt & Hq).
    rewrite Hp, Hq in E. apply join_slash_inj in E.
    - apply app_inv_head in E. injection E as -> _. contradiction.
    - destruct es; discriminate.
    - destruct es; discriminate.
    - apply Hgood_app. constructor; assumption.
    - apply Hgood_app. exact Hgt. }
  split; [split|].
  - (* shape *)
    intros f Hf. apply in_app_or in Hf. destruct Hf as [Hf|Hf].
    + destruct (Sc f Hf) as (Hl & Hm & Ho & _). destruct (ShapeC f Hf) as (mc & Hg & Hp & HPc).
      repeat split; auto. exists (cn :: mc). split; [constructor; assumption|]. split; [exact Hp|].
      exists cn, mc, c. split; [reflexivity|]. split; [now left|apply Hkc; exact HPc].
    + destruct (Sr f Hf) as (Hl & Hm & Ho & more & Hg & Hp & (h & t & n & -> & Hh & Hk)).
      repeat split; auto. exists (h :: t). split; [exact Hg|]. split; [exact Hp|].
      exists h, t, n. split; [reflexivity|]. split; [now right|exact Hk].
  - (* nodup *)
    rewrite map_app. apply NoDup_app_intro; auto.
    intros p Hp1 Hp2. apply in_map_iff in Hp1, Hp2. destruct Hp1 as (f & <- & Hf). destruct Hp2 as (g & E & Hg).
    apply (Hdisj f g Hf Hg). now symmetry.
  - apply sublist_app; assumption.
  - (* drop *)
    intros f Hf Hn. rewrite map_app in Hn. rewrite have_gomod_app.
    apply in_app_or in Hf. destruct Hf as [Hf|Hf].
    + destruct (Dc f Hf) as [H|H]; [intros Hx; apply Hn; apply in_or_app; now left|now left|right].
      eapply in_submodule_mono; [|exact H]. intros d Hd. apply in_or_app. now left.
    + destruct (Dr f Hf) as [H|H]; [intros Hx; apply Hn; apply in_or_app; now right|now left|right].
      eapply in_submodule_mono; [|exact H]. intros d Hd. apply in_or_app. now right.
  - intros f Hf. apply in_app_or in Hf. destruct Hf; auto.
  - (* mod *)
    intros f g Hf Hg Hgm Hpre. apply in_app_or in Hf, Hg. apply in_or_app.
    destruct Hf as [Hf|Hf], Hg as [Hg|Hg].
    + left. eapply Mc; eauto.
    + (* f below the child, g among the other children *)
      right. destruct (ShapeC f (sublist_in _ _ _ Subc Hf)) as (mc & Hgmc & Hpf & _).
      destruct (ShapeR g Hg) as (h & t & Hh & Hgt & Hpg).
      inversion Hgt as [|? ? Hgh Hgt']; subst.
      destruct (@exists_last_or_nil' _ t) as [->|(t' & x & ->)].
      * (* g is the file es/h *)
        destruct es as [|e0 es'].
        -- exfalso. cbn [app] in Hpg. rewrite Hpg in Hpre. cbn [join_slash] in Hpre.
           rewrite (path_split_no_slash h) in Hpre by apply Hgh. cbn [fst] in Hpre.
           apply slash_prefixes_spec in Hpre. destruct Hpre as (x & y & _ & E). destruct x; discriminate.
        -- destruct (Hdir g h Hg Hgh Hpg) as [H|H]; [exact H|exfalso].
           assert (Hv : vend (f_path f) = true).
           { rewrite Hpf. apply (vendored_direct_sibling (e0 :: es') h (cn :: mc)); auto; try discriminate.
             - rewrite <- Hpg. exact Hgm.
             - rewrite <- Hpg. exact H. }
           rewrite (Kc f Hf) in Hv. discriminate.
      * exfalso. rewrite Hpg, Hpf in Hpre.
        assert (Esp : fst (path_split (join_slash (es ++ h :: t' ++ [x]))) = join_slash (es ++ h :: t') ++ [47]).
        { replace (es ++ h :: t' ++ [x]) with ((es ++ h :: t') ++ [x]) by (rewrite <- app_assoc; reflexivity).
          rewrite path_split_join_snoc.
          - destruct (es ++ h :: t') eqn:E0; [destruct es; discriminate|reflexivity].
          - apply Hgood_app. constructor; [exact Hgh|]. apply Forall_app in Hgt'. apply Hgt'.
          - apply Forall_app in Hgt'. destruct Hgt' as [_ H]. inversion H; assumption. }
        rewrite Esp in Hpre.
        apply slash_prefix_elems in Hpre.
        -- destruct Hpre as (m & _ & E). rewrite <- app_assoc in E. apply app_inv_head in E. cbn [app] in E.
           injection E as -> _. contradiction.
        -- apply Hgood_app. constructor; [exact Hgh|]. apply Forall_app in Hgt'. apply Hgt'.
        -- apply Hgood_app. constructor; assumption.
        -- destruct es; discriminate.
    + (* f among the other children, g below the child *)
      left. destruct (ShapeR f (sublist_in _ _ _ Subr Hf)) as (h & t & Hh & Hgt & Hpf).
      destruct (ShapeC g Hg) as (mc & Hgmc & Hpg & HPc).
      destruct (@exists_last_or_nil' _ mc) as [->|(mc' & x & ->)].
      * (* the child is the file es/cn *)
        destruct es as [|e0 es'].
        -- exfalso. cbn [app] in Hpg. rewrite Hpg in Hpre. cbn [join_slash] in Hpre.
           rewrite (path_split_no_slash cn) in Hpre by apply Hgcn. cbn [fst] in Hpre.
           apply slash_prefixes_spec in Hpre. destruct Hpre as (x & y & _ & E). destruct x; discriminate.
        -- destruct Hkind as [[_ Hfile]|Hd]; [|exfalso; apply (Hd [] HPc); reflexivity].
           destruct (Hfile g Hg) as [H|H]; [exact H|exfalso].
           assert (Hv : vend (f_path f) = true).
           { rewrite Hpf. apply (vendored_direct_sibling (e0 :: es') cn (h :: t)); auto; try discriminate.
             - rewrite <- Hpg. exact Hgm.
             - rewrite <- Hpg. exact H. }
           rewrite (Kr f Hf) in Hv. discriminate.
      * exfalso. rewrite Hpg, Hpf in Hpre.
        assert (Esp : fst (path_split (join_slash (es ++ cn :: mc' ++ [x]))) = join_slash (es ++ cn :: mc') ++ [47]).
        { replace (es ++ cn :: mc' ++ [x]) with ((es ++ cn :: mc') ++ [x]) by (rewrite <- app_assoc; reflexivity).
          rewrite path_split_join_snoc.
          - destruct (es ++ cn :: mc') eqn:E0; [destruct es; discriminate|reflexivity].
          - apply Hgood_app. constructor; [exact Hgcn|]. apply Forall_app in Hgmc. apply Hgmc.
          - apply Forall_app in Hgmc. destruct Hgmc as [_ H]. inversion H; assumption. }
        rewrite Esp in Hpre.
        apply slash_prefix_elems in Hpre.
        -- destruct Hpre as (m & _ & E). rewrite <- app_assoc in E. apply app_inv_head in E. cbn [app] in E.
           injection E as <- _. contradiction.
        -- apply Hgood_app. constructor; [exact Hgcn|]. apply Forall_app in Hgmc. apply Hgmc.
        -- apply Hgood_app. exact Hgt.
        -- destruct es; discriminate.
    + right. eapply Mr; eauto.
  - (* direct children *)
    intros f h Hf Hgh Hp. apply in_app_or in Hf. destruct Hf as [Hf|Hf].
    + destruct (ShapeC f Hf) as (mc & Hgmc & Hpf & HPc).
      assert (mc = []).
      { rewrite Hpf in Hp. apply join_slash_inj in Hp.
        - apply app_inv_head in Hp. now injection Hp.
        - destruct es; discriminate.
        - destruct es; discriminate.
        - apply Hgood_app. constructor; assumption.
        - apply Hgood_app. constructor; [exact Hgh|constructor]. }
      subst mc. destruct Hkind as [[_ Hfile]|Hd]; [|exfalso; apply (Hd [] HPc); reflexivity].
      destruct (Hfile f Hf) as [H|H]; [left; apply in_or_app; now left|now right].
    + destruct (Hdir f h Hf Hgh Hp) as [H|H]; [left; apply in_or_app; now right|now right].
Qed.

End Walk.

Section Walk2.
Variable ge : bool.
Local Notation vend p := (is_vendored_package p ge).

Lemma child_path_join es cn : Forall good_elem es -> child_path (join_slash es) cn = join_slash (es ++ [cn]).
Proof.
  intros Hg. unfold child_path. destruct es as [|e es]; [reflexivity|].
  pose proof (join_slash_nil_iff (e :: es) Hg ltac:(discriminate)) as Hn.
  destruct (join_slash (e :: es)) eqn:E; [contradiction|]. cbn [is_nil_s]. rewrite <- E.
  now rewrite join_slash_snoc by discriminate.
Qed.

(* the property of a subtree proved by induction *)
Definition node_ok (n : tnode) : Prop :=
  forall es nm, es <> [] -> Forall good_elem es -> is_vcs_name nm = false ->
  let Fa := fst (walk false ge (join_slash es) nm n) in
  let Fl := fst (walk true ge (join_slash es) nm n) in
  (match n with
   | TFile _ _ _ => wprops ge es (fun more => more = []) Fa Fl /\
                    (forall f, In f Fa -> In f Fl \/ vend (f_path f) = true)
   | TDir ch => wprops ge es (heads ch) Fa Fl
   end) /\ (vend (join_slash es) = true -> Fl = []).

Lemma node_ok_file c g : node_ok (TFile MRegular c g).
Proof.
  intros es nm Hne Hg Hv. cbn zeta. cbn [walk andb fst].
  set (f0 := mkFile (join_slash es) true MRegular (len c) true c g).
  destruct (vend (join_slash es)) eqn:E; cbn [fst].
  - split; [split|reflexivity].
    + split.
      * intros f [<-|[]]. cbn. repeat split; auto. exists []. rewrite app_nil_r. auto.
      * cbn. constructor; [intros []|constructor].
      * constructor.
      * intros f [<-|[]] _. left. exact E.
      * intros f [].
      * intros f g0 [].
    + intros f [<-|[]]. right. exact E.
  - split; [split|discriminate].
    + split.
      * intros f [<-|[]]. cbn. repeat split; auto. exists []. rewrite app_nil_r. auto.
      * cbn. constructor; [intros []|constructor].
      * apply sublist_refl.
      * intros f [<-|[]] Hn. exfalso. apply Hn. now left.
      * intros f [<-|[]]. exact E.
      * intros f g0 [<-|[]] [<-|[]] _ _. now left.
    + intros f [<-|[]]. left. now left.
Qed.

Definition child_wf (nc : str * tnode) : Prop :=
  good_elem (fst nc) /\ is_vcs_name (fst nc) = false /\ plain (snd nc).

(* the loop over the children of a directory *)
Lemma walk_children_ok : forall l,
  NoDup (map fst l) -> Forall child_wf l -> Forall (fun nc => node_ok (snd nc)) l ->
  forall es, Forall good_elem es ->
  let Fa := fst (walk_list false ge (join_slash es) l) in
  let Fl := fst (walk_list true ge (join_slash es) l) in
  wprops ge es (heads l) Fa Fl /\ direct_ok ge es Fa Fl /\
  (es <> [] -> vend (join_slash es) = true -> Fl = []).
Proof.
  induction l as [|[cn c] r IH]; intros Hnd Hwf Hok es Hges; cbn zeta.
  - cbn [walk_list fst]. split; [apply wprops_nil|split; [intros f h []|intros _ _; reflexivity]].
  - inversion Hnd as [|? ? Hnin Hnd']; subst. inversion Hwf as [|? ? (Hgcn & Hvcs & Hpl) Hwf']; subst.
    inversion Hok as [|? ? Hc Hok']; subst. cbn [fst snd] in *.
    destruct (IH Hnd' Hwf' Hok' es Hges) as (Wr & Dr & Vr).
    cbn [walk_list]. rewrite (child_path_join es cn Hges).
    assert (Hne : es ++ [cn] <> []) by (destruct es; discriminate).
    assert (Hgc : Forall good_elem (es ++ [cn])) by (apply Forall_app; split; [exact Hges|constructor; [exact Hgcn|constructor]]).
    specialize (Hc (es ++ [cn]) cn Hne Hgc Hvcs). cbn zeta in Hc.
    destruct (walk false ge (join_slash (es ++ [cn])) cn c) as [Fac Oac] eqn:Ea.
    destruct (walk true ge (join_slash (es ++ [cn])) cn c) as [Flc Olc] eqn:El.
    destruct (walk_list false ge (join_slash es) r) as [Far Oar] eqn:Ear.
    destruct (walk_list true ge (join_slash es) r) as [Flr Olr] eqn:Elr.
    cbn [fst] in *. destruct Hc as [Hc Hcv].
    assert (Hcons : wprops ge es (heads ((cn, c) :: r)) (Fac ++ Far) (Flc ++ Flr) /\ direct_ok ge es (Fac ++ Far) (Flc ++ Flr)).
    { destruct c as [m cc g|ch].
      - destruct Hc as [Wc Fc]. eapply wprops_cons; eauto; try (left; split; [intros more H; exact H|exact Fc]); intros more H; exact H.
      - eapply wprops_cons; eauto; try (right; intros more (h & t & n & -> & _); discriminate); intros more (h & t & n & -> & _); cbn; discriminate. }
    destruct Hcons as [W D]. split; [exact W|]. split; [exact D|].
    intros Hes Hv. rewrite (Vr Hes Hv), app_nil_r. apply Hcv.
    rewrite join_slash_snoc by exact Hes. apply vendored_below. exact Hv.
Qed.

Lemma walk_list_file_in prune : forall l es nm c g,
  Forall good_elem es -> In (nm, TFile MRegular c g) l -> prune = false ->
  In (mkFile (join_slash (es ++ [nm])) true MRegular (len c) true c g) (fst (walk_list prune ge (join_slash es) l)).
Proof.
  induction l as [|[cn n] r IH]; intros es nm c g Hges Hin ->; [contradiction|].
  cbn [walk_list]. rewrite (child_path_join es cn Hges).
  destruct (walk false ge (join_slash (es ++ [cn])) cn n) as [f1 o1] eqn:E1.
  destruct (walk_list false ge (join_slash es) r) as [f2 o2] eqn:E2. cbn [fst].
  apply in_or_app. destruct Hin as [[= -> ->]|Hin].
  - left. cbn [walk andb] in E1. injection E1 as <- _. now left.
  - right. specialize (IH es nm c g Hges Hin eq_refl). rewrite E2 in IH. exact IH.
Qed.

Lemma has_gomod_file_in ch : Forall child_wf ch -> has_gomod_file ch = true ->
  exists c g, In (go_mod, TFile MRegular c g) ch.
Proof.
  intros Hwf H. unfold has_gomod_file in H.
  induction ch as [|[nm n] r IH]; [discriminate|]. inversion Hwf as [|? ? (_ & _ & Hp) Hwf']; subst.
  cbn [find_child] in H. destruct (str_eqb_spec nm go_mod) as [->|Hn].
  - destruct n as [m c g|ch']; [|discriminate]. cbn [snd] in Hp. inversion Hp; subst. exists c, g. now left.
  - destruct (IH Hwf' H) as (c & g & Hin). exists c, g. now right.
Qed.

Lemma node_ok_all n : plain n -> node_ok n.
Proof.
  induction n as [m c g|ch IH] using tnode_ind'; intros Hp.
  - inversion Hp; subst. apply node_ok_file.
  - inversion Hp as [|? Hnd Hall]; subst.
    assert (Hwf : Forall child_wf ch) by exact Hall.
    assert (Hok : Forall (fun nc => node_ok (snd nc)) ch).
    { apply Forall_forall. intros nc Hin. rewrite Forall_forall in IH, Hall. apply (IH _ Hin). apply (Hall _ Hin). }
    intros es nm Hne Hges Hvcs. cbn zeta.
    destruct (walk_children_ok ch Hnd Hwf Hok es Hges) as (W & D & V).
    rewrite !walk_dir. rewrite Hvcs. cbn [andb].
    destruct (walk_list false ge (join_slash es) ch) as [Fa Oa] eqn:Ea.
    destruct (walk_list true ge (join_slash es) ch) as [Fl Ol] eqn:El. cbn [fst] in *.
    destruct W as [Sh Nd Sub Dr Kp Md].
    assert (Hshape : forall f, In f Fa -> exists h t, Forall good_elem (h :: t) /\ f_path f = join_slash (es ++ h :: t)).
    { intros f Hf. destruct (Sh f Hf) as (_ & _ & _ & more & Hg & Hpth & (h & t & n & -> & _)). eauto. }
    destruct (vend (join_slash es)) eqn:Ev.
    + (* a vendored directory: nothing is listed *)
      cbn [fst]. rewrite (V Hne eq_refl). split; [|reflexivity].
      split; [exact Sh|exact Nd|constructor| |intros ? []|intros ? ? []].
      intros f Hf _. left. destruct (Hshape f Hf) as (h & t & Hg & ->).
      rewrite join_slash_app by (auto; discriminate). apply vendored_below. exact Ev.
    + destruct (has_gomod_file ch) eqn:Hgm; cbn [fst].
      * (* a nested module: pruned *)
        split; [|discriminate].
        split; [exact Sh|exact Nd|constructor| |intros ? []|intros ? ? []].
        intros f Hf _. right. destruct (Hshape f Hf) as (h & t & Hg & Hpf).
        destruct (has_gomod_file_in ch Hwf Hgm) as (c0 & g0 & Hin0).
        pose proof (walk_list_file_in false ch es go_mod c0 g0 Hges Hin0 eq_refl) as Hf0. rewrite Ea in Hf0. cbn [fst] in Hf0.
        unfold in_submodule. apply existsb_exists. exists (join_slash es ++ [47]). split.
        -- rewrite Hpf. apply slash_prefix_of_join; [exact Hne|discriminate].
        -- apply existsb_str_eqb_In. unfold have_gomod. apply in_map_iff.
           eexists. split; [|apply filter_In; split; [exact Hf0|]].
           ++ cbn [f_path]. rewrite path_split_join_snoc; [|exact Hges|].
              ** destruct es; [contradiction|reflexivity].
              ** vm_compute. repeat split; try discriminate. intros [H|H]; [discriminate|].
                 repeat (destruct H as [H|H]; [discriminate|]). exact H.
           ++ cbn [f_path f_lstat_ok f_mode is_regular]. unfold gomod_named.
              rewrite path_split_join_snoc; [|exact Hges|].
              ** cbn [snd]. vm_compute. reflexivity.
              ** vm_compute. repeat split; try discriminate. intros [H|H]; [discriminate|].
                 repeat (destruct H as [H|H]; [discriminate|]). exact H.
      * split; [|discriminate]. split; assumption.
Qed.

End Walk2.

(* without pruning the go version plays no role *)
Lemma walk_false_ge ge ge' : forall n rel nm, walk false ge rel nm n = walk false ge' rel nm n.
Proof.
  induction n as [m c g|ch IH] using tnode_ind'; intros rel nm; [reflexivity|].
  rewrite !walk_dir. cbn [andb].
  induction ch as [|[cn c] r IHr]; [reflexivity|]. inversion IH as [|? ? Hc Hr]; subst.
  cbn [walk_list]. cbn [snd] in Hc. rewrite (Hc (child_path rel cn) cn). rewrite (IHr Hr). reflexivity.
Qed.

Lemma walk_list_false_ge ge ge' rel l : walk_list false ge rel l = walk_list false ge' rel l.
Proof.
  induction l as [|[cn c] r IH]; [reflexivity|]. cbn [walk_list]. rewrite (walk_false_ge ge ge' c), IH. reflexivity.
Qed.

Lemma sublist_filter_mem (fl fa : list file) :
  sublist fl fa -> NoDup (map f_path fa) -> filter (mem_path fl) fa = fl.
Proof.
  induction 1 as [l|x a b Hab IH|x a b Hab IH]; intros Hnd.
  - induction l as [|y l IHl]; [reflexivity|]. cbn [filter]. unfold mem_path at 1. cbn [existsb].
    apply IHl. cbn in Hnd. now inversion Hnd.
  - cbn [map] in Hnd. inversion Hnd as [|? ? Hx Hnd']; subst. cbn [filter].
    assert (Hm : mem_path (x :: a) x = true) by (unfold mem_path; cbn [existsb]; now rewrite str_eqb_refl).
    rewrite Hm. f_equal. rewrite <- (IH Hnd') at 2. apply filter_ext_in. intros y Hy.
    unfold mem_path. cbn [existsb]. destruct (str_eqb_spec (f_path x) (f_path y)) as [E|]; [|reflexivity].
    exfalso. apply Hx. rewrite E. now apply in_map.
  - cbn [map] in Hnd. inversion Hnd as [|? ? Hx Hnd']; subst. cbn [filter].
    assert (Hm : mem_path a x = false).
    { destruct (mem_path a x) eqn:E; [|reflexivity]. exfalso. apply mem_path_In in E. apply Hx.
      apply in_map_iff in E. destruct E as (g & Eg & Hg). rewrite <- Eg. apply in_map. eapply sublist_in; eauto. }
    rewrite Hm. apply IH. exact Hnd'.
Qed.

Lemma root_gover_unique : forall l f0,
  NoDup (map f_path l) -> In f0 l -> f_path f0 = go_mod ->
  f_lstat_ok f0 = true -> f_mode f0 = MRegular -> f_open_ok f0 = true ->
  root_gover l = f_ge124 f0.
Proof.
  intros l f0 Hnd Hin Hp Hl Hm Ho. unfold root_gover.
  assert (G : forall l acc, NoDup (map f_path l) ->
            (In f0 l -> fold_left (fun g f => if str_eqb (f_path f) go_mod && f_lstat_ok f && is_regular (f_mode f) && f_open_ok f then f_ge124 f else g) l acc = f_ge124 f0) /\
            (~ In go_mod (map f_path l) -> fold_left (fun g f => if str_eqb (f_path f) go_mod && f_lstat_ok f && is_regular (f_mode f) && f_open_ok f then f_ge124 f else g) l acc = acc)).
  { induction l0 as [|x l0 IHl]; intros acc Hn; [split; [intros []|reflexivity]|].
    cbn [map] in Hn. inversion Hn as [|? ? Hx Hn']; subst. cbn [fold_left]. split.
    - intros [->|Hi].
      + rewrite Hp, str_eqb_refl, Hl, Hm, Ho. cbn [andb is_regular].
        apply (IHl (f_ge124 f0) Hn'). rewrite <- Hp. exact Hx.
      + destruct (str_eqb_spec (f_path x) go_mod) as [E|_]; cbn [andb].
        * exfalso. apply Hx. rewrite E, <- Hp. now apply in_map.
        * apply (IHl acc Hn'). exact Hi.
    - intros Hno. destruct (str_eqb_spec (f_path x) go_mod) as [E|_]; cbn [andb].
      + exfalso. apply Hno. left. exact E.
      + apply (IHl acc Hn'). intros H. apply Hno. now right. }
  apply (G l false Hnd). exact Hin.
Qed.

Lemma root_gover_none l : ~ In go_mod (map f_path l) -> root_gover l = false.
Proof.
  unfold root_gover. generalize false. induction l as [|x l IH]; intros acc Hno; [reflexivity|].
  cbn [fold_left]. destruct (str_eqb_spec (f_path x) go_mod) as [E|_]; cbn [andb].
  - exfalso. apply Hno. left. exact E.
  - apply IH. intros H. apply Hno. now right.
Qed.

Lemma find_child_in nm ch n : find_child nm ch = Some n -> In (nm, n) ch.
Proof.
  induction ch as [|[x c] r IH]; [discriminate|]. cbn [find_child].
  destruct (str_eqb_spec x nm) as [->|_]; [intros [= ->]; now left|intros H; right; auto].
Qed.

Lemma in_find_child nm ch n : NoDup (map fst ch) -> In (nm, n) ch -> find_child nm ch = Some n.
Proof.
  induction ch as [|[x c] r IH]; intros Hnd Hin; [contradiction|]. cbn [map fst] in Hnd. inversion Hnd as [|? ? Hx Hnd']; subst.
  cbn [find_child]. destruct Hin as [[= -> ->]|Hin].
  - now rewrite str_eqb_refl.
  - destruct (str_eqb_spec x nm) as [->|_]; [|apply IH; assumption].
    exfalso. apply Hx. apply in_map_iff. exists (nm, n). auto.
Qed.

Lemma sublist_map {A B} (f : A -> B) a b : sublist a b -> sublist (map f a) (map f b).
Proof. induction 1; cbn; constructor; auto. Qed.

Lemma NoDup_sublist {A} (a b : list A) : sublist a b -> NoDup b -> NoDup a.
Proof.
  induction 1 as [l|x a b Hab IH|x a b Hab IH]; intros Hn; [constructor| |].
  - inversion Hn as [|? ? Hx Hn']; subst. constructor; [|auto]. intros Hin. apply Hx. eapply sublist_in; eauto.
  - inversion Hn; subst. auto.
Qed.

Lemma good_go_mod : good_elem go_mod.
Proof.
  vm_compute. repeat split; try discriminate. intros [H|H]; [discriminate|].
  repeat (destruct H as [H|H]; [discriminate|]). exact H.
Qed.

Lemma vend_go_mod ge : is_vendored_package go_mod ge = false.
Proof. destruct ge; vm_compute; reflexivity. Qed.

Lemma sort_tree_file_inv n m c g : sort_tree n = TFile m c g -> n = TFile m c g.
Proof. destruct n; [cbn; congruence|rewrite sort_tree_dir; discriminate]. Qed.

(* DESIGN.md dir_vs_list_agree: for a tree of regular files and directories with well-formed
   distinct names and no VCS directories, the list check on the pruned listing of listFilesInDir
   and on the plain list of all regular files agree, and so does Create *)
Theorem dir_vs_list_agree ch :
  plain (TDir ch) ->
  let fl := fst (list_files_in_dir ch) in
  let fa := all_regular_files ch in
  c_valid (check_files fl) = c_valid (check_files fa) /\
  c_invalid (check_files fl) = c_invalid (check_files fa) /\
  c_sizeerr (check_files fl) = c_sizeerr (check_files fa) /\
  valid_files fl = valid_files fa /\
  (forall mp mv, create mp mv fl = create mp mv fa).
Proof.
  intros Hplain. cbn zeta.
  pose proof (plain_sort _ Hplain) as Hps. rewrite sort_tree_dir in Hps.
  inversion Hplain as [|? Hnd0 Hall0]; subst. inversion Hps as [|? Hnd Hall]; subst.
  set (sc := sort_children ch) in *. set (ge := tree_gover ch).
  assert (Hok : Forall (fun nc => node_ok ge (snd nc)) sc).
  { apply Forall_forall. intros nc Hin. apply node_ok_all. rewrite Forall_forall in Hall. apply (Hall _ Hin). }
  destruct (walk_children_ok ge sc Hnd Hall Hok [] (Forall_nil _)) as (W & D & _).
  cbn [join_slash] in W, D.
  assert (Efa : all_regular_files ch = fst (walk_list false ge [] sc)).
  { unfold all_regular_files. rewrite walk_root_list, sorted_children_eq. fold sc. now rewrite (walk_list_false_ge false ge). }
  assert (Efl : fst (list_files_in_dir ch) = fst (walk_list true ge [] sc)).
  { unfold list_files_in_dir. rewrite walk_root_list, sorted_children_eq. reflexivity. }
  rewrite Efa, Efl. set (fa := fst (walk_list false ge [] sc)) in *. set (fl := fst (walk_list true ge [] sc)) in *.
  destruct W as [Sh Nd Sub Dr Kp Md].
  assert (Hshape : forall f, In f fa -> exists h t n, Forall good_elem (h :: t) /\ f_path f = join_slash (h :: t) /\ In (h, n) sc /\ kind_ok n t).
  { intros f Hf. destruct (Sh f Hf) as (_ & _ & _ & more & Hg & Hp & (h & t & n & -> & Hin & Hk)). cbn [app] in Hp. eauto 8. }
  assert (Hsc_ch : forall nm n, In (nm, n) sc -> exists n', In (nm, n') ch /\ n = sort_tree n').
  { intros nm n Hin. apply (Permutation_in _ (sort_children_perm ch)) in Hin. apply in_map_iff in Hin.
    destruct Hin as ([nm' n'] & [= <- <-] & Hin). eauto. }
  assert (Hch_sc : forall nm n', In (nm, n') ch -> In (nm, sort_tree n') sc).
  { intros nm n' Hin. apply (Permutation_in _ (Permutation_sym (sort_children_perm ch))). apply in_map_iff.
    exists (nm, n'). auto. }
  (* the go version: the root go.mod file *)
  assert (Hroot : forall f, In f fa -> f_path f = go_mod -> exists c g, In (go_mod, TFile MRegular c g) ch /\ find_child go_mod ch = Some (TFile MRegular c g)).
  { intros f Hf Hp. destruct (Hshape f Hf) as (h & t & n & Hg & Hpf & Hin & Hk).
    rewrite Hp in Hpf. change go_mod with (join_slash [go_mod]) in Hpf. apply join_slash_inj in Hpf; try discriminate.
    2:{ constructor; [apply good_go_mod|constructor]. } 2:{ exact Hg. }
    injection Hpf as <- <-. destruct (Hsc_ch _ _ Hin) as (n' & Hin' & ->).
    destruct (sort_tree n') as [m c g|] eqn:En; [|cbn in Hk; contradiction].
    apply sort_tree_file_inv in En. subst n'.
    assert (m = MRegular). { rewrite Forall_forall in Hall0. destruct (Hall0 _ Hin') as (_ & _ & Hpl). cbn in Hpl. now inversion Hpl. }
    subst m. exists c, g. split; [exact Hin'|apply in_find_child; assumption]. }
  assert (Hge_fa : root_gover fa = ge).
  { unfold ge, tree_gover. destruct (find_child go_mod ch) as [[m c g|ch']|] eqn:Efc.
    - pose proof (find_child_in _ _ _ Efc) as Hin.
      assert (m = MRegular). { rewrite Forall_forall in Hall0. destruct (Hall0 _ Hin) as (_ & _ & Hpl). cbn in Hpl. now inversion Hpl. }
      subst m. pose proof (Hch_sc _ _ Hin) as Hin'. cbn [sort_tree] in Hin'.
      pose proof (walk_list_file_in ge false sc [] go_mod c g (Forall_nil _) Hin' eq_refl) as Hf0. fold fa in Hf0.
      rewrite (root_gover_unique fa _ Nd Hf0); reflexivity.
    - apply root_gover_none. intros Hin. apply in_map_iff in Hin. destruct Hin as (f & Hp & Hf).
      destruct (Hroot f Hf Hp) as (c & g & _ & E). congruence.
    - apply root_gover_none. intros Hin. apply in_map_iff in Hin. destruct Hin as (f & Hp & Hf).
      destruct (Hroot f Hf Hp) as (c & g & _ & E). congruence. }
  assert (Ndl : NoDup (map f_path fl)) by (eapply NoDup_sublist; [apply sublist_map; exact Sub|exact Nd]).
  assert (Hge_fl : root_gover fl = ge).
  { rewrite <- Hge_fa.
    destruct (in_dec str_eq_dec go_mod (map f_path fa)) as [Hin|Hno].
    - apply in_map_iff in Hin. destruct Hin as (f0 & Hp & Hf0).
      destruct (Sh f0 Hf0) as (Hl & Hm & Ho & _).
      destruct (D f0 go_mod Hf0 good_go_mod) as [Hfl|Hv]; [cbn; exact Hp| |rewrite Hp, vend_go_mod in Hv; discriminate].
      rewrite (root_gover_unique fl f0 Ndl Hfl Hp Hl Hm Ho), (root_gover_unique fa f0 Nd Hf0 Hp Hl Hm Ho). reflexivity.
    - rewrite (root_gover_none fa Hno). apply root_gover_none. intros Hin. apply Hno.
      eapply sublist_in; [apply sublist_map; exact Sub|exact Hin]. }
  (* the list-level agreement *)
  set (keep := mem_path fl).
  assert (Hfilter : filter keep fa = fl) by (apply sublist_filter_mem; assumption).
  assert (Hl : Forall (fun f => f_lstat_ok f = true) fa) by (apply Forall_forall; intros f Hf; apply (Sh f Hf)).
  assert (Hpath : forall f, In f fa -> path_clean (f_path f) = f_path f /\ path_is_abs (f_path f) = false).
  { intros f Hf. destruct (Hshape f Hf) as (h & t & n & Hg & Hp & _). rewrite Hp. split.
    - apply path_clean_join_good; [discriminate|exact Hg].
    - destruct (join_slash (h :: t)) as [|c0 r0] eqn:E; [reflexivity|].
      pose proof (join_slash_head _ _ _ Hg E) as Hc.
      destruct (path_is_abs (c0 :: r0)) eqn:Ea; [|reflexivity]. exfalso. apply Hc.
      unfold path_is_abs in Ea. destruct c0 as [|q|q]; try discriminate.
      repeat (destruct q; try discriminate). reflexivity. }
  assert (Hrem : forall f, In f fa -> keep f = false -> exists e, pre_class ge (have_gomod fa) (f_path f) = Some (true, e)).
  { intros f Hf Hk. destruct (Hpath f Hf) as [Hc Ha].
    assert (Hn : ~ In (f_path f) (map f_path fl)).
    { intros Hin. apply mem_path_In in Hin. unfold keep in Hk. congruence. }
    unfold pre_class. rewrite Hc, str_eqb_refl, Ha. cbn [negb].
    destruct (is_vendored_package (f_path f) ge) eqn:Ev; [eauto|].
    destruct (Dr f Hf Hn) as [H|H]; [congruence|]. rewrite H. eauto. }
  assert (Hkeep : forall f, In f fa -> keep f = true ->
            ~ In (f_path f) (map f_path (filter (fun f => negb (keep f)) fa)) /\
            pre_class ge (have_gomod fa) (f_path f) = pre_class ge (have_gomod (filter keep fa)) (f_path f)).
  { intros f Hf Hk. split.
    - intros Hin. apply in_map_iff in Hin. destruct Hin as (g & Ep & Hg). apply filter_In in Hg. destruct Hg as [Hg Hkg].
      assert (g = f) by (apply (NoDup_paths_unique fa f g Nd Hf Hg Ep)). subst g. rewrite Hk in Hkg. discriminate.
    - rewrite Hfilter.
      assert (Hffl : In f fl).
      { unfold keep in Hk. apply mem_path_In in Hk. apply in_map_iff in Hk. destruct Hk as (g & Ep & Hg).
        assert (g = f) by (apply (NoDup_paths_unique fa f g Nd Hf (sublist_in _ _ _ Sub Hg) Ep)). now subst g. }
      unfold pre_class.
      assert (Es : in_submodule (have_gomod fa) (f_path f) = in_submodule (have_gomod fl) (f_path f)).
      { destruct (in_submodule (have_gomod fa) (f_path f)) eqn:E1, (in_submodule (have_gomod fl) (f_path f)) eqn:E2; try reflexivity.
        - exfalso. unfold in_submodule in E1. apply existsb_exists in E1. destruct E1 as (d & Hd & Hm).
          apply existsb_str_eqb_In in Hm. unfold have_gomod in Hm. apply in_map_iff in Hm. destruct Hm as (g & Eg & Hg).
          apply filter_In in Hg. destruct Hg as [Hg Hc]. apply andb_true_iff in Hc. destruct Hc as [Hc Hreg].
          apply andb_true_iff in Hc. destruct Hc as [Hgm Hlg].
          assert (Hgl : In g fl) by (apply (Md f g Hffl Hg Hgm); rewrite Eg; exact Hd).
          assert (Hx : in_submodule (have_gomod fl) (f_path f) = true); [|congruence].
          unfold in_submodule. apply existsb_exists. exists d. split; [exact Hd|]. apply existsb_str_eqb_In.
          unfold have_gomod. apply in_map_iff. exists g. split; [exact Eg|]. apply filter_In. split; [exact Hgl|].
          rewrite Hgm, Hlg, Hreg. reflexivity.
        - exfalso. assert (Hx : in_submodule (have_gomod fa) (f_path f) = true); [|congruence].
          eapply in_submodule_mono; [|exact E2]. intros d Hd. unfold have_gomod in *. apply in_map_iff in Hd.
          destruct Hd as (g & Eg & Hg). apply filter_In in Hg. destruct Hg as [Hg Hc].
          apply in_map_iff. exists g. split; [exact Eg|]. apply filter_In. split; [eapply sublist_in; eauto|exact Hc]. }
      rewrite Es. reflexivity. }
  destruct (check_files_filter_agree ge fa keep Hl Hrem Hkeep) as (Hsv & Hv & Hi & Hs & Hf).
  rewrite Hfilter in Hsv, Hv, Hi, Hs, Hf.
  assert (Hcf : check_files fl = check_files_with ge fl) by (unfold check_files; rewrite Hge_fl; reflexivity).
  assert (Hca : check_files fa = check_files_with ge fa) by (unfold check_files; rewrite Hge_fa; reflexivity).
  assert (Hvf : valid_files fl = valid_files fa).
  { unfold valid_files. rewrite Hge_fl, Hge_fa. symmetry. exact Hsv. }
  rewrite Hcf, Hca. repeat split; auto.
  intros mp mv. unfold create. rewrite Hcf, Hca, Hvf, <- Hf.
  unfold cf_err. rewrite <- Hs, <- Hi. reflexivity.
Qed.
