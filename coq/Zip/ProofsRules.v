(* checkFiles classifies by a fixed decision list (C17): the class of a file is [rule] of its
   path, mode, size, the go-version regime, the nested-module directories and the files
   before it that reach the collision check; without collisions the classes do not depend on
   the order of the list.  Exported: class, reaches, coll_after, rule, class_in, grows,
   step_rule, step_coll, rinv, classification_by_rules, FOP_perm, reach_items,
   coll_after_repr, rule_nocoll, rule_nocoll_eq, same_set, have_gomod_perm,
   classification_nocoll, order_independence, order_independence_valid, is_coll_err,
   no_collision_report_free. *)
From Verif.Base Require Import Bytes PathClean.
From Verif.Gen Require Import GenConsts.
From Verif.Module Require Import Path PathProofs.
From Verif.Zip Require Import Check ProofsPath ProofsColl ProofsClass ProofsZip.
From Coq Require Import Sorting.Permutation.


Inductive class := CValid | COmitted (e : ferr) | CInvalid (e : ferr).

(* the file gets as far as the collision check *)
Definition reaches (ge : bool) (have : list str) (f : file) : bool :=
  match pre_class ge have (f_path f) with Some _ => false | None => f_lstat_ok f end.

(* the collision checker after the files `earlier`: only those that reach it matter, and of
   those only the path and whether it is a directory *)
Definition coll_after (ge : bool) (have : list str) (earlier : list file) : coll :=
  fold_left (fun cc f =>
               if reaches ge have f
               then fst (cc_check (S (length (f_path f))) cc (f_path f) (is_dir_mode (f_mode f)))
               else cc) earlier [].

(* the decision list of checkFiles for one file, given the go-version regime, the nested-module
   directories and the state of the collision checker *)
Definition rule (ge : bool) (have : list str) (cc : coll) (f : file) : class :=
  let p := f_path f in
  if gomod_named p && negb (f_lstat_ok f) then CInvalid FE_Lstat
  else match pre_class ge have p with
       | Some (true, e) => COmitted e
       | Some (false, e) => CInvalid e
       | None =>
           if negb (f_lstat_ok f) then CInvalid FE_Lstat
           else match snd (cc_check (S (length p)) cc p (is_dir_mode (f_mode f))) with
                | CCErr e => CInvalid e
                | CCFuel => CInvalid FE_Lstat   (* excluded: cc_check_no_fuel *)
                | CCOk =>
                    match f_mode f with
                    | MSymlink => COmitted FE_Symlink
                    | MDir | MOther => COmitted FE_NotRegular
                    | MRegular =>
                        if str_eqb p go_mod && (zip_MaxGoMod <? f_size f) then CInvalid FE_GoModSize
                        else if str_eqb p (B "LICENSE") && (zip_MaxLICENSE <? f_size f)
                             then CInvalid FE_LicenseSize
                        else CValid
                    end
                end
       end.

Definition class_in_state (st : cstate) (p : str) (c : class) : Prop :=
  match c with
  | CValid => In p (map f_path (s_valid st))
  | COmitted e => In (p, e) (s_omitted st)
  | CInvalid e => In (p, e) (s_invalid st)
  end.

Definition class_in (cf : checked) (p : str) (c : class) : Prop :=
  match c with
  | CValid => In p (c_valid cf)
  | COmitted e => In (p, e) (c_omitted cf)
  | CInvalid e => In (p, e) (c_invalid cf)
  end.

(* lists only grow *)
Definition grows (a b : cstate) : Prop :=
  (forall x, In x (s_valid a) -> In x (s_valid b)) /\
  (forall x, In x (s_omitted a) -> In x (s_omitted b)) /\
  (forall x, In x (s_invalid a) -> In x (s_invalid b)).

Lemma grows_refl a : grows a a.
Proof. repeat split; auto. Qed.

Lemma grows_trans a b c : grows a b -> grows b c -> grows a c.
Proof. intros (A1 & A2 & A3) (B1 & B2 & B3). repeat split; auto. Qed.

Lemma grows_add_error st p om e : grows st (add_error st p om e).
Proof.
  destruct (add_error_spec st p om e) as [[_ ->]|(_ & _ & Hv & _ & _ & Hc)]; [apply grows_refl|].
  destruct Hc as [(_ & Ho & Hi)|(_ & Ho & Hi)]; repeat split; rewrite ?Hv, ?Ho, ?Hi; auto;
    intros x Hx; apply in_or_app; now left.
Qed.

Lemma same_lists_grows a b : same_lists a b -> grows b a.
Proof. intros (_ & H2 & H3 & H4). repeat split; rewrite ?H2, ?H3, ?H4; auto. Qed.

Lemma grows_step ge have st f : grows st (step ge have st f).
Proof.
  destruct (step_cases ge have st f) as [st0 om e Hs _ ->|st0 Hs _ _ _ ->|Hs _].
  - eapply grows_trans; [apply same_lists_grows; exact Hs|apply grows_add_error].
  - eapply grows_trans; [apply same_lists_grows; exact Hs|].
    repeat split; cbn; auto. intros x Hx. apply in_or_app. now left.
  - apply same_lists_grows. exact Hs.
Qed.

Lemma grows_class a b p c : grows a b -> class_in_state a p c -> class_in_state b p c.
Proof.
  intros (G1 & G2 & G3). destruct c; cbn; auto.
  intros H. apply in_map_iff in H. destruct H as (f & <- & Hf). apply in_map. auto.
Qed.

Lemma add_error_class st p om e :
  ~ In p (s_errpaths st) ->
  class_in_state (add_error st p om e) p (if om then COmitted e else CInvalid e).
Proof.
  intros Hn. destruct (add_error_spec st p om e) as [[Hin _]|(_ & _ & _ & _ & _ & Hc)]; [contradiction|].
  destruct Hc as [(Hom & Ho & _)|(Hom & _ & Hi)]; subst om; cbn [class_in_state];
    [rewrite Ho|rewrite Hi]; apply in_or_app; right; now left.
Qed.

Lemma add_error_coll st p om e : s_coll (add_error st p om e) = s_coll st.
Proof. destruct (add_error_spec st p om e) as [[_ ->]|(_ & _ & _ & _ & H & _)]; [reflexivity|exact H]. Qed.

Lemma account_size_coll st sz : s_coll (account_size st sz) = s_coll st.
Proof. unfold account_size. destruct (_ && _); reflexivity. Qed.

Lemma account_size_errpaths st sz : s_errpaths (account_size st sz) = s_errpaths st.
Proof. unfold account_size. destruct (_ && _); reflexivity. Qed.

(* one iteration classifies its file by the rule, unless the path was reported before *)
Lemma step_rule ge have st f :
  ~ In (f_path f) (s_errpaths st) ->
  gomod_named (f_path f) && negb (f_lstat_ok f) = false ->
  class_in_state (step ge have st f) (f_path f) (rule ge have (s_coll st) f) /\
  s_coll (step ge have st f) =
    (if reaches ge have f
     then fst (cc_check (S (length (f_path f))) (s_coll st) (f_path f) (is_dir_mode (f_mode f)))
     else s_coll st).
Proof.
  intros Hn Hg. unfold rule, step, reaches. rewrite Hg.
  destruct (pre_class ge have (f_path f)) as [[om e]|] eqn:Ep.
  { split; [|apply add_error_coll]. pose proof (add_error_class st (f_path f) om e Hn) as H. destruct om; exact H. }
  destruct (f_lstat_ok f) eqn:Hl; cbn [negb].
  2:{ split; [|apply add_error_coll]. apply (add_error_class st (f_path f) false FE_Lstat Hn). }
  destruct (pre_class_none _ _ _ Ep) as (_ & _ & _ & _ & _ & Hcf & _).
  pose proof (cc_check_no_fuel (s_coll st) (f_path f) (is_dir_mode (f_mode f)) Hcf) as Hnf.
  destruct (cc_check (S (length (f_path f))) (s_coll st) (f_path f) (is_dir_mode (f_mode f))) as [cc' r] eqn:Ecc.
  cbn [fst snd] in *.
  assert (Hn' : ~ In (f_path f) (s_errpaths (set_coll st cc'))) by exact Hn.
  destruct r as [|err|]; [| |contradiction].
  2:{ split; [|rewrite add_error_coll; reflexivity]. apply (add_error_class _ _ false err Hn'). }
  destruct (f_mode f) eqn:Hm.
  - assert (Hn2 : ~ In (f_path f) (s_errpaths (account_size (set_coll st cc') (f_size f)))) by (rewrite account_size_errpaths; exact Hn).
    destruct (str_eqb (f_path f) go_mod && (zip_MaxGoMod <? f_size f)).
    { split; [|rewrite add_error_coll, account_size_coll; reflexivity]. apply (add_error_class _ _ false FE_GoModSize Hn2). }
    destruct (str_eqb (f_path f) (B "LICENSE") && (zip_MaxLICENSE <? f_size f)).
    { split; [|rewrite add_error_coll, account_size_coll; reflexivity]. apply (add_error_class _ _ false FE_LicenseSize Hn2). }
    split; [|cbn; rewrite account_size_coll; reflexivity].
    cbn. rewrite map_app. apply in_or_app. right. now left.
  - split; [|rewrite add_error_coll; reflexivity]. apply (add_error_class _ _ true FE_NotRegular Hn').
  - split; [|rewrite add_error_coll; reflexivity]. apply (add_error_class _ _ true FE_Symlink Hn').
  - split; [|rewrite add_error_coll; reflexivity]. apply (add_error_class _ _ true FE_NotRegular Hn').
Qed.

Lemma step_coll ge have st f :
  s_coll (step ge have st f) =
    (if reaches ge have f
     then fst (cc_check (S (length (f_path f))) (s_coll st) (f_path f) (is_dir_mode (f_mode f)))
     else s_coll st).
Proof.
  unfold step, reaches.
  destruct (pre_class ge have (f_path f)) as [[om e]|]; [apply add_error_coll|].
  destruct (f_lstat_ok f); cbn [negb]; [|apply add_error_coll].
  destruct (cc_check _ _ _ _) as [cc' r]. cbn [fst].
  destruct r; [|rewrite add_error_coll; reflexivity|reflexivity].
  destruct (f_mode f); try (rewrite add_error_coll; reflexivity).
  destruct (_ && _); [rewrite add_error_coll, account_size_coll; reflexivity|].
  destruct (_ && _); [rewrite add_error_coll, account_size_coll; reflexivity|].
  cbn. rewrite account_size_coll. reflexivity.
Qed.

Lemma step_errpaths ge have st f q :
  In q (s_errpaths (step ge have st f)) -> In q (s_errpaths st) \/ q = f_path f.
Proof.
  destruct (step_cases ge have st f) as [st0 om e (Hs & _) _ ->|st0 (Hs & _) _ _ _ ->|(Hs & _) _].
  - destruct (add_error_spec st0 (f_path f) om e) as [[_ ->]|(_ & He & _)].
    + rewrite Hs. auto.
    + rewrite He, Hs. intros H. apply in_app_or in H. destruct H as [H|[<-|[]]]; auto.
  - cbn. rewrite Hs. auto.
  - rewrite Hs. auto.
Qed.

Definition lstat_gomod (g : file) : bool := gomod_named (f_path g) && negb (f_lstat_ok g).

Record rinv (ge : bool) (have : list str) (all done : list file) (st : cstate) : Prop := {
  ri_inv : inv all done st;
  ri_coll : s_coll st = coll_after ge have done;
  ri_rule : forall pre f post, done = pre ++ f :: post ->
            class_in_state st (f_path f) (rule ge have (coll_after ge have pre) f);
  ri_p1 : forall g, In g all -> lstat_gomod g = true -> In (f_path g, FE_Lstat) (s_invalid st);
  ri_p2 : forall p, In p (s_errpaths st) ->
          In p (map f_path done) \/ exists g, In g all /\ f_path g = p /\ lstat_gomod g = true }.

Lemma coll_after_snoc ge have done f :
  coll_after ge have (done ++ [f]) =
  (if reaches ge have f
   then fst (cc_check (S (length (f_path f))) (coll_after ge have done) (f_path f) (is_dir_mode (f_mode f)))
   else coll_after ge have done).
Proof. unfold coll_after. rewrite fold_left_app. reflexivity. Qed.

Lemma snoc_prefix_cases' (A : Type) (l : list A) x a b :
  l ++ [x] = a ++ b -> (b = [] /\ a = l ++ [x]) \/ (exists b', l = a ++ b' /\ b = b' ++ [x]).
Proof.
  assert (Hb : b = [] \/ exists b' y, b = b' ++ [y]).
  { destruct b as [|z b]; [now left|right]. destruct (@exists_last _ (z :: b)) as (b' & y & E); [discriminate|eauto]. }
  destruct Hb as [->|(b' & y & ->)].
  - rewrite app_nil_r. intros <-. left. auto.
  - rewrite app_assoc. intros E. apply app_inj_tail in E. destruct E as [-> ->]. right. eauto.
Qed.

Lemma snoc_eq_cons_cases (A : Type) (l : list A) x pre y post :
  l ++ [x] = pre ++ y :: post -> (post = [] /\ pre = l /\ y = x) \/ (exists post', l = pre ++ y :: post' /\ post = post' ++ [x]).
Proof.
  intros E. destruct (snoc_prefix_cases' A l x pre (y :: post) E) as [[H _]|(b' & El & Eb)]; [discriminate|].
  destruct b' as [|z b'].
  - cbn in Eb. injection Eb as -> ->. left. rewrite app_nil_r in El. auto.
  - cbn in Eb. injection Eb as -> ->. right. eauto.
Qed.

Lemma NoDup_paths_unique (all : list file) f g :
  NoDup (map f_path all) -> In f all -> In g all -> f_path g = f_path f -> g = f.
Proof.
  intros Hnd Hf Hg Hp. induction all as [|x l IH]; [contradiction|].
  cbn in Hnd. inversion Hnd as [|? ? Hx Hl]; subst.
  destruct Hg as [->|Hg], Hf as [->|Hf]; auto.
  - exfalso. apply Hx. rewrite Hp. now apply in_map.
  - exfalso. apply Hx. rewrite <- Hp. now apply in_map.
Qed.

Lemma step_rinv ge have all done f rest st :
  all = done ++ f :: rest -> NoDup (map f_path all) ->
  rinv ge have all done st -> rinv ge have all (done ++ [f]) (step ge have st f).
Proof.
  intros Hall Hnd [I C R P1 P2].
  assert (Hfin : In f all) by (subst all; apply in_or_app; right; now left).
  assert (Hnew : ~ In (f_path f) (map f_path done)).
  { subst all. rewrite map_app in Hnd. cbn in Hnd. apply NoDup_remove_2 in Hnd.
    intros H. apply Hnd. apply in_or_app. now left. }
  assert (Huniq : forall g, In g all -> f_path g = f_path f -> g = f).
  { intros g Hg Hp. eapply NoDup_paths_unique; eauto. }
  split.
  - apply step_inv; auto.
  - rewrite coll_after_snoc, step_coll, C. reflexivity.
  - intros pre g post E. destruct (snoc_eq_cons_cases _ _ _ _ _ _ E) as [ (Ha & Hb & Hc) | (post' & E' & _) ]; [subst post pre g|].
    + destruct (lstat_gomod f) eqn:Hg.
      * unfold rule. unfold lstat_gomod in Hg. rewrite Hg.
        eapply grows_class; [apply grows_step|]. cbn. apply P1; assumption.
      * rewrite <- C. apply step_rule; [|exact Hg].
        intros Hin. destruct (P2 _ Hin) as [H|(g & Hgin & Hp & Hlg)]; [contradiction|].
        apply Huniq in Hp; [|exact Hgin]. subst g. congruence.
    + eapply grows_class; [apply grows_step|]. apply (R pre g post' E').
  - intros g Hg Hl. destruct (grows_step ge have st f) as (_ & _ & G). apply G. apply P1; assumption.
  - intros p Hp. apply step_errpaths in Hp. destruct Hp as [Hp|Hp]; [|subst p].
    + destruct (P2 p Hp) as [H|H]; [left; rewrite map_app; apply in_or_app; now left|now right].
    + left. rewrite map_app. apply in_or_app. right. now left.
Qed.

Lemma pass2_rinv ge have all : forall rest done st,
  all = done ++ rest -> NoDup (map f_path all) ->
  rinv ge have all done st -> rinv ge have all all (pass2 ge have rest st).
Proof.
  induction rest as [|f rest IH]; intros done st Hall Hnd Ri.
  - rewrite app_nil_r in Hall. subst done. exact Ri.
  - cbn [pass2 fold_left]. apply (IH (done ++ [f])); [rewrite <- app_assoc; exact Hall|exact Hnd|].
    eapply step_rinv; eauto.
Qed.

(* the first loop: Lstat errors of go.mod-named files are recorded at once *)
Lemma pass1_rinv_aux all : forall l st,
  (forall f, In f l -> In f all) ->
  (forall p, In p (s_errpaths st) -> In (p, FE_Lstat) (s_invalid st) /\
                                     exists g, In g all /\ f_path g = p /\ lstat_gomod g = true) ->
  let st' := pass1_errs l st in
  (forall p, In p (s_errpaths st') -> In (p, FE_Lstat) (s_invalid st') /\
                                      exists g, In g all /\ f_path g = p /\ lstat_gomod g = true) /\
  (forall g, In g l -> lstat_gomod g = true -> In (f_path g, FE_Lstat) (s_invalid st')) /\
  grows st st' /\ s_coll st' = s_coll st.
Proof.
  induction l as [|f l IH]; intros st Hsub Q; cbn zeta.
  - split; [exact Q|]. split; [intros g []|]. split; [apply grows_refl|reflexivity].
  - set (st1 := if gomod_named (f_path f) && negb (f_lstat_ok f) then add_error st (f_path f) false FE_Lstat else st).
    change (pass1_errs (f :: l) st) with (pass1_errs l st1).
    assert (Q1 : forall p, In p (s_errpaths st1) -> In (p, FE_Lstat) (s_invalid st1) /\
                           exists g, In g all /\ f_path g = p /\ lstat_gomod g = true).
    { unfold st1. destruct (gomod_named (f_path f) && negb (f_lstat_ok f)) eqn:E; [|exact Q].
      destruct (add_error_spec st (f_path f) false FE_Lstat) as [[_ ->]|(_ & He & _ & _ & _ & Hc)]; [exact Q|].
      destruct Hc as [(Hx & _)|(_ & _ & Hi)]; [discriminate|].
      intros p Hp. rewrite He in Hp. rewrite Hi. apply in_app_or in Hp. destruct Hp as [Hp|[<-|[]]].
      - destruct (Q p Hp) as [H1 H2]. split; [apply in_or_app; now left|exact H2].
      - split; [apply in_or_app; right; now left|]. exists f. split; [apply Hsub; now left|]. split; [reflexivity|exact E]. }
    assert (G1 : grows st st1 /\ s_coll st1 = s_coll st).
    { unfold st1. destruct (_ && _); [split; [apply grows_add_error|apply add_error_coll]|split; [apply grows_refl|reflexivity]]. }
    destruct (IH st1 (fun g Hg => Hsub g (or_intror Hg)) Q1) as (A & Bq & Gr & Cc).
    split; [exact A|]. split; [|split; [eapply grows_trans; [apply G1|exact Gr]|rewrite Cc; apply G1]].
    intros g [<-|Hg] Hl; [|apply Bq; assumption].
    assert (Hin : In (f_path f, FE_Lstat) (s_invalid st1)).
    { unfold st1. unfold lstat_gomod in Hl. rewrite Hl.
      destruct (add_error_spec st (f_path f) false FE_Lstat) as [[Hin ->]|(_ & _ & _ & _ & _ & Hc)].
      - apply (Q _ Hin).
      - destruct Hc as [(Hx & _)|(_ & _ & Hi)]; [discriminate|]. rewrite Hi. apply in_or_app. right. now left. }
    destruct Gr as (_ & _ & G3). apply G3. exact Hin.
Qed.

Lemma check_files_state_rinv ge files :
  NoDup (map f_path files) ->
  rinv ge (have_gomod files) files files (check_files_state ge files).
Proof.
  intros Hnd. unfold check_files_state.
  apply (pass2_rinv ge (have_gomod files) files files [] _ eq_refl Hnd).
  destruct (pass1_rinv_aux files files cstate0 (fun f H => H)) as (A & Bq & Gr & Cc).
  { intros p []. }
  destruct (pass1_inv files files cstate0 (fun f H => H) (inv_cstate0 files) eq_refl) as [I Hv].
  split.
  - exact I.
  - rewrite Cc. reflexivity.
  - intros pre f post E. destruct pre; discriminate.
  - intros g Hg Hl. apply Bq; assumption.
  - intros p Hp. right. apply (A p Hp).
Qed.

(* the class of every file of a list with distinct paths is given by the rule, whose context is
   only the go-version regime, the nested-module directories of the list and the files before
   it that reach the collision check *)
Theorem classification_by_rules ge files pre f post :
  NoDup (map f_path files) -> files = pre ++ f :: post ->
  class_in (check_files_with ge files) (f_path f)
           (rule ge (have_gomod files) (coll_after ge (have_gomod files) pre) f).
Proof.
  intros Hnd E. destruct (check_files_state_rinv ge files Hnd) as [_ _ R _ _].
  specialize (R pre f post E). unfold check_files_with, checked_of.
  destruct (rule _ _ _ f); exact R.
Qed.

Lemma FOP_perm (A : Type) (R : A -> A -> Prop) :
  (forall x y, R x y -> R y x) ->
  forall l l', Permutation l l' -> ForallOrdPairs R l -> ForallOrdPairs R l'.
Proof.
  intros Hsym l l' P. induction P as [|x l l' P IH|x y l|l1 l2 l3 P1 IH1 P2 IH2]; intros H.
  - constructor.
  - inversion H as [|? ? Hx Hl]; subst. constructor; [|apply IH; exact Hl].
    eapply Permutation_Forall; eassumption.
  - inversion H as [|? ? Hy Hl]; subst. inversion Hl as [|? ? Hx Hl']; subst.
    inversion Hy as [|? ? Hyx Hyl]; subst.
    constructor; [constructor; [apply Hsym; exact Hyx|exact Hx]|]. constructor; assumption.
  - auto.
Qed.

(* what the files that reach the collision check register *)
Definition reach_items (ge : bool) (have : list str) (files : list file) : list item :=
  flat_map (fun f => if reaches ge have f then items_of (f_path f) (is_dir_mode (f_mode f)) else []) files.

Lemma reach_items_snoc ge have l f :
  reach_items ge have (l ++ [f]) =
  reach_items ge have l ++ (if reaches ge have f then items_of (f_path f) (is_dir_mode (f_mode f)) else []).
Proof. unfold reach_items. rewrite flat_map_app. cbn. now rewrite app_nil_r. Qed.

Lemma reaches_cfp ge have f : reaches ge have f = true -> check_file_path (f_path f) = None.
Proof.
  unfold reaches. destruct (pre_class ge have (f_path f)) eqn:E; [discriminate|]. intros _.
  apply (pre_class_none _ _ _ E).
Qed.

(* without collisions the collision checker holds exactly the registered paths *)
Lemma coll_after_repr ge have : forall l,
  coll_free (reach_items ge have l) -> repr (coll_after ge have l) (reach_items ge have l).
Proof.
  induction l as [|f l IH] using rev_ind; intros F; [apply repr_nil|].
  rewrite reach_items_snoc in *. rewrite coll_after_snoc.
  assert (F0 : coll_free (reach_items ge have l)) by (apply FOP_app in F; apply F).
  specialize (IH F0).
  destruct (reaches ge have f) eqn:Hr; [|rewrite app_nil_r; exact IH].
  rewrite (cc_check_items _ _ _ (reaches_cfp _ _ _ Hr)).
  destruct (cc_chain_complete _ _ _ IH F) as [cc' Hc]. rewrite Hc. cbn [fst].
  apply (cc_chain_ok _ _ _ _ IH F0 Hc).
Qed.

Lemma cc_check_ok_of_free ge have pre f post :
  coll_free (reach_items ge have (pre ++ f :: post)) -> reaches ge have f = true ->
  snd (cc_check (S (length (f_path f))) (coll_after ge have pre) (f_path f) (is_dir_mode (f_mode f))) = CCOk.
Proof.
  intros F Hr. rewrite app_cons_assoc in F. unfold reach_items in F. rewrite flat_map_app in F.
  apply FOP_app in F. destruct F as [F _]. fold (reach_items ge have (pre ++ [f])) in F.
  rewrite reach_items_snoc, Hr in F.
  assert (F0 : coll_free (reach_items ge have pre)) by (apply FOP_app in F; apply F).
  rewrite (cc_check_items _ _ _ (reaches_cfp _ _ _ Hr)).
  destruct (cc_chain_complete _ _ _ (coll_after_repr ge have pre F0) F) as [cc' Hc]. now rewrite Hc.
Qed.

(* the rule when the collision check succeeds *)
Definition rule_nocoll (ge : bool) (have : list str) (f : file) : class :=
  let p := f_path f in
  if gomod_named p && negb (f_lstat_ok f) then CInvalid FE_Lstat
  else match pre_class ge have p with
       | Some (true, e) => COmitted e
       | Some (false, e) => CInvalid e
       | None =>
           if negb (f_lstat_ok f) then CInvalid FE_Lstat
           else match f_mode f with
                | MSymlink => COmitted FE_Symlink
                | MDir | MOther => COmitted FE_NotRegular
                | MRegular =>
                    if str_eqb p go_mod && (zip_MaxGoMod <? f_size f) then CInvalid FE_GoModSize
                    else if str_eqb p (B "LICENSE") && (zip_MaxLICENSE <? f_size f)
                         then CInvalid FE_LicenseSize
                    else CValid
                end
       end.

Lemma rule_nocoll_eq ge have pre f post :
  coll_free (reach_items ge have (pre ++ f :: post)) ->
  rule ge have (coll_after ge have pre) f = rule_nocoll ge have f.
Proof.
  intros F. unfold rule, rule_nocoll.
  destruct (gomod_named (f_path f) && negb (f_lstat_ok f)); [reflexivity|].
  destruct (pre_class ge have (f_path f)) as [[om e]|] eqn:Ep; [reflexivity|].
  destruct (f_lstat_ok f) eqn:Hl; cbn [negb]; [|reflexivity].
  rewrite (cc_check_ok_of_free ge have pre f post F); [reflexivity|].
  unfold reaches. rewrite Ep. exact Hl.
Qed.

Definition same_set (h h' : list str) : Prop := forall d, In d h <-> In d h'.

Lemma existsb_str_mem_ext h h' d : same_set h h' -> existsb (str_eqb d) h = existsb (str_eqb d) h'.
Proof.
  intros S. destruct (existsb (str_eqb d) h) eqn:E1, (existsb (str_eqb d) h') eqn:E2; try reflexivity.
  - apply existsb_str_eqb_In in E1. apply S in E1. apply existsb_str_eqb_In in E1. congruence.
  - apply existsb_str_eqb_In in E2. apply S in E2. apply existsb_str_eqb_In in E2. congruence.
Qed.

Lemma in_submodule_ext h h' p : same_set h h' -> in_submodule h p = in_submodule h' p.
Proof.
  intros S. unfold in_submodule. induction (slash_prefixes p) as [|d l IH]; [reflexivity|].
  cbn [existsb]. rewrite IH, (existsb_str_mem_ext h h' d S). reflexivity.
Qed.

Lemma pre_class_ext ge h h' p : same_set h h' -> pre_class ge h p = pre_class ge h' p.
Proof. intros S. unfold pre_class. rewrite (in_submodule_ext h h' p S). reflexivity. Qed.

Lemma reaches_ext ge h h' f : same_set h h' -> reaches ge h f = reaches ge h' f.
Proof. intros S. unfold reaches. rewrite (pre_class_ext ge h h' _ S). reflexivity. Qed.

Lemma rule_nocoll_ext ge h h' f : same_set h h' -> rule_nocoll ge h f = rule_nocoll ge h' f.
Proof. intros S. unfold rule_nocoll. rewrite (pre_class_ext ge h h' _ S). reflexivity. Qed.

Lemma have_gomod_perm files files' : Permutation files files' -> same_set (have_gomod files) (have_gomod files').
Proof.
  intros P d. unfold have_gomod. rewrite !in_map_iff. split; intros (f & E & Hf); exists f; split; auto;
    apply filter_In in Hf; apply filter_In; destruct Hf as [Hf Hc]; split; auto.
  - eapply Permutation_in; eauto.
  - eapply Permutation_in; [apply Permutation_sym|]; eauto.
Qed.

Lemma reach_items_ext ge h h' l : same_set h h' -> reach_items ge h l = reach_items ge h' l.
Proof.
  intros S. unfold reach_items. apply flat_map_ext. intros f. rewrite (reaches_ext ge h h' f S). reflexivity.
Qed.

Lemma reach_items_perm ge h l l' : Permutation l l' -> Permutation (reach_items ge h l) (reach_items ge h l').
Proof.
  intros P. unfold reach_items. induction P as [|x l l' P IH|x y l|l1 l2 l3 P1 IH1 P2 IH2]; cbn [flat_map].
  - constructor.
  - apply Permutation_app_head. exact IH.
  - rewrite !app_assoc. apply Permutation_app_tail. apply Permutation_app_comm.
  - eapply Permutation_trans; eassumption.
Qed.

Lemma in_split_file (l : list file) f : In f l -> exists pre post, l = pre ++ f :: post.
Proof. apply in_split. Qed.

(* without collisions every file is classified by the collision-free rule, in any order *)
Theorem classification_nocoll ge files f :
  NoDup (map f_path files) -> coll_free (reach_items ge (have_gomod files) files) -> In f files ->
  class_in (check_files_with ge files) (f_path f) (rule_nocoll ge (have_gomod files) f).
Proof.
  intros Hnd F Hin. destruct (in_split_file files f Hin) as (pre & post & E).
  pose proof (classification_by_rules ge files pre f post Hnd E) as H.
  rewrite (rule_nocoll_eq ge (have_gomod files) pre f post) in H; [exact H|rewrite <- E; exact F].
Qed.

Theorem order_independence ge files files' :
  Permutation files files' -> NoDup (map f_path files) ->
  coll_free (reach_items ge (have_gomod files) files) ->
  coll_free (reach_items ge (have_gomod files') files') /\
  (forall f, In f files ->
     class_in (check_files_with ge files) (f_path f) (rule_nocoll ge (have_gomod files) f) /\
     class_in (check_files_with ge files') (f_path f) (rule_nocoll ge (have_gomod files) f)).
Proof.
  intros P Hnd F.
  pose proof (have_gomod_perm files files' P) as S.
  assert (Hnd' : NoDup (map f_path files')) by (eapply Permutation_NoDup; [apply Permutation_map; exact P|exact Hnd]).
  assert (F' : coll_free (reach_items ge (have_gomod files') files')).
  { rewrite <- (reach_items_ext ge (have_gomod files) (have_gomod files') files' S).
    eapply (FOP_perm _ compat compat_sym); [apply reach_items_perm; exact P|exact F]. }
  split; [exact F'|]. intros f Hin. split.
  - apply classification_nocoll; assumption.
  - rewrite (rule_nocoll_ext ge (have_gomod files) (have_gomod files') f S).
    apply classification_nocoll; try assumption. eapply Permutation_in; eauto.
Qed.

Lemma count_one_excl (a b c : list str) p :
  count_occ str_eq_dec (a ++ b ++ c) p = 1%nat -> In p a -> ~ In p b /\ ~ In p c.
Proof.
  rewrite !count_occ_app. intros H Ha.
  apply (count_occ_In str_eq_dec) in Ha.
  split; intros Hx; apply (count_occ_In str_eq_dec) in Hx; lia.
Qed.

(* the set Valid does not depend on the order of the list when there are no collisions *)
Theorem order_independence_valid ge files files' :
  Permutation files files' -> NoDup (map f_path files) ->
  coll_free (reach_items ge (have_gomod files) files) ->
  forall p, In p (c_valid (check_files_with ge files)) <-> In p (c_valid (check_files_with ge files')).
Proof.
  intros P Hnd F.
  assert (Hnd' : NoDup (map f_path files')) by (eapply Permutation_NoDup; [apply Permutation_map; exact P|exact Hnd]).
  destruct (order_independence ge files files' P Hnd F) as [F' Hc].
  assert (Key : forall l, NoDup (map f_path l) ->
            (forall f, In f l -> class_in (check_files_with ge l) (f_path f) (rule_nocoll ge (have_gomod files) f)) ->
            forall p, In p (c_valid (check_files_with ge l)) ->
            exists f, In f l /\ f_path f = p /\ rule_nocoll ge (have_gomod files) f = CValid).
  { intros l Hl Hcl p Hp.
    destruct (classification_total_exclusive ge l Hl) as [Hcount Hsub].
    assert (Hpl : In p (map f_path l)) by (apply Hsub; unfold listed; apply in_or_app; now left).
    apply in_map_iff in Hpl. destruct Hpl as (f & Hfp & Hf). exists f. split; [exact Hf|]. split; [exact Hfp|].
    specialize (Hcl f Hf). rewrite Hfp in Hcl.
    assert (Hpl : In p (map f_path l)) by (apply in_map_iff; exists f; split; assumption).
    specialize (Hcount p Hpl).
    unfold listed in Hcount. destruct (count_one_excl _ _ _ p Hcount Hp) as [Hno Hni].
    destruct (rule_nocoll ge (have_gomod files) f) as [|e|e]; [reflexivity| |]; cbn in Hcl; exfalso.
    - apply Hno. apply in_map_iff. exists (p, e). split; [reflexivity|exact Hcl].
    - apply Hni. apply in_map_iff. exists (p, e). split; [reflexivity|exact Hcl]. }
  intros p. split; intros Hp.
  - destruct (Key files Hnd (fun f Hf => proj1 (Hc f Hf)) p Hp) as (f & Hf & <- & Hv).
    pose proof (proj2 (Hc f Hf)) as H. rewrite Hv in H. exact H.
  - destruct (Key files' Hnd' (fun f Hf => proj2 (Hc f (Permutation_in _ (Permutation_sym P) Hf))) p Hp) as (f & Hf & <- & Hv).
    pose proof (proj1 (Hc f (Permutation_in _ (Permutation_sym P) Hf))) as H. rewrite Hv in H. exact H.
Qed.

Definition is_coll_err (e : ferr) : bool :=
  match e with FE_CollCase | FE_CollFileDir | FE_CollMultiple => true | _ => false end.

Lemma cc_chain_err_kind items : forall cc e, snd (cc_chain cc items) = CCErr e -> is_coll_err e = true.
Proof.
  induction items as [|[p d] rest IH]; intros cc e; cbn; [discriminate|].
  destruct (cc_lookup _ cc) as [[op od]|]; [|apply IH].
  destruct (negb _); [cbn; intros [= <-]; reflexivity|].
  destruct (negb _); [cbn; intros [= <-]; reflexivity|].
  destruct (negb d); [cbn; intros [= <-]; reflexivity|apply IH].
Qed.

(* "no collisions", read off the report: if no file is reported with a collision error then the
   registered paths are collision-free (for distinct paths) *)
Theorem no_collision_report_free ge files :
  NoDup (map f_path files) ->
  (forall p e, In (p, e) (c_invalid (check_files_with ge files)) -> is_coll_err e = false) ->
  coll_free (reach_items ge (have_gomod files) files).
Proof.
  intros Hnd Hno. set (have := have_gomod files).
  assert (K : forall pre post, files = pre ++ post ->
            coll_free (reach_items ge have pre) /\ repr (coll_after ge have pre) (reach_items ge have pre)).
  { induction pre as [|f pre IH] using rev_ind; intros post E.
    - split; [constructor|apply repr_nil].
    - rewrite <- app_assoc in E. cbn [app] in E. destruct (IH (f :: post) E) as [F R].
      rewrite reach_items_snoc, coll_after_snoc.
      destruct (reaches ge have f) eqn:Hr; [|rewrite app_nil_r; split; assumption].
      pose proof (classification_by_rules ge files pre f post Hnd E) as Hc. fold have in Hc.
      pose proof (reaches_cfp _ _ _ Hr) as Hcf.
      rewrite (cc_check_items _ _ _ Hcf) in *.
      destruct (cc_chain (coll_after ge have pre) (items_of (f_path f) (is_dir_mode (f_mode f)))) as [cc' r] eqn:Ec.
      destruct r as [|e|].
      + cbn [fst]. destruct (cc_chain_ok _ _ _ _ R F Ec) as [R' F']. split; assumption.
      + exfalso. unfold rule in Hc. unfold reaches in Hr.
        destruct (pre_class ge have (f_path f)) eqn:Ep; [discriminate|].
        assert (Hg : gomod_named (f_path f) && negb (f_lstat_ok f) = false) by (rewrite Hr; apply andb_false_r).
        rewrite Hg, Hr in Hc. cbn [negb] in Hc.
        rewrite (cc_check_items _ _ _ Hcf), Ec in Hc. cbn [snd class_in] in Hc.
        pose proof (cc_chain_err_kind _ (coll_after ge have pre) e ltac:(rewrite Ec; reflexivity)) as Hk.
        rewrite (Hno _ _ Hc) in Hk. discriminate.
      + exfalso. pose proof (cc_chain_no_fuel (items_of (f_path f) (is_dir_mode (f_mode f))) (coll_after ge have pre)) as Hn.
        rewrite Ec in Hn. apply Hn. reflexivity. }
  destruct (K files [] (eq_sym (app_nil_r _))) as [F _]. exact F.
Qed.
