(* Proofs about the zip model (Zip/Check.v): classification of files by checkFiles. *)
From Verif.Base Require Import Bytes PathClean.
From Verif.Zip Require Import Check.

Lemma add_error_valid st p om e : s_valid (add_error st p om e) = s_valid st.
Proof. unfold add_error. destruct (existsb _ _); [reflexivity|]. destruct om; reflexivity. Qed.
