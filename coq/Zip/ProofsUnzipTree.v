(* zip.Unzip on accepted archives: extraction into an absent or empty directory succeeds
   exactly when checkZip accepts and the declared sizes are met, and builds exactly the tree
   of the file entries.  Exported: abs_path_inj, at_, mkdir_all_ok, tfile, tree_inv,
   extract_one, chain_items_mem, done_of, sizes_ok, extract_ok, tree_inv_init,
   extract_sizes, unzip_ok_tree, unzip_ok_iff, unzip_tree_is_entries. *)
From Verif.Base Require Import Bytes PathClean.
From Verif.Gen Require Import GenConsts.
From Verif.Module Require Import Path PathProofs.
From Verif.Zip Require Import Check Fs Unzip ProofsPath ProofsColl ProofsZip ProofsUnzip.


Lemma abs_path_inj a b :
  Forall good_elem a -> Forall good_elem b -> abs_path a = abs_path b -> a = b.
Proof.
  intros Ha Hb E. unfold abs_path in E. injection E as E.
  destruct a as [|x a], b as [|y b]; [reflexivity| | |].
  - exfalso. symmetry in E. eapply join_slash_nil_iff; [exact Hb|discriminate|exact E].
  - exfalso. eapply join_slash_nil_iff; [exact Ha|discriminate|exact E].
  - rewrite <- (split_join (x :: a)), <- (split_join (y :: b)); try discriminate; try (apply good_elem_no47; assumption).
    now rewrite E.
Qed.

Lemma snoc_prefix_cases (A : Type) (l : list A) x a b :
  l ++ [x] = a ++ b -> (b = [] /\ a = l ++ [x]) \/ (exists b', l = a ++ b' /\ b = b' ++ [x]).
Proof.
  assert (Hb : b = [] \/ exists b' y, b = b' ++ [y]).
  { destruct b as [|z b]; [now left|right]. destruct (@exists_last _ (z :: b)) as (b' & y & E); [discriminate|eauto]. }
  destruct Hb as [->|(b' & y & ->)].
  - rewrite app_nil_r. intros <-. left. auto.
  - rewrite app_assoc. intros E. apply app_inj_tail in E. destruct E as [-> ->]. right. eauto.
Qed.

Section Below.
Variable ds : list str.
Hypothesis Hd : ds <> [].
Hypothesis Hgd : Forall good_elem ds.

(* the path of the element list a below the target directory abs_path ds *)
Definition at_ (a : list str) : str := abs_path (ds ++ a).

Lemma at_nil : at_ [] = abs_path ds.
Proof. unfold at_. now rewrite app_nil_r. Qed.

Lemma at_inj a b : Forall good_elem a -> Forall good_elem b -> at_ a = at_ b -> a = b.
Proof.
  intros Ha Hb E. unfold at_ in E. apply abs_path_inj in E; try (apply Forall_app; split; assumption).
  now apply app_inv_head in E.
Qed.

Lemma at_not_root a : Forall good_elem a -> str_eqb (at_ a) [47] = false.
Proof.
  intros Ha. apply abs_path_not_root; [destruct ds; [contradiction|discriminate]|apply Forall_app; split; assumption].
Qed.

Lemma at_dir l x : Forall good_elem l -> good_elem x -> path_dir (at_ (l ++ [x])) = at_ l.
Proof.
  intros Hl Hx. unfold at_. rewrite app_assoc. apply path_dir_abs_snoc; [apply Forall_app; split; assumption|exact Hx].
Qed.

Lemma at_under a : a <> [] -> Forall good_elem a -> under (abs_path ds) (at_ a).
Proof. intros Ha Hg. apply under_abs; assumption. Qed.

Lemma good_prefix (ps a b : list str) : Forall good_elem ps -> ps = a ++ b -> Forall good_elem a /\ Forall good_elem b.
Proof. intros H ->. now apply Forall_app in H. Qed.

(* MkdirAll of a directory below the target: it succeeds when no ancestor is a file, makes
   every ancestor a directory, keeps what exists, and creates nothing but missing ancestors *)
Lemma mkdir_all_ok s : fs_lookup s (at_ []) = Some FDir ->
  forall ps fuel, Forall good_elem ps ->
  (forall a b c, ps = a ++ b -> fs_lookup s (at_ a) <> Some (FFile c)) ->
  (forall a b, ps = a ++ b -> fs_lookup s (at_ a) = Some FDir ->
     forall a1 a2, a = a1 ++ a2 -> fs_lookup s (at_ a1) = Some FDir) ->
  (length ps <= fuel)%nat ->
  exists mevs, mkdir_all fuel s (at_ ps) = MkOk mevs /\
    (forall a b, ps = a ++ b -> fs_lookup (apply_events s mevs) (at_ a) = Some FDir) /\
    (forall q, fs_lookup s q <> None -> fs_lookup (apply_events s mevs) q = fs_lookup s q) /\
    (forall q n, fs_lookup (apply_events s mevs) q = Some n ->
       fs_lookup s q = Some n \/ (n = FDir /\ exists a b, ps = a ++ b /\ a <> [] /\ q = at_ a)).
Proof.
  intros Hdir. induction ps as [|x l IH] using rev_ind; intros fuel Hg Hnf Hcl Hfuel.
  - exists []. split.
    + destruct fuel; cbn [mkdir_all]; rewrite Hdir; reflexivity.
    + split; [|split; [reflexivity|intros q n H; now left]].
      intros a b E. symmetry in E. apply app_eq_nil in E. destruct E as [-> _]. exact Hdir.
  - apply Forall_app in Hg. destruct Hg as [Hgl Hgx]. inversion Hgx as [|? ? Hx _]; subst.
    destruct (fs_lookup s (at_ (l ++ [x]))) as [[c|]|] eqn:L.
    + exfalso. apply (Hnf (l ++ [x]) [] c); [now rewrite app_nil_r|exact L].
    + exists []. split; [destruct fuel; cbn [mkdir_all]; rewrite L; reflexivity|].
      split; [|split; [reflexivity|intros q n H; now left]].
      intros a b E. cbn. apply (Hcl (l ++ [x]) [] (eq_sym (app_nil_r _)) L a b E).
    + destruct fuel as [|fuel]; [rewrite app_length in Hfuel; cbn in Hfuel; lia|].
      destruct (IH fuel Hgl) as (mevs & Hm & E1 & E5 & E6).
      * intros a b c E. apply (Hnf a (b ++ [x]) c). rewrite E, app_assoc. reflexivity.
      * intros a b E. apply (Hcl a (b ++ [x])). rewrite E, app_assoc. reflexivity.
      * rewrite app_length in Hfuel. cbn in Hfuel. lia.
      * exists (mevs ++ [EvMkdir (at_ (l ++ [x]))]). split.
        { cbn [mkdir_all]. rewrite L. rewrite at_not_root by (apply Forall_app; split; assumption).
          rewrite at_dir by assumption. rewrite Hm. reflexivity. }
        split; [|split].
        { intros a b E. rewrite apply_events_app. cbn [apply_events fold_left apply_event].
          rewrite fs_lookup_set.
          destruct (snoc_prefix_cases _ _ _ _ _ E) as [[-> ->]|(b' & -> & ->)].
          - now rewrite str_eqb_refl.
          - destruct (str_eqb_spec (at_ a) (at_ ((a ++ b') ++ [x]))) as [Eq|_]; [reflexivity|].
            apply (E1 a b'). reflexivity. }
        { intros q Hq. rewrite apply_events_app. cbn [apply_events fold_left apply_event].
          rewrite fs_lookup_set.
          destruct (str_eqb_spec q (at_ (l ++ [x]))) as [->|_]; [congruence|]. apply E5. exact Hq. }
        { intros q n. rewrite apply_events_app. cbn [apply_events fold_left apply_event].
          rewrite fs_lookup_set.
          destruct (str_eqb_spec q (at_ (l ++ [x]))) as [->|_].
          - intros [= <-]. right. split; [reflexivity|]. exists (l ++ [x]), [].
            split; [now rewrite app_nil_r|split; [destruct l; discriminate|reflexivity]].
          - intros H. destruct (E6 q n H) as [H'|(-> & a & b & -> & Ha & ->)]; [now left|right].
            split; [reflexivity|]. exists a, (b ++ [x]). split; [now rewrite app_assoc|split; [exact Ha|reflexivity]]. }
Qed.

End Below.

Section Tree.
Variable ds : list str.
Hypothesis Hd : ds <> [].
Hypothesis Hgd : Forall good_elem ds.
Local Notation at' := (at_ ds).
Local Notation dir := (abs_path ds).

(* a file extracted so far: its path elements below the target, and its content *)
Definition tfile := (list str * str)%type.

(* the part of the file system below the target is exactly the extracted files and their
   ancestor directories *)
Record tree_inv (done : list tfile) (s : fs) : Prop := {
  ti_dir : fs_lookup s (at' []) = Some FDir;
  ti_sound : forall q, under dir q ->
     match fs_lookup s q with
     | Some (FFile c) => exists ps, In (ps, c) done /\ q = at' ps
     | Some FDir => exists ps c a b, In (ps, c) done /\ ps = a ++ b /\ a <> [] /\ b <> [] /\ q = at' a
     | None => True
     end;
  ti_files : forall ps c, In (ps, c) done -> fs_lookup s (at' ps) = Some (FFile c);
  ti_dirs : forall ps c a b, In (ps, c) done -> ps = a ++ b -> a <> [] -> b <> [] ->
            fs_lookup s (at' a) = Some FDir;
  ti_good : Forall (fun t : tfile => fst t <> [] /\ Forall good_elem (fst t)) done }.

Lemma length_at_ge a : (length a < length (at' a))%nat.
Proof.
  unfold at_, abs_path. cbn [length]. pose proof (length_join_ge (ds ++ a)) as H.
  rewrite app_length in H. destruct ds; [contradiction|]. cbn [length] in *. lia.
Qed.

(* extracting one more file whose path does not clash with the files so far *)
Lemma extract_one done s ps' pe c :
  tree_inv done s ->
  Forall good_elem ps' -> good_elem pe ->
  (* no ancestor-or-self of the new path is an extracted file *)
  (forall ps2 c2 a b, In (ps2, c2) done -> ps' ++ [pe] = a ++ b -> a <> ps2) ->
  (* the new path is not an ancestor directory of an extracted file *)
  (forall ps2 c2 b, In (ps2, c2) done -> b <> [] -> ps2 <> (ps' ++ [pe]) ++ b) ->
  let dst := at' (ps' ++ [pe]) in
  exists mevs,
    mkdir_all (length dst) s (at' ps') = MkOk mevs /\
    create_excl_ok (apply_events s mevs) dst = true /\
    tree_inv (done ++ [(ps' ++ [pe], c)])
             (apply_events (apply_events s mevs) [EvCreate dst; EvWrite dst c]).
Proof.
  intros [Tdir Tsound Tfiles Tdirs Tgood] Hg' Hge C1 C2 dst.
  assert (Hgps : Forall good_elem (ps' ++ [pe])) by (apply Forall_app; split; [exact Hg'|constructor; [exact Hge|constructor]]).
  assert (Hdone_good : forall ps2 c2, In (ps2, c2) done -> ps2 <> [] /\ Forall good_elem ps2).
  { intros ps2 c2 Hin. rewrite Forall_forall in Tgood. apply (Tgood _ Hin). }
  (* MkdirAll(parent) *)
  destruct (mkdir_all_ok ds Hd Hgd s Tdir ps' (length dst) Hg') as (mevs & Hm & E1 & E5 & E6).
  { intros a b c0 E L.
    destruct a as [|a0 a']; [rewrite Tdir in L; discriminate|].
    destruct (good_prefix _ _ _ Hg' E) as [Hga _].
    assert (Hne0 : a0 :: a' <> []) by discriminate.
    pose proof (Tsound (at' (a0 :: a')) (at_under ds Hd _ Hne0 Hga)) as S. rewrite L in S.
    destruct S as (ps2 & Hin & Eq). destruct (Hdone_good _ _ Hin) as [_ Hg2].
    apply (at_inj ds Hgd) in Eq; [|exact Hga|exact Hg2]. subst ps2.
    apply (C1 _ _ (a0 :: a') (b ++ [pe]) Hin); [rewrite E, app_assoc; reflexivity|reflexivity]. }
  { intros a b E L a1 a2 Ea.
    destruct a1 as [|x a1']; [exact Tdir|].
    destruct (good_prefix _ _ _ Hg' E) as [Hga _].
    assert (Hane : a <> []) by (rewrite Ea; discriminate).
    pose proof (Tsound (at' a) (at_under ds Hd _ Hane Hga)) as S. rewrite L in S.
    destruct S as (ps2 & c2 & a' & b' & Hin & Eps & Ha' & Hb' & Eq).
    destruct (Hdone_good _ _ Hin) as [_ Hg2]. destruct (good_prefix _ _ _ Hg2 Eps) as [Hga' _].
    apply (at_inj ds Hgd) in Eq; [|exact Hga|exact Hga']. subst a'.
    apply (Tdirs ps2 c2 (x :: a1') (a2 ++ b') Hin); [rewrite Eps, Ea, app_assoc; reflexivity|discriminate|].
    destruct a2; [exact Hb'|discriminate]. }
  { pose proof (length_at_ge (ps' ++ [pe])) as H. unfold dst. rewrite app_length in H. cbn [length] in H. lia. }
  exists mevs. split; [exact Hm|].
  set (s1 := apply_events s mevs) in *.
  (* the destination does not exist yet *)
  assert (Hdst_s : fs_lookup s dst = None).
  { assert (Hne0 : ps' ++ [pe] <> []) by (destruct ps'; discriminate).
    pose proof (Tsound dst (at_under ds Hd _ Hne0 Hgps)) as S.
    destruct (fs_lookup s dst) as [[c0|]|] eqn:L; [| |reflexivity]; exfalso.
    - destruct S as (ps2 & Hin & Eq). destruct (Hdone_good _ _ Hin) as [_ Hg2].
      apply (at_inj ds Hgd) in Eq; [|exact Hgps|exact Hg2]. subst ps2.
      apply (C1 _ _ (ps' ++ [pe]) [] Hin); [now rewrite app_nil_r|reflexivity].
    - destruct S as (ps2 & c2 & a' & b' & Hin & Eps & Ha' & Hb' & Eq).
      destruct (Hdone_good _ _ Hin) as [_ Hg2]. destruct (good_prefix _ _ _ Hg2 Eps) as [Hga' _].
      apply (at_inj ds Hgd) in Eq; [|exact Hgps|exact Hga']. subst a'.
      apply (C2 _ _ b' Hin Hb'). exact Eps. }
  assert (Hdst_s1 : fs_lookup s1 dst = None).
  { destruct (fs_lookup s1 dst) as [n|] eqn:L; [|reflexivity]. exfalso.
    destruct (E6 _ _ L) as [H|(_ & a & b & E & Ha & Eq)]; [congruence|].
    destruct (good_prefix _ _ _ Hg' E) as [Hga _].
    apply (at_inj ds Hgd) in Eq; [|exact Hgps|exact Hga].
    apply (f_equal (@length str)) in Eq. rewrite E in Eq. rewrite !app_length in Eq. cbn in Eq. lia. }
  assert (Hpar : path_dir dst = at' ps') by (apply (at_dir ds Hgd); assumption).
  split.
  { unfold create_excl_ok. rewrite Hdst_s1, Hpar. rewrite (E1 ps' [] (eq_sym (app_nil_r _))). reflexivity. }
  (* the new invariant *)
  assert (Hlk : forall q, fs_lookup (apply_events s1 [EvCreate dst; EvWrite dst c]) q =
                          if str_eqb q dst then Some (FFile c) else fs_lookup s1 q).
  { intros q. cbn [apply_events fold_left apply_event]. rewrite !fs_lookup_set.
    destruct (str_eqb q dst); reflexivity. }
  assert (Hne_dst : forall a, Forall good_elem a -> a <> ps' ++ [pe] -> str_eqb (at' a) dst = false).
  { intros a Hga Hne. destruct (str_eqb_spec (at' a) dst) as [Eq|]; [|reflexivity].
    apply (at_inj ds Hgd) in Eq; [contradiction|exact Hga|exact Hgps]. }
  split.
  - rewrite Hlk, Hne_dst; [|constructor|destruct ps'; discriminate]. apply (E1 [] ps'). reflexivity.
  - intros q Hq. rewrite Hlk. destruct (str_eqb_spec q dst) as [->|Hqd].
    + exists (ps' ++ [pe]). split; [apply in_or_app; right; now left|reflexivity].
    + destruct (fs_lookup s1 q) as [n|] eqn:L; [|exact I].
      destruct (E6 _ _ L) as [H|(-> & a & b & E & Ha & ->)].
      * pose proof (Tsound q Hq) as S. rewrite H in S. destruct n as [c0|].
        -- destruct S as (ps2 & Hin & Eq). exists ps2. split; [apply in_or_app; now left|exact Eq].
        -- destruct S as (ps2 & c2 & a' & b' & Hin & Rest). exists ps2, c2, a', b'.
           split; [apply in_or_app; now left|exact Rest].
      * exists (ps' ++ [pe]), c, a, (b ++ [pe]).
        split; [apply in_or_app; right; now left|]. split; [rewrite E, app_assoc; reflexivity|].
        split; [exact Ha|]. split; [destruct b; discriminate|reflexivity].
  - intros ps2 c2 Hin. rewrite Hlk. apply in_app_or in Hin. destruct Hin as [Hin|[[= <- <-]|[]]].
    + destruct (Hdone_good _ _ Hin) as [_ Hg2].
      rewrite Hne_dst; [|exact Hg2|].
      * rewrite E5; [apply (Tfiles _ _ Hin)|rewrite (Tfiles _ _ Hin); discriminate].
      * intros ->. apply (C1 _ _ (ps' ++ [pe]) [] Hin); [now rewrite app_nil_r|reflexivity].
    + now rewrite str_eqb_refl.
  - intros ps2 c2 a b Hin Eps Ha Hb. rewrite Hlk. apply in_app_or in Hin. destruct Hin as [Hin|[[= <- <-]|[]]].
    + destruct (Hdone_good _ _ Hin) as [_ Hg2]. destruct (good_prefix _ _ _ Hg2 Eps) as [Hga _].
      rewrite Hne_dst; [|exact Hga|].
      * rewrite E5; [apply (Tdirs _ _ _ _ Hin Eps Ha Hb)|rewrite (Tdirs _ _ _ _ Hin Eps Ha Hb); discriminate].
      * intros ->. apply (C2 _ _ b Hin Hb). exact Eps.
    + destruct (snoc_prefix_cases _ _ _ _ _ Eps) as [[-> _]|(b' & E & _)]; [contradiction|].
      destruct (good_prefix _ _ _ Hg' E) as [Hga _].
      rewrite Hne_dst; [apply (E1 a b' E)|exact Hga|].
      intros Eq. apply (f_equal (@length str)) in Eq. rewrite E in Eq. rewrite !app_length in Eq. cbn in Eq. lia.
  - apply Forall_app. split; [exact Tgood|constructor; [|constructor]]. cbn [fst].
    split; [destruct ps'; discriminate|exact Hgps].
Qed.

End Tree.

(* every non-empty prefix of the elements is visited by the chain *)
Lemma chain_mem : forall rels a b, rev rels = a ++ b -> a <> [] -> In (join_slash a) (chain rels).
Proof.
  induction rels as [|e r IH]; intros a b E Ha.
  - cbn in E. destruct a; [contradiction|discriminate].
  - cbn [chain]. cbn [rev] in E.
    destruct (snoc_prefix_cases _ _ _ _ _ E) as [[_ ->]|(b' & E' & _)].
    + left. reflexivity.
    + right. apply (IH a b' E' Ha).
Qed.

(* ... and registered: the full path with the entry's own kind, proper prefixes as directories *)
Lemma chain_items_mem ps a b d :
  ps = a ++ b -> a <> [] ->
  In (join_slash a, match b with [] => d | _ => true end) (chain_items (rev ps) d).
Proof.
  intros E Ha. destruct (rev ps) as [|e r] eqn:Er.
  - exfalso. apply (f_equal (@rev str)) in Er. rewrite rev_involutive in Er. cbn in Er. subst ps.
    destruct a; [contradiction|discriminate].
  - cbn [chain_items].
    assert (Hps : ps = rev r ++ [e]) by (rewrite <- (rev_involutive ps), Er; reflexivity).
    destruct b as [|y b'].
    + rewrite app_nil_r in E. subst a. left. now rewrite <- Er, rev_involutive.
    + right. apply in_map_iff. exists (join_slash a). split; [reflexivity|].
      rewrite Hps in E.
      destruct (snoc_prefix_cases _ _ _ _ _ E) as [[H _]|(b'' & E' & _)]; [discriminate|].
      apply (chain_mem r a b'' E' Ha).
Qed.

Section Extract.
Variable ds : list str.
Hypothesis Hd : ds <> [].
Hypothesis Hgd : Forall good_elem ds.
Variable prefix : str.
Local Notation at' := (at_ ds).
Local Notation dir := (abs_path ds).

(* the files among the entries, as (path elements, content) *)
Definition done_of (es : list entry) : list tfile :=
  map (fun e => (split_on 47 (entry_rest prefix e), e_content e)) (file_entries prefix es).

Lemma done_of_app a b : done_of (a ++ b) = done_of a ++ done_of b.
Proof. unfold done_of, file_entries. now rewrite filter_app, map_app. Qed.

Definition sizes_ok (es : list entry) : Prop :=
  Forall (fun e => len (e_content e) = e_usize e) (file_entries prefix es).

(* a file entry accepted by checkZip: its rest is a valid path *)
Lemma file_entry_path e :
  entry_ok prefix e -> is_file_entry prefix e = true ->
  let name := entry_rest prefix e in
  is_nil_s name = false /\ has_suffix name [47] = false /\ check_file_path name = None /\
  exists ps' pe, split_on 47 name = ps' ++ [pe] /\ name = join_slash (ps' ++ [pe]) /\
                 Forall good_elem ps' /\ good_elem pe.
Proof.
  intros [_ Hok] Hf. cbn zeta. unfold is_file_entry in Hf. apply andb_true_iff in Hf.
  destruct Hf as [Hn Hdir]. apply negb_true_iff in Hn, Hdir.
  destruct Hok as [Hok|Hok]; [rewrite Hok in Hn; discriminate|].
  cbn zeta in Hok. rewrite (has_suffix_slash_false_entry_name _ Hdir) in Hok. destruct Hok as (Hcf & _).
  split; [exact Hn|]. split; [exact Hdir|]. split; [exact Hcf|].
  destruct (check_file_path_elems _ Hcf) as (els & Hne & Hname & Hg & Hsp).
  destruct (@exists_last _ els Hne) as (ps' & pe & ->).
  apply Forall_app in Hg. destruct Hg as [Hg' Hge]. inversion Hge; subst.
  exists ps', pe. auto.
Qed.

Lemma entry_items_file e :
  entry_ok prefix e -> is_file_entry prefix e = true ->
  entry_items prefix e = chain_items (rev (split_on 47 (entry_rest prefix e))) false.
Proof.
  intros Hok Hf. destruct (file_entry_path e Hok Hf) as (Hn & Hdir & _).
  unfold entry_items. rewrite Hn. change (has_suffix (entry_rest prefix e) [47]) with (entry_is_dir (entry_rest prefix e)) in Hdir.
  rewrite Hdir, (has_suffix_slash_false_entry_name _ Hdir). reflexivity.
Qed.

Lemma join_slash_inj a b :
  a <> [] -> b <> [] -> Forall good_elem a -> Forall good_elem b -> join_slash a = join_slash b -> a = b.
Proof.
  intros Ha Hb Hga Hgb E.
  rewrite <- (split_join a), <- (split_join b); try assumption; try (apply good_elem_no47; assumption).
  now rewrite E.
Qed.

(* the extraction loop on accepted entries with matching sizes succeeds and builds the tree *)
Lemma extract_ok : forall rest processed s acc,
  Forall (entry_ok prefix) (processed ++ rest) ->
  coll_free (flat_map (entry_items prefix) (processed ++ rest)) ->
  tree_inv ds (done_of processed) s ->
  sizes_ok rest ->
  exists evs, extract_entries dir prefix rest s acc = (UzOk, acc ++ evs) /\
              tree_inv ds (done_of (processed ++ rest)) (apply_events s evs).
Proof.
  induction rest as [|e rest IH]; intros processed s acc Hok Hfree T Hsz.
  - exists []. cbn. rewrite !app_nil_r. split; [reflexivity|exact T].
  - assert (Hoke : entry_ok prefix e).
    { apply Forall_app in Hok. destruct Hok as [_ H]. inversion H; assumption. }
    cbn [extract_entries].
    destruct (is_file_entry prefix e) eqn:Hf.
    2:{ (* skipped: the prefix alone or a directory entry *)
      assert (Hskip : is_nil_s (skipn (length prefix) (e_name e)) || has_suffix (skipn (length prefix) (e_name e)) [47] = true).
      { unfold is_file_entry, entry_rest, entry_is_dir in Hf.
        destruct (is_nil_s _); [reflexivity|]. cbn [negb andb orb] in *. now apply negb_false_iff in Hf. }
      rewrite Hskip.
      destruct (IH (processed ++ [e]) s acc) as (evs & He & T').
      + rewrite <- app_cons_assoc. exact Hok.
      + rewrite <- app_cons_assoc. exact Hfree.
      + rewrite done_of_app. unfold done_of at 2, file_entries. cbn [filter]. rewrite Hf. cbn [map]. rewrite app_nil_r. exact T.
      + unfold sizes_ok, file_entries in *. cbn [filter] in Hsz. rewrite Hf in Hsz. exact Hsz.
      + exists evs. split; [exact He|]. rewrite app_cons_assoc. exact T'. }
    destruct (file_entry_path e Hoke Hf) as (Hn & Hdir & Hcf & ps' & pe & Hsp & Hname & Hg' & Hge).
    unfold entry_rest in Hn, Hdir. rewrite Hn, Hdir. cbn [orb].
    fold (entry_rest prefix e).
    assert (Hgps : Forall good_elem (ps' ++ [pe])) by (apply Forall_app; split; [exact Hg'|constructor; [exact Hge|constructor]]).
    assert (Hdst : filepath_join dir (entry_rest prefix e) = at' (ps' ++ [pe])).
    { rewrite Hname. apply filepath_join_abs; auto. destruct ps'; discriminate. }
    rewrite Hdst. unfold filepath_dir. rewrite (at_dir ds Hgd ps' pe Hg' Hge).
    (* the entry's registered paths are compatible with those of every earlier entry *)
    assert (Hcompat : forall e2 x y, In e2 (file_entries prefix processed) ->
              In x (entry_items prefix e2) -> In y (entry_items prefix e) -> compat x y).
    { intros e2 x y He2 Hx Hy. unfold coll_free in Hfree.
      rewrite flat_map_app in Hfree. cbn [flat_map] in Hfree. apply FOP_app in Hfree.
      destruct Hfree as (_ & _ & H). rewrite Forall_forall in H.
      assert (Hx' : In x (flat_map (entry_items prefix) processed)).
      { apply in_flat_map. exists e2. split; [|exact Hx]. unfold file_entries in He2. apply filter_In in He2. apply He2. }
      specialize (H x Hx'). rewrite Forall_forall in H. apply H. apply in_or_app. now left. }
    assert (Hitems : entry_items prefix e = chain_items (rev (ps' ++ [pe])) false).
    { rewrite (entry_items_file e Hoke Hf), Hsp. reflexivity. }
    assert (Hdone : forall ps2 c2, In (ps2, c2) (done_of processed) ->
              exists e2, In e2 (file_entries prefix processed) /\ ps2 <> [] /\ Forall good_elem ps2 /\
                         entry_items prefix e2 = chain_items (rev ps2) false).
    { intros ps2 c2 Hin. unfold done_of in Hin. apply in_map_iff in Hin. destruct Hin as (e2 & [= <- <-] & He2).
      exists e2. split; [exact He2|].
      assert (Hok2 : entry_ok prefix e2).
      { apply Forall_app in Hok. destruct Hok as [H _]. rewrite Forall_forall in H. apply H.
        unfold file_entries in He2. apply filter_In in He2. apply He2. }
      assert (Hf2 : is_file_entry prefix e2 = true) by (unfold file_entries in He2; apply filter_In in He2; apply He2).
      destruct (file_entry_path e2 Hok2 Hf2) as (_ & _ & _ & q' & qe & Hsp2 & _ & Hgq' & Hgqe).
      rewrite Hsp2. split; [destruct q'; discriminate|]. split.
      - apply Forall_app. split; [exact Hgq'|constructor; [exact Hgqe|constructor]].
      - rewrite (entry_items_file e2 Hok2 Hf2), Hsp2. reflexivity. }
    destruct (extract_one ds Hd Hgd (done_of processed) s ps' pe (e_content e) T Hg' Hge) as (mevs & Hm & Hex & T').
    { (* C1 *)
      intros ps2 c2 a b Hin E Ea. subst a.
      destruct (Hdone _ _ Hin) as (e2 & He2 & Hne2 & Hg2 & Hi2).
      pose proof (chain_items_mem (ps' ++ [pe]) ps2 b false E Hne2) as Hy. rewrite <- Hitems in Hy.
      pose proof (chain_items_mem ps2 ps2 [] false (eq_sym (app_nil_r _)) Hne2) as Hx. rewrite <- Hi2 in Hx.
      destruct (Hcompat e2 _ _ He2 Hx Hy eq_refl) as (_ & Hfalse & _). discriminate. }
    { (* C2 *)
      intros ps2 c2 b Hin Hb E.
      destruct (Hdone _ _ Hin) as (e2 & He2 & Hne2 & Hg2 & Hi2).
      assert (Hne : ps' ++ [pe] <> []) by (destruct ps'; discriminate).
      pose proof (chain_items_mem ps2 (ps' ++ [pe]) b false E Hne) as Hx. rewrite <- Hi2 in Hx.
      pose proof (chain_items_mem (ps' ++ [pe]) (ps' ++ [pe]) [] false (eq_sym (app_nil_r _)) Hne) as Hy. rewrite <- Hitems in Hy.
      destruct b as [|b0 b']; [contradiction|].
      destruct (Hcompat e2 _ _ He2 Hx Hy eq_refl) as (_ & _ & Hfalse). discriminate. }
    cbn zeta in Hm, Hex, T'. rewrite Hm, Hex. cbn [negb].
    assert (Hsize : len (e_content e) =? e_usize e = true).
    { unfold sizes_ok, file_entries in Hsz. cbn [filter] in Hsz. rewrite Hf in Hsz. inversion Hsz; subst. apply Z.eqb_eq. assumption. }
    rewrite Hsize. cbn [negb].
    set (evs2 := [EvCreate (at' (ps' ++ [pe])); EvWrite (at' (ps' ++ [pe])) (e_content e)]) in *.
    destruct (IH (processed ++ [e]) (apply_events (apply_events s mevs) evs2) ((acc ++ mevs) ++ evs2)) as (evs & He & T'').
    + rewrite <- app_cons_assoc. exact Hok.
    + rewrite <- app_cons_assoc. exact Hfree.
    + rewrite done_of_app. unfold done_of at 2, file_entries. cbn [filter]. rewrite Hf. cbn [map]. rewrite Hsp. exact T'.
    + unfold sizes_ok, file_entries in *. cbn [filter] in Hsz. rewrite Hf in Hsz. inversion Hsz; assumption.
    + exists (mevs ++ evs2 ++ evs). split.
      * rewrite He. rewrite <- !app_assoc. reflexivity.
      * rewrite app_cons_assoc. rewrite !apply_events_app. exact T''.
Qed.

End Extract.

Lemma abs_path_prefix_len a b : (length (abs_path a) <= length (abs_path (a ++ b)))%nat.
Proof.
  unfold abs_path. cbn [length]. apply le_n_S.
  destruct a as [|x a]; [cbn; lia|]. destruct b as [|y b]; [rewrite app_nil_r; lia|].
  rewrite join_slash_app by discriminate. rewrite app_length. lia.
Qed.

(* MkdirAll(dir) creates ancestors of dir (or dir itself) only *)
Lemma mkdir_all_events_ancestors s : forall ds fuel evs,
  Forall good_elem ds -> mkdir_all fuel s (abs_path ds) = MkOk evs ->
  Forall (fun ev => exists a b, ds = a ++ b /\ ev_path ev = abs_path a) evs.
Proof.
  induction ds as [|x l IH] using rev_ind; intros fuel evs Hg H.
  - destruct fuel; cbn [mkdir_all] in H; destruct (fs_lookup s (abs_path [])) as [[c|]|]; try discriminate;
      try (injection H as <-; constructor).
  - apply Forall_app in Hg. destruct Hg as [Hgl Hgx]. inversion Hgx as [|? ? Hx _]; subst.
    destruct fuel; cbn [mkdir_all] in H; destruct (fs_lookup s (abs_path (l ++ [x]))) as [[c|]|]; try discriminate;
      try (injection H as <-; constructor).
    + destruct (str_eqb _ _); [injection H as <-; constructor|discriminate].
    + destruct (str_eqb _ _); [injection H as <-; constructor|].
      rewrite path_dir_abs_snoc in H by assumption.
      destruct (mkdir_all fuel s (abs_path l)) as [evs'| |] eqn:M; try discriminate. injection H as <-.
      apply Forall_app. split.
      * eapply Forall_impl; [|apply (IH fuel evs' Hgl M)].
        intros ev (a & b & -> & E). exists a, (b ++ [x]). split; [now rewrite app_assoc|exact E].
      * constructor; [|constructor]. exists (l ++ [x]), []. split; [now rewrite app_nil_r|reflexivity].
Qed.

Section UnzipOk.
Variable ds : list str.
Hypothesis Hd : ds <> [].
Hypothesis Hgd : Forall good_elem ds.
Local Notation dir := (abs_path ds).

Lemma tree_inv_init s evs0 :
  (forall q, under dir q -> fs_lookup s q = None) ->
  mkdir_all (length dir) s dir = MkOk evs0 ->
  tree_inv ds [] (apply_events s evs0).
Proof.
  intros Hempty Hm. split.
  - rewrite at_nil. apply mkdir_all_creates with (fuel := length dir); [apply abs_path_not_root; assumption|exact Hm].
  - intros q Hq. rewrite fs_lookup_apply_events; [rewrite (Hempty q Hq); exact I|].
    eapply Forall_impl; [|apply (mkdir_all_events_ancestors s ds _ evs0 Hgd Hm)].
    intros ev (a & b & E & Ep) Eq. destruct Hq as (rest & Hr & ->).
    rewrite Ep in Eq. apply (f_equal (@length Z)) in Eq.
    pose proof (abs_path_prefix_len a b) as Hl. rewrite <- E in Hl.
    rewrite app_length in Eq. cbn [length] in Eq. lia.
  - intros ps c [].
  - intros ps c a b [].
  - constructor.
Qed.

Lemma skip_iff_not_file prefix e :
  is_nil_s (skipn (length prefix) (e_name e)) || has_suffix (skipn (length prefix) (e_name e)) [47]
  = negb (is_file_entry prefix e).
Proof.
  unfold is_file_entry, entry_rest, entry_is_dir.
  destruct (is_nil_s _); [reflexivity|]. cbn [negb andb orb]. now rewrite negb_involutive.
Qed.

(* a successful extraction has met the declared size of every file entry *)
Lemma extract_sizes prefix : forall rest s acc evs,
  extract_entries dir prefix rest s acc = (UzOk, evs) -> sizes_ok prefix rest.
Proof.
  induction rest as [|e rest IH]; intros s acc evs H; [constructor|].
  cbn [extract_entries] in H. rewrite skip_iff_not_file in H.
  unfold sizes_ok, file_entries in *. cbn [filter].
  destruct (is_file_entry prefix e); cbn [negb] in H; [|eapply IH; exact H].
  destruct (mkdir_all _ _ _); try discriminate.
  destruct (negb (create_excl_ok _ _)); [discriminate|].
  destruct (len (e_content e) =? e_usize e) eqn:E; cbn [negb] in H; [|discriminate].
  constructor; [apply Z.eqb_eq; exact E|eapply IH; exact H].
Qed.

(* Unzip into an absent or empty directory succeeds exactly when the zip check accepts the
   archive and every file entry has the size it declares; then the tree below dir is the
   file entries *)
Theorem unzip_ok_tree s mp mv zs es :
  (forall q, under dir q -> fs_lookup s q = None) ->
  fs_has_children s dir = false ->
  (exists evs0, mkdir_all (length dir) s dir = MkOk evs0) ->
  let prefix := zip_prefix mp mv in
  ((exists evs, unzip s dir mp mv zs es = (UzOk, evs)) <->
   ((exists cf, check_zip mp mv zs es = (cf, None)) /\ sizes_ok prefix es)) /\
  (forall evs, unzip s dir mp mv zs es = (UzOk, evs) ->
     tree_inv ds (done_of prefix es) (apply_events s evs)).
Proof.
  intros Hempty Hch (evs0 & Hm) prefix.
  assert (Hfwd : forall cf, check_zip mp mv zs es = (cf, None) -> sizes_ok prefix es ->
            exists evs, unzip s dir mp mv zs es = (UzOk, evs0 ++ evs) /\
                        tree_inv ds (done_of prefix es) (apply_events s (evs0 ++ evs))).
  { intros cf Hz Hsz. unfold unzip. rewrite Hch, Hz.
    pose proof (check_zip_no_fuel mp mv zs es) as Hfu. rewrite Hz in Hfu. cbn [fst] in Hfu. rewrite Hfu, Hm.
    destruct (checkzip_accepts_spec _ _ _ _ _ Hz) as (_ & _ & Hok & Hfree & _).
    destruct (extract_ok ds Hd Hgd prefix es [] (apply_events s evs0) evs0 Hok Hfree
                (tree_inv_init s evs0 Hempty Hm) Hsz) as (evs & He & T).
    exists evs. split; [exact He|]. rewrite apply_events_app. exact T. }
  split; [split|].
  - intros (evs & H). unfold unzip in H. rewrite Hch in H.
    destruct (check_zip mp mv zs es) as [cf [e|]] eqn:Hz; [discriminate|].
    split; [eauto|]. destruct (c_fuel cf); [discriminate|]. rewrite Hm in H.
    eapply extract_sizes. exact H.
  - intros [(cf & Hz) Hsz]. destruct (Hfwd cf Hz Hsz) as (evs & He & _). eauto.
  - intros evs H.
    assert (Hz : exists cf, check_zip mp mv zs es = (cf, None)).
    { unfold unzip in H. rewrite Hch in H. destruct (check_zip mp mv zs es) as [cf [e|]]; [discriminate|eauto]. }
    destruct Hz as (cf & Hz).
    assert (Hsz : sizes_ok prefix es).
    { unfold unzip in H. rewrite Hch, Hz in H. destruct (c_fuel cf); [discriminate|]. rewrite Hm in H.
      eapply extract_sizes. exact H. }
    destruct (Hfwd cf Hz Hsz) as (evs' & He & T). rewrite He in H. injection H as <-. exact T.
Qed.

End UnzipOk.

Theorem unzip_ok_iff s dir mp mv zs es :
  clean_abs_dir dir ->
  (forall q, under dir q -> fs_lookup s q = None) ->
  fs_has_children s dir = false ->
  (exists evs0, mkdir_all (length dir) s dir = MkOk evs0) ->
  ((exists evs, unzip s dir mp mv zs es = (UzOk, evs)) <->
   ((exists cf, check_zip mp mv zs es = (cf, None)) /\
    Forall (fun e => len (e_content e) = e_usize e) (file_entries (zip_prefix mp mv) es))).
Proof.
  intros (ds & Hd & Hgd & ->) He Hc Hm.
  apply (unzip_ok_tree ds Hd Hgd s mp mv zs es He Hc Hm).
Qed.

Lemma at_as_string ds ps : ds <> [] -> ps <> [] -> at_ ds ps = abs_path ds ++ 47 :: join_slash ps.
Proof. intros Hd Hp. unfold at_. apply abs_path_app; assumption. Qed.

(* on success the files below dir are exactly the file entries (prefix stripped) with their
   contents, and the directories below dir are exactly their proper ancestors *)
Theorem unzip_tree_is_entries s dir mp mv zs es evs :
  clean_abs_dir dir ->
  (forall q, under dir q -> fs_lookup s q = None) ->
  fs_has_children s dir = false ->
  (exists evs0, mkdir_all (length dir) s dir = MkOk evs0) ->
  unzip s dir mp mv zs es = (UzOk, evs) ->
  let prefix := zip_prefix mp mv in
  let s' := apply_events s evs in
  fs_lookup s' dir = Some FDir /\
  (forall e, In e (file_entries prefix es) ->
     fs_lookup s' (dir ++ 47 :: entry_rest prefix e) = Some (FFile (e_content e))) /\
  (forall q c, under dir q -> fs_lookup s' q = Some (FFile c) ->
     exists e, In e (file_entries prefix es) /\ q = dir ++ 47 :: entry_rest prefix e /\ c = e_content e) /\
  (forall q, under dir q -> fs_lookup s' q = Some FDir ->
     exists e a b, In e (file_entries prefix es) /\ split_on 47 (entry_rest prefix e) = a ++ b /\
                   a <> [] /\ b <> [] /\ q = dir ++ 47 :: join_slash a) /\
  (forall e a b, In e (file_entries prefix es) -> split_on 47 (entry_rest prefix e) = a ++ b ->
     a <> [] -> b <> [] -> fs_lookup s' (dir ++ 47 :: join_slash a) = Some FDir).
Proof.
  intros (ds & Hd & Hgd & ->) He Hc Hm H. cbn zeta.
  destruct (unzip_ok_tree ds Hd Hgd s mp mv zs es He Hc Hm) as [_ HT].
  destruct (HT evs H) as [Tdir Tsound Tfiles Tdirs Tgood].
  set (prefix := zip_prefix mp mv) in *. set (s' := apply_events s evs) in *.
  assert (Hin_done : forall e, In e (file_entries prefix es) ->
            In (split_on 47 (entry_rest prefix e), e_content e) (done_of prefix es)).
  { intros e Hin. unfold done_of. apply in_map_iff. exists e. split; [reflexivity|exact Hin]. }
  assert (Hgood : forall ps c, In (ps, c) (done_of prefix es) -> ps <> []).
  { intros ps c Hin. rewrite Forall_forall in Tgood. apply (Tgood _ Hin). }
  split; [rewrite <- (at_nil ds); exact Tdir|]. split; [|split; [|split]].
  - intros e Hin. pose proof (Tfiles _ _ (Hin_done e Hin)) as L.
    rewrite at_as_string in L; [|exact Hd|apply (Hgood _ _ (Hin_done e Hin))].
    rewrite join_split in L. exact L.
  - intros q c Hq L. pose proof (Tsound q Hq) as S. rewrite L in S. destruct S as (ps & Hin & ->).
    unfold done_of in Hin. pose proof Hin as Hin'. apply in_map_iff in Hin. destruct Hin as (e & [= <- <-] & Hine).
    exists e. split; [exact Hine|]. split; [|reflexivity].
    rewrite at_as_string; [|exact Hd|apply (Hgood _ _ Hin')]. now rewrite join_split.
  - intros q Hq L. pose proof (Tsound q Hq) as S. rewrite L in S.
    destruct S as (ps & c & a & b & Hin & Eps & Ha & Hb & ->).
    unfold done_of in Hin. apply in_map_iff in Hin. destruct Hin as (e & [= <- <-] & Hine).
    exists e, a, b. repeat split; auto. apply at_as_string; assumption.
  - intros e a b Hin E Ha Hb. pose proof (Tdirs _ _ a b (Hin_done e Hin) E Ha Hb) as L.
    rewrite at_as_string in L; assumption.
Qed.
