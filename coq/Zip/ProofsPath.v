(* Lemmas about Base/PathClean.v on paths made of well-formed elements, and the link to
   module.CheckFilePath (Module/Path.v): an accepted file path is the "/"-join of good
   elements, is clean, and joins below a clean absolute directory without escaping.
   Exported: good_elem, split_join, join_split, clean_stack_good, path_clean_join_good,
   path_clean_abs_join, check_file_path_elems, check_file_path_clean, join_slash_snoc,
   join_slash_app, path_split_app, path_dir_join_snoc, abs_path, path_dir_abs_snoc,
   filepath_join_abs, check_file_path_no_escape. *)
From Verif.Base Require Import Bytes PathClean.
From Verif.Module Require Import Path PathProofs.


Definition good_elem (e : str) : Prop := e <> [] /\ ~ In 47 e /\ e <> dot /\ e <> dotdot.

(* ---- split_on / join_slash ---- *)

Lemma split_on_nonnil sep s : split_on sep s <> [].
Proof.
  induction s as [|c r IH]; cbn; [discriminate|].
  destruct (c =? sep); [discriminate|]. destruct (split_on sep r); [contradiction|discriminate].
Qed.

Lemma split_on_no_sep sep e : ~ In sep e -> split_on sep e = [e].
Proof.
  induction e as [|c r IH]; intros H; cbn; [reflexivity|].
  destruct (Z.eqb_spec c sep) as [->|Hn]; [exfalso; apply H; now left|].
  rewrite IH; [reflexivity|]. intros Hin. apply H. now right.
Qed.

Lemma split_on_app_sep sep e r : ~ In sep e -> split_on sep (e ++ sep :: r) = e :: split_on sep r.
Proof.
  induction e as [|c e IH]; intros H; cbn.
  - rewrite Z.eqb_refl. reflexivity.
  - destruct (Z.eqb_spec c sep) as [->|Hn]; [exfalso; apply H; now left|].
    rewrite IH; [reflexivity|]. intros Hin. apply H. now right.
Qed.

Lemma split_join els :
  els <> [] -> Forall (fun e => ~ In 47 e) els -> split_on 47 (join_slash els) = els.
Proof.
  induction els as [|e els IH]; intros Hne Hall; [contradiction|].
  inversion Hall as [|? ? He Hr]; subst.
  destruct els as [|e2 els].
  - cbn. apply split_on_no_sep. exact He.
  - change (join_slash (e :: e2 :: els)) with (e ++ 47 :: join_slash (e2 :: els)).
    rewrite split_on_app_sep by exact He. rewrite IH; [reflexivity|discriminate|exact Hr].
Qed.

Lemma join_split p : join_slash (split_on 47 p) = p.
Proof.
  induction p as [|c r IH]; [reflexivity|].
  cbn [split_on]. destruct (Z.eqb_spec c 47) as [->|Hn].
  - pose proof (split_on_nonnil 47 r) as Hnn.
    destruct (split_on 47 r) as [|h t] eqn:E; [contradiction|].
    change (join_slash ([] :: h :: t)) with ([] ++ 47 :: join_slash (h :: t)). rewrite IH. reflexivity.
  - pose proof (split_on_nonnil 47 r) as Hnn.
    destruct (split_on 47 r) as [|h t] eqn:E; [contradiction|].
    destruct t as [|h2 t].
    + cbn in *. now rewrite IH.
    + change (join_slash ((c :: h) :: h2 :: t)) with (c :: (h ++ 47 :: join_slash (h2 :: t))).
      change (join_slash (h :: h2 :: t)) with (h ++ 47 :: join_slash (h2 :: t)) in IH. now rewrite IH.
Qed.

Lemma split_on_no47 p : Forall (fun e => ~ In 47 e) (split_on 47 p).
Proof.
  induction p as [|c r IH]; cbn.
  - constructor; [intros []|constructor].
  - destruct (Z.eqb_spec c 47) as [->|Hn].
    + constructor; [intros []|exact IH].
    + destruct (split_on 47 r) as [|h t]; [constructor; [|constructor]|].
      * intros [H|[]]. congruence.
      * inversion IH; subst. constructor; [|assumption].
        intros [H|H]; [congruence|contradiction].
Qed.

(* ---- path.Clean on good elements ---- *)

Lemma good_not_special e : good_elem e -> is_nil_s e || str_eqb e dot = false /\ str_eqb e dotdot = false.
Proof.
  intros (H1 & _ & H3 & H4). split.
  - destruct e; [contradiction|]. cbn [is_nil_s orb].
    destruct (str_eqb_spec (z :: e) dot); [contradiction|reflexivity].
  - destruct (str_eqb_spec e dotdot); [contradiction|reflexivity].
Qed.

Lemma clean_stack_good rooted els : forall st,
  Forall good_elem els -> clean_stack rooted els st = rev els ++ st.
Proof.
  induction els as [|e els IH]; intros st H; [reflexivity|].
  inversion H as [|? ? He Hr]; subst. cbn [clean_stack].
  destruct (good_not_special e He) as [-> ->].
  rewrite IH by exact Hr. cbn [rev]. rewrite <- app_assoc. reflexivity.
Qed.

Lemma join_slash_nil_iff els : Forall good_elem els -> els <> [] -> join_slash els <> [].
Proof.
  intros H Hne. destruct els as [|e els]; [contradiction|].
  inversion H as [|? ? (He & _) _]; subst.
  destruct els; cbn; [exact He|]. destruct e; [contradiction|discriminate].
Qed.

Lemma join_slash_head els c r :
  Forall good_elem els -> join_slash els = c :: r -> c <> 47.
Proof.
  intros H E. destruct els as [|e els]; [discriminate|].
  inversion H as [|? ? (He & Hs & _) _]; subst.
  destruct e as [|c0 e]; [contradiction|].
  assert (c = c0) by (destruct els; cbn in E; congruence). subst c0.
  intros ->. apply Hs. now left.
Qed.

Theorem path_clean_join_good els :
  els <> [] -> Forall good_elem els -> path_clean (join_slash els) = join_slash els.
Proof.
  intros Hne H. unfold path_clean.
  destruct (join_slash els) as [|c r] eqn:E; [exfalso; eapply join_slash_nil_iff; eauto|].
  pose proof (join_slash_head els c r H E) as Hc.
  destruct (Z.eqb_spec c 47) as [->|_]; [contradiction|].
  rewrite <- E. rewrite split_join; [|exact Hne|].
  2:{ eapply Forall_impl; [|exact H]. intros e (_ & Hs & _). exact Hs. }
  rewrite clean_stack_good by exact H. rewrite app_nil_r, rev_involutive.
  rewrite E. reflexivity.
Qed.

Lemma good_elem_no47 els : Forall good_elem els -> Forall (fun e => ~ In 47 e) els.
Proof. apply Forall_impl. intros e (_ & Hs & _). exact Hs. Qed.

(* a rooted path: "/" ++ e1 ++ "/" ++ ... *)
Theorem path_clean_abs_join els :
  Forall good_elem els -> path_clean (47 :: join_slash els) = 47 :: join_slash els.
Proof.
  intros H. unfold path_clean. rewrite Z.eqb_refl.
  destruct els as [|e els].
  - cbn. reflexivity.
  - change (47 :: join_slash (e :: els)) with ([] ++ 47 :: join_slash (e :: els)).
    rewrite split_on_app_sep by (intros []).
    rewrite split_join; [|discriminate|apply good_elem_no47; exact H].
    change (clean_stack true ([] :: e :: els) []) with (clean_stack true (e :: els) []).
    rewrite (clean_stack_good true (e :: els) [] H).
    rewrite app_nil_r, rev_involutive. reflexivity.
Qed.

(* ---- check_file_path gives good elements ---- *)

Lemma forallb_dot_false_not_dots e :
  forallb (fun c => c =? 46) e = false -> e <> dot /\ e <> dotdot.
Proof. intros H. split; intros ->; discriminate. Qed.

Theorem check_file_path_elems p :
  check_file_path p = None ->
  exists els, els <> [] /\ p = join_slash els /\ Forall good_elem els /\ split_on 47 p = els.
Proof.
  intros H. apply check_path_none in H. destruct H as (_ & _ & _ & _ & _ & H).
  exists (split_on 47 p). split; [apply split_on_nonnil|]. split; [symmetry; apply join_split|]. split; [|reflexivity].
  pose proof (split_on_no47 p) as Hs.
  induction (split_on 47 p) as [|e l IH]; [constructor|].
  inversion H as [|? ? He Hl]; subst. inversion Hs as [|? ? Hse Hsl]; subst.
  constructor; [|apply IH; assumption].
  apply check_elem_none in He. destruct He as (Hn & Hd & _).
  destruct (forallb_dot_false_not_dots e Hd) as [H1 H2].
  repeat split; auto. intros ->. discriminate.
Qed.

Theorem check_file_path_clean p : check_file_path p = None -> path_clean p = p.
Proof.
  intros H. destruct (check_file_path_elems p H) as (els & Hne & -> & Hg & _).
  apply path_clean_join_good; assumption.
Qed.

Lemma span_app_stop (p : Z -> bool) a c r :
  forallb p a = true -> p c = false -> span p (a ++ c :: r) = (a, c :: r).
Proof.
  induction a as [|x a IH]; intros Ha Hc; cbn.
  - rewrite Hc. reflexivity.
  - cbn in Ha. apply andb_true_iff in Ha. destruct Ha as [Hx Ha]. rewrite Hx, IH; auto.
Qed.

Lemma span_all (p : Z -> bool) a : forallb p a = true -> span p a = (a, []).
Proof.
  induction a as [|x a IH]; intros Ha; cbn; [reflexivity|].
  cbn in Ha. apply andb_true_iff in Ha. destruct Ha as [Hx Ha]. rewrite Hx, IH; auto.
Qed.

Lemma no47_forallb e : ~ In 47 e -> forallb (fun c => negb (c =? 47)) e = true.
Proof.
  induction e as [|c e IH]; intros H; cbn; [reflexivity|].
  destruct (Z.eqb_spec c 47) as [->|_]; [exfalso; apply H; now left|].
  apply IH. intros Hin. apply H. now right.
Qed.

Lemma join_slash_snoc els e : els <> [] -> join_slash (els ++ [e]) = join_slash els ++ 47 :: e.
Proof.
  induction els as [|x els IH]; intros Hne; [contradiction|].
  destruct els as [|y els]; [reflexivity|].
  change (join_slash ((x :: y :: els) ++ [e])) with (x ++ 47 :: join_slash ((y :: els) ++ [e])).
  rewrite IH by discriminate.
  change (join_slash (x :: y :: els)) with (x ++ 47 :: join_slash (y :: els)).
  rewrite <- app_assoc. reflexivity.
Qed.

Lemma join_slash_app a b : a <> [] -> b <> [] -> join_slash (a ++ b) = join_slash a ++ 47 :: join_slash b.
Proof.
  revert a. induction b as [|e b IH]; intros a Ha Hb; [contradiction|].
  destruct b as [|e2 b].
  - apply join_slash_snoc. exact Ha.
  - replace (a ++ e :: e2 :: b) with ((a ++ [e]) ++ e2 :: b) by (rewrite <- app_assoc; reflexivity).
    rewrite IH; [|destruct a; discriminate|discriminate].
    rewrite join_slash_snoc by exact Ha.
    change (join_slash (e :: e2 :: b)) with (e ++ 47 :: join_slash (e2 :: b)).
    rewrite <- app_assoc. reflexivity.
Qed.

Lemma path_split_no_slash e : ~ In 47 e -> path_split e = ([], e).
Proof.
  intros H. unfold path_split.
  rewrite span_all.
  - cbn. now rewrite rev_involutive.
  - apply no47_forallb. intros Hin. apply H. now apply in_rev.
Qed.

Lemma path_split_app x e : ~ In 47 e -> path_split (x ++ 47 :: e) = (x ++ [47], e).
Proof.
  intros H. unfold path_split.
  rewrite rev_app_distr. cbn [rev]. rewrite <- app_assoc. cbn [app].
  rewrite span_app_stop; [| |reflexivity].
  - cbn [rev]. now rewrite !rev_involutive.
  - apply no47_forallb. intros Hin. apply H. now apply in_rev.
Qed.

Lemma split_on_join_app els r :
  els <> [] -> Forall (fun e => ~ In 47 e) els ->
  split_on 47 (join_slash els ++ 47 :: r) = els ++ split_on 47 r.
Proof.
  induction els as [|e els IH]; intros Hne H; [contradiction|].
  inversion H as [|? ? He Hr]; subst.
  destruct els as [|e2 els].
  - cbn [join_slash app]. apply split_on_app_sep. exact He.
  - change (join_slash (e :: e2 :: els)) with (e ++ 47 :: join_slash (e2 :: els)).
    rewrite <- app_assoc. cbn [app]. rewrite split_on_app_sep by exact He.
    rewrite IH; [reflexivity|discriminate|exact Hr].
Qed.

Lemma clean_stack_app rooted a b : forall st,
  clean_stack rooted (a ++ b) st = clean_stack rooted b (clean_stack rooted a st).
Proof.
  induction a as [|e a IH]; intros st; [reflexivity|].
  cbn [app clean_stack].
  destruct (is_nil_s e || str_eqb e dot); [apply IH|].
  destruct (str_eqb e dotdot); [|apply IH].
  destruct st as [|top st']; [destruct rooted; apply IH|].
  destruct (str_eqb top dotdot); apply IH.
Qed.

(* path.Dir of a relative path of good elements *)
Theorem path_dir_join_snoc els e :
  Forall good_elem els -> good_elem e ->
  path_dir (join_slash (els ++ [e])) = match els with [] => dot | _ => join_slash els end.
Proof.
  intros H (He & Hs & _). unfold path_dir.
  destruct els as [|x els].
  - cbn [app join_slash]. rewrite path_split_no_slash by exact Hs. reflexivity.
  - rewrite join_slash_snoc by discriminate. rewrite path_split_app by exact Hs. cbn [fst].
    set (l := x :: els) in *.
    unfold path_clean.
    destruct (join_slash l ++ [47]) as [|c r] eqn:E.
    { destruct (join_slash l); discriminate. }
    assert (Hc : c <> 47).
    { destruct (join_slash l) as [|c0 r0] eqn:E2.
      - exfalso. eapply join_slash_nil_iff; [exact H|discriminate|exact E2].
      - cbn in E. injection E as -> _. eapply join_slash_head; eauto. }
    destruct (Z.eqb_spec c 47) as [->|_]; [contradiction|].
    rewrite <- E. rewrite split_on_join_app; [|discriminate|apply good_elem_no47; exact H].
    cbn [split_on]. rewrite clean_stack_app. rewrite (clean_stack_good false l [] H).
    cbn [clean_stack is_nil_s orb]. rewrite app_nil_r, rev_involutive.
    destruct (join_slash l) eqn:E2; [exfalso; eapply join_slash_nil_iff; [exact H|discriminate|exact E2]|].
    reflexivity.
Qed.

Definition abs_path (els : list str) : str := 47 :: join_slash els.

Theorem path_dir_abs_snoc els e :
  Forall good_elem els -> good_elem e ->
  path_dir (abs_path (els ++ [e])) = abs_path els.
Proof.
  intros H (He & Hs & _). unfold path_dir, abs_path.
  destruct els as [|x els].
  - cbn [app join_slash]. change (47 :: e) with ([] ++ 47 :: e). rewrite path_split_app by exact Hs.
    reflexivity.
  - set (l := x :: els) in *.
    rewrite join_slash_snoc by discriminate.
    change (47 :: join_slash l ++ 47 :: e) with ((47 :: join_slash l) ++ 47 :: e).
    rewrite path_split_app by exact Hs. cbn [fst].
    unfold path_clean. cbn [app]. rewrite Z.eqb_refl.
    change (47 :: join_slash l ++ [47]) with ([] ++ 47 :: (join_slash l ++ [47])).
    rewrite split_on_app_sep by (intros []).
    rewrite split_on_join_app; [|discriminate|apply good_elem_no47; exact H].
    change (clean_stack true ([] :: l ++ split_on 47 []) []) with (clean_stack true (l ++ split_on 47 []) []).
    rewrite clean_stack_app. rewrite (clean_stack_good true l [] H).
    cbn [split_on clean_stack is_nil_s orb]. rewrite app_nil_r, rev_involutive. reflexivity.
Qed.

(* filepath.Join(dir, name) for a clean absolute dir other than "/" and a valid file path *)
Theorem filepath_join_abs ds ps :
  ds <> [] -> ps <> [] -> Forall good_elem ds -> Forall good_elem ps ->
  filepath_join (abs_path ds) (join_slash ps) = abs_path (ds ++ ps).
Proof.
  intros Hd Hp Hgd Hgp. unfold filepath_join, abs_path. cbn [is_nil_s negb].
  replace ((47 :: join_slash ds) ++ 47 :: join_slash ps) with (47 :: join_slash (ds ++ ps)).
  - apply path_clean_abs_join. apply Forall_app. split; assumption.
  - rewrite join_slash_app by assumption. reflexivity.
Qed.

Theorem check_file_path_no_escape dir p :
  (exists ds, ds <> [] /\ Forall good_elem ds /\ dir = abs_path ds) ->
  check_file_path p = None ->
  filepath_join dir p = dir ++ 47 :: p.
Proof.
  intros (ds & Hd & Hgd & ->) Hp.
  destruct (check_file_path_elems p Hp) as (ps & Hne & -> & Hgp & _).
  rewrite filepath_join_abs by assumption.
  unfold abs_path. rewrite join_slash_app by assumption. reflexivity.
Qed.
